//! Correspondence harness: runs a history (spec file) on the real crate, prints the
//! implementation trace on stdout and writes the enriched history for the model driver
//! (sinc table rows, recorded FFT unit results) to the file given as second argument.
use rubato::sinc_interpolator::sinc_interpolator_avx::AvxInterpolator;
use rubato::sinc_interpolator::sinc_interpolator_sse::SseInterpolator;
use rubato::sinc_interpolator::{ScalarInterpolator, SincInterpolator};
use rubato::verif_hooks as hooks;
use rubato::{
    FastFixedIn, FastFixedOut, FftFixedIn, FftFixedInOut, FftFixedOut, PolynomialDegree,
    ResampleError, Resampler, ResamplerConstructionError, Sample, SincFixedIn, SincFixedOut, VecResampler,
    SincInterpolationParameters, SincInterpolationType, WindowFunction,
};
use std::collections::HashMap;
use std::io::Write;
use std::panic::{catch_unwind, AssertUnwindSafe};

mod alloc_count;

thread_local! {
    /// When set, trace lines of this thread are collected instead of printed (thread modes).
    static SINK: std::cell::RefCell<Option<Vec<String>>> = const { std::cell::RefCell::new(None) };
}

fn emit(s: String) {
    let printed = SINK.with(|k| {
        if let Some(v) = k.borrow_mut().as_mut() {
            v.push(s.clone());
            true
        } else {
            false
        }
    });
    if !printed {
        std::println!("{}", s);
    }
}

macro_rules! println {
    ($($a:tt)*) => { crate::emit(format!($($a)*)) };
}

/// Run `f` on a freshly spawned thread (the resampler migrates there for this call) and bring
/// its trace lines back.
fn on_other_thread<F: FnOnce() + Send>(f: F) {
    let lines = std::thread::scope(|sc| {
        sc.spawn(|| {
            SINK.with(|k| *k.borrow_mut() = Some(Vec::new()));
            f();
            SINK.with(|k| k.borrow_mut().take().unwrap_or_default())
        })
        .join()
        .unwrap()
    });
    for l in lines {
        emit(l);
    }
}

trait Smp: Sample + std::fmt::Debug + std::str::FromStr + 'static {
    const F32: bool;
    fn from_hex(h: &str) -> Self;
    fn hex(&self) -> String;
}
impl Smp for f64 {
    const F32: bool = false;
    fn from_hex(h: &str) -> Self {
        f64::from_bits(u64::from_str_radix(h, 16).unwrap())
    }
    fn hex(&self) -> String {
        if self.is_nan() {
            "7ff8000000000000".to_string()
        } else {
            format!("{:016x}", self.to_bits())
        }
    }
}
impl Smp for f32 {
    const F32: bool = true;
    fn from_hex(h: &str) -> Self {
        f32::from_bits(u32::from_str_radix(h, 16).unwrap())
    }
    fn hex(&self) -> String {
        if self.is_nan() {
            "7fc00000".to_string()
        } else {
            format!("{:08x}", self.to_bits())
        }
    }
}

fn f64_hex(x: f64) -> String {
    x.hex()
}

fn kv(line: &str) -> HashMap<String, String> {
    let mut m = HashMap::new();
    for tok in line.split(' ') {
        if let Some(i) = tok.find('=') {
            m.insert(tok[..i].to_string(), tok[i + 1..].to_string());
        }
    }
    m
}
fn get<'a>(m: &'a HashMap<String, String>, k: &str) -> &'a str {
    m.get(k).unwrap_or_else(|| panic!("missing field {}", k))
}
fn geti(m: &HashMap<String, String>, k: &str) -> usize {
    get(m, k).parse().unwrap()
}
fn getf(m: &HashMap<String, String>, k: &str) -> f64 {
    f64::from_hex(get(m, k))
}

fn samples<T: Smp>(s: &str) -> Vec<T> {
    let mut v = Vec::new();
    if s.is_empty() {
        return v;
    }
    for tok in s.split(',') {
        if let Some(i) = tok.find('*') {
            let n: usize = tok[..i].parse().unwrap();
            let x = T::from_hex(&tok[i + 1..]);
            v.extend(std::iter::repeat(x).take(n));
        } else {
            v.push(T::from_hex(tok));
        }
    }
    v
}
fn chans<T: Smp>(s: &str) -> Vec<Vec<T>> {
    if s == "~" {
        return Vec::new();
    }
    s.split(';').map(|c| samples::<T>(c)).collect()
}
fn mask(s: &str) -> Option<Vec<bool>> {
    if s == "-" {
        None
    } else if s == "~" {
        Some(Vec::new())
    } else {
        Some(s.chars().map(|c| c == '1').collect())
    }
}
fn str_samples<T: Smp>(v: &[T]) -> String {
    v.iter().map(|x| x.hex()).collect::<Vec<_>>().join(",")
}

enum R<T: Smp> {
    FastIn(FastFixedIn<T>),
    FastOut(FastFixedOut<T>),
    SincIn(SincFixedIn<T>),
    SincOut(SincFixedOut<T>),
    FftIn(FftFixedIn<T>),
    FftOut(FftFixedOut<T>),
    FftInOut(FftFixedInOut<T>),
}

macro_rules! each {
    ($r:expr, $x:ident => $e:expr) => {
        match $r {
            R::FastIn($x) => $e,
            R::FastOut($x) => $e,
            R::SincIn($x) => $e,
            R::SincOut($x) => $e,
            R::FftIn($x) => $e,
            R::FftOut($x) => $e,
            R::FftInOut($x) => $e,
        }
    };
}

fn print_err(e: &ResampleError) {
    match e {
        ResampleError::RatioOutOfBounds {
            provided,
            original,
            max_relative_ratio,
        } => println!(
            "R err RatioOutOfBounds {} {} {}",
            f64_hex(*provided),
            f64_hex(*original),
            f64_hex(*max_relative_ratio)
        ),
        ResampleError::SyncNotAdjustable => println!("R err SyncNotAdjustable"),
        ResampleError::WrongNumberOfInputChannels { expected, actual } => {
            println!("R err WrongNumberOfInputChannels {} {}", expected, actual)
        }
        ResampleError::WrongNumberOfOutputChannels { expected, actual } => {
            println!("R err WrongNumberOfOutputChannels {} {}", expected, actual)
        }
        ResampleError::WrongNumberOfMaskChannels { expected, actual } => {
            println!("R err WrongNumberOfMaskChannels {} {}", expected, actual)
        }
        ResampleError::InsufficientInputBufferSize {
            channel,
            expected,
            actual,
        } => println!(
            "R err InsufficientInputBufferSize {} {} {}",
            channel, expected, actual
        ),
        ResampleError::InsufficientOutputBufferSize {
            channel,
            expected,
            actual,
        } => println!(
            "R err InsufficientOutputBufferSize {} {} {}",
            channel, expected, actual
        ),
        ResampleError::InvalidChunkSize { max, requested } => {
            println!("R err InvalidChunkSize {} {}", max, requested)
        }
        ResampleError::ChunkSizeNotAdjustable => println!("R err ChunkSizeNotAdjustable"),
    }
}

fn print_chans<T: Smp>(tag: &str, v: &[Vec<T>]) {
    for (i, c) in v.iter().enumerate() {
        println!("{} {} {}", tag, i, str_samples(c));
    }
}

fn state_line(st: &[u64], float_idx: &[usize]) -> String {
    let mut parts = Vec::new();
    for (i, v) in st.iter().enumerate() {
        if float_idx.contains(&i) {
            parts.push(f64_hex(f64::from_bits(*v)));
        } else {
            parts.push(format!("{}", v));
        }
    }
    format!("S {}", parts.join(" "))
}

fn print_state<T: Smp>(r: &R<T>) {
    let g = each!(r, x => (
        Resampler::input_frames_max(x), Resampler::input_frames_next(x), Resampler::output_frames_max(x),
        Resampler::output_frames_next(x), Resampler::output_delay(x), Resampler::nbr_channels(x)));
    println!("G {} {} {} {} {} {}", g.0, g.1, g.2, g.3, g.4, g.5);
    // the object-safe wrapper must forward every size query unchanged (C16); silent when it does
    let v = each!(r, x => (
        VecResampler::input_frames_max(x), VecResampler::input_frames_next(x), VecResampler::output_frames_max(x),
        VecResampler::output_frames_next(x), VecResampler::output_delay(x), VecResampler::nbr_channels(x)));
    if v != g {
        println!("GV MISMATCH {} {} {} {} {} {}", v.0, v.1, v.2, v.3, v.4, v.5);
    }
    // input_buffer_allocate / output_buffer_allocate (trait and object-safe wrapper): nbr_channels() vectors of
    // input_frames_max() / output_frames_max() frames (filled) or of that capacity (not filled); silent when they are
    let (imax, omax, nch) = (g.0, g.2, g.5);
    if imax.saturating_mul(nch.max(1)) <= 2_000_000 && omax.saturating_mul(nch.max(1)) <= 2_000_000 {
        let ok = each!(r, x => {
            let a = Resampler::input_buffer_allocate(x, true);
            let b = Resampler::input_buffer_allocate(x, false);
            let c = Resampler::output_buffer_allocate(x, true);
            let d = Resampler::output_buffer_allocate(x, false);
            let va = VecResampler::input_buffer_allocate(x, true);
            let vc = VecResampler::output_buffer_allocate(x, false);
            a.len() == nch && a.iter().all(|w| w.len() == imax)
                && b.len() == nch && b.iter().all(|w| w.is_empty() && w.capacity() >= imax)
                && c.len() == nch && c.iter().all(|w| w.len() == omax)
                && d.len() == nch && d.iter().all(|w| w.is_empty() && w.capacity() >= omax)
                && va.len() == nch && va.iter().all(|w| w.len() == imax)
                && vc.len() == nch && vc.iter().all(|w| w.is_empty() && w.capacity() >= omax)
        });
        if !ok {
            println!("AL MISMATCH");
        }
    }
    match r {
        R::FastIn(x) => {
            println!("{}", state_line(&x.verif_state(), &[1, 2, 3]));
            print_chans("B", x.verif_buffers());
        }
        R::FastOut(x) => {
            println!("{}", state_line(&x.verif_state(), &[1, 2, 3]));
            print_chans("B", x.verif_buffers());
        }
        R::SincIn(x) => {
            println!("{}", state_line(&x.verif_state(), &[1, 2, 3]));
            print_chans("B", x.verif_buffers());
        }
        R::SincOut(x) => {
            println!("{}", state_line(&x.verif_state(), &[1, 2, 3]));
            print_chans("B", x.verif_buffers());
        }
        R::FftIn(x) => {
            println!("{}", state_line(&x.verif_state(), &[]));
            let (a, b) = x.verif_buffers();
            let mut all = a.clone();
            all.extend(b.iter().cloned());
            print_chans("B", &all);
        }
        R::FftOut(x) => {
            println!("{}", state_line(&x.verif_state(), &[]));
            let (a, b) = x.verif_buffers();
            let mut all = a.clone();
            all.extend(b.iter().cloned());
            print_chans("B", &all);
        }
        R::FftInOut(x) => {
            println!("{}", state_line(&x.verif_state(), &[]));
            print_chans("B", x.verif_buffers());
        }
    }
}

fn degree(s: &str) -> PolynomialDegree {
    match s {
        "0" => PolynomialDegree::Septic,
        "1" => PolynomialDegree::Quintic,
        "2" => PolynomialDegree::Cubic,
        "3" => PolynomialDegree::Linear,
        _ => PolynomialDegree::Nearest,
    }
}
fn itype(s: &str) -> SincInterpolationType {
    match s {
        "0" => SincInterpolationType::Cubic,
        "1" => SincInterpolationType::Quadratic,
        "2" => SincInterpolationType::Linear,
        _ => SincInterpolationType::Nearest,
    }
}
fn window(s: &str) -> WindowFunction {
    match s {
        "0" => WindowFunction::Blackman,
        "1" => WindowFunction::Blackman2,
        "2" => WindowFunction::BlackmanHarris,
        "3" => WindowFunction::BlackmanHarris2,
        "4" => WindowFunction::Hann,
        _ => WindowFunction::Hann2,
    }
}

fn cerr_line(e: &ResamplerConstructionError) -> String {
    match e {
        ResamplerConstructionError::InvalidSampleRate { input, output } => {
            format!("NEW err InvalidSampleRate {} {}", input, output)
        }
        ResamplerConstructionError::InvalidRelativeRatio(v) => {
            format!("NEW err InvalidRelativeRatio {}", f64_hex(*v))
        }
        ResamplerConstructionError::InvalidRatio(v) => {
            format!("NEW err InvalidRatio {}", f64_hex(*v))
        }
    }
}

/// Read the table out of an interpolator through its public entry point, using unit impulses.
fn read_table<T: Smp>(ip: &dyn SincInterpolator<T>) -> Vec<Vec<T>> {
    let len = ip.len();
    let nbr = ip.nbr_sincs();
    let mut rows = Vec::new();
    let mut wave = vec![T::zero(); len + 1];
    for sub in 0..nbr {
        let mut row = Vec::with_capacity(len);
        for i in 0..len {
            wave[i] = T::one();
            row.push(ip.get_sinc_interpolated(&wave, 0, sub));
            wave[i] = T::zero();
        }
        rows.push(row);
    }
    rows
}

/// Which kernel make_interpolator dispatches to on this CPU (0 scalar, 1 sse32, 2 sse64, 3 avx32, 4 avx64).
fn kernel_code<T: Smp>(which: &str) -> usize {
    let avx = is_x86_feature_detected!("avx") && is_x86_feature_detected!("fma");
    let sse = is_x86_feature_detected!("sse3");
    let k = match which {
        "default" => {
            if avx {
                "avx"
            } else if sse {
                "sse"
            } else {
                "scalar"
            }
        }
        w => w,
    };
    match (k, T::F32) {
        ("scalar", _) => 0,
        ("sse", true) => 1,
        ("sse", false) => 2,
        ("avx", true) => 3,
        ("avx", false) => 4,
        _ => 0,
    }
}

/// A hand-written implementation of the public `SincInterpolator` trait, as a user of `new_with_interpolator` may supply:
/// any number of taps (odd ones included, which the bundled kernels never have), plain sequential dot product.
struct PlainInterpolator<T> {
    sincs: Vec<Vec<T>>,
    len: usize,
}

impl<T: Smp> SincInterpolator<T> for PlainInterpolator<T> {
    fn get_sinc_interpolated(&self, wave: &[T], index: usize, subindex: usize) -> T {
        let w = &wave[index..index + self.len];
        let mut acc = T::zero();
        for (a, b) in w.iter().zip(self.sincs[subindex].iter()) {
            acc = acc + *a * *b;
        }
        acc
    }
    fn len(&self) -> usize {
        self.len
    }
    fn nbr_sincs(&self) -> usize {
        self.sincs.len()
    }
}

fn plain_ip<T: Smp>(len: usize, factor: usize, fcut: f32) -> PlainInterpolator<T> {
    let mut sincs = Vec::new();
    for sub in 0..factor {
        let mut row = Vec::new();
        for i in 0..len {
            // Hann-windowed sinc centred on tap len/2, shifted by sub/factor of a sample (newest sample first, like the crate)
            let x = (i as f64) - (len / 2) as f64 + (sub as f64) / (factor as f64);
            let a = std::f64::consts::PI * x * fcut as f64;
            let sinc = if a == 0.0 { 1.0 } else { a.sin() / a };
            let w = 0.5 + 0.5 * (std::f64::consts::PI * x / ((len as f64) / 2.0 + 1.0)).cos();
            row.push(to_t::<T>(fcut as f64 * sinc * w));
        }
        sincs.push(row);
    }
    PlainInterpolator { sincs, len }
}

fn make_ip<T: Smp>(which: &str, m: &HashMap<String, String>) -> Box<dyn SincInterpolator<T>> {
    let slen = geti(m, "slen");
    let factor = geti(m, "factor");
    let fcut = f32::from_hex(get(m, "fcut"));
    let ratio = getf(m, "ratio");
    let win = window(get(m, "window"));
    match which {
        "default" => hooks::sinc::make_interpolator::<T>(slen, ratio, fcut, factor, win),
        // explicit kernels: the caller of new_with_interpolator chooses length and cut-off itself
        "scalar" => Box::new(ScalarInterpolator::<T>::new(slen, factor, fcut, win)),
        "sse" => Box::new(SseInterpolator::<T>::new(slen, factor, fcut, win).unwrap()),
        "avx" => Box::new(AvxInterpolator::<T>::new(slen, factor, fcut, win).unwrap()),
        "plain" => Box::new(plain_ip::<T>(slen, factor, fcut)),
        w => panic!("unknown interpolator {}", w),
    }
}

struct Ctx<T: Smp> {
    r: Option<R<T>>,
    hist: std::fs::File,
    dead: bool,
    fed: Vec<u64>,
    pending: Vec<u64>,
}

fn splitmix(state: &mut u64) -> u64 {
    *state = state.wrapping_add(0x9E3779B97F4A7C15);
    let mut z = *state;
    z = (z ^ (z >> 30)).wrapping_mul(0xBF58476D1CE4E5B9);
    z = (z ^ (z >> 27)).wrapping_mul(0x94D049BB133111EB);
    z ^ (z >> 31)
}

fn to_t<T: Smp>(x: f64) -> T {
    T::coerce(x)
}

/// Resolve a symbolic length (`next`, `next+3`, `max-1`, `abs:17`) against the current getters.
fn resolve_len(spec: &str, next: usize, max: usize) -> usize {
    if let Some(rest) = spec.strip_prefix("c1:") {
        // at least one frame
        return resolve_len(rest, next, max).max(1);
    }
    if let Some(n) = spec.strip_prefix("abs:") {
        return n.parse().unwrap();
    }
    let (base, rest) = if let Some(r) = spec.strip_prefix("next") {
        (next as i64, r)
    } else if let Some(r) = spec.strip_prefix("max") {
        (max as i64, r)
    } else {
        panic!("bad length spec {}", spec)
    };
    let delta: i64 = if rest.is_empty() { 0 } else { rest.parse().unwrap() };
    (base + delta).max(0) as usize
}

/// One channel of signal: `rand:<seed>`, `ramp`, `imp:<stream pos>`, `const:<f64 hex>`,
/// `poly:<c0 hex>:<c1 hex>:...` (in the stream position), `sine:<freq hex>:<phase hex>`, `zero`.
fn gen_signal<T: Smp>(sig: &str, chan: usize, start: u64, n: usize) -> Vec<T> {
    let parts: Vec<&str> = sig.split(':').collect();
    match parts[0] {
        "zero" => vec![T::zero(); n],
        "rand" => {
            // a function of (seed, channel, absolute stream position): independent of chunking
            let seed: u64 = parts[1].parse().unwrap();
            (0..n)
                .map(|i| {
                    let mut st = seed
                        ^ ((chan as u64 + 1).wrapping_mul(0xD1B54A32D192ED03))
                        ^ (start + i as u64).wrapping_mul(0x2545F4914F6CDD1D);
                    let u = (splitmix(&mut st) >> 11) as f64 / (1u64 << 53) as f64;
                    to_t::<T>(2.0 * u - 1.0)
                })
                .collect()
        }
        "ramp" => (0..n).map(|i| to_t::<T>((start + i as u64) as f64 + 1000.0 * chan as f64)).collect(),
        "imp" => {
            let pos: u64 = parts[1].parse().unwrap();
            (0..n)
                .map(|i| if start + i as u64 == pos { T::one() } else { T::zero() })
                .collect()
        }
        "const" => vec![to_t::<T>(f64::from_hex(parts[1])); n],
        "bump" => {
            // bump:<centre>:<width>: a smooth pulse exp(-((x - centre) / width)^2), wide enough to survive decimation
            let pos: f64 = parts[1].parse().unwrap();
            let w: f64 = parts[2].parse().unwrap();
            (0..n)
                .map(|i| {
                    let d = ((start + i as u64) as f64 - pos) / w;
                    to_t::<T>((-d * d).exp())
                })
                .collect()
        }
        "tiny" => {
            // tiny:<seed>: random values in the subnormal range of the sample type (and a few normal ones just above it)
            let seed: u64 = parts[1].parse().unwrap();
            (0..n)
                .map(|i| {
                    let mut st = seed
                        ^ ((chan as u64 + 1).wrapping_mul(0xD1B54A32D192ED03))
                        ^ (start + i as u64).wrapping_mul(0x2545F4914F6CDD1D);
                    let u = (splitmix(&mut st) >> 11) as f64 / (1u64 << 53) as f64;
                    let scale = if std::mem::size_of::<T>() == 4 { 2.0f64.powi(-127) } else { 2.0f64.powi(-1023) };
                    to_t::<T>((2.0 * u - 1.0) * 3.0 * scale)
                })
                .collect()
        }
        "poly" => {
            let cs: Vec<f64> = parts[1..].iter().map(|h| f64::from_hex(h)).collect();
            (0..n)
                .map(|i| {
                    let x = (start + i as u64) as f64;
                    let mut acc = 0.0;
                    for c in cs.iter().rev() {
                        acc = acc * x + c;
                    }
                    to_t::<T>(acc)
                })
                .collect()
        }
        "mix" => {
            // sum of sines: mix:f1:ph1:a1:f2:ph2:a2:...
            let comps: Vec<(f64, f64, f64)> = parts[1..]
                .chunks(3)
                .map(|c| (f64::from_hex(c[0]), f64::from_hex(c[1]), f64::from_hex(c[2])))
                .collect();
            (0..n)
                .map(|i| {
                    let x = (start + i as u64) as f64;
                    let mut acc = 0.0;
                    for (f, ph, a) in comps.iter() {
                        acc += a * (2.0 * std::f64::consts::PI * f * x + ph).sin();
                    }
                    to_t::<T>(acc)
                })
                .collect()
        }
        "sine" => {
            let f = f64::from_hex(parts[1]);
            let ph = f64::from_hex(parts[2]);
            (0..n)
                .map(|i| to_t::<T>((2.0 * std::f64::consts::PI * f * (start + i as u64) as f64 + ph).sin()))
                .collect()
        }
        s => panic!("unknown signal {}", s),
    }
}

/// Expand symbolic `inlen=`/`outlen=`/`sig=` fields into concrete `in=`/`out=` fields.
fn expand<T: Smp>(cx: &mut Ctx<T>, line: &str, m: &HashMap<String, String>) -> String {
    if !(m.contains_key("inlen") || m.contains_key("outlen")) {
        return line.to_string();
    }
    let r = cx.r.as_ref().unwrap();
    let (imax, inext, omax, onext, nch) = each!(r, x => (
        Resampler::input_frames_max(x), Resampler::input_frames_next(x), Resampler::output_frames_max(x),
        Resampler::output_frames_next(x), Resampler::nbr_channels(x)));
    if cx.fed.len() < nch + 8 {
        cx.fed.resize(nch + 8, 0);
    }
    let mut out = Vec::new();
    for tok in line.split(' ') {
        if tok.starts_with("inlen=") || tok.starts_with("outlen=") || tok.starts_with("sig=") || tok.starts_with("adv=") || tok.starts_with("chan=") {
            continue;
        }
        out.push(tok.to_string());
    }
    if let Some(spec) = m.get("inlen") {
        if spec == "none" {
            out.push("in=none".to_string());
        } else if spec == "~" {
            out.push("in=~".to_string());
        } else {
            let sig = m.get("sig").map(|s| s.as_str()).unwrap_or("zero");
            let specs: Vec<&str> = spec.split(';').collect();
            let mut chs = Vec::new();
            let chan_off: usize = m.get("chan").map(|v| v.parse().unwrap()).unwrap_or(0);
            for (c0, sp) in specs.iter().enumerate() {
                let n = resolve_len(sp, inext, imax);
                // signal channel index (a single-channel twin can be fed channel k's signal)
                let c = c0 + chan_off;
                // `pad@<len>@<signal>`: the signal for the first <len> frames, zeros afterwards
                let mut v = if let Some(rest) = sig.strip_prefix("pad@") {
                    let mut it = rest.splitn(2, '@');
                    let keeps: Vec<&str> = it.next().unwrap().split('|').collect();
                    let keep = resolve_len(keeps[c0.min(keeps.len() - 1)], inext, imax);
                    let inner = it.next().unwrap();
                    let mut w = gen_signal::<T>(inner, c, cx.fed[c0], n);
                    for x in w.iter_mut().skip(keep) {
                        *x = T::zero();
                    }
                    w
                } else {
                    gen_signal::<T>(sig, c, cx.fed[c0], n)
                };
                if n == 0 {
                    v.clear();
                }
                // the stream advances by what the resampler consumes (at most what is supplied),
                // and only if the call succeeds
                if cx.pending.len() <= c0 {
                    cx.pending.resize(c0 + 1, 0);
                }
                cx.pending[c0] = match m.get("adv") {
                    Some(a) => {
                        let advs: Vec<&str> = a.split('|').collect();
                        resolve_len(advs[c0.min(advs.len() - 1)], inext, imax).min(inext) as u64
                    }
                    None => n.min(inext) as u64,
                };
                chs.push(str_samples(&v));
            }
            out.push(format!("in={}", chs.join(";")));
        }
    }
    if let Some(spec) = m.get("outlen") {
        if spec == "~" {
            out.push("out=~".to_string());
        } else {
            let sentinel: T = to_t::<T>(1234.5);
            let chs: Vec<String> = spec
                .split(';')
                .map(|sp| {
                    let n = resolve_len(sp, onext, omax);
                    if n == 0 {
                        String::new()
                    } else {
                        format!("{}*{}", n, sentinel.hex())
                    }
                })
                .collect();
            out.push(format!("out={}", chs.join(";")));
        }
    }
    out.join(" ")
}

fn flush() {
    std::io::stdout().flush().unwrap();
}

fn do_new<T: Smp>(cx: &mut Ctx<T>, line: &str, m: &HashMap<String, String>) {
    let kind = get(m, "kind").to_string();
    let res: Result<R<T>, ResamplerConstructionError> = match kind.as_str() {
        "fastin" => FastFixedIn::<T>::new(
            getf(m, "ratio"),
            getf(m, "maxrel"),
            degree(get(m, "deg")),
            geti(m, "chunk"),
            geti(m, "nch"),
        )
        .map(R::FastIn),
        "fastout" => FastFixedOut::<T>::new(
            getf(m, "ratio"),
            getf(m, "maxrel"),
            degree(get(m, "deg")),
            geti(m, "chunk"),
            geti(m, "nch"),
        )
        .map(R::FastOut),
        "sincin" | "sincout" => {
            let which = get(m, "interp");
            let r: Result<R<T>, ResamplerConstructionError> = if which == "default" {
                // the public constructor (runs make_interpolator and the CPU dispatch)
                let params = SincInterpolationParameters {
                    sinc_len: geti(m, "slen"),
                    f_cutoff: f32::from_hex(get(m, "fcut")),
                    oversampling_factor: geti(m, "factor"),
                    interpolation: itype(get(m, "itype")),
                    window: window(get(m, "window")),
                };
                if kind == "sincin" {
                    SincFixedIn::<T>::new(
                        getf(m, "ratio"),
                        getf(m, "maxrel"),
                        params,
                        geti(m, "chunk"),
                        geti(m, "nch"),
                    )
                    .map(R::SincIn)
                } else {
                    SincFixedOut::<T>::new(
                        getf(m, "ratio"),
                        getf(m, "maxrel"),
                        params,
                        geti(m, "chunk"),
                        geti(m, "nch"),
                    )
                    .map(R::SincOut)
                }
            } else {
                let ip = make_ip::<T>(which, m);
                if kind == "sincin" {
                    SincFixedIn::<T>::new_with_interpolator(
                        getf(m, "ratio"),
                        getf(m, "maxrel"),
                        itype(get(m, "itype")),
                        ip,
                        geti(m, "chunk"),
                        geti(m, "nch"),
                    )
                    .map(R::SincIn)
                } else {
                    SincFixedOut::<T>::new_with_interpolator(
                        getf(m, "ratio"),
                        getf(m, "maxrel"),
                        itype(get(m, "itype")),
                        ip,
                        geti(m, "chunk"),
                        geti(m, "nch"),
                    )
                    .map(R::SincOut)
                }
            };
            // table, length and kernel kind for the model
            let (len, nbr, rows) = match &r {
                Ok(R::SincIn(x)) => {
                    let ip = x.verif_interpolator();
                    (ip.len(), ip.nbr_sincs(), read_table(ip))
                }
                Ok(R::SincOut(x)) => {
                    let ip = x.verif_interpolator();
                    (ip.len(), ip.nbr_sincs(), read_table(ip))
                }
                _ => {
                    // constructor failed: the model still needs the interpolator dimensions
                    let ip = make_ip::<T>(which, m);
                    (ip.len(), ip.nbr_sincs(), Vec::new())
                }
            };
            for row in rows.iter() {
                writeln!(cx.hist, "ROW v={}", str_samples(row)).unwrap();
            }
            writeln!(
                cx.hist,
                "{} kern={} ilen={} inbr={}",
                line,
                kernel_code::<T>(which),
                len,
                nbr
            )
            .unwrap();
            println!("MI {} {}", len, nbr);
            r
        }
        "fftin" => FftFixedIn::<T>::new(
            geti(m, "rin"),
            geti(m, "rout"),
            geti(m, "chunk"),
            geti(m, "sub"),
            geti(m, "nch"),
        )
        .map(R::FftIn),
        "fftout" => FftFixedOut::<T>::new(
            geti(m, "rin"),
            geti(m, "rout"),
            geti(m, "chunk"),
            geti(m, "sub"),
            geti(m, "nch"),
        )
        .map(R::FftOut),
        "fftinout" => FftFixedInOut::<T>::new(
            geti(m, "rin"),
            geti(m, "rout"),
            geti(m, "chunk"),
            geti(m, "nch"),
        )
        .map(R::FftInOut),
        k => panic!("unknown kind {}", k),
    };
    if !kind.starts_with("sinc") {
        writeln!(cx.hist, "{}", line).unwrap();
    }
    match res {
        Ok(r) => {
            println!("NEW ok");
            print_state(&r);
            cx.r = Some(r);
        }
        Err(e) => println!("{}", cerr_line(&e)),
    }
}

fn parse_f<T: Smp>(s: &str) -> T {
    match s.parse::<T>() {
        Ok(v) => v,
        Err(_) => panic!("cannot parse recorded float {}", s),
    }
}

fn do_op<T: Smp>(cx: &mut Ctx<T>, cmd: &str, line: &str, m: &HashMap<String, String>) {
    if cx.dead || cx.r.is_none() {
        return;
    }
    cx.pending.clear();
    let line_owned = expand(cx, line, m);
    let line: &str = &line_owned;
    let m_owned = kv(line);
    let m = &m_owned;
    writeln!(cx.hist, "{}", line).unwrap();
    cx.hist.flush().unwrap();
    let r = cx.r.as_mut().unwrap();
    let want_allocs = m.contains_key("allocs");
    if !want_allocs {
        // the recorder itself allocates; allocation-counted calls run without it (and without the model)
        hooks::fft::unit_log_start();
    }
    let succeeded = std::cell::Cell::new(false);
    let outcome = catch_unwind(AssertUnwindSafe(|| -> Result<(), ()> {
        match cmd {
            "PIB" => {
                let wi = chans::<T>(get(m, "in"));
                let mut wo = chans::<T>(get(m, "out"));
                let mk = mask(get(m, "mask"));
                let before = alloc_count::events();
                let res = if m.get("via").map(|v| v == "vec").unwrap_or(false) {
                    each!(r, x => VecResampler::process_into_buffer(x, &wi, &mut wo, mk.as_deref()))
                } else {
                    each!(r, x => Resampler::process_into_buffer(x, &wi, &mut wo, mk.as_deref()))
                };
                let after = alloc_count::events();
                match res {
                    Ok((a, b)) => {
                        succeeded.set(true);
                        println!("R counts {} {}", a, b);
                        print_chans("O", &wo);
                    }
                    Err(e) => print_err(&e),
                }
                if want_allocs {
                    println!("A {}", after - before);
                }
            }
            "PROCESS" => {
                let wi = chans::<T>(get(m, "in"));
                let mk = mask(get(m, "mask"));
                let res = if m.get("via").map(|v| v == "vec").unwrap_or(false) {
                    each!(r, x => VecResampler::process(x, &wi, mk.as_deref()))
                } else {
                    each!(r, x => Resampler::process(x, &wi, mk.as_deref()))
                };
                match res {
                    Ok(v) => {
                        succeeded.set(true);
                        println!("R vecs");
                        print_chans("O", &v);
                    }
                    Err(e) => print_err(&e),
                }
            }
            "PARTIALINTO" => {
                let wi = if get(m, "in") == "none" {
                    None
                } else {
                    Some(chans::<T>(get(m, "in")))
                };
                let mut wo = chans::<T>(get(m, "out"));
                let mk = mask(get(m, "mask"));
                let res = if m.get("via").map(|v| v == "vec").unwrap_or(false) {
                    each!(r, x => VecResampler::process_partial_into_buffer(x, wi.as_deref(), &mut wo, mk.as_deref()))
                } else {
                    each!(r, x => Resampler::process_partial_into_buffer(x, wi.as_deref(), &mut wo, mk.as_deref()))
                };
                match res {
                    Ok((a, b)) => {
                        succeeded.set(true);
                        println!("R counts {} {}", a, b);
                        print_chans("O", &wo);
                    }
                    Err(e) => print_err(&e),
                }
            }
            "PARTIAL" => {
                let wi = if get(m, "in") == "none" {
                    None
                } else {
                    Some(chans::<T>(get(m, "in")))
                };
                let mk = mask(get(m, "mask"));
                let res = if m.get("via").map(|v| v == "vec").unwrap_or(false) {
                    each!(r, x => VecResampler::process_partial(x, wi.as_deref(), mk.as_deref()))
                } else {
                    each!(r, x => Resampler::process_partial(x, wi.as_deref(), mk.as_deref()))
                };
                match res {
                    Ok(v) => {
                        succeeded.set(true);
                        println!("R vecs");
                        print_chans("O", &v);
                    }
                    Err(e) => print_err(&e),
                }
            }
            "SETRATIO" => {
                let before = alloc_count::events();
                let via_vec = m.get("via").map(|v| v == "vec").unwrap_or(false);
                let res = if via_vec {
                    each!(r, x => VecResampler::set_resample_ratio(x, getf(m, "x"), get(m, "ramp") == "1"))
                } else {
                    each!(r, x => Resampler::set_resample_ratio(x, getf(m, "x"), get(m, "ramp") == "1"))
                };
                let after = alloc_count::events();
                match res {
                    Ok(()) => println!("R unit"),
                    Err(e) => print_err(&e),
                }
                if want_allocs {
                    println!("A {}", after - before);
                }
            }
            "SETREL" => {
                let before = alloc_count::events();
                let via_vec = m.get("via").map(|v| v == "vec").unwrap_or(false);
                let res = if via_vec {
                    each!(r, x => VecResampler::set_resample_ratio_relative(x, getf(m, "x"), get(m, "ramp") == "1"))
                } else {
                    each!(r, x => Resampler::set_resample_ratio_relative(x, getf(m, "x"), get(m, "ramp") == "1"))
                };
                let after = alloc_count::events();
                match res {
                    Ok(()) => println!("R unit"),
                    Err(e) => print_err(&e),
                }
                if want_allocs {
                    println!("A {}", after - before);
                }
            }
            "SETCHUNK" => {
                let before = alloc_count::events();
                let res = each!(r, x => Resampler::set_chunk_size(x, geti(m, "n")));
                let after = alloc_count::events();
                match res {
                    Ok(()) => println!("R unit"),
                    Err(e) => print_err(&e),
                }
                if want_allocs {
                    println!("A {}", after - before);
                }
            }
            "RESET" => {
                let before = alloc_count::events();
                each!(r, x => Resampler::reset(x));
                let after = alloc_count::events();
                println!("R unit");
                if want_allocs {
                    println!("A {}", after - before);
                }
            }
            c => panic!("unknown command {}", c),
        }
        Ok(())
    }));
    if cmd == "RESET" {
        // the generated signals are functions of the stream position: a reset starts a new stream
        for f in cx.fed.iter_mut() {
            *f = 0;
        }
    }
    if succeeded.get() {
        for (c, n) in cx.pending.iter().enumerate() {
            if c < cx.fed.len() {
                cx.fed[c] += *n;
            }
        }
    }
    let units = hooks::fft::unit_log_take();
    for (i, o) in units.iter() {
        let iv: Vec<T> = i.iter().map(|s| parse_f::<T>(s)).collect();
        let ov: Vec<T> = o.iter().map(|s| parse_f::<T>(s)).collect();
        writeln!(cx.hist, "UNIT i={} o={}", str_samples(&iv), str_samples(&ov)).unwrap();
    }
    match outcome {
        Ok(_) => {
            if want_allocs {
                let before = alloc_count::events();
                let r = cx.r.as_ref().unwrap();
                let _g = each!(r, x => (
                    Resampler::input_frames_max(x), Resampler::input_frames_next(x), Resampler::output_frames_max(x),
                    Resampler::output_frames_next(x), Resampler::output_delay(x), Resampler::nbr_channels(x)));
                let after = alloc_count::events();
                println!("AG {}", after - before);
            }
            print_state(cx.r.as_ref().unwrap());
        }
        Err(_) => {
            println!("R panic");
            cx.dead = true;
        }
    }
    flush();
}

fn do_fn<T: Smp>(m: &HashMap<String, String>) {
    match get(m, "f") {
        "interp" => {
            let x = T::from_hex(get(m, "x"));
            let y = samples::<T>(get(m, "y"));
            let v = match get(m, "name") {
                "fast_septic" => hooks::fast::interp_septic(x, &y),
                "fast_quintic" => hooks::fast::interp_quintic(x, &y),
                "fast_cubic" => hooks::fast::interp_cubic(x, &y),
                "fast_lin" => hooks::fast::interp_lin(x, &y),
                "sinc_cubic" => hooks::sinc::interp_cubic(x, &[y[0], y[1], y[2], y[3]]),
                "sinc_quad" => hooks::sinc::interp_quad(x, &[y[0], y[1], y[2]]),
                "sinc_lin" => hooks::sinc::interp_lin(x, &[y[0], y[1]]),
                n => panic!("unknown interp {}", n),
            };
            println!("V {}", v.hex());
        }
        "nearest" => {
            let t = getf(m, "t");
            let factor = geti(m, "factor") as isize;
            let pts: Vec<(isize, isize)> = match get(m, "n") {
                "1" => vec![hooks::get_nearest_time(t, factor)],
                "2" => {
                    let mut p = [(0isize, 0isize); 2];
                    hooks::get_nearest_times_2(t, factor, &mut p);
                    p.to_vec()
                }
                "3" => {
                    let mut p = [(0isize, 0isize); 3];
                    hooks::get_nearest_times_3(t, factor, &mut p);
                    p.to_vec()
                }
                _ => {
                    let mut p = [(0isize, 0isize); 4];
                    hooks::get_nearest_times_4(t, factor, &mut p);
                    p.to_vec()
                }
            };
            println!(
                "V {}",
                pts.iter()
                    .map(|(a, b)| format!("{}:{}", a, b))
                    .collect::<Vec<_>>()
                    .join(" ")
            );
        }
        "kernel" => {
            // kernel with an explicit one-row table is not constructible through the public API;
            // use a real interpolator (slen, factor, fcut, window) and a given waveform instead.
            let which = get(m, "interp");
            let ip = make_ip::<T>(which, m);
            let w = samples::<T>(get(m, "w"));
            let index = geti(m, "index");
            let sub = geti(m, "sub");
            let v = ip.get_sinc_interpolated(&w, index, sub);
            println!("V {}", v.hex());
        }
        "table" => {
            // rows of the table of a real interpolator (for the model-side kernel evaluation)
            let which = get(m, "interp");
            let ip = make_ip::<T>(which, m);
            println!("MI {} {}", ip.len(), ip.nbr_sincs());
            for row in read_table(ip.as_ref()).iter() {
                println!("ROW v={}", str_samples(row));
            }
        }
        "sinctable" => {
            // make_sincs directly
            let rows = hooks::make_sincs::<T>(
                geti(m, "len"),
                geti(m, "factor"),
                f32::from_hex(get(m, "fc")),
                window(get(m, "window")),
            );
            for row in rows.iter() {
                println!("ROW v={}", str_samples(row));
            }
        }
        "validate" => {
            let inl: Vec<usize> = if get(m, "inl").is_empty() {
                vec![]
            } else {
                get(m, "inl").split(',').map(|x| x.parse().unwrap()).collect()
            };
            let outl: Vec<usize> = if get(m, "outl").is_empty() {
                vec![]
            } else {
                get(m, "outl").split(',').map(|x| x.parse().unwrap()).collect()
            };
            let wi: Vec<Vec<T>> = inl.iter().map(|n| vec![T::zero(); *n]).collect();
            let mut wo: Vec<Vec<T>> = outl.iter().map(|n| vec![T::zero(); *n]).collect();
            let mk = mask(get(m, "mask")).unwrap_or_default();
            let res = catch_unwind(AssertUnwindSafe(|| {
                hooks::validate_buffers(
                    &wi,
                    &mut wo,
                    &mk,
                    geti(m, "ch"),
                    geti(m, "minin"),
                    geti(m, "minout"),
                )
            }));
            match res {
                Ok(Ok(())) => println!("R unit"),
                Ok(Err(e)) => print_err(&e),
                Err(_) => println!("R panic"),
            }
        }
        f => panic!("unknown fn {}", f),
    }
    flush();
}

fn run<T: Smp>(lines: &[String], hist: std::fs::File, migrate: bool, tid: usize) {
    let mut cx = Ctx::<T> {
        r: None,
        hist,
        dead: false,
        fed: Vec::new(),
        pending: Vec::new(),
    };
    for line in lines {
        let line = line.trim();
        if line.is_empty() || line.starts_with('#') {
            continue;
        }
        let cmd = line.split(' ').next().unwrap();
        let m = kv(line);
        match cmd {
            "T" => writeln!(cx.hist, "{}", line).unwrap(),
            "NEW" => {
                let res = catch_unwind(AssertUnwindSafe(|| do_new(&mut cx, line, &m)));
                if res.is_err() {
                    println!("NEW panic");
                    cx.dead = true;
                }
            }
            "WARM" => {
                // only=odd / only=even: in thread mode, only those threads build the extra resampler
                if let Some(o) = m.get("only") {
                    if (o == "odd") != (tid % 2 == 1) {
                        continue;
                    }
                }
                // another resampler is built, used once and dropped on this thread; not part of the history
                let devnull = std::fs::File::create("/dev/null").unwrap();
                let mut other = Ctx::<T> { r: None, hist: devnull, dead: false, fed: Vec::new(), pending: Vec::new() };
                let saved = SINK.with(|k| k.borrow_mut().replace(Vec::new()));
                let _ = catch_unwind(AssertUnwindSafe(|| {
                    do_new(&mut other, line, &m);
                    if other.r.is_some() {
                        let l2 = "PIB mask=- inlen=next outlen=max sig=rand:1";
                        do_op(&mut other, "PIB", l2, &kv(l2));
                        // ... including calls that are rejected (error paths of the other instance run on this thread too)
                        let l3 = "PIB mask=- inlen=~ outlen=max sig=rand:1";
                        do_op(&mut other, "PIB", l3, &kv(l3));
                        let l4 = "PIB mask=- inlen=max outlen=abs:0 sig=rand:1";
                        do_op(&mut other, "PIB", l4, &kv(l4));
                    }
                }));
                SINK.with(|k| *k.borrow_mut() = saved);
            }
            "INFO" => {
                // facts about the crate that are not part of a history (not recorded for the model)
                if get(&m, "f") == "cutoff" {
                    let n = geti(&m, "n");
                    let w = window(get(&m, "window"));
                    println!("CUTOFF {} {}", f64_hex(rubato::calculate_cutoff::<f64>(n, w)), rubato::calculate_cutoff::<f32>(n, w).hex());
                }
            }
            "FN" => {
                writeln!(cx.hist, "{}", line).unwrap();
                do_fn::<T>(&m)
            }
            c => {
                if migrate {
                    let cxr = &mut cx;
                    on_other_thread(move || do_op(cxr, c, line, &m));
                } else {
                    do_op(&mut cx, c, line, &m)
                }
            }
        }
        flush();
        cx.hist.flush().unwrap();
    }
}

fn main() {
    std::panic::set_hook(Box::new(|info| {
        eprintln!("panic: {}", info);
    }));
    let args: Vec<String> = std::env::args().collect();
    let text = std::fs::read_to_string(&args[1]).unwrap();
    let lines: Vec<String> = text.lines().map(|s| s.to_string()).collect();
    let hist = std::fs::File::create(&args[2]).unwrap();
    let f32mode = lines.iter().any(|l| l.trim() == "T ty=f32");
    let mut threads = 0usize;
    let mut migrate = false;
    let mut i = 3;
    while i < args.len() {
        if args[i] == "--threads" {
            threads = args[i + 1].parse().unwrap();
            i += 2;
        } else if args[i] == "--migrate" {
            migrate = true;
            i += 1;
        } else {
            i += 1;
        }
    }
    if threads <= 1 {
        if f32mode {
            run::<f32>(&lines, hist, migrate, 0);
        } else {
            run::<f64>(&lines, hist, migrate, 0);
        }
        return;
    }
    // several instances of the same history, concurrently, one per thread
    drop(hist);
    let hist_path = args[2].clone();
    let results: Vec<Vec<String>> = std::thread::scope(|sc| {
        let mut hs = Vec::new();
        for t in 0..threads {
            let lines = &lines;
            let hp = if t == 0 { hist_path.clone() } else { format!("{}.t{}", hist_path, t) };
            hs.push(sc.spawn(move || {
                SINK.with(|k| *k.borrow_mut() = Some(Vec::new()));
                let h = std::fs::File::create(&hp).unwrap();
                if f32mode {
                    run::<f32>(lines, h, migrate && t % 2 == 1, t);
                } else {
                    run::<f64>(lines, h, migrate && t % 2 == 1, t);
                }
                if t != 0 {
                    let _ = std::fs::remove_file(&hp);
                }
                SINK.with(|k| k.borrow_mut().take().unwrap_or_default())
            }));
        }
        hs.into_iter().map(|h| h.join().unwrap()).collect()
    });
    for l in results[0].iter() {
        std::println!("{}", l);
    }
    let mut verdict = "equal".to_string();
    for (t, r) in results.iter().enumerate().skip(1) {
        if r != &results[0] {
            let j = r.iter().zip(results[0].iter()).position(|(a, b)| a != b).unwrap_or(r.len().min(results[0].len()));
            verdict = format!("MISMATCH thread {} line {}", t, j);
            break;
        }
    }
    std::println!("THREADS {} {}", threads, verdict);
}
