//! Counting global allocator: number of alloc/realloc/dealloc events on this thread.
use std::alloc::{GlobalAlloc, Layout, System};
use std::cell::Cell;

thread_local! {
    static EVENTS: Cell<u64> = const { Cell::new(0) };
}

pub struct Counting;

unsafe impl GlobalAlloc for Counting {
    unsafe fn alloc(&self, l: Layout) -> *mut u8 {
        let _ = EVENTS.try_with(|e| e.set(e.get() + 1));
        System.alloc(l)
    }
    unsafe fn dealloc(&self, p: *mut u8, l: Layout) {
        let _ = EVENTS.try_with(|e| e.set(e.get() + 1));
        System.dealloc(p, l)
    }
    unsafe fn realloc(&self, p: *mut u8, l: Layout, n: usize) -> *mut u8 {
        let _ = EVENTS.try_with(|e| e.set(e.get() + 1));
        System.realloc(p, l, n)
    }
    unsafe fn alloc_zeroed(&self, l: Layout) -> *mut u8 {
        let _ = EVENTS.try_with(|e| e.set(e.get() + 1));
        System.alloc_zeroed(l)
    }
}

#[global_allocator]
static GLOBAL: Counting = Counting;

pub fn events() -> u64 {
    EVENTS.with(|e| e.get())
}
