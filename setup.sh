#!/bin/sh
# Build the whole framework offline from files on disk: regenerate coq/Gen from /repo/src,
# full .vo build of the Coq development, extraction + OCaml driver, Rust harness (hooks on).
set -e
cd "$(dirname "$0")"
export CARGO_NET_OFFLINE=true
python3 tools/setup.py
