"""Core of the check driver: build steps, running histories on the implementation
(Rust harness) and on the extracted Coq model (OCaml driver), trace parsing,
comparison, evidence.  All paths are under /verif; nothing is kept in /tmp."""
import os, sys, json, subprocess, struct, time, fcntl, hashlib, shutil, re
from concurrent.futures import ThreadPoolExecutor

VERIF = os.path.dirname(os.path.dirname(os.path.abspath(__file__)))
REPO = os.environ.get('VERIF_REPO', '/repo')
BUILD = os.path.join(VERIF, 'build')
COQ = os.path.join(VERIF, 'coq')
GEN = os.path.join(COQ, 'Gen')
OCAML_SRC = os.path.join(VERIF, 'ocaml')
OCAML_BUILD = os.path.join(BUILD, 'ocaml')
CARGO_TARGET = os.path.join(BUILD, 'cargo')
RUNS = os.path.join(BUILD, 'runs')
HARNESS_DIR = os.path.join(VERIF, 'harness')
NCPU = min(16, os.cpu_count() or 4)

ENV = dict(os.environ)
ENV.update({'CARGO_NET_OFFLINE': 'true', 'CARGO_TARGET_DIR': CARGO_TARGET, 'RUSTFLAGS': '--cfg rubato_verif',
            'GOPROXY': 'off', 'PIP_NO_INDEX': '1'})


# ------------------------------------------------------------------ numbers
def f64hex(x):
    return "%016x" % struct.unpack('<Q', struct.pack('<d', float(x)))[0]


def hexf64(h):
    return struct.unpack('<d', struct.pack('<Q', int(h, 16)))[0]


def f32hex(x):
    return "%08x" % struct.unpack('<I', struct.pack('<f', float(x)))[0]


def hexf32(h):
    return struct.unpack('<f', struct.pack('<I', int(h, 16)))[0]


def f32round(x):
    return struct.unpack('<f', struct.pack('<f', float(x)))[0]


def nextafter(x, direction):
    import math
    return math.nextafter(x, direction)


class Rng:
    """SplitMix64: every random choice of a run derives from VERIF_SEED."""

    def __init__(self, seed):
        self.s = seed & 0xFFFFFFFFFFFFFFFF

    def next(self):
        self.s = (self.s + 0x9E3779B97F4A7C15) & 0xFFFFFFFFFFFFFFFF
        z = self.s
        z = ((z ^ (z >> 30)) * 0xBF58476D1CE4E5B9) & 0xFFFFFFFFFFFFFFFF
        z = ((z ^ (z >> 27)) * 0x94D049BB133111EB) & 0xFFFFFFFFFFFFFFFF
        return z ^ (z >> 31)

    def below(self, n):
        return self.next() % n

    def uniform(self, a=0.0, b=1.0):
        return a + (b - a) * ((self.next() >> 11) / float(1 << 53))

    def choice(self, xs):
        return xs[self.below(len(xs))]

    def chance(self, p):
        return self.uniform() < p

    def loguniform(self, a, b):
        import math
        return math.exp(self.uniform(math.log(a), math.log(b)))

    def fork(self, tag):
        h = hashlib.sha256(("%d/%s" % (self.s, tag)).encode()).digest()
        return Rng(int.from_bytes(h[:8], 'little'))


def seed_for(pid):
    base = int(os.environ.get('VERIF_SEED', '1'))
    h = hashlib.sha256(("%d:%s" % (base, pid)).encode()).digest()
    return base, Rng(int.from_bytes(h[:8], 'little'))


# ------------------------------------------------------------------ build
class Lock:
    def __init__(self, name):
        os.makedirs(BUILD, exist_ok=True)
        self.path = os.path.join(BUILD, name + '.lock')

    def __enter__(self):
        self.f = open(self.path, 'w')
        fcntl.flock(self.f, fcntl.LOCK_EX)
        return self

    def __exit__(self, *a):
        fcntl.flock(self.f, fcntl.LOCK_UN)
        self.f.close()


def sh(cmd, cwd=None, timeout=3600, env=None):
    p = subprocess.run(cmd, cwd=cwd, shell=isinstance(cmd, str), stdout=subprocess.PIPE, stderr=subprocess.STDOUT,
                       timeout=timeout, env=env or ENV, text=True, errors='replace')
    return p.returncode, p.stdout


def regenerate():
    """Run the translator; returns its report (sites, errors, summaries)."""
    sys.path.insert(0, os.path.join(VERIF, 'tools'))
    import importlib
    import rs2v, sites
    importlib.reload(rs2v)
    importlib.reload(sites)
    rep = rs2v.generate(REPO, GEN, sites.SPEC)
    rep.update(sites.summaries(REPO, GEN))
    json.dump(rep, open(os.path.join(GEN, 'report.json'), 'w'), indent=1)
    return rep


def coq_project_files():
    files = []
    for line in open(os.path.join(COQ, '_CoqProject')):
        line = line.strip()
        if line.endswith('.v'):
            files.append(line)
    return files


def coq_make(targets, timeout=3000):
    """make the given .vo targets (full .vo builds).  Returns (ok, log)."""
    if not os.path.exists(os.path.join(COQ, 'Makefile')) or \
            os.path.getmtime(os.path.join(COQ, 'Makefile')) < os.path.getmtime(os.path.join(COQ, '_CoqProject')):
        rc, out = sh("coq_makefile -f _CoqProject -o Makefile", cwd=COQ)
        if rc != 0:
            return False, out
    rc, out = sh("timeout %d make -j%d %s" % (timeout, NCPU, " ".join(targets)), cwd=COQ, timeout=timeout + 60)
    return rc == 0, out


MODEL_VO = ['Model/Driver.vo']


def build_model_exe():
    """Extract the model and compile the OCaml driver when the model changed."""
    os.makedirs(OCAML_BUILD, exist_ok=True)
    stamp = os.path.join(OCAML_BUILD, 'stamp')
    deps = [os.path.join(COQ, 'Model', f) for f in os.listdir(os.path.join(COQ, 'Model')) if f.endswith('.vo')]
    deps += [os.path.join(GEN, f) for f in os.listdir(GEN) if f.endswith('.vo')]
    deps += [os.path.join(COQ, 'Extract.v'), os.path.join(OCAML_SRC, 'driver.ml')]
    newest = max(os.path.getmtime(d) for d in deps)
    exe = os.path.join(OCAML_BUILD, 'driver')
    if os.path.exists(exe) and os.path.exists(stamp) and os.path.getmtime(stamp) >= newest:
        return True, 'cached'
    rc, out = sh("coqc -Q %s Rubato %s" % (COQ, os.path.join(COQ, 'Extract.v')), cwd=OCAML_BUILD, timeout=600)
    if rc != 0:
        return False, out
    shutil.copy(os.path.join(OCAML_SRC, 'driver.ml'), os.path.join(OCAML_BUILD, 'driver.ml'))
    rc, out2 = sh("ocamlfind ocamlopt -w -a model.mli model.ml driver.ml -o driver", cwd=OCAML_BUILD, timeout=600)
    if rc != 0:
        return False, out + out2
    open(stamp, 'w').write(str(time.time()))
    return True, out + out2


def build_harness(release=False):
    lock = os.path.join(HARNESS_DIR, 'Cargo.lock')
    if not os.path.exists(lock) and os.path.exists(os.path.join(REPO, 'Cargo.lock')):
        shutil.copy(os.path.join(REPO, 'Cargo.lock'), lock)
    cmd = "cargo build --offline" + (" --release" if release else "")
    rc, out = sh(cmd, cwd=HARNESS_DIR, timeout=1800)
    return rc == 0, out


def harness_exe(release=False):
    return os.path.join(CARGO_TARGET, 'release' if release else 'debug', 'harness')


# ------------------------------------------------------------------ running
def run_impl(spec_path, hist_path, trace_path, timeout=120, release=False, threads=None, migrate=False):
    """Run one history on the real crate.  Returns 'ok' | 'abort' | 'timeout'."""
    cmd = [harness_exe(release), spec_path, hist_path]
    if threads:
        cmd += ['--threads', str(threads)]
    if migrate:
        cmd += ['--migrate']
    with open(trace_path, 'w') as out, open(trace_path + '.err', 'w') as err:
        try:
            p = subprocess.run(cmd, stdout=out, stderr=err, timeout=timeout, env=ENV)
            rc = p.returncode
        except subprocess.TimeoutExpired:
            rc = 'timeout'
    if rc == 0:
        return 'ok'
    with open(trace_path, 'a') as out:
        if rc == 'timeout':
            out.write("R diverge\n")
            return 'timeout'
        out.write("R abort\n")
    return 'abort'


def _big_stack():
    # the extracted list functions are not tail recursive; buffers of a million cells need a deep stack
    import resource
    try:
        resource.setrlimit(resource.RLIMIT_STACK, (resource.RLIM_INFINITY, resource.RLIM_INFINITY))
    except (ValueError, OSError):
        try:
            soft, hard = resource.getrlimit(resource.RLIMIT_STACK)
            resource.setrlimit(resource.RLIMIT_STACK, (hard, hard))
        except (ValueError, OSError):
            pass


def run_model(hist_path, trace_path, timeout=600):
    """'ok' | 'fail' | 'timeout'.  'timeout' also stands for the other resource limits of this machinery (the OCaml
    run-time reporting Stack_overflow or Out_of_memory): the run says nothing about the code, only its prefix is compared."""
    with open(trace_path, 'w') as out, open(trace_path + '.err', 'w') as err:
        try:
            p = subprocess.run([os.path.join(OCAML_BUILD, 'driver'), hist_path], stdout=out, stderr=err, timeout=timeout,
                               preexec_fn=_big_stack)
        except subprocess.TimeoutExpired:
            return 'timeout'
    if p.returncode == 0:
        return 'ok'
    try:
        tail = open(trace_path + '.err').read()[-2000:]
    except OSError:
        tail = ''
    if 'Stack_overflow' in tail or 'Out_of_memory' in tail or p.returncode in (-9, -11, 137, 139):
        return 'timeout'
    return 'fail'


def truncate_after_fatal(lines):
    """Both sides stop being comparable after a fatal outcome."""
    out = []
    for l in lines:
        out.append(l)
        if l in ('R panic', 'R abort', 'R diverge', 'NEW panic'):
            break
    return out


def compare_traces(impl_path, model_path, model_incomplete=False):
    """first differing line of the two traces, or None.  With model_incomplete (the model run was stopped by the time limit
    of this machinery) only the complete lines the model did produce are compared."""
    a = truncate_after_fatal([l.rstrip('\n') for l in open(impl_path)])
    raw = open(model_path).read()
    if model_incomplete and not raw.endswith('\n'):
        raw = raw[:raw.rfind('\n') + 1]           # drop the line that was being written
    b = truncate_after_fatal([] if raw == '' else (raw.split('\n')[:-1] if raw.endswith('\n') else raw.split('\n')))
    # allocation-count lines exist on the implementation side only
    a = [l for l in a if not (l.startswith('A ') or l.startswith('AG ') or l.startswith('MI ') or l.startswith('THREADS '))]
    b = [l for l in b if not l.startswith('MI ')]
    for i, (x, y) in enumerate(zip(a, b)):
        if x != y:
            return {'line': i, 'impl': x[:300], 'model': y[:300]}
    if model_incomplete and len(b) <= len(a):
        return None
    if len(a) != len(b):
        i = min(len(a), len(b))
        return {'line': i, 'impl': (a[i][:300] if i < len(a) else '<end>'), 'model': (b[i][:300] if i < len(b) else '<end>')}
    return None


class Case:
    """One history: spec text, and after running: paths and parsed traces."""

    def __init__(self, name, spec_lines, meta=None):
        self.name = name
        self.spec = spec_lines
        self.meta = meta or {}
        self.status = None
        self.diff = None
        self.model_timeout = False


def run_cases(cases, outdir, with_model=True, release=False, timeout=120):
    os.makedirs(outdir, exist_ok=True)

    def one(c):
        base = os.path.join(outdir, c.name)
        c.spec_path, c.hist_path = base + '.spec', base + '.hist'
        c.impl_path, c.model_path = base + '.impl', base + '.model'
        open(c.spec_path, 'w').write("\n".join(c.spec) + "\n")
        c.status = run_impl(c.spec_path, c.hist_path, c.impl_path, timeout=timeout, release=release,
                            threads=c.meta.get('threads'), migrate=c.meta.get('migrate', False))
        if with_model and not c.meta.get('no_model'):
            c.model_status = run_model(c.hist_path, c.model_path)
            if c.model_status == 'timeout':
                # the extracted model (software floating point) ran out of this machinery's time limit: not a disagreement.
                # The part of the trace it did produce is still compared; the history counts as not validated.
                c.diff = compare_traces(c.impl_path, c.model_path, model_incomplete=True)
                c.model_timeout = True
            else:
                c.diff = compare_traces(c.impl_path, c.model_path)
                if c.model_status != 'ok' and c.diff is None:
                    c.diff = {'line': -1, 'impl': '', 'model': 'model driver: ' + c.model_status}
        return c

    with ThreadPoolExecutor(max_workers=NCPU) as ex:
        list(ex.map(one, cases))
    return cases


# ------------------------------------------------------------------ trace parsing
class Step:
    __slots__ = ('op', 'kv', 'res', 'fields', 'outs', 'g', 's', 'bufs', 'allocs', 'galloc', 'gv', 'al')

    def __init__(self):
        self.op = None
        self.kv = {}
        self.res = None
        self.fields = []
        self.outs = []
        self.g = None
        self.s = None
        self.bufs = []
        self.allocs = None
        self.galloc = None
        self.gv = None
        self.al = False


def parse_kv(line):
    d = {}
    for tok in line.split(' ')[1:]:
        if '=' in tok:
            k, v = tok.split('=', 1)
            d[k] = v
    return d


def parse_trace(trace_path, hist_path):
    """Returns (new_result, init_step, steps).  Steps align with the operation lines of the history."""
    ops = []
    new_kv = None
    ty = 'f64'
    if os.path.exists(hist_path):
        for l in open(hist_path):
            l = l.rstrip('\n')
            if not l or l[0] == '#':
                continue
            cmd = l.split(' ', 1)[0]
            if cmd == 'T':
                ty = parse_kv(l).get('ty', 'f64')
            elif cmd == 'NEW':
                new_kv = parse_kv(l)
            elif cmd in ('PIB', 'PROCESS', 'PARTIALINTO', 'PARTIAL', 'SETRATIO', 'SETREL', 'SETCHUNK', 'RESET'):
                ops.append((cmd, l))
    lines = [l.rstrip('\n') for l in open(trace_path)]
    new_res = None
    threads = None
    init = Step()
    steps = []
    cur = init
    for l in lines:
        if l.startswith('THREADS '):
            threads = l[8:]
        elif l.startswith('NEW '):
            new_res = l[4:]
        elif l.startswith('R '):
            cur = Step()
            if len(steps) < len(ops):
                cur.op, line = ops[len(steps)]
                cur.kv = parse_kv(line)
            parts = l.split(' ')
            cur.res = parts[1]
            cur.fields = parts[2:]
            steps.append(cur)
        elif l.startswith('O '):
            _, i, v = (l.split(' ', 2) + [''])[:3]
            cur.outs.append(v)
        elif l.startswith('G '):
            cur.g = [int(x) for x in l.split(' ')[1:]]
        elif l.startswith('GV MISMATCH'):
            cur.gv = [int(x) for x in l.split(' ')[2:]]
        elif l.startswith('AL MISMATCH'):
            cur.al = True
        elif l.startswith('S '):
            cur.s = l.split(' ')[1:]
        elif l.startswith('B '):
            cur.bufs.append(l.split(' ', 2)[2] if l.count(' ') >= 2 else '')
        elif l.startswith('A '):
            cur.allocs = int(l[2:])
        elif l.startswith('AG '):
            cur.galloc = int(l[3:])
    return {'ty': ty, 'new_kv': new_kv, 'new': new_res, 'init': init, 'steps': steps, 'threads': threads}


def expand_samples(s, ty='f64'):
    """hex sample list (with run-length tokens) -> python floats"""
    out = []
    if not s:
        return out
    conv = hexf64 if ty == 'f64' else hexf32
    for tok in s.split(','):
        if '*' in tok:
            n, h = tok.split('*')
            out.extend([conv(h)] * int(n))
        else:
            out.append(conv(tok))
    return out


def expand_hex(s):
    out = []
    if not s:
        return out
    for tok in s.split(','):
        if '*' in tok:
            n, h = tok.split('*')
            out.extend([h] * int(n))
        else:
            out.append(tok)
    return out


# ------------------------------------------------------------------ evidence
def write_evidence(pid, tier, seed, coverage, assumptions, wall_s, violations, level='proof'):
    os.makedirs(os.path.join(VERIF, 'evidence'), exist_ok=True)
    ev = {'property_id': pid, 'tier': tier, 'seed': seed, 'level': level, 'coverage': coverage,
          'assumptions': assumptions, 'wall_s': round(wall_s, 2), 'violations': violations}
    tmp = os.path.join(VERIF, 'evidence', pid + '.json.tmp')
    json.dump(ev, open(tmp, 'w'), indent=1)
    os.replace(tmp, os.path.join(VERIF, 'evidence', pid + '.json'))
    return ev
