#!/usr/bin/env python3
import os, sys
sys.path.insert(0, os.path.dirname(os.path.abspath(__file__)))
from vlib import *

def main():
    with Lock('build'):
        rep = regenerate()
        print("translator: %d sites, %d errors" % (len(rep['sites']), len(rep['errors'])))
        for e in rep['errors']:
            print("  GEN-ERROR", e)
        rc, out = sh("coq_makefile -f _CoqProject -o Makefile", cwd=COQ)
        ok, log = coq_make([], timeout=3000)
        print("coq make:", "ok" if ok else "FAILED")
        if not ok:
            print(log[-4000:])
        okx, logx = build_model_exe()
        print("model extraction + driver:", "ok" if okx else "FAILED")
        if not okx:
            print(logx[-3000:])
        okh, logh = build_harness()
        print("harness (debug):", "ok" if okh else "FAILED")
        if not okh:
            print(logh[-3000:])
    sys.exit(0 if (ok and okx and okh and not rep['errors']) else 1)

main()
