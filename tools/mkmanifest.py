#!/usr/bin/env python3
"""Regenerate MANIFEST.json from the table below (kept here so that it stays valid at all times)."""
import json, os
HERE = os.path.dirname(os.path.dirname(os.path.abspath(__file__)))
TB = ("Trusted: Coq 8.16.1 kernel (vm_compute, no native_compute); translator tools/rs2v.py + tools/sites.py; extraction "
      "(ExtrOcamlBasic only) and ocaml/driver.ml; Rust harness and hooks (--cfg rubato_verif); trace comparator. ")
CLAIMED = {
 "C08": ("Coq theorems (ring/field over R) that each generated interpolator of asynchro_fast.rs (septic/quintic/cubic/linear, regenerated from source on every run) equals the polynomial through its 8/6/4/2 nodes for every coefficient vector and every x, plus linearity (hence the unique interpolant); tied to the code by regeneration and by bit-exact evaluation of the same generated terms (Flocq binary64/binary32) against the real functions and whole FastFixedIn/Out streams.",
         TB + "Ideal-arithmetic (R) reading: rounding erased. Sine error bound stated (C08_sine_full) but unproved. Axioms: Reals (sig_forall_dec, sig_not_dec, functional_extensionality_dep).",
         "machine-checked proof in Coq (ring/field on regenerated terms) + bit-exact model/implementation correspondence", "DESIGN.md 7 C08"),
 "C12": ("Coq/Flocq theorems over every binary64 operand: set_resample_ratio accepts iff r is finite and RN(original/max) <= r <= RN(original*max) (NaN, infinities, non-positive values rejected); the relative setter accepts iff RN(1/max) <= x <= max and then acts as the absolute setter on the product kept inside the bounds; rejected calls return RatioOutOfBounds and leave the state equal; synchronous types always SyncNotAdjustable; set_chunk_size iff 1..=max on the sinc types. Accept conditions regenerated from the four set_resample_ratio bodies on every run.",
         TB + "Bounds read as the binary64 quotient/product. Axioms: Reals + Classical_Prop.classic (via Flocq 4.1).",
         "machine-checked proof in Coq with Flocq IEEE-754 semantics on regenerated conditions + bit-exact correspondence on a boundary lattice", "DESIGN.md 7 C12"),
 "C13": ("Coq theorems, complete over Z and lists: validate_buffers returns Ok iff every contract clause holds and otherwise the first violated clause in source order with expected/actual sizes; for all seven types process_into_buffer returns Err e exactly when the argument check does (no panic on malformed arguments, no spurious Err on well-formed ones) and the model state after a rejected call is the same state; constructor errors for non-positive/non-finite ratios, max < 1 and zero rates over every binary64 argument. The argument expressions passed to validate_buffers are regenerated from source.",
         TB + "That the real code leaves its state untouched on Err is established by comparing getters, control fields and all internal buffers with the model after every rejected call. validate/process theorems are axiom-free; constructor theorems use Flocq + Reals axioms.",
         "machine-checked proof in Coq (structural, lia) + bit-exact correspondence on a malformed-call stream", "DESIGN.md 7 C13"),
 "C16": ("Coq theorems generic over any core (hence all seven types): process = truncate . process_into_buffer on buffers of output_frames_next zeros (empty for masked channels); process_partial_into_buffer(Some x) = process_into_buffer on x padded with zeros to input_frames_next (padding characterised channel by channel), None = all-zero chunk; process_partial = truncate . process_partial_into_buffer. The VecResampler blanket impl is parsed on every run: each method must be the single forwarding call.",
         TB + "The wrappers of the model transcribe lib.rs:75-195; tied by bit-exact correspondence on wrapper calls (also through the VecResampler trait object). Axiom-free.",
         "machine-checked proof in Coq (structural) + twin-history correspondence wrapper vs core", "DESIGN.md 7 C16"),
}
CLAIMED.update({
 "C03": ("Coq theorems in ideal arithmetic for the polynomial resamplers (the code with unchecked indexing) and for SincFixedIn / SincFixedOut (kernel asserts, any set_chunk_size schedule): under an invariant established by the constructors, every valid process_into_buffer call at constant ratio returns Ok in a model where a read or write outside a buffer is the outcome UB, a failed slice operation Panic and an exhausted loop Diverge; lifted by induction to every history of such calls; no spurious Err for all seven types (C13). All margins, window offsets and size formulas are regenerated from source. The FFT types, and ratio changes, are covered by the bit-exact executable model (it predicts every crash of the recorded finding classes) rather than by theorem.",
         TB + "Ideal arithmetic (rounding erased). Outside the theorems: ratio changes; FFT types. Known findings: known_findings.json (6 classes). Axioms: Reals.",
         "machine-checked proof in Coq (invariant by induction over the call list, R arithmetic) + bit-exact correspondence incl. predicted panics/aborts", "DESIGN.md 7 C03"),
 "C04": ("Coq theorems (ideal arithmetic): a valid call of FastFixedIn consumes exactly input_frames_next and writes n <= output_frames_next frames, of FastFixedOut exactly input_frames_next / output_frames_next; next <= max for FastFixedIn, SincFixedIn (outputs) and FastFixedOut (inputs) whenever the ratios are inside the accepted range. Getter formulas regenerated from source. Other types by the bit-exact model plus the count predicates on every trace.",
         TB + "Ideal arithmetic; the binary64 version of next <= max is not formalised. Axioms: Reals.",
         "machine-checked proof in Coq (R arithmetic on regenerated getters) + bit-exact correspondence and count predicates", "DESIGN.md 7 C04"),
 "C06": ("Coq theorems (ideal arithmetic) on the regenerated stepping formulas of all four asynchronous types: closed form of the evaluation instants, spacing t + k*inc with inc = (1/new - 1/old)/A, spacing inside [1/old,1/new], monotone, positive and reaching 1/new for k <= A, immediate for non-ramped changes, 1/new from the next chunk; the unrestricted fixed-input statement is refuted in Coq (recorded finding).",
         TB + "Ideal arithmetic. 'Computed from supplied frames' is covered for constant ratio by C03; fixed-output ramps are a recorded finding. Axioms: Reals.",
         "machine-checked proof in Coq (closed forms by induction, lra/nra) + instants observed exactly through Linear interpolation of an index ramp", "DESIGN.md 7 C06"),
 "C07": ("Coq theorems (ideal arithmetic): for FastFixedIn/Out and SincFixedIn/Out (any set_chunk_size schedule), over every history of valid calls at constant ratio, last_index' - last_index = nout/r - nin (telescoping) with last_index confined by the invariant, hence |nout - r*nin| <= r*(L + 1/r + 3) + 3 independent of the number of calls. FFT types: balance predicates on every sampled stream against the bit-exact model.",
         TB + "Ideal arithmetic; float drift not bounded by theorem. Axioms: Reals.",
         "machine-checked proof in Coq (telescoping invariant by induction) + correspondence and balance predicates on long streams", "DESIGN.md 7 C07"),
 "C14": ("Coq theorems (ideal arithmetic): output frame j of a polynomial resampler is evaluated at input instant -4 + (j+1)/r, so the true delay is 4r-1 output frames and the reported floor(8r/2) is within one frame; FFT types report fft_size_out/2; sinc types report floor(sinc_len*r/2), which is NOT their alignment (recorded finding, confirmed by impulse measurements).",
         TB + "Ideal arithmetic. FFT: linear-phase realisation is an assumption on the spectral core. Axioms: Reals.",
         "machine-checked proof in Coq (R arithmetic) + impulse-alignment measurements on all seven types", "DESIGN.md 7 C14"),
})
CLAIMED.update({
 "C10": ("Coq theorems valid in every arithmetic (in particular the bit-exact binary64/binary32 instance): reset() of a freshly constructed resampler is the identity for all seven constructors (every control field, every buffer, the mask — with the reset and constructor formulas both regenerated from source), and reset() after an operation equals reset() before it for ratio/chunk setters, reset itself and every successful process_into_buffer of the four asynchronous types; hence reset() after any history returns the fresh state, and the deterministic step function does the rest.",
         TB + "FFT types: shape preservation through process_into_buffer is compared on every trace, not proved. Axiom-free.",
         "machine-checked proof in Coq (structural equalities on regenerated reset/constructor terms) + twin histories (prefix; reset; suffix) vs (fresh; suffix), bit-exact", "DESIGN.md 7 C10"),
 "C11": ("Coq theorems (any arithmetic) characterising every per-channel stage of process_into_buffer channel by channel: history shift, input load (active channels only), interpolation (channel c's output = its own buffer at the shared instants; a masked channel's output buffer is returned untouched), the FFT per-channel combinator, and independence of the instants from audio and mask.",
         TB + "The end-to-end projection statement is assembled from the stage lemmas by twin comparison on every trace (n-channel masked vs unmasked vs n single-channel runs, sentinel-filled outputs). Axiom-free.",
         "machine-checked proof in Coq (structural induction over the channel lists) + twin-history correspondence on 1..8 channels", "DESIGN.md 7 C11"),
 "C15": ("Coq theorems (ideal arithmetic): every kernel model (scalar, SSE f32/f64, AVX f32/f64, each with its exact lane assignment, fused or separate multiply-add and reduction tree) equals the exact dot product for every length in 8N, so all agree; a call that passes the asserts reads exactly [index, index+len). Each model is compared bit for bit with the real kernel on this CPU (random tables, every alignment, huge dynamic range, NaN-poisoned surroundings), and the kernels with each other within a few ulps of the sum of absolute products; streams with each kernel injected and with the CPU dispatch.",
         TB + "The floating-point deviation bound is measured, not proved. NEON not compiled on this machine. Axioms: Reals.",
         "machine-checked proof in Coq (induction over blocks of 8, ring) + bit-exact kernel correspondence", "DESIGN.md 7 C15"),
})
CLAIMED.update({
 "C09": ("Coq theorems: (i) every successful process_into_buffer of the four asynchronous types returns a state whose buffers have the same shape as before (no buffer of the instance grows or shrinks, so none needs the heap), and (ii) the list of allocation-capable constructs (vec!, Vec::new/with_capacity, collect, clone, to_vec, push, resize, extend, Box/Arc::new, format!, realfft process without scratch ...) found inside process_into_buffer, the setters, reset, the getters and their in-crate callees, regenerated from /repo/src on every run with the log macros removed, is empty. Every such call of every sampled history on all seven types x {f32,f64} is bracketed by a counting global allocator and must show 0 events.",
         TB + "What is outside the crate (rustfft/realfft with scratch, core) is measured by the allocator, not proved; the construct list is syntactic. Axiom-free.",
         "machine-checked proof in Coq (shape invariant; emptiness of a regenerated summary) + counting-allocator measurements on model-validated histories", "DESIGN.md 7 C09"),
 "C17": ("Coq theorems generic in the sample type: for the four asynchronous types the control results of process_into_buffer (frames consumed and produced, the new last_index / ratio / needed size / fill, hence all getters) are a function of the control state and the argument lengths only, computed by generated functions that never mention T; so f32 and f64 instances make identical decisions on the same history. FFT types carry integer control only. The numerical half (f32 output within 32 * 2^-23 * peak of the f64 output; measured maximum 10 after the make_sincs fix e52b386, 250 before) is a predicate on twin histories, not a theorem.",
         TB + "Numerical closeness measured against a fixed tolerance. Axiom-free.",
         "machine-checked proof in Coq (parametricity of the control path in the sample type) + f32/f64 twin-history comparison, both twins bit-exact against the model", "DESIGN.md 7 C17"),
 "C18": ("Coq theorems: in the model of a process with any number of instances (a list of states and a schedule of (instance, call) pairs — any interleaving, any migration at call boundaries), what instance i sees and returns equals what it sees and returns when run alone on the projection of the schedule; this model is faithful because the list of items with static / thread-local / interior-mutable / lock / atomic storage or unsafe Send/Sync impls in /repo/src, regenerated on every run, is exactly the two immutable CPU-feature tables. Executed: the same history alone, on 2..16 concurrent threads (odd ones migrating the resampler to a new thread for every call, half of them building other resamplers first), and after other resamplers were built on the same thread: all traces bit-identical.",
         TB + "rustfft/realfft planner internals and std feature detection are outside the crate: exercised, not proved. Data races are excluded by Rust's type system (no unsafe Send/Sync in src: checked). Axiom-free.",
         "machine-checked proof in Coq (projection of interleavings; regenerated shared-storage summary) + concurrent / migrating / warmed twin runs", "DESIGN.md 7 C18"),
})
CLAIMED.update({
 "C05": ("Coq theorems (ideal arithmetic, constant ratio) for the polynomial resamplers: a stream specification fast_spec(d, X, G) that mentions neither chunk size nor variant; per call, the history buffer of every channel holds exactly the last chunk+16 (FastFixedIn) / fill+16 (FastFixedOut) samples of the input stream before and after (nothing lost, duplicated or stale across a chunk boundary) and the frames written equal the specification at N + last_index + (k+1)/ratio; by induction over any list of calls, output frame j of a fresh resampler equals fast_spec at -4 + (j+1)/ratio; corollaries: any two chunk sizes agree on their common prefix, and FastFixedIn agrees with FastFixedOut. Sinc and FFT types, set_chunk_size schedules: families of differently chunked runs of the real crate over the same position-defined signal, every member bit-exact against the model, streams compared (bit-identical where the position arithmetic is exact, always for FFT; else within 1e-6/1e-5 of the peak).",
         TB + "Sinc/FFT stream theorems and ratio schedules are not proved; float deviation measured. Axioms: Reals.",
         "machine-checked proof in Coq (refinement of every call to a chunking-free stream specification, induction over the call list) + families of differently chunked runs compared on the implementation and against the bit-exact model", "DESIGN.md 7 C05"),
})
CLAIMED.update({
 "C01": ("PARTIAL proof. Proved in Coq (ideal arithmetic): for the instant t of an output frame a sinc resampler evaluates FIR filters (each kernel = exact dot product of the input window with one branch of the oversampled table) at the grid points of spacing 1/factor around t — cell-1..cell+2 (cubic), cell..cell+2 (quadratic), cell..cell+1 (linear), each with a valid branch index — and blends them with the Lagrange polynomial on exactly those nodes at exactly the offset of t in its cell; nearest mode picks a branch within 1/(2 factor) of t. This is the premise of the textbook interpolation bounds of the property. NOT proved: the frequency responses (amplitude 1 %/0.1 %, leakage 80..150 dB): measured on every run by tone probes on the real crate over windows x sinc_len x interpolation x oversampling x ratio x chunking x f32/f64 and on the FFT resamplers (least-squares fit of every expected component, residual, common delay), with a subset also run bit for bit on the model.",
         TB + "Source of make_sincs/make_window/interpolation.rs/FFT core pinned by hash (hand models). Thresholds are those of the property text. Axioms: Reals.",
         "machine-checked proof in Coq of the grid/blend structure (partial) + tone-probe measurements against the property's thresholds", "DESIGN.md 7 C01"),
 "C02": ("PARTIAL proof. Proved in Coq: the cutoff given to the table generator by the public constructors is f_cutoff for ratio >= 1 and f_cutoff*ratio when downsampling (regenerated from make_interpolator; over R and in binary32/binary64). The code that realises the stopband (window functions, calculate_cutoff, make_sincs, FFT filter construction and spectrum truncation) is pinned by hash. NOT proved: the attenuation figures; measured on every run: tones beyond the stopband edge (down-sampling), images of transition-band tones (up-sampling), the -6 dB point at f_cutoff = calculate_cutoff, FFT tones above the lower Nyquist (> 100 dB), calculate_cutoff against its fitted formula.",
         TB + "Thresholds are those of the property text. Axioms: Reals (R statement only).",
         "machine-checked proof in Coq of the cutoff scaling (partial) + stopband / image / -6 dB probe measurements", "DESIGN.md 7 C02"),
})
NOT_YET = {}
ALL = ["C%02d" % i for i in range(1, 19)]

def main():
    checks = []
    for pid in sorted(CLAIMED):
        text, note, tech, ref = CLAIMED[pid]
        checks.append({"property_id": pid, "quick_cmd": "./check %s --tier quick" % pid, "thorough_cmd": "./check %s --tier thorough" % pid,
                       "evidence_file": "evidence/%s.json" % pid, "replay_cmd_template": "./check %s --replay {path}" % pid,
                       "engine": "coq-model", "level_claimed": {"category": "proof", "text": text, "design_ref": ref},
                       "level_note": note, "technique": tech})
    na = [{"property_id": p, "reason": NOT_YET.get(p, "check not yet built at this commit (work in progress; DESIGN.md section 10 gives the order of work)")}
          for p in ALL if p not in CLAIMED]
    m = {"version": 1, "setup_cmd": "./setup.sh",
         "hooks": {"guard": "rubato_verif",
                   "enable": "RUSTFLAGS=\"--cfg rubato_verif\" (set by tools/vlib.py for every cargo build of /verif/harness, which depends on /repo by path)",
                   "baseline_off_cmd": "cd /repo && cargo test --workspace --no-fail-fast --offline",
                   "source_commits": ["e1e90ae", "f6a136a"], "add_only": True},
         "engines": [{"name": "coq-model", "path": "coq/", "serves_properties": sorted(CLAIMED),
                      "kind_free_text": "Coq 8.16 development: numeric classes (Flocq binary64/binary32 and R instances), formula layer regenerated from /repo/src by tools/rs2v.py, hand-written control skeleton, theorems in coq/Props; executable model extracted to OCaml and compared bit for bit with the real crate (Rust harness)."}],
         "checks": checks, "not_applicable": na,
         "notes": "Every check regenerates coq/Gen from /repo/src, rebuilds the property's .vo closure, audits Print Assumptions, rebuilds the harness against /repo's working tree with hooks on and runs the model/implementation correspondence. Known findings: known_findings.json."}
    json.dump(m, open(os.path.join(HERE, 'MANIFEST.json'), 'w'), indent=1)
    print("MANIFEST.json: %d checks, %d not claimed" % (len(checks), len(na)))

main()
