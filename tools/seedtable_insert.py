#!/usr/bin/env python3
"""Replace the table of DESIGN.md section 11.6 by the output of tools/seedtable.py."""
import os, subprocess, sys
HERE = os.path.dirname(os.path.dirname(os.path.abspath(__file__)))
tab = subprocess.run([sys.executable, os.path.join(HERE, 'tools', 'seedtable.py')], capture_output=True, text=True, check=True).stdout.rstrip('\n').split('\n')
p = os.path.join(HERE, 'DESIGN.md')
lines = open(p).read().split('\n')
a = next(i for i, l in enumerate(lines) if l.startswith('| seeded change | property |'))
b = a
while b < len(lines) and lines[b].startswith('|'):
    b += 1
lines[a:b] = tab
open(p, 'w').write('\n'.join(lines))
print("table rows:", len(tab) - 2)
