#!/usr/bin/env python3
"""Print the markdown table of DESIGN.md section 11.6 from seeded/*/detection.json (written by tools/seedrun.py),
the files touched by each patch and the first descriptive lines of the sub-agent's notes."""
import os, re, json, sys
HERE = os.path.dirname(os.path.dirname(os.path.abspath(__file__)))
S = os.path.join(HERE, 'seeded')
rows = []
for sid in sorted(d for d in os.listdir(S) if not d.startswith('_')):
    d = os.path.join(S, sid)
    det = json.load(open(os.path.join(d, 'detection.json'))) if os.path.exists(os.path.join(d, 'detection.json')) else {}
    patch = open(os.path.join(d, 'patch.diff')).read()
    files = sorted(set(re.findall(r'^\+\+\+ b/(\S+)', patch, re.M)))
    funcs = sorted(set(m.strip() for m in re.findall(r'^@@.*@@\s*(.*fn\s+\w+)', patch, re.M)))
    what = ", ".join("`%s`" % f for f in files)
    if funcs:
        what += " (" + "; ".join(re.sub(r'\s+', ' ', f)[:60] for f in funcs[:3]) + ")"
    summ = det.get('summary') or ''
    m = re.search(r'(\d+/\d+) obligations', summ)
    vio = det.get('violation_line') or ''
    rep = os.path.basename(vio.split('replay=')[1].split(' ')[0]) if 'replay=' in vio else '-'
    reason = (det.get('reason') or '').replace('reason: ', '').replace('|', '/')
    res = ('exit %s, VIOLATION' % det.get('exit_code')) if vio else ('exit %s, no violation' % det.get('exit_code'))
    if vio and not det.get('concrete_failing_input'):
        res += ' (no-failing-input-found)'
    rows.append("| %s | %s | %s | %s | %s | %s — %s |" % (sid, det.get('property', sid[:3]), what, res, m.group(1) if m else '-', rep, reason[:170]))
print("| seeded change | property | files (functions) touched | check result | obligations discharged | failing input reported |")
print("|---|---|---|---|---|---|")
print("\n".join(rows))
