"""History (spec) generators.  Every choice comes from the Rng passed in."""
import math
from vlib import Rng, Case, f64hex, f32hex, f32round

ASYNC = ['fastin', 'fastout', 'sincin', 'sincout']
FFT = ['fftin', 'fftout', 'fftinout']
ALL = ASYNC + FFT
DEG_NAMES = ['Septic', 'Quintic', 'Cubic', 'Linear', 'Nearest']
DEG_REACH = [(3, 4), (2, 3), (1, 2), (0, 1), (0, 0)]      # (below, above) floor(idx)
ITYPE_NAMES = ['Cubic', 'Quadratic', 'Linear', 'Nearest']
WINDOWS = ['Blackman', 'Blackman2', 'BlackmanHarris', 'BlackmanHarris2', 'Hann', 'Hann2']

NICE_RATIOS = [1.0, 0.5, 2.0, 48000 / 44100, 44100 / 48000, 0.25, 4.0, 1.5, 2 / 3, 96000 / 44100, 0.9999, 1.0001, 3.0, 1 / 3]
RATE_PAIRS = [(44100, 48000), (48000, 44100), (48000, 16000), (16000, 48000), (44100, 44100), (48000, 96000),
              (96000, 44100), (8000, 11025), (22050, 16000), (3, 7), (7, 3), (1, 1), (100, 83), (147, 160), (48000, 44056)]


def pick_chunk(rng, tier, small=False):
    r = rng.uniform()
    hi = 64 if small else (256 if tier == 'quick' else 1024)
    if r < 0.25:
        return rng.choice([1, 2, 3, 4, 5, 7, 8, 9, 15, 16, 17])
    if r < 0.5:
        return rng.choice([29, 31, 32, 33, 63, 64, 65, 100, 127, 128, 129][:(8 if small else 11)])
    return 1 + rng.below(hi)


def pick_ratio(rng, lo=1 / 16, hi=16.0):
    if rng.chance(0.35):
        cands = [r for r in NICE_RATIOS if lo <= r <= hi]
        if cands:
            return rng.choice(cands)
    return rng.loguniform(lo, hi)


def async_cfg(rng, kind, tier, **force):
    c = {'kind': kind, 'ty': rng.choice(['f64', 'f64', 'f32'])}
    c['ratio'] = pick_ratio(rng)
    c['maxrel'] = rng.choice([1.0, 1.1, 1.5, 2.0, 4.0, 10.0]) if rng.chance(0.8) else rng.uniform(1.0, 12.0)
    c['nch'] = rng.choice([1, 1, 2, 2, 3, 4])
    if kind.startswith('fast'):
        c['deg'] = rng.below(5)
        c['L'] = 8
        c['chunk'] = pick_chunk(rng, tier)
    else:
        c['itype'] = rng.below(4)
        c['slen'] = rng.choice([8, 16, 24, 32, 40, 64] if tier == 'quick' else [8, 16, 24, 32, 40, 56, 64, 96, 128])
        if rng.chance(0.15):
            c['slen'] = max(1, c['slen'] - rng.below(7))      # rounded up to a multiple of 8
        c['L'] = 8 * ((c['slen'] + 7) // 8)
        c['factor'] = rng.choice([1, 2, 3, 4, 8, 16, 32, 128]) if c['itype'] >= 2 else rng.choice([2, 3, 4, 8, 16, 32, 128])
        c['fcut'] = f32round(rng.choice([0.95, 0.9, 0.8, 0.99, 0.5]))
        c['window'] = rng.below(6)
        c['interp'] = rng.choice(['default', 'default', 'scalar', 'sse', 'avx'])
        c['chunk'] = pick_chunk(rng, tier, small=(tier == 'quick'))
        # keep the Flocq-evaluated model affordable: frames * taps * points per call
        pts = [4, 3, 2, 1][c['itype']]
        budget = 250000 if tier == 'quick' else 1500000
        while c['chunk'] > 8 and c['chunk'] * max(1.0, c['ratio'] * c['maxrel']) * c['L'] * pts * c['nch'] > budget:
            c['chunk'] //= 2
    c.update(force)
    if kind.startswith('sinc') and c.get('interp', 'default') != 'default':
        c['slen'] = 8 * ((c['slen'] + 7) // 8)               # explicit interpolators need a multiple of 8
        c['L'] = c['slen']
    return c


def new_line(c):
    k = c['kind']
    if k in ('fastin', 'fastout'):
        return "NEW kind=%s ratio=%s maxrel=%s deg=%d chunk=%d nch=%d" % (k, f64hex(c['ratio']), f64hex(c['maxrel']), c['deg'], c['chunk'], c['nch'])
    if k in ('sincin', 'sincout'):
        return ("NEW kind=%s ratio=%s maxrel=%s itype=%d slen=%d fcut=%s factor=%d window=%d interp=%s chunk=%d nch=%d"
                % (k, f64hex(c['ratio']), f64hex(c['maxrel']), c['itype'], c['slen'], f32hex(c['fcut']), c['factor'], c['window'], c['interp'], c['chunk'], c['nch']))
    if k in ('fftin', 'fftout'):
        return "NEW kind=%s rin=%d rout=%d chunk=%d sub=%d nch=%d" % (k, c['rin'], c['rout'], c['chunk'], c['sub'], c['nch'])
    return "NEW kind=%s rin=%d rout=%d chunk=%d nch=%d" % (k, c['rin'], c['rout'], c['chunk'], c['nch'])


def fft_cfg(rng, kind, tier, **force):
    c = {'kind': kind, 'ty': rng.choice(['f64', 'f64', 'f32'])}
    c['rin'], c['rout'] = rng.choice(RATE_PAIRS) if rng.chance(0.8) else (1 + rng.below(200), 1 + rng.below(200))
    c['nch'] = rng.choice([1, 1, 2, 3])
    g = math.gcd(c['rin'], c['rout'])
    blk = max(c['rin'], c['rout']) // g
    lim = 600 if tier == 'quick' else 2500
    # keep FFT sizes moderate: the block is a multiple of rate/gcd
    for _ in range(50):
        if blk <= lim:
            break
        c['rin'], c['rout'] = rng.choice(RATE_PAIRS[:8] + RATE_PAIRS[9:12])
        g = math.gcd(c['rin'], c['rout'])
        blk = max(c['rin'], c['rout']) // g
    c['chunk'] = pick_chunk(rng, tier)
    if rng.chance(0.3):
        c['chunk'] = max(1, (c['rin'] // g) * rng.choice([1, 2, 3]) + rng.choice([-1, 0, 0, 1]))
    c['sub'] = rng.choice([1, 1, 2, 3, 4, 8]) if rng.chance(0.9) else 1 + rng.below(2 * c['chunk'] + 2)
    c.update(force)
    return c


def sig_spec(rng):
    r = rng.uniform()
    if r < 0.55:
        return "rand:%d" % rng.below(1 << 30)
    if r < 0.7:
        return "ramp"
    if r < 0.8:
        return "imp:%d" % rng.below(200)
    if r < 0.9:
        return "sine:%s:%s" % (f64hex(rng.uniform(0.001, 0.45)), f64hex(rng.uniform(0, 6.28)))
    return "const:%s" % f64hex(rng.uniform(-2, 2))


def lens(spec_for_chan, nch, mask):
    """per-channel symbolic lengths; masked-out channels may be empty"""
    out = []
    for c in range(nch):
        if mask is not None and mask[c] == '0':
            out.append(spec_for_chan(c, False))
        else:
            out.append(spec_for_chan(c, True))
    return ";".join(out)


class RatioTracker:
    """Mirror of the ratio state of an asynchronous resampler (values only; IEEE doubles)."""

    def __init__(self, c):
        self.c = c
        self.orig = c['ratio']
        self.maxrel = c['maxrel']
        self.lo = self.orig / self.maxrel
        self.hi = self.orig * self.maxrel
        self.ratio = self.orig          # resample_ratio
        self.target = self.orig         # target_ratio
        self.t_prev_end = 1.0 / self.orig
        self.chunk = c['chunk']
        self.max_chunk = c['chunk']
        self.first = True
        self.tainted = ''

    def set_ratio(self, r, ramp):
        if not ramp:
            self.ratio = r
        self.target = r

    def processed(self):
        ok, why = self.envelope()
        if not ok and not self.tainted:
            self.tainted = why
        self.t_prev_end = 1.0 / self.target
        self.ratio = self.target
        self.first = False

    def reset(self):
        self.ratio = self.target = self.orig
        self.t_prev_end = 1.0 / self.orig
        self.chunk = self.max_chunk
        self.first = True
        self.tainted = ''

    def envelope(self):
        """Is the next processing call inside the envelope in which the safety theorems apply?
        Returns (ok, reason)."""
        c = self.c
        kind = c['kind']
        if self.tainted:
            return False, 'after:' + self.tainted
        if kind in ('sincin', 'sincout') and (c['factor'] < 1 or (c['factor'] < 2 and c['itype'] in (0, 1))):
            return False, 'oversampling-factor-too-small'
        t0, t1 = 1.0 / self.ratio, 1.0 / self.target
        ramp = self.ratio != self.target
        L = c['L']
        C = self.chunk
        if kind in ('fastout', 'sincout'):
            if ramp:
                return False, 'fixedout-ramp'
            return True, ''
        # fixed input
        lo_reach = DEG_REACH[c['deg']][0] if kind == 'fastin' else 1
        hi_slack = (8 - DEG_REACH[c['deg']][1]) if kind == 'fastin' else 0
        room_lo = (7 - lo_reach) if kind == 'fastin' else (L - 2)
        tp = self.t_prev_end
        if not ramp:
            if math.ceil(tp) - t0 > room_lo - 1:
                return False, 'preroll-underflow'
            if (math.ceil(tp) - math.ceil(t0)) * self.ratio > 7.0:
                return False, 'count-overrun'
            return True, ''
        # ramped
        if t1 < t0:                               # ratio going up: steps shrink
            if t0 > math.ceil(t1) + hi_slack - 1e-9:
                return False, 'ramp-overrun'
            if 0.457 * C <= t0 + 2 + L:
                return False, 'ramp-negative-step'
            if (math.ceil(tp) - math.ceil(t1)) * self.target > 7.0:
                return False, 'count-overrun'
        else:
            if (math.ceil(tp) - math.ceil(t0)) * self.ratio > 7.0:
                return False, 'count-overrun'
        if math.ceil(tp) - t0 > room_lo - 1:
            return False, 'preroll-underflow'
        return True, ''


def valid_async_history(rng, kind, tier, name, nops=None, cfg=None, allow_out_of_envelope=True,
                        const_mask=None, ops_allowed=None, sig=None, no_mask=False):
    c = cfg or async_cfg(rng, kind, tier)
    tr = RatioTracker(c)
    lines = ["T ty=%s" % c['ty'], new_line(c)]
    nch = c['nch']
    n = nops or (4 + rng.below(8 if tier == 'quick' else 30))
    sigs = sig or sig_spec(rng)
    meta = {'cfg': c, 'ops': [], 'sig': sigs}
    mask_mode = 'none'
    if const_mask is not None:
        mask_mode = 'const'
        mask = const_mask
    elif rng.chance(0.25) and not no_mask:
        mask_mode = 'vary'
    allowed = ops_allowed or ['pib', 'pib', 'pib', 'pib', 'process', 'partial', 'partialinto', 'setratio', 'setrel', 'setchunk', 'reset']
    for i in range(n):
        kindop = rng.choice(allowed)
        m = None
        if mask_mode == 'const':
            m = mask
        elif mask_mode == 'vary' and rng.chance(0.5):
            m = "".join(rng.choice("01") for _ in range(nch))
        mstr = m if m is not None else '-'
        ann = {'op': kindop}
        if kindop in ('pib', 'process', 'partial', 'partialinto'):
            ok, why = tr.envelope()
            ann['envelope'] = ok
            ann['why'] = why
            if not ok and not allow_out_of_envelope:
                # bring the resampler back into the envelope instead: make the ratio constant
                lines.append("SETRATIO x=%s ramp=0" % f64hex(tr.target))
                tr.set_ratio(tr.target, False)
                ok2, why2 = tr.envelope()
                if not ok2:
                    lines.append("RESET")
                    tr.reset()
                    meta['ops'].append({'op': 'reset', 'envelope': True})
                else:
                    meta['ops'].append({'op': 'setratio', 'envelope': True})
                ann['envelope'], ann['why'] = tr.envelope()
        if kindop == 'pib':
            extra_in = rng.choice(['', '', '', '+1', '+7', 'MAX'])
            extra_out = rng.choice(['next', 'next', 'max', 'next+3', 'max+5'])
            il = lens(lambda ch, act: ('max' if extra_in == 'MAX' else 'next' + extra_in) if act else rng.choice(['abs:0', 'next']), nch, m)
            ol = lens(lambda ch, act: extra_out if act else rng.choice(['abs:0', 'abs:3']), nch, m)
            lines.append("PIB mask=%s inlen=%s outlen=%s sig=%s" % (mstr, il, ol, sigs))
            tr.processed()
        elif kindop == 'process':
            il = lens(lambda ch, act: 'next' if act else rng.choice(['abs:0', 'next']), nch, m)
            lines.append("PROCESS mask=%s inlen=%s sig=%s" % (mstr, il, sigs))
            tr.processed()
        elif kindop == 'partial':
            if rng.chance(0.3):
                lines.append("PARTIAL mask=%s inlen=none" % mstr)
            else:
                k = rng.choice(['-1', '-2', '-5'])
                il = lens(lambda ch, act: 'c1:next' + k, nch, m)
                lines.append("PARTIAL mask=%s inlen=%s sig=%s" % (mstr, il, sigs))
            tr.processed()
        elif kindop == 'partialinto':
            ol = lens(lambda ch, act: 'max' if act else 'abs:0', nch, m)
            if rng.chance(0.3):
                lines.append("PARTIALINTO mask=%s inlen=none outlen=%s" % (mstr, ol))
            else:
                k = rng.choice(['-1', '-3'])
                il = lens(lambda ch, act: 'c1:next' + k, nch, m)
                lines.append("PARTIALINTO mask=%s inlen=%s outlen=%s sig=%s" % (mstr, il, ol, sigs))
            tr.processed()
        elif kindop == 'setratio':
            r = rng.choice([tr.lo, tr.hi, tr.orig]) if rng.chance(0.3) else rng.loguniform(tr.lo, tr.hi) if tr.hi > tr.lo else tr.orig
            r = min(max(r, tr.lo), tr.hi)
            ramp = rng.chance(0.5)
            if rng.chance(0.25):
                # a second call with a value already in the state (current target or ratio), other ramp flag
                r = rng.choice([tr.target, tr.ratio])
                ramp = (tr.ratio == tr.target) if rng.chance(0.5) else (not ramp)
            if rng.chance(0.2):
                lines.append("SETRATIO x=%s ramp=%d" % (f64hex(r), int(not ramp)))
                tr.set_ratio(r, not ramp)
                meta['ops'].append({'op': 'setratio', 'ratio': r, 'ramp': (not ramp)})
            lines.append("SETRATIO x=%s ramp=%d" % (f64hex(r), int(ramp)))
            tr.set_ratio(r, ramp)
            ann.update(ratio=r, ramp=ramp)
        elif kindop == 'setrel':
            x = rng.choice([1.0 / tr.maxrel, tr.maxrel, 1.0]) if rng.chance(0.3) else rng.loguniform(1.0 / tr.maxrel, tr.maxrel) if tr.maxrel > 1 else 1.0
            x = min(max(x, 1.0 / tr.maxrel), tr.maxrel)
            ramp = rng.chance(0.5)
            lines.append("SETREL x=%s ramp=%d" % (f64hex(x), int(ramp)))
            r = min(max(tr.orig * x, tr.lo), tr.hi)
            tr.set_ratio(r, ramp)
            ann.update(ratio=r, ramp=ramp)
        elif kindop == 'setchunk':
            if kind in ('sincin', 'sincout'):
                nsz = 1 + rng.below(tr.max_chunk)
                lines.append("SETCHUNK n=%d" % nsz)
                tr.chunk = nsz
                ann['n'] = nsz
            else:
                lines.append("SETCHUNK n=%d" % (1 + rng.below(c['chunk'])))      # ChunkSizeNotAdjustable: a valid call, an Err by contract
                ann['expect_err'] = 'ChunkSizeNotAdjustable'
        elif kindop == 'reset':
            lines.append("RESET")
            tr.reset()
        meta['ops'].append(ann)
    return Case(name, lines, meta)


def valid_fft_history(rng, kind, tier, name, nops=None, cfg=None, const_mask=None, ops_allowed=None, sig=None, no_mask=False):
    c = cfg or fft_cfg(rng, kind, tier)
    lines = ["T ty=%s" % c['ty'], new_line(c)]
    nch = c['nch']
    n = nops or (4 + rng.below(8 if tier == 'quick' else 30))
    sigs = sig or sig_spec(rng)
    meta = {'cfg': c, 'ops': [], 'sig': sigs}
    mask_mode = 'const' if const_mask is not None else ('vary' if (rng.chance(0.2) and not no_mask) else 'none')
    allowed = ops_allowed or ['pib', 'pib', 'pib', 'pib', 'process', 'partial', 'partialinto', 'setratio', 'setrel', 'setchunk', 'reset']
    for i in range(n):
        kindop = rng.choice(allowed)
        m = const_mask if mask_mode == 'const' else ("".join(rng.choice("01") for _ in range(nch)) if (mask_mode == 'vary' and rng.chance(0.5)) else None)
        mstr = m if m is not None else '-'
        ann = {'op': kindop, 'envelope': True}
        if kindop == 'pib':
            # longer input than required is allowed: a frame or two, the whole buffer from input_buffer_allocate, several blocks
            extra_in = rng.choice(['', '', '+1', '+9', 'MAX', 'MAX', '+700'])
            extra_out = rng.choice(['next', 'next', 'max', 'next+3'])
            il = lens(lambda ch, act: ('max' if extra_in == 'MAX' else 'next' + extra_in) if act else rng.choice(['abs:0', 'next']), nch, m)
            ol = lens(lambda ch, act: extra_out if act else rng.choice(['abs:0', 'abs:3']), nch, m)
            lines.append("PIB mask=%s inlen=%s outlen=%s sig=%s" % (mstr, il, ol, sigs))
        elif kindop == 'process':
            il = lens(lambda ch, act: 'next' if act else rng.choice(['abs:0', 'next']), nch, m)
            lines.append("PROCESS mask=%s inlen=%s sig=%s" % (mstr, il, sigs))
        elif kindop == 'partial':
            if rng.chance(0.3):
                lines.append("PARTIAL mask=%s inlen=none" % mstr)
            else:
                il = lens(lambda ch, act: 'c1:next' + rng.choice(['-1', '-2', '-5']), nch, m)
                lines.append("PARTIAL mask=%s inlen=%s sig=%s" % (mstr, il, sigs))
        elif kindop == 'partialinto':
            ol = lens(lambda ch, act: 'max' if act else 'abs:0', nch, m)
            if rng.chance(0.3):
                lines.append("PARTIALINTO mask=%s inlen=none outlen=%s" % (mstr, ol))
            else:
                il = lens(lambda ch, act: 'c1:next' + rng.choice(['-1', '-3']), nch, m)
                lines.append("PARTIALINTO mask=%s inlen=%s outlen=%s sig=%s" % (mstr, il, ol, sigs))
        elif kindop == 'setratio':
            lines.append("SETRATIO x=%s ramp=%d" % (f64hex(rng.loguniform(0.1, 10)), rng.below(2)))
            ann['expect_err'] = 'SyncNotAdjustable'
        elif kindop == 'setrel':
            lines.append("SETREL x=%s ramp=%d" % (f64hex(rng.loguniform(0.5, 2)), rng.below(2)))
            ann['expect_err'] = 'SyncNotAdjustable'
        elif kindop == 'setchunk':
            lines.append("SETCHUNK n=%d" % (1 + rng.below(c['chunk'])))
            ann['expect_err'] = 'ChunkSizeNotAdjustable'
        elif kindop == 'reset':
            lines.append("RESET")
        meta['ops'].append(ann)
    return Case(name, lines, meta)


def valid_history(rng, kind, tier, name, **kw):
    if kind in ASYNC:
        return valid_async_history(rng, kind, tier, name, **kw)
    kw.pop('allow_out_of_envelope', None)
    return valid_fft_history(rng, kind, tier, name, **kw)
