#!/usr/bin/env python3
"""Confirm the incoming seeded changes in a scratch worktree of /repo (outside /repo and /verif):
existing suite passes with the patch, the demonstration passes without it and fails with it.
Writes seeded/<id>/{patch.diff,demo.rs,notes.md,meta.json} for confirmed ones."""
import os, sys, subprocess, json, shutil, glob
V = '/verif'
inc = sorted(glob.glob(V + '/seeded/_incoming/*'))
only = sys.argv[1:]
WT = '/tmp/seedwt'
env = dict(os.environ, CARGO_NET_OFFLINE='true', CARGO_TARGET_DIR='/tmp/seedwt_target')
def sh(cmd, cwd=None, t=1800):
    p = subprocess.run(cmd, shell=True, cwd=cwd, env=env, stdout=subprocess.PIPE, stderr=subprocess.STDOUT, text=True, timeout=t)
    return p.returncode, p.stdout
subprocess.run("git -C /repo worktree remove --force %s 2>/dev/null; rm -rf %s" % (WT, WT), shell=True)
rc, out = sh("git -C /repo worktree add -q --detach %s HEAD" % WT)
assert rc == 0, out
res = {}
for d in inc:
    name = os.path.basename(d)
    if only and name not in only:
        continue
    pid = name.split('_')[0]
    r = {'property': pid, 'name': name}
    sh("git checkout -q -- . && rm -rf tests", cwd=WT)
    os.makedirs(WT + '/tests', exist_ok=True)
    shutil.copy(d + '/demo.rs', WT + '/tests/demo.rs')
    rc0, o0 = sh("cargo test --offline --test demo 2>&1 | tail -15", cwd=WT)
    r['demo_without_change_passes'] = ('test result: ok' in o0)
    rca, oa = sh("git apply %s/patch.diff" % d, cwd=WT)
    r['patch_applies'] = rca == 0
    rc1, o1 = sh("cargo test --offline --test demo 2>&1 | tail -15", cwd=WT)
    r['demo_with_change_fails'] = ('test result: FAILED' in o1 or 'panicked' in o1) and 'test result: ok' not in o1
    shutil.rmtree(WT + '/tests')
    rc2, o2 = sh("cargo test --offline --lib 2>&1 | grep 'test result'", cwd=WT)
    r['existing_suite_with_change'] = o2.strip()
    r['existing_suite_passes'] = ('96 passed; 0 failed' in o2)
    r['confirmed'] = bool(r['demo_without_change_passes'] and r['patch_applies'] and r['demo_with_change_fails'] and r['existing_suite_passes'])
    r['demo_tail_with_change'] = o1[-600:]
    res[name] = r
    print(name, {k: v for k, v in r.items() if k not in ('demo_tail_with_change',)}, flush=True)
    if r['confirmed']:
        dst = V + '/seeded/' + name
        os.makedirs(dst, exist_ok=True)
        for f in ('patch.diff', 'demo.rs', 'notes.md'):
            if os.path.exists(d + '/' + f):
                shutil.copy(d + '/' + f, dst + '/' + f)
        meta = {'breaks_property': pid, 'confirmed_by': 'tools/seedconfirm.py in a scratch worktree of /repo HEAD',
                'ran': ['cargo test --offline --test demo (without the change: pass)', 'git apply patch.diff',
                        'cargo test --offline --test demo (with the change: fail)', 'cargo test --offline --lib (with the change: 96 passed)'],
                'results': {k: v for k, v in r.items() if k != 'demo_tail_with_change'},
                'needs_to_manifest': 'see notes.md (written by the independent sub-agent that produced the change)'}
        json.dump(meta, open(dst + '/meta.json', 'w'), indent=1)
sh("git checkout -q -- .", cwd=WT)
subprocess.run("git -C /repo worktree remove --force %s; rm -rf /tmp/seedwt_target" % WT, shell=True)
json.dump(res, open(V + '/build/seedconfirm.json', 'w'), indent=1)
