#!/usr/bin/env python3
"""Record, for the properties with known findings, the verdict of the property's predicate on histories generated from
fixed seeds, as observed on the CURRENT /repo tree (run this only on the pinned tree + fix commits, never on a seeded
change).  Output: corpus/golden_<pid>.json (committed).  Usage: mkgolden.py C03 C04 C06"""
import os, sys, json, shutil
sys.path.insert(0, os.path.dirname(os.path.abspath(__file__)))
import vlib, props, check
from vlib import *
SEEDS = [424242, 777001]
with Lock('build'):
    vlib.regenerate(); vlib.build_harness()
for pid in sys.argv[1:]:
    P = props.PROPS[pid]
    out = {'seeds': SEEDS, 'verdicts': {}, 'note': 'verdicts on /repo HEAD %s' % os.popen('git -C /repo rev-parse --short HEAD').read().strip()}
    for sd in SEEDS:
        d = os.path.join(RUNS, 'mkgolden_%s_%d' % (pid, sd))
        shutil.rmtree(d, ignore_errors=True)
        ctx = props.Ctx(pid, 'quick', Rng(sd), d, with_model=False)
        ctx.golden = True
        res = P['run'](ctx)
        v = check.golden_verdicts(res)
        out['verdicts'][str(sd)] = {n: {'sha': sha, 'classes': cl} for n, (sha, cl) in v.items()}
        print(pid, sd, len(v), 'histories;', sum(1 for x in v.values() if x[1]), 'with predicate failures')
        shutil.rmtree(d, ignore_errors=True)
    json.dump(out, open(os.path.join(VERIF, 'corpus', 'golden_%s.json' % pid), 'w'), indent=0)
