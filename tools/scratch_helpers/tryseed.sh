#!/bin/bash
# usage: tryseed.sh <seedid> <pid>
sid=$1; pid=$2
cp /verif/evidence/$pid.json /tmp/w/$pid.json.sav
git -C /repo apply /verif/seeded/$sid/patch.diff || exit 2
cd /verif && VERIF_SEED=${SEED:-1} python3 tools/check.py $pid quick 2>&1 | grep -v KNOWN | tail -4
git -C /repo checkout -- .
cp /tmp/w/$pid.json.sav /verif/evidence/$pid.json
git -C /repo status --short
