#!/bin/bash
# usage: tryreplay.sh <seedid> <pid> <replayfile>
sid=$1; pid=$2; rp=$3
cp /verif/evidence/$pid.json /tmp/w/$pid.json.sav
cp $rp /tmp/w/replay_copy.spec
[ -f ${rp%.spec}.family ] && cp ${rp%.spec}.family /tmp/w/replay_copy.family
git -C /repo apply /verif/seeded/$sid/patch.diff || exit 2
cd /verif && ./check $pid --replay /tmp/w/replay_copy.spec 2>&1 | grep -v KNOWN | tail -3; echo "exit with change: ${PIPESTATUS[0]}"
git -C /repo checkout -- .
cd /verif && ./check $pid --replay /tmp/w/replay_copy.spec 2>&1 | grep -v KNOWN | tail -2; echo "exit clean: ${PIPESTATUS[0]}"
cp /tmp/w/$pid.json.sav /verif/evidence/$pid.json
git -C /repo status --short
