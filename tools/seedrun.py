#!/usr/bin/env python3
"""Apply every stored seeded change to /repo in turn, run the check of its property, undo the change, and record
what the check reported in seeded/<id>/detection.json.  Never commits anything in /repo."""
import os, sys, json, subprocess, time
HERE = os.path.dirname(os.path.dirname(os.path.abspath(__file__)))
ids = sys.argv[1:] or sorted(d for d in os.listdir(os.path.join(HERE, 'seeded')) if not d.startswith('_'))
assert subprocess.run(['git', '-C', '/repo', 'status', '--porcelain'], capture_output=True, text=True).stdout.strip() == '', "/repo is not clean"
for sid in ids:
    d = os.path.join(HERE, 'seeded', sid)
    pid = json.load(open(os.path.join(d, 'meta.json')))['breaks_property']
    t0 = time.time()
    # the evidence file of the property describes the unchanged tree: keep it, and put it back after the run on the changed tree
    evp = os.path.join(HERE, 'evidence', pid + '.json')
    saved = open(evp).read() if os.path.exists(evp) else None
    subprocess.run(['git', '-C', '/repo', 'apply', os.path.join(d, 'patch.diff')], check=True)
    try:
        p = subprocess.run([os.path.join(HERE, 'check'), pid, '--tier', 'quick'], capture_output=True, text=True, cwd=HERE)
    finally:
        subprocess.run(['git', '-C', '/repo', 'checkout', '--', '.'], check=True)
        if saved is not None:
            open(evp, 'w').write(saved)
    lines = p.stdout.strip().split('\n')
    vio = [l for l in lines if l.startswith('VIOLATION')]
    reason = [l.strip() for l in lines if l.strip().startswith('reason:')]
    summ = [l for l in lines if l.startswith('check ')]
    rec = {'seeded': sid, 'property': pid, 'exit_code': p.returncode, 'violation_line': vio[0] if vio else None,
           'reason': reason[0] if reason else None, 'summary': summ[0] if summ else None,
           'concrete_failing_input': bool(vio) and 'no-failing-input-found' not in vio[0], 'wall_s': round(time.time() - t0, 1)}
    json.dump(rec, open(os.path.join(d, 'detection.json'), 'w'), indent=1)
    print(sid, pid, p.returncode, vio[0] if vio else '-', '|', (reason[0] if reason else '')[:140], flush=True)
