"""Site table for rs2v: which pieces of /repo/src are regenerated into coq/Gen.

Each Site names (generated identifier, file, impl header regex, fn, kind, options).
"""
import os, re, json
from rs2v import Site

FAST = 'asynchro_fast.rs'
SINC = 'asynchro_sinc.rs'
SYN = 'synchro.rs'

I_FI = r'impl<T>\s+Resampler<T>\s+for\s+FastFixedIn<T>'
I_FO = r'impl<T>\s+Resampler<T>\s+for\s+FastFixedOut<T>'
C_FI = r'impl<T>\s+FastFixedIn<T>'
C_FO = r'impl<T>\s+FastFixedOut<T>'
I_SI = r'impl<T>\s+Resampler<T>\s+for\s+SincFixedIn<T>'
I_SO = r'impl<T>\s+Resampler<T>\s+for\s+SincFixedOut<T>'
C_SI = r'impl<T>\s+SincFixedIn<T>'
C_SO = r'impl<T>\s+SincFixedOut<T>'
I_XI = r'impl<T>\s+Resampler<T>\s+for\s+FftFixedIn<T>'
I_XO = r'impl<T>\s+Resampler<T>\s+for\s+FftFixedOut<T>'
I_XIO = r'impl<T>\s+Resampler<T>\s+for\s+FftFixedInOut<T>'
C_XI = r'impl<T>\s+FftFixedIn<T>'
C_XO = r'impl<T>\s+FftFixedOut<T>'
C_XIO = r'impl<T>\s+FftFixedInOut<T>'
C_XR = r'impl<T>\s+FftResampler<T>'

DEGREES = ['Septic', 'Quintic', 'Cubic', 'Linear', 'Nearest']
SINCTYPES = ['Cubic', 'Quadratic', 'Linear', 'Nearest']


def arm(enum, name):
    return [(r'%s::%s\s*=>' % (enum, name), None)]


def common_pib_sites(pre, file, impl, R):
    """mask-length test, validate_buffers arguments and the returned pair of process_into_buffer"""
    return [
        Site(pre + '_mask_bad', file, impl, 'process_into_buffer', 'ifcond', nth=0, selfrec=R, ty='bool'),
        Site(pre + '_val_channels', file, impl, 'process_into_buffer', 'callarg', callee='validate_buffers', arg=3, selfrec=R, ty='usize'),
        Site(pre + '_val_min_in', file, impl, 'process_into_buffer', 'callarg', callee='validate_buffers', arg=4, selfrec=R, ty='usize'),
        Site(pre + '_val_min_out', file, impl, 'process_into_buffer', 'callarg', callee='validate_buffers', arg=5, selfrec=R, ty='usize',
             types={'needed_len': 'usize'}),
        Site(pre + '_ret_in', file, impl, 'process_into_buffer', 'callarg', callee='Ok', arg=0, nth=-1, selfrec=R, ty='usize',
             pre=r'^\(\s*(.*?)\s*,[^,]*\)$', callee_re=r'\bOk'),
        Site(pre + '_ret_out', file, impl, 'process_into_buffer', 'callarg', callee='Ok', arg=0, nth=-1, selfrec=R, ty='usize',
             pre=r'^\(.*,\s*([^,]*?)\s*\)$', callee_re=r'\bOk', types={'n': 'usize', 'needed_len': 'usize'}),
    ]


def fast_sites():
    s = []
    yl = {'yvals': 'T'}
    for fn in ('interp_septic', 'interp_quintic', 'interp_cubic', 'interp_lin'):
        s.append(Site('fast_' + fn, FAST, None, fn, 'body', lists=yl, ty='T'))
    s.append(Site('fast_validate_ratio_bad', FAST, None, 'validate_ratios', 'ifcond', nth=0, ty='bool'))
    s.append(Site('fast_validate_maxrel_bad', FAST, None, 'validate_ratios', 'ifcond', nth=1, ty='bool'))
    s.append(Site('fast_validate_range_bad', FAST, None, 'validate_ratios', 'ifcond', nth=2, ty='bool'))
    # ---- FastFixedIn
    R = 'FastFixedIn'
    s += [
        Site('fi_new_buffer_len', FAST, C_FI, 'new', 'let', var='buffer',
             types={}, ty='usize', pre=r'vec!\[vec!\[T::zero\(\);\s*(.*?)\];\s*nbr_channels\]'),
        Site('fi_new_last_index', FAST, C_FI, 'new', 'field_init', field='last_index', ty='f64'),
        Site('fi_needed_len', FAST, I_FI, 'process_into_buffer', 'let', var='needed_len', selfrec=R, ty='usize'),
        Site('fi_shift_lo', FAST, I_FI, 'process_into_buffer', 'range_lo', marker=r'buf\.copy_within\(', selfrec=R, ty='usize'),
        Site('fi_shift_hi', FAST, I_FI, 'process_into_buffer', 'range_hi', marker=r'buf\.copy_within\(', selfrec=R, ty='usize'),
        Site('fi_shift_dst', FAST, I_FI, 'process_into_buffer', 'callarg', callee='buf.copy_within', arg=1, selfrec=R, ty='usize'),
        Site('fi_fill_lo', FAST, I_FI, 'process_into_buffer', 'range_lo', marker=r'self\.buffer\[chan\]\[', selfrec=R, ty='usize'),
        Site('fi_fill_hi', FAST, I_FI, 'process_into_buffer', 'range_hi', marker=r'self\.buffer\[chan\]\[', selfrec=R, ty='usize'),
        Site('fi_fill_src_hi', FAST, I_FI, 'process_into_buffer', 'range_hi', marker=r'wave_in\[chan\]\.as_ref\(\)\[', selfrec=R, ty='usize'),
        Site('fi_t_ratio', FAST, I_FI, 'process_into_buffer', 'let', var='t_ratio', selfrec=R, ty='f64'),
        Site('fi_t_ratio_end', FAST, I_FI, 'process_into_buffer', 'let', var='t_ratio_end', selfrec=R, ty='f64'),
        Site('fi_approximate_nbr_frames', FAST, I_FI, 'process_into_buffer', 'let', var='approximate_nbr_frames', selfrec=R, ty='f64'),
        Site('fi_t_ratio_increment', FAST, I_FI, 'process_into_buffer', 'let', var='t_ratio_increment', selfrec=R, ty='f64'),
        Site('fi_end_idx', FAST, I_FI, 'process_into_buffer', 'let', var='end_idx', selfrec=R, ty='isize'),
        Site('fi_idx0', FAST, I_FI, 'process_into_buffer', 'let', var='idx', selfrec=R, ty='f64'),
        Site('fi_last_index_next', FAST, I_FI, 'process_into_buffer', 'assign', target='self.last_index', selfrec=R, ty='f64'),
        Site('fi_resample_ratio_next', FAST, I_FI, 'process_into_buffer', 'assign', target='self.resample_ratio', selfrec=R, ty='f64'),
        Site('fi_output_frames_max', FAST, I_FI, 'output_frames_max', 'body', selfrec=R, ty='usize'),
        Site('fi_output_frames_next', FAST, I_FI, 'output_frames_next', 'body', selfrec=R, ty='usize'),
        Site('fi_output_delay', FAST, I_FI, 'output_delay', 'body', selfrec=R, ty='usize'),
        Site('fi_input_frames_max', FAST, I_FI, 'input_frames_max', 'body', selfrec=R, ty='usize'),
        Site('fi_input_frames_next', FAST, I_FI, 'input_frames_next', 'body', selfrec=R, ty='usize'),
        Site('fi_set_ratio_accept', FAST, I_FI, 'set_resample_ratio', 'ifcond', nth=0, selfrec=R, ty='bool'),
        Site('fi_set_rel_new_ratio', FAST, I_FI, 'set_resample_ratio_relative', 'let', var='new_ratio', selfrec=R, ty='f64'),
        Site('fi_set_rel_accept', FAST, I_FI, 'set_resample_ratio_relative', 'ifcond', nth=0, selfrec=R, ty='bool'),
        Site('fi_set_rel_min_ratio', FAST, I_FI, 'set_resample_ratio_relative', 'let', var='min_ratio', selfrec=R, ty='f64'),
        Site('fi_set_rel_max_ratio', FAST, I_FI, 'set_resample_ratio_relative', 'let', var='max_ratio', selfrec=R, ty='f64'),
        Site('fi_set_rel_clamped', FAST, I_FI, 'set_resample_ratio_relative', 'callarg', callee='self.set_resample_ratio', arg=0, selfrec=R, ty='f64'),
        Site('fi_reset_last_index', FAST, I_FI, 'reset', 'assign', target='self.last_index', selfrec=R, ty='f64'),
        Site('fi_reset_resample_ratio', FAST, I_FI, 'reset', 'assign', target='self.resample_ratio', selfrec=R, ty='f64'),
        Site('fi_reset_target_ratio', FAST, I_FI, 'reset', 'assign', target='self.target_ratio', selfrec=R, ty='f64'),
    ]
    for d in DEGREES:
        w = arm('PolynomialDegree', d)
        p = 'fi_%s_' % d.lower()
        s += [
            Site(p + 'loop_cond', FAST, I_FI, 'process_into_buffer', 'whilecond', within=w, selfrec=R, ty='bool'),
            Site(p + 't_ratio_step', FAST, I_FI, 'process_into_buffer', 'opassign', target='t_ratio', within=w, selfrec=R, ty='f64'),
            Site(p + 'idx_step', FAST, I_FI, 'process_into_buffer', 'opassign', target='idx', within=w, selfrec=R, ty='f64'),
            Site(p + 'start_idx', FAST, I_FI, 'process_into_buffer', 'let', var='start_idx', within=w, selfrec=R, ty='isize'),
        ]
        if d != 'Nearest':
            s += [
                Site(p + 'idx_floor', FAST, I_FI, 'process_into_buffer', 'let', var='idx_floor', within=w, selfrec=R, ty='f64'),
                Site(p + 'frac', FAST, I_FI, 'process_into_buffer', 'let', var='frac', within=w, selfrec=R, ty='f64'),
                Site(p + 'win_lo', FAST, I_FI, 'process_into_buffer', 'range_lo', marker=r'get_unchecked\(chan\)\.get_unchecked\(', within=w, selfrec=R, ty='usize'),
                Site(p + 'win_hi', FAST, I_FI, 'process_into_buffer', 'range_hi', marker=r'get_unchecked\(chan\)\.get_unchecked\(', within=w, selfrec=R, ty='usize'),
            ]
        else:
            s += [
                Site(p + 'point', FAST, I_FI, 'process_into_buffer', 'callarg', callee='.get_unchecked(chan)\n                                    .get_unchecked', arg=0, within=w, selfrec=R, ty='usize', callee_re=r'\.get_unchecked\(chan\)\s*\.get_unchecked'),
            ]
    # ---- FastFixedOut
    R = 'FastFixedOut'
    s += [
        Site('fo_new_needed_input_size', FAST, C_FO, 'new', 'let', var='needed_input_size', ty='usize'),
        Site('fo_new_buffer_channel_length', FAST, C_FO, 'new', 'let', var='buffer_channel_length', ty='usize'),
        Site('fo_new_last_index', FAST, C_FO, 'new', 'field_init', field='last_index', ty='f64'),
        Site('fo_shift_lo', FAST, I_FO, 'process_into_buffer', 'range_lo', marker=r'buf\.copy_within\(', selfrec=R, ty='usize'),
        Site('fo_shift_hi', FAST, I_FO, 'process_into_buffer', 'range_hi', marker=r'buf\.copy_within\(', selfrec=R, ty='usize'),
        Site('fo_shift_dst', FAST, I_FO, 'process_into_buffer', 'callarg', callee='buf.copy_within', arg=1, selfrec=R, ty='usize'),
        Site('fo_fill_next', FAST, I_FO, 'process_into_buffer', 'assign', target='self.current_buffer_fill', selfrec=R, ty='usize'),
        Site('fo_fill_lo', FAST, I_FO, 'process_into_buffer', 'range_lo', marker=r'self\.buffer\[chan\]\[', selfrec=R, ty='usize'),
        Site('fo_fill_hi', FAST, I_FO, 'process_into_buffer', 'range_hi', marker=r'self\.buffer\[chan\]\[', selfrec=R, ty='usize'),
        Site('fo_fill_src_hi', FAST, I_FO, 'process_into_buffer', 'range_hi', marker=r'wave_in\.as_ref\(\)\[', selfrec=R, ty='usize'),
        Site('fo_idx0', FAST, I_FO, 'process_into_buffer', 'let', var='idx', selfrec=R, ty='f64'),
        Site('fo_t_ratio', FAST, I_FO, 'process_into_buffer', 'let', var='t_ratio', selfrec=R, ty='f64'),
        Site('fo_t_ratio_end', FAST, I_FO, 'process_into_buffer', 'let', var='t_ratio_end', selfrec=R, ty='f64'),
        Site('fo_t_ratio_increment', FAST, I_FO, 'process_into_buffer', 'let', var='t_ratio_increment', selfrec=R, ty='f64'),
        Site('fo_input_frames_used', FAST, I_FO, 'process_into_buffer', 'let', var='input_frames_used', selfrec=R, ty='usize'),
        Site('fo_last_index_next', FAST, I_FO, 'process_into_buffer', 'assign', target='self.last_index', selfrec=R, ty='f64'),
        Site('fo_resample_ratio_next', FAST, I_FO, 'process_into_buffer', 'assign', target='self.resample_ratio', selfrec=R, ty='f64'),
        Site('fo_needed_next', FAST, I_FO, 'process_into_buffer', 'assign', target='self.needed_input_size', selfrec=R, ty='usize'),
        Site('fo_input_frames_max', FAST, I_FO, 'input_frames_max', 'body', selfrec=R, ty='usize'),
        Site('fo_input_frames_next', FAST, I_FO, 'input_frames_next', 'body', selfrec=R, ty='usize'),
        Site('fo_output_frames_max', FAST, I_FO, 'output_frames_max', 'body', selfrec=R, ty='usize'),
        Site('fo_output_frames_next', FAST, I_FO, 'output_frames_next', 'body', selfrec=R, ty='usize'),
        Site('fo_output_delay', FAST, I_FO, 'output_delay', 'body', selfrec=R, ty='usize'),
        Site('fo_set_ratio_accept', FAST, I_FO, 'set_resample_ratio', 'ifcond', nth=0, selfrec=R, ty='bool'),
        Site('fo_set_ratio_needed', FAST, I_FO, 'set_resample_ratio', 'assign', target='self.needed_input_size', selfrec=R, ty='usize'),
        Site('fo_set_rel_new_ratio', FAST, I_FO, 'set_resample_ratio_relative', 'let', var='new_ratio', selfrec=R, ty='f64'),
        Site('fo_set_rel_accept', FAST, I_FO, 'set_resample_ratio_relative', 'ifcond', nth=0, selfrec=R, ty='bool'),
        Site('fo_set_rel_min_ratio', FAST, I_FO, 'set_resample_ratio_relative', 'let', var='min_ratio', selfrec=R, ty='f64'),
        Site('fo_set_rel_max_ratio', FAST, I_FO, 'set_resample_ratio_relative', 'let', var='max_ratio', selfrec=R, ty='f64'),
        Site('fo_set_rel_clamped', FAST, I_FO, 'set_resample_ratio_relative', 'callarg', callee='self.set_resample_ratio', arg=0, selfrec=R, ty='f64'),
        Site('fo_reset_needed', FAST, I_FO, 'reset', 'assign', target='self.needed_input_size', selfrec=R, ty='usize'),
        Site('fo_reset_fill', FAST, I_FO, 'reset', 'assign', target='self.current_buffer_fill', selfrec=R, ty='usize'),
        Site('fo_reset_last_index', FAST, I_FO, 'reset', 'assign', target='self.last_index', selfrec=R, ty='f64'),
        Site('fo_reset_resample_ratio', FAST, I_FO, 'reset', 'assign', target='self.resample_ratio', selfrec=R, ty='f64'),
        Site('fo_reset_target_ratio', FAST, I_FO, 'reset', 'assign', target='self.target_ratio', selfrec=R, ty='f64'),
    ]
    for d in DEGREES:
        w = arm('PolynomialDegree', d)
        p = 'fo_%s_' % d.lower()
        s += [
            Site(p + 'loop_bound', FAST, I_FO, 'process_into_buffer', 'forbound', within=w, selfrec=R, ty='usize'),
            Site(p + 't_ratio_step', FAST, I_FO, 'process_into_buffer', 'opassign', target='t_ratio', within=w, selfrec=R, ty='f64'),
            Site(p + 'idx_step', FAST, I_FO, 'process_into_buffer', 'opassign', target='idx', within=w, selfrec=R, ty='f64'),
            Site(p + 'start_idx', FAST, I_FO, 'process_into_buffer', 'let', var='start_idx', within=w, selfrec=R, ty='isize'),
        ]
        if d != 'Nearest':
            s += [
                Site(p + 'idx_floor', FAST, I_FO, 'process_into_buffer', 'let', var='idx_floor', within=w, selfrec=R, ty='f64'),
                Site(p + 'frac', FAST, I_FO, 'process_into_buffer', 'let', var='frac', within=w, selfrec=R, ty='f64'),
                Site(p + 'win_lo', FAST, I_FO, 'process_into_buffer', 'range_lo', marker=r'get_unchecked\(chan\)\.get_unchecked\(', within=w, selfrec=R, ty='usize'),
                Site(p + 'win_hi', FAST, I_FO, 'process_into_buffer', 'range_hi', marker=r'get_unchecked\(chan\)\.get_unchecked\(', within=w, selfrec=R, ty='usize'),
            ]
        else:
            s += [
                Site(p + 'point', FAST, I_FO, 'process_into_buffer', 'callarg', callee='x', arg=0, within=w, selfrec=R, ty='usize', callee_re=r'\.get_unchecked\(chan\)\s*\.get_unchecked'),
            ]

    for pre, impl, R in (('fi', I_FI, 'FastFixedIn'), ('fo', I_FO, 'FastFixedOut')):
        s += common_pib_sites(pre, FAST, impl, R)
    return s


def sinc_sites():
    s = []
    for fn, n in (('interp_cubic', 4), ('interp_quad', 3), ('interp_lin', 2)):
        s.append(Site('sinc_' + fn, SINC, None, fn, 'body', lists={'yvals': 'T'}, ty='T'))
    s.append(Site('sinc_validate_ratio_bad', SINC, None, 'validate_ratios', 'ifcond', nth=0, ty='bool'))
    s.append(Site('sinc_validate_maxrel_bad', SINC, None, 'validate_ratios', 'ifcond', nth=1, ty='bool'))
    s.append(Site('sinc_validate_range_bad', SINC, None, 'validate_ratios', 'ifcond', nth=2, ty='bool'))
    s.append(Site('mi_sinc_len', SINC, None, 'make_interpolator', 'let', var='sinc_len', nth=0, ty='usize'))
    s.append(Site('mi_f_cutoff', SINC, None, 'make_interpolator', 'let', var='f_cutoff', nth=0, ty='f32'))
    # the ratio the public constructors hand to make_interpolator (it decides the anti-aliasing cutoff)
    s.append(Site('si_new_mi_ratio', SINC, C_SI, 'new', 'callarg', callee='make_interpolator', arg=1, ty='f64'))
    s.append(Site('so_new_mi_ratio', SINC, C_SO, 'new', 'callarg', callee='make_interpolator', arg=1, ty='f64'))
    R = 'SincFixedIn'
    s += [
        Site('si_new_buffer_len', SINC, C_SI, 'new_with_interpolator', 'let', var='buffer', ty='usize',
             pre=r'vec!\[vec!\[T::zero\(\);\s*(.*?)\];\s*nbr_channels\]'),
        Site('si_new_last_index', SINC, C_SI, 'new_with_interpolator', 'field_init', field='last_index', ty='f64'),
        Site('si_new_fill', SINC, C_SI, 'new_with_interpolator', 'field_init', field='current_buffer_fill', ty='usize'),
        Site('si_calc_needed_len', SINC, C_SI, 'calc_needed_len', 'body', selfrec=R, ty='usize'),
        Site('si_t_ratio', SINC, I_SI, 'process_into_buffer', 'let', var='t_ratio', selfrec=R, ty='f64'),
        Site('si_t_ratio_end', SINC, I_SI, 'process_into_buffer', 'let', var='t_ratio_end', selfrec=R, ty='f64'),
        Site('si_approximate_nbr_frames', SINC, I_SI, 'process_into_buffer', 'let', var='approximate_nbr_frames', selfrec=R, ty='f64'),
        Site('si_t_ratio_increment', SINC, I_SI, 'process_into_buffer', 'let', var='t_ratio_increment', selfrec=R, ty='f64'),
        Site('si_end_idx', SINC, I_SI, 'process_into_buffer', 'let', var='end_idx', selfrec=R, ty='isize'),
        Site('si_shift_lo', SINC, I_SI, 'process_into_buffer', 'range_lo', marker=r'buf\.copy_within\(', selfrec=R, ty='usize'),
        Site('si_shift_hi', SINC, I_SI, 'process_into_buffer', 'range_hi', marker=r'buf\.copy_within\(', selfrec=R, ty='usize'),
        Site('si_shift_dst', SINC, I_SI, 'process_into_buffer', 'callarg', callee='buf.copy_within', arg=1, selfrec=R, ty='usize'),
        Site('si_sinc_len', SINC, I_SI, 'process_into_buffer', 'let', var='sinc_len', selfrec=R, ty='usize'),
        Site('si_oversampling_factor', SINC, I_SI, 'process_into_buffer', 'let', var='oversampling_factor', selfrec=R, ty='usize'),
        Site('si_fill_next', SINC, I_SI, 'process_into_buffer', 'assign', target='self.current_buffer_fill', selfrec=R, ty='usize'),
        Site('si_fill_lo', SINC, I_SI, 'process_into_buffer', 'range_lo', marker=r'self\.buffer\[chan\]\[', selfrec=R, ty='usize'),
        Site('si_fill_hi', SINC, I_SI, 'process_into_buffer', 'range_hi', marker=r'self\.buffer\[chan\]\[', selfrec=R, ty='usize'),
        Site('si_fill_src_hi', SINC, I_SI, 'process_into_buffer', 'range_hi', marker=r'wave_in\[chan\]\.as_ref\(\)\[', selfrec=R, ty='usize'),
        Site('si_idx0', SINC, I_SI, 'process_into_buffer', 'let', var='idx', selfrec=R, ty='f64'),
        Site('si_last_index_next', SINC, I_SI, 'process_into_buffer', 'assign', target='self.last_index', selfrec=R, ty='f64'),
        Site('si_resample_ratio_next', SINC, I_SI, 'process_into_buffer', 'assign', target='self.resample_ratio', selfrec=R, ty='f64'),
        Site('si_output_frames_max', SINC, I_SI, 'output_frames_max', 'body', selfrec=R, ty='usize'),
        Site('si_output_delay', SINC, I_SI, 'output_delay', 'body', selfrec=R, ty='usize'),
        Site('si_input_frames_max', SINC, I_SI, 'input_frames_max', 'body', selfrec=R, ty='usize'),
        Site('si_input_frames_next', SINC, I_SI, 'input_frames_next', 'body', selfrec=R, ty='usize'),
        Site('si_set_ratio_accept', SINC, I_SI, 'set_resample_ratio', 'ifcond', nth=0, selfrec=R, ty='bool'),
        Site('si_set_rel_new_ratio', SINC, I_SI, 'set_resample_ratio_relative', 'let', var='new_ratio', selfrec=R, ty='f64'),
        Site('si_set_rel_accept', SINC, I_SI, 'set_resample_ratio_relative', 'ifcond', nth=0, selfrec=R, ty='bool'),
        Site('si_set_rel_min_ratio', SINC, I_SI, 'set_resample_ratio_relative', 'let', var='min_ratio', selfrec=R, ty='f64'),
        Site('si_set_rel_max_ratio', SINC, I_SI, 'set_resample_ratio_relative', 'let', var='max_ratio', selfrec=R, ty='f64'),
        Site('si_set_rel_clamped', SINC, I_SI, 'set_resample_ratio_relative', 'callarg', callee='self.set_resample_ratio', arg=0, selfrec=R, ty='f64'),
        Site('si_reset_last_index', SINC, I_SI, 'reset', 'assign', target='self.last_index', selfrec=R, ty='f64'),
        Site('si_reset_resample_ratio', SINC, I_SI, 'reset', 'assign', target='self.resample_ratio', selfrec=R, ty='f64'),
        Site('si_reset_target_ratio', SINC, I_SI, 'reset', 'assign', target='self.target_ratio', selfrec=R, ty='f64'),
        Site('si_reset_chunk_size', SINC, I_SI, 'reset', 'assign', target='self.chunk_size', selfrec=R, ty='usize'),
        Site('si_reset_fill', SINC, I_SI, 'reset', 'assign', target='self.current_buffer_fill', selfrec=R, ty='usize'),
        Site('si_set_chunk_bad', SINC, I_SI, 'set_chunk_size', 'ifcond', nth=0, selfrec=R, ty='bool'),
    ]
    for d in SINCTYPES:
        w = arm('SincInterpolationType', d)
        p = 'si_%s_' % d.lower()
        s += [
            Site(p + 'loop_cond', SINC, I_SI, 'process_into_buffer', 'whilecond', within=w, selfrec=R, ty='bool'),
            Site(p + 't_ratio_step', SINC, I_SI, 'process_into_buffer', 'opassign', target='t_ratio', within=w, selfrec=R, ty='f64'),
            Site(p + 'idx_step', SINC, I_SI, 'process_into_buffer', 'opassign', target='idx', within=w, selfrec=R, ty='f64'),
            Site(p + 'kernel_index', SINC, I_SI, 'process_into_buffer', 'callarg', callee='self.interpolator.get_sinc_interpolated', arg=1, within=w, selfrec=R, ty='usize',
                 types={'n.0': 'isize', 'nearest.0': 'isize'}),
        ]
        if d != 'Nearest':
            s.append(Site(p + 'frac', SINC, I_SI, 'process_into_buffer', 'let', var='frac', within=w, selfrec=R, ty='f64'))
    R = 'SincFixedOut'
    s += [
        Site('so_new_needed_input_size', SINC, C_SO, 'new_with_interpolator', 'let', var='needed_input_size', ty='usize'),
        Site('so_new_buffer_channel_length', SINC, C_SO, 'new_with_interpolator', 'let', var='buffer_channel_length', ty='usize'),
        Site('so_new_last_index', SINC, C_SO, 'new_with_interpolator', 'field_init', field='last_index', ty='f64'),
        Site('so_update_needed_len', SINC, C_SO, 'update_needed_len', 'assign', target='self.needed_input_size', selfrec=R, ty='usize'),
        Site('so_shift_lo', SINC, I_SO, 'process_into_buffer', 'range_lo', marker=r'buf\.copy_within\(', selfrec=R, ty='usize'),
        Site('so_shift_hi', SINC, I_SO, 'process_into_buffer', 'range_hi', marker=r'buf\.copy_within\(', selfrec=R, ty='usize'),
        Site('so_shift_dst', SINC, I_SO, 'process_into_buffer', 'callarg', callee='buf.copy_within', arg=1, selfrec=R, ty='usize'),
        Site('so_sinc_len', SINC, I_SO, 'process_into_buffer', 'let', var='sinc_len', selfrec=R, ty='usize'),
        Site('so_oversampling_factor', SINC, I_SO, 'process_into_buffer', 'let', var='oversampling_factor', selfrec=R, ty='usize'),
        Site('so_fill_next', SINC, I_SO, 'process_into_buffer', 'assign', target='self.current_buffer_fill', selfrec=R, ty='usize'),
        Site('so_fill_lo', SINC, I_SO, 'process_into_buffer', 'range_lo', marker=r'self\.buffer\[chan\]\[', selfrec=R, ty='usize'),
        Site('so_fill_hi', SINC, I_SO, 'process_into_buffer', 'range_hi', marker=r'self\.buffer\[chan\]\[', selfrec=R, ty='usize'),
        Site('so_fill_src_hi', SINC, I_SO, 'process_into_buffer', 'range_hi', marker=r'wave_in\[chan\]\.as_ref\(\)\[', selfrec=R, ty='usize'),
        Site('so_idx0', SINC, I_SO, 'process_into_buffer', 'let', var='idx', selfrec=R, ty='f64'),
        Site('so_t_ratio', SINC, I_SO, 'process_into_buffer', 'let', var='t_ratio', selfrec=R, ty='f64'),
        Site('so_t_ratio_end', SINC, I_SO, 'process_into_buffer', 'let', var='t_ratio_end', selfrec=R, ty='f64'),
        Site('so_t_ratio_increment', SINC, I_SO, 'process_into_buffer', 'let', var='t_ratio_increment', selfrec=R, ty='f64'),
        Site('so_input_frames_used', SINC, I_SO, 'process_into_buffer', 'let', var='input_frames_used', selfrec=R, ty='usize'),
        Site('so_last_index_next', SINC, I_SO, 'process_into_buffer', 'assign', target='self.last_index', selfrec=R, ty='f64'),
        Site('so_resample_ratio_next', SINC, I_SO, 'process_into_buffer', 'assign', target='self.resample_ratio', selfrec=R, ty='f64'),
        Site('so_input_frames_max', SINC, I_SO, 'input_frames_max', 'body', selfrec=R, ty='usize'),
        Site('so_input_frames_next', SINC, I_SO, 'input_frames_next', 'body', selfrec=R, ty='usize'),
        Site('so_output_frames_max', SINC, I_SO, 'output_frames_max', 'body', selfrec=R, ty='usize'),
        Site('so_output_frames_next', SINC, I_SO, 'output_frames_next', 'body', selfrec=R, ty='usize'),
        Site('so_output_delay', SINC, I_SO, 'output_delay', 'body', selfrec=R, ty='usize'),
        Site('so_set_ratio_accept', SINC, I_SO, 'set_resample_ratio', 'ifcond', nth=0, selfrec=R, ty='bool'),
        Site('so_set_rel_new_ratio', SINC, I_SO, 'set_resample_ratio_relative', 'let', var='new_ratio', selfrec=R, ty='f64'),
        Site('so_set_rel_accept', SINC, I_SO, 'set_resample_ratio_relative', 'ifcond', nth=0, selfrec=R, ty='bool'),
        Site('so_set_rel_min_ratio', SINC, I_SO, 'set_resample_ratio_relative', 'let', var='min_ratio', selfrec=R, ty='f64'),
        Site('so_set_rel_max_ratio', SINC, I_SO, 'set_resample_ratio_relative', 'let', var='max_ratio', selfrec=R, ty='f64'),
        Site('so_set_rel_clamped', SINC, I_SO, 'set_resample_ratio_relative', 'callarg', callee='self.set_resample_ratio', arg=0, selfrec=R, ty='f64'),
        Site('so_reset_resample_ratio', SINC, I_SO, 'reset', 'assign', target='self.resample_ratio', selfrec=R, ty='f64'),
        Site('so_reset_target_ratio', SINC, I_SO, 'reset', 'assign', target='self.target_ratio', selfrec=R, ty='f64'),
        Site('so_reset_last_index', SINC, I_SO, 'reset', 'assign', target='self.last_index', selfrec=R, ty='f64'),
        Site('so_reset_chunk_size', SINC, I_SO, 'reset', 'assign', target='self.chunk_size', selfrec=R, ty='usize'),
        Site('so_reset_needed', SINC, I_SO, 'reset', 'assign', target='self.needed_input_size', selfrec=R, ty='usize'),
        Site('so_reset_fill', SINC, I_SO, 'reset', 'assign', target='self.current_buffer_fill', selfrec=R, ty='usize'),
        Site('so_set_chunk_bad', SINC, I_SO, 'set_chunk_size', 'ifcond', nth=0, selfrec=R, ty='bool'),
    ]
    for d in SINCTYPES:
        w = arm('SincInterpolationType', d)
        p = 'so_%s_' % d.lower()
        s += [
            Site(p + 'loop_bound', SINC, I_SO, 'process_into_buffer', 'forbound', within=w, selfrec=R, ty='usize'),
            Site(p + 't_ratio_step', SINC, I_SO, 'process_into_buffer', 'opassign', target='t_ratio', within=w, selfrec=R, ty='f64'),
            Site(p + 'idx_step', SINC, I_SO, 'process_into_buffer', 'opassign', target='idx', within=w, selfrec=R, ty='f64'),
            Site(p + 'kernel_index', SINC, I_SO, 'process_into_buffer', 'callarg', callee='self.interpolator.get_sinc_interpolated', arg=1, within=w, selfrec=R, ty='usize',
                 types={'n.0': 'isize', 'nearest.0': 'isize'}),
        ]
        if d != 'Nearest':
            s.append(Site(p + 'frac', SINC, I_SO, 'process_into_buffer', 'let', var='frac', within=w, selfrec=R, ty='f64'))

    for pre, impl, R in (('si', I_SI, 'SincFixedIn'), ('so', I_SO, 'SincFixedOut')):
        s += common_pib_sites(pre, SINC, impl, R)
    return s


def syn_sites():
    s = []
    for pre, impl in (('xio', C_XIO), ('xo', C_XO), ('xi', C_XI)):
        for v in ('gcd', 'fft_chunks', 'fft_size_out', 'fft_size_in'):
            s.append(Site('%s_new_%s' % (pre, v), SYN, impl, 'new', 'let', var=v, ty='usize'))
    s.append(Site('xio_new_min_chunk_in', SYN, C_XIO, 'new', 'let', var='min_chunk_in', ty='usize'))
    s.append(Site('xo_new_min_chunk_out', SYN, C_XO, 'new', 'let', var='min_chunk_out', ty='usize'))
    s.append(Site('xo_new_wanted_subsize', SYN, C_XO, 'new', 'let', var='wanted_subsize', ty='usize'))
    s.append(Site('xo_new_chunks_needed', SYN, C_XO, 'new', 'let', var='chunks_needed', ty='usize'))
    s.append(Site('xo_new_frames_needed', SYN, C_XO, 'new', 'let', var='frames_needed', ty='usize'))
    s.append(Site('xi_new_min_chunk_in', SYN, C_XI, 'new', 'let', var='min_chunk_in', ty='usize'))
    s.append(Site('xi_new_wanted_subsize', SYN, C_XI, 'new', 'let', var='wanted_subsize', ty='usize'))
    s.append(Site('syn_validate_rates_bad', SYN, None, 'validate_sample_rates', 'ifcond', nth=0, ty='bool'))
    R = 'FftFixedIn'
    s += [
        Site('xi_next_saved_frames', SYN, I_XI, 'process_into_buffer', 'let', var='next_saved_frames', selfrec=R, ty='usize'),
        Site('xi_nbr_chunks_ready', SYN, I_XI, 'process_into_buffer', 'let', var='nbr_chunks_ready', selfrec=R, ty='usize'),
        Site('xi_needed_len', SYN, I_XI, 'process_into_buffer', 'let', var='needed_len', selfrec=R, ty='usize'),
        Site('xi_frames_in_used', SYN, I_XI, 'process_into_buffer', 'let', var='frames_in_used', selfrec=R, ty='usize'),
        Site('xi_extra', SYN, I_XI, 'process_into_buffer', 'let', var='extra', selfrec=R, ty='usize'),
        Site('xi_output_frames_max', SYN, I_XI, 'output_frames_max', 'body', selfrec=R, ty='usize'),
        Site('xi_output_frames_next', SYN, I_XI, 'output_frames_next', 'body', selfrec=R, ty='usize'),
        Site('xi_output_delay', SYN, I_XI, 'output_delay', 'body', selfrec=R, ty='usize'),
        Site('xi_input_frames_max', SYN, I_XI, 'input_frames_max', 'body', selfrec=R, ty='usize'),
        Site('xi_input_frames_next', SYN, I_XI, 'input_frames_next', 'body', selfrec=R, ty='usize'),
    ]
    R = 'FftFixedOut'
    s += [
        Site('xo_processed_frames', SYN, I_XO, 'process_into_buffer', 'let', var='processed_frames', selfrec=R, ty='usize'),
        Site('xo_enough', SYN, I_XO, 'process_into_buffer', 'ifcond', nth=0, selfrec=R, ty='bool',
             within=[(r'let processed_frames', r'let frames_needed_out')]),
        Site('xo_saved_if_enough', SYN, I_XO, 'process_into_buffer', 'assign', target='self.saved_frames', nth=0, selfrec=R, ty='usize'),
        Site('xo_saved_else', SYN, I_XO, 'process_into_buffer', 'assign', target='self.saved_frames', nth=1, selfrec=R, ty='usize'),
        Site('xo_frames_needed_out', SYN, I_XO, 'process_into_buffer', 'let', var='frames_needed_out', selfrec=R, ty='usize'),
        Site('xo_chunks_needed', SYN, I_XO, 'process_into_buffer', 'let', var='chunks_needed', selfrec=R, ty='usize'),
        Site('xo_input_frames_used', SYN, I_XO, 'process_into_buffer', 'let', var='input_frames_used', selfrec=R, ty='usize'),
        Site('xo_frames_needed_next', SYN, I_XO, 'process_into_buffer', 'assign', target='self.frames_needed', selfrec=R, ty='usize'),
        Site('xo_input_frames_max', SYN, I_XO, 'input_frames_max', 'body', selfrec=R, ty='usize'),
        Site('xo_input_frames_next', SYN, I_XO, 'input_frames_next', 'body', selfrec=R, ty='usize'),
        Site('xo_output_frames_max', SYN, I_XO, 'output_frames_max', 'body', selfrec=R, ty='usize'),
        Site('xo_output_delay', SYN, I_XO, 'output_delay', 'body', selfrec=R, ty='usize'),
        Site('xo_reset_chunks_needed', SYN, I_XO, 'reset', 'let', var='chunks_needed', selfrec=R, ty='usize'),
        Site('xo_reset_frames_needed', SYN, I_XO, 'reset', 'assign', target='self.frames_needed', selfrec=R, ty='usize'),
        Site('xo_reset_saved_frames', SYN, I_XO, 'reset', 'assign', target='self.saved_frames', selfrec=R, ty='usize'),
    ]
    R = 'FftFixedInOut'
    s += [
        Site('xio_input_frames_max', SYN, I_XIO, 'input_frames_max', 'body', selfrec=R, ty='usize'),
        Site('xio_input_frames_next', SYN, I_XIO, 'input_frames_next', 'body', selfrec=R, ty='usize'),
        Site('xio_output_frames_max', SYN, I_XIO, 'output_frames_max', 'body', selfrec=R, ty='usize'),
        Site('xio_output_delay', SYN, I_XIO, 'output_delay', 'body', selfrec=R, ty='usize'),
    ]
    s += [
        Site('xio_in_hi', SYN, I_XIO, 'process_into_buffer', 'range_hi', marker=r'wave_in\[channel\]\.as_ref\(\)\[', selfrec='FftFixedInOut', ty='usize'),
        Site('xio_out_hi', SYN, I_XIO, 'process_into_buffer', 'range_hi', marker=r'wave_out\[channel\]\.as_mut\(\)\[', selfrec='FftFixedInOut', ty='usize'),
        Site('xo_in_hi', SYN, I_XO, 'process_into_buffer', 'range_hi', marker=r'wave_in\[chan\]\.as_ref\(\)\[', selfrec='FftFixedOut', ty='usize'),
        Site('xo_in_chunk', SYN, I_XO, 'process_into_buffer', 'callarg', callee='.chunks', arg=0, selfrec='FftFixedOut', ty='usize', callee_re=r'\.chunks'),
        Site('xo_obuf_lo', SYN, I_XO, 'process_into_buffer', 'range_lo', marker=r'self\.output_buffers\[chan\]\[', nth=0, selfrec='FftFixedOut', ty='usize'),
        Site('xo_out_chunk', SYN, I_XO, 'process_into_buffer', 'callarg', callee='.chunks_mut', arg=0, selfrec='FftFixedOut', ty='usize', callee_re=r'\.chunks_mut'),
        Site('xo_copy_hi', SYN, I_XO, 'process_into_buffer', 'range_hi', marker=r'wave_out\[chan\]\.as_mut\(\)\[', selfrec='FftFixedOut', ty='usize'),
        Site('xo_copy_src_hi', SYN, I_XO, 'process_into_buffer', 'range_hi', marker=r'copy_from_slice\(&self\.output_buffers\[chan\]\[', selfrec='FftFixedOut', ty='usize'),
        Site('xo_keep_lo', SYN, I_XO, 'process_into_buffer', 'range_lo', marker=r'self\.output_buffers\[chan\]\.copy_within\(', selfrec='FftFixedOut', ty='usize'),
        Site('xo_keep_hi', SYN, I_XO, 'process_into_buffer', 'range_hi', marker=r'self\.output_buffers\[chan\]\.copy_within\(', selfrec='FftFixedOut', ty='usize'),
        Site('xi_skip', SYN, I_XI, 'process_into_buffer', 'callarg', callee='.skip', arg=0, selfrec='FftFixedIn', ty='usize', callee_re=r'\.skip'),
        Site('xi_take', SYN, I_XI, 'process_into_buffer', 'callarg', callee='.take', arg=0, nth=0, selfrec='FftFixedIn', ty='usize', callee_re=r'\.take'),
        Site('xi_in_chunk', SYN, I_XI, 'process_into_buffer', 'callarg', callee='.chunks', arg=0, selfrec='FftFixedIn', ty='usize', callee_re=r'\.chunks'),
        Site('xi_take_chunks', SYN, I_XI, 'process_into_buffer', 'callarg', callee='.take', arg=0, nth=1, selfrec='FftFixedIn', ty='usize', callee_re=r'\.take'),
        Site('xi_out_chunk', SYN, I_XI, 'process_into_buffer', 'callarg', callee='.chunks_mut', arg=0, selfrec='FftFixedIn', ty='usize', callee_re=r'\.chunks_mut'),
        Site('xi_keep_cond', SYN, I_XI, 'process_into_buffer', 'ifcond', nth=0, selfrec='FftFixedIn', ty='bool',
             within=[(r'let extra', r'self\.saved_frames = extra')]),
        Site('xi_keep_lo', SYN, I_XI, 'process_into_buffer', 'range_lo', marker=r'self\.input_buffers\[chan\]\.copy_within\(', selfrec='FftFixedIn', ty='usize'),
        Site('xi_keep_hi', SYN, I_XI, 'process_into_buffer', 'range_hi', marker=r'self\.input_buffers\[chan\]\.copy_within\(', selfrec='FftFixedIn', ty='usize'),
        Site('xi_saved_mid', SYN, I_XI, 'process_into_buffer', 'assign', target='self.saved_frames', nth=0, selfrec='FftFixedIn', ty='usize'),
        Site('xi_saved_end', SYN, I_XI, 'process_into_buffer', 'assign', target='self.saved_frames', nth=1, selfrec='FftFixedIn', ty='usize'),
        Site('xi_reset_saved_frames', SYN, I_XI, 'reset', 'assign', target='self.saved_frames', selfrec='FftFixedIn', ty='usize'),
        Site('xi_new_ibuf_len', SYN, C_XI, 'new', 'let', var='input_buffers', ty='usize', pre=r'vec!\[vec!\[T::zero\(\);\s*(.*?)\];\s*nbr_channels\]'),
        Site('xi_new_overlap_len', SYN, C_XI, 'new', 'let', var='overlaps', ty='usize', pre=r'vec!\[vec!\[T::zero\(\);\s*(.*?)\];\s*nbr_channels\]'),
        Site('xo_new_obuf_len', SYN, C_XO, 'new', 'let', var='output_buffers', ty='usize', pre=r'vec!\[vec!\[T::zero\(\);\s*(.*?)\];\s*nbr_channels\]'),
        Site('xo_new_overlap_len', SYN, C_XO, 'new', 'let', var='overlaps', ty='usize', pre=r'vec!\[vec!\[T::zero\(\);\s*(.*?)\];\s*nbr_channels\]'),
        Site('xio_new_overlap_len', SYN, C_XIO, 'new', 'let', var='overlaps', ty='usize', pre=r'vec!\[vec!\[T::zero\(\);\s*(.*?)\];\s*nbr_channels\]'),
        Site('unit_new_len', SYN, C_XR, 'resample_unit', 'let', var='new_len', selfrec='FftResampler', ty='usize'),
    ]

    for pre, impl, R in (('xi', I_XI, 'FftFixedIn'), ('xo', I_XO, 'FftFixedOut'), ('xio', I_XIO, 'FftFixedInOut')):
        s += common_pib_sites(pre, SYN, impl, R)
    return s


SPEC = [
    (FAST, 'FastGen', ['FastFixedIn', 'FastFixedOut'], fast_sites()),
    (SINC, 'SincGen', ['SincFixedIn', 'SincFixedOut'], sinc_sites()),
    (SYN, 'SynchroGen', ['FftFixedIn', 'FftFixedOut', 'FftFixedInOut', 'FftResampler'], syn_sites()),
]


# --------------------------------------------------------------------------
# Syntactic summaries (C09: allocation-capable constructs; C18: shared storage)
# --------------------------------------------------------------------------
ALLOC_PATTERNS = [r'\bvec!\s*\[', r'\bVec::(?:new|with_capacity|from)\b', r'\bBox::new\b', r'\bString::', r'\.collect\s*(?:::<[^>]*>)?\s*\(',
                  r'\.to_vec\s*\(', r'\.to_owned\s*\(', r'\.to_string\s*\(', r'\bformat!\s*\(', r'\.clone\s*\(', r'\.push\s*\(',
                  r'\.resize\s*\(', r'\.extend', r'\.reserve\s*\(', r'\.make_scratch_vec\s*\(', r'\bArc::new\b', r'\bRc::new\b',
                  r'\.process\s*\(']
SHARED_PATTERNS = [r'\bstatic\s+(?:mut\s+)?[A-Z_]+', r'\bthread_local!\s*', r'\blazy_static!\s*', r'\bOnceCell\b', r'\bOnceLock\b', r'\bLazyLock\b',
                   r'\bRefCell\b', r'\bCell<', r'\bMutex\b', r'\bRwLock\b', r'\bAtomic[A-Z][A-Za-z0-9]*\b', r'\bunsafe\s+impl\s+(?:<[^>]*>\s*)?(?:Send|Sync)\b']

MONITORED_FNS = ['process_into_buffer', 'set_resample_ratio', 'set_resample_ratio_relative', 'set_chunk_size', 'reset',
                 'input_frames_max', 'input_frames_next', 'output_frames_max', 'output_frames_next', 'output_delay',
                 'nbr_channels', 'resample_unit', 'update_needed_len', 'calc_needed_len', 'get_sinc_interpolated',
                 'get_sinc_interpolated_unsafe', 'get_nearest_time', 'get_nearest_times_2', 'get_nearest_times_3',
                 'get_nearest_times_4', 'interp_septic', 'interp_quintic', 'interp_cubic', 'interp_quad', 'interp_lin',
                 'validate_buffers', 'update_mask_from_buffers']


def summaries(repo, outdir):
    import rs2v
    srcdir = os.path.join(repo, 'src')
    files = []
    for root, _, fs in os.walk(srcdir):
        for f in fs:
            if f.endswith('.rs') and 'neon' not in f:
                files.append(os.path.join(root, f))
    files.sort()
    alloc, shared = [], []
    for path in files:
        raw = open(path).read()
        m = re.search(r'\n#\[cfg\(test\)\]\s*\nmod tests', raw)
        if m:
            raw = raw[:m.start()]
        m = re.search(r'\n/// Verification hooks', raw)
        if m:
            raw = raw[:m.start()]
        # drop the cfg(rubato_verif) recorder line
        raw = re.sub(r'#\[cfg\(rubato_verif\)\]\s*\n[^\n]*\n', '\n', raw)
        src = rs2v.strip_comments(raw)
        rel = os.path.relpath(path, srcdir)
        for pat in SHARED_PATTERNS:
            for m in re.finditer(pat, src):
                line = src.count('\n', 0, m.start()) + 1
                text = src[m.start():src.index('\n', m.start())].strip()
                shared.append({'file': rel, 'line': line, 'text': text})
        # monitored function bodies (all occurrences of each fn name; trait default bodies in lib.rs excluded by name)
        for fn in MONITORED_FNS:
            for m in re.finditer(r'\bfn\s+%s\b' % fn, src):
                i = m.end()
                depth = 0
                while i < len(src) and not (src[i] == '{' and depth == 0) and src[i] != ';':
                    if src[i] in '(<[':
                        depth += 1
                    elif src[i] in ')>]' and not (src[i] == '>' and src[i - 1] == '-'):
                        depth -= 1
                    i += 1
                if i >= len(src) or src[i] == ';':
                    continue
                cb = rs2v.match_brace(src, i)
                body = src[i:cb]
                # strip log macros (compiled out with the `log` feature off)
                body = re.sub(r'\b(trace|debug|info|warn|error)!\s*\((?:[^()]|\([^()]*\))*\)\s*;', '', body)
                for pat in ALLOC_PATTERNS:
                    for mm in re.finditer(pat, body):
                        line = src.count('\n', 0, i + mm.start()) + 1
                        alloc.append({'file': rel, 'fn': fn, 'line': line, 'text': mm.group(0)})
    # pinned source regions (code the translator cannot model: transcendental window functions, table
    # generation, the FFT core): whitespace- and comment-normalised text, hashed
    import hashlib
    def region_text(rel, start_pat=None):
        raw = open(os.path.join(srcdir, rel)).read()
        m = re.search(r'\n#\[cfg\(test\)\]\s*\nmod tests', raw)
        if m:
            raw = raw[:m.start()]
        m = re.search(r'\n/// Verification hooks', raw)
        if m:
            raw = raw[:m.start()]
        raw = re.sub(r'#\[cfg\(rubato_verif\)\]\s*\n[^\n]*\n', '\n', raw)
        txt = rs2v.strip_comments(raw)
        if start_pat:
            m = re.search(start_pat, txt)
            if not m:
                return '<missing>'
            i = txt.index('{', m.end())
            txt = txt[m.start():rs2v.match_brace(txt, i) + 1]
        return re.sub(r'\s+', ' ', txt).strip()
    pinned = {}
    for name, rel, pat in [('windows_rs', 'windows.rs', None), ('sinc_rs', 'sinc.rs', None), ('interpolation_rs', 'interpolation.rs', None),
                           ('fft_core', 'synchro.rs', r'impl<T>\s+FftResampler<T>')]:
        try:
            pinned[name] = hashlib.sha256(region_text(rel, pat).encode()).hexdigest()[:32]
        except Exception as ex:
            pinned[name] = 'error:%r' % ex
    # Gallina summary
    def enc(items, keyf):
        return "[" + "; ".join('"%s"%%string' % keyf(x) for x in items) + "]"
    txt = ["(* GENERATED by tools/rs2v.py (syntactic summaries) -- do not edit. *)",
           "From Coq Require Import String List.", "Import ListNotations.",
           "(* allocation-capable constructs inside the monitored (real-time) functions, log feature off *)",
           "Definition alloc_constructs_in_monitored : list string := %s." % enc(alloc, lambda x: "%s:%s:%s" % (x['file'], x['fn'], x['text'].replace('"', ''))),
           "(* items with static / thread-local / interior-mutable / shared storage in src (tests and hooks excluded) *)",
           "Definition shared_storage_items : list string := %s." % enc(shared, lambda x: "%s:%s" % (x['file'], x['text'].replace('"', ''))),
           "(* sha256 (first 32 hex digits) of comment- and whitespace-normalised source regions that are modelled by hand *)"] + \
          ['Definition src_hash_%s : string := "%s"%%string.' % (k, v) for k, v in sorted(pinned.items())] + [""]
    path = os.path.join(outdir, 'Summary.v')
    text = "\n".join(txt)
    old = open(path).read() if os.path.exists(path) else None
    if old != text:
        open(path, 'w').write(text)
    return {'alloc_constructs': alloc, 'shared_items': shared, 'vec_forwarding': vec_forwarding(repo), 'pinned_regions': pinned}


def vec_forwarding(repo):
    """implement_resampler!: every method of the blanket impl must be the single forwarding call."""
    import rs2v
    src = rs2v.strip_comments(open(os.path.join(repo, 'src', 'lib.rs')).read())
    m = re.search(r'impl<T,\s*U>\s*\$trait_name<T>\s*for\s*U', src)
    if not m:
        return {'ok': False, 'problems': ['blanket impl of the wrapper trait not found'], 'methods': []}
    ob = src.index('{', m.end())
    cb = rs2v.match_brace(src, ob)
    body = src[ob + 1:cb]
    problems, methods = [], []
    for fm in re.finditer(r'\bfn\s+([a-z_]+)\s*\(', body):
        name = fm.group(1)
        # parameters
        i = fm.end()
        depth = 1
        while depth:
            if body[i] == '(':
                depth += 1
            elif body[i] == ')':
                depth -= 1
            i += 1
        params = body[fm.end():i - 1]
        names = []
        for p in params.split(','):
            p = p.strip()
            if not p or p in ('&self', '&mut self', 'self'):
                continue
            names.append(p.split(':')[0].strip())
        fb = body.index('{', i)
        fe = rs2v.match_brace(body, fb)
        text = re.sub(r'\s+', '', body[fb + 1:fe])
        want = 'rubato::Resampler::%s(self,%s)' % (name, ','.join(names)) if names else 'rubato::Resampler::%s(self)' % name
        alt = want.replace('wave_in,', 'wave_in.map(AsRef::as_ref),', 1)
        text = text.rstrip(',')
        text2 = re.sub(r',\)$', ')', text)
        methods.append(name)
        if text2 not in (want, alt):
            problems.append('%s: body is %r, expected %r' % (name, text2[:120], want))
    required = ['process', 'process_into_buffer', 'process_partial_into_buffer', 'process_partial', 'input_buffer_allocate',
                'input_frames_max', 'input_frames_next', 'nbr_channels', 'output_buffer_allocate', 'output_frames_max',
                'output_frames_next', 'output_delay', 'set_resample_ratio', 'set_resample_ratio_relative']
    for r in required:
        if r not in methods:
            problems.append('method %s missing from the blanket impl' % r)
    return {'ok': not problems, 'problems': problems, 'methods': methods}
