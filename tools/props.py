"""Per-property check definitions: which histories are generated, which model components
are compared, and the executable predicate evaluated on the implementation traces."""
import os, sys, json, math, collections, shutil
import vlib, gens
from vlib import *
from gens import *

INF = float('inf')
NAN = float('nan')


class Ctx:
    def __init__(self, pid, tier, rng, outdir, with_model=True):
        self.pid, self.tier, self.rng, self.outdir, self.with_model = pid, tier, rng, outdir, with_model
        self.quick = tier == 'quick'


def new_results(rule, components):
    return {'cases': [], 'failures': [], 'disagreements': [], 'dist': collections.Counter(), 'samples': [],
            'n_eval': 0, 'n_corr': 0, 'n_distinct': 0, 'rule': rule, 'components': list(components)}


def fail(case, step, message, cls=None, **kw):
    d = {'case': case.name, 'step': step, 'message': message, 'class': cls,
         'spec_path': getattr(case, 'spec_path', None), 'hist_path': getattr(case, 'hist_path', None)}
    d.update(kw)
    return d


def component_of(case):
    k = case.meta.get('component')
    if k:
        return k
    cfg = case.meta.get('cfg', {})
    return {'fastin': 'FastFixedIn', 'fastout': 'FastFixedOut', 'sincin': 'SincFixedIn', 'sincout': 'SincFixedOut',
            'fftin': 'FftFixedIn', 'fftout': 'FftFixedOut', 'fftinout': 'FftFixedInOut'}.get(cfg.get('kind'), 'model')


def execute(ctx, cases, res, judge=None, timeout=120, release=False):
    """Run the cases on implementation (+ model), collect disagreements, judge traces."""
    run_cases(cases, ctx.outdir, with_model=ctx.with_model, release=release, timeout=timeout)
    seen = set()
    for c in cases:
        res['n_eval'] += 1
        key = "\n".join(c.spec)
        if key not in seen:
            seen.add(key)
        if ctx.with_model:
            if c.diff is None:
                res['n_corr'] += 1
            else:
                res['disagreements'].append({'component': component_of(c), 'case': c.name, 'diff': c.diff,
                                             'spec_path': c.spec_path, 'hist_path': c.hist_path})
        try:
            c.trace = parse_trace(c.impl_path, c.hist_path)
        except Exception as ex:
            c.trace = None
            res['failures'].append(fail(c, -1, "cannot parse implementation trace: %r" % ex))
            continue
        nsteps = len(c.trace['steps'])
        if nsteps > 0 or c.meta.get('component'):
            res['n_distinct'] += 1
        if judge:
            try:
                res['failures'].extend(judge(c) or [])
            except Exception as ex:
                import traceback
                traceback.print_exc()
                res['failures'].append(fail(c, -1, "judge crashed: %r" % ex))
        if len(res['samples']) < 6:
            res['samples'].append({'case': c.name, 'spec': [l[:160] for l in c.spec[:8]],
                                   'results': [(s.op, s.res) for s in (c.trace['steps'][:8] if c.trace else [])]})
    return res


def run_replay(ctx, P, path):
    """Replay a stored spec (implementation + model) and apply the property's generic judge."""
    lines = [l.rstrip('\n') for l in open(path) if l.strip()]
    c = Case('replay', lines, {'component': 'replay'})
    res = new_results('replay of %s' % path, ['replay'])
    execute(ctx, [c], res, judge=P.get('judge_any'))
    return res


# ------------------------------------------------------------------ shared judges
FATAL = ('panic', 'abort', 'diverge')


def state_sig(step):
    return (tuple(step.g or []), tuple(step.s or []), tuple(step.bufs))


def judge_unchanged_on_err(case, allow=()):
    """A call that returned Err left getters, control state and internal buffers as they were."""
    out = []
    tr = case.trace
    prev = tr['init']
    for i, s in enumerate(tr['steps']):
        if s.res == 'err' and s.g is not None and prev.g is not None:
            if state_sig(s) != state_sig(prev):
                out.append(fail(case, i, "state changed by a rejected call (%s %s)" % (s.op, s.fields[:1])))
        if s.res in FATAL:
            break
        prev = s
    return out


# ------------------------------------------------------------------ function-level cases
def special_floats(rng, ty):
    vals = [0.0, -0.0, 1.0, -1.0, 0.5, 1e-300, -1e-300, 1e300, 5e-324, 1.7976931348623157e308, 3.0, 1 / 3, 2 / 3, 0.1]
    if ty == 'f32':
        vals = [0.0, -0.0, 1.0, -1.0, 0.5, 1e-38, 1e-45, 3e38, 3.0, 1 / 3, 0.1]
    return vals


def fn_interp_cases(rng, n, ty):
    hexf = f64hex if ty == 'f64' else f32hex
    names = [('fast_septic', 8), ('fast_quintic', 6), ('fast_cubic', 4), ('fast_lin', 2), ('sinc_cubic', 4), ('sinc_quad', 3), ('sinc_lin', 2)]
    lines = ["T ty=%s" % ty]
    for i in range(n):
        nm, k = names[i % len(names)]
        mode = rng.below(4)
        if mode == 0:
            x = rng.uniform(0, 1)
            y = [rng.uniform(-1, 1) for _ in range(k)]
        elif mode == 1:
            x = rng.choice([0.0, 1.0, 0.5, 0.999999, 1e-12, rng.uniform(-2, 3)])
            y = [rng.choice([0.0, 1.0, -1.0, rng.uniform(-1e6, 1e6)]) for _ in range(k)]
        elif mode == 2:
            x = rng.uniform(0, 1)
            y = [rng.loguniform(1e-20, 1e20) * rng.choice([-1, 1]) for _ in range(k)]
        else:
            x = rng.choice(special_floats(rng, ty))
            y = [rng.choice(special_floats(rng, ty)) for _ in range(k)]
        lines.append("FN f=interp name=%s x=%s y=%s" % (nm, hexf(x), ",".join(hexf(v) for v in y)))
    return lines


# ================================================================== C08
def run_C08(ctx):
    rng, tier = ctx.rng, ctx.tier
    res = new_results("(a) generated interpolators evaluated bit-exactly on random/special arguments, model vs real functions through hooks; "
                      "(b) FastFixedIn/Out streams with polynomial input of admissible degree vs the polynomial evaluated at the "
                      "instants observed on a Linear+ramp twin; a case is non-trivial if it produced at least one output frame",
                      ['interp-functions', 'FastFixedIn', 'FastFixedOut'])
    cases = []
    nfn = 400 if ctx.quick else 4000
    for ty in ('f64', 'f32'):
        for k in range(4 if ctx.quick else 16):
            cases.append(Case("fn_%s_%d" % (ty, k), fn_interp_cases(rng.fork("fn%s%d" % (ty, k)), nfn // 8, ty),
                              {'component': 'interp-functions', 'fn': True}))
    # polynomial streams: (degree under test with poly signal) + (Linear with ramp signal) twins
    npoly = 24 if ctx.quick else 200
    pairs = []
    for i in range(npoly):
        r = rng.fork("poly%d" % i)
        kind = r.choice(['fastin', 'fastout'])
        deg = r.below(5)
        maxdeg = [7, 5, 3, 1, 0][deg]
        cfg = async_cfg(r, kind, tier, deg=deg, nch=1, maxrel=r.choice([1.0, 2.0]))
        cfg['chunk'] = max(cfg['chunk'], 12)
        coeffs = [r.uniform(-1, 1) * (0.05 ** j) for j in range(maxdeg + 1)] if maxdeg > 0 else [r.uniform(-1, 1)]
        if deg == 4:
            sig = "ramp"
        else:
            sig = "poly:" + ":".join(f64hex(c) for c in coeffs)
        ops = ['pib', 'pib', 'process']
        seedfork = r.fork('ops')
        a = valid_async_history(Rng(seedfork.s), kind, tier, "poly_%03d_a" % i, nops=4 + r.below(4), cfg=dict(cfg),
                                allow_out_of_envelope=False, ops_allowed=ops, sig=sig, no_mask=True)
        cfgb = dict(cfg)
        cfgb['deg'] = 3
        b = valid_async_history(Rng(seedfork.s), kind, tier, "poly_%03d_b" % i, nops=len(a.meta['ops']), cfg=cfgb,
                                allow_out_of_envelope=False, ops_allowed=ops, sig="ramp", no_mask=True)
        a.meta.update(coeffs=coeffs, twin=b, degree=deg)
        b.meta['is_twin'] = True
        pairs.append((a, b))
        cases += [a, b]

    def judge(c):
        out = []
        if c.meta.get('fn') or c.meta.get('is_twin'):
            return out
        b = c.meta['twin']
        if not getattr(b, 'trace', None):
            b.trace = parse_trace(b.impl_path, b.hist_path)
        ty = c.trace['ty']
        tol = 1e-9 if ty == 'f64' else 4e-3
        coeffs, deg = c.meta['coeffs'], c.meta['degree']
        for i, (sa, sb) in enumerate(zip(c.trace['steps'], b.trace['steps'])):
            if sa.res in FATAL or sb.res in FATAL:
                out.append(fail(c, i, "fatal outcome on a valid constant-ratio history: %s" % sa.res))
                break
            if sa.res not in ('counts', 'vecs'):
                continue
            n = int(sa.fields[1]) if sa.res == 'counts' else None
            ya = expand_samples(sa.outs[0], ty)
            yb = expand_samples(sb.outs[0], ty)
            if n is not None:
                ya, yb = ya[:n], yb[:n]
            for j, (v, tau) in enumerate(zip(ya, yb)):
                if deg == 4:
                    want = math.floor(tau + (1e-9 if ty == 'f64' else 1e-3) * max(1.0, abs(tau)))     # ramp: sample at floor(instant)
                    # instants that are integers up to rounding may legitimately resolve either way
                    ok = (v == math.floor(tau)) or (v == want) or abs(tau - round(tau)) < (1e-6 if ty == 'f64' else 1e-2)
                else:
                    want = sum(cf * tau ** k for k, cf in enumerate(coeffs))
                    scale = 1.0 + sum(abs(cf) * abs(tau) ** k for k, cf in enumerate(coeffs))
                    ok = abs(v - want) <= tol * scale * (1 if ty == 'f64' else (1 + abs(tau)))
                if tau < 0:      # instants before the stream start see the zero history, not the polynomial
                    continue
                if tau < 8:
                    continue     # the 8/6/4/2-point window still overlaps the zero history
                if not ok:
                    out.append(fail(c, i, "output %d at instant %r is %r, polynomial gives %r" % (j, tau, v, want)))
                    return out
        return out

    execute(ctx, cases, res, judge)
    res['dist'].update({'fn_files': sum(1 for c in cases if c.meta.get('fn')), 'poly_pairs': len(pairs)})
    return res


# ================================================================== C12
def boundary_values(orig, maxrel):
    lo, hi = orig / maxrel, orig * maxrel
    vals = [lo, hi, orig, math.nextafter(lo, 0), math.nextafter(lo, INF), math.nextafter(hi, 0), math.nextafter(hi, INF),
            NAN, INF, -INF, 0.0, -0.0, -orig, 5e-324, 2.2250738585072014e-308, 1.7976931348623157e308, lo * 0.5, hi * 2,
            math.sqrt(lo * hi) if lo > 0 else orig]
    return vals


def rel_values(maxrel):
    inv = 1.0 / maxrel
    return [inv, maxrel, 1.0, math.nextafter(inv, 0), math.nextafter(inv, INF), math.nextafter(maxrel, 0), math.nextafter(maxrel, INF),
            NAN, INF, -INF, 0.0, -1.0, 5e-324, inv * 0.5, maxrel * 2]


def run_C12(ctx):
    rng, tier = ctx.rng, ctx.tier
    res = new_results("boundary lattice: for every type, random and 'nice' (original, max) pairs; set_resample_ratio at the documented "
                      "bounds computed in binary64, their float neighbours, NaN, infinities, zero, negatives, subnormals; the same "
                      "for the relative setter and for set_chunk_size (0, 1, max, max+1, huge); each call is judged against the "
                      "documented expression evaluated in IEEE doubles and against the bit-exact model",
                      ['FastFixedIn', 'FastFixedOut', 'SincFixedIn', 'SincFixedOut', 'FftFixedIn', 'FftFixedOut', 'FftFixedInOut'])
    cases = []
    n = 28 if ctx.quick else 400
    for i in range(n):
        r = rng.fork("c12_%d" % i)
        kind = gens.ALL[i % 7]
        if kind in gens.ASYNC:
            cfg = async_cfg(r, kind, 'quick', nch=1)
            cfg['chunk'] = min(cfg['chunk'], 32)
            if kind.startswith('sinc'):
                cfg['slen'], cfg['L'] = 8, 8
            if r.chance(0.5):
                cfg['ratio'] = r.choice([0.1, 0.7, 1.0, 1.0 / 3, 48000 / 44100, 3.3, 0.01, 100.0, 1e-3, 7.0])
                cfg['maxrel'] = r.choice([10.0, 1.0, 49.0, 9.0, 3.0, 1.1, 7.0, 1.0000000000000002, 100.0])
            else:
                cfg['ratio'] = r.loguniform(1e-3, 1e3)
                cfg['maxrel'] = r.choice([r.uniform(1, 2), r.loguniform(1, 1000), 1.0])
            lines = ["T ty=%s" % cfg['ty'], new_line(cfg)]
            ann = []
            vals = boundary_values(cfg['ratio'], cfg['maxrel'])
            rels = rel_values(cfg['maxrel'])
            k = 14 if ctx.quick else 40
            for _ in range(k):
                t = r.below(10)
                if t < 5:
                    v = r.choice(vals[:2] + vals[3:7]) if r.chance(0.6) else r.choice(vals)
                    lines.append("SETRATIO x=%s ramp=%d" % (f64hex(v), r.below(2)))
                    ann.append(('abs', v))
                elif t < 8:
                    v = r.choice(rels[:2] + rels[3:7]) if r.chance(0.6) else r.choice(rels)
                    lines.append("SETREL x=%s ramp=%d" % (f64hex(v), r.below(2)))
                    ann.append(('rel', v))
                else:
                    v = r.choice([0, 1, cfg['chunk'], cfg['chunk'] + 1, 2 ** 40, max(1, cfg['chunk'] // 2)])
                    lines.append("SETCHUNK n=%d" % v)
                    ann.append(('chunk', v))
                    if kind.startswith('sinc') and 1 <= v <= cfg['chunk']:
                        lines.append("SETRATIO x=%s ramp=0" % f64hex(cfg['ratio']))
                        ann.append(('abs', cfg['ratio']))
                        lines.append("PIB mask=- inlen=next outlen=max sig=rand:%d" % r.below(1000))
                        ann.append(('pib', v))
            cases.append(Case("lat_%03d_%s" % (i, kind), lines, {'cfg': cfg, 'ann': ann}))
        else:
            cfg = fft_cfg(r, kind, 'quick', nch=1)
            lines = ["T ty=%s" % cfg['ty'], new_line(cfg)]
            ann = []
            for _ in range(6):
                t = r.below(3)
                if t == 0:
                    lines.append("SETRATIO x=%s ramp=%d" % (f64hex(r.choice([1.0, cfg['rout'] / cfg['rin'], NAN, 0.5])), r.below(2)))
                    ann.append(('sync', 0))
                elif t == 1:
                    lines.append("SETREL x=%s ramp=%d" % (f64hex(r.choice([1.0, 0.99, NAN])), r.below(2)))
                    ann.append(('sync', 0))
                else:
                    lines.append("SETCHUNK n=%d" % r.choice([0, 1, cfg['chunk'], cfg['chunk'] + 1]))
                    ann.append(('nochunk', 0))
            cases.append(Case("lat_%03d_%s" % (i, kind), lines, {'cfg': cfg, 'ann': ann}))

    def judge(c):
        out = []
        cfg, ann = c.meta['cfg'], c.meta['ann']
        tr = c.trace
        if tr['new'] != 'ok':
            # constructor rejected: only legitimate for parameters outside the documented domain
            orig, mx = cfg.get('ratio', 1.0), cfg.get('maxrel', 1.0)
            if cfg['kind'] in gens.ASYNC and orig > 0 and mx >= 1 and math.isfinite(orig * mx) and orig / mx >= 2.2250738585072014e-308:
                out.append(fail(c, -1, "constructor rejected valid parameters: %s" % tr['new']))
            return out
        orig, mx = cfg.get('ratio'), cfg.get('maxrel')
        prev = tr['init']
        cur_chunk = cfg['chunk']
        for i, (s, (kind, v)) in enumerate(zip(tr['steps'], ann)):
            if s.res in FATAL:
                out.append(fail(c, i, "setter or following call ended with %s" % s.res))
                break
            if kind == 'abs':
                lo, hi = orig / mx, orig * mx
                want = (lo <= v <= hi)
                got = s.res == 'unit'
                if want != got:
                    out.append(fail(c, i, "set_resample_ratio(%r) with original %r max %r: accepted=%s, documented range [%r, %r] says %s"
                                    % (v, orig, mx, got, lo, hi, want)))
                if not got and (s.res != 'err' or s.fields[0] != 'RatioOutOfBounds'):
                    out.append(fail(c, i, "rejection is not RatioOutOfBounds: %s %s" % (s.res, s.fields)))
            elif kind == 'rel':
                want = (1.0 / mx <= v <= mx)
                got = s.res == 'unit'
                if want != got:
                    out.append(fail(c, i, "set_resample_ratio_relative(%r) with max %r: accepted=%s, documented range [%r, %r] says %s"
                                    % (v, mx, got, 1.0 / mx, mx, want)))
                if got:
                    # behaves as set_resample_ratio(original*x) (kept inside the absolute bounds)
                    exp = min(max(orig * v, orig / mx), orig * mx)
                    tgt = hexf64(s.s[3])
                    if tgt != exp:
                        out.append(fail(c, i, "relative %r set the target ratio to %r, expected %r" % (v, tgt, exp)))
            elif kind == 'chunk':
                if cfg['kind'].startswith('sinc'):
                    want = 1 <= v <= cfg['chunk']
                    got = s.res == 'unit'
                    if want != got:
                        out.append(fail(c, i, "set_chunk_size(%d) with max %d: accepted=%s" % (v, cfg['chunk'], got)))
                    if not got and (s.res != 'err' or s.fields[:1] != ['InvalidChunkSize'] or int(s.fields[1]) != cfg['chunk'] or int(s.fields[2]) != v):
                        out.append(fail(c, i, "rejection is not InvalidChunkSize{max,requested}: %s" % (s.fields,)))
                    if got:
                        cur_chunk = v
                else:
                    if s.res != 'err' or s.fields[0] != 'ChunkSizeNotAdjustable':
                        out.append(fail(c, i, "set_chunk_size on a type without adjustable chunk: %s %s" % (s.res, s.fields)))
            elif kind == 'pib':
                if s.res != 'counts':
                    out.append(fail(c, i, "processing call after an accepted chunk change failed: %s %s" % (s.res, s.fields)))
                else:
                    nin, nout = int(s.fields[0]), int(s.fields[1])
                    if cfg['kind'] == 'sincin' and nin != v:
                        out.append(fail(c, i, "after set_chunk_size(%d) the call consumed %d frames" % (v, nin)))
                    if cfg['kind'] == 'sincout' and nout != v:
                        out.append(fail(c, i, "after set_chunk_size(%d) the call produced %d frames" % (v, nout)))
            elif kind == 'sync':
                if s.res != 'err' or s.fields[0] != 'SyncNotAdjustable':
                    out.append(fail(c, i, "synchronous resampler answered %s %s" % (s.res, s.fields)))
            elif kind == 'nochunk':
                if s.res != 'err' or s.fields[0] != 'ChunkSizeNotAdjustable':
                    out.append(fail(c, i, "synchronous resampler set_chunk_size answered %s %s" % (s.res, s.fields)))
            if s.res == 'err' and state_sig(s) != state_sig(prev):
                out.append(fail(c, i, "a rejected setter changed the resampler state"))
            prev = s
        return out

    execute(ctx, cases, res, judge)
    res['dist'].update(collections.Counter(a[0] for c in cases for a in c.meta['ann']))
    return res


PROPS = {
    'C08': {
        'run': run_C08,
        'pinned': ['C08_septic_exact_R', 'C08_quintic_exact_R', 'C08_cubic_exact_R', 'C08_linear_exact_R',
                   'C08_septic_linear_R', 'C08_quintic_linear_R', 'C08_cubic_linear_R', 'C08_linear_linear_R'],
        'unproved': ['C08_sine_full: classical interpolation error bound for sinusoids (stated as a Prop, not proved)',
                     '"to rounding": the size of the floating-point deviation from the exact polynomial is not bounded by a theorem '
                     '(the bit-exact model measures it on every run)'],
        'assumptions': ['ideal (real-number) reading of the generated interpolators: rounding erased, nothing else',
                        'IEEE-754 conformance of rustc/LLVM/x86-64 for + - * / (what makes the bit-exact comparison meaningful)'],
        'trusted_base': ['Coq Reals axioms (ClassicalDedekindReals.sig_forall_dec, functional_extensionality_dep) via ring/field on R'],
    },
    'C12': {
        'run': run_C12,
        'pinned': ['C12_bounds_B64', 'C12_accept_iff_B64', 'C12_accept_sites', 'C12_set_ratio_step', 'C12_relative_iff_B64',
                   'C12_relative_step', 'C12_clamped_accepted', 'C12_sync_reject', 'C12_chunk_size_iff_Z', 'C12_chunk_not_adjustable',
                   'C12_ctor_establishes'],
        'unproved': [],
        'assumptions': ['the documented bounds original/max and original*max are read as the binary64 quotient and product',
                        '1/max in the relative bound is the binary64 quotient',
                        'Flocq BinarySingleNaN models IEEE-754 binary64 round-to-nearest-even arithmetic and comparisons'],
        'trusted_base': ['Flocq 4.1 (Bdiv_correct, Bmult_correct, Bleb_correct, round_le) and Coq Reals axioms'],
    },
}
