"""Per-property check definitions: which histories are generated, which model components
are compared, and the executable predicate evaluated on the implementation traces."""
import os, sys, json, math, collections, shutil
import vlib, gens
from vlib import *
from gens import *

INF = float('inf')
NAN = float('nan')


class Ctx:
    def __init__(self, pid, tier, rng, outdir, with_model=True):
        self.pid, self.tier, self.rng, self.outdir, self.with_model = pid, tier, rng, outdir, with_model
        self.quick = tier == 'quick'


def new_results(rule, components):
    return {'cases': [], 'failures': [], 'disagreements': [], 'dist': collections.Counter(), 'samples': [],
            'n_eval': 0, 'n_corr': 0, 'n_distinct': 0, 'rule': rule, 'components': list(components)}


def fail(case, step, message, cls=None, **kw):
    d = {'case': case.name, 'step': step, 'message': message, 'class': cls,
         'spec_path': getattr(case, 'spec_path', None), 'hist_path': getattr(case, 'hist_path', None)}
    d.update(kw)
    return d


def component_of(case):
    k = case.meta.get('component')
    if k:
        return k
    cfg = case.meta.get('cfg', {})
    return {'fastin': 'FastFixedIn', 'fastout': 'FastFixedOut', 'sincin': 'SincFixedIn', 'sincout': 'SincFixedOut',
            'fftin': 'FftFixedIn', 'fftout': 'FftFixedOut', 'fftinout': 'FftFixedInOut'}.get(cfg.get('kind'), 'model')


def execute(ctx, cases, res, judge=None, timeout=120, release=False):
    """Run the cases on implementation (+ model), collect disagreements, judge traces."""
    run_cases(cases, ctx.outdir, with_model=ctx.with_model, release=release, timeout=timeout)
    seen = set()
    for c in cases:
        res['n_eval'] += 1
        key = "\n".join(c.spec)
        if key not in seen:
            seen.add(key)
        if ctx.with_model:
            if c.diff is None:
                res['n_corr'] += 1
            else:
                res['disagreements'].append({'component': component_of(c), 'case': c.name, 'diff': c.diff,
                                             'spec_path': c.spec_path, 'hist_path': c.hist_path})
        try:
            c.trace = parse_trace(c.impl_path, c.hist_path)
        except Exception as ex:
            c.trace = None
            res['failures'].append(fail(c, -1, "cannot parse implementation trace: %r" % ex))
            continue
        nsteps = len(c.trace['steps'])
        if nsteps > 0 or c.meta.get('component'):
            res['n_distinct'] += 1
        if judge:
            try:
                res['failures'].extend(judge(c) or [])
            except Exception as ex:
                import traceback
                traceback.print_exc()
                res['failures'].append(fail(c, -1, "judge crashed: %r" % ex))
        if len(res['samples']) < 6:
            res['samples'].append({'case': c.name, 'spec': [l[:160] for l in c.spec[:8]],
                                   'results': [(s.op, s.res) for s in (c.trace['steps'][:8] if c.trace else [])]})
    return res


def run_replay(ctx, P, path):
    """Replay a stored spec (implementation + model) and apply the property's generic judge."""
    lines = [l.rstrip('\n') for l in open(path) if l.strip()]
    c = Case('replay', lines, {'component': 'replay'})
    res = new_results('replay of %s' % path, ['replay'])
    execute(ctx, [c], res, judge=P.get('judge_any'))
    return res


# ------------------------------------------------------------------ shared judges
FATAL = ('panic', 'abort', 'diverge')


def state_sig(step):
    return (tuple(step.g or []), tuple(step.s or []), tuple(step.bufs))


def judge_unchanged_on_err(case, allow=()):
    """A call that returned Err left getters, control state and internal buffers as they were."""
    out = []
    tr = case.trace
    prev = tr['init']
    for i, s in enumerate(tr['steps']):
        if s.res == 'err' and s.g is not None and prev.g is not None:
            if state_sig(s) != state_sig(prev):
                out.append(fail(case, i, "state changed by a rejected call (%s %s)" % (s.op, s.fields[:1])))
        if s.res in FATAL:
            break
        prev = s
    return out


# ------------------------------------------------------------------ function-level cases
def special_floats(rng, ty):
    vals = [0.0, -0.0, 1.0, -1.0, 0.5, 1e-300, -1e-300, 1e300, 5e-324, 1.7976931348623157e308, 3.0, 1 / 3, 2 / 3, 0.1]
    if ty == 'f32':
        vals = [0.0, -0.0, 1.0, -1.0, 0.5, 1e-38, 1e-45, 3e38, 3.0, 1 / 3, 0.1]
    return vals


def fn_interp_cases(rng, n, ty):
    hexf = f64hex if ty == 'f64' else f32hex
    names = [('fast_septic', 8), ('fast_quintic', 6), ('fast_cubic', 4), ('fast_lin', 2), ('sinc_cubic', 4), ('sinc_quad', 3), ('sinc_lin', 2)]
    lines = ["T ty=%s" % ty]
    for i in range(n):
        nm, k = names[i % len(names)]
        mode = rng.below(4)
        if mode == 0:
            x = rng.uniform(0, 1)
            y = [rng.uniform(-1, 1) for _ in range(k)]
        elif mode == 1:
            x = rng.choice([0.0, 1.0, 0.5, 0.999999, 1e-12, rng.uniform(-2, 3)])
            y = [rng.choice([0.0, 1.0, -1.0, rng.uniform(-1e6, 1e6)]) for _ in range(k)]
        elif mode == 2:
            x = rng.uniform(0, 1)
            y = [rng.loguniform(1e-20, 1e20) * rng.choice([-1, 1]) for _ in range(k)]
        else:
            x = rng.choice(special_floats(rng, ty))
            y = [rng.choice(special_floats(rng, ty)) for _ in range(k)]
        lines.append("FN f=interp name=%s x=%s y=%s" % (nm, hexf(x), ",".join(hexf(v) for v in y)))
    return lines


# ================================================================== C08
def run_C08(ctx):
    rng, tier = ctx.rng, ctx.tier
    res = new_results("(a) generated interpolators evaluated bit-exactly on random/special arguments, model vs real functions through hooks; "
                      "(b) FastFixedIn/Out streams with polynomial input of admissible degree vs the polynomial evaluated at the "
                      "instants observed on a Linear+ramp twin; a case is non-trivial if it produced at least one output frame",
                      ['interp-functions', 'FastFixedIn', 'FastFixedOut'])
    cases = []
    nfn = 400 if ctx.quick else 4000
    for ty in ('f64', 'f32'):
        for k in range(4 if ctx.quick else 16):
            cases.append(Case("fn_%s_%d" % (ty, k), fn_interp_cases(rng.fork("fn%s%d" % (ty, k)), nfn // 8, ty),
                              {'component': 'interp-functions', 'fn': True}))
    # polynomial streams: (degree under test with poly signal) + (Linear with ramp signal) twins
    npoly = 24 if ctx.quick else 200
    pairs = []
    for i in range(npoly):
        r = rng.fork("poly%d" % i)
        kind = r.choice(['fastin', 'fastout'])
        deg = r.below(5)
        maxdeg = [7, 5, 3, 1, 0][deg]
        cfg = async_cfg(r, kind, tier, deg=deg, nch=1, maxrel=r.choice([1.0, 2.0]))
        cfg['chunk'] = max(cfg['chunk'], 12)
        coeffs = [r.uniform(-1, 1) * (0.05 ** j) for j in range(maxdeg + 1)] if maxdeg > 0 else [r.uniform(-1, 1)]
        if deg == 4:
            sig = "ramp"
        else:
            sig = "poly:" + ":".join(f64hex(c) for c in coeffs)
        ops = ['pib', 'pib', 'process']
        seedfork = r.fork('ops')
        a = valid_async_history(Rng(seedfork.s), kind, tier, "poly_%03d_a" % i, nops=4 + r.below(4), cfg=dict(cfg),
                                allow_out_of_envelope=False, ops_allowed=ops, sig=sig, no_mask=True)
        cfgb = dict(cfg)
        cfgb['deg'] = 3
        b = valid_async_history(Rng(seedfork.s), kind, tier, "poly_%03d_b" % i, nops=len(a.meta['ops']), cfg=cfgb,
                                allow_out_of_envelope=False, ops_allowed=ops, sig="ramp", no_mask=True)
        a.meta.update(coeffs=coeffs, twin=b, degree=deg)
        b.meta['is_twin'] = True
        pairs.append((a, b))
        cases += [a, b]

    def judge(c):
        out = []
        if c.meta.get('fn') or c.meta.get('is_twin'):
            return out
        b = c.meta['twin']
        if not getattr(b, 'trace', None):
            b.trace = parse_trace(b.impl_path, b.hist_path)
        ty = c.trace['ty']
        tol = 1e-9 if ty == 'f64' else 4e-3
        coeffs, deg = c.meta['coeffs'], c.meta['degree']
        for i, (sa, sb) in enumerate(zip(c.trace['steps'], b.trace['steps'])):
            if sa.res in FATAL or sb.res in FATAL:
                out.append(fail(c, i, "fatal outcome on a valid constant-ratio history: %s" % sa.res))
                break
            if sa.res not in ('counts', 'vecs'):
                continue
            n = int(sa.fields[1]) if sa.res == 'counts' else None
            ya = expand_samples(sa.outs[0], ty)
            yb = expand_samples(sb.outs[0], ty)
            if n is not None:
                ya, yb = ya[:n], yb[:n]
            for j, (v, tau) in enumerate(zip(ya, yb)):
                if deg == 4:
                    want = math.floor(tau + (1e-9 if ty == 'f64' else 1e-3) * max(1.0, abs(tau)))     # ramp: sample at floor(instant)
                    # instants that are integers up to rounding may legitimately resolve either way
                    ok = (v == math.floor(tau)) or (v == want) or abs(tau - round(tau)) < (1e-6 if ty == 'f64' else 1e-2)
                else:
                    want = sum(cf * tau ** k for k, cf in enumerate(coeffs))
                    scale = 1.0 + sum(abs(cf) * abs(tau) ** k for k, cf in enumerate(coeffs))
                    ok = abs(v - want) <= tol * scale * (1 if ty == 'f64' else (1 + abs(tau)))
                if tau < 0:      # instants before the stream start see the zero history, not the polynomial
                    continue
                if tau < 8:
                    continue     # the 8/6/4/2-point window still overlaps the zero history
                if not ok:
                    out.append(fail(c, i, "output %d at instant %r is %r, polynomial gives %r" % (j, tau, v, want)))
                    return out
        return out

    execute(ctx, cases, res, judge)
    res['dist'].update({'fn_files': sum(1 for c in cases if c.meta.get('fn')), 'poly_pairs': len(pairs)})
    return res


# ================================================================== C12
def boundary_values(orig, maxrel):
    lo, hi = orig / maxrel, orig * maxrel
    vals = [lo, hi, orig, math.nextafter(lo, 0), math.nextafter(lo, INF), math.nextafter(hi, 0), math.nextafter(hi, INF),
            NAN, INF, -INF, 0.0, -0.0, -orig, 5e-324, 2.2250738585072014e-308, 1.7976931348623157e308, lo * 0.5, hi * 2,
            math.sqrt(lo * hi) if lo > 0 else orig]
    return vals


def rel_values(maxrel):
    inv = 1.0 / maxrel
    return [inv, maxrel, 1.0, math.nextafter(inv, 0), math.nextafter(inv, INF), math.nextafter(maxrel, 0), math.nextafter(maxrel, INF),
            NAN, INF, -INF, 0.0, -1.0, 5e-324, inv * 0.5, maxrel * 2]


def run_C12(ctx):
    rng, tier = ctx.rng, ctx.tier
    res = new_results("boundary lattice: for every type, random and 'nice' (original, max) pairs; set_resample_ratio at the documented "
                      "bounds computed in binary64, their float neighbours, NaN, infinities, zero, negatives, subnormals; the same "
                      "for the relative setter and for set_chunk_size (0, 1, max, max+1, huge); each call is judged against the "
                      "documented expression evaluated in IEEE doubles and against the bit-exact model",
                      ['FastFixedIn', 'FastFixedOut', 'SincFixedIn', 'SincFixedOut', 'FftFixedIn', 'FftFixedOut', 'FftFixedInOut'])
    cases = []
    n = 28 if ctx.quick else 400
    for i in range(n):
        r = rng.fork("c12_%d" % i)
        kind = gens.ALL[i % 7]
        if kind in gens.ASYNC:
            cfg = async_cfg(r, kind, 'quick', nch=1)
            cfg['chunk'] = min(cfg['chunk'], 32)
            if kind.startswith('sinc'):
                cfg['slen'], cfg['L'] = 8, 8
            if r.chance(0.5):
                cfg['ratio'] = r.choice([0.1, 0.7, 1.0, 1.0 / 3, 48000 / 44100, 3.3, 0.01, 100.0, 1e-3, 7.0])
                cfg['maxrel'] = r.choice([10.0, 1.0, 49.0, 9.0, 3.0, 1.1, 7.0, 1.0000000000000002, 100.0])
            else:
                cfg['ratio'] = r.loguniform(1e-3, 1e3)
                cfg['maxrel'] = r.choice([r.uniform(1, 2), r.loguniform(1, 1000), 1.0])
            lines = ["T ty=%s" % cfg['ty'], new_line(cfg)]
            ann = []
            vals = boundary_values(cfg['ratio'], cfg['maxrel'])
            rels = rel_values(cfg['maxrel'])
            k = 14 if ctx.quick else 40
            for _ in range(k):
                t = r.below(10)
                if t < 5:
                    v = r.choice(vals[:2] + vals[3:7]) if r.chance(0.6) else r.choice(vals)
                    lines.append("SETRATIO x=%s ramp=%d" % (f64hex(v), r.below(2)))
                    ann.append(('abs', v))
                elif t < 8:
                    v = r.choice(rels[:2] + rels[3:7]) if r.chance(0.6) else r.choice(rels)
                    lines.append("SETREL x=%s ramp=%d" % (f64hex(v), r.below(2)))
                    ann.append(('rel', v))
                else:
                    v = r.choice([0, 1, cfg['chunk'], cfg['chunk'] + 1, 2 ** 40, max(1, cfg['chunk'] // 2)])
                    lines.append("SETCHUNK n=%d" % v)
                    ann.append(('chunk', v))
                    if kind.startswith('sinc') and 1 <= v <= cfg['chunk']:
                        lines.append("SETRATIO x=%s ramp=0" % f64hex(cfg['ratio']))
                        ann.append(('abs', cfg['ratio']))
                        lines.append("PIB mask=- inlen=next outlen=max sig=rand:%d" % r.below(1000))
                        ann.append(('pib', v))
            cases.append(Case("lat_%03d_%s" % (i, kind), lines, {'cfg': cfg, 'ann': ann}))
        else:
            cfg = fft_cfg(r, kind, 'quick', nch=1)
            lines = ["T ty=%s" % cfg['ty'], new_line(cfg)]
            ann = []
            for _ in range(6):
                t = r.below(3)
                if t == 0:
                    lines.append("SETRATIO x=%s ramp=%d" % (f64hex(r.choice([1.0, cfg['rout'] / cfg['rin'], NAN, 0.5])), r.below(2)))
                    ann.append(('sync', 0))
                elif t == 1:
                    lines.append("SETREL x=%s ramp=%d" % (f64hex(r.choice([1.0, 0.99, NAN])), r.below(2)))
                    ann.append(('sync', 0))
                else:
                    lines.append("SETCHUNK n=%d" % r.choice([0, 1, cfg['chunk'], cfg['chunk'] + 1]))
                    ann.append(('nochunk', 0))
            cases.append(Case("lat_%03d_%s" % (i, kind), lines, {'cfg': cfg, 'ann': ann}))

    def judge(c):
        out = []
        cfg, ann = c.meta['cfg'], c.meta['ann']
        tr = c.trace
        if tr['new'] != 'ok':
            # constructor rejected: only legitimate for parameters outside the documented domain
            orig, mx = cfg.get('ratio', 1.0), cfg.get('maxrel', 1.0)
            if cfg['kind'] in gens.ASYNC and orig > 0 and mx >= 1 and math.isfinite(orig * mx) and orig / mx >= 2.2250738585072014e-308:
                out.append(fail(c, -1, "constructor rejected valid parameters: %s" % tr['new']))
            return out
        orig, mx = cfg.get('ratio'), cfg.get('maxrel')
        prev = tr['init']
        cur_chunk = cfg['chunk']
        for i, (s, (kind, v)) in enumerate(zip(tr['steps'], ann)):
            if s.res in FATAL:
                out.append(fail(c, i, "setter or following call ended with %s" % s.res))
                break
            if kind == 'abs':
                lo, hi = orig / mx, orig * mx
                want = (lo <= v <= hi)
                got = s.res == 'unit'
                if want != got:
                    out.append(fail(c, i, "set_resample_ratio(%r) with original %r max %r: accepted=%s, documented range [%r, %r] says %s"
                                    % (v, orig, mx, got, lo, hi, want)))
                if not got and (s.res != 'err' or s.fields[0] != 'RatioOutOfBounds'):
                    out.append(fail(c, i, "rejection is not RatioOutOfBounds: %s %s" % (s.res, s.fields)))
            elif kind == 'rel':
                want = (1.0 / mx <= v <= mx)
                got = s.res == 'unit'
                if want != got:
                    out.append(fail(c, i, "set_resample_ratio_relative(%r) with max %r: accepted=%s, documented range [%r, %r] says %s"
                                    % (v, mx, got, 1.0 / mx, mx, want)))
                if got:
                    # behaves as set_resample_ratio(original*x) (kept inside the absolute bounds)
                    exp = min(max(orig * v, orig / mx), orig * mx)
                    tgt = hexf64(s.s[3])
                    if tgt != exp:
                        out.append(fail(c, i, "relative %r set the target ratio to %r, expected %r" % (v, tgt, exp)))
            elif kind == 'chunk':
                if cfg['kind'].startswith('sinc'):
                    want = 1 <= v <= cfg['chunk']
                    got = s.res == 'unit'
                    if want != got:
                        out.append(fail(c, i, "set_chunk_size(%d) with max %d: accepted=%s" % (v, cfg['chunk'], got)))
                    if not got and (s.res != 'err' or s.fields[:1] != ['InvalidChunkSize'] or int(s.fields[1]) != cfg['chunk'] or int(s.fields[2]) != v):
                        out.append(fail(c, i, "rejection is not InvalidChunkSize{max,requested}: %s" % (s.fields,)))
                    if got:
                        cur_chunk = v
                else:
                    if s.res != 'err' or s.fields[0] != 'ChunkSizeNotAdjustable':
                        out.append(fail(c, i, "set_chunk_size on a type without adjustable chunk: %s %s" % (s.res, s.fields)))
            elif kind == 'pib':
                if s.res != 'counts':
                    out.append(fail(c, i, "processing call after an accepted chunk change failed: %s %s" % (s.res, s.fields)))
                else:
                    nin, nout = int(s.fields[0]), int(s.fields[1])
                    if cfg['kind'] == 'sincin' and nin != v:
                        out.append(fail(c, i, "after set_chunk_size(%d) the call consumed %d frames" % (v, nin)))
                    if cfg['kind'] == 'sincout' and nout != v:
                        out.append(fail(c, i, "after set_chunk_size(%d) the call produced %d frames" % (v, nout)))
            elif kind == 'sync':
                if s.res != 'err' or s.fields[0] != 'SyncNotAdjustable':
                    out.append(fail(c, i, "synchronous resampler answered %s %s" % (s.res, s.fields)))
            elif kind == 'nochunk':
                if s.res != 'err' or s.fields[0] != 'ChunkSizeNotAdjustable':
                    out.append(fail(c, i, "synchronous resampler set_chunk_size answered %s %s" % (s.res, s.fields)))
            if s.res == 'err' and state_sig(s) != state_sig(prev):
                out.append(fail(c, i, "a rejected setter changed the resampler state"))
            prev = s
        return out

    execute(ctx, cases, res, judge)
    res['dist'].update(collections.Counter(a[0] for c in cases for a in c.meta['ann']))
    return res



# ================================================================== C13
def count_samples(field):
    """number of samples in one channel of a concrete in=/out= field"""
    if field == '':
        return 0
    n = 0
    for tok in field.split(','):
        n += int(tok.split('*')[0]) if '*' in tok else 1
    return n


def chan_lens(field):
    if field == '~':
        return []
    return [count_samples(c) for c in field.split(';')]


def expected_pib_error(nch, min_in, min_out, inl, outl, mask):
    """The contract of process_into_buffer: first violated clause (mask length is checked first)."""
    if mask is not None and len(mask) != nch:
        return ['WrongNumberOfMaskChannels', str(nch), str(len(mask))]
    m = mask if mask is not None else [True] * nch
    if len(inl) != nch:
        return ['WrongNumberOfInputChannels', str(nch), str(len(inl))]
    for c in range(nch):
        if m[c] and inl[c] < min_in:
            return ['InsufficientInputBufferSize', str(c), str(min_in), str(inl[c])]
    if len(outl) != nch:
        return ['WrongNumberOfOutputChannels', str(nch), str(len(outl))]
    for c in range(nch):
        if m[c] and outl[c] < min_out:
            return ['InsufficientOutputBufferSize', str(c), str(min_out), str(outl[c])]
    return None


def malformed_op(r, nch):
    """one malformed process_into_buffer call in the symbolic spec language"""
    shape = r.below(9)
    mask = None
    ins = ['next'] * nch
    outs = ['next'] * nch
    if shape == 0:
        ins = ['next'] * (nch + r.choice([1, 2]))
    elif shape == 1:
        ins = ['next'] * (nch - 1)
    elif shape == 2:
        outs = ['next'] * (nch + 1)
    elif shape == 3:
        outs = ['next'] * (nch - 1)
    elif shape == 4:
        mask = "".join(r.choice("01") for _ in range(nch + r.choice([1, 3])))
    elif shape == 5:
        mask = "".join(r.choice("01") for _ in range(nch - 1))
    elif shape == 6:
        c = r.below(nch)
        ins[c] = r.choice(['next-1', 'abs:0', 'next-2'])
    elif shape == 7:
        c = r.below(nch)
        outs[c] = r.choice(['next-1', 'abs:0', 'next-3'])
    else:
        c = r.below(nch)
        ins[c] = 'next-1'
        outs[r.below(nch)] = 'next-1'
        if r.chance(0.5):
            mask = "".join(r.choice("01") for _ in range(nch))
    mstr = '-' if mask is None else (mask if mask != '' else '~')
    il = ";".join(ins) if ins else '~'
    ol = ";".join(outs) if outs else '~'
    return "PIB mask=%s inlen=%s outlen=%s sig=rand:%d" % (mstr, il, ol, r.below(10000))


def run_C13(ctx):
    rng, tier = ctx.rng, ctx.tier
    res = new_results("malformed stream: for each of the seven types a valid prefix, then process_into_buffer calls with each malformed "
                      "shape (too many/few input or output channels, mask too long/short/empty, an active channel short by 1..all), "
                      "then valid calls; a twin history without the malformed calls must produce bit-identical outputs; invalid "
                      "constructor arguments; each result is judged against the documented contract and against the bit-exact model",
                      ['FastFixedIn', 'FastFixedOut', 'SincFixedIn', 'SincFixedOut', 'FftFixedIn', 'FftFixedOut', 'FftFixedInOut', 'constructors'])
    cases = []
    n = 21 if ctx.quick else 280
    for i in range(n):
        r = rng.fork("c13_%d" % i)
        kind = gens.ALL[i % 7]
        if kind in gens.ASYNC:
            cfg = async_cfg(r, kind, 'quick', nch=r.choice([1, 2, 3]))
            cfg['chunk'] = max(4, min(cfg['chunk'], 64))
        else:
            cfg = fft_cfg(r, kind, 'quick', nch=r.choice([1, 2, 3]))
        nch = cfg['nch']
        head = ["T ty=%s" % cfg['ty'], new_line(cfg)]
        a, b, ann = list(head), list(head), []
        sig = "rand:%d" % r.below(99999)
        valid = "PIB mask=- inlen=%s outlen=%s sig=%s" % (";".join(['next'] * nch), ";".join(['max'] * nch), sig)
        k = 3 + r.below(4 if ctx.quick else 10)
        for j in range(k):
            if r.chance(0.4):
                a.append(valid); b.append(valid); ann.append('valid')
            t = r.below(10)
            if t < 7:
                a.append(malformed_op(r, nch)); ann.append('bad')
            elif t < 8 and nch > 1:
                a.append("PROCESS mask=%s inlen=%s sig=%s" % ("1" * (nch - 1), ";".join(['next'] * nch), sig)); ann.append('badprocess')
            elif t < 9:
                a.append("PARTIAL mask=%s inlen=none" % ("1" * (nch + 2))); ann.append('badprocess')
            else:
                a.append("PROCESS mask=- inlen=%s sig=%s" % (";".join(['next'] * (nch + 1)), sig)); ann.append('badprocess')
        a.append(valid); b.append(valid); ann.append('valid')
        a.append(valid); b.append(valid); ann.append('valid')
        ca = Case("mal_%03d_%s_a" % (i, kind), a, {'cfg': cfg, 'ann': ann})
        cb = Case("mal_%03d_%s_b" % (i, kind), b, {'cfg': cfg, 'is_twin': True})
        ca.meta['twin'] = cb
        cases += [ca, cb]
    # invalid constructor arguments
    bad_ctor = []
    for i in range(14 if ctx.quick else 60):
        r = rng.fork("ctor%d" % i)
        kind = gens.ALL[i % 7]
        if kind in gens.ASYNC:
            cfg = async_cfg(r, kind, 'quick', nch=1)
            cfg['chunk'] = 8
            which = r.below(6)
            if which == 0:
                cfg['ratio'] = r.choice([0.0, -0.0, -1.0, -1e-300, NAN, INF, -INF])
                exp = 'InvalidRatio'
            elif which == 1:
                cfg['maxrel'] = r.choice([0.5, 0.0, -3.0, 0.9999999999999999, NAN, INF])
                exp = 'InvalidRelativeRatio'
            elif which == 2:
                cfg['ratio'], cfg['maxrel'] = 1e300, 1e10
                exp = 'InvalidRelativeRatio'
            elif which == 3:
                cfg['ratio'], cfg['maxrel'] = 1e-300, 1e10
                exp = 'InvalidRelativeRatio'
            else:
                exp = 'ok'
        else:
            cfg = fft_cfg(r, kind, 'quick', nch=1)
            which = r.below(4)
            if which == 0:
                cfg['rin'] = 0
                exp = 'InvalidSampleRate'
            elif which == 1:
                cfg['rout'] = 0
                exp = 'InvalidSampleRate'
            elif which == 2:
                cfg['rin'] = cfg['rout'] = 0
                exp = 'InvalidSampleRate'
            else:
                exp = 'ok'
        cases.append(Case("ctor_%03d_%s" % (i, kind), ["T ty=%s" % cfg['ty'], new_line(cfg)],
                          {'cfg': cfg, 'component': 'constructors', 'ctor_expect': exp}))

    def judge(c):
        out = []
        tr = c.trace
        if 'ctor_expect' in c.meta:
            exp = c.meta['ctor_expect']
            got = tr['new'] or 'nothing'
            if exp == 'ok' and got != 'ok':
                out.append(fail(c, -1, "constructor rejected valid arguments: %s" % got))
            if exp != 'ok' and not got.startswith('err ' + exp):
                out.append(fail(c, -1, "constructor with invalid arguments answered %r, documented error is %s" % (got, exp)))
            return out
        if c.meta.get('is_twin'):
            return out
        if tr['new'] != 'ok':
            return [fail(c, -1, "constructor failed on valid arguments: %s" % tr['new'])]
        ann = c.meta['ann']
        prev = tr['init']
        valid_a = []
        for i, s in enumerate(tr['steps']):
            kind = ann[i] if i < len(ann) else '?'
            if s.res in FATAL:
                out.append(fail(c, i, "%s call ended with %s instead of an Err" % (kind, s.res)))
                return out
            if kind == 'bad':
                nch, in_next, out_next = prev.g[5], prev.g[1], prev.g[3]
                inl, outl = chan_lens(s.kv['in']), chan_lens(s.kv['out'])
                mk = s.kv['mask']
                mask = None if mk == '-' else ([] if mk == '~' else [ch == '1' for ch in mk])
                exp = expected_pib_error(nch, in_next, out_next, inl, outl, mask)
                if exp is None:
                    pass
                elif s.res != 'err' or s.fields != exp:
                    out.append(fail(c, i, "malformed call answered %s %s, contract says Err %s" % (s.res, s.fields, exp)))
                if s.res == 'err':
                    if state_sig(s) != state_sig(prev):
                        out.append(fail(c, i, "a rejected call changed getters / control state / internal buffers"))
            elif kind == 'badprocess':
                if s.res != 'err':
                    out.append(fail(c, i, "process/partial with malformed arguments answered %s" % s.res))
                elif state_sig(s) != state_sig(prev):
                    out.append(fail(c, i, "a rejected process()/process_partial() changed the resampler"))
            elif kind == 'valid':
                valid_a.append(s)
            prev = s
        b = c.meta['twin']
        if not getattr(b, 'trace', None):
            b.trace = parse_trace(b.impl_path, b.hist_path)
        for j, (sa, sb) in enumerate(zip(valid_a, b.trace['steps'])):
            if (sa.res, sa.fields, sa.outs, sa.g) != (sb.res, sb.fields, sb.outs, sb.g):
                out.append(fail(c, j, "valid call #%d differs from the history without the rejected calls" % j))
                break
        return out

    execute(ctx, cases, res, judge)
    res['dist'].update(collections.Counter(a for c in cases for a in c.meta.get('ann', [])))
    return res



# ================================================================== C16
def run_C16(ctx):
    rng, tier = ctx.rng, ctx.tier
    res = new_results("twin histories on all seven types: (A) process / process_partial(_into_buffer)(Some k | None), half of them through "
                      "the VecResampler object-safe trait, (B) the same stream through process_into_buffer with explicit zero padding "
                      "and buffers of output_frames_next frames; outputs, counts and the whole state after every call must be equal",
                      ['FastFixedIn', 'FastFixedOut', 'SincFixedIn', 'SincFixedOut', 'FftFixedIn', 'FftFixedOut', 'FftFixedInOut', 'wrappers'])
    cases = []
    n = 28 if ctx.quick else 350
    for i in range(n):
        r = rng.fork("c16_%d" % i)
        kind = gens.ALL[i % 7]
        if kind in gens.ASYNC:
            cfg = async_cfg(r, kind, 'quick')
            cfg['chunk'] = max(4, min(cfg['chunk'], 64))
        else:
            cfg = fft_cfg(r, kind, 'quick')
        nch = cfg['nch']
        head = ["T ty=%s" % cfg['ty'], new_line(cfg)]
        a, b = list(head), list(head)
        sig = r.choice(["rand:%d" % r.below(99999), "ramp", "sine:%s:%s" % (f64hex(0.05), f64hex(0.3))])
        mask = None
        if r.chance(0.4):
            mask = "".join(r.choice("01") for _ in range(nch))
        mstr = mask if mask else '-'
        act = [(mask is None or mask[c] == '1') for c in range(nch)]
        k = 3 + r.below(5 if ctx.quick else 12)
        for j in range(k):
            via = " via=vec" if r.chance(0.5) else ""
            t = r.below(6)
            il_full = ";".join('next' if act[c] else r.choice(['abs:0', 'next']) for c in range(nch))
            ol_next = ";".join('next' if act[c] else 'abs:0' for c in range(nch))
            if t < 2:
                a.append("PROCESS mask=%s inlen=%s sig=%s%s" % (mstr, il_full, sig, via))
                b.append("PIB mask=%s inlen=%s outlen=%s sig=%s" % (mstr, il_full, ol_next, sig))
            elif t < 4:
                ks = [(r.choice(['c1:next-1', 'c1:next-2', 'c1:next-7', 'abs:1', 'next']) if act[c] else r.choice(['abs:0', 'c1:next-1']))
                      for c in range(nch)]
                a.append("PARTIAL mask=%s inlen=%s sig=%s%s" % (mstr, ";".join(ks), sig, via))
                b.append("PIB mask=%s inlen=%s outlen=%s sig=pad@%s@%s adv=%s" % (mstr, ";".join(['next'] * nch), ol_next, "|".join(ks), sig, "|".join(ks)))
            elif t < 5:
                a.append("PARTIAL mask=%s inlen=none%s" % (mstr, via))
                b.append("PIB mask=%s inlen=%s outlen=%s sig=zero adv=abs:0" % (mstr, ";".join(['next'] * nch), ol_next))
            else:
                ks = [(r.choice(['c1:next-1', 'c1:next-3', 'abs:2']) if act[c] else r.choice(['abs:0', 'c1:next-1'])) for c in range(nch)]
                ol = ";".join('max' if act[c] else 'abs:0' for c in range(nch))
                a.append("PARTIALINTO mask=%s inlen=%s outlen=%s sig=%s%s" % (mstr, ";".join(ks), ol, sig, via))
                b.append("PIB mask=%s inlen=%s outlen=%s sig=pad@%s@%s adv=%s" % (mstr, ";".join(['next'] * nch), ol, "|".join(ks), sig, "|".join(ks)))
        ca = Case("wr_%03d_%s_a" % (i, kind), a, {'cfg': cfg, 'act': act})
        cb = Case("wr_%03d_%s_b" % (i, kind), b, {'cfg': cfg, 'is_twin': True})
        ca.meta['twin'] = cb
        cases += [ca, cb]

    def judge(c):
        out = []
        if c.meta.get('is_twin'):
            return out
        b = c.meta['twin']
        if not getattr(b, 'trace', None):
            b.trace = parse_trace(b.impl_path, b.hist_path)
        if c.trace['new'] != 'ok':
            return [fail(c, -1, "constructor failed: %s" % c.trace['new'])]
        act = c.meta['act']
        for i, (sa, sb) in enumerate(zip(c.trace['steps'], b.trace['steps'])):
            if sa.res in FATAL or sb.res in FATAL:
                if sa.res != sb.res:
                    out.append(fail(c, i, "wrapper ended with %s, core call with %s" % (sa.res, sb.res)))
                break
            if sb.res != 'counts':
                if sa.res != sb.res or sa.fields != sb.fields:
                    out.append(fail(c, i, "wrapper result %s %s, core result %s %s" % (sa.res, sa.fields, sb.res, sb.fields)))
                continue
            nout = int(sb.fields[1])
            if sa.res == 'vecs':
                for ch, v in enumerate(sa.outs):
                    got = expand_hex(v)
                    want = expand_hex(sb.outs[ch])[:nout] if act[ch] else []
                    if got != want:
                        out.append(fail(c, i, "channel %d: wrapper returned %d frames, core call wrote %d (values %s)" %
                                        (ch, len(got), len(want), 'equal prefix' if got[:len(want)] == want[:len(got)] else 'differ')))
                        break
            elif sa.res == 'counts':
                if sa.fields != sb.fields or [expand_hex(v) for v in sa.outs] != [expand_hex(v) for v in sb.outs]:
                    out.append(fail(c, i, "process_partial_into_buffer differs from the zero-padded core call"))
            else:
                out.append(fail(c, i, "wrapper failed (%s %s) where the core call succeeded" % (sa.res, sa.fields)))
            if state_sig(sa) != state_sig(sb):
                out.append(fail(c, i, "state after the wrapper call differs from the state after the core call"))
            if out:
                break
        return out

    execute(ctx, cases, res, judge)
    return res


def gen_forwarding(rep):
    f = rep.get('vec_forwarding', {})
    return bool(f.get('ok')), "; ".join(f.get('problems', [])) or "all %d methods of the VecResampler blanket impl forward unchanged" % len(f.get('methods', []))


PROPS = {
    'C08': {
        'run': run_C08,
        'pinned': ['C08_septic_exact_R', 'C08_quintic_exact_R', 'C08_cubic_exact_R', 'C08_linear_exact_R',
                   'C08_septic_linear_R', 'C08_quintic_linear_R', 'C08_cubic_linear_R', 'C08_linear_linear_R'],
        'unproved': ['C08_sine_full: classical interpolation error bound for sinusoids (stated as a Prop, not proved)',
                     '"to rounding": the size of the floating-point deviation from the exact polynomial is not bounded by a theorem '
                     '(the bit-exact model measures it on every run)'],
        'assumptions': ['ideal (real-number) reading of the generated interpolators: rounding erased, nothing else',
                        'IEEE-754 conformance of rustc/LLVM/x86-64 for + - * / (what makes the bit-exact comparison meaningful)'],
        'trusted_base': ['Coq Reals axioms (ClassicalDedekindReals.sig_forall_dec, functional_extensionality_dep) via ring/field on R'],
    },
    'C12': {
        'run': run_C12,
        'pinned': ['C12_bounds_B64', 'C12_accept_iff_B64', 'C12_accept_sites', 'C12_set_ratio_step', 'C12_relative_iff_B64',
                   'C12_relative_step', 'C12_clamped_accepted', 'C12_sync_reject', 'C12_chunk_size_iff_Z', 'C12_chunk_not_adjustable',
                   'C12_ctor_establishes'],
        'unproved': [],
        'assumptions': ['the documented bounds original/max and original*max are read as the binary64 quotient and product',
                        '1/max in the relative bound is the binary64 quotient',
                        'Flocq BinarySingleNaN models IEEE-754 binary64 round-to-nearest-even arithmetic and comparisons'],
        'trusted_base': ['Flocq 4.1 (Bdiv_correct, Bmult_correct, Bleb_correct, round_le) and Coq Reals axioms'],
    },
    'C13': {
        'run': run_C13,
        'pinned': ['C13_validate_ok_iff_Z', 'C13_validate_first_error_Z', 'C13_validate_total_Z', 'C13_pib_err_iff',
                   'C13_err_state_equal', 'C13_no_spurious_err', 'C13_ctor_invalid_ratio_B64', 'C13_ctor_invalid_ratio_sinc_B64',
                   'C13_ctor_invalid_maxrel_B64', 'C13_ctor_zero_rate_Z'],
        'unproved': ['the stored channel_mask is overwritten by a rejected call with a mask of the right length; it is rewritten at the start '
                     'of every call and never read elsewhere, so this is unobservable (argued, compared on every trace, not a theorem)'],
        'assumptions': ['the model returns the unchanged state on Err by construction; that the implementation does too is what the '
                        'correspondence compares after every rejected call (getters, control fields, all internal buffers)'],
        'trusted_base': ['Flocq + Reals axioms only for the constructor theorems; the validate/process theorems are closed under the global context'],
    },
    'C16': {
        'run': run_C16,
        'pinned': ['C16_process_eq', 'C16_alloc_out', 'C16_partial_none_eq', 'C16_partial_some_eq', 'C16_partial_eq', 'C16_padding'],
        'gen_obligations': {'vec-forwarding': gen_forwarding},
        'unproved': ['independence of the written prefix from the initial content of a larger output buffer (compared on every trace, not a theorem)'],
        'assumptions': ['the wrappers of the model are a transcription of lib.rs:75-195; the tie is the bit-exact correspondence on wrapper calls'],
        'trusted_base': ['closed under the global context (no axioms)'],
    },
}
