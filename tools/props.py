"""Per-property check definitions: which histories are generated, which model components
are compared, and the executable predicate evaluated on the implementation traces."""
import os, sys, json, math, collections, shutil
import vlib, gens
from vlib import *
from gens import *

INF = float('inf')
NAN = float('nan')


class Ctx:
    def __init__(self, pid, tier, rng, outdir, with_model=True):
        self.pid, self.tier, self.rng, self.outdir, self.with_model = pid, tier, rng, outdir, with_model
        self.quick = tier == 'quick'


def new_results(rule, components):
    return {'cases': [], 'failures': [], 'disagreements': [], 'dist': collections.Counter(), 'samples': [],
            'n_eval': 0, 'n_corr': 0, 'n_distinct': 0, 'rule': rule, 'components': list(components)}


def fail(case, step, message, cls=None, **kw):
    d = {'case': case.name, 'step': step, 'message': message, 'class': cls,
         'spec_path': getattr(case, 'spec_path', None), 'hist_path': getattr(case, 'hist_path', None)}
    d.update(kw)
    return d


def component_of(case):
    k = case.meta.get('component')
    if k:
        return k
    cfg = case.meta.get('cfg', {})
    return {'fastin': 'FastFixedIn', 'fastout': 'FastFixedOut', 'sincin': 'SincFixedIn', 'sincout': 'SincFixedOut',
            'fftin': 'FftFixedIn', 'fftout': 'FftFixedOut', 'fftinout': 'FftFixedInOut'}.get(cfg.get('kind'), 'model')


META_KEYS = ('cfg', 'ops', 'warp', 'fatal_check', 'sig', 'mask', 'nsuffix', 'kind', 'component', 'n0', 'ratio', 'tones', 'fam', 'mode', 'pedge',
             'fft_in', 'exact', 'no_model', 'threads', 'migrate')


def stamp_meta(c):
    """record what a judge needs in a comment line of the spec (ignored by the harness), so that a stored history replays"""
    if c.spec and c.spec[0].startswith('#meta '):
        return
    try:
        keep = {k: c.meta[k] for k in META_KEYS if k in c.meta}
        c.spec = ["#meta " + json.dumps(keep)] + list(c.spec)
    except TypeError:
        pass


def execute(ctx, cases, res, judge=None, timeout=120, release=False):
    """Run the cases on implementation (+ model), collect disagreements, judge traces."""
    for c in cases:
        stamp_meta(c)
    run_cases(cases, ctx.outdir, with_model=ctx.with_model, release=release, timeout=timeout)
    seen = set()
    res.setdefault('specs', {})
    for c in cases:
        res['specs'][c.name] = c.spec
        res['n_eval'] += 1
        key = "\n".join(c.spec)
        if key not in seen:
            seen.add(key)
        if ctx.with_model and not c.meta.get('no_model'):
            if c.diff is None and getattr(c, 'model_timeout', False):
                res['n_model_timeout'] = res.get('n_model_timeout', 0) + 1      # prefix agreed; not counted as validated
            elif c.diff is None:
                res['n_corr'] += 1
            else:
                res['disagreements'].append({'component': component_of(c), 'case': c.name, 'diff': c.diff,
                                             'spec_path': c.spec_path, 'hist_path': c.hist_path})
        try:
            c.trace = parse_trace(c.impl_path, c.hist_path)
        except Exception as ex:
            c.trace = None
            res['failures'].append(fail(c, -1, "cannot parse implementation trace: %r" % ex))
            continue
        nsteps = len(c.trace['steps'])
        if nsteps > 0 or c.meta.get('component'):
            res['n_distinct'] += 1
        if judge:
            try:
                res['failures'].extend(judge(c) or [])
            except Exception as ex:
                import traceback
                traceback.print_exc()
                res['failures'].append(fail(c, -1, "judge crashed: %r" % ex))
        if len(res['samples']) < 6:
            res['samples'].append({'case': c.name, 'spec': [l[:160] for l in c.spec[:8]],
                                   'results': [(s.op, s.res) for s in (c.trace['steps'][:8] if c.trace else [])]})
    return res


def run_replay(ctx, P, path):
    """Replay a stored spec (implementation + model) and apply the property's generic judge."""
    lines = [l.rstrip('\n') for l in open(path) if l.strip()]
    if P.get('replay_aware'):
        ctx.replay_lines = lines
        return P['run'](ctx)
    meta = {'component': 'replay'}
    for l in lines:
        if l.startswith('#meta '):
            meta = json.loads(l[6:])
    c = Case('replay', lines, meta)
    res = new_results('replay of %s' % path, ['replay'])
    execute(ctx, [c], res, judge=P.get('judge_replay') or P.get('judge_any'))
    if any(l.startswith('#golden-pass') for l in lines):
        # this history satisfied the property on the pinned tree: whatever fails now is not a recorded finding
        for f in res['failures']:
            f['class'] = None
    return res


# ------------------------------------------------------------------ shared judges
FATAL = ('panic', 'abort', 'diverge')


def state_sig(step):
    return (tuple(step.g or []), tuple(step.s or []), tuple(step.bufs))


def judge_unchanged_on_err(case, allow=()):
    """A call that returned Err left getters, control state and internal buffers as they were."""
    out = []
    tr = case.trace
    prev = tr['init']
    for i, s in enumerate(tr['steps']):
        if s.res == 'err' and s.g is not None and prev.g is not None:
            if state_sig(s) != state_sig(prev):
                out.append(fail(case, i, "state changed by a rejected call (%s %s)" % (s.op, s.fields[:1])))
        if s.res in FATAL:
            break
        prev = s
    return out


# ------------------------------------------------------------------ function-level cases
def special_floats(rng, ty):
    vals = [0.0, -0.0, 1.0, -1.0, 0.5, 1e-300, -1e-300, 1e300, 5e-324, 1.7976931348623157e308, 3.0, 1 / 3, 2 / 3, 0.1]
    if ty == 'f32':
        vals = [0.0, -0.0, 1.0, -1.0, 0.5, 1e-38, 1e-45, 3e38, 3.0, 1 / 3, 0.1]
    return vals


def fn_interp_cases(rng, n, ty):
    hexf = f64hex if ty == 'f64' else f32hex
    names = [('fast_septic', 8), ('fast_quintic', 6), ('fast_cubic', 4), ('fast_lin', 2), ('sinc_cubic', 4), ('sinc_quad', 3), ('sinc_lin', 2)]
    lines = ["T ty=%s" % ty]
    for i in range(n):
        nm, k = names[i % len(names)]
        mode = rng.below(4)
        if mode == 0:
            x = rng.uniform(0, 1)
            y = [rng.uniform(-1, 1) for _ in range(k)]
        elif mode == 1:
            x = rng.choice([0.0, 1.0, 0.5, 0.999999, 1e-12, rng.uniform(-2, 3)])
            y = [rng.choice([0.0, 1.0, -1.0, rng.uniform(-1e6, 1e6)]) for _ in range(k)]
        elif mode == 2:
            x = rng.uniform(0, 1)
            y = [rng.loguniform(1e-20, 1e20) * rng.choice([-1, 1]) for _ in range(k)]
        else:
            x = rng.choice(special_floats(rng, ty))
            y = [rng.choice(special_floats(rng, ty)) for _ in range(k)]
        lines.append("FN f=interp name=%s x=%s y=%s" % (nm, hexf(x), ",".join(hexf(v) for v in y)))
    return lines


# ================================================================== C08
def run_C08(ctx):
    rng, tier = ctx.rng, ctx.tier
    res = new_results("(a) generated interpolators evaluated bit-exactly on random/special arguments, model vs real functions through hooks; "
                      "(b) FastFixedIn/Out streams with polynomial input of admissible degree vs the polynomial evaluated at the "
                      "instants observed on a Linear+ramp twin; a case is non-trivial if it produced at least one output frame",
                      ['interp-functions', 'FastFixedIn', 'FastFixedOut'])
    cases = []
    nfn = 400 if ctx.quick else 4000
    for ty in ('f64', 'f32'):
        for k in range(4 if ctx.quick else 16):
            cases.append(Case("fn_%s_%d" % (ty, k), fn_interp_cases(rng.fork("fn%s%d" % (ty, k)), nfn // 8, ty),
                              {'component': 'interp-functions', 'fn': True}))
    # polynomial streams: (degree under test with poly signal) + (Linear with ramp signal) twins
    npoly = 24 if ctx.quick else 200
    pairs = []
    for i in range(npoly):
        r = rng.fork("poly%d" % i)
        kind = r.choice(['fastin', 'fastout'])
        deg = r.below(5)
        maxdeg = [7, 5, 3, 1, 0][deg]
        cfg = async_cfg(r, kind, tier, deg=deg, nch=1, maxrel=r.choice([1.0, 2.0]))
        cfg['chunk'] = max(cfg['chunk'], 12)
        coeffs = [r.uniform(-1, 1) * (0.05 ** j) for j in range(maxdeg + 1)] if maxdeg > 0 else [r.uniform(-1, 1)]
        if deg == 4:
            sig = "ramp"
        else:
            sig = "poly:" + ":".join(f64hex(c) for c in coeffs)
        ops = ['pib', 'pib', 'process']
        seedfork = r.fork('ops')
        a = valid_async_history(Rng(seedfork.s), kind, tier, "poly_%03d_a" % i, nops=4 + r.below(4), cfg=dict(cfg),
                                allow_out_of_envelope=False, ops_allowed=ops, sig=sig, no_mask=True)
        cfgb = dict(cfg)
        cfgb['deg'] = 3
        b = valid_async_history(Rng(seedfork.s), kind, tier, "poly_%03d_b" % i, nops=len(a.meta['ops']), cfg=cfgb,
                                allow_out_of_envelope=False, ops_allowed=ops, sig="ramp", no_mask=True)
        a.meta.update(coeffs=coeffs, twin=b, degree=deg)
        b.meta['is_twin'] = True
        pairs.append((a, b))
        cases += [a, b]
    # Nearest at ratios whose instants fall exactly on input frames (every position is exact in binary): "the sample at or
    # just before the instant" leaves no freedom, at any chunk size
    for i, (kind, ratio, chunk) in enumerate([('fastin', 1.0, 7), ('fastout', 2.0, 1), ('fastin', 0.5, 32), ('fastout', 1.0, 100),
                                              ('fastin', 4.0, 1), ('fastout', 0.25, 7), ('fastin', 2.0, 33), ('fastout', 0.5, 1)]):
        if ctx.quick and i >= 4:
            break
        r = rng.fork("near%d" % i)
        cfg = async_cfg(r, kind, tier, deg=4, nch=1, maxrel=1.0)
        cfg.update({'ratio': ratio, 'chunk': chunk, 'ty': ['f64', 'f32'][i % 2]})
        seedfork = r.fork('ops')
        n_ops = 8 if chunk >= 7 else 40
        a = valid_async_history(Rng(seedfork.s), kind, tier, "near_%03d_a" % i, nops=n_ops, cfg=dict(cfg),
                                allow_out_of_envelope=False, ops_allowed=['pib'], sig="ramp", no_mask=True)
        cfgb = dict(cfg); cfgb['deg'] = 3
        b = valid_async_history(Rng(seedfork.s), kind, tier, "near_%03d_b" % i, nops=len(a.meta['ops']), cfg=cfgb,
                                allow_out_of_envelope=False, ops_allowed=['pib'], sig="ramp", no_mask=True)
        a.meta.update(coeffs=[0.0], twin=b, degree=4, exact_positions=True)
        b.meta['is_twin'] = True
        pairs.append((a, b))
        cases += [a, b]

    # a job at another ratio, reset(), then the polynomial stream again: the restarted stream must be the polynomial too
    # (the first request after a reset is sized for the constructed ratio, not for the one in force before)
    for i, (kind, rel) in enumerate([('fastout', 1.5), ('fastin', 1.5), ('fastout', 0.6), ('fastout', 2.0)]):
        if ctx.quick and i >= 2:
            break
        r = rng.fork("polyrst%d" % i)
        deg = i % 4 if i < 4 else r.below(4)
        maxdeg = [7, 5, 3, 1][deg]
        cfg = async_cfg(r, kind, tier, deg=deg, nch=1, maxrel=2.0)
        cfg.update({'ratio': 0.8, 'chunk': 64, 'ty': ['f64', 'f32'][i % 2]})
        coeffs = [r.uniform(-1, 1) * (0.05 ** j) for j in range(maxdeg + 1)]
        def hist(name, c2, sig):
            pib = "PIB mask=- inlen=next outlen=next sig=%s" % sig
            lines = ["T ty=%s" % c2['ty'], new_line(c2), pib, "SETREL x=%s ramp=0" % f64hex(rel), pib, pib, "RESET", pib, pib, pib]
            return Case(name, lines, {'cfg': c2, 'sig': sig, 'ops': [{'op': 'pib'}, {'op': 'setrel'}, {'op': 'pib'}, {'op': 'pib'}, {'op': 'reset'}] + [{'op': 'pib'}] * 3})
        a = hist("polyrst_%02d_a" % i, dict(cfg), "poly:" + ":".join(f64hex(c) for c in coeffs))
        cfgb = dict(cfg); cfgb['deg'] = 3
        b = hist("polyrst_%02d_b" % i, cfgb, "ramp")
        a.meta.update(coeffs=coeffs, twin=b, degree=deg)
        b.meta['is_twin'] = True
        pairs.append((a, b))
        cases += [a, b]

    def judge(c):
        out = []
        if c.meta.get('fn') or c.meta.get('is_twin'):
            return out
        b = c.meta['twin']
        if not getattr(b, 'trace', None):
            b.trace = parse_trace(b.impl_path, b.hist_path)
        ty = c.trace['ty']
        tol = 1e-9 if ty == 'f64' else 4e-3
        coeffs, deg = c.meta['coeffs'], c.meta['degree']
        for i, (sa, sb) in enumerate(zip(c.trace['steps'], b.trace['steps'])):
            if sa.res in FATAL or sb.res in FATAL:
                out.append(fail(c, i, "fatal outcome on a valid constant-ratio history: %s" % sa.res))
                break
            if sa.res not in ('counts', 'vecs'):
                continue
            n = int(sa.fields[1]) if sa.res == 'counts' else None
            ya = expand_samples(sa.outs[0], ty)
            yb = expand_samples(sb.outs[0], ty)
            if n is not None:
                ya, yb = ya[:n], yb[:n]
            for j, (v, tau) in enumerate(zip(ya, yb)):
                if deg == 4:
                    want = math.floor(tau + (1e-9 if ty == 'f64' else 1e-3) * max(1.0, abs(tau)))     # ramp: sample at floor(instant)
                    # instants that are integers up to rounding may legitimately resolve either way
                    ok = (v == math.floor(tau)) or (v == want) or abs(tau - round(tau)) < (1e-6 if ty == 'f64' else 1e-2)
                    if c.meta.get('exact_positions'):
                        ok = (v == math.floor(tau))      # dyadic ratio: the position arithmetic is exact, so is the instant
                else:
                    want = sum(cf * tau ** k for k, cf in enumerate(coeffs))
                    scale = 1.0 + sum(abs(cf) * abs(tau) ** k for k, cf in enumerate(coeffs))
                    ok = abs(v - want) <= tol * scale * (1 if ty == 'f64' else (1 + abs(tau)))
                if tau < 0:      # instants before the stream start see the zero history, not the polynomial
                    continue
                if tau < 8:
                    continue     # the 8/6/4/2-point window still overlaps the zero history
                if not ok:
                    out.append(fail(c, i, "output %d at instant %r is %r, polynomial gives %r" % (j, tau, v, want)))
                    return out
        return out

    execute(ctx, cases, res, judge)
    res['dist'].update({'fn_files': sum(1 for c in cases if c.meta.get('fn')), 'poly_pairs': len(pairs)})
    return res


# ================================================================== C12
def boundary_values(orig, maxrel):
    lo, hi = orig / maxrel, orig * maxrel
    vals = [lo, hi, orig, math.nextafter(lo, 0), math.nextafter(lo, INF), math.nextafter(hi, 0), math.nextafter(hi, INF),
            NAN, INF, -INF, 0.0, -0.0, -orig, 5e-324, 2.2250738585072014e-308, 1.7976931348623157e308, lo * 0.5, hi * 2,
            math.sqrt(lo * hi) if lo > 0 else orig]
    return vals


def rel_values(maxrel):
    inv = 1.0 / maxrel
    return [inv, maxrel, 1.0, math.nextafter(inv, 0), math.nextafter(inv, INF), math.nextafter(maxrel, 0), math.nextafter(maxrel, INF),
            NAN, INF, -INF, 0.0, -1.0, 5e-324, inv * 0.5, maxrel * 2]


def run_C12(ctx):
    rng, tier = ctx.rng, ctx.tier
    res = new_results("boundary lattice: for every type, random and 'nice' (original, max) pairs; set_resample_ratio at the documented "
                      "bounds computed in binary64, their float neighbours, NaN, infinities, zero, negatives, subnormals; the same "
                      "for the relative setter and for set_chunk_size (0, 1, max, max+1, huge); each call is judged against the "
                      "documented expression evaluated in IEEE doubles and against the bit-exact model",
                      ['FastFixedIn', 'FastFixedOut', 'SincFixedIn', 'SincFixedOut', 'FftFixedIn', 'FftFixedOut', 'FftFixedInOut'])
    cases = []
    n = 28 if ctx.quick else 400
    for i in range(n):
        r = rng.fork("c12_%d" % i)
        kind = gens.ALL[i % 7]
        if kind in gens.ASYNC:
            cfg = async_cfg(r, kind, 'quick', nch=1)
            cfg['chunk'] = min(cfg['chunk'], 32)
            if kind.startswith('sinc'):
                cfg['slen'], cfg['L'] = 8, 8
            if r.chance(0.5):
                cfg['ratio'] = r.choice([0.1, 0.7, 1.0, 1.0 / 3, 48000 / 44100, 3.3, 0.01, 100.0, 1e-3, 7.0])
                cfg['maxrel'] = r.choice([10.0, 1.0, 49.0, 9.0, 3.0, 1.1, 7.0, 1.0000000000000002, 100.0])
            else:
                cfg['ratio'] = r.loguniform(1e-3, 1e3)
                cfg['maxrel'] = r.choice([r.uniform(1, 2), r.loguniform(1, 1000), 1.0])
            lines = ["T ty=%s" % cfg['ty'], new_line(cfg)]
            ann = []
            vals = boundary_values(cfg['ratio'], cfg['maxrel'])
            rels = rel_values(cfg['maxrel'])
            k = 14 if ctx.quick else 40
            for _ in range(k):
                t = r.below(10)
                if t < 5:
                    v = r.choice(vals[:2] + vals[3:7]) if r.chance(0.6) else r.choice(vals)
                    lines.append("SETRATIO x=%s ramp=%d%s" % (f64hex(v), r.below(2), " via=vec" if len(lines) % 2 == 0 else ""))
                    ann.append(('abs', v))
                elif t < 8:
                    v = r.choice(rels[:2] + rels[3:7]) if r.chance(0.6) else r.choice(rels)
                    lines.append("SETREL x=%s ramp=%d%s" % (f64hex(v), r.below(2), " via=vec" if len(lines) % 2 == 0 else ""))
                    ann.append(('rel', v))
                else:
                    v = r.choice([0, 1, cfg['chunk'], cfg['chunk'] + 1, 2 ** 40, max(1, cfg['chunk'] // 2)])
                    lines.append("SETCHUNK n=%d" % v)
                    ann.append(('chunk', v))
                    if kind.startswith('sinc') and 1 <= v <= cfg['chunk']:
                        lines.append("SETRATIO x=%s ramp=0" % f64hex(cfg['ratio']))
                        ann.append(('abs', cfg['ratio']))
                        lines.append("PIB mask=- inlen=next outlen=max sig=rand:%d" % r.below(1000))
                        ann.append(('pib', v))
            cases.append(Case("lat_%03d_%s" % (i, kind), lines, {'cfg': cfg, 'ann': ann}))
        else:
            cfg = fft_cfg(r, kind, 'quick', nch=1)
            lines = ["T ty=%s" % cfg['ty'], new_line(cfg)]
            ann = []
            for _ in range(6):
                t = r.below(3)
                if t == 0:
                    lines.append("SETRATIO x=%s ramp=%d%s" % (f64hex(r.choice([1.0, cfg['rout'] / cfg['rin'], NAN, 0.5])), r.below(2), " via=vec" if len(lines) % 2 == 0 else ""))
                    ann.append(('sync', 0))
                elif t == 1:
                    lines.append("SETREL x=%s ramp=%d%s" % (f64hex(r.choice([1.0, 0.99, NAN])), r.below(2), " via=vec" if len(lines) % 2 == 0 else ""))
                    ann.append(('sync', 0))
                else:
                    lines.append("SETCHUNK n=%d" % r.choice([0, 1, cfg['chunk'], cfg['chunk'] + 1]))
                    ann.append(('nochunk', 0))
            cases.append(Case("lat_%03d_%s" % (i, kind), lines, {'cfg': cfg, 'ann': ann}))

    def judge(c):
        out = []
        cfg, ann = c.meta['cfg'], c.meta['ann']
        tr = c.trace
        if tr['new'] != 'ok':
            # constructor rejected: only legitimate for parameters outside the documented domain
            orig, mx = cfg.get('ratio', 1.0), cfg.get('maxrel', 1.0)
            if cfg['kind'] in gens.ASYNC and orig > 0 and mx >= 1 and math.isfinite(orig * mx) and orig / mx >= 2.2250738585072014e-308:
                out.append(fail(c, -1, "constructor rejected valid parameters: %s" % tr['new']))
            return out
        orig, mx = cfg.get('ratio'), cfg.get('maxrel')
        prev = tr['init']
        cur_chunk = cfg['chunk']
        for i, (s, (kind, v)) in enumerate(zip(tr['steps'], ann)):
            if s.res in FATAL:
                out.append(fail(c, i, "setter or following call ended with %s" % s.res))
                break
            if kind == 'abs':
                lo, hi = orig / mx, orig * mx
                want = (lo <= v <= hi)
                got = s.res == 'unit'
                if want != got:
                    out.append(fail(c, i, "set_resample_ratio(%r) with original %r max %r: accepted=%s, documented range [%r, %r] says %s"
                                    % (v, orig, mx, got, lo, hi, want)))
                if not got and (s.res != 'err' or s.fields[0] != 'RatioOutOfBounds'):
                    out.append(fail(c, i, "rejection is not RatioOutOfBounds: %s %s" % (s.res, s.fields)))
            elif kind == 'rel':
                want = (1.0 / mx <= v <= mx)
                got = s.res == 'unit'
                if want != got:
                    out.append(fail(c, i, "set_resample_ratio_relative(%r) with max %r: accepted=%s, documented range [%r, %r] says %s"
                                    % (v, mx, got, 1.0 / mx, mx, want)))
                if got:
                    # behaves as set_resample_ratio(original*x) (kept inside the absolute bounds)
                    exp = min(max(orig * v, orig / mx), orig * mx)
                    tgt = hexf64(s.s[3])
                    if tgt != exp:
                        out.append(fail(c, i, "relative %r set the target ratio to %r, expected %r" % (v, tgt, exp)))
            elif kind == 'chunk':
                if cfg['kind'].startswith('sinc'):
                    want = 1 <= v <= cfg['chunk']
                    got = s.res == 'unit'
                    if want != got:
                        out.append(fail(c, i, "set_chunk_size(%d) with max %d: accepted=%s" % (v, cfg['chunk'], got)))
                    if not got and (s.res != 'err' or s.fields[:1] != ['InvalidChunkSize'] or int(s.fields[1]) != cfg['chunk'] or int(s.fields[2]) != v):
                        out.append(fail(c, i, "rejection is not InvalidChunkSize{max,requested}: %s" % (s.fields,)))
                    if got:
                        cur_chunk = v
                else:
                    if s.res != 'err' or s.fields[0] != 'ChunkSizeNotAdjustable':
                        out.append(fail(c, i, "set_chunk_size on a type without adjustable chunk: %s %s" % (s.res, s.fields)))
            elif kind == 'pib':
                if s.res != 'counts':
                    out.append(fail(c, i, "processing call after an accepted chunk change failed: %s %s" % (s.res, s.fields)))
                else:
                    nin, nout = int(s.fields[0]), int(s.fields[1])
                    if cfg['kind'] == 'sincin' and nin != v:
                        out.append(fail(c, i, "after set_chunk_size(%d) the call consumed %d frames" % (v, nin)))
                    if cfg['kind'] == 'sincout' and nout != v:
                        out.append(fail(c, i, "after set_chunk_size(%d) the call produced %d frames" % (v, nout)))
            elif kind == 'sync':
                if s.res != 'err' or s.fields[0] != 'SyncNotAdjustable':
                    out.append(fail(c, i, "synchronous resampler answered %s %s" % (s.res, s.fields)))
            elif kind == 'nochunk':
                if s.res != 'err' or s.fields[0] != 'ChunkSizeNotAdjustable':
                    out.append(fail(c, i, "synchronous resampler set_chunk_size answered %s %s" % (s.res, s.fields)))
            if s.res == 'err' and state_sig(s) != state_sig(prev):
                out.append(fail(c, i, "a rejected setter changed the resampler state"))
            prev = s
        return out

    execute(ctx, cases, res, judge)
    res['dist'].update(collections.Counter(a[0] for c in cases for a in c.meta['ann']))
    return res



# ================================================================== C13
def count_samples(field):
    """number of samples in one channel of a concrete in=/out= field"""
    if field == '':
        return 0
    n = 0
    for tok in field.split(','):
        n += int(tok.split('*')[0]) if '*' in tok else 1
    return n


def chan_lens(field):
    if field == '~':
        return []
    return [count_samples(c) for c in field.split(';')]


def expected_pib_error(nch, min_in, min_out, inl, outl, mask):
    """The contract of process_into_buffer: first violated clause (mask length is checked first)."""
    if mask is not None and len(mask) != nch:
        return ['WrongNumberOfMaskChannels', str(nch), str(len(mask))]
    m = mask if mask is not None else [True] * nch
    if len(inl) != nch:
        return ['WrongNumberOfInputChannels', str(nch), str(len(inl))]
    for c in range(nch):
        if m[c] and inl[c] < min_in:
            return ['InsufficientInputBufferSize', str(c), str(min_in), str(inl[c])]
    if len(outl) != nch:
        return ['WrongNumberOfOutputChannels', str(nch), str(len(outl))]
    for c in range(nch):
        if m[c] and outl[c] < min_out:
            return ['InsufficientOutputBufferSize', str(c), str(min_out), str(outl[c])]
    return None


def malformed_op(r, nch):
    """one malformed process_into_buffer call in the symbolic spec language"""
    shape = r.below(12)
    mask = None
    ins = ['next'] * nch
    outs = ['next'] * nch
    if shape == 0:
        ins = ['next'] * (nch + r.choice([1, 2]))
    elif shape == 1:
        ins = ['next'] * (nch - 1)
    elif shape == 2:
        outs = ['next'] * (nch + 1)
    elif shape == 3:
        outs = ['next'] * (nch - 1)
    elif shape == 4:
        mask = "".join(r.choice("01") for _ in range(nch + r.choice([1, 3])))
    elif shape == 5:
        mask = "".join(r.choice("01") for _ in range(nch - 1))
    elif shape == 6:
        c = r.below(nch)
        ins[c] = r.choice(['next-1', 'abs:0', 'next-2'])
    elif shape == 7:
        c = r.below(nch)
        outs[c] = r.choice(['next-1', 'abs:0', 'next-3'])
    elif shape == 8:
        c = r.below(nch)
        ins[c] = 'next-1'
        outs[r.below(nch)] = 'next-1'
        if r.chance(0.5):
            mask = "".join(r.choice("01") for _ in range(nch))
    else:
        # an active channel too short, behind at least one inactive channel (the reported channel number is the real one,
        # not the position among the active channels); inactive channels may be passed empty
        c = (1 + r.below(nch - 1)) if nch > 1 else 0
        mk = [r.choice("01") for _ in range(nch)]
        mk[c] = '1'
        if nch > 1:
            mk[r.below(c)] = '0'
        mask = "".join(mk)
        for q in range(nch):
            if mk[q] == '0' and r.chance(0.5):
                ins[q] = 'abs:0'; outs[q] = 'abs:0'
        if shape in (9, 11):
            ins[c] = r.choice(['next-1', 'abs:0', 'next-2'])
        if shape in (10, 11):
            outs[c] = r.choice(['next-1', 'abs:0', 'next-3'])
    mstr = '-' if mask is None else (mask if mask != '' else '~')
    il = ";".join(ins) if ins else '~'
    ol = ";".join(outs) if outs else '~'
    return "PIB mask=%s inlen=%s outlen=%s sig=rand:%d" % (mstr, il, ol, r.below(10000))


def run_C13(ctx):
    rng, tier = ctx.rng, ctx.tier
    res = new_results("malformed stream: for each of the seven types a valid prefix, then process_into_buffer calls with each malformed "
                      "shape (too many/few input or output channels, mask too long/short/empty, an active channel short by 1..all), "
                      "then valid calls; a twin history without the malformed calls must produce bit-identical outputs; invalid "
                      "constructor arguments; each result is judged against the documented contract and against the bit-exact model",
                      ['FastFixedIn', 'FastFixedOut', 'SincFixedIn', 'SincFixedOut', 'FftFixedIn', 'FftFixedOut', 'FftFixedInOut', 'constructors'])
    cases = []
    n = 21 if ctx.quick else 280
    for i in range(n):
        r = rng.fork("c13_%d" % i)
        kind = gens.ALL[i % 7]
        if kind in gens.ASYNC:
            cfg = async_cfg(r, kind, 'quick', nch=r.choice([1, 2, 3, 4]))
            cfg['chunk'] = max(4, min(cfg['chunk'], 64))
            cfg['maxrel'] = max(cfg['maxrel'], 1.1)
        else:
            cfg = fft_cfg(r, kind, 'quick', nch=r.choice([1, 2, 3, 4]))
        nch = cfg['nch']
        head = ["T ty=%s" % cfg['ty'], new_line(cfg)]
        a, b, ann = list(head), list(head), []
        sig = "rand:%d" % r.below(99999)
        valid = "PIB mask=- inlen=%s outlen=%s sig=%s" % (";".join(['next'] * nch), ";".join(['max'] * nch), sig)
        k = 3 + r.below(4 if ctx.quick else 10)
        for j in range(k):
            if r.chance(0.4):
                a.append(valid); b.append(valid); ann.append('valid')
            if kind in gens.ASYNC and r.chance(0.4):
                # a ramped ratio change is pending when the rejected call arrives: the rejected call must not consume it
                st = "SETREL x=%s ramp=1" % f64hex(r.choice([1.02, 0.98, 1.05, 1.0]))
                a.append(st); b.append(st); ann.append('valid')
            if nch > 1 and r.chance(0.35):
                # a valid call with a mask that switches a channel off, then a malformed call *without* a mask in which exactly that
                # channel is too short (a validation that looks at the mask of the previous call lets it through)
                mk = [r.choice("01") for _ in range(nch)]
                z = r.below(nch); mk[z] = '0'
                if '1' not in mk:
                    mk[(z + 1) % nch] = '1'
                vm = "PIB mask=%s inlen=%s outlen=%s sig=%s" % ("".join(mk), ";".join('next' if q == '1' else 'abs:0' for q in mk),
                                                             ";".join('max' if q == '1' else 'abs:0' for q in mk), sig)
                a.append(vm); b.append(vm); ann.append('valid')
                ins, outs = ['next'] * nch, ['max'] * nch
                if r.chance(0.5):
                    ins[z] = r.choice(['next-1', 'abs:0'])
                else:
                    outs[z] = r.choice(['next-1', 'abs:0'])
                a.append("PIB mask=- inlen=%s outlen=%s sig=%s" % (";".join(ins), ";".join(outs), sig)); ann.append('bad')
            t = r.below(10)
            if t < 7:
                a.append(malformed_op(r, nch)); ann.append('bad')
            elif t < 8 and nch > 1:
                a.append("PROCESS mask=%s inlen=%s sig=%s" % ("1" * (nch - 1), ";".join(['next'] * nch), sig)); ann.append('badprocess')
            elif t < 9:
                a.append("PARTIAL mask=%s inlen=none" % ("1" * (nch + 2))); ann.append('badprocess')
            else:
                a.append("PROCESS mask=- inlen=%s sig=%s" % (";".join(['next'] * (nch + 1)), sig)); ann.append('badprocess')
        a.append(valid); b.append(valid); ann.append('valid')
        a.append(valid); b.append(valid); ann.append('valid')
        ca = Case("mal_%03d_%s_a" % (i, kind), a, {'cfg': cfg, 'ann': ann})
        cb = Case("mal_%03d_%s_b" % (i, kind), b, {'cfg': cfg, 'is_twin': True})
        ca.meta['twin'] = cb
        cases += [ca, cb]
    # directed: fixed-output resamplers at the points of their history where input_frames_next() is 0 (a call that needs no new
    # input must still reject a wrong number of channels, and must not be changed by the rejected call)
    zero_need = [{'kind': 'fftout', 'rin': 44100, 'rout': 48000, 'chunk': 64, 'sub': 1, 'nch': 2, 'ty': 'f64'},
                 {'kind': 'fftout', 'rin': 48000, 'rout': 44100, 'chunk': 128, 'sub': 2, 'nch': 2, 'ty': 'f32'}]
    for kk, rt, ck in (('fastout', 4.0, 1), ('sincout', 8.0, 2)):
        zc = async_cfg(rng.fork("c13_zero_" + kk), kk, 'quick', nch=2)
        zc.update({'ratio': rt, 'maxrel': 1.0, 'chunk': ck})
        if kk == 'sincout':
            zc.update({'slen': 8, 'L': 8}); zc['factor'] = max(zc['factor'], 2)
        zero_need.append(zc)
    for j, cfg in enumerate(zero_need if not ctx.quick else zero_need[:3]):
        r = rng.fork("c13_zero_%d" % j)
        nch = cfg['nch']
        head = ["T ty=%s" % cfg['ty'], new_line(cfg)]
        a, b, ann = list(head), list(head), []
        sig = "rand:%d" % r.below(99999)
        valid = "PIB mask=- inlen=%s outlen=%s sig=%s" % (";".join(['next'] * nch), ";".join(['max'] * nch), sig)
        for rd in range(9):
            a.append(valid); b.append(valid); ann.append('valid')
            shapes = [(['next'] * (nch + 1), ['next'] * nch), (['next'] * (nch - 1), ['next'] * nch), (['next'] * nch, ['next'] * (nch + 1)),
                      (['next'] * nch, ['next'] * (nch - 1)), ([], ['next'] * nch)]
            for ins, outs in (shapes if rd % 2 == 0 else [shapes[r.below(len(shapes))]]):
                a.append("PIB mask=- inlen=%s outlen=%s sig=rand:%d" % (";".join(ins) if ins else '~', ";".join(outs) if outs else '~', r.below(10000)))
                ann.append('bad')
        a.append(valid); b.append(valid); ann.append('valid')
        ca = Case("mal_zero_%02d_%s_a" % (j, cfg['kind']), a, {'cfg': cfg, 'ann': ann})
        cb = Case("mal_zero_%02d_%s_b" % (j, cfg['kind']), b, {'cfg': cfg, 'is_twin': True})
        ca.meta['twin'] = cb
        cases += [ca, cb]
    # invalid constructor arguments
    bad_ctor = []
    for i in range(14 if ctx.quick else 60):
        r = rng.fork("ctor%d" % i)
        kind = gens.ALL[i % 7]
        if kind in gens.ASYNC:
            cfg = async_cfg(r, kind, 'quick', nch=1)
            cfg['chunk'] = 8
            which = r.below(6)
            if which == 0:
                cfg['ratio'] = r.choice([0.0, -0.0, -1.0, -1e-300, NAN, INF, -INF])
                exp = 'InvalidRatio'
            elif which == 1:
                cfg['maxrel'] = r.choice([0.5, 0.0, -3.0, 0.9999999999999999, NAN, INF])
                exp = 'InvalidRelativeRatio'
            elif which == 2:
                cfg['ratio'], cfg['maxrel'] = 1e300, 1e10
                exp = 'InvalidRelativeRatio'
            elif which == 3:
                cfg['ratio'], cfg['maxrel'] = 1e-300, 1e10
                exp = 'InvalidRelativeRatio'
            else:
                exp = 'ok'
        else:
            cfg = fft_cfg(r, kind, 'quick', nch=1)
            which = r.below(4)
            if which == 0:
                cfg['rin'] = 0
                exp = 'InvalidSampleRate'
            elif which == 1:
                cfg['rout'] = 0
                exp = 'InvalidSampleRate'
            elif which == 2:
                cfg['rin'] = cfg['rout'] = 0
                exp = 'InvalidSampleRate'
            else:
                exp = 'ok'
        cases.append(Case("ctor_%03d_%s" % (i, kind), ["T ty=%s" % cfg['ty'], new_line(cfg)],
                          {'cfg': cfg, 'component': 'constructors', 'ctor_expect': exp}))

    def judge(c):
        out = []
        tr = c.trace
        if 'ctor_expect' in c.meta:
            exp = c.meta['ctor_expect']
            got = tr['new'] or 'nothing'
            if exp == 'ok' and got != 'ok':
                out.append(fail(c, -1, "constructor rejected valid arguments: %s" % got))
            if exp != 'ok' and not got.startswith('err ' + exp):
                out.append(fail(c, -1, "constructor with invalid arguments answered %r, documented error is %s" % (got, exp)))
            return out
        if c.meta.get('is_twin'):
            return out
        if tr['new'] != 'ok':
            return [fail(c, -1, "constructor failed on valid arguments: %s" % tr['new'])]
        ann = c.meta['ann']
        prev = tr['init']
        valid_a = []
        degenerate = False
        for i, s in enumerate(tr['steps']):
            kind = ann[i] if i < len(ann) else '?'
            if s.res in FATAL:
                out.append(fail(c, i, "%s call ended with %s instead of an Err" % (kind, s.res)))
                return out
            if kind == 'bad':
                nch, in_next, out_next = prev.g[5], prev.g[1], prev.g[3]
                inl, outl = chan_lens(s.kv['in']), chan_lens(s.kv['out'])
                mk = s.kv['mask']
                mask = None if mk == '-' else ([] if mk == '~' else [ch == '1' for ch in mk])
                exp = expected_pib_error(nch, in_next, out_next, inl, outl, mask)
                if exp is None:
                    # the call meant to be malformed satisfies the contract at this point of the history (e.g. a fixed-output
                    # type that needs 0 input frames accepts an empty input): it is a valid call the twin does not make
                    degenerate = True
                elif s.res != 'err' or s.fields != exp:
                    out.append(fail(c, i, "malformed call answered %s %s, contract says Err %s" % (s.res, s.fields, exp)))
                if s.res == 'err':
                    if state_sig(s) != state_sig(prev):
                        out.append(fail(c, i, "a rejected call changed getters / control state / internal buffers"))
            elif kind == 'badprocess':
                if s.res != 'err':
                    out.append(fail(c, i, "process/partial with malformed arguments answered %s" % s.res))
                elif state_sig(s) != state_sig(prev):
                    out.append(fail(c, i, "a rejected process()/process_partial() changed the resampler"))
            elif kind == 'valid':
                valid_a.append(s)
            prev = s
        b = c.meta['twin']
        if not getattr(b, 'trace', None):
            b.trace = parse_trace(b.impl_path, b.hist_path)
        if degenerate:
            c.meta['unmeasurable'] = True
            return out
        for j, (sa, sb) in enumerate(zip(valid_a, b.trace['steps'])):
            if (sa.res, sa.fields, sa.outs, sa.g) != (sb.res, sb.fields, sb.outs, sb.g):
                out.append(fail(c, j, "valid call #%d differs from the history without the rejected calls" % j))
                break
        return out

    execute(ctx, cases, res, judge)
    res['dist'].update(collections.Counter(a for c in cases for a in c.meta.get('ann', [])))
    return res



# ================================================================== C16
def run_C16(ctx):
    rng, tier = ctx.rng, ctx.tier
    res = new_results("twin histories on all seven types: (A) process / process_partial(_into_buffer)(Some k | None), half of them through "
                      "the VecResampler object-safe trait, (B) the same stream through process_into_buffer with explicit zero padding "
                      "and buffers of output_frames_next frames; outputs, counts and the whole state after every call must be equal",
                      ['FastFixedIn', 'FastFixedOut', 'SincFixedIn', 'SincFixedOut', 'FftFixedIn', 'FftFixedOut', 'FftFixedInOut', 'wrappers'])
    cases = []
    n = 28 if ctx.quick else 350
    for i in range(n):
        r = rng.fork("c16_%d" % i)
        kind = gens.ALL[i % 7]
        if kind in gens.ASYNC:
            cfg = async_cfg(r, kind, 'quick')
            cfg['chunk'] = max(4, min(cfg['chunk'], 64))
        else:
            cfg = fft_cfg(r, kind, 'quick')
        nch = cfg['nch']
        head = ["T ty=%s" % cfg['ty'], new_line(cfg)]
        a, b = list(head), list(head)
        sig = r.choice(["rand:%d" % r.below(99999), "ramp", "sine:%s:%s" % (f64hex(0.05), f64hex(0.3))])
        mask = None
        if r.chance(0.4):
            mask = "".join(r.choice("01") for _ in range(nch))
        mstr = mask if mask else '-'
        act = [(mask is None or mask[c] == '1') for c in range(nch)]
        k = 3 + r.below(5 if ctx.quick else 12)
        if kind in gens.ASYNC and i % 2 == 1:
            cfg['maxrel'] = max(cfg['maxrel'], 1.25)
            head = ["T ty=%s" % cfg['ty'], new_line(cfg)]
            a, b = list(head), list(head)
        for j in range(k):
            via = " via=vec" if r.chance(0.5) else ""
            if kind in gens.ASYNC and i % 2 == 1 and j % 2 == 1:
                # a moderate relative ratio change, ramped or not: the wrappers must still agree with the core call while it is
                # pending; twin A sets it through the object-safe wrapper trait
                x = [1.0 / 1.2, 1.15, 1.0, 0.9][(j // 2) % 4]
                x = min(max(x, 1.0 / cfg['maxrel']), cfg['maxrel'])
                rp = (j // 2) % 2
                a.append("SETREL x=%s ramp=%d via=vec" % (f64hex(x), rp))
                b.append("SETREL x=%s ramp=%d" % (f64hex(x), rp))
            t = r.below(6)
            il_full = ";".join('next' if act[c] else r.choice(['abs:0', 'next']) for c in range(nch))
            # the core twin gets room for output_frames_max(): "the frames process_into_buffer would have written" must not
            # depend on the wrapper's own sizing of its output vectors
            ol_next = ";".join('max' if act[c] else 'abs:0' for c in range(nch))
            if t < 2:
                a.append("PROCESS mask=%s inlen=%s sig=%s%s" % (mstr, il_full, sig, via))
                b.append("PIB mask=%s inlen=%s outlen=%s sig=%s" % (mstr, il_full, ol_next, sig))
            elif t < 4:
                ks = [(r.choice(['c1:next-1', 'c1:next-2', 'c1:next-7', 'abs:1', 'next']) if act[c] else r.choice(['abs:0', 'c1:next-1']))
                      for c in range(nch)]
                a.append("PARTIAL mask=%s inlen=%s sig=%s%s" % (mstr, ";".join(ks), sig, via))
                b.append("PIB mask=%s inlen=%s outlen=%s sig=pad@%s@%s adv=%s" % (mstr, ";".join(['next'] * nch), ol_next, "|".join(ks), sig, "|".join(ks)))
            elif t < 5:
                a.append("PARTIAL mask=%s inlen=none%s" % (mstr, via))
                b.append("PIB mask=%s inlen=%s outlen=%s sig=zero adv=abs:0" % (mstr, ";".join(['next'] * nch), ol_next))
            else:
                ks = [(r.choice(['c1:next-1', 'c1:next-3', 'abs:2']) if act[c] else r.choice(['abs:0', 'c1:next-1'])) for c in range(nch)]
                ol = ";".join('max' if act[c] else 'abs:0' for c in range(nch))
                a.append("PARTIALINTO mask=%s inlen=%s outlen=%s sig=%s%s" % (mstr, ";".join(ks), ol, sig, via))
                b.append("PIB mask=%s inlen=%s outlen=%s sig=pad@%s@%s adv=%s" % (mstr, ";".join(['next'] * nch), ol, "|".join(ks), sig, "|".join(ks)))
        ca = Case("wr_%03d_%s_a" % (i, kind), a, {'cfg': cfg, 'act': act})
        cb = Case("wr_%03d_%s_b" % (i, kind), b, {'cfg': cfg, 'is_twin': True})
        ca.meta['twin'] = cb
        cases += [ca, cb]

    # directed: the allocating wrappers while a ramped ratio change is pending (their output vectors are sized by
    # output_frames_next(); the core call must accept exactly that), large enough chunks for the ramp to matter
    for i, kind in enumerate(['fastin', 'sincin', 'fastout', 'sincout']):
        r = rng.fork("c16_ramp_%d" % i)
        cfg = async_cfg(r, kind, 'quick', nch=1)
        cfg.update({'ratio': 1.0, 'maxrel': 2.0, 'chunk': 1024 if kind.startswith('fast') else 256})
        if kind.startswith('sinc'):
            cfg.update({'slen': 16, 'L': 16}); cfg['factor'] = max(cfg['factor'], 2)
        head = ["T ty=%s" % cfg['ty'], new_line(cfg)]
        sig = "rand:%d" % r.below(99999)
        a, b = list(head), list(head)
        def both(wa, wb):
            a.append(wa); b.append(wb)
        proc_a = "PROCESS mask=- inlen=next sig=%s" % sig
        proc_b = "PIB mask=- inlen=next outlen=max sig=%s" % sig
        both(proc_a, proc_b)
        both("SETREL x=%s ramp=1 via=vec" % f64hex(1.25), "SETREL x=%s ramp=1" % f64hex(1.25))
        both(proc_a + " via=vec", proc_b)
        both(proc_a, proc_b)
        both("SETREL x=%s ramp=1" % f64hex(0.8), "SETREL x=%s ramp=1" % f64hex(0.8))
        both("PARTIAL mask=- inlen=c1:next-3 sig=%s" % sig, "PIB mask=- inlen=next outlen=max sig=pad@c1:next-3@%s adv=c1:next-3" % sig)
        both(proc_a, proc_b)
        ca = Case("wr_ramp_%d_%s_a" % (i, kind), a, {'cfg': cfg, 'act': [True]})
        cb = Case("wr_ramp_%d_%s_b" % (i, kind), b, {'cfg': cfg, 'is_twin': True})
        ca.meta['twin'] = cb
        cases += [ca, cb]

    def judge(c):
        out = []
        if c.meta.get('is_twin'):
            return out
        b = c.meta['twin']
        if not getattr(b, 'trace', None):
            b.trace = parse_trace(b.impl_path, b.hist_path)
        if c.trace['new'] != 'ok':
            return [fail(c, -1, "constructor failed: %s" % c.trace['new'])]
        act = c.meta['act']
        for i, st in enumerate([c.trace['init']] + c.trace['steps']):
            if st.gv is not None:
                return [fail(c, i - 1, "the VecResampler wrapper reports (in max, in next, out max, out next, delay, channels) = %s, the Resampler "
                             "trait %s" % (st.gv, st.g))]
        for i, (sa, sb) in enumerate(zip(c.trace['steps'], b.trace['steps'])):
            if sa.res in FATAL or sb.res in FATAL:
                if sa.res != sb.res:
                    out.append(fail(c, i, "wrapper ended with %s, core call with %s" % (sa.res, sb.res)))
                break
            if sb.res != 'counts':
                if sa.res != sb.res or sa.fields != sb.fields:
                    out.append(fail(c, i, "wrapper result %s %s, core result %s %s" % (sa.res, sa.fields, sb.res, sb.fields)))
                continue
            nout = int(sb.fields[1])
            if sa.res == 'vecs':
                for ch, v in enumerate(sa.outs):
                    got = expand_hex(v)
                    want = expand_hex(sb.outs[ch])[:nout] if act[ch] else []
                    if got != want:
                        out.append(fail(c, i, "channel %d: wrapper returned %d frames, core call wrote %d (values %s)" %
                                        (ch, len(got), len(want), 'equal prefix' if got[:len(want)] == want[:len(got)] else 'differ')))
                        break
            elif sa.res == 'counts':
                if sa.fields != sb.fields or [expand_hex(v) for v in sa.outs] != [expand_hex(v) for v in sb.outs]:
                    out.append(fail(c, i, "process_partial_into_buffer differs from the zero-padded core call"))
            else:
                out.append(fail(c, i, "wrapper failed (%s %s) where the core call succeeded" % (sa.res, sa.fields)))
            if state_sig(sa) != state_sig(sb):
                out.append(fail(c, i, "state after the wrapper call differs from the state after the core call"))
            if out:
                break
        return out

    execute(ctx, cases, res, judge)
    return res


def gen_forwarding(rep):
    f = rep.get('vec_forwarding', {})
    return bool(f.get('ok')), "; ".join(f.get('problems', [])) or "all %d methods of the VecResampler blanket impl forward unchanged" % len(f.get('methods', []))



# ================================================================== valid-history stream (C03, C04, C07, C09 ...)
ALL_COMPONENTS = ['FastFixedIn', 'FastFixedOut', 'SincFixedIn', 'SincFixedOut', 'FftFixedIn', 'FftFixedOut', 'FftFixedInOut']


def base_class(why):
    return why[6:] if why.startswith('after:') else why


def valid_stream(ctx, n_quick, n_thorough, tag, **kw):
    rng, tier = ctx.rng, ctx.tier
    n = n_quick if ctx.quick else n_thorough
    cases = []
    for i in range(n):
        k = gens.ALL[i % 7]
        cases.append(gens.valid_history(rng.fork("%s%d" % (tag, i)), k, tier, "%s_%04d_%s" % (tag, i, k), **kw))
    return cases


OKRES = ('counts', 'vecs', 'unit')


def corpus_cases(prefix='fixed_'):
    """minimised histories of repaired defects: valid, in-envelope, run first on every check of C03"""
    out = []
    d = os.path.join(VERIF, 'corpus')
    for f in sorted(os.listdir(d)):
        if f.startswith(prefix) and f.endswith('.spec'):
            lines = [l.rstrip('\n') for l in open(os.path.join(d, f)) if l.strip()]
            kind = parse_kv(next(l for l in lines if l.startswith('NEW'))).get('kind')
            nops = sum(1 for l in lines if l.split(' ')[0] in ('PIB', 'PROCESS', 'PARTIALINTO', 'PARTIAL', 'SETRATIO', 'SETREL', 'SETCHUNK', 'RESET'))
            out.append(Case('corpus_' + f[:-5], lines, {'cfg': {'kind': kind}, 'ops': [{'op': 'corpus', 'envelope': True} for _ in range(nops)]}))
    return out


def directed_ramp_cases(rng, tag, linear_index_signal):
    """small and medium ramped ratio changes on the fixed-output (and fixed-input) polynomial and sinc types, each
    followed by three more calls: outside the proven envelope, used by the golden pass (recorded verdicts)"""
    cases = []
    for i in range(32):
        r = rng.fork("%s_dr_%d" % (tag, i))
        k = ['fastout', 'fastout', 'sincout', 'fastin'][i % 4]
        cfg = async_cfg(r, k, 'quick', nch=1, ty='f64')
        cfg['chunk'] = r.choice([256, 1024, 1024, 2048]) if k.startswith('fast') else r.choice([64, 128])
        cfg['maxrel'] = r.choice([1.1, 1.25, 2.0, 4.0])
        cfg['ratio'] = r.choice([1.0, 48000 / 44100, 44100 / 48000, 0.5, 2.0])
        if k.startswith('fast'):
            cfg['deg'] = 3 if linear_index_signal else r.below(4)
        else:
            cfg['slen'] = cfg['L'] = 16; cfg['interp'] = 'default'; cfg['factor'] = max(2, cfg['factor'])
        tr = RatioTracker(cfg)
        sig = "ramp" if linear_index_signal else "rand:%d" % r.below(10 ** 6)
        lines = ["T ty=f64", new_line(cfg)]
        ops = []
        def pib():
            ok, why = tr.envelope()
            lines.append("PIB mask=- inlen=next outlen=next sig=%s" % sig)
            ops.append({'op': 'pib', 'envelope': ok, 'why': why}); tr.processed()
        pib(); pib()
        for _ in range(1 + r.below(2)):
            frac = r.choice([0.02, 0.05, 0.1, 0.2, 0.5, 0.9, 0.999])       # how far towards the bound
            down = r.chance(0.6)
            bound = tr.lo if down else tr.hi
            x = tr.ratio + frac * (bound - tr.ratio)
            x = min(max(x, tr.lo), tr.hi)
            lines.append("SETRATIO x=%s ramp=1" % f64hex(x))
            tr.set_ratio(x, True); ops.append({'op': 'setratio', 'ratio': x, 'ramp': True})
            pib(); pib(); pib()
        c = Case("%s_dr_%03d_%s" % (tag, i, k), lines, {'cfg': cfg, 'ops': ops, 'sig': sig, 'warp': linear_index_signal})
        cases.append(c)
    # large chunks relative to the filter length on the fixed-output sinc type: upward and downward ramps followed by four calls
    # (an input request that is wrong by a fraction of the chunk shows two or three calls later)
    for i in range(16):
        small = i >= 8          # small ramps on large chunks: a request that is wrong in the first order of the step shows, one
                                # that is wrong in the second order (the unmodified code) does not
        r = rng.fork("%s_drs_%d" % (tag, i))
        cfg = async_cfg(r, 'sincout', 'quick', nch=1, ty='f64')
        cfg.update({'chunk': r.choice([256, 512]) if not small else r.choice([1024, 2048]), 'maxrel': r.choice([1.5, 2.0]), 'ratio': 1.0,
                    'slen': 16, 'L': 16, 'interp': 'default', 'factor': max(2, cfg['factor'])})
        if small and linear_index_signal:
            cfg['itype'] = 2; cfg['factor'] = max(cfg['factor'], 256)      # linear inter-branch blend reproduces the index ramp
        tr = RatioTracker(cfg)
        sig = "ramp" if linear_index_signal else "rand:%d" % r.below(10 ** 6)
        lines = ["T ty=f64", new_line(cfg)]
        ops = []
        def pib2():
            ok, why = tr.envelope()
            lines.append("PIB mask=- inlen=next outlen=next sig=%s" % sig)
            ops.append({'op': 'pib', 'envelope': ok, 'why': why}); tr.processed()
        pib2(); pib2()
        frac = [0.3, 0.6, 0.9, 0.999][i % 4]
        bound = tr.hi if i < 6 else tr.lo
        if small:
            frac = [0.05, 0.1, 0.2, 0.3][i % 4]
            bound = tr.lo if i % 2 == 0 else tr.hi
        x = min(max(tr.ratio + frac * (bound - tr.ratio), tr.lo), tr.hi)
        lines.append("SETRATIO x=%s ramp=1" % f64hex(x))
        tr.set_ratio(x, True); ops.append({'op': 'setratio', 'ratio': x, 'ramp': True})
        pib2(); pib2(); pib2(); pib2()
        cases.append(Case("%s_drs_%03d_sincout" % (tag, i), lines, {'cfg': cfg, 'ops': ops, 'sig': sig, 'warp': linear_index_signal}))
    return cases


def double_setter_cases(rng, tag):
    """a ramped change immediately replaced by a non-ramped change to the same value (and the reverse), with no call in between, to
    a bound of the range; then four calls.  All four asynchronous types, absolute and relative setter."""
    cases = []
    j = 0
    for k in ['fastout', 'sincout', 'fastin', 'sincin']:
        for (first, x, rel) in [(1, 0.5, False), (1, 2.0, True), (0, 0.5, True), (1, 0.75, False)]:
            r = rng.fork("%s_dbl_%d" % (tag, j))
            cfg = async_cfg(r, k, 'quick', nch=1)
            cfg.update({'ratio': 1.0, 'maxrel': 2.0, 'chunk': 1024 if k.startswith('fast') else 256})
            if k.startswith('sinc'):
                cfg.update({'slen': 16, 'L': 16, 'interp': 'default'}); cfg['factor'] = max(cfg['factor'], 2)
            sig = "rand:%d" % r.below(9999)
            tr = RatioTracker(cfg)
            lines = ["T ty=%s" % cfg['ty'], new_line(cfg)]
            ops = []
            def pib():
                ok, why = tr.envelope()
                lines.append("PIB mask=- inlen=next outlen=next sig=%s" % sig)
                ops.append({'op': 'pib', 'envelope': ok, 'why': why}); tr.processed()
            pib(); pib()
            for ramp in (first, 1 - first):
                lines.append("%s x=%s ramp=%d" % ('SETREL' if rel else 'SETRATIO', f64hex(x), ramp))
                tr.set_ratio(x, bool(ramp)); ops.append({'op': 'setrel' if rel else 'setratio', 'ratio': x, 'ramp': bool(ramp)})
            pib(); pib(); pib(); pib()
            cases.append(Case("%s_dbl_%02d_%s" % (tag, j, k), lines, {'cfg': cfg, 'ops': ops, 'sig': sig}))
            j += 1
    return cases


def judge_C03(c):
    out = []
    tr = c.trace
    if tr['new'] != 'ok':
        return [fail(c, -1, "constructor failed on valid arguments: %s" % tr['new'])]
    for i, (s, a) in enumerate(zip(tr['steps'], c.meta['ops'])):
        env = a.get('envelope', True)
        cls = None if env else base_class(a.get('why', ''))
        if s.res in FATAL:
            out.append(fail(c, i, "%s ended with %s on a valid call%s" % (s.op, s.res, '' if env else ' (outside the proven envelope: %s)' % a.get('why')), cls))
            break
        if s.res == 'err':
            exp = a.get('expect_err')
            if exp and s.fields[0] == exp:
                continue
            out.append(fail(c, i, "%s returned Err %s on a valid call%s" % (s.op, s.fields, '' if env else ' (outside the proven envelope: %s)' % a.get('why')), cls))
    return out


def run_C03(ctx):
    res = new_results("valid histories over all seven types x {f32,f64}: constructor-accepted random configurations, sequences over "
                      "process_into_buffer (exact/larger buffers, masks), process, process_partial(Some|None), in-range ratio changes "
                      "(ramp on/off), set_chunk_size, reset; every outcome must be Ok (or the Err the contract prescribes for that call); "
                      "each history also runs on the extracted model, which must predict the same outcome bit for bit",
                      ALL_COMPONENTS)
    cases = corpus_cases() + valid_stream(ctx, 84, 1400, 'v')
    if getattr(ctx, 'golden', False):
        cases += directed_ramp_cases(ctx.rng, 'v', False)
    else:
        cases += double_setter_cases(ctx.rng, 'v')
    execute(ctx, cases, res, judge_C03, timeout=300)
    res['dist'].update(collections.Counter("%s:%s" % (c.meta['cfg']['kind'], a['op']) for c in cases for a in c.meta['ops']))
    res['dist']['calls_outside_envelope'] = sum(1 for c in cases for a in c.meta['ops'] if not a.get('envelope', True))
    return res


SENTINEL64 = f64hex(1234.5)
SENTINEL32 = f32hex(1234.5)


def judge_C04(c):
    out = []
    tr = c.trace
    if tr['new'] != 'ok':
        return [fail(c, -1, "constructor failed on valid arguments: %s" % tr['new'])]
    kind = c.meta['cfg']['kind']
    sent = SENTINEL64 if tr['ty'] == 'f64' else SENTINEL32
    prev = tr['init']
    tainted = None
    # the smallest input_frames_max() / output_frames_max() reported so far: buffers allocated at that moment must stay
    # sufficient for the whole life of the resampler
    low_in_max = tr['init'].g[0] if tr['init'].g else None
    low_out_max = tr['init'].g[2] if tr['init'].g else None
    for i, (s, a) in enumerate(zip(tr['steps'], c.meta['ops'])):
        env = a.get('envelope', True)
        if not env and tainted is None:
            tainted = base_class(a.get('why', ''))
        cls = tainted
        if s.res in FATAL:
            break
        g = s.g
        if s.al:
            out.append(fail(c, i, "after %s: input_buffer_allocate / output_buffer_allocate (trait or VecResampler) do not return nbr_channels() "
                            "vectors of input_frames_max() / output_frames_max() frames (or that capacity when not filled)" % s.op, cls))
        if g and (g[1] > g[0] or g[3] > g[2]):
            out.append(fail(c, i, "after %s: input_frames_next %d / max %d, output_frames_next %d / max %d" % (s.op, g[1], g[0], g[3], g[2]), cls))
        elif g and low_in_max is not None and (g[1] > low_in_max or g[3] > low_out_max):
            out.append(fail(c, i, "after %s: input_frames_next %d / output_frames_next %d exceed the input_frames_max() = %d / output_frames_max() = %d "
                            "reported earlier in the life of this resampler (buffers allocated then are too short now)"
                            % (s.op, g[1], g[3], low_in_max, low_out_max), cls))
        if g and low_in_max is not None:
            low_in_max, low_out_max = min(low_in_max, g[0]), min(low_out_max, g[2])
        if s.res == 'counts' and s.op == 'PIB':
            nin, nout = int(s.fields[0]), int(s.fields[1])
            if nin != prev.g[1]:
                out.append(fail(c, i, "consumed %d frames, input_frames_next() said %d" % (nin, prev.g[1]), cls))
            if nout > prev.g[3]:
                out.append(fail(c, i, "wrote %d frames, output_frames_next() said %d" % (nout, prev.g[3]), cls))
            if kind in ('fastout', 'sincout', 'fftout', 'fftinout', 'fftin') and nout != prev.g[3]:
                out.append(fail(c, i, "wrote %d frames, output_frames_next() promised exactly %d" % (nout, prev.g[3]), cls))
            # nothing is written beyond the returned count, nothing at all into masked channels
            mk = s.kv.get('mask', '-')
            for ch, o in enumerate(s.outs):
                vals = expand_hex(o)
                active = (mk == '-' or (ch < len(mk) and mk[ch] == '1'))
                tail = vals[nout:] if active else vals
                if any(v != sent for v in tail):
                    out.append(fail(c, i, "channel %d: frames beyond the returned count (or a masked channel) were written" % ch, cls))
                    break
        elif s.res == 'vecs' and s.op == 'PROCESS':
            mk = s.kv.get('mask', '-')
            for ch, o in enumerate(s.outs):
                active = (mk == '-' or (ch < len(mk) and mk[ch] == '1'))
                n = len(expand_hex(o))
                if active and n > prev.g[3]:
                    out.append(fail(c, i, "process() returned %d frames, more than output_frames_next() = %d" % (n, prev.g[3]), cls))
        prev = s
    return out


def run_C04(ctx):
    res = new_results("the valid-history stream of C03 with sentinel-filled output buffers of exactly output_frames_next (or larger) "
                      "frames; after every operation next <= max for input and output, consumed == input_frames_next, written <= "
                      "output_frames_next (== for fixed-output and synchronous types), nothing written beyond the returned count", ALL_COMPONENTS)
    cases = valid_stream(ctx, 84, 1400, 'g')
    if getattr(ctx, 'golden', False):
        cases += directed_ramp_cases(ctx.rng, 'g', False)
    else:
        cases += double_setter_cases(ctx.rng, 'g')
        # directed: the ratio is raised to the upper bound (getters read there), then lowered to the lower bound, non-ramped,
        # on all four asynchronous types: what input_frames_max() / output_frames_max() said at any time must still hold
        for j, k in enumerate(['fastout', 'sincout', 'fastin', 'sincin']):
            r = ctx.rng.fork("c04_swing_%d" % j)
            cfg = async_cfg(r, k, 'quick', nch=1)
            cfg.update({'ratio': 1.0, 'maxrel': 2.0, 'chunk': r.choice([64, 256])})
            if k.startswith('sinc'):
                cfg.update({'slen': 16, 'L': 16}); cfg['factor'] = max(cfg['factor'], 2)
            sig = "rand:%d" % r.below(9999)
            pib = "PIB mask=- inlen=next outlen=next sig=%s" % sig
            lines = ["T ty=%s" % cfg['ty'], new_line(cfg), pib, "SETREL x=%s ramp=0" % f64hex(2.0), pib, pib,
                     "SETREL x=%s ramp=0" % f64hex(0.5), pib, pib, "SETREL x=%s ramp=0" % f64hex(1.0), pib]
            tr = RatioTracker(cfg)
            ops = []
            for l in lines[2:]:
                if l.startswith('PIB'):
                    ok, why = tr.envelope(); ops.append({'op': 'pib', 'envelope': ok, 'why': why}); tr.processed()
                else:
                    x = {2.0: 2.0, 0.5: 0.5, 1.0: 1.0}[hexf64(parse_kv(l)['x'])]
                    tr.set_ratio(x * cfg['ratio'], False); ops.append({'op': 'setrel', 'ratio': x, 'ramp': False})
            cases.append(Case("g_swing_%d_%s" % (j, k), lines, {'cfg': cfg, 'ops': ops, 'sig': sig}))
        # directed: reset() while a smaller chunk size is in force (sinc types), then several calls
        for j, k in enumerate(['sincout', 'sincin']):
            r = ctx.rng.fork("c04_rstchunk_%d" % j)
            cfg = async_cfg(r, k, 'quick', nch=2)
            cfg.update({'ratio': 48000 / 44100, 'maxrel': 1.1, 'chunk': 256, 'slen': 16, 'L': 16}); cfg['factor'] = max(cfg['factor'], 2)
            sig = "rand:%d" % r.below(9999)
            pib = "PIB mask=- inlen=next;next outlen=next;next sig=%s" % sig
            lines = ["T ty=%s" % cfg['ty'], new_line(cfg), pib, pib, "SETCHUNK n=32", pib, pib, "RESET", pib, pib, pib, pib]
            ops = [{'op': 'pib', 'envelope': True}] * 2 + [{'op': 'setchunk'}] + [{'op': 'pib', 'envelope': True}] * 2 + [{'op': 'reset'}] + \
                  [{'op': 'pib', 'envelope': True}] * 4
            cases.append(Case("g_rstchunk_%d_%s" % (j, k), lines, {'cfg': cfg, 'ops': ops, 'sig': sig}))
    execute(ctx, cases, res, judge_C04, timeout=300)
    res['dist'].update(collections.Counter(c.meta['cfg']['kind'] for c in cases))
    return res


# ================================================================== C07
def judge_C07(c):
    out = []
    tr = c.trace
    cfg = c.meta['cfg']
    if tr['new'] != 'ok':
        return [fail(c, -1, "constructor failed: %s" % tr['new'])]
    nin = nout = 0
    kind = cfg['kind']
    for i, s in enumerate(tr['steps']):
        if s.res in FATAL:
            out.append(fail(c, i, "fatal outcome at constant ratio: %s" % s.res))
            break
        if s.op == 'RESET' and s.res == 'unit':
            nin = nout = 0          # a new stream starts here: the accounting must hold for it as for a fresh instance
            continue
        if s.res == 'counts':
            nin += int(s.fields[0])
            nout += int(s.fields[1])
            if kind in gens.ASYNC:
                r = cfg['ratio']
                L = cfg['L']
                bound = r * (L + 1.0 / r + 3) + 3
                if abs(nout - r * nin) > bound * (1 + 1e-9):
                    out.append(fail(c, i, "after %d frames in, %d out at ratio %r: |out - r*in| = %r > %r" % (nin, nout, r, abs(nout - r * nin), bound)))
                    break
            else:
                st = [int(x) for x in s.s]
                fin, fout = (st[1], st[2]) if kind != 'fftinout' else (st[0], st[1])
                lhs = nin * cfg['rout'] - nout * cfg['rin']
                if fin * cfg['rout'] != fout * cfg['rin']:
                    out.append(fail(c, i, "block sizes %d:%d are not in the ratio of the rates %d:%d" % (fin, fout, cfg['rin'], cfg['rout'])))
                    break
                if kind == 'fftinout':
                    if lhs != 0:
                        out.append(fail(c, i, "FftFixedInOut: in*rate_out - out*rate_in = %d, must be 0" % lhs))
                        break
                    g = math.gcd(cfg['rin'], cfg['rout'])
                    if fin < cfg['chunk'] or fin - cfg['rin'] // g >= cfg['chunk']:
                        out.append(fail(c, i, "FftFixedInOut block %d is not the smallest valid size >= requested chunk %d" % (fin, cfg['chunk'])))
                        break
                elif not (0 <= lhs < fin * cfg['rout']):
                    out.append(fail(c, i, "in*rate_out - out*rate_in = %d not in [0, one block = %d)" % (lhs, fin * cfg['rout'])))
                    break
    return out


def run_C07(ctx):
    rng, tier = ctx.rng, ctx.tier
    res = new_results("constant-ratio streams on all seven types, chunk sizes from 1 frame up, set_chunk_size schedules on the sinc types, "
                      "many calls; running totals checked after every call against the property's bound (asynchronous) or the "
                      "block balance (synchronous: 0 <= in*rate_out - out*rate_in < one block, == 0 for FftFixedInOut, block sizing)", ALL_COMPONENTS)
    cases = []
    n = 56 if ctx.quick else 700
    for i in range(n):
        r = rng.fork("c07_%d" % i)
        k = gens.ALL[i % 7]
        nops = (20 + r.below(40)) if ctx.quick else (60 + r.below(400))
        ops = ['pib', 'pib', 'pib', 'pib', 'pib', 'setchunk'] if k in ('sincin', 'sincout') else ['pib']
        if i % 3 == 2:
            ops = ops * 3 + ['reset']      # a third of the streams are interrupted by reset() now and then
        cfg = None
        if k in gens.ASYNC:
            cfg = async_cfg(r, k, tier)
            if r.chance(0.4):
                cfg['chunk'] = r.choice([1, 1, 2, 3])
            elif k.startswith('sinc'):
                cfg['chunk'] = min(cfg['chunk'], 48 if ctx.quick else 256)
            if k.startswith('sinc'):
                cfg['slen'] = min(cfg['slen'], 24)
                cfg['L'] = 8 * ((cfg['slen'] + 7) // 8)
        else:
            cfg = fft_cfg(r, k, tier)
            if r.chance(0.4):
                cfg['chunk'] = r.choice([1, 1, 2, 3])
        h = gens.valid_history(r, k, tier, "acc_%04d_%s" % (i, k), nops=nops, cfg=cfg, ops_allowed=ops, no_mask=True,
                               sig="rand:%d" % r.below(9999))
        if i % 3 == 1:
            # a third of the streams contain rejected calls (a channel too short, a channel missing): they must not count
            rb = r.fork('bad')
            nchh = h.meta['cfg']['nch']
            spec, mops = list(h.spec[:2]), []
            for l, a in zip(h.spec[2:], h.meta['ops']):
                if l.startswith('PIB') and rb.chance(0.2):
                    shape = rb.below(3)
                    il = ['next'] * nchh; ol = ['max'] * nchh
                    if shape == 0:
                        il[rb.below(nchh)] = rb.choice(['abs:0', 'next-1'])
                    elif shape == 1:
                        ol[rb.below(nchh)] = rb.choice(['abs:0', 'next-1'])
                    else:
                        il = il + ['next']
                    spec.append("PIB mask=- inlen=%s outlen=%s sig=%s" % (";".join(il), ";".join(ol), h.meta['sig']))
                    mops.append({'op': 'bad', 'envelope': True})
                spec.append(l); mops.append(a)
            h = Case(h.name, spec, dict(h.meta, ops=mops))
        cases.append(h)
    # directed: the chunk size is changed before every call (alternating sizes), long enough for a per-call residue of a
    # frame to exceed the bound many times over
    for i, (k, ratio, a, b) in enumerate([('sincout', 3.0, 64, 32), ('sincin', 3.0, 64, 32), ('sincout', 1.5, 64, 32),
                                          ('sincin', 0.75, 48, 47), ('sincout', 44100 / 48000, 64, 63), ('sincout', 3.0, 128, 127)]):
        if ctx.quick and i >= 4:
            break
        r = rng.fork("c07_alt_%d" % i)
        cfg = async_cfg(r, k, tier)
        cfg.update({'ratio': ratio, 'maxrel': 1.0, 'chunk': a, 'slen': 8, 'L': 8, 'nch': 1})
        if cfg['factor'] < 2:
            cfg['factor'] = 2
        ncalls = 70 if ctx.quick else 400
        sig = "rand:%d" % r.below(9999)
        lines = ["T ty=%s" % cfg['ty'], new_line(cfg)]
        ops = []
        for j in range(ncalls):
            lines.append("SETCHUNK n=%d" % (b if j % 2 == 0 else a)); ops.append({'op': 'setchunk'})
            lines.append("PIB mask=- inlen=next outlen=next sig=%s" % sig); ops.append({'op': 'pib'})
        cases.append(Case("acc_alt_%02d_%s" % (i, k), lines, {'cfg': cfg, 'ops': ops, 'sig': sig}))
    # directed: reset() after 1..7 calls on the synchronous types whose requirement varies from call to call (chunk not a multiple
    # of the block), then a long stream
    for i, (k, rin, rout, chunk, sub) in enumerate([('fftout', 44100, 48000, 1024, 2), ('fftout', 44100, 48000, 240, 1), ('fftin', 48000, 44100, 700, 2),
                                                    ('fftout', 3, 2, 100, 3), ('fftin', 2, 3, 100, 3), ('fftout', 48000, 44100, 300, 1)]):
        if ctx.quick and i >= 3:
            break
        cfg = {'kind': k, 'rin': rin, 'rout': rout, 'chunk': chunk, 'sub': sub, 'nch': 1, 'ty': ['f64', 'f32'][i % 2]}
        sig = "rand:%d" % (77 + i)
        pib = "PIB mask=- inlen=next outlen=next sig=%s" % sig
        lines = ["T ty=%s" % cfg['ty'], new_line(cfg)]
        ops = []
        for before in (2, 4, 7, 1, 3):
            lines += [pib] * before + ["RESET"]
            ops += [{'op': 'pib'}] * before + [{'op': 'reset'}]
        lines += [pib] * 12
        ops += [{'op': 'pib'}] * 12
        cases.append(Case("acc_rst_%02d_%s" % (i, k), lines, {'cfg': cfg, 'ops': ops, 'sig': sig, 'no_model': max(rin, rout) > 1000 and chunk > 500}))
    # directed: long runs of calls with every channel masked out (the bookkeeping must go on exactly as for active channels)
    for i, k in enumerate(['sincout', 'fastout', 'sincin', 'fastin', 'fftout', 'fftin']):
        if ctx.quick and i >= 3:
            break
        r = rng.fork("c07_mute_%d" % i)
        if k in gens.ASYNC:
            cfg = async_cfg(r, k, tier, nch=2)
            cfg.update({'ratio': [48000 / 44100, 44100 / 48000, 1.2, 0.37][i % 4], 'maxrel': 1.0, 'chunk': [256, 480, 16, 100][i % 4]})
            if k.startswith('sinc'):
                cfg.update({'slen': 8, 'L': 8}); cfg['factor'] = max(cfg['factor'], 2)
        else:
            cfg = fft_cfg(r, k, tier, nch=2)
        sig = "rand:%d" % r.below(9999)
        on = "PIB mask=- inlen=next;next outlen=next;next sig=%s" % sig
        off = "PIB mask=00 inlen=abs:0;abs:0 outlen=abs:0;abs:0 sig=%s" % sig
        nmute = 300 if ctx.quick else 1500
        lines = ["T ty=%s" % cfg['ty'], new_line(cfg)] + [on] * 10 + [off] * nmute + [on] * 10
        cases.append(Case("acc_mute_%02d_%s" % (i, k), lines, {'cfg': cfg, 'ops': [{'op': 'pib'}] * (20 + nmute), 'sig': sig, 'no_model': nmute > 400}))
    execute(ctx, cases, res, judge_C07, timeout=600)
    res['dist'].update(collections.Counter(c.meta['cfg']['kind'] for c in cases))
    res['dist']['total_calls'] = sum(len(c.meta['ops']) for c in cases)
    return res


# ================================================================== C06
def judge_C06(c):
    """Linear interpolation of the index ramp: every output value IS the input instant it was evaluated at."""
    out = []
    tr = c.trace
    cfg = c.meta['cfg']
    if tr['new'] != 'ok':
        return [fail(c, -1, "constructor failed: %s" % tr['new'])]
    ty = tr['ty']
    tol = 1e-9 if ty == 'f64' else 2e-3
    prev_tau = None
    trk = gens.RatioTracker(cfg)
    tainted = None
    last_spacing = None
    supplied = 0
    for i, (s, a) in enumerate(zip(tr['steps'], c.meta['ops'])):
        if a['op'] in ('setratio', 'setrel'):
            if s.res == 'unit':
                trk.set_ratio(a['ratio'], a['ramp'])
            continue
        if a['op'] == 'reset':
            trk.reset(); prev_tau = None; tainted = None; supplied = 0
            continue
        env = a.get('envelope', True)
        if not env and tainted is None:
            tainted = base_class(a.get('why', ''))
        if s.res in FATAL:
            out.append(fail(c, i, "fatal outcome: %s" % s.res, tainted))
            break
        if s.res != 'counts':
            continue
        nin, nout = int(s.fields[0]), int(s.fields[1])
        t_old, t_new = 1.0 / trk.ratio, 1.0 / trk.target
        lo, hi = min(t_old, t_new), max(t_old, t_new)
        ramp = trk.ratio != trk.target
        taus = expand_samples(s.outs[0], ty)[:nout]
        supplied += nin
        A = trk.chunk * 0.5 * (trk.ratio + trk.target)
        for j, tau in enumerate(taus):
            if ramp and cfg['kind'] in ('fastin', 'sincin') and j + 1 > A - 1 and tainted is None:
                tainted = 'ramp-overrun'      # frames beyond approximate_nbr_frames keep ramping
            if tau < 1.0:
                prev_tau = None if tau <= 0 else tau       # still inside the zero history
                continue
            scale = tol * max(1.0, abs(tau))
            if tau > supplied - 1 + scale:
                out.append(fail(c, i, "frame %d is evaluated at instant %r but only %d input frames were supplied" % (j, tau, supplied), tainted))
                return out
            if prev_tau is not None and prev_tau >= 1.0:
                d = tau - prev_tau
                if d <= 0:
                    out.append(fail(c, i, "instants not strictly increasing at frame %d: %r after %r" % (j, tau, prev_tau), tainted))
                    return out
                if d < lo - scale or d > hi + scale:
                    out.append(fail(c, i, "spacing %r at frame %d outside [%r, %r] (ratio %r -> %r, ramp=%s)" % (d, j, lo, hi, trk.ratio, trk.target, ramp), tainted))
                    return out
                if ramp and last_spacing is not None and j > 0:
                    if (t_new >= t_old and d < last_spacing - scale) or (t_new <= t_old and d > last_spacing + scale):
                        out.append(fail(c, i, "ramp spacing not monotone at frame %d: %r after %r" % (j, d, last_spacing), tainted))
                        return out
                last_spacing = d
            prev_tau = tau
        trk.processed()
        last_spacing = None if ramp else last_spacing
    return out


def run_C06(ctx):
    rng, tier = ctx.rng, ctx.tier
    res = new_results("FastFixedIn/FastFixedOut with Linear interpolation fed the index ramp x[n]=n (every output value is the input "
                      "instant at which it was evaluated): random in-range ratio changes, ramped and not, between processing calls; "
                      "instants strictly increasing, spacing within [1/old,1/new], monotone during a ramp, equal to 1/new afterwards, "
                      "never beyond the supplied frames; plus the general valid stream on the sinc types against the bit-exact model "
                      "(carried position compared after every call)", ['FastFixedIn', 'FastFixedOut', 'SincFixedIn', 'SincFixedOut'])
    cases = []
    n = 40 if ctx.quick else 500
    ops = ['pib', 'pib', 'pib', 'setratio', 'setrel', 'setratio']
    for i in range(n):
        r = rng.fork("c06_%d" % i)
        k = ['fastin', 'fastout'][i % 2]
        cfg = async_cfg(r, k, tier, deg=3, nch=1, ty='f64')
        cfg['chunk'] = max(cfg['chunk'], 24)
        cfg['maxrel'] = r.choice([1.5, 2.0, 4.0, 10.0])
        c = gens.valid_async_history(r, k, tier, "warp_%04d_%s" % (i, k), nops=8 + r.below(10), cfg=cfg, ops_allowed=ops,
                                     no_mask=True, sig="ramp")
        c.meta['warp'] = True
        cases.append(c)
    sinc = []
    for i in range(48 if ctx.quick else 400):
        r = rng.fork("c06s_%d" % i)
        k = ['sincin', 'sincout', 'sincout', 'fastout'][i % 4]
        cfg = async_cfg(r, k, 'quick', nch=1)
        cfg['chunk'] = min(cfg['chunk'], 24)
        if k.startswith('sinc'):
            cfg['slen'] = cfg['L'] = r.choice([8, 16]); cfg['interp'] = 'default'
        sinc.append(gens.valid_async_history(r, k, tier, "warps_%04d_%s" % (i, k), nops=8 + r.below(8), cfg=cfg,
                                             ops_allowed=['pib', 'setratio', 'setratio', 'setrel'], no_mask=True))

    def judge_setters(c):
        # a non-ramped change must be in force for the next chunk (ratio in use == new), a ramped one leaves the ratio in use
        out = []
        tr = c.trace
        prev = tr['init']
        for i, s in enumerate(tr['steps']):
            if s.res in FATAL:
                break
            if s.op == 'SETRATIO' and s.res == 'unit' and s.s and prev.s:
                x = s.kv['x']
                if s.s[3] != x:
                    out.append(fail(c, i, "set_resample_ratio(%r): target ratio is %r afterwards" % (hexf64(x), hexf64(s.s[3]))))
                if s.kv['ramp'] == '0' and s.s[2] != x:
                    out.append(fail(c, i, "non-ramped set_resample_ratio(%r) is not in force for the next chunk (ratio in use %r)" % (hexf64(x), hexf64(s.s[2]))))
                if s.kv['ramp'] == '1' and s.s[2] != prev.s[2]:
                    out.append(fail(c, i, "ramped set_resample_ratio changed the ratio in use immediately"))
            prev = s
        return out

    def judge_fatal(c):
        # sinc types: the instants are not observable through the samples; what is observable is a window that leaves the
        # supplied frames altogether (failed assert / out-of-range slice)
        for i, (s, a) in enumerate(zip(c.trace['steps'], c.meta['ops'])):
            if s.res in FATAL:
                env = a.get('envelope', True)
                return [fail(c, i, "%s ended with %s: frames were read outside the supplied input%s" %
                             (s.op, s.res, '' if env else ' (outside the proven envelope: %s)' % a.get('why')),
                             None if env else base_class(a.get('why', '')))]
        return []

    def judge(c):
        return (judge_C06(c) if c.meta.get('warp') else []) + (judge_fatal(c) if c.meta.get('fatal_check') else []) + judge_setters(c)

    if getattr(ctx, 'golden', False):
        dr = directed_ramp_cases(ctx.rng, 'warp', True)
        cases += [c for c in dr if c.meta['cfg']['kind'].startswith('fast')]
        for c in dr:
            if c.meta['cfg']['kind'] == 'sincout':
                c.meta['warp'] = False; c.meta['fatal_check'] = True
                cases.append(c)
    execute(ctx, cases + sinc, res, judge, timeout=300)
    res['dist'].update({'ramp_histories': len(cases), 'sinc_histories': len(sinc),
                        'ratio_changes': sum(1 for c in cases for a in c.meta['ops'] if a['op'] in ('setratio', 'setrel'))})
    return res


# ================================================================== C14
def run_C14(ctx):
    rng, tier = ctx.rng, ctx.tier
    res = new_results("impulse alignment on all seven types: a unit impulse at input frame n0 inside a long zero stream; the centroid of "
                      "|output| must lie within max(1,ratio)+1 frames of n0*ratio + output_delay()", ALL_COMPONENTS)
    cases = []
    n = 28 if ctx.quick else 280
    for i in range(n):
        r = rng.fork("c14_%d" % i)
        k = gens.ALL[i % 7]
        if k in gens.ASYNC:
            cfg = async_cfg(r, k, tier, nch=1, ty='f64')
            cfg['ratio'] = r.choice([1.0, 0.5, 2.0, 48000 / 44100, 44100 / 48000, 1.5, 0.75, 3.0])
            cfg['maxrel'] = 1.0
            cfg['chunk'] = r.choice([32, 64, 100])
            if k.startswith('fast'):
                cfg['deg'] = r.choice([0, 1, 2, 3])
            else:
                cfg['itype'] = r.choice([0, 1, 2])
                cfg['factor'] = r.choice([16, 32, 128])
                cfg['slen'] = r.choice([16, 32, 64]); cfg['L'] = cfg['slen']; cfg['interp'] = 'default'
            ratio = cfg['ratio']
        else:
            cfg = fft_cfg(r, k, tier, nch=1, ty='f64')
            cfg['rin'], cfg['rout'] = r.choice([(44100, 48000), (48000, 44100), (2, 3), (3, 2), (1, 1), (16000, 48000)])
            cfg['chunk'] = r.choice([64, 100, 128]); cfg['sub'] = 1
            ratio = cfg['rout'] / cfg['rin']
        n0 = 300 + r.below(200)
        lines = ["T ty=f64", new_line(cfg)]
        for _ in range(int((n0 + 900) / max(1, cfg['chunk'] if k not in ('fastout', 'sincout', 'fftout') else cfg['chunk'] / ratio)) + 6):
            lines.append("PIB mask=- inlen=next outlen=max sig=imp:%d" % n0)
        cases.append(Case("imp_%04d_%s" % (i, k), lines, {'cfg': cfg, 'n0': n0, 'ratio': ratio}))
    # the delay at the ratio in force, not at the constructed one: a non-ramped ratio change before the first frame
    for j, (k, new_ratio) in enumerate([('fastin', 3.0), ('fastout', 4.0), ('fastout', 3.0), ('fastin', 4.0)]):
        if ctx.quick and j >= 2:
            break
        r = rng.fork("c14_set_%d" % j)
        cfg = async_cfg(r, k, tier, nch=1, ty='f64')
        cfg.update({'ratio': 1.0, 'maxrel': 4.0, 'chunk': r.choice([32, 64, 100]), 'deg': r.choice([0, 1, 2, 3])})
        n0 = 300 + r.below(200)
        lines = ["T ty=f64", new_line(cfg), "SETRATIO x=%s ramp=0" % f64hex(new_ratio)]
        for _ in range(int((n0 + 900) / max(1, cfg['chunk'] if k == 'fastin' else cfg['chunk'] / new_ratio)) + 6):
            lines.append("PIB mask=- inlen=next outlen=max sig=imp:%d" % n0)
        cases.append(Case("imp_set_%d_%s" % (j, k), lines, {'cfg': cfg, 'n0': n0, 'ratio': new_ratio}))
    # ... and the delay after a job at another ratio followed by reset(): back to the constructed ratio
    for j, k in enumerate(['fastin', 'fastout']):
        r = rng.fork("c14_rst_%d" % j)
        cfg = async_cfg(r, k, tier, nch=1, ty='f64')
        cfg.update({'ratio': 1.5, 'maxrel': 4.0, 'chunk': r.choice([32, 64]), 'deg': r.choice([0, 1, 2, 3])})
        n0 = 300 + r.below(200)
        warm = "PIB mask=- inlen=next outlen=max sig=zero"
        lines = ["T ty=f64", new_line(cfg), "SETRATIO x=%s ramp=0" % f64hex(4.5), warm, warm, "RESET"]
        for _ in range(int((n0 + 900) / max(1, cfg['chunk'] if k == 'fastin' else cfg['chunk'] / 1.5)) + 6):
            lines.append("PIB mask=- inlen=next outlen=max sig=imp:%d" % n0)
        cases.append(Case("imp_rst_%d_%s" % (j, k), lines, {'cfg': cfg, 'n0': n0, 'ratio': 1.5}))
    # strong decimation (ratio below 1/4) with the same ratio re-applied, non-ramped, before every chunk: the stream must not
    # creep.  A smooth pulse is used (a one-sample impulse can fall between the instants of a decimating polynomial resampler).
    for j, (k, ratio0, chunk) in enumerate([('fastin', 1 / 6.0, 64), ('fastin', 0.2, 50), ('fastout', 1 / 6.0, 16), ('fastin', 0.11, 100)]):
        if ctx.quick and j >= 3:
            break
        r = rng.fork("c14_rep_%d" % j)
        cfg = async_cfg(r, k, tier, nch=1, ty='f64')
        cfg.update({'ratio': ratio0, 'maxrel': 2.0, 'chunk': chunk, 'deg': r.choice([1, 2, 3])})
        n0 = 3000 + r.below(500)
        lines = ["T ty=f64", new_line(cfg)]
        for _ in range(int((n0 + 1500) / max(1, chunk if k == 'fastin' else chunk / ratio0)) + 6):
            lines.append("SETREL x=%s ramp=0" % f64hex(1.0))
            lines.append("PIB mask=- inlen=next outlen=max sig=bump:%d:%d" % (n0, 24))
        cases.append(Case("imp_rep_%d_%s" % (j, k), lines, {'cfg': cfg, 'n0': n0, 'ratio': ratio0, 'refresh': True}))
    if not ctx.quick:
        # very large FFT blocks (implementation only: the delay must still be fft_size_out / 2)
        for j, (k, rin, rout, chunk) in enumerate([('fftinout', 44100, 48000, 16384), ('fftout', 96000, 44100, 8192), ('fftin', 48000, 48010, 9000),
                                                   ('fftinout', 48000, 44100, 10000), ('fftin', 44100, 48000, 9000)]):
            cfg = {'kind': k, 'rin': rin, 'rout': rout, 'chunk': chunk, 'sub': 1, 'nch': 1, 'ty': 'f64'}
            ratio = rout / rin
            n0 = 20000 + 137 * j
            lines = ["T ty=f64", new_line(cfg)]
            for _ in range(int((n0 + 60000) / (chunk if k != 'fftout' else chunk / ratio)) + 4):
                lines.append("PIB mask=- inlen=next outlen=max sig=imp:%d" % n0)
            cases.append(Case("imp_big_%d_%s" % (j, k), lines, {'cfg': cfg, 'n0': n0, 'ratio': ratio, 'no_model': True}))

    def judge(c):
        tr = c.trace
        if tr['new'] != 'ok':
            return [fail(c, -1, "constructor failed: %s" % tr['new'])]
        ys = []
        delay = tr['init'].g[4]
        for s in tr['steps']:
            if s.res == 'unit' and s.op == 'RESET':
                ys = []                 # a new stream starts here
                delay = s.g[4]
                continue
            if s.res == 'unit' and not ys:
                delay = s.g[4]          # output_delay() after a ratio change that precedes the stream
                continue
            if s.res == 'unit' and c.meta.get('refresh'):
                continue                # the ratio in force is set again to the same value between two calls
            if s.res != 'counts':
                return [fail(c, -1, "call failed: %s %s" % (s.res, s.fields))]
            ys.extend(expand_samples(s.outs[0], 'f64')[:int(s.fields[1])])
        w = sum(abs(y) for y in ys)
        if w == 0:
            if c.meta['cfg']['kind'].startswith('fast') and c.meta['ratio'] < 1.0:
                # a polynomial resampler has no anti-aliasing filter: when it decimates, its instants can step over a
                # one-sample impulse without touching it (ratio 1/2, cubic: every instant is an even integer). Not measurable.
                c.meta['unmeasurable'] = True
                return []
            return [fail(c, -1, "the impulse never appeared in the output")]
        # centre of the response: energy centroid (robust for symmetric kernels)
        cen = sum(j * y * y for j, y in enumerate(ys)) / sum(y * y for y in ys)
        ratio, n0 = c.meta['ratio'], c.meta['n0']
        want = n0 * ratio + delay
        tolr = max(1.0, ratio) + 1.0
        if abs(cen - want) > tolr:
            kind = c.meta['cfg']['kind']
            cls = 'sinc-output-delay' if kind in ('sincin', 'sincout') else None
            return [fail(c, -1, "impulse at input frame %d appears centred at output frame %.3f; n*ratio + output_delay() = %.3f (delay %d), tolerance %.2f"
                         % (n0, cen, want, delay, tolr), cls)]
        return []

    execute(ctx, cases, res, judge, timeout=300)
    res['dist'].update(collections.Counter(c.meta['cfg']['kind'] for c in cases))
    return res


# ================================================================== C15
def run_C15(ctx):
    rng, tier = ctx.rng, ctx.tier
    res = new_results("(a) kernel level: for random tables (sinc_len in 8N, window, oversampling factor) and random waveforms — plain, huge "
                      "dynamic range, NaN-poisoned outside the window, every start alignment 0..7 — the AVX, SSE and scalar kernels of the "
                      "crate are evaluated, each compared bit for bit with its Coq model and with each other within a few ulps of the sum of "
                      "absolute products; (b) stream level: the same SincFixedIn/Out history with each kernel injected through "
                      "new_with_interpolator and through the CPU dispatch", ['kernels', 'SincFixedIn', 'SincFixedOut'])
    outdir = ctx.outdir
    os.makedirs(outdir, exist_ok=True)
    ncfg = 6 if ctx.quick else 40
    failures = []
    n_eval = n_corr = 0
    for ci in range(ncfg):
        r = rng.fork("k%d" % ci)
        # stratified: both sample types alternate, and the first four configurations use odd multiples of 8
        # (the lengths on which a kernel unrolled by 16 needs a remainder loop)
        ty = ['f64', 'f32'][ci % 2]
        hexf = f64hex if ty == 'f64' else f32hex
        conv = hexf64 if ty == 'f64' else hexf32
        if ci < 4:
            slen = 8 * r.choice([1, 3, 5, 7, 9, 13])
        else:
            slen = 8 * r.choice([1, 2, 3, 4, 5, 7, 8, 9, 16] if ctx.quick else [1, 2, 3, 5, 7, 8, 9, 15, 16, 17, 32])
        factor = r.choice([1, 2, 4, 16])
        fcut = f32round(r.choice([0.95, 0.8, 0.5]))
        win = r.below(6)
        common = "slen=%d factor=%d fcut=%s window=%d ratio=%s" % (slen, factor, f32hex(fcut), win, f64hex(1.0))
        # 1. the tables of the three interpolators
        tcase = Case("tab_%02d" % ci, ["T ty=%s" % ty] + ["FN f=table interp=%s %s" % (ip, common) for ip in ('scalar', 'sse', 'avx')], {})
        run_cases([tcase], outdir, with_model=False)
        rows = [l.split('v=', 1)[1].strip() for l in open(tcase.impl_path) if l.startswith('ROW ')]
        if len(rows) != 3 * factor:
            failures.append(fail(tcase, -1, "could not read the sinc tables (%d rows)" % len(rows)))
            continue
        tabs = [rows[i * factor:(i + 1) * factor] for i in range(3)]
        if not (tabs[0] == tabs[1] == tabs[2]):
            failures.append(fail(tcase, -1, "the scalar, SSE and AVX interpolators hold different sinc tables for the same parameters"))
            continue
        table = [expand_hex(x) for x in tabs[0]]
        # 2. kernel evaluations
        nk = 12 if ctx.quick else 60
        impl_lines, model_lines, meta = ["T ty=%s" % ty], ["T ty=%s" % ty], []
        kcode = {'scalar': 0, 'sse': 1 if ty == 'f32' else 2, 'avx': 3 if ty == 'f32' else 4}
        for j in range(nk):
            index = r.below(8) if r.chance(0.7) else r.below(40)
            sub = r.below(factor)
            mode = r.below(4)
            if mode == 0:
                core = [r.uniform(-1, 1) for _ in range(slen)]
            elif mode == 1:
                core = [r.loguniform(1e-12, 1e12) * r.choice([-1, 1]) for _ in range(slen)]
            elif mode == 2:
                core = [r.choice([0.0, 1.0, -1.0, 1e-30, 1e30 if ty == 'f64' else 1e20]) for _ in range(slen)]
            else:
                core = [float(i % 5) - 2.0 for i in range(slen)]
            pad_lo = [NAN] * index
            pad_hi = [NAN] * (1 + r.below(9))
            wave = pad_lo + core + pad_hi
            whex = ",".join(hexf(v) for v in wave)
            chex = ",".join(hexf(v) for v in core)
            for ip in ('scalar', 'sse', 'avx'):
                impl_lines.append("FN f=kernel interp=%s %s w=%s index=%d sub=%d" % (ip, common, whex, index, sub))
                model_lines.append("FN f=kernel kern=%d w=%s s=%s" % (kcode[ip], chex, ",".join(table[sub])))
                meta.append((ip, j, index, sub, core))
        base = os.path.join(outdir, "ker_%02d" % ci)
        open(base + '.spec', 'w').write("\n".join(impl_lines) + "\n")
        open(base + '.mhist', 'w').write("\n".join(model_lines) + "\n")
        st = run_impl(base + '.spec', base + '.hist', base + '.impl')
        impl_vals = [l[2:].strip() for l in open(base + '.impl') if l.startswith('V ')]
        n_eval += len(meta)
        kc = Case("ker_%02d" % ci, impl_lines, {'component': 'kernels'})
        kc.spec_path, kc.hist_path = base + '.spec', base + '.mhist'
        if st != 'ok' or len(impl_vals) != len(meta):
            failures.append(fail(kc, -1, "kernel evaluation ended with %s after %d of %d calls (a read outside the window?)" % (st, len(impl_vals), len(meta))))
            continue
        if ctx.with_model:
            run_model(base + '.mhist', base + '.model')
            model_vals = [l[2:].strip() for l in open(base + '.model') if l.startswith('V ')]
            if model_vals != impl_vals:
                bad = next((i for i, (a, b) in enumerate(zip(impl_vals, model_vals)) if a != b), min(len(impl_vals), len(model_vals)))
                res['disagreements'].append({'component': 'kernels', 'case': kc.name, 'spec_path': base + '.spec', 'hist_path': base + '.mhist',
                                             'diff': {'line': bad, 'impl': impl_vals[bad] if bad < len(impl_vals) else '<end>',
                                                      'model': model_vals[bad] if bad < len(model_vals) else '<end>', 'which': str(meta[bad][:4]) if bad < len(meta) else ''}})
            else:
                n_corr += len(meta)
        eps = 2.0 ** -52 if ty == 'f64' else 2.0 ** -23
        for j in range(0, len(meta), 3):
            vals = [conv(impl_vals[j + k]) for k in range(3)]
            ip, jj, index, sub, core = meta[j]
            row = [conv(x) for x in table[sub]]
            sabs = sum(abs(a * b) for a, b in zip(core, row))
            tol = (slen / 8 + 8) * eps * sabs + 5e-324
            if any(v != v for v in vals):
                failures.append(fail(kc, jj, "a kernel returned NaN although the window [index, index+len) is NaN-free (it read outside the window): %s" % vals))
                break
            if max(vals) - min(vals) > tol:
                failures.append(fail(kc, jj, "kernels disagree beyond summation-order rounding: scalar %r sse %r avx %r (tolerance %r, len %d, index %d, sub %d)"
                                     % (vals[0], vals[1], vals[2], tol, slen, index, sub)))
                break
    # 3. streams with each kernel
    cases = []
    for i in range(9 if ctx.quick else 60):
        r = rng.fork("ks%d" % i)
        kind = ['sincin', 'sincout'][i % 2]
        base_cfg = async_cfg(r, kind, 'quick', nch=1)
        base_cfg['slen'] = base_cfg['L'] = 8 * r.choice([1, 2, 3, 5, 7])
        base_cfg['chunk'] = min(base_cfg['chunk'], 32)
        base_cfg['maxrel'] = 1.0
        seedfork = r.fork('ops')
        group = []
        for ip in ('scalar', 'sse', 'avx', 'default'):
            cfg = dict(base_cfg)
            cfg['interp'] = ip
            c = gens.valid_async_history(Rng(seedfork.s), kind, 'quick', "kstream_%03d_%s" % (i, ip), nops=5, cfg=cfg,
                                         ops_allowed=['pib', 'process'], no_mask=True, sig="rand:%d" % (i + 7))
            group.append(c)
        for c in group:
            c.meta['group'] = group
        cases += group

    def judge(c):
        g = c.meta['group']
        if c is not g[0]:
            return []
        out = []
        ty = c.trace['ty']
        tol = 1e-9 if ty == 'f64' else 1e-3
        ref = c.trace
        for o in g[1:]:
            if not getattr(o, 'trace', None):
                o.trace = parse_trace(o.impl_path, o.hist_path)
            if o.meta['cfg']['interp'] == 'default' and ref['new_kv'] and o.trace['new_kv']:
                pass
            for i, (sa, sb) in enumerate(zip(ref['steps'], o.trace['steps'])):
                if (sa.res, sa.fields) != (sb.res, sb.fields):
                    out.append(fail(c, i, "kernel %s: result %s %s differs from the scalar kernel's %s %s" % (o.meta['cfg']['interp'], sb.res, sb.fields, sa.res, sa.fields)))
                    return out
                if sa.res in ('counts', 'vecs'):
                    n = int(sa.fields[1]) if sa.res == 'counts' else None
                    ya = expand_samples(sa.outs[0], ty)[:n]
                    yb = expand_samples(sb.outs[0], ty)[:n]
                    # the dispatched interpolator scales the cut-off for ratio < 1; only compare like with like
                    if o.meta['cfg']['interp'] == 'default' and o.meta['cfg']['ratio'] < 1.0:
                        continue
                    for j, (a, b) in enumerate(zip(ya, yb)):
                        if abs(a - b) > tol * (1 + abs(a)):
                            out.append(fail(c, i, "kernel %s: output %d is %r, scalar kernel gives %r" % (o.meta['cfg']['interp'], j, b, a)))
                            return out
        return out

    execute(ctx, cases, res, judge)
    res['failures'] = failures + res['failures']
    res['n_eval'] += n_eval
    res['n_corr'] += n_corr
    res['n_distinct'] += n_eval
    res['dist'].update({'kernel_evaluations': n_eval, 'tables': ncfg, 'stream_groups': len(cases) // 4})
    return res


# ================================================================== C10
def run_C10(ctx):
    rng, tier = ctx.rng, ctx.tier
    res = new_results("twin histories on all seven types: (A) an arbitrary valid prefix (audio, ratio changes incl. pending ramps, chunk-size "
                      "changes, masked calls, rejected calls), then reset(), then a suffix; (B) a fresh resampler and the same suffix; getters, "
                      "hook-visible state, internal buffers, counts and outputs of the suffix must be bit-identical", ALL_COMPONENTS)
    cases = []
    n = 42 if ctx.quick else 560
    rl = getattr(ctx, 'replay_lines', None)
    if rl:
        # a stored history "... RESET suffix": the twin (fresh resampler + suffix) is rebuilt from it
        n = 0
        rl = [l for l in rl if not l.startswith('#')]
        kv0 = parse_kv(next(l for l in rl if l.startswith('NEW')))
        k_last = max(j for j, l in enumerate(rl) if l == 'RESET')
        suffix = rl[k_last + 1:]
        cfg = {'kind': kv0.get('kind'), 'nch': int(kv0.get('nch', 1))}
        nm = kv0.get('interp') == 'plain'
        ca = Case("replay_a", rl, {'cfg': cfg, 'nsuffix': len(suffix), 'kind': cfg['kind'], 'no_model': nm})
        cb = Case("replay_b", rl[:2] + suffix, {'cfg': cfg, 'is_twin': True, 'no_model': nm})
        ca.meta['twin'] = cb
        cases += [ca, cb]
    for i in range(n):
        r = rng.fork("c10_%d" % i)
        k = gens.ALL[i % 7]
        pre = gens.valid_history(r.fork('pre'), k, 'quick', "rst_%04d_%s_a" % (i, k), allow_out_of_envelope=False) if k in gens.ASYNC else \
            gens.valid_history(r.fork('pre'), k, 'quick', "rst_%04d_%s_a" % (i, k))
        cfg = pre.meta['cfg']
        if k in gens.ASYNC:
            cfg['chunk'] = cfg['chunk']
        # a rejected call and a masked call in the prefix, sometimes
        extra = []
        if r.chance(0.5):
            extra.append("PIB mask=- inlen=%s outlen=%s sig=zero" % (";".join(['abs:0'] * cfg['nch']), ";".join(['abs:0'] * cfg['nch'])))
        if r.chance(0.5) and cfg['nch'] > 1:
            mk = "1" + "0" * (cfg['nch'] - 1)
            extra.append("PIB mask=%s inlen=%s outlen=%s sig=rand:5" % (mk, ";".join(['next'] + ['abs:0'] * (cfg['nch'] - 1)), ";".join(['max'] + ['abs:0'] * (cfg['nch'] - 1))))
        suf_case = gens.valid_history(r.fork('suf'), k, 'quick', "suf", cfg=dict(cfg), nops=3 + r.below(5), no_mask=True,
                                      **({'allow_out_of_envelope': False} if k in gens.ASYNC else {}))
        suffix = suf_case.spec[2:]
        a = pre.spec + extra + ["RESET"] + suffix
        b = pre.spec[:2] + suffix
        ca = Case("rst_%04d_%s_a" % (i, k), a, {'cfg': cfg, 'nsuffix': len(suffix), 'kind': k})
        cb = Case("rst_%04d_%s_b" % (i, k), b, {'cfg': cfg, 'is_twin': True})
        ca.meta['twin'] = cb
        cases += [ca, cb]

    # directed: configurations where chunk/ratio is an integer (or within an ulp of one), the only place where two
    # formulas for the same request -- the constructor's and a recomputation -- can round differently
    INTQ = [(0.7, 1400), (1.05, 441), (0.35, 700), (1.4, 1400), (2.1, 441), (0.525, 441), (2.8, 1400), (4.2, 441), (0.7, 700), (1.05, 882)]
    for i, (ratio, chunk) in enumerate([] if rl else (INTQ if not ctx.quick else INTQ[:6])):
        for k in (('fastout', 'sincout') if not ctx.quick else (('fastout',) if i % 2 else ('sincout',))):
            r = rng.fork("c10_intq_%d_%s" % (i, k))
            cfg = async_cfg(r, k, 'quick')
            cfg.update({'ratio': ratio, 'maxrel': r.choice([1.0, 2.0]), 'chunk': chunk, 'nch': 1})
            if k == 'sincout':
                cfg.update({'slen': 8, 'L': 8}); cfg['factor'] = max(cfg['factor'], 2)
            sig = "rand:%d" % r.below(9999)
            call = "PIB mask=- inlen=next outlen=next sig=%s" % sig
            head = ["T ty=%s" % cfg['ty'], new_line(cfg)]
            suffix = [call, call]
            pre_n = r.choice([0, 1, 2])
            ca = Case("rst_intq_%02d_%s_a" % (i, k), head + [call] * pre_n + ["RESET"] + suffix, {'cfg': cfg, 'nsuffix': len(suffix), 'kind': k})
            cb = Case("rst_intq_%02d_%s_b" % (i, k), head + suffix, {'cfg': cfg, 'is_twin': True})
            ca.meta['twin'] = cb
            cases += [ca, cb]

    # directed: new_with_interpolator with a hand-written implementation of the public SincInterpolator trait whose number of taps
    # is odd or not a multiple of 8 (the bundled kernels never are): implementation twins only, the model has no such kernel
    for i, (k, L) in enumerate([('sincin', 9), ('sincout', 15), ('sincin', 33), ('sincout', 7), ('sincin', 12), ('sincout', 21)]):
        if rl or (ctx.quick and i >= 4):
            break
        r = rng.fork("c10_plain_%d" % i)
        cfg = async_cfg(r, k, 'quick')
        cfg.update({'ratio': r.choice([48000 / 44100, 0.75, 1.5]), 'maxrel': r.choice([1.0, 2.0]), 'chunk': r.choice([32, 100]), 'nch': r.choice([1, 2]),
                    'slen': L, 'L': L, 'interp': 'plain', 'factor': r.choice([4, 16])})
        sig = "rand:%d" % r.below(9999)
        call = "PIB mask=- inlen=%s outlen=%s sig=%s" % (";".join(['next'] * cfg['nch']), ";".join(['next'] * cfg['nch']), sig)
        head = ["T ty=%s" % cfg['ty'], new_line(cfg)]
        suffix = [call, call, call]
        ca = Case("rst_plain_%02d_%s_a" % (i, k), head + [call] * (i % 3) + ["RESET"] + suffix, {'cfg': cfg, 'nsuffix': len(suffix), 'kind': k, 'no_model': True})
        cb = Case("rst_plain_%02d_%s_b" % (i, k), head + suffix, {'cfg': cfg, 'is_twin': True, 'no_model': True})
        ca.meta['twin'] = cb
        cases += [ca, cb]

    def judge(c):
        if c.meta.get('is_twin'):
            return []
        b = c.meta['twin']
        if not getattr(b, 'trace', None):
            b.trace = parse_trace(b.impl_path, b.hist_path)
        ta, tb = c.trace, b.trace
        if ta['new'] != 'ok':
            return []
        ns = c.meta['nsuffix']
        sa_all = ta['steps']
        if any(s.res in FATAL for s in sa_all[:-ns] if True):
            return []      # the prefix left the envelope (recorded finding classes); nothing to compare
        # the reset step itself
        k = len(sa_all) - ns - 1
        out = []
        if k >= 0 and state_sig(sa_all[k]) != state_sig(tb['init']):
            out.append(fail(c, k, "after reset() the getters / control state / internal buffers differ from a freshly constructed resampler"))
            return out
        for j, (sa, sb) in enumerate(zip(sa_all[-ns:], tb['steps'])):
            if (sa.res, sa.fields, sa.outs) != (sb.res, sb.fields, sb.outs) or state_sig(sa) != state_sig(sb):
                out.append(fail(c, k + 1 + j, "call %d after reset() differs from the same call on a fresh resampler" % j))
                break
        return out

    execute(ctx, cases, res, judge, timeout=300)
    res['dist'].update(collections.Counter(c.meta.get('kind', 'twin') for c in cases))
    return res


# ================================================================== C11
def run_C11(ctx):
    rng, tier = ctx.rng, ctx.tier
    res = new_results("for all seven types: an n-channel resampler (n in 1..8) with a constant mask against (i) the same history unmasked and "
                      "(ii) n single-channel resamplers fed channel c's signal; active channels' outputs and all counts must be bit-identical, "
                      "masked channels may be passed as empty slices and their sentinel-filled output buffers must come back untouched", ALL_COMPONENTS)
    cases = []
    n = 28 if ctx.quick else 350
    # directed: several active channels while a ramped ratio change is in progress, Nearest and Linear, both polynomial types
    DIRECTED = [('fastout', 4, '111'), ('fastin', 4, '101'), ('fastout', 3, '011'), ('fastout', 4, '1101'), ('fastin', 0, '11'), ('fastout', 1, '110')]
    ndir = 3 if ctx.quick else len(DIRECTED)
    for i in range(n + ndir):
        r = rng.fork("c11_%d" % i)
        k = gens.ALL[i % 7]
        nch = 1 + r.below(8 if not ctx.quick else 5)
        if i >= n:
            k, ddeg, dmask = DIRECTED[i - n]
            nch = len(dmask)
        if k in gens.ASYNC:
            cfg = async_cfg(r, k, 'quick', nch=nch)
            cfg['chunk'] = max(4, min(cfg['chunk'], 48))
            if k.startswith('sinc'):
                cfg['slen'] = cfg['L'] = r.choice([8, 16]); cfg['interp'] = 'default'
        else:
            cfg = fft_cfg(r, k, 'quick', nch=nch)
        mask = "".join(r.choice("01") for _ in range(nch))
        if r.chance(0.15):
            mask = "0" * nch
        if i >= n:
            mask = dmask
            cfg.update({'ratio': r.choice([1.0, 48000 / 44100]), 'maxrel': 2.0, 'chunk': 64})
        seed = r.below(10 ** 6)
        nops = 3 + r.below(5)
        head = ["T ty=%s" % cfg['ty']]

        kinds_seq = [r.below(6) for _ in range(nops)]
        if k in ('sincin', 'sincout'):
            # chunk-size changes in mid-stream (one scalar of control state shared by all channels)
            nops += 3
            kinds_seq = [r.below(8) for _ in range(nops)]
        chunk_seq = [1 + r.below(max(1, cfg.get('chunk', 1))) for _ in range(nops)]
        pre = [[] for _ in range(nops)]
        rel_seq = [1.0] * nops
        if k in gens.ASYNC and (i % 2 == 1 or i >= n):
            # ratio changes in mid-stream, ramped and not (the ramp state is shared by all channels; each channel must still be
            # what a single-channel resampler with the same history produces); every polynomial degree in turn
            cfg['maxrel'] = max(cfg['maxrel'], 1.25)
            if k.startswith('fast'):
                cfg['deg'] = (i // 7) % 5
            nops += 3
            kinds_seq = [(r.below(8) if k.startswith('sinc') else r.below(6)) if r.chance(0.65) else 8 + r.below(2) for _ in range(nops)]
            if 8 not in kinds_seq[:nops - 1]:
                kinds_seq[0] = 8
            if i >= n:
                cfg['deg'] = ddeg
                nops = 8
                kinds_seq = [0, 8, 0, 0, 8, 0, 4, 0]
            chunk_seq = [1 + r.below(max(1, cfg.get('chunk', 1))) for _ in range(nops)]
            rel_seq = [r.choice([1.02, 0.97, 1.2, 0.85, 1.0, 1.25, 0.8]) for _ in range(nops)]
            if i >= n:
                rel_seq = [1.0, 1.02, 1.0, 1.0, 0.99, 1.0, 1.0, 1.0]
            pre = [[] for _ in range(nops)]
            trk = RatioTracker(cfg)
            for j in range(nops):
                t = kinds_seq[j]
                if t in (8, 9):
                    trk.set_ratio(min(max(trk.orig * rel_seq[j], trk.lo), trk.hi), t == 8)
                elif t in (6, 7):
                    trk.chunk = chunk_seq[j]
                else:
                    ok, _ = trk.envelope()
                    if i >= n:
                        ok = True       # directed: ramps of 1-2 % on chunks of 64 frames (far from the recorded ramp defects)
                    if not ok:
                        pre[j].append("SETRATIO x=%s ramp=0" % f64hex(trk.target)); trk.set_ratio(trk.target, False)
                        ok, _ = trk.envelope()
                        if not ok:
                            pre[j] = ["RESET"]; trk.reset()
                    trk.processed()

        def body(nchan, mk, sig, empty_masked):
            lines = []
            rr = Rng(seed)
            for j in range(nops):
                act = [(mk is None or mk[c] == '1') for c in range(nchan)]
                il = ";".join('next' if act[c] else ('abs:0' if empty_masked else 'next') for c in range(nchan))
                ol = ";".join('max' if act[c] else rr.choice(['abs:0', 'abs:5']) for c in range(nchan))
                t = kinds_seq[j]
                lines.extend(pre[j])
                if t in (8, 9):
                    lines.append("SETREL x=%s ramp=%d" % (f64hex(rel_seq[j]), int(t == 8)))
                elif t < 4:
                    lines.append("PIB mask=%s inlen=%s outlen=%s sig=%s" % (mk or '-', il, ol, sig))
                elif t == 4:
                    lines.append("PROCESS mask=%s inlen=%s sig=%s" % (mk or '-', il, sig))
                elif t == 5:
                    # a short last chunk through process_partial: active channels hold fewer frames than needed, masked ones may
                    # be passed empty
                    pl = ";".join('c1:next-3' if act[c] else ('abs:0' if empty_masked else 'c1:next-3') for c in range(nchan))
                    lines.append("PARTIAL mask=%s inlen=%s sig=%s" % (mk or '-', pl, sig))
                else:
                    lines.append("SETCHUNK n=%d" % chunk_seq[j])
            return lines
        sig = "rand:%d" % seed
        a = Case("ch_%04d_%s_masked" % (i, k), head + [new_line(cfg)] + body(nch, mask, sig, True), {'cfg': cfg, 'mask': mask, 'kind': k if i < n else k + '/ramp'})
        b = Case("ch_%04d_%s_full" % (i, k), head + [new_line(cfg)] + body(nch, None, sig, False), {'cfg': cfg, 'is_twin': True})
        singles = []
        for c in range(nch):
            c1 = dict(cfg); c1['nch'] = 1
            # channel c of the n-channel run sees signal channel c: the generator keys on the channel index, so use chan=<c>
            singles.append(Case("ch_%04d_%s_single%d" % (i, k, c), head + [new_line(c1)] + body(1, None, sig + " chan=%d" % c, False),
                                {'cfg': c1, 'is_twin': True}))
        a.meta['full'] = b
        a.meta['singles'] = singles
        cases += [a, b] + singles

    def judge(c):
        if c.meta.get('is_twin'):
            return []
        out = []
        tr = c.trace
        if tr['new'] != 'ok':
            return [fail(c, -1, "constructor failed: %s" % tr['new'])]
        mask = c.meta['mask']
        full = c.meta['full']
        for o in [full] + c.meta['singles']:
            if not getattr(o, 'trace', None):
                o.trace = parse_trace(o.impl_path, o.hist_path)
        ty = tr['ty']
        sent = SENTINEL64 if ty == 'f64' else SENTINEL32
        for i, (sa, sb) in enumerate(zip(tr['steps'], full.trace['steps'])):
            if sa.res in FATAL or sb.res in FATAL:
                out.append(fail(c, i, "fatal outcome (%s masked / %s unmasked)" % (sa.res, sb.res)))
                break
            if (sa.res, sa.fields) != (sb.res, sb.fields):
                out.append(fail(c, i, "with the mask the call returned %s %s, without it %s %s" % (sa.res, sa.fields, sb.res, sb.fields)))
                break
            if sa.res not in ('counts', 'vecs'):
                continue
            nout = int(sa.fields[1]) if sa.res == 'counts' else None
            for ch in range(len(mask)):
                va = expand_hex(sa.outs[ch])
                if mask[ch] == '1':
                    vb = expand_hex(sb.outs[ch])
                    if va[:nout] != vb[:nout]:
                        out.append(fail(c, i, "active channel %d differs between the masked and the unmasked run" % ch))
                        return out
                    s1 = c.meta['singles'][ch].trace['steps']
                    if i < len(s1) and s1[i].res == sa.res:
                        v1 = expand_hex(s1[i].outs[0])
                        if (sa.res, sa.fields) != (s1[i].res, s1[i].fields) or va[:nout] != v1[:nout]:
                            out.append(fail(c, i, "channel %d of the %d-channel resampler differs from a single-channel resampler fed the same signal" % (ch, len(mask))))
                            return out
                else:
                    if sa.res == 'counts' and any(v != sent for v in va):
                        out.append(fail(c, i, "masked channel %d: its output buffer was written" % ch))
                        return out
                    if sa.res == 'vecs' and va:
                        out.append(fail(c, i, "masked channel %d: process() returned a non-empty vector" % ch))
                        return out
            if sa.g != sb.g:
                out.append(fail(c, i, "getters differ between the masked and the unmasked run"))
                break
        return out

    execute(ctx, cases, res, judge, timeout=300)
    res['dist'].update(collections.Counter(c.meta.get('kind', 'twin') for c in cases))
    return res


# ================================================================== C09
HARD_FFT_PAIRS = [(96, 83), (83, 96), (50, 107), (149, 100), (167, 64), (64, 173), (179, 120), (120, 166), (249, 200), (107, 83), (83, 149)]
COUNTED_OPS = ('PIB', 'SETRATIO', 'SETREL', 'SETCHUNK', 'RESET')


PINNED_HASHES = {'windows_rs': 'e55e5fc09b4710ef3e62fea2b571dedf', 'sinc_rs': '836f229828bb0600c659cb0ef072f0bb',
                 'interpolation_rs': '4d7e253a90c7263f50b19e37a69a79fe', 'fft_core': 'b42bed0dd611432617a6cd35a406882c'}


def gen_pinned(rep, names):
    got = rep.get('pinned_regions', {})
    bad = [n for n in names if got.get(n) != PINNED_HASHES[n]]
    if bad:
        return False, "hand-modelled source regions changed: " + ", ".join("%s (%s, pinned %s)" % (n, got.get(n), PINNED_HASHES[n]) for n in bad)
    return True, "source regions unchanged: " + ", ".join(names)


def gen_no_alloc(rep):
    a = rep.get('alloc_constructs', None)
    if a is None:
        return False, "no allocation summary was generated"
    if a:
        return False, "allocation-capable constructs inside the real-time call tree: " + "; ".join("%s:%s:%d %s" % (x['file'], x['fn'], x['line'], x['text']) for x in a[:6])
    return True, "no allocation-capable construct (vec!, Vec::new, collect, clone, push, resize, Box::new, format!, realfft process without scratch ...) in %s" % "the monitored functions"


def run_C09(ctx):
    rng, tier = ctx.rng, ctx.tier
    res = new_results("every process_into_buffer / setter / reset / getter call of every history on all seven types x {f32,f64} is bracketed by a "
                      "counting #[global_allocator] (alloc + realloc + dealloc events of the calling thread): the count must be 0; incl. first call, "
                      "calls after ratio / chunk-size changes and reset, masked and rejected calls, FFT lengths planned with Rader/Bluestein", ALL_COMPONENTS)
    cases = []
    n = 56 if ctx.quick else 700
    allowed = ['pib'] * 5 + ['setratio', 'setrel', 'setchunk', 'reset']
    rl = getattr(ctx, 'replay_lines', None)
    if rl:
        n = 0
        spec = [l.replace(' allocs=1', '') for l in rl]
        kind = parse_kv(next(l for l in spec if l.startswith('NEW'))).get('kind')
        cases += [Case("replay", spec, {'cfg': {'kind': kind}, 'is_twin': True}),
                  Case("replay_count", [(l + " allocs=1") if l.split(' ')[0] in COUNTED_OPS else l for l in spec],
                       {'cfg': {'kind': kind}, 'no_model': True, 'kind': kind})]
    for i in range(n):
        r = rng.fork("c09_%d" % i)
        k = gens.ALL[i % 7]
        ty = ['f64', 'f32'][(i // 7) % 2]
        if k in gens.ASYNC:
            cfg = async_cfg(r, k, 'quick', ty=ty)
        else:
            cfg = fft_cfg(r, k, 'quick', ty=ty)
            if r.chance(0.5):
                cfg['rin'], cfg['rout'] = r.choice(HARD_FFT_PAIRS)
                cfg['chunk'] = min(cfg['chunk'], 300)
        h = gens.valid_history(r.fork('h'), k, 'quick', "na_%04d_%s" % (i, k), cfg=cfg, ops_allowed=allowed, allow_out_of_envelope=False)
        spec = list(h.spec)
        if r.chance(0.4):
            # a rejected call: still no allocation
            spec.insert(2 + r.below(len(spec) - 1), "PIB mask=- inlen=%s outlen=%s sig=zero" % (";".join(['abs:0'] * cfg['nch']), ";".join(['max'] * cfg['nch'])))
        plain = Case("na_%04d_%s" % (i, k), spec, {'cfg': cfg, 'is_twin': True})
        counted = Case("na_%04d_%s_count" % (i, k), [(l + " allocs=1") if l.split(' ')[0] in COUNTED_OPS else l for l in spec],
                       {'cfg': cfg, 'no_model': True, 'kind': k + '/' + ty})
        cases += [plain, counted]

    def judge(c):
        if c.meta.get('is_twin'):
            return []
        out = []
        tr = c.trace
        if tr['new'] != 'ok':
            return []
        for i, s in enumerate(tr['steps']):
            if s.res in FATAL:
                out.append(fail(c, i, "fatal outcome %s inside the envelope" % s.res))
                break
            if s.op in COUNTED_OPS:
                if s.allocs is None:
                    out.append(fail(c, i, "no allocation count was reported for %s" % s.op))
                    break
                if s.allocs != 0:
                    out.append(fail(c, i, "%s performed %d heap alloc/realloc/dealloc events" % (s.op, s.allocs)))
                    break
                if s.galloc not in (0, None):
                    out.append(fail(c, i, "the getters performed %d heap events" % s.galloc))
                    break
        return out

    execute(ctx, cases, res, judge, timeout=300)
    res['dist'].update(collections.Counter(c.meta.get('kind', 'twin') for c in cases))
    return res


# ================================================================== C17
EPS32 = 2.0 ** -23
C17_TOL = 32.0          # multiples of f32 epsilon times the peak (measured maximum on the repaired tree: 7; before the make_sincs fix: 250)


def run_C17(ctx):
    rng, tier = ctx.rng, ctx.tier
    res = new_results("twin histories on all seven types: the same configuration and history run with T=f64 and T=f32; result kinds, returned "
                      "frame counts, all six getters after every call must be identical; every f32 output sample must lie within %g * 2^-23 * peak "
                      "of the f64 output (peak = max(1, max |f64 output|)) (signals: uniform noise or sines of amplitude 1)" % C17_TOL, ALL_COMPONENTS)
    cases = []
    n = 42 if ctx.quick else 560
    rl = getattr(ctx, 'replay_lines', None)
    if rl:
        n = 0
        kind = parse_kv(next(l for l in rl if l.startswith('NEW'))).get('kind')
        a = Case("replay_64", ["T ty=f64"] + [l for l in rl if not l.startswith('T ')], {'cfg': {'kind': kind}, 'kind': kind})
        b = Case("replay_32", ["T ty=f32"] + [l for l in rl if not l.startswith('T ')], {'cfg': {'kind': kind}, 'is_twin': True})
        a.meta['twin'] = b
        cases += [a, b]
    for i in range(n):
        r = rng.fork("c17_%d" % i)
        k = gens.ALL[i % 7]
        big = (i // 7) % 3 == 2
        if k in gens.ASYNC:
            cfg = async_cfg(r, k, 'thorough' if (big and k.startswith('fast')) else 'quick', ty='f64')
            if big and k.startswith('fast'):
                cfg['chunk'] = r.choice([512, 1000, 1024, 2048, 4096])
        else:
            cfg = fft_cfg(r, k, 'quick', ty='f64')
        sig = r.choice(["rand:%d" % r.below(1 << 30), "sine:%s:%s" % (f64hex(r.uniform(0.001, 0.45)), f64hex(r.uniform(0, 6.28)))])
        h = gens.valid_history(r.fork('h'), k, 'quick', "ty_%04d_%s_64" % (i, k), cfg=cfg, sig=sig, allow_out_of_envelope=False,
                               ops_allowed=['pib'] * 5 + ['process', 'setratio', 'setrel', 'setchunk', 'reset'])
        a = Case("ty_%04d_%s_64" % (i, k), h.spec, {'cfg': cfg, 'kind': k})
        cfg32 = dict(cfg); cfg32['ty'] = 'f32'
        b = Case("ty_%04d_%s_32" % (i, k), ["T ty=f32"] + h.spec[1:], {'cfg': cfg32, 'is_twin': True})
        a.meta['twin'] = b
        cases += [a, b]
    # large chunks with heavy oversampling (implementation only: too costly for the extracted model): position-
    # dependent precision loss in the sample type shows only here
    for i in range(0 if getattr(ctx, 'replay_lines', None) else (8 if ctx.quick else 60)):
        r = rng.fork("c17big_%d" % i)
        k = ['sincin', 'sincout'][i % 2]
        cfg = async_cfg(r, k, 'quick', ty='f64', nch=1)
        # every other pair: a long filter with an oversampling factor that is not a power of two (the table positions x / factor
        # are then not exact in f32: precision loss in the table construction shows here and grows with the length)
        slen, factor = [(64, r.choice([128, 256, 512])), (256, 160), (64, r.choice([128, 256, 512])), (512, 100),
                        (64, r.choice([128, 256, 512])), (1024, 147), (64, r.choice([128, 256, 512])), (256, 1000)][i % 8]
        cfg.update(chunk=r.choice([1024, 2048, 4096]), factor=factor, itype=r.choice([0, 1, 2]) if slen == 64 else [0, 3, 1, 2][(i // 2) % 4], slen=slen, L=slen,
                   interp='default', maxrel=1.0, ratio=pick_ratio(r, 0.5, 2.0))
        sig = "sine:%s:%s" % (f64hex(r.uniform(0.05, 0.2)), f64hex(r.uniform(0, 6.28)))
        lines = ["T ty=f64", new_line(cfg)] + ["PIB mask=- inlen=next outlen=next sig=%s" % sig for _ in range(3)]
        a = Case("tybig_%03d_%s_64" % (i, k), lines, {'cfg': cfg, 'kind': k + '/big', 'no_model': True})
        cfg32 = dict(cfg); cfg32['ty'] = 'f32'
        b = Case("tybig_%03d_%s_32" % (i, k), ["T ty=f32"] + lines[1:], {'cfg': cfg32, 'is_twin': True, 'no_model': True})
        a.meta['twin'] = b
        cases += [a, b]
    worst = [0.0]

    def judge(c):
        if c.meta.get('is_twin'):
            return []
        b = c.meta['twin']
        if not getattr(b, 'trace', None):
            b.trace = parse_trace(b.impl_path, b.hist_path)
        ta, tb = c.trace, b.trace
        out = []
        if ta['new'] != tb['new']:
            return [fail(c, -1, "constructor result differs: f64 %s, f32 %s" % (ta['new'], tb['new']))]
        if ta['new'] != 'ok':
            return []
        if ta['init'].g != tb['init'].g:
            return [fail(c, -1, "getters of the fresh f64 and f32 resamplers differ: %s vs %s" % (ta['init'].g, tb['init'].g))]
        for i, (sa, sb) in enumerate(zip(ta['steps'], tb['steps'])):
            if sa.res in FATAL or sb.res in FATAL:
                out.append(fail(c, i, "fatal outcome (%s f64 / %s f32)" % (sa.res, sb.res)))
                break
            if (sa.res, sa.fields) != (sb.res, sb.fields):
                out.append(fail(c, i, "call returned %s %s for f64 and %s %s for f32" % (sa.res, sa.fields, sb.res, sb.fields)))
                break
            if sa.g != sb.g:
                out.append(fail(c, i, "getters differ after the call: f64 %s, f32 %s" % (sa.g, sb.g)))
                break
            if sa.res in ('counts', 'vecs'):
                for ch in range(len(sa.outs)):
                    ya = expand_samples(sa.outs[ch], 'f64')
                    yb = expand_samples(sb.outs[ch], 'f32')
                    if sa.res == 'counts':
                        nout = int(sa.fields[1])
                        ya, yb = ya[:nout], yb[:nout]
                    if len(ya) != len(yb):
                        out.append(fail(c, i, "channel %d: %d f64 frames, %d f32 frames" % (ch, len(ya), len(yb))))
                        return out
                    if not ya:
                        continue
                    peak = max(1.0, max(abs(v) for v in ya))
                    d = max(abs(u - v) for u, v in zip(ya, yb)) / (EPS32 * peak)
                    worst[0] = max(worst[0], d)
                    if not d <= C17_TOL:
                        out.append(fail(c, i, "channel %d: f32 output deviates from the f64 output by %.1f * eps32 * peak (allowed %g)" % (ch, d, C17_TOL)))
                        return out
        if len(ta['steps']) != len(tb['steps']):
            out.append(fail(c, min(len(ta['steps']), len(tb['steps'])), "the f64 and f32 runs executed different numbers of calls"))
        return out

    execute(ctx, cases, res, judge, timeout=300)
    res['dist'].update(collections.Counter(c.meta.get('kind', 'twin') for c in cases))
    res['dist']['worst_deviation_eps32_x10'] = int(worst[0] * 10)
    return res


# ================================================================== C18
def gen_no_shared(rep):
    sh = rep.get('shared_items', None)
    if sh is None:
        return False, "no shared-storage summary was generated"
    allowed = [x for x in sh if x['file'].startswith('sinc_interpolator/') and x['text'].startswith('static FEATURES: &[CpuFeature] = &[')]
    extra = [x for x in sh if x not in allowed]
    if extra:
        return False, "items with static / thread-local / interior-mutable storage in src: " + "; ".join("%s:%d %s" % (x['file'], x['line'], x['text'][:60]) for x in extra[:6])
    return True, "the only statics in src are the immutable feature-name tables (%d items)" % len(sh)


def warm_variants(r, cfg):
    """constructor lines of *other* resamplers that differ from cfg in something a cache key might omit"""
    out = []
    for _ in range(1 + r.below(3)):
        c = dict(cfg)
        k = cfg['kind']
        if k in gens.ASYNC:
            c['ratio'] = pick_ratio(r)
            if k.startswith('sinc') and r.chance(0.5):
                c['fcut'] = f32round(r.choice([0.5, 0.7, 0.9, 0.97]))
            if k.startswith('sinc') and r.chance(0.3):
                c['window'] = r.below(6)
            if k.startswith('fast') and r.chance(0.5):
                c['deg'] = r.below(5)
        else:
            if r.chance(0.7):
                # same FFT lengths where possible (rate pair scaled or swapped), different cutoff
                c['rin'], c['rout'] = cfg['rout'], cfg['rin']
            else:
                c['rin'], c['rout'] = r.choice(gens.RATE_PAIRS[:8])
        out.append("WARM" + new_line(c)[3:])
    if cfg['kind'] in gens.ASYNC and r.chance(0.6):
        # the last resampler built before the one under test is a near miss: everything equal except a ratio a fraction of a
        # ppm away, or a cutoff one f32 ulp away (what an approximate cache key would confuse)
        c = dict(cfg)
        if cfg['kind'].startswith('sinc') and r.chance(0.3) and cfg.get('fcut'):
            c['fcut'] = f32round(cfg['fcut'] * (1 + r.choice([-1, 1]) * 2.0 ** -23))
        elif cfg['kind'].startswith('sinc') and cfg.get('factor', 1) % 2 == 0 and r.chance(0.5):
            # the same table size split differently: twice the length, half the oversampling factor
            c['slen'] = c['L'] = 2 * cfg['L']; c['factor'] = cfg['factor'] // 2
        else:
            c['ratio'] = cfg['ratio'] * (1 + r.choice([1e-7, -1e-7, 3e-8, -2e-7]))
        out.append("WARM" + new_line(c)[3:])
    return out


def run_C18(ctx):
    rng, tier = ctx.rng, ctx.tier
    res = new_results("for all seven types: the same history run (i) alone on the main thread, (ii) by 2..16 instances on 2..16 concurrent threads, the odd "
                      "ones handing the resampler to a freshly spawned thread for every single call, the odd (or even) ones building and using other "
                      "resamplers first, (iii) alone after other resamplers with nearby parameters were built and used on the same thread; all "
                      "traces (results, counts, outputs, getters, hook-visible state, internal buffers) must be bit-identical", ALL_COMPONENTS)
    cases = []
    n = 28 if ctx.quick else 350

    def group(name, spec, warm, cfg, nthreads, side):
        base = Case(name + "_alone", spec, {'cfg': cfg, 'kind': cfg['kind']})
        par_spec = [spec[0]] + [w + " only=%s" % side for w in warm] + spec[1:]
        par = Case(name + "_threads", par_spec, {'cfg': cfg, 'is_twin': True, 'threads': nthreads, 'migrate': True, 'no_model': True})
        seq = Case(name + "_warm", [spec[0]] + warm + spec[1:], {'cfg': cfg, 'is_twin': True, 'no_model': True})
        mig = Case(name + "_migrate", spec, {'cfg': cfg, 'is_twin': True, 'migrate': True, 'no_model': True})
        base.meta['twins'] = [('%d concurrent threads' % nthreads, par), ('after other resamplers were built on the same thread', seq),
                              ('moved to another thread for every call', mig)]
        return [base, par, seq, mig]
    rl = getattr(ctx, 'replay_lines', None)
    if rl:
        n = 0
        kind = parse_kv(next(l for l in rl if l.startswith('NEW'))).get('kind')
        warm = [" ".join(t for t in l.split(' ') if not t.startswith('only=')) for l in rl if l.startswith('WARM')]
        cases += group("replay", [l for l in rl if not l.startswith('WARM')], warm, {'kind': kind}, 8, 'odd')
    for i in range(n):
        r = rng.fork("c18_%d" % i)
        k = gens.ALL[i % 7]
        if k in gens.ASYNC:
            cfg = async_cfg(r, k, 'quick')
            if k.startswith('sinc') and r.chance(0.7):
                cfg['interp'] = 'default'
        else:
            cfg = fft_cfg(r, k, 'quick')
        # a quarter of the groups stream values in the subnormal range of the sample type (a floating-point mode left behind by
        # another instance on the thread - flush-to-zero, a rounding mode - shows there and nowhere else)
        if i % 4 == 1:
            cfg['ty'] = ['f32', 'f64'][(i // 4) % 2]
        h = gens.valid_history(r.fork('h'), k, 'quick', "th_%04d_%s" % (i, k), cfg=cfg, allow_out_of_envelope=False,
                               sig=("tiny:%d" % r.below(99999)) if i % 4 == 1 else None)
        warm = warm_variants(r.fork('w'), cfg)
        if i % 2 == 1:
            # the neighbours on the thread are not only of the kind under test: a sinc resampler (CPU-dispatched kernel, same sample
            # type) and a synchronous one are built and used first
            rw = r.fork('w2')
            csn = async_cfg(rw, rw.choice(['sincin', 'sincout']), 'quick', ty=cfg['ty']); csn['interp'] = 'default'
            cfn = fft_cfg(rw, 'fftin', 'quick', ty=cfg['ty'])
            warm = ["WARM" + new_line(csn)[3:], "WARM" + new_line(cfn)[3:]] + warm
        cases += group("th_%04d_%s" % (i, k), h.spec, warm, cfg, r.choice([2, 3, 4, 8, 16]), r.choice(['odd', 'even']))

    # directed: downsampling sinc resamplers (the effective cutoff depends on the ratio) built right after a near miss
    for i, (k, ratio) in enumerate([('sincin', 44100 / 96000), ('sincout', 44100 / 48000), ('sincin', 0.5000001), ('sincout', 1 / 3.0)]):
        if rl:
            break
        if ctx.quick and i >= 2:
            break
        r = rng.fork("c18_near_%d" % i)
        cfg = async_cfg(r, k, 'quick')
        cfg.update({'ratio': ratio, 'interp': 'default', 'maxrel': r.choice([1.0, 1.1])})
        h = gens.valid_history(r.fork('h'), k, 'quick', "th_near_%02d_%s" % (i, k), cfg=cfg, allow_out_of_envelope=False, nops=4,
                               ops_allowed=['pib', 'pib', 'process'])
        c2 = dict(cfg); c2['ratio'] = ratio * (1 + r.choice([1e-7, -1e-7, 2e-7]))
        cases += group("th_near_%02d_%s" % (i, k), h.spec, ["WARM" + new_line(c2)[3:]], cfg, r.choice([2, 4]), 'odd')
        # ... and right after one with the same number of table entries split differently (sinc_len x oversampling factor)
        cfg3 = dict(cfg); cfg3['factor'] = 2 * max(1, cfg['factor'] // 2) if cfg['factor'] >= 2 else 2
        h3 = gens.valid_history(r.fork('h3'), k, 'quick', "th_split_%02d_%s" % (i, k), cfg=cfg3, allow_out_of_envelope=False, nops=4,
                                ops_allowed=['pib', 'pib', 'process'])
        c3 = dict(cfg3); c3['slen'] = c3['L'] = 2 * cfg3['L']; c3['factor'] = cfg3['factor'] // 2
        cases += group("th_split_%02d_%s" % (i, k), h3.spec, ["WARM" + new_line(c3)[3:]], cfg3, r.choice([2, 4]), 'odd')

    def judge(c):
        if c.meta.get('is_twin'):
            return []
        out = []
        a = [l.rstrip('\n') for l in open(c.impl_path)]
        for what, t in c.meta['twins']:
            b = [l.rstrip('\n') for l in open(t.impl_path)]
            verdict = [l for l in b if l.startswith('THREADS ')]
            b = [l for l in b if not l.startswith('THREADS ')]
            if t.meta.get('threads'):
                if not verdict:
                    out.append(fail(c, -1, "the threaded run did not finish (%s)" % t.status, spec_path=t.spec_path, hist_path=t.hist_path))
                    continue
                if not verdict[0].endswith(' equal'):
                    out.append(fail(c, -1, "instances running the same history on concurrent threads disagree: %s" % verdict[0],
                                    spec_path=t.spec_path, hist_path=t.hist_path))
                    continue
            if a != b:
                j = next((j for j, (x, y) in enumerate(zip(a, b)) if x != y), min(len(a), len(b)))
                out.append(fail(c, -1, "trace differs from the stand-alone run when run %s (trace line %d)" % (what, j),
                                spec_path=t.spec_path, hist_path=t.hist_path))
        return out

    execute(ctx, cases, res, judge, timeout=600)
    res['dist'].update(collections.Counter(c.meta.get('kind', 'twin') for c in cases))
    return res


# ================================================================== C05
DYADIC = [0.5, 2.0, 0.25, 4.0, 1.0, 0.125, 8.0]


def concat_outputs(tr, nch):
    """per channel: concatenation of the frames written by every successful call (hex strings)"""
    chans = [[] for _ in range(nch)]
    nin = 0
    for s in tr['steps']:
        if s.res in FATAL:
            return None, nin
        if s.res == 'counts':
            nin += int(s.fields[0])
            nout = int(s.fields[1])
            for c in range(nch):
                chans[c].extend(expand_hex(s.outs[c])[:nout])
    return chans, nin


def run_C05(ctx):
    rng, tier = ctx.rng, ctx.tier
    res = new_results("families of resamplers of the same algorithm, filter and ratio fed the same input stream (a function of the absolute stream "
                      "position) cut differently: chunk sizes in [1,4096], fixed-input vs fixed-output (vs fixed-in-out), set_chunk_size schedules in "
                      "mid-stream (sinc), FFT (chunk, sub_chunks) pairs resolving to the same block size; the concatenated outputs must agree on "
                      "their common prefix: bit for bit whenever the position arithmetic is exact (dyadic ratios; always for FFT), else within "
                      "1e-6*peak (f64) / 1e-5*peak (f32)", ALL_COMPONENTS)
    cases = []
    n = 24 if ctx.quick else 300
    rl = getattr(ctx, 'replay_lines', None)
    if rl:
        n = 0
        # a replay file holds the whole family, members separated by lines '## member'
        members, cur = [], []
        for l in rl:
            if l.startswith('## member'):
                if cur:
                    members.append(cur)
                cur = []
            elif not l.startswith('##'):
                cur.append(l)
        if cur:
            members.append(cur)
        fam = []
        for j, m in enumerate(members):
            kv0 = parse_kv(next(l for l in m if l.startswith('NEW')))
            fam.append(Case("replay_m%d" % j, m, {'cfg': {'kind': kv0.get('kind'), 'nch': int(kv0.get('nch', 1)), 'ty': parse_kv(m[0]).get('ty', 'f64')},
                                                  'is_twin': j > 0, 'exact': False}))
        fam[0].meta['family'] = fam[1:]
        fam[0].meta['exact'] = '## exact' in rl
        cases += fam
    for i in range(n):
        r = rng.fork("c05_%d" % i)
        fam_kind = ['fast', 'sinc', 'fft'][i % 3]
        seed = r.below(1 << 30)
        sig = "rand:%d" % seed
        total_in = 200 + r.below(400 if ctx.quick else 3000)
        members = []
        exact = False
        if fam_kind in ('fast', 'sinc'):
            base = async_cfg(r, fam_kind + 'in', 'quick', nch=r.choice([1, 2]), maxrel=r.choice([1.0, 2.0]))
            nearest = (fam_kind == 'fast' and base['deg'] == 4) or (fam_kind == 'sinc' and base['itype'] == 3)
            if nearest or r.chance(0.3):
                base['ratio'] = r.choice(DYADIC)
                exact = True
            if fam_kind == 'sinc':
                base['slen'] = base['L'] = r.choice([8, 16, 32, 64]); base['interp'] = r.choice(['default', 'scalar'])
                if base['factor'] < 2:
                    base['factor'] = 2
                total_in = min(total_in, 600)
            hi = 4096 if fam_kind == 'fast' else (128 if ctx.quick else 512)
            def pick():
                return r.choice([1, 2, 3, 7, 8, 16, 17, 64, 100, hi]) if r.chance(0.5) else 1 + r.below(hi)
            variants = [(fam_kind + 'in', pick(), None), (fam_kind + 'in', pick(), None), (fam_kind + 'out', pick(), None)]
            if r.chance(0.5):
                variants.append((fam_kind + 'out', pick(), None))
            if i < 6 or r.chance(0.15):
                # directed: output chunks smaller than the ratio (fixed-output calls that need no new input at all),
                # and input chunks smaller than the step (fixed-input calls that produce no frame)
                if i % 2 == 0:
                    base['ratio'] = r.choice([4.0, 8.0] if nearest else [4.0, 8.0, 96000 / 44100, 3.0]); base['maxrel'] = r.choice([1.0, 2.0])
                    exact = base['ratio'] in (4.0, 8.0)
                    variants = [(fam_kind + 'in', r.choice([64, 256]), None)] + [(fam_kind + 'out', k, None) for k in (1, 2, 3)]
                else:
                    base['ratio'] = r.choice([0.25, 0.125] if nearest else [0.25, 0.125, 44100 / 96000, 1 / 3.0]); base['maxrel'] = r.choice([1.0, 2.0])
                    exact = base['ratio'] in (0.25, 0.125)
                    variants = [(fam_kind + 'out', r.choice([64, 256]), None)] + [(fam_kind + 'in', k, None) for k in (1, 2, 3)]
                total_in = min(total_in, 300)
            if fam_kind == 'sinc':
                for kk in ('sincin', 'sincout'):
                    cmax = 2 + r.below(hi)
                    variants.append((kk, cmax, [1 + r.below(cmax) for _ in range(40)]))
            for (kind, chunk, sched) in variants:
                c = dict(base); c['kind'] = kind; c['chunk'] = chunk
                # keep the history-buffer cost of the model bounded for sinc
                per_call_in = chunk if kind.endswith('in') else max(1.0, chunk / c['ratio'])
                lines = ["T ty=%s" % c['ty'], new_line(c)]
                fed = 0
                j = 0
                while fed < total_in and j < 4000:
                    if sched is not None and j % 2 == 1:
                        nsz = sched[(j // 2) % len(sched)]
                        lines.append("SETCHUNK n=%d" % nsz)
                        per_call_in = nsz if kind.endswith('in') else max(1.0, nsz / c['ratio'])
                    il = 'max' if (kind.endswith('out') and len(members) % 2 == 1) else 'next'
                    lines.append("PIB mask=- inlen=%s outlen=%s sig=%s" % (";".join([il] * c['nch']), ";".join(['next'] * c['nch']), sig))
                    fed += per_call_in
                    j += 1
                members.append((c, lines))
        else:
            rin, rout = r.choice(gens.RATE_PAIRS[:12] + [(100, 83), (147, 160)])
            g = math.gcd(rin, rout)
            mi, mo = rin // g, rout // g
            while max(mi, mo) > 700:
                rin, rout = r.choice(gens.RATE_PAIRS[:8])
                g = math.gcd(rin, rout); mi, mo = rin // g, rout // g
            m = 1 + r.below(3 if max(mi, mo) > 100 else 12)
            nch = r.choice([1, 2])
            ty = r.choice(['f64', 'f32'])
            exact = True
            total_in = max(total_in, 4 * m * mi)
            def cfgs():
                out = []
                for _ in range(2):
                    sub = r.choice([1, 1, 2, 3, 5])
                    w = (m - 1) * mi + 1 + r.below(mi)
                    out.append({'kind': 'fftin', 'rin': rin, 'rout': rout, 'chunk': w * sub + r.below(sub), 'sub': sub, 'nch': nch, 'ty': ty})
                for _ in range(2):
                    sub = r.choice([1, 1, 2, 3, 5])
                    w = (m - 1) * mo + 1 + r.below(mo)
                    out.append({'kind': 'fftout', 'rin': rin, 'rout': rout, 'chunk': w * sub + r.below(sub), 'sub': sub, 'nch': nch, 'ty': ty})
                out.append({'kind': 'fftinout', 'rin': rin, 'rout': rout, 'chunk': (m - 1) * mi + 1 + r.below(mi), 'nch': nch, 'ty': ty})
                return out
            for ci, c in enumerate(cfgs()):
                per_call_in = c['chunk'] if c['kind'] == 'fftin' else (m * mi if c['kind'] == 'fftinout' else max(1.0, c['chunk'] * rin / rout))
                lines = ["T ty=%s" % c['ty'], new_line(c)]
                fed, j = 0, 0
                # one member of each kind is handed the whole buffer of input_buffer_allocate (or a longer slice) on every call:
                # more input than required is allowed and must change nothing
                il = ['next', 'max', 'next', 'max', 'max+300'][ci]
                while fed < total_in and j < 3000:
                    lines.append("PIB mask=- inlen=%s outlen=%s sig=%s" % (";".join([il] * nch), ";".join(['next'] * nch), sig))
                    fed += per_call_in
                    j += 1
                members.append((c, lines))
        fam = []
        for j, (c, lines) in enumerate(members):
            fam.append(Case("ck_%04d_%s_m%d_%s" % (i, fam_kind, j, c['kind']), lines, {'cfg': c, 'is_twin': j > 0, 'kind': fam_kind}))
        fam[0].meta['family'] = fam[1:]
        fam[0].meta['exact'] = exact
        cases += fam

    def judge(c):
        if c.meta.get('is_twin'):
            return []
        out = []
        fam = [c] + c.meta['family']
        streams = []
        for m in fam:
            if not getattr(m, 'trace', None):
                m.trace = parse_trace(m.impl_path, m.hist_path)
            if m.trace['new'] != 'ok':
                return [fail(m, -1, "constructor failed on valid arguments: %s" % m.trace['new'])]
            chans, nin = concat_outputs(m.trace, m.meta['cfg']['nch'])
            if chans is None:
                return [fail(m, -1, "fatal outcome in a constant-ratio stream")]
            streams.append(chans)
        ty = c.meta['cfg']['ty']
        conv = hexf64 if ty == 'f64' else hexf32
        tol = 1e-6 if ty == 'f64' else 1e-5
        fam_path = c.spec_path[:-5] + '.family'
        with open(fam_path, 'w') as fh:
            if c.meta['exact']:
                fh.write("## exact\n")
            for m in fam:
                fh.write("## member\n" + "\n".join(m.spec) + "\n")
        ref = streams[0]
        longest = max(len(st[0]) for st in streams)
        for j in range(1, len(fam)):
            for ch in range(len(ref)):
                a, b = ref[ch], streams[j][ch]
                mlen = min(len(a), len(b))
                if mlen == 0 and longest > 64 and min(len(a), len(b)) == 0 and max(len(a), len(b)) > 0 and False:
                    pass
                if c.meta['exact']:
                    if a[:mlen] != b[:mlen]:
                        k = next(k for k in range(mlen) if a[k] != b[k])
                        out.append(fail(c, -1, "members 0 (%s) and %d (%s): channel %d differs at output frame %d of %d common frames (position arithmetic "
                                        "is exact here: the streams must be bit-identical)" % (fam[0].meta['cfg']['kind'], j, fam[j].meta['cfg']['kind'], ch, k, mlen),
                                        spec_path=fam_path, hist_path=None))
                        return out
                else:
                    xa = [conv(h) for h in a[:mlen]]
                    xb = [conv(h) for h in b[:mlen]]
                    peak = max([1.0] + [abs(v) for v in xa])
                    for k in range(mlen):
                        if not abs(xa[k] - xb[k]) <= tol * peak:
                            out.append(fail(c, -1, "members 0 (%s chunk %s) and %d (%s chunk %s): channel %d differs by %.3g at output frame %d of %d common frames"
                                            % (fam[0].meta['cfg']['kind'], fam[0].meta['cfg'].get('chunk'), j, fam[j].meta['cfg']['kind'], fam[j].meta['cfg'].get('chunk'),
                                               ch, abs(xa[k] - xb[k]), k, mlen), spec_path=fam_path, hist_path=None))
                            return out
        c.meta['common'] = min(len(st[0]) for st in streams)
        return out

    execute(ctx, cases, res, judge, timeout=600)
    res['dist'].update(collections.Counter("%s:%s" % (c.meta.get('kind', 'replay'), c.meta['cfg']['kind']) for c in cases))
    commons = [c.meta.get('common', 0) for c in cases if not c.meta.get('is_twin')]
    res['dist']['median_common_prefix_frames'] = sorted(commons)[len(commons) // 2] if commons else 0
    res['dist']['families_with_empty_common_prefix'] = sum(1 for x in commons if x == 0)
    return res


# ================================================================== C01 / C02 (tone probes)
import spectral
from spectral import WINDOWS, LEAK_DB, REJ_DB, AMP_TOL, cutoff_py, interp_bound


def fft_sizes(cfg):
    g = math.gcd(cfg['rin'], cfg['rout']); mi, mo = cfg['rin'] // g, cfg['rout'] // g
    k = cfg['kind']
    if k == 'fftinout':
        m = math.ceil(cfg['chunk'] / mi)
    elif k == 'fftin':
        m = math.ceil(max(1, cfg['chunk'] // cfg['sub']) / mi)
    else:
        m = math.ceil(max(1, cfg['chunk'] // cfg['sub']) / mo)
    return m * mi, m * mo


def sinc_probe_cfg(r, quick, model):
    w = r.below(6)
    # lengths that are 8 mod 16 exercise the remainder handling of the unrolled SIMD kernels
    L = r.choice([64, 72, 104, 128] if (quick or model) else [64, 72, 104, 128, 200, 256, 512])
    if model:
        L = 64
    itype = r.below(4)
    factor = r.choice([2, 4, 16, 64, 128, 256, 1024, 2048]) if itype < 2 else r.choice([1, 4, 16, 128, 256, 2048])
    ratio = pick_ratio(r) if not model else pick_ratio(r, 0.4, 3.0)
    cfg = {'kind': r.choice(['sincin', 'sincout']), 'ty': r.choice(['f64', 'f64', 'f32']), 'ratio': ratio,
           'maxrel': r.choice([1.0, 1.0, 1.1, 2.0, 10.0]), 'nch': 1,
           'itype': itype, 'slen': L, 'L': L, 'factor': factor, 'window': w, 'interp': 'default',   # the public constructor: make_interpolator scales the cutoff
           'chunk': r.choice([1, 7, 64, 256, 1000, 1024]) if not model else r.choice([16, 64, 100])}
    return cfg


FFT_PAIRS = [(44100, 48000), (48000, 44100), (48000, 16000), (16000, 48000), (8000, 11025), (22050, 16000), (3, 7), (7, 3),
             (147, 160), (2, 1), (1, 2), (48000, 96000), (96000, 44100), (5, 4)]


def fft_probe_cfg(r, quick, model):
    rin, rout = r.choice(FFT_PAIRS)
    cfg = {'kind': r.choice(['fftin', 'fftout', 'fftinout']), 'rin': rin, 'rout': rout,
           'chunk': r.choice([256, 512, 1024, 2000]) if not model else r.choice([64, 128]), 'sub': r.choice([1, 2]), 'nch': 1,
           'ty': r.choice(['f64', 'f64', 'f32'])}
    if model:
        cfg['rin'], cfg['rout'] = r.choice([(3, 7), (7, 3), (2, 1), (1, 2), (5, 4)])
    return cfg


def delay_consistency(c, a):
    """all components share one constant delay (linear phase): returns the largest disagreement in input samples, or None"""
    tones, comps, ratio = c.meta['tones'], a['comps'], c.meta['ratio']
    if len(tones) < 2:
        return None
    ds = []
    for (f, ph, am), (amp, pho) in zip(tones, comps):
        d = (ph + 2 * math.pi * f / ratio - pho)          # = 2 pi f D (mod 2 pi)
        ds.append((f, d))
    ds.sort()
    f0, d0 = ds[0]
    D0 = ((d0 + math.pi) % (2 * math.pi) - math.pi) / (2 * math.pi * f0)
    worst = 0.0
    for f, d in ds[1:]:
        x = d - 2 * math.pi * f * D0
        x = (x + math.pi) % (2 * math.pi) - math.pi
        worst = max(worst, abs(x) / (2 * math.pi * f))
    return worst, D0


def cutoff_cases():
    lines = ["T ty=f64"] + ["INFO f=cutoff n=%d window=%d" % (n, w) for n in (32, 64, 100, 128, 256, 512, 1000, 2048) for w in range(6)]
    return Case("cutoff_values", lines, {'component': 'calculate_cutoff', 'no_model': True})


def judge_cutoff(c):
    out = []
    vals = [l.split(' ') for l in open(c.impl_path) if l.startswith('CUTOFF ')]
    k = 0
    for n in (32, 64, 100, 128, 256, 512, 1000, 2048):
        for w in range(6):
            if k >= len(vals):
                return [fail(c, -1, "calculate_cutoff values missing")]
            v = hexf64(vals[k][1]); k += 1
            exp = cutoff_py(n, WINDOWS[w])
            if not abs(v - exp) <= 1e-12:
                out.append(fail(c, -1, "calculate_cutoff(%d, %s) = %.15g, the fitted formula gives %.15g" % (n, WINDOWS[w], v, exp)))
                return out
    return out


def nearest_fn_cases(r, n):
    """get_nearest_time(s): model against implementation on boundary-heavy inputs"""
    lines = ["T ty=f64"]
    for _ in range(n):
        factor = r.choice([1, 2, 3, 4, 8, 16, 128, 256, 2048])
        base = r.below(2000) - 1000
        kind = r.below(4)
        if kind == 0:
            t = base + r.below(factor + 1) / factor
        elif kind == 1:
            t = base + (r.below(2 * factor + 1) / (2 * factor))
        elif kind == 2:
            t = nextafter(base + r.below(factor + 1) / factor, r.choice([-1e9, 1e9]))
        else:
            t = base + r.uniform()
        for nn in (1, 2, 3, 4):
            lines.append("FN f=nearest n=%d t=%s factor=%d" % (nn, f64hex(t), factor))
    return Case("nearest_fn", lines, {'component': 'get_nearest_times'})


def run_C01(ctx):
    rng, tier = ctx.rng, ctx.tier
    res = new_results("tone probes on SincFixedIn/Out (six windows, sinc_len 64..512, four interpolation types, oversampling 1..2048, ratios in [1/16,16], "
                      "any chunk size, f32/f64) and FftFixedIn/Out/InOut: sums of sinusoids below the passband edge f_cutoff*min(1,ratio) - (1 - "
                      "calculate_cutoff(len, window)); least-squares fit of the expected components at f/ratio on the steady-state output: amplitude "
                      "within 1% / 0.1% (+ threshold), residual below max(window leakage, 2 x textbook interpolation bound) (f32: >= 64 eps), all "
                      "components share one delay (two-tone probes); get_nearest_time(s) and the probes with sinc_len 64 / small FFTs also run on the model",
                      ['SincFixedIn', 'SincFixedOut', 'FftFixedIn', 'FftFixedOut', 'FftFixedInOut', 'get_nearest_times', 'calculate_cutoff'])
    cases = [cutoff_cases(), nearest_fn_cases(rng.fork('near'), 300 if ctx.quick else 3000)]
    n = 40 if ctx.quick else 400
    rl = getattr(ctx, 'replay_lines', None)
    if rl:
        n = 0
        cases = [replay_probe(rl)]
    n_explicit = 0
    for i in range(n):
        r = rng.fork("c01_%d" % i)
        model = (i % 5 == 0)
        inlen = 'next'
        if i % 4 != 3:
            cfg = sinc_probe_cfg(r, ctx.quick, model)
            explicit = (not model) and i % 2 == 1
            if explicit:
                # the same filter through an explicitly chosen kernel (new_with_interpolator): what the CPU dispatch would pick on
                # a machine without AVX (SSE) or without SIMD (scalar).  Stratified over kernel x sample type, on the lengths
                # that are 8 mod 16.
                combos = [('sse', 'f32', 72), ('avx', 'f32', 104), ('sse', 'f32', 104), ('scalar', 'f32', 72), ('sse', 'f64', 72),
                          ('avx', 'f64', 72), ('scalar', 'f64', 104), ('avx', 'f32', 72)]
                if n_explicit < len(combos):
                    cfg['interp'], cfg['ty'], cfg['L'] = combos[n_explicit]
                    cfg['slen'] = cfg['L']
                    cfg['itype'], cfg['factor'] = 0, r.choice([256, 1024])     # inter-branch interpolation error far below the window leakage
                    if combos[n_explicit][1] == 'f32' and n_explicit % 2 == 0:
                        cfg['window'] = [0, 5][(n_explicit // 2) % 2]       # Blackman, Hann2: leakage bounds well above the f32 floor
                else:
                    cfg['interp'] = r.choice(['sse', 'scalar', 'avx'])
                n_explicit += 1
            wname = WINDOWS[cfg['window']]
            cc = cutoff_py(cfg['L'], wname)
            fc = r.choice([cc, 0.95, 0.9, 0.8])
            cfg['fcut'] = f32round(fc)
            pedge = cfg['fcut'] * min(1.0, cfg['ratio']) - (1 - cc)
            span = cfg['L']
            fam = wname
            if explicit and cfg['ratio'] < 1.0:
                # the cutoff is scaled the way make_interpolator scales it
                cfg['fcut'] = f32round(cfg['fcut'] * f32round(cfg['ratio']))
        else:
            cfg = fft_probe_cfg(r, ctx.quick, model)
            # every other FFT probe hands over the whole buffer of input_buffer_allocate on every call (longer input than
            # required is allowed); half of those are FftFixedOut with two sub-chunks (the requirement varies from call to call)
            if (i // 4) % 2 == 0:
                inlen = 'max'
                if (i // 4) % 4 == 0:
                    cfg['kind'] = 'fftout'; cfg['sub'] = 2
            fin, fout = fft_sizes(cfg)
            cut = cutoff_py(fout, 'BlackmanHarris2') * fout / fin if fin > fout else cutoff_py(fin, 'BlackmanHarris2')
            pedge = cut - (1 - cutoff_py(fin, 'BlackmanHarris2'))
            span = 2 * fin
            fam = 'FFT'
        if pedge <= 0.02:
            continue
        ratio = cfg['ratio'] if cfg['kind'] in gens.ASYNC else cfg['rout'] / cfg['rin']
        ntone = r.choice([1, 2, 2, 3])
        fl = 0.02 * pedge if fam != 'FFT' else min(0.02 * pedge, 1.0 / (4 * span))
        tones = [(r.uniform(0.02 if k else 0.0, 1.0) * pedge / 2 if k else max(fl, r.uniform(0.0, 0.05) * pedge) / 2, r.uniform(0, 6.28), r.choice([1.0, 0.5, 0.25]) if k else 1.0)
                 for k in range(ntone)]
        if fam == 'FFT' and ntone > 1:
            tones[0] = (min(tones[0][0], 1.0 / (4.2 * span)), tones[0][1], 1.0)
        n_in = int(3 * span + (700 if model else 2500) / min(1.0, ratio) ** 0.5)
        c = spectral.probe_case("tone_%04d_%s" % (i, cfg['kind']), cfg, tones, n_in, model and ctx.with_model, inlen=inlen)
        c.meta.update(fam=fam, pedge=pedge, mode='pass', fft_in=(span // 2 if fam == 'FFT' else 0))
        cases.append(spectral.stamp(c))

    def judge(c):
        if c.meta.get('component') == 'calculate_cutoff':
            return judge_cutoff(c)
        if c.meta.get('mode') != 'pass':
            return []
        a = spectral.analyse(c)
        cfg = c.meta['cfg']
        if a.get('fatal'):
            return [fail(c, -1, "fatal outcome in a constant-ratio stream")]
        if 'comps' not in a:
            return [fail(c, -1, "the output stream is too short to analyse (%s)" % a)]
        fam = c.meta['fam']
        tones = c.meta['tones']
        fmax = max(f for f, _, _ in tones) * 2
        bound = interp_bound(cfg['itype'], cfg['factor'], fmax) if fam != 'FFT' else 0.0
        thr = max(10 ** (-LEAK_DB[fam] / 20), 2 * bound)
        if cfg['ty'] == 'f32':
            thr = max(thr, 64 * spectral.EPS32)
        Asum = sum(t[2] for t in tones)
        out = []
        for (f, ph, am), (amp, pho) in zip(tones, a['comps']):
            if not abs(amp / am - 1) <= AMP_TOL[fam] + thr * Asum / am:
                out.append(fail(c, -1, "tone at %.4f of the input Nyquist (passband edge %.4f): amplitude %.6f of %.6f (allowed deviation %.2g)"
                                % (2 * f, c.meta['pedge'], amp, am, AMP_TOL[fam] + thr * Asum / am)))
                return out
        spur = a['res_rms'] * math.sqrt(2) / Asum
        c.meta['margin_db'] = 20 * math.log10(thr / max(spur, 1e-300))
        if not spur <= thr:
            out.append(fail(c, -1, "spurious content %.1f dB below the signal, required %.1f dB (%s, interpolation bound %.2e)"
                            % (-20 * math.log10(max(spur, 1e-300)), -20 * math.log10(thr), fam, bound)))
            return out
        dc = delay_consistency(c, a)
        if dc is not None:
            worst, D0 = dc
            tol_d = 0.02 + (thr * 4) / (2 * math.pi * min(f for f, _, _ in tones[1:]) * min(t[2] for t in tones) / Asum)
            if not worst <= tol_d:
                out.append(fail(c, -1, "components are delayed differently: %.4f input samples apart (common delay %.3f, allowed %.3g)" % (worst, D0, tol_d)))
        return out

    execute(ctx, cases, res, judge, timeout=600)
    res['dist'].update(collections.Counter("%s:%s" % (c.meta.get('fam', c.meta.get('component', '?')), c.meta['cfg']['kind'] if 'cfg' in c.meta else '-') for c in cases))
    margins = sorted(c.meta['margin_db'] for c in cases if 'margin_db' in c.meta)
    if margins:
        res['dist']['smallest_spur_margin_db_x10'] = int(margins[0] * 10)
    return res


def replay_probe(rl):
    """a stored probe: the tones and the mode are recorded in comment lines"""
    meta = {}
    for l in rl:
        if l.startswith('#meta '):
            meta = json.loads(l[6:])
    lines = [l for l in rl if not l.startswith('#')]
    c = Case("replay", lines, meta)
    c.meta['no_model'] = True
    c.meta['tones'] = [tuple(t) for t in meta.get('tones', [])]
    return c


def run_C02(ctx):
    rng, tier = ctx.rng, ctx.tier
    res = new_results("stopband probes: (a) SincFixedIn/Out with a tone between the stopband edge f_cutoff*min(1,ratio) + (1 - calculate_cutoff(len, "
                      "window)) and the input Nyquist: everything in the steady-state output at least the window's rejection below the tone "
                      "(41/58/72/99/105/138 dB; f32: >= 64 eps); (b) upsampling with a tone in the transition band: after removing the legitimate "
                      "component at f/ratio the images are below the same level; (c) f_cutoff = calculate_cutoff, ratio >= 1: tone at f_cutoff comes "
                      "out at -6 dB +- 1 dB; (d) FFT resamplers: tones above min(fs_in, fs_out)/2 more than 100 dB down; oversampling >= 256 with cubic "
                      "interpolation so that the interpolation error is negligible; calculate_cutoff compared with its fitted formula",
                      ['SincFixedIn', 'SincFixedOut', 'FftFixedIn', 'FftFixedOut', 'FftFixedInOut', 'calculate_cutoff'])
    cases = [cutoff_cases()]
    n = 40 if ctx.quick else 400
    rl = getattr(ctx, 'replay_lines', None)
    if rl:
        n = 0
        cases = [replay_probe(rl)]
    for i in range(n):
        r = rng.fork("c02_%d" % i)
        model = (i % 8 == 0)
        mode = ['stop', 'image', 'six', 'fftstop'][i % 4]
        if mode != 'fftstop':
            cfg = sinc_probe_cfg(r, ctx.quick, model)
            cfg['itype'] = 0
            cfg['factor'] = r.choice([256, 512, 1024])
            wname = WINDOWS[cfg['window']]
            cc = cutoff_py(cfg['L'], wname)
            fam = wname
            if mode == 'stop':
                cfg['ratio'] = pick_ratio(r, 1 / 16, 0.9) if r.chance(0.8) else pick_ratio(r, 1.0, 4.0)
                fc = r.choice([cc, 0.95, 0.9, 0.8, 0.5])
                cfg['fcut'] = f32round(fc)
                sedge = cfg['fcut'] * min(1.0, cfg['ratio']) + (1 - cc)
                if sedge >= 0.995:
                    continue
                tones = [(r.uniform(sedge, 0.999) / 2, r.uniform(0, 6.28), 1.0)]
            elif mode == 'image':
                cfg['ratio'] = pick_ratio(r, 1.05, 16.0)
                fc = r.choice([cc, cc, 0.9, 0.8])
                cfg['fcut'] = f32round(fc)
                sedge = cfg['fcut'] + (1 - cc)
                pedge = cfg['fcut'] - (1 - cc)
                hi = min(0.999, 2 - sedge)
                if hi <= 0.05:
                    continue
                lo = max(0.05, min(pedge, hi - 0.01))
                tones = [(r.uniform(lo, hi) / 2, r.uniform(0, 6.28), 1.0)]
            else:
                cfg['ratio'] = pick_ratio(r, 1.0, 16.0)
                cfg['fcut'] = f32round(cc)
                tones = [(cfg['fcut'] / 2, r.uniform(0, 6.28), 1.0)]
            ratio = cfg['ratio']
            span = cfg['L']
        else:
            cfg = fft_probe_cfg(r, ctx.quick, model)
            while cfg['rout'] >= cfg['rin']:
                cfg['rin'], cfg['rout'] = r.choice([p for p in FFT_PAIRS if p[1] < p[0]]) if not model else r.choice([(7, 3), (2, 1), (5, 4)])
            fin, fout = fft_sizes(cfg)
            ratio = cfg['rout'] / cfg['rin']
            fam = 'FFT'
            span = 2 * fin
            if ratio * 1.0005 >= 0.999:
                continue
            tones = [(r.uniform(ratio * 1.0005, 0.999) / 2, r.uniform(0, 6.28), 1.0)]
        n_in = int(3 * span + (700 if model else 2500) / min(1.0, ratio) ** 0.5)
        c = spectral.probe_case("stop_%04d_%s_%s" % (i, mode, cfg['kind']), cfg, tones, n_in, model and ctx.with_model)
        c.meta.update(fam=fam, mode=mode, fft_in=(span // 2 if fam == 'FFT' else 0))
        cases.append(spectral.stamp(c))

    def judge(c):
        if c.meta.get('component') == 'calculate_cutoff':
            return judge_cutoff(c)
        mode = c.meta.get('mode')
        cfg = c.meta['cfg']
        fam = c.meta['fam']
        tones = c.meta['tones']
        thr = 10 ** (-REJ_DB[fam] / 20)
        if cfg['ty'] == 'f32':
            thr = max(thr, 64 * spectral.EPS32)
        f = tones[0][0]
        if mode in ('stop', 'fftstop'):
            a = spectral.analyse(c, expect_freqs=[])
        else:
            a = spectral.analyse(c)
        if a.get('fatal'):
            return [fail(c, -1, "fatal outcome in a constant-ratio stream")]
        if 'out_rms' not in a:
            return [fail(c, -1, "the output stream is too short to analyse (%s)" % a)]
        if mode in ('stop', 'fftstop'):
            lvl = a['out_rms'] * math.sqrt(2)
            c.meta['margin_db'] = 20 * math.log10(thr / max(lvl, 1e-300))
            if not lvl <= thr:
                return [fail(c, -1, "tone at %.4f of the input Nyquist (beyond the stopband edge) comes out only %.1f dB down, required %.1f dB (%s)"
                             % (2 * f, -20 * math.log10(max(lvl, 1e-300)), -20 * math.log10(thr), fam))]
        elif mode == 'image':
            lvl = a['res_rms'] * math.sqrt(2)
            c.meta['margin_db'] = 20 * math.log10(thr / max(lvl, 1e-300))
            if not lvl <= thr:
                return [fail(c, -1, "upsampling by %.3f, tone at %.4f of the input Nyquist: images only %.1f dB down, required %.1f dB (%s)"
                             % (cfg['ratio'], 2 * f, -20 * math.log10(max(lvl, 1e-300)), -20 * math.log10(thr), fam))]
        elif mode == 'six':
            amp = a['comps'][0][0]
            db = 20 * math.log10(max(amp, 1e-300))
            c.meta['six_db'] = db
            if not -7.0 <= db <= -5.0:
                return [fail(c, -1, "f_cutoff = calculate_cutoff, ratio %.3f: a tone at f_cutoff comes out at %.2f dB, expected -6 dB +- 1" % (cfg['ratio'], db))]
        return []

    execute(ctx, cases, res, judge, timeout=600)
    res['dist'].update(collections.Counter("%s:%s" % (c.meta.get('mode', c.meta.get('component', '?')), c.meta['cfg']['kind'] if 'cfg' in c.meta else '-') for c in cases))
    margins = sorted(c.meta['margin_db'] for c in cases if 'margin_db' in c.meta)
    if margins:
        res['dist']['smallest_rejection_margin_db_x10'] = int(margins[0] * 10)
    six = sorted(c.meta['six_db'] for c in cases if 'six_db' in c.meta)
    if six:
        res['dist']['six_db_range_x100'] = [int(six[0] * 100), int(six[-1] * 100)]
    return res


def witness_fails(pid, c):
    """does the stored witness of a known finding still fail on this tree?"""
    tr = c.trace
    if any(s.res in FATAL for s in tr['steps']):
        return True
    if pid == 'C14':
        ys = []
        for s in tr['steps']:
            if s.res == 'counts':
                ys.extend(expand_samples(s.outs[0], tr['ty'])[:int(s.fields[1])])
        e = sum(y * y for y in ys)
        if e == 0:
            return True
        cen = sum(j * y * y for j, y in enumerate(ys)) / e
        delay = tr['init'].g[4]
        return abs(cen - (500 + delay)) > 2.0
    return False


PROPS = {
    'C08': {
        'run': run_C08,
        'pinned': ['C08_septic_exact_R', 'C08_quintic_exact_R', 'C08_cubic_exact_R', 'C08_linear_exact_R',
                   'C08_septic_linear_R', 'C08_quintic_linear_R', 'C08_cubic_linear_R', 'C08_linear_linear_R',
                   'C08_linear_error_R', 'C08_cubic_error_R', 'C08_quintic_error_R', 'C08_septic_error_R',
                   'C08_linear_sine_R', 'C08_cubic_sine_R', 'C08_quintic_sine_R', 'C08_septic_sine_R',
                   'C08_sine_full_proved', 'C08_chain_example'],
        'unproved': [
                     '"to rounding": the size of the floating-point deviation from the exact polynomial is not bounded by a theorem '
                     '(the bit-exact model measures it on every run)'],
        'assumptions': ['ideal (real-number) reading of the generated interpolators: rounding erased, nothing else',
                        'IEEE-754 conformance of rustc/LLVM/x86-64 for + - * / (what makes the bit-exact comparison meaningful)'],
        'trusted_base': ['Coq Reals axioms (ClassicalDedekindReals.sig_forall_dec, sig_not_dec, functional_extensionality_dep) via ring/field on R',
                         'Coquelicot 3.2 (is_derive, auto_derive) and the standard-library Rolle theorem for the interpolation error bound; '
                         'Classical_Prop.classic through them'],
    },
    'C12': {
        'run': run_C12,
        'pinned': ['C12_bounds_B64', 'C12_accept_iff_B64', 'C12_accept_sites', 'C12_set_ratio_step', 'C12_relative_iff_B64',
                   'C12_relative_step', 'C12_clamped_accepted', 'C12_sync_reject', 'C12_chunk_size_iff_Z', 'C12_chunk_not_adjustable',
                   'C12_ctor_establishes'],
        'unproved': [],
        'assumptions': ['the documented bounds original/max and original*max are read as the binary64 quotient and product',
                        '1/max in the relative bound is the binary64 quotient',
                        'Flocq BinarySingleNaN models IEEE-754 binary64 round-to-nearest-even arithmetic and comparisons'],
        'trusted_base': ['Flocq 4.1 (Bdiv_correct, Bmult_correct, Bleb_correct, round_le) and Coq Reals axioms'],
    },
    'C13': {
        'run': run_C13,
        'pinned': ['C13_validate_ok_iff_Z', 'C13_validate_first_error_Z', 'C13_validate_total_Z', 'C13_pib_err_iff',
                   'C13_err_state_equal', 'C13_no_spurious_err', 'C13_ctor_invalid_ratio_B64', 'C13_ctor_invalid_ratio_sinc_B64',
                   'C13_ctor_invalid_maxrel_B64', 'C13_ctor_zero_rate_Z'],
        'unproved': ['the stored channel_mask is overwritten by a rejected call with a mask of the right length; it is rewritten at the start '
                     'of every call and never read elsewhere, so this is unobservable (argued, compared on every trace, not a theorem)'],
        'assumptions': ['the model returns the unchanged state on Err by construction; that the implementation does too is what the '
                        'correspondence compares after every rejected call (getters, control fields, all internal buffers)'],
        'trusted_base': ['Flocq + Reals axioms only for the constructor theorems; the validate/process theorems are closed under the global context'],
    },
    'C16': {
        'run': run_C16,
        'pinned': ['C16_process_eq', 'C16_alloc_out', 'C16_partial_none_eq', 'C16_partial_some_eq', 'C16_partial_eq', 'C16_padding'],
        'gen_obligations': {'vec-forwarding': gen_forwarding},
        'unproved': ['independence of the written prefix from the initial content of a larger output buffer (compared on every trace, not a theorem)'],
        'assumptions': ['the wrappers of the model are a transcription of lib.rs:75-195; the tie is the bit-exact correspondence on wrapper calls'],
        'trusted_base': ['closed under the global context (no axioms)'],
    },
    'C03': {
        'run': run_C03,
        'judge_replay': lambda c: judge_C03(c) if 'ops' in c.meta else [],
        'pinned': ['C03_fast_in_call_safe_R', 'C03_fast_out_call_safe_R', 'C03_fast_in_run_safe_R', 'C03_fast_out_run_safe_R',
                   'C03_ctor_fast_in_R', 'C03_ctor_fast_out_R', 'C03_fast_window_R',
                   'C03_fast_in_steps_safe_R', 'C03_fast_in_steps_start_R', 'C03_step_up_compatible', 'C03_step_down_compatible',
                   'C03_sinc_in_steps_safe_R', 'C03_sinc_in_steps_start_R', 'C03_fast_out_steps_safe_R', 'C03_ctor_fast_out_steps_R',
                   'C03_sinc_out_steps_safe_R', 'C03_ctor_sinc_out_steps_R',
                   'C03_sinc_in_call_safe_R', 'C03_sinc_in_run_safe_R', 'C03_ctor_sinc_in_R',
                   'C03_sinc_out_call_safe_R', 'C03_sinc_out_run_safe_R', 'C03_ctor_sinc_out_R',
                   'C03_fft_inout_call_safe', 'C03_fft_inout_run_safe', 'C03_fft_in_call_safe_R', 'C03_fft_in_run_safe_R',
                   'C03_fft_out_call_safe_R', 'C03_fft_out_run_safe_R', 'C03_ctor_fft_in_R', 'C03_ctor_fft_out_R', 'C03_ctor_fft_inout'],
        'unproved': ['FFT types: the spectral core is an oracle whose length contract (a block of fft_size_in samples gives 2*fft_size_out '
                     'samples) is a hypothesis of the theorems; it is checked on every recorded unit of every run',
                     'FftFixedIn / FftFixedOut: the f32 quotients floor((saved+chunk)/fft_size_in) and ceil(needed/fft_size_out) are read as '
                     'real quotients (exact below 2^23); the binary32 version is not formalised',
                     'ratio changes (ramped or stepped): outside the constant-ratio theorem; the executable envelope of tools/gens.py separates '
                     'histories expected to be safe from the recorded finding classes',
                     'floating-point rounding inside the loops (theorems are over R)'],
        'assumptions': ['ideal arithmetic for the theorems; IEEE-754 conformance of the platform for the bit-exact comparison',
                        'debug build: std turns get_unchecked out of range into an abort, which the harness classifies'],
        'trusted_base': ['Reals axioms (lra/nra/field), Flocq Zfloor/Zceil lemmas'],
    },
    'C04': {
        'run': run_C04,
        'judge_replay': lambda c: judge_C04(c) if 'ops' in c.meta else [],
        'pinned': ['C04_fast_in_counts_R', 'C04_fast_out_counts_R', 'C04_fast_in_next_le_max_R', 'C04_sinc_in_next_le_max_R', 'C04_fast_out_next_le_max_R',
                   'C04_sinc_in_counts_R', 'C04_sinc_out_counts_R', 'C04_fft_in_counts_R', 'C04_fft_out_counts_R', 'C04_fft_inout_counts',
                   'C04_fast_in_steps_counts_R', 'C04_sinc_in_steps_counts_R', 'C04_fast_out_steps_counts_R', 'C04_sinc_out_steps_counts_R', 'C04_fft_out_next_le_max_R', 'C04_fft_in_next_le_max_R', 'C04_fft_inout_next_eq_max', 'C04_sinc_out_next_le_max_R', 'C04_sinc_out_li_ok', 'C04_f32_quotients_exact', 'C04_fft_out_counts_binary', 'C04_fft_in_counts_binary', 'C04_fast_in_next_le_max_B64', 'C04_sinc_in_next_le_max_B64', 'C04_fast_in_next_le_max_accepted_B64', 'C04_fast_in_next_le_max_B64_example',
                   'C04_fast_out_fresh_next_le_max_B64', 'C04_fast_out_fresh_next_le_max_B64_example', 'C04_sinc_out_fresh_next_le_max_B64'],
        'unproved': ['next <= max in binary64 for the types other than FastFixedIn and SincFixedIn (those two: proved with Flocq by monotonicity of rounding, '
                     'overflow and saturating cast included; FastFixedOut and SincFixedOut: proved in binary64 for the freshly constructed state only '
                     '(C04_fast_out_fresh_next_le_max_B64, C04_sinc_out_fresh_next_le_max_B64), after calls over R only; the others are proved over R only)',
                     'ratio changes outside the envelope'],
        'assumptions': ['ideal arithmetic, except C04_fast_in_next_le_max_B64 (Flocq binary64)'],
        'trusted_base': ['Reals axioms, Flocq Ztrunc/Zceil lemmas; Flocq 4.1 BinarySingleNaN (Bmult_correct, Bplus_correct, Btrunc_correct, round_le, mult_bpow_exact_FLT)'],
    },
    'C06': {
        'run': run_C06,
        'judge_replay': lambda c: (judge_C06(c) if (c.meta.get('warp') and 'ops' in c.meta) else []) + (judge_C03(c) if (c.meta.get('fatal_check') and 'ops' in c.meta) else []),
        'pinned': ['C06_instants_fixed_out_R', 'C06_instants_fixed_in_R', 'C06_loop_ops_R', 'C06_spacing_R', 'C06_increment_fixed_in_R',
                   'C06_increment_fixed_out_R', 'C06_step_immediate_R', 'C06_ramp_interval_R', 'C06_ramp_monotone_R',
                   'C06_steps_positive_R', 'C06_ramp_reaches_target_R', 'C06_after_ramp_R', 'C06_fast_in_step_call_R', 'C06_sinc_in_step_call_R', 'C06_fast_out_step_call_R', 'C06_sinc_out_step_call_R'],
        'unproved': ['C06_full_fixed_in is refuted in Coq (C06_full_fixed_in_refuted): beyond frame A of a fixed-input ramp the spacing leaves '
                     '[old,new] (recorded finding ramp-overrun)',
                     '"computed from frames actually supplied": for fixed-output ramps the request is too small (recorded finding fixedout-ramp); '
                     'for constant ratio it follows from the window bounds of C03'],
        'assumptions': ['ideal arithmetic; the bit-exact model carries the float positions'],
        'trusted_base': ['Reals axioms'],
    },
    'C07': {
        'run': run_C07,
        'judge_replay': lambda c: judge_C07(c) if 'cfg' in c.meta else [],
        'pinned': ['C07_fast_in_telescope_R', 'C07_fast_out_telescope_R', 'C07_fast_in_bound_R', 'C07_fast_out_bound_R',
                   'C07_ctor_fast_in_R', 'C07_ctor_fast_out_R', 'C07_sinc_in_bound_R', 'C07_sinc_out_bound_R',
                   'C07_fft_in_bound_R', 'C07_fft_out_bound_R', 'C07_fft_inout_exact'],
        'unproved': ['FFT types: the f32 quotients are read as real quotients (exact below 2^23)',
                     'float drift of the carried position over very long streams'],
        'assumptions': ['ideal arithmetic'],
        'trusted_base': ['Reals axioms'],
    },
    'C14': {
        'run': run_C14,
        'pinned': ['C14_fast_initial_position_R', 'C14_fast_instant_R', 'C14_fast_true_delay_R', 'C14_fast_in_delay_R',
                   'C14_fast_out_delay_R', 'C14_fft_reported_Z', 'C14_sinc_reported_R', 'C14_fft_core_pinned'],
        'gen_obligations': {'pinned-source-regions': lambda rep: gen_pinned(rep, ['fft_core'])},
        'unproved': ['FFT types: that the spectral path is a linear-phase convolution centred at fft_size_in/2 (oracle)',
                     'sinc types: reported sinc_len*ratio/2 is NOT the alignment of the stream (known finding sinc-output-delay)'],
        'assumptions': ['ideal arithmetic'],
        'trusted_base': ['Reals axioms'],
    },
    'C15': {
        'run': run_C15,
        'pinned': ['C15_kernel_sum_R', 'C15_kernels_agree_R', 'C15_read_set', 'C15_kernel_error_model', 'C15_kernel_error_f64',
                   'C15_kernel_error_f32', 'C15_kernels_close_f64', 'C15_kernels_close_f32', 'C15_kernel_finite_unit_f64', 'C15_kernel_finite_unit_f32',
                   'C15_finite_example'],
        'unproved': ['overflow: the floating-point bound (C15_kernels_close_f64/_f32) assumes finite kernel results; finiteness is proved from an '
                     'a-priori magnitude bound (products of magnitude <= 1, up to 32768 taps: C15_kernel_finite_unit_*); beyond it results are '
                     'compared bit for bit on every run, not bounded by a theorem',
                     'NEON kernel: not compiled on x86-64, not modelled', 'CPU dispatch order: observed (the dispatched interpolator is '
                     'compared with the explicitly constructed ones), not modelled'],
        'assumptions': ['ideal arithmetic for the _R theorems; Flocq BinarySingleNaN semantics of + * fma for the _f64/_f32 theorems'],
        'trusted_base': ['Reals axioms (ring)', 'Flocq 4.1 (Bplus_correct, Bmult_correct, Bfma_correct, error_N_FLT)'],
    },
    'C10': {
        'run': run_C10,
        'replay_aware': True,
        'pinned': ['C10_reset_fresh_fast_in', 'C10_reset_fresh_fast_out', 'C10_reset_fresh_sinc_in', 'C10_reset_fresh_sinc_out',
                   'C10_reset_fresh_fft_in', 'C10_reset_fresh_fft_out', 'C10_reset_fresh_fft_inout', 'C10_reset_after_set_ratio',
                   'C10_reset_after_set_rel', 'C10_reset_after_set_chunk', 'C10_reset_idempotent', 'C10_reset_after_pib_async', 'C10_reset_after_pib_fft'],
        'unproved': ['reset after a successful process_into_buffer of the three FFT types (shape preservation of their buffers) is compared on '
                     'every trace, not proved', 'the FftResampler scratch/work buffers are not reset by the code; irrelevant if the spectral '
                     'core is a pure function of its input block (checked: same block => same bits, on every run)'],
        'assumptions': ['determinism of the model step function (a Gallina function) gives identical behaviour from identical states'],
        'trusted_base': ['closed under the global context (no axioms)'],
    },
    'C11': {
        'run': run_C11,
        'pinned': ['C11_shift_per_channel', 'C11_fill_per_channel', 'C11_channel_projection', 'C11_masked_untouched',
                   'C11_fft_per_channel', 'C11_instants_data_independent', 'C11_fast_in_projection_R', 'C11_sinc_in_projection_R',
                   'C11_async_noninterference', 'C11_fft_in_noninterference', 'C11_fft_out_noninterference', 'C11_fft_inout_noninterference'],
        'unproved': ['the end-to-end statement "n-channel run projected on channel c = single-channel run" is a theorem for FastFixedIn and '
                     'SincFixedIn (ideal arithmetic, calls without a mask; the stream theorems of C05 give the same for FastFixedOut and the FFT '
                     'types channel by channel); with masks and in floating point it is assembled from the stage lemmas by the twin comparison',
                     'FFT types: the shared scratch buffers are harmless because the spectral core is a pure function of its block (checked on every run)'],
        'assumptions': ['the per-channel structure of the model transcribes the loops of the code; tied by bit-exact correspondence on 1..8 channels with sentinels'],
        'trusted_base': ['stage theorems: closed under the global context (no axioms); the two end-to-end projection theorems: Reals axioms'],
    },
    'C09': {
        'run': run_C09,
        'replay_aware': True,
        'pinned': ['C09_shape_invariant', 'C09_no_alloc_constructs', 'C09_fft_in_shape_invariant', 'C09_fft_out_shape_invariant', 'C09_fft_inout_shape_invariant'],
        'gen_obligations': {'no-alloc-constructs': gen_no_alloc},
        'unproved': ['that the callees outside the crate (rustfft/realfft process_with_scratch, core slice and float methods) do not allocate: '
                     'measured by the counting allocator on every call, not proved',
                     'the summary is syntactic: an allocation hidden behind a new helper function or a new dependency call is seen by the '
                     'counting allocator only'],
        'assumptions': ['the `log` feature is off (the harness builds the crate without it)',
                        'thread-local counting in the global allocator observes every heap event of the calling thread'],
        'trusted_base': ['closed under the global context (no axioms)', 'tools/sites.py summaries() pattern list ALLOC_PATTERNS / MONITORED_FNS'],
    },
    'C17': {
        'run': run_C17,
        'replay_aware': True,
        'pinned': ['C17_control_function_of_ctl', 'C17_control_independent_of_T', 'C17_async_types', 'C17_fft_control_function_of_ctl', 'C17_fft_control_independent_of_T', 'C17_kernel_f32_f64_close'],
        'unproved': ['the numerical half (f32 output within a small multiple of 2^-23 * peak of the f64 output) is measured on every twin history '
                     'against a fixed tolerance; proved only at the level of one dot product given its operands (C17_kernel_f32_f64_close); the '
                     'construction of the f32 tables, the polynomial interpolators and the FFT are not analysed',
                     'FFT types: their control state is integer-only and sample-type independent by inspection of the generated records; compared on every twin'],
        'assumptions': ['control fields of the four asynchronous types are computed by the generated control functions of the model, which never mention the sample type (theorem)'],
        'trusted_base': ['control theorems: closed under the global context (no axioms); kernel closeness: Reals axioms, Flocq 4.1'],
    },
    'C18': {
        'run': run_C18,
        'replay_aware': True,
        'pinned': ['C18_interleaving_projection', 'C18_no_shared_storage'],
        'gen_obligations': {'no-shared-storage': gen_no_shared},
        'unproved': ['that rustfft/realfft planners and plans hold no shared mutable state, and that std is_x86_feature_detected! is deterministic: '
                     'outside the crate; exercised by the concurrent and migrating runs, not proved',
                     'data races / memory-model effects: the model is sequential; Rust\'s ownership (no unsafe impl Send/Sync in src, checked by the summary) is what excludes them'],
        'assumptions': ['a resampler instance is a value: the model state of an instance is only reachable through its own step function (theorem: projection of any interleaving)'],
        'trusted_base': ['closed under the global context (no axioms)', 'tools/sites.py summaries() pattern list SHARED_PATTERNS'],
    },
    'C05': {
        'run': run_C05,
        'replay_aware': True,
        'pinned': ['C05_fast_in_call_R', 'C05_fast_in_stream_R', 'C05_fast_out_stream_R', 'C05_fast_chunk_independent_R',
                   'C05_fast_variant_independent_R', 'C05_fft_inout_stream', 'C05_fft_in_call_R', 'C05_fft_in_stream_R',
                   'C05_fft_out_call_R', 'C05_fft_out_stream_R', 'C05_sinc_in_call_R', 'C05_sinc_in_stream_R', 'C05_sinc_out_stream_R', 'C05_sinc_variant_independent_R'],
        'unproved': ['SincFixedOut: no stream theorem (its last kernel window can touch one cell beyond the filled region, with zero weight in exact arithmetic, when the last instant is integral and the oversampling factor is small: the content invariant of the proof does not cover that cell); decided by the bit-exact '
                     'model on every member of every family plus the family comparison of the implementation outputs',
                     'FFT types: the spectral core is an oracle with its length contract; FftFixedIn / FftFixedOut: their f32 quotients read as real quotients',
                     'ratio schedules (set_resample_ratio between chunks): the theorems are for constant ratio',
                     '"equal up to floating-point rounding": the theorems are over R; the size of the float deviation between two chunkings is '
                     'measured against a fixed tolerance (bit-identity is demanded where the position arithmetic is exact)'],
        'assumptions': ['ideal arithmetic for the theorems; masks: calls without a mask (C11 gives the per-channel independence)',
                        'the input signal of the compared runs is one function of the absolute stream position (harness generator)'],
        'trusted_base': ['Reals axioms (lra/nra/field), Flocq Zfloor/Zceil lemmas'],
    },
    'C01': {
        'run': run_C01,
        'replay_aware': True,
        'pinned': ['C01_nearest_accurate_R', 'C01_cell_R', 'C01_nodes_cubic_R', 'C01_nodes_quadratic_R', 'C01_nodes_linear_R', 'C01_offset_R',
                   'C01_blend_cubic_R', 'C01_blend_quadratic_R', 'C01_blend_linear_R', 'C01_branch_is_fir_R', 'C01_source_regions'],
        'gen_obligations': {'pinned-source-regions': lambda rep: gen_pinned(rep, ['interpolation_rs', 'sinc_rs', 'windows_rs', 'fft_core'])},
        'unproved': ['PARTIAL: the frequency response of the windowed-sinc branches and of the FFT filter (amplitude within 1 % / 0.1 %, leakage 80..150 dB) is '
                     'not a theorem: transcendental window functions over a continuum of lengths, cutoffs and frequencies; measured by tone probes on every run',
                     'the textbook interpolation error bound itself (a statement about derivatives of a band-limited function) is not formalised; what is proved is '
                     'its premise: the blend is the Lagrange polynomial on the right grid points at the right abscissa',
                     'make_sincs / make_window / the FFT core are modelled by hand and pinned by a hash of their source text',
                     'f32: the probes run both sample types; no rounding analysis'],
        'assumptions': ['ideal arithmetic for the theorems',
                        'tone probes use the public constructors (make_interpolator scales the cutoff); thresholds are those of the property statement'],
        'trusted_base': ['Reals axioms (lra/field), Flocq Zfloor/Znearest lemmas', 'tools/spectral.py (least-squares tone fit) for the measured part'],
    },
    'C02': {
        'run': run_C02,
        'replay_aware': True,
        'pinned': ['C02_cutoff_scaling_R', 'C02_cutoff_scaling_B', 'C02_ctor_ratio_to_table', 'C02_source_regions'],
        'gen_obligations': {'pinned-source-regions': lambda rep: gen_pinned(rep, ['windows_rs', 'sinc_rs', 'fft_core'])},
        'unproved': ['PARTIAL: the stopband attenuation figures (41..138 dB per window, 100 dB for the FFT resamplers) and the -6 dB point are not theorems: '
                     'they are properties of transcendental window functions; measured by stopband / image / -6 dB probes on every run',
                     'calculate_cutoff: its values are compared with the fitted formula of the property (k1,k2,k3 per window) on every run, the "stopband starts at '
                     'Nyquist" consequence is measured',
                     'windows.rs, sinc.rs and the FftResampler core are pinned by hash, not translated'],
        'assumptions': ['binary32 product / binary64 comparison for the cutoff scaling (Flocq semantics)'],
        'trusted_base': ['Reals axioms for the R statement; the B statement is closed under the global context', 'tools/spectral.py for the measured part'],
    },
}
