#!/usr/bin/env python3
"""Scratch exploration: random valid histories on all types; correspondence + crash statistics."""
import sys, os, collections
sys.path.insert(0, os.path.dirname(os.path.abspath(__file__)))
import vlib, gens
from vlib import *

def main():
    n = int(sys.argv[1]) if len(sys.argv) > 1 else 40
    tier = sys.argv[2] if len(sys.argv) > 2 else 'quick'
    kinds = sys.argv[3].split(',') if len(sys.argv) > 3 else gens.ALL
    seed = int(os.environ.get('VERIF_SEED', '1'))
    rng = Rng(seed)
    cases = []
    for i in range(n):
        k = kinds[i % len(kinds)]
        cases.append(gens.valid_history(rng.fork("h%d" % i), k, tier, "x%04d_%s" % (i, k)))
    out = os.path.join(BUILD, 'runs', 'explore')
    shutil.rmtree(out, ignore_errors=True)
    t0 = time.time()
    run_cases(cases, out)
    print("ran %d in %.1fs" % (n, time.time() - t0))
    stats = collections.Counter()
    for c in cases:
        tr = parse_trace(c.impl_path, c.hist_path)
        fatal = [s for s in tr['steps'] if s.res in ('panic', 'abort', 'diverge')]
        errs = [s for s in tr['steps'] if s.res == 'err']
        kind = c.meta['cfg']['kind']
        if c.diff:
            stats['DIFF ' + kind] += 1
            print("DIFF", c.name, c.diff)
        if tr['new'] != 'ok':
            stats['ctor-' + str(tr['new'])[:20]] += 1
        # envelope bookkeeping
        proc = [a for a in c.meta['ops']]
        for s, a in zip(tr['steps'], c.meta['ops']):
            if s.res in ('panic', 'abort', 'diverge'):
                stats['%s fatal env=%s %s' % (kind, a.get('envelope'), a.get('why'))] += 1
                if a.get('envelope'):
                    print("IN-ENVELOPE FATAL", c.name, s.res, a)
            elif s.res == 'err' and not a.get('expect_err'):
                stats['%s err %s env=%s %s' % (kind, s.fields[0], a.get('envelope'), a.get('why'))] += 1
                if a.get('envelope', True):
                    print("IN-ENVELOPE ERR", c.name, s.fields, a)
        stats['%s histories' % kind] += 1
    for k in sorted(stats):
        print("%5d  %s" % (stats[k], k))

main()
