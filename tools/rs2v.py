#!/usr/bin/env python3
"""rs2v: regenerate the formula layer of the Coq model from rubato's Rust source.

Every *site* (a straight-line arithmetic item inside /repo/src: a whole small
function, the right-hand side of a `let` or of an assignment, the condition of an
`if`/`while`, an argument of a call, a slice range) is located in the current
source text, parsed with a small expression parser for the subset described in
DESIGN.md section 2, type-checked (usize/isize -> Z, f64 -> cnum, f32 -> c32,
T -> snum) and emitted as a Gallina definition over the numeric classes of
Model/Num.v.  Scalar fields of each resampler struct become a generated record,
so `self.x` is a projection and a mutation that swaps one field for another
keeps the generated signature.

A site that is missing, ambiguous, or outside the subset raises GenError; the
caller treats that like a broken proof obligation (`gen:<site>`).
"""
import re, sys, os, json, struct
from fractions import Fraction


class GenError(Exception):
    pass


# --------------------------------------------------------------------------
# Tokenizer
# --------------------------------------------------------------------------
TOK_RE = re.compile(r"""
    (?P<ws>\s+|//[^\n]*|/\*.*?\*/)
  | (?P<num>\d[\d_]*\.\d[\d_]*(?:[eE][+-]?\d+)?(?:f32|f64)?|\d[\d_]*(?:[eE][+-]?\d+)?(?:usize|isize|f32|f64|u64|i64|u32|i32)?)
  | (?P<id>[A-Za-z_][A-Za-z0-9_]*)
  | (?P<op>::|\.\.=|\.\.|=>|->|<=|>=|==|!=|&&|\|\||\+=|-=|\*=|/=|[-+*/%!<>=.,;:()\[\]{}&|#?])
""", re.X | re.S)


def tokenize(text):
    pos, out = 0, []
    while pos < len(text):
        m = TOK_RE.match(text, pos)
        if not m:
            raise GenError("cannot tokenize at: %r" % text[pos:pos + 30])
        pos = m.end()
        if m.lastgroup == 'ws':
            continue
        out.append((m.lastgroup, m.group(m.lastgroup)))
    return out


# --------------------------------------------------------------------------
# Parser (Pratt) for the expression subset
# --------------------------------------------------------------------------
BINPREC = {'||': 1, '&&': 2, '==': 3, '!=': 3, '<': 3, '>': 3, '<=': 3, '>=': 3,
           '+': 5, '-': 5, '*': 6, '/': 6, '%': 6}
TYPES = ('f64', 'f32', 'usize', 'isize', 'T', 'bool')


class Parser:
    def __init__(self, toks):
        self.t = toks
        self.i = 0

    def peek(self, k=0):
        return self.t[self.i + k] if self.i + k < len(self.t) else ('eof', '')

    def next(self):
        tok = self.peek()
        self.i += 1
        return tok

    def expect(self, val):
        tok = self.next()
        if tok[1] != val:
            raise GenError("expected %r, got %r" % (val, tok[1]))

    def at_end(self):
        return self.i >= len(self.t)

    def parse_type(self):
        k, v = self.next()
        if v == '&':
            return self.parse_type()
        if v == '[':
            inner = self.parse_type()
            if self.peek()[1] == ';':
                self.next()
                self.next()
            self.expect(']')
            return 'slice:' + inner
        if v == 'mut':
            return self.parse_type()
        return v

    def expr(self, minprec=0):
        lhs = self.unary()
        while True:
            k, v = self.peek()
            if v == 'as':
                # `as` binds tighter than any binary operator
                self.next()
                ty = self.parse_type()
                lhs = ('cast', lhs, ty)
                continue
            if v in BINPREC and BINPREC[v] >= minprec and k == 'op':
                # `..` is not an operator here
                prec = BINPREC[v]
                self.next()
                rhs = self.expr(prec + 1)
                lhs = ('bin', v, lhs, rhs)
                continue
            break
        return lhs

    def unary(self):
        k, v = self.peek()
        if v == '-':
            self.next()
            e = self.unary_cast()
            return ('un', '-', e)
        if v == '!':
            self.next()
            e = self.unary_cast()
            return ('un', '!', e)
        if v == '*' or v == '&':
            self.next()
            if self.peek()[1] == 'mut':
                self.next()
            return self.unary()
        return self.postfix()

    def unary_cast(self):
        # operand of a unary operator: postfix plus any `as` casts? In Rust unary binds
        # tighter than `as`, so `-x as f64` is `(-x) as f64`; the caller's loop handles `as`.
        return self.unary()

    def postfix(self):
        e = self.primary()
        while True:
            k, v = self.peek()
            if v == '.':
                self.next()
                nk, name = self.next()
                if self.peek()[1] == '(':
                    args = self.args()
                    e = ('mcall', e, name, args)
                else:
                    e = ('field', e, name)
            elif v == '[':
                self.next()
                idx = self.expr()
                self.expect(']')
                e = ('index', e, idx)
            elif v == '(' and e[0] == 'path':
                args = self.args()
                e = ('call', e[1], args)
            else:
                break
        return e

    def args(self):
        self.expect('(')
        out = []
        while self.peek()[1] != ')':
            out.append(self.expr())
            if self.peek()[1] == ',':
                self.next()
        self.expect(')')
        return out

    def primary(self):
        k, v = self.next()
        if k == 'num':
            return ('num', v)
        if v == '(':
            e = self.expr()
            self.expect(')')
            return ('paren', e)
        if v == 'if':
            c = self.expr()
            self.expect('{')
            a = self.block_expr()
            self.expect('}')
            self.expect('else')
            self.expect('{')
            b = self.block_expr()
            self.expect('}')
            return ('if', c, a, b)
        if k == 'id':
            path = [v]
            while self.peek()[1] == '::':
                self.next()
                if self.peek()[1] == '<':
                    # turbofish: skip to matching '>'
                    depth = 0
                    while True:
                        tk = self.next()[1]
                        if tk == '<':
                            depth += 1
                        elif tk == '>':
                            depth -= 1
                            if depth == 0:
                                break
                    continue
                path.append(self.next()[1])
            if self.peek()[1] == '!' and self.peek(1)[1] == '(':
                self.next()
                args = self.args()
                return ('macro', path[-1], args)
            return ('path', path)
        raise GenError("unexpected token %r" % v)

    def block_expr(self):
        """`let` chain followed by a final expression (no trailing `;`)."""
        lets = []
        while self.peek()[1] == 'let':
            self.next()
            if self.peek()[1] == 'mut':
                self.next()
            name = self.next()[1]
            ty = None
            if self.peek()[1] == ':':
                self.next()
                ty = self.parse_type()
            self.expect('=')
            e = self.expr()
            self.expect(';')
            lets.append((name, ty, e))
        e = self.expr()
        for name, ty, rhs in reversed(lets):
            e = ('let', name, ty, rhs, e)
        return e


def parse_expr(text):
    p = Parser(tokenize(text))
    e = p.expr()
    if not p.at_end():
        raise GenError("trailing tokens after expression: %r in %r" % (p.peek(), text[:80]))
    return e


def parse_block(text):
    p = Parser(tokenize(text))
    e = p.block_expr()
    if not p.at_end():
        raise GenError("trailing tokens after block: %r in %r" % (p.peek(), text[:80]))
    return e


# --------------------------------------------------------------------------
# Source navigation: spans by brace matching
# --------------------------------------------------------------------------
def strip_comments(src):
    def repl(m):
        return re.sub(r'[^\n]', ' ', m.group(0))
    src = re.sub(r'//[^\n]*', repl, src)
    src = re.sub(r'/\*.*?\*/', repl, src, flags=re.S)
    return src


def match_brace(src, open_pos):
    assert src[open_pos] == '{'
    depth = 0
    for i in range(open_pos, len(src)):
        c = src[i]
        if c == '{':
            depth += 1
        elif c == '}':
            depth -= 1
            if depth == 0:
                return i
    raise GenError("unbalanced braces")


def find_block(src, header_re, start=0, end=None, unique=True):
    """Return (body_start, body_end) of the `{...}` that follows the header regex."""
    end = len(src) if end is None else end
    ms = list(re.finditer(header_re, src[start:end]))
    if not ms:
        raise GenError("header not found: %s" % header_re)
    if unique and len(ms) > 1:
        raise GenError("header ambiguous (%d matches): %s" % (len(ms), header_re))
    m = ms[0]
    ob = src.index('{', start + m.end() - 1)
    cb = match_brace(src, ob)
    return ob + 1, cb


def fn_span(src, impl_re, fn_name):
    if impl_re:
        a, b = find_block(src, impl_re)
    else:
        a, b = 0, len(src)
    # locate the fn header (top-level within the span: first match)
    m = re.search(r'\bfn\s+%s\b' % re.escape(fn_name), src[a:b])
    if not m:
        raise GenError("fn %s not found in %s" % (fn_name, impl_re))
    # signature up to the body brace (skip where-clauses)
    sig_start = a + m.start()
    ob = sig_start
    depth = 0
    while True:
        c = src[ob]
        if c in '(<[':
            depth += 1
        elif c in ')>]':
            if c == '>' and src[ob - 1] == '-':
                pass
            else:
                depth -= 1
        elif c == '{' and depth == 0:
            break
        ob += 1
    cb = match_brace(src, ob)
    return sig_start, ob + 1, cb


def narrow(src, a, b, within):
    """Narrow [a,b) by successive (start_marker, end_marker|None) pairs."""
    for sm, em in within or []:
        m = re.search(sm, src[a:b])
        if not m:
            raise GenError("marker not found: %s" % sm)
        na = a + m.start()
        if em is None:
            # block following the marker
            ob = src.index('{', na)
            cb = match_brace(src, ob)
            a, b = ob + 1, cb
        else:
            m2 = re.search(em, src[a + m.end():b])
            nb = (a + m.end() + m2.start()) if m2 else b
            a, b = na, nb
    return a, b


def stmt_end(src, pos, limit):
    """End of the statement starting at pos: the `;` at depth 0."""
    depth = 0
    i = pos
    while i < limit:
        c = src[i]
        if c in '([{':
            depth += 1
        elif c in ')]}':
            depth -= 1
            if depth < 0:
                return i
        elif c == ';' and depth == 0:
            return i
        i += 1
    return limit


# --------------------------------------------------------------------------
# Types and emission
# --------------------------------------------------------------------------
def f64_parts(x):
    """x (python float) as integer mantissa * 2^exponent."""
    if x == 0.0:
        return 0, 0
    n, d = x.as_integer_ratio()
    e = -(d.bit_length() - 1)
    while n % 2 == 0:
        n //= 2
        e += 1
    return n, e


def lit_parts(text, ty):
    t = text.replace('_', '')
    for suf in ('f32', 'f64'):
        if t.endswith(suf):
            t = t[:-3]
    frac = Fraction(t)
    x = float(t)
    if ty == 'f32':
        x = struct.unpack('<f', struct.pack('<f', x))[0]
        # double rounding check: f32(f64(decimal)) may differ from f32(decimal) only in
        # pathological ties; rustc parses directly to f32.  Detect and refuse.
        lo = struct.unpack('<f', struct.pack('<f', x))[0]
        assert lo == x
    m, e = f64_parts(x)
    return m, e, frac.numerator, frac.denominator


def zlit(n):
    return str(n) if n >= 0 else "(%d)" % n


class Ctx:
    """Typing/emission context for one site."""

    def __init__(self, unit, selfrec, fn_body, fn_params, extra_types=None, list_params=None):
        self.unit = unit            # Unit (file-level info)
        self.selfrec = selfrec      # struct name or None
        self.fn_body = fn_body      # text of the enclosing fn body (for local let lookup)
        self.fn_params = fn_params  # dict name -> type
        self.params = {}            # free variables -> type (become parameters)
        self.bound = {}             # let-bound names in the emitted term -> type
        self.extra = extra_types or {}
        self.list_params = list_params or {}
        self.uses_self = False
        self.uses_S = False

    # ---- typing of free locals
    def local_type(self, name):
        if name in self.bound:
            return self.bound[name]
        if name in self.extra:
            return self.extra[name]
        if name in self.fn_params:
            return self.fn_params[name]
        if name in self.unit.consts:
            return self.unit.consts[name][0]
        # find `let [mut] name [: ty] = expr;` in the fn body
        m = re.search(r'\blet\s+(?:mut\s+)?%s\b\s*(:\s*[A-Za-z0-9_]+)?\s*=' % re.escape(name), self.fn_body)
        if not m:
            raise GenError("cannot type local %s" % name)
        if m.group(1):
            return m.group(1).strip(': ')
        end = stmt_end(self.fn_body, m.end(), len(self.fn_body))
        sub = Ctx(self.unit, self.selfrec, self.fn_body, self.fn_params, self.extra, self.list_params)
        e = parse_expr(self.fn_body[m.end():end])
        _, ty = sub.emit(e, None)
        return ty


def unify(a, b):
    if a == b:
        return a
    if a in ('f?',) and b in ('f64', 'f32', 'T'):
        return b
    if b in ('f?',) and a in ('f64', 'f32', 'T'):
        return a
    if a == 'i?' and b in ('usize', 'isize', 'f64', 'f32'):
        return b
    if b == 'i?' and a in ('usize', 'isize', 'f64', 'f32'):
        return a
    raise GenError("type mismatch %s vs %s" % (a, b))


ARITH = {
    'f64': {'+': 'cadd', '-': 'csub', '*': 'cmul', '/': 'cdiv'},
    'f32': {'+': 'add32', '-': 'sub32', '*': 'mul32', '/': 'div32'},
    'T': {'+': 'sadd', '-': 'ssub', '*': 'smul', '/': 'sdiv'},
    'usize': {'+': 'Z.add', '-': 'Z.sub', '*': 'Z.mul', '/': 'Z.quot', '%': 'Z.rem'},
    'isize': {'+': 'Z.add', '-': 'Z.sub', '*': 'Z.mul', '/': 'Z.quot', '%': 'Z.rem'},
}


def is_float_lit(text):
    t = text.replace('_', '')
    return ('.' in t) or t.endswith('f32') or t.endswith('f64') or ('e' in t.lower() and not t.lower().endswith('size'))


def emit_method(self, e, want):
    _, recv, name, args = e
    # self.interpolator.len() / nbr_sincs() / interpolator.len()
    if name in ('len', 'nbr_sincs') and not args:
        base = None
        if recv[0] == 'field' and recv[1] == ('path', ['self']):
            base = recv[2]
            self.uses_self = True
            fld = "%s_%s" % (base, name)
            if fld not in self.unit.structs.get(self.selfrec, {}):
                raise GenError("no pseudo-field %s in %s" % (fld, self.selfrec))
            return "(%s_%s self)" % (self.selfrec, fld), 'usize'
        if recv[0] == 'path' and len(recv[1]) == 1:
            pname = "%s_%s" % (recv[1][0], name)
            self.params.setdefault(pname, 'usize')
            return pname, 'usize'
        raise GenError("unsupported .%s() receiver" % name)
    if name in ('ceil', 'floor', 'round') and not args:
        r, ty = self.emit(recv, want if want in ('f64', 'f32') else None)
        if ty == 'f?':
            ty = 'f64'
            r, ty = self.emit(recv, 'f64')
        fn = {'f64': {'ceil': 'cceil', 'floor': 'cfloor', 'round': 'cround'},
              'f32': {'ceil': 'ceil32', 'floor': 'floor32'}}[ty][name]
        return "(%s %s)" % (fn, r), ty
    if name in ('max', 'min') and len(args) == 1:
        r, ty = self.emit(recv, want)
        a, ta = self.emit(args[0], ty)
        ty = unify(ty, ta)
        if ty == 'f64':
            return "(%s %s %s)" % ('cmax' if name == 'max' else 'cmin', r, a), ty
        if ty in ('usize', 'isize'):
            return "(%s %s %s)" % ('Z.max' if name == 'max' else 'Z.min', r, a), ty
        raise GenError("max/min on %s" % ty)
    if name == 'is_finite' and not args:
        r, ty = self.emit(recv, 'f64')
        return "(c_is_finite %s)" % r, 'bool'
    raise GenError("unsupported method .%s()" % name)


def emit(self, e, want):
    """Return (gallina, type).  `want` is a type hint for untyped literals."""
    k = e[0]
    if k == 'paren':
        return self.emit(e[1], want)
    if k == 'num':
        text = e[1]
        if is_float_lit(text):
            ty = 'f32' if text.endswith('f32') else ('f64' if text.endswith('f64') else (want if want in ('f64', 'f32') else None))
            if ty is None:
                if want == 'T':
                    raise GenError("bare float literal used at type T: %s" % text)
                return ('lit?', text), 'f?'
            m, ex, num, den = lit_parts(text, ty)
            fn = 'c_lit' if ty == 'f64' else 'lit32'
            return "(%s %s %s %s %s)" % (fn, zlit(m), zlit(ex), zlit(num), zlit(den)), ty
        t = text.replace('_', '')
        ty = None
        for suf in ('usize', 'isize'):
            if t.endswith(suf):
                ty = suf
                t = t[:-len(suf)]
        if ty is None:
            if want in ('usize', 'isize'):
                ty = want
            elif want in ('f64', 'f32'):
                raise GenError("integer literal at float type: %s" % text)
            else:
                return ('int?', t), 'i?'
        return zlit(int(t)), ty
    if k == 'path':
        p = e[1]
        if p == ['self']:
            raise GenError("bare self")
        if len(p) == 1:
            name = p[0]
            if name in self.unit.consts and name not in self.bound:
                return name, self.unit.consts[name][0]
            ty = self.local_type(name)
            if name not in self.bound:
                self.params.setdefault(name, ty)
            if ty == 'T':
                self.uses_S = True
            return name, ty
        if p == ['f64', 'MIN_POSITIVE']:
            return "c_min_positive", 'f64'
        if p == ['T', 'PI']:
            raise GenError("T::PI outside the supported subset")
        raise GenError("unsupported path %s" % '::'.join(p))
    if k == 'field':
        if e[1] == ('path', ['self']):
            fld = e[2]
            st = self.unit.structs.get(self.selfrec)
            if st is None or fld not in st:
                raise GenError("unknown field self.%s (%s)" % (fld, self.selfrec))
            self.uses_self = True
            return "(%s_%s self)" % (self.selfrec, fld), st[fld]
        if e[1][0] == 'path' and len(e[1][1]) == 1 and e[2].isdigit():
            key = "%s.%s" % (e[1][1][0], e[2])
            if key in self.extra:
                pname = "%s_%s" % (e[1][1][0], e[2])
                self.params.setdefault(pname, self.extra[key])
                return pname, self.extra[key]
        raise GenError("unsupported field access .%s" % e[2])
    if k == 'index':
        base, idx = e[1], e[2]
        if base[0] == 'path' and len(base[1]) == 1 and base[1][0] in self.list_params and idx[0] == 'num':
            name = base[1][0]
            ety = self.list_params[name]
            self.params.setdefault(name, 'list:' + ety)
            if ety == 'T':
                self.uses_S = True
            zero = {'T': 'szero'}[ety]
            return "(nth %d %s %s)" % (int(idx[1]), name, zero), ety
        raise GenError("unsupported indexing")
    if k == 'un':
        op, a = e[1], e[2]
        if op == '!':
            r, ty = self.emit(a, 'bool')
            return "(negb %s)" % r, 'bool'
        r, ty = self.emit(a, want)
        if ty == 'f?':
            # negative literal
            if want in ('f64', 'f32'):
                return self.emit(e, want)
            return ('neg?', r), 'f?'
        if ty == 'i?':
            if want in ('usize', 'isize'):
                r, ty = self.emit(a, want)
            else:
                return ('negi?', r), 'i?'
        fn = {'f64': 'copp', 'f32': 'opp32', 'T': 'sopp', 'usize': 'Z.opp', 'isize': 'Z.opp'}[ty]
        if ty == 'f32':
            raise GenError("unary minus on f32 unsupported")
        if ty == 'T':
            self.uses_S = True
        return "(%s %s)" % (fn, r), ty
    if k == 'cast':
        inner, ty = e[1], e[2]
        hint = None
        r, ity = self.emit(inner, hint)
        if ity == 'i?':
            # integer literal cast
            r, ity = self.emit(inner, 'isize')
        if ity == 'f?':
            r, ity = self.emit(inner, 'f64')
        if ity == ty:
            return r, ty
        table = {('usize', 'f64'): 'c_of_Z', ('isize', 'f64'): 'c_of_Z',
                 ('f64', 'usize'): 'c_to_usize', ('f64', 'isize'): 'c_to_isize',
                 ('f64', 'f32'): 'to32', ('f32', 'f64'): 'of32',
                 ('usize', 'f32'): 'c32_of_Z', ('f32', 'usize'): 'c32_to_usize'}
        if (ity, ty) in (('usize', 'isize'), ('isize', 'usize')):
            return r, ty
        if (ity, ty) not in table:
            raise GenError("unsupported cast %s as %s" % (ity, ty))
        return "(%s %s)" % (table[(ity, ty)], r), ty
    if k == 'bin':
        op, l, r = e[1], e[2], e[3]
        if op in ('&&', '||'):
            a, _ = self.emit(l, 'bool')
            b, _ = self.emit(r, 'bool')
            return "(%s %s %s)" % ('andb' if op == '&&' else 'orb', a, b), 'bool'
        if op in ('<', '>', '<=', '>=', '==', '!='):
            a, ta = self.emit(l, None)
            b, tb = self.emit(r, ta if ta not in ('f?', 'i?') else None)
            if ta in ('f?', 'i?'):
                a, ta = self.emit(l, tb)
            ty = unify(ta, tb)
            if ty in ('f?',):
                ty = 'f64'
                a, _ = self.emit(l, ty)
                b, _ = self.emit(r, ty)
            if ty == 'f64':
                m = {'<': "(cltb %s %s)" % (a, b), '>': "(cltb %s %s)" % (b, a),
                     '<=': "(cleb %s %s)" % (a, b), '>=': "(cleb %s %s)" % (b, a)}
                if op not in m:
                    raise GenError("float ==/!= unsupported")
                return m[op], 'bool'
            if ty in ('usize', 'isize', 'i?'):
                m = {'<': "(Z.ltb %s %s)", '>': "(Z.gtb %s %s)", '<=': "(Z.leb %s %s)",
                     '>=': "(Z.geb %s %s)", '==': "(Z.eqb %s %s)", '!=': "(negb (Z.eqb %s %s))"}
                return m[op] % (a, b), 'bool'
            raise GenError("comparison at type %s" % ty)
        # arithmetic
        a, ta = self.emit(l, want)
        b, tb = self.emit(r, ta if ta not in ('f?', 'i?') else want)
        if ta in ('f?', 'i?') and tb not in ('f?', 'i?'):
            a, ta = self.emit(l, tb)
        ty = unify(ta, tb)
        if ty == 'f?':
            if want in ('f64', 'f32'):
                return self.emit(e, want) if want != want else self._force(e, want)
            return ('bin?', op, l, r), 'f?'
        if ty == 'i?':
            if want in ('usize', 'isize'):
                return self._force(e, want)
            return ('bini?', op, l, r), 'i?'
        if op not in ARITH[ty]:
            raise GenError("operator %s at type %s" % (op, ty))
        if ty == 'T':
            self.uses_S = True
        return "(%s %s %s)" % (ARITH[ty][op], a, b), ty
    if k == 'macro':
        name, args = e[1], e[2]
        if name == 't' and len(args) == 1:
            return self.emit(('call', ['T', 'coerce'], args), want)
        raise GenError("unsupported macro %s!" % name)
    if k == 'call':
        p, args = e[1], e[2]
        if p == ['T', 'coerce'] and len(args) == 1:
            self.uses_S = True
            r, ty = self.emit(args[0], None)
            if ty == 'f?':
                r, ty = self._force(args[0], 'f64')
            if ty == 'i?':
                r, ty = self._force(args[0], 'usize')
            fn = {'f64': 'coerce', 'f32': 'coerce32', 'usize': 's_of_Z'}.get(ty)
            if fn is None:
                raise GenError("T::coerce of %s" % ty)
            return "(%s %s)" % (fn, r), 'T'
        if p == ['T', 'one'] and not args:
            self.uses_S = True
            return "sone", 'T'
        if p == ['T', 'zero'] and not args:
            self.uses_S = True
            return "szero", 'T'
        if p[-1] == 'gcd' and len(args) == 2:
            a, _ = self.emit(args[0], 'usize')
            b, _ = self.emit(args[1], 'usize')
            return "(Z.gcd %s %s)" % (a, b), 'usize'
        raise GenError("unsupported call %s" % '::'.join(p))
    if k == 'mcall':
        return emit_method(self, e, want)
    if k == 'if':
        c, _ = self.emit(e[1], 'bool')
        a, ta = self.emit(e[2], want)
        b, tb = self.emit(e[3], ta if ta not in ('f?', 'i?') else want)
        ty = unify(ta, tb)
        if ty in ('f?', 'i?'):
            raise GenError("untyped if")
        return "(if %s then %s else %s)" % (c, a, b), ty
    if k == 'let':
        _, name, ty, rhs, body = e
        r, rty = self.emit(rhs, ty)
        if rty == 'f?':
            r, rty = self._force(rhs, ty or 'f64')
        if rty == 'i?':
            r, rty = self._force(rhs, ty or 'usize')
        saved = self.bound.get(name)
        self.bound[name] = rty
        b, bty = self.emit(body, want)
        if bty in ('f?', 'i?'):
            b, bty = self._force(body, want)
        if saved is None:
            del self.bound[name]
        else:
            self.bound[name] = saved
        return "(let %s := %s in\n   %s)" % (name, r, b), bty
    raise GenError("unsupported node %s" % k)


def _force(self, e, ty):
    r, t = self.emit(e, ty)
    if t in ('f?', 'i?'):
        raise GenError("cannot resolve literal type (%s) in %r" % (ty, e))
    return r, t


Ctx.emit = emit
Ctx._force = _force

COQTY = {'f64': 'cnum', 'f32': 'c32', 'usize': 'Z', 'isize': 'Z', 'T': 'snum', 'bool': 'bool',
         'list:T': 'list snum'}


# --------------------------------------------------------------------------
# Units (one per Rust file)
# --------------------------------------------------------------------------
SCALAR = {'usize': 'usize', 'isize': 'isize', 'f64': 'f64', 'f32': 'f32', 'bool': 'bool'}


class Unit:
    def __init__(self, repo, relpath):
        self.path = os.path.join(repo, relpath)
        self.rel = relpath
        raw = open(self.path).read()
        # cut the test module and the verification hooks away
        m = re.search(r'\n#\[cfg\(test\)\]\s*\nmod tests', raw)
        if m:
            raw = raw[:m.start()]
        m = re.search(r'\n/// Verification hooks', raw)
        if m:
            raw = raw[:m.start()]
        self.src = strip_comments(raw)
        self.consts = {}
        for m in re.finditer(r'\bconst\s+([A-Z_0-9]+)\s*:\s*(usize|isize|f64)\s*=\s*([^;]+);', self.src):
            self.consts[m.group(1)] = (m.group(2), m.group(3).strip())
        self.structs = {}
        for m in re.finditer(r'\bstruct\s+([A-Za-z0-9_]+)\s*(?:<[^>]*>)?\s*\{', self.src):
            name = m.group(1)
            ob = m.end() - 1
            cb = match_brace(self.src, ob)
            fields = {}
            for fm in re.finditer(r'(?:pub\s+)?([a-z_0-9]+)\s*:\s*([^,\n]+),', self.src[ob + 1:cb]):
                fname, fty = fm.group(1), fm.group(2).strip()
                if fty in SCALAR:
                    fields[fname] = fty
                elif fty.startswith('Box<dyn SincInterpolator'):
                    fields[fname + '_len'] = 'usize'
                    fields[fname + '_nbr_sincs'] = 'usize'
            self.structs[name] = fields


def fn_params(sig_text):
    out = {}
    st = sig_text.find('(')
    if st < 0:
        return out
    depth, en = 0, st
    for en in range(st, len(sig_text)):
        if sig_text[en] == '(':
            depth += 1
        elif sig_text[en] == ')':
            depth -= 1
            if depth == 0:
                break
    inner = sig_text[st + 1:en]
    depth = 0
    cur = ''
    parts = []
    for c in inner:
        if c in '<([':
            depth += 1
        elif c in '>)]':
            depth -= 1
        if c == ',' and depth == 0:
            parts.append(cur)
            cur = ''
        else:
            cur += c
    parts.append(cur)
    for p in parts:
        if ':' in p:
            n, t = p.split(':', 1)
            n = n.replace('mut', '').strip()
            t = t.strip()
            t = re.sub(r'^&\s*(mut\s+)?', '', t)
            out[n] = t
    return out


class Site:
    def __init__(self, name, file, impl, fn, kind, **kw):
        self.name, self.file, self.impl, self.fn, self.kind = name, file, impl, fn, kind
        self.kw = kw


def locate(unit, site):
    """Return (expression text or block text, fn body text, fn params)."""
    src = unit.src
    sig_start, a, b = fn_span(src, site.impl, site.fn)
    params = fn_params(src[sig_start:a])
    body = src[a:b]
    wa, wb = narrow(src, a, b, site.kw.get('within'))
    region = src[wa:wb]
    kind = site.kind
    nth = site.kw.get('nth', 0)

    def pick(ms, what):
        if nth == -1:
            if not ms:
                raise GenError("%s: %s not found" % (site.name, what))
            return ms[-1]
        if len(ms) <= nth:
            raise GenError("%s: %s not found (occurrence %d)" % (site.name, what, nth))
        if site.kw.get('unique', True) and len(ms) != nth + 1 and 'nth' not in site.kw:
            raise GenError("%s: %s ambiguous (%d occurrences)" % (site.name, what, len(ms)))
        return ms[nth]

    if kind == 'body':
        return region.strip(), body, params, 'block'
    if kind == 'let':
        var = site.kw['var']
        ms = list(re.finditer(r'\blet\s+(?:mut\s+)?%s\b\s*(?::\s*[A-Za-z0-9_<>]+\s*)?=' % re.escape(var), region))
        m = pick(ms, "let " + var)
        end = stmt_end(region, m.end(), len(region))
        return region[m.end():end].strip(), body, params, 'expr'
    if kind == 'assign':
        tgt = site.kw['target']
        ms = list(re.finditer(r'(?<![A-Za-z0-9_.])%s\s*=(?!=)' % re.escape(tgt), region))
        m = pick(ms, "assignment to " + tgt)
        end = stmt_end(region, m.end(), len(region))
        return region[m.end():end].strip(), body, params, 'expr'
    if kind == 'opassign':
        tgt = site.kw['target']
        ms = list(re.finditer(r'(?<![A-Za-z0-9_.])%s\s*([-+*/])=' % re.escape(tgt), region))
        m = pick(ms, "compound assignment to " + tgt)
        end = stmt_end(region, m.end(), len(region))
        return "%s %s (%s)" % (tgt, m.group(1), region[m.end():end].strip()), body, params, 'expr'
    if kind in ('ifcond', 'whilecond'):
        kw = 'if' if kind == 'ifcond' else 'while'
        ms = list(re.finditer(r'\b%s\b(?!\s+let)' % kw, region))
        m = pick(ms, kw)
        # condition runs to the `{` at depth 0
        depth, i = 0, m.end()
        while True:
            c = region[i]
            if c in '([':
                depth += 1
            elif c in ')]':
                depth -= 1
            elif c == '{' and depth == 0:
                break
            i += 1
        return region[m.end():i].strip(), body, params, 'expr'
    if kind == 'forbound':
        ms = list(re.finditer(r'\bfor\s+\w+\s+in\s+0\s*\.\.', region))
        m = pick(ms, "for 0..")
        depth, i = 0, m.end()
        while True:
            c = region[i]
            if c in '([':
                depth += 1
            elif c in ')]':
                depth -= 1
            elif c == '{' and depth == 0:
                break
            i += 1
        return region[m.end():i].strip(), body, params, 'expr'
    if kind == 'field_init':
        fld = site.kw['field']
        ms = list(re.finditer(r'(?<![A-Za-z0-9_.])%s\s*:(?!:)' % re.escape(fld), region))
        m = pick(ms, "field initialiser " + fld)
        depth, i = 0, m.end()
        while i < len(region):
            c = region[i]
            if c in '([{':
                depth += 1
            elif c in ')]}':
                if depth == 0:
                    break
                depth -= 1
            elif c == ',' and depth == 0:
                break
            i += 1
        return region[m.end():i].strip(), body, params, 'expr'
    if kind == 'callarg':
        callee = site.kw['callee']
        argi = site.kw['arg']
        cre = site.kw.get('callee_re') or re.escape(callee)
        ms = list(re.finditer(r'%s\s*\(' % cre, region))
        m = pick(ms, "call of " + callee)
        depth, i, start, args = 0, m.end(), m.end(), []
        while True:
            c = region[i]
            if c in '([{':
                depth += 1
            elif c in ')]}':
                if depth == 0:
                    args.append(region[start:i])
                    break
                depth -= 1
            elif c == ',' and depth == 0:
                args.append(region[start:i])
                start = i + 1
            i += 1
        if argi >= len(args):
            raise GenError("%s: call has %d args" % (site.name, len(args)))
        txt = args[argi].strip()
        txt = re.sub(r'^&\s*(mut\s+)?', '', txt)
        return txt, body, params, 'expr'
    if kind in ('range_lo', 'range_hi'):
        # the first `a..b` inside [...] or (...) following a marker
        marker = site.kw['marker']
        ms = list(re.finditer(marker, region))
        m = pick(ms, "range marker " + marker)
        depth, i, start = 0, m.end(), m.end()
        dots = None
        while True:
            c = region[i]
            if c in '([{':
                depth += 1
            elif c in ')]}':
                if depth == 0:
                    break
                depth -= 1
            elif c == ',' and depth == 0 and dots is not None:
                break
            elif region.startswith('..', i) and depth == 0 and dots is None:
                dots = i
            i += 1
        if dots is None:
            raise GenError("%s: no range after marker" % site.name)
        lo, hi = region[start:dots].strip(), region[dots + 2:i].strip()
        if hi.startswith('='):
            raise GenError("inclusive range unsupported")
        return (lo if kind == 'range_lo' else hi), body, params, 'expr'
    if kind == 'const':
        c = site.kw['const']
        if c not in unit.consts:
            raise GenError("const %s not found" % c)
        return unit.consts[c][1], body, params, 'expr'
    raise GenError("unknown site kind %s" % kind)


def gen_site(unit, site):
    text, body, params, shape = locate(unit, site)
    if site.kw.get('pre'):
        m = re.search(site.kw['pre'], text, re.S)
        if not m:
            raise GenError("%s: pattern %s not found in %r" % (site.name, site.kw['pre'], text[:60]))
        text = m.group(1)
    fparams = {}
    for n, t in params.items():
        t = t.strip()
        if t in SCALAR or t == 'T':
            fparams[n] = t
    list_params = site.kw.get('lists', {})
    ctx = Ctx(unit, site.kw.get('selfrec'), body, fparams, site.kw.get('types'), list_params)
    e = parse_block(text) if shape == 'block' else parse_expr(text)
    want = site.kw.get('ty')
    g, ty = ctx.emit(e, want)
    if ty in ('f?', 'i?'):
        g, ty = ctx._force(e, want or ('f64' if ty == 'f?' else 'usize'))
    if want and ty != want:
        raise GenError("%s: expected type %s, source has %s" % (site.name, want, ty))
    args = []
    if ctx.selfrec:
        args.append("(self : %s)" % ctx.selfrec)
    for n in sorted(ctx.params):
        args.append("(%s : %s)" % (n, COQTY[ctx.params[n]]))
    sig = " ".join(args)
    d = "(* %s :: %s :: fn %s :: %s %s *)\nDefinition %s %s : %s :=\n  %s.\n" % (
        unit.rel, site.impl or '-', site.fn, site.kind,
        json.dumps({k: v for k, v in site.kw.items() if k in ('var', 'target', 'nth', 'callee', 'arg', 'marker', 'const')}),
        site.name, sig, COQTY[ty], g)
    return d, {'name': site.name, 'type': ty, 'params': {n: ctx.params[n] for n in sorted(ctx.params)},
               'self': ctx.selfrec if ctx.uses_self else None, 'source': text}


def gen_record(unit, sname):
    fields = unit.structs[sname]
    lines = ["Record %s : Type := mk_%s {" % (sname, sname)]
    items = ["  %s_%s : %s" % (sname, f, COQTY[t]) for f, t in fields.items()]
    lines.append(";\n".join(items))
    lines.append("}.")
    dflt = {'Z': '0', 'cnum': '(c_of_Z 0)', 'c32': '(c32_of_Z 0)', 'bool': 'false'}
    lines.append("Definition default_%s : %s := mk_%s %s." % (sname, sname, sname, " ".join(dflt[COQTY[t]] for t in fields.values())))
    # setters
    for f in fields:
        args = " ".join("(%s_%s s)" % (sname, g) if g != f else "v" for g in fields)
        lines.append("Definition set_%s_%s (s : %s) (v : %s) : %s := mk_%s %s." % (
            sname, f, sname, COQTY[fields[f]], sname, sname, args))
    return "\n".join(lines) + "\n"


HEADER = """(* GENERATED by tools/rs2v.py from /repo/src/%s -- do not edit. *)
From Coq Require Import ZArith List Bool.
From Rubato.Model Require Import Num.
Import ListNotations.
Local Open Scope Z_scope.

Section Gen.
Context {C : CNum} {S : SNum C}.

"""


def generate(repo, outdir, spec):
    """spec: list of (relpath, module name, [struct names], [Site...]).  Returns report dict."""
    report = {'sites': [], 'errors': []}
    os.makedirs(outdir, exist_ok=True)
    for rel, mod, structs, sites in spec:
        unit = Unit(os.path.join(repo, 'src'), rel)
        out = [HEADER % rel]
        for cname, (cty, ctext) in unit.consts.items():
            try:
                ctx = Ctx(unit, None, '', {})
                g, ty = ctx._force(parse_expr(ctext), cty)
                out.append("Definition %s : %s := %s.\n" % (cname, COQTY[cty], g))
            except GenError as ex:
                report['errors'].append({'site': 'const:' + cname, 'error': str(ex)})
        for s in structs:
            if s not in unit.structs:
                report['errors'].append({'site': 'struct:' + s, 'error': 'struct not found'})
                continue
            out.append(gen_record(unit, s))
        for site in sites:
            try:
                d, info = gen_site(unit, site)
                out.append(d)
                info['file'] = rel
                report['sites'].append(info)
            except GenError as ex:
                report['errors'].append({'site': site.name, 'error': str(ex)})
            except Exception as ex:  # parser index errors etc.
                report['errors'].append({'site': site.name, 'error': "%s: %s" % (type(ex).__name__, ex)})
        out.append("End Gen.\n")
        text = "\n".join(out)
        path = os.path.join(outdir, mod + ".v")
        old = open(path).read() if os.path.exists(path) else None
        if old != text:
            open(path, 'w').write(text)
    return report


if __name__ == '__main__':
    sys.path.insert(0, os.path.dirname(os.path.abspath(__file__)))
    import sites
    repo = sys.argv[1] if len(sys.argv) > 1 else '/repo'
    outdir = sys.argv[2] if len(sys.argv) > 2 else os.path.join(os.path.dirname(os.path.abspath(__file__)), '..', 'coq', 'Gen')
    rep = generate(repo, outdir, sites.SPEC)
    extra = sites.summaries(repo, outdir)
    rep.update(extra)
    json.dump(rep, open(os.path.join(outdir, 'report.json'), 'w'), indent=1)
    for e in rep['errors']:
        print("GEN-ERROR %s: %s" % (e['site'], e['error']))
    print("generated %d sites, %d errors" % (len(rep['sites']), len(rep['errors'])))
    sys.exit(1 if rep['errors'] else 0)
