#!/usr/bin/env python3
"""check <property id> [--tier quick|thorough] [--replay <file>]

Protocol (DESIGN.md section 6): regenerate the formula layer from /repo, rebuild the
property's theorems (full .vo), audit axioms, run the correspondence between the extracted
model and the real crate on the component slice of the property, evaluate the property's
executable predicate on the implementation traces, write evidence, exit 0/1.
"""
import os, sys, json, time, re, shutil, traceback
sys.path.insert(0, os.path.dirname(os.path.abspath(__file__)))
import vlib
from vlib import *
import props

STD_AXIOMS = {
    'ClassicalDedekindReals.sig_forall_dec', 'ClassicalDedekindReals.sig_not_dec', 'FunctionalExtensionality.functional_extensionality_dep',
    'Classical_Prop.classic', 'ClassicalEpsilon.constructive_indefinite_description',
    'PropExtensionality.propositional_extensionality', 'ProofIrrelevance.proof_irrelevance',
    'Eqdep.Eq_rect_eq.eq_rect_eq', 'JMeq.JMeq_eq',
}
FORBIDDEN = re.compile(r'\b(Admitted|admit|Axiom|Parameter|Conjecture|Unset\s+Guard|bypass_check|Admit\s+Obligations|type-in-type|impredicative-set)\b')


def grep_forbidden():
    hits = []
    for root, _, fs in os.walk(COQ):
        for f in fs:
            if f.endswith('.v'):
                p = os.path.join(root, f)
                txt = open(p).read()
                txt = re.sub(r'\(\*.*?\*\)', ' ', txt, flags=re.S)
                for m in FORBIDDEN.finditer(txt):
                    hits.append("%s: %s" % (os.path.relpath(p, COQ), m.group(0)))
                # Variable / Hypothesis outside sections
                depth = 0
                for line in txt.split('\n'):
                    s = line.strip()
                    if re.match(r'Section\s', s):
                        depth += 1
                    elif re.match(r'End\s', s) and depth > 0:
                        depth -= 1
                    elif depth == 0 and re.match(r'(Variables?|Hypothes[ie]s|Context)\b', s):
                        hits.append("%s: %s outside a section" % (os.path.relpath(p, COQ), s[:40]))
    return hits


def audit_props(pid):
    """Re-check Props/<pid>.v into a scratch directory and parse its Print Assumptions output."""
    scratch = os.path.join(BUILD, 'audit', pid)
    shutil.rmtree(scratch, ignore_errors=True)
    os.makedirs(scratch)
    src = os.path.join(COQ, 'Props', pid + '.v')
    rc, out = sh("timeout 900 coqc -Q %s Rubato -o %s %s" % (COQ, os.path.join(scratch, pid + '.vo'), src), cwd=COQ, timeout=1000)
    open(os.path.join(scratch, 'log.txt'), 'w').write(out)
    axioms = set()
    closed = 0
    blocks = re.split(r'\n(?=Axioms:|Closed under the global context)', "\n" + out)
    for b in blocks:
        if b.startswith('Closed under'):
            closed += 1
        elif b.startswith('Axioms:'):
            for line in b.split('\n')[1:]:
                m = re.match(r'^([A-Za-z_][A-Za-z0-9_.\']*)\s*(:|$)', line)
                if m:
                    axioms.add(m.group(1))
    src_txt = open(src).read()
    theorems = re.findall(r'^\s*(?:Theorem|Corollary)\s+([A-Za-z0-9_\']+)', src_txt, flags=re.M)
    n_print = len(re.findall(r'^\s*Print Assumptions', src_txt, flags=re.M))
    return {'ok': rc == 0, 'log': out[-3000:], 'axioms': sorted(axioms), 'closed': closed, 'theorems': theorems, 'n_print': n_print}


def coqchk_props(pid):
    """Thorough tier: re-check the compiled closure of Props/<pid>.vo with the independent checker; list the axioms."""
    rc, out = sh("timeout 3000 coqchk -o -silent -Q %s Rubato Rubato.Props.%s" % (COQ, pid), cwd=COQ, timeout=3100)
    axioms, bad = [], []
    section = None
    watched = ('type-in-type', 'unsafe', 'positivity')
    for line in out.split('\n'):
        t = line.strip()
        if t.startswith('* '):
            head = t[2:]
            section = head.split(':')[0]
            rest = head.split(':', 1)[1].strip() if ':' in head else ''
            if any(w in section for w in watched) and rest and rest != '<none>':
                bad.append(head)
            continue
        if not t or t.startswith('CONTEXT'):
            continue
        if section == 'Axioms':
            axioms.append(t)
        elif section and any(w in section for w in watched):
            bad.append("%s: %s" % (section, t))
    return {'ok': rc == 0, 'axioms': axioms, 'bad': bad, 'log': out[-1500:]}


def build_everything(pid, need_model=True):
    """Returns dict of obligations: name -> (ok, detail)."""
    obl = {}
    with Lock('build'):
        t = time.time()
        try:
            rep = regenerate()
        except Exception as ex:
            rep = {'sites': [], 'errors': [{'site': 'translator', 'error': repr(ex)}]}
        for e in rep['errors']:
            obl['gen:' + e['site']] = (False, e['error'])
        obl['gen:all-sites'] = (not rep['errors'], "%d sites regenerated" % len(rep['sites']))
        targets = ['Props/%s.vo' % pid]
        ok, log = coq_make(targets)
        obl['thm:Props/%s.vo' % pid] = (ok, log[-2500:] if not ok else 'built')
        if need_model:
            okm, logm = coq_make(MODEL_VO)
            obl['model:build'] = (okm, logm[-2500:] if not okm else 'built')
            if okm:
                okx, logx = build_model_exe()
                obl['model:extract'] = (okx, logx[-2000:] if not okx else 'built')
        okh, logh = build_harness()
        obl['impl:harness-build'] = (okh, logh[-2500:] if not okh else 'built')
    return obl, rep


def golden_verdicts(res):
    """case name -> (sha of its spec, sorted classes of its predicate failures)"""
    import hashlib
    out = {}
    fails = {}
    for f in res.get('failures', []):
        fails.setdefault(f['case'], set()).add(f.get('class') or 'unclassified')
    for name, spec in res.get('specs', {}).items():
        out[name] = (hashlib.sha256("\n".join(spec).encode()).hexdigest()[:16], sorted(fails.get(name, [])))
    return out


def main():
    args = sys.argv[1:]
    if not args:
        print(__doc__)
        sys.exit(2)
    pid = args[0]
    tier = os.environ.get('VERIF_TIER', 'quick')
    replay = None
    i = 1
    while i < len(args):
        if args[i] == '--tier':
            tier = args[i + 1]
            i += 2
        elif args[i] == '--replay':
            replay = args[i + 1]
            i += 2
        else:
            i += 1
    if tier not in ('quick', 'thorough'):
        tier = 'quick'
    t0 = time.time()
    seed, rng = seed_for(pid)
    P = props.PROPS[pid]
    outdir = os.path.join(RUNS, pid + '_' + tier)
    shutil.rmtree(outdir, ignore_errors=True)
    os.makedirs(outdir, exist_ok=True)
    replay_dir = os.path.join(VERIF, 'build', 'replay')
    os.makedirs(replay_dir, exist_ok=True)

    obl, genrep = build_everything(pid)
    broken = [k for k, (ok, _) in obl.items() if not ok]

    # ---- audit
    audit = {'ok': False, 'axioms': [], 'theorems': [], 'closed': 0, 'n_print': 0, 'log': ''}
    if obl.get('thm:Props/%s.vo' % pid, (False,))[0]:
        audit = audit_props(pid)
        allowed = STD_AXIOMS | set(P.get('extra_axioms', []))
        bad = [a for a in audit['axioms'] if a not in allowed]
        obl['audit:assumptions'] = (audit['ok'] and not bad, "axioms: %s; unexpected: %s" % (audit['axioms'], bad))
        forb = grep_forbidden()
        obl['audit:no-admitted-or-axiom'] = (not forb, "; ".join(forb[:10]))
        missing = [t for t in P.get('pinned', []) if t not in audit['theorems']]
        obl['audit:pinned-theorems-present'] = (not missing, "missing: %s" % missing)
        if tier == 'thorough' and not replay:
            ck = coqchk_props(pid)
            short = {a.split('.')[-1] for a in ck['axioms']}
            allowed_short = {a.split('.')[-1] for a in allowed}
            extra = sorted(short - allowed_short)
            obl['audit:coqchk'] = (ck['ok'] and not extra and not ck['bad'],
                                   "coqchk -o on Rubato.Props.%s: axioms of the loaded closure %s; not allowed: %s; other: %s%s"
                                   % (pid, sorted(short), extra, ck['bad'], '' if ck['ok'] else ' | ' + ck['log'][-600:]))
        for tname in audit['theorems']:
            obl['thm:' + tname] = (True, 'Qed, re-checked by coqc')
    # generated-summary obligations (C09 / C18)
    for name, fn in P.get('gen_obligations', {}).items():
        try:
            ok, detail = fn(genrep)
        except Exception as ex:
            ok, detail = False, repr(ex)
        obl['gen:' + name] = (ok, detail)
    broken = [k for k, (ok, _) in obl.items() if not ok]

    # ---- correspondence + predicates on implementation traces
    impl_ok = obl.get('impl:harness-build', (False,))[0]
    model_ok = obl.get('model:extract', (False,))[0]
    ctx = props.Ctx(pid, tier, rng, outdir, with_model=model_ok)
    results = {'cases': [], 'failures': [], 'known': [], 'disagreements': [], 'dist': {}, 'samples': []}
    if impl_ok:
        try:
            if replay:
                results = props.run_replay(ctx, P, replay)
            else:
                results = P['run'](ctx)
        except Exception as ex:
            traceback.print_exc()
            obl['run:driver'] = (False, repr(ex))
    # ---- an obligation broke and the sampled traces show no failure: search harder for a concrete failing input
    pre_broken = [k for k, (ok, _) in obl.items() if not ok] + [d['component'] for d in results.get('disagreements', [])]
    kf0 = json.load(open(os.path.join(VERIF, 'known_findings.json')))
    known0 = {f['class'] for f in kf0.get('findings', []) if f['property'] == pid}
    unknown0 = [f for f in results.get('failures', []) if f.get('class') not in known0]
    if impl_ok and pre_broken and not unknown0 and not replay and tier == 'quick':
        try:
            sctx = props.Ctx(pid, 'thorough', rng.fork('search'), os.path.join(outdir, 'search'), with_model=False)
            sres = P.get('search', P['run'])(sctx)
            results['failures'] = results.get('failures', []) + sres.get('failures', [])
            results['searched'] = 'thorough-tier generation (%d histories) on the implementation after the obligation broke' % sres.get('n_eval', 0)
            results['n_eval'] = results.get('n_eval', 0) + sres.get('n_eval', 0)
        except Exception as ex:
            traceback.print_exc()
    for d in results.get('disagreements', []):
        obl['corr:' + d['component']] = (False, json.dumps(d)[:500])
    for comp in results.get('components', []):
        obl.setdefault('corr:' + comp, (True, 'model and implementation agree bit for bit on every history of this run'))
    broken = [k for k, (ok, _) in obl.items() if not ok]

    # ---- golden verdicts: histories generated from fixed seeds whose verdict on the pinned tree is recorded in
    # corpus/golden_<pid>.json.  A recorded finding is identified by the inputs that failed there: a history that
    # passed the property's predicate on the pinned tree and fails it now is a *different* violation, even when its
    # failure falls into a recorded class.
    gpath = os.path.join(VERIF, 'corpus', 'golden_%s.json' % pid)
    if os.path.exists(gpath) and impl_ok and not replay:
        try:
            golden = json.load(open(gpath))
            for gseed in golden['seeds']:
                gctx = props.Ctx(pid, 'quick', Rng(gseed), os.path.join(outdir, 'golden_%d' % gseed), with_model=False)
                gctx.golden = True
                gres = P['run'](gctx)
                now = golden_verdicts(gres)
                rec = golden['verdicts'].get(str(gseed), {})
                for name, (sha, classes) in now.items():
                    g = rec.get(name)
                    if g is None or g['sha'] != sha:
                        continue                    # the generator changed: this history has no recorded verdict
                    if classes and not g['classes']:
                        f = dict(next(x for x in gres['failures'] if x['case'] == name))
                        f['message'] = "this history satisfied the property on the pinned tree and fails now: " + f.get('message', '')
                        f['class'] = None
                        f['golden_pass'] = True
                        results.setdefault('failures', []).append(f)
                results['n_eval'] = results.get('n_eval', 0) + gres.get('n_eval', 0)
                results.setdefault('dist', {})['golden_histories_%d' % gseed] = len(now)
                results['dist']['golden_with_recorded_verdict_%d' % gseed] = sum(1 for n_, (sh_, _) in now.items() if rec.get(n_, {}).get('sha') == sh_)
        except Exception as ex:
            traceback.print_exc()
            obl['run:golden'] = (False, repr(ex))
            broken = [k for k, (ok, _) in obl.items() if not ok]
    # ---- known findings: replay stored witnesses, print one line per listed finding
    kf = json.load(open(os.path.join(VERIF, 'known_findings.json')))
    listed = [f for f in kf.get('findings', []) if f['property'] == pid]
    known_classes = {f['class'] for f in listed}
    kf_status = []
    if listed and impl_ok:
        wcases = []
        for f in listed:
            wp = os.path.join(VERIF, f['witness'])
            if os.path.exists(wp):
                wcases.append(Case("kfw_" + f['class'], [l.rstrip('\n') for l in open(wp) if l.strip()], {'finding': f}))
        if wcases:
            run_cases(wcases, os.path.join(outdir, 'known'), with_model=False, timeout=120)
            for wc in wcases:
                try:
                    wc.trace = parse_trace(wc.impl_path, wc.hist_path)
                    still = props.witness_fails(pid, wc)
                except Exception as ex:
                    still = None
                kf_status.append({'class': wc.meta['finding']['class'], 'witness': wc.meta['finding']['witness'], 'still_fails': still})
    for f in listed:
        st = [k for k in kf_status if k['class'] == f['class']]
        note = '' if not st or st[0]['still_fails'] else ' (stored witness no longer fails on this tree)'
        print("KNOWN-FINDING: property=%s %s [class %s]%s" % (pid, f['what'], f['class'], note))

    failures = results.get('failures', [])
    unknown = [f for f in failures if f.get('class') not in known_classes]
    known_hits = [f for f in failures if f.get('class') in known_classes]

    # ---- decide
    violation = None
    if unknown:
        f = unknown[0]
        rp = os.path.join(replay_dir, "%s_%s.spec" % (pid, f.get('case', 'case')))
        try:
            if f.get('spec_path') and os.path.exists(f['spec_path']):
                shutil.copy(f['spec_path'], rp)
                if f.get('golden_pass'):
                    body = open(rp).read()
                    open(rp, 'w').write("#golden-pass (recorded verdict on the pinned tree: the property's predicate held)\n" + body)
                if f.get('hist_path') and os.path.exists(f['hist_path']):
                    shutil.copy(f['hist_path'], rp + '.hist')
            else:
                open(rp, 'w').write(json.dumps(f, indent=1))
        except Exception:
            open(rp, 'w').write(json.dumps(f, indent=1, default=str))
        open(rp + '.why.json', 'w').write(json.dumps(f, indent=1, default=str))
        violation = (rp, False, f.get('message', ''))
    elif broken:
        # an obligation no longer checks and no concrete failing input was found
        rp = os.path.join(replay_dir, "%s_obligation.json" % pid)
        json.dump({'property': pid, 'broken': {k: obl[k][1] for k in broken},
                   'searched': results.get('searched', 'predicates on all implementation traces of this run; directed probes'),
                   'note': 'no concrete failing input was found; the named theorem / generated site / correspondence no longer checks'},
                  open(rp, 'w'), indent=1)
        for d in results.get('disagreements', [])[:1]:
            if d.get('spec_path') and os.path.exists(d['spec_path']):
                shutil.copy(d['spec_path'], rp + '.disagreement.spec')
        violation = (rp, True, "; ".join(broken[:6]))

    # ---- evidence
    n_obl = len(obl)
    n_ok = sum(1 for ok, _ in obl.values() if ok)
    coverage = {
        'obligations': n_obl,
        'discharged': n_ok,
        'checker_cmd': "coq_makefile -f coq/_CoqProject && make Props/%s.vo (coqc 8.16.1, full .vo); coqc re-check of Props/%s.v with Print Assumptions; tools/check.py %s --tier %s" % (pid, pid, pid, tier),
        'trusted_base': P.get('trusted_base', []) + [
            'Coq 8.16.1 kernel (vm_compute used, native_compute not used)',
            'axioms reported by Print Assumptions for this property: %s' % (", ".join(audit['axioms']) or 'none (closed under the global context)'),
            'translator tools/rs2v.py + site table tools/sites.py (regenerates coq/Gen from /repo/src on every run)',
            'extraction: ExtrOcamlBasic only (no Extract Constant / Extract Inductive of our own); OCaml driver ocaml/driver.ml',
            'Rust harness /verif/harness with hooks behind --cfg rubato_verif; trace comparator tools/vlib.py',
        ],
        'obligation_list': [{'name': k, 'ok': ok, 'detail': (d if not ok else d[:120])} for k, (ok, d) in sorted(obl.items())],
        'theorems': audit['theorems'],
        'traces_validated_against_impl': results.get('n_corr', 0),
        'model_runs_stopped_by_time_limit_prefix_agreed': results.get('n_model_timeout', 0),
        'evaluations': results.get('n_eval', 0),
        'distinct_nontrivial': results.get('n_distinct', 0),
        'rule': results.get('rule', ''),
        'samples': results.get('samples', [])[:6] or [{'note': 'no history executed in this run'}],
        'distribution': results.get('dist', {}),
        'known_finding_hits_this_run': len(known_hits),
        'known_finding_classes': sorted(known_classes),
        'known_finding_witnesses': kf_status,
        'unproved': P.get('unproved', []),
        'generated_sites': len(genrep.get('sites', [])),
    }
    wall = time.time() - t0
    write_evidence(pid, tier, seed, coverage, P.get('assumptions', []), wall, 1 if violation else 0, level='proof')
    print("check %s tier=%s: %d/%d obligations discharged, %d histories, %d corr-validated, %d predicate failures (%d known), %.1fs"
          % (pid, tier, n_ok, n_obl, results.get('n_eval', 0), results.get('n_corr', 0), len(failures), len(known_hits), wall))
    if violation:
        rp, nofail, msg = violation
        print("  reason: %s" % msg[:400])
        print("VIOLATION property=%s replay=%s%s" % (pid, rp, " no-failing-input-found" if nofail else ""))
        sys.exit(1)
    # nothing to look at after a clean run: the traces of a thorough run take gigabytes (replays live in build/replay)
    if tier != 'quick' and not os.environ.get('VERIF_KEEP_RUNS'):
        shutil.rmtree(outdir, ignore_errors=True)
    sys.exit(0)


if __name__ == '__main__':
    main()
