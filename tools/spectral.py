"""Tone probes for C01 / C02: build histories that feed sums of sinusoids through a resampler and
analyse the output stream (least-squares fit of the expected components, residual).  Pure Python."""
import math
from vlib import *
import gens

WINDOWS = ['Blackman', 'Blackman2', 'BlackmanHarris', 'BlackmanHarris2', 'Hann', 'Hann2']     # harness numbering
# (k1, k2, k3) of calculate_cutoff (windows.rs), spec side: compared with the crate's own values on every run
CUT_K = {'BlackmanHarris': (8.041443677716476, 55.9506779343387, 898.0287985384213),
         'BlackmanHarris2': (13.745202940783823, 121.73532586374934, 5964.163279612051),
         'Blackman': (6.159598046201173, 18.926415097606878, 653.4247430458968),
         'Blackman2': (9.506235102129398, 79.13120634953742, 1502.2316160588925),
         'Hann': (3.3481080887677166, 10.106519434875038, 78.96345249024414),
         'Hann2': (5.38751148378734, 29.69451915489501, 184.82117462266237)}
# property C01: far-stopband leakage (dB below the signal); property C02: stopband rejection (dB)
LEAK_DB = {'Hann': 80, 'Blackman': 92, 'Hann2': 105, 'BlackmanHarris': 120, 'Blackman2': 125, 'BlackmanHarris2': 130, 'FFT': 150}
REJ_DB = {'Hann': 41, 'Hann2': 58, 'Blackman': 72, 'Blackman2': 99, 'BlackmanHarris': 105, 'BlackmanHarris2': 138, 'FFT': 100}
AMP_TOL = {'Hann': 0.01, 'Hann2': 0.01, 'Blackman': 0.001, 'Blackman2': 0.001, 'BlackmanHarris': 0.001, 'BlackmanHarris2': 0.001, 'FFT': 0.001}
EPS32 = 2.0 ** -23


def cutoff_py(n, wname):
    k1, k2, k3 = CUT_K[wname]
    return 1.0 / (k1 / n + k2 / (n * n) + k3 / (n * n * n) + 1.0)


def interp_bound(itype, factor, f_nyq):
    """textbook error bound (relative to the amplitude) of polynomial interpolation of a sinusoid of frequency
    f_nyq (relative to the input Nyquist) on a grid of 1/factor input samples"""
    w = math.pi * f_nyq          # rad / input sample
    h = 1.0 / factor
    if itype == 3:               # nearest
        return w * h / 2
    if itype == 2:               # linear
        return (w * h) ** 2 / 8
    if itype == 1:               # quadratic (nodes 0,1,2 used on [0,1])
        return (w * h) ** 3 / (9 * math.sqrt(3))
    return (w * h) ** 4 * 3 / 128


def solve(A, b):
    n = len(b)
    M = [row[:] + [b[i]] for i, row in enumerate(A)]
    for c in range(n):
        p = max(range(c, n), key=lambda r: abs(M[r][c]))
        M[c], M[p] = M[p], M[c]
        if abs(M[c][c]) < 1e-300:
            raise ValueError("singular")
        for r in range(n):
            if r != c:
                f = M[r][c] / M[c][c]
                for k in range(c, n + 1):
                    M[r][k] -= f * M[c][k]
    return [M[i][n] / M[i][i] for i in range(n)]


def fit_tones(y, j0, freqs):
    """least squares fit of sum_k a_k sin(2 pi f_k j) + b_k cos(2 pi f_k j) over j = j0 .. j0+len(y)-1.
    Returns [(amp, phase)] with component = amp * sin(2 pi f j + phase), and the residual list."""
    K = len(freqs)
    cols = []
    for f in freqs:
        w = 2 * math.pi * f
        cols.append([math.sin(w * (j0 + i)) for i in range(len(y))])
        cols.append([math.cos(w * (j0 + i)) for i in range(len(y))])
    A = [[sum(u * v for u, v in zip(cols[i], cols[j])) for j in range(2 * K)] for i in range(2 * K)]
    b = [sum(u * v for u, v in zip(cols[i], y)) for i in range(2 * K)]
    x = solve(A, b)
    res = list(y)
    out = []
    for k in range(K):
        a, c = x[2 * k], x[2 * k + 1]
        out.append((math.hypot(a, c), math.atan2(c, a)))
        for i in range(len(y)):
            res[i] -= a * cols[2 * k][i] + c * cols[2 * k + 1][i]
    return out, res


def rms(v):
    return math.sqrt(sum(x * x for x in v) / max(1, len(v)))


def probe_case(name, cfg, tones, n_in, with_model, inlen='next'):
    """tones: [(f_cyc_per_input_sample, phase, amp)]"""
    k = cfg['kind']
    sig = "mix:" + ":".join("%s:%s:%s" % (f64hex(f), f64hex(ph), f64hex(a)) for f, ph, a in tones)
    if k in gens.ASYNC:
        ratio = cfg['ratio']
        per_call = cfg['chunk'] if k.endswith('in') else cfg['chunk'] / ratio
    else:
        ratio = cfg['rout'] / cfg['rin']
        per_call = cfg['chunk'] if k != 'fftout' else cfg['chunk'] / ratio
    lines = ["T ty=%s" % cfg['ty'], gens.new_line(cfg)]
    fed = 0
    while fed < n_in:
        lines.append("PIB mask=- inlen=%s outlen=next sig=%s" % (inlen, sig))
        fed += per_call
    meta = {'cfg': cfg, 'tones': tones, 'ratio': ratio, 'kind': k}
    if not with_model:
        meta['no_model'] = True
    return Case(name, lines, meta)


def stream_of(tr, ty):
    ys, nin = [], 0
    for s in tr['steps']:
        if s.res in ('panic', 'abort', 'diverge'):
            return None, nin
        if s.res == 'counts':
            nin += int(s.fields[0])
            ys.extend(expand_samples(s.outs[0], ty)[:int(s.fields[1])])
    return ys, nin


def analyse(case, expect_freqs=None):
    """fit the expected components (default: every input tone, at f/ratio) on the steady-state part of the output"""
    cfg, tones, ratio = case.meta['cfg'], case.meta['tones'], case.meta['ratio']
    ys, nin = stream_of(case.trace, cfg['ty'])
    if ys is None:
        return {'fatal': True}
    k = cfg['kind']
    span = (cfg['L'] if k in gens.ASYNC else 2 * case.meta.get('fft_in', 0))
    skip = int(math.ceil((span + 4) * ratio)) + 8          # output frames covering the start-up transient
    tail = int(math.ceil((span / 2 + 4) * ratio)) + 8
    seg = ys[skip:len(ys) - tail]
    if len(seg) < 64:
        return {'short': True, 'n': len(ys)}
    freqs = expect_freqs if expect_freqs is not None else [f / ratio for f, _, _ in tones]
    comps, res = fit_tones(seg, skip, freqs) if freqs else ([], list(seg))
    return {'comps': comps, 'res_rms': rms(res), 'out_rms': rms(seg), 'n': len(seg), 'skip': skip, 'nin': nin}


def stamp(c):
    """record what the judge needs in a comment line of the spec, so that a stored probe can be replayed"""
    import json
    keep = {k: c.meta[k] for k in ('cfg', 'tones', 'ratio', 'kind', 'fam', 'mode', 'pedge', 'fft_in') if k in c.meta}
    c.spec.insert(0, "#meta " + json.dumps(keep))
    return c
