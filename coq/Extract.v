(** Extraction of the executable model (ExtrOcamlBasic only: bool, option,
    list, prod, unit, sumbool map to OCaml's; Z, positive, nat and Flocq's
    binary_float stay extracted datatypes).                                    *)

From Coq Require Import Extraction ExtrOcamlBasic ZArith List.
From Rubato.Model Require Import Num Floats Base Validate Nearest Kernels Async Fft Resamplers Wrappers Driver.
From Rubato.Gen Require Import FastGen SincGen SynchroGen.

Extraction Language OCaml.

(* function-level entry points for the direct correspondence of leaf functions *)
Definition x_validate := @validate_buffers CB.
Definition x_nearest2 := @get_nearest_times_2 CB.
Definition x_nearest3 := @get_nearest_times_3 CB.
Definition x_nearest4 := @get_nearest_times_4 CB.
Definition x_nearest1 := @get_nearest_time CB.
Definition x_mi_sinc_len := @mi_sinc_len CB.
Definition x_mi_f_cutoff := @mi_f_cutoff CB.

Extraction "model.ml"
  CB S64 S32
  f64_of_bits bits_of_f64 f32_of_bits bits_of_f32
  step run r_getters r_buffers
  fast_in_new fast_out_new sinc_in_new sinc_out_new fft_in_new fft_out_new fft_inout_new
  fast_interp_septic fast_interp_quintic fast_interp_cubic fast_interp_lin
  sinc_interp_cubic sinc_interp_quad sinc_interp_lin
  kernel x_validate x_nearest1 x_nearest2 x_nearest3 x_nearest4 x_mi_sinc_len x_mi_f_cutoff
  Z.of_nat Z.to_nat Z.add Z.mul Z.sub Z.compare Pos.add.
