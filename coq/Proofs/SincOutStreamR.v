(** C05 for SincFixedOut (ideal arithmetic, constant ratio, any set_chunk_size schedule): the frames written are the sinc
    specification [sinc_spec] of SincStreamR evaluated at the instants  N + last_index + (k+1)/ratio,  and the internal
    buffer holds exactly the last fill + 2*sinc_len input samples before and after every call.  Hence the stream of a
    fresh SincFixedOut is the stream of a fresh SincFixedIn: chunking- and variant-independence for the sinc types.

    With the smallest oversampling factors the constructor accepts (2 for cubic / quadratic, 1 for linear) the last window
    of a chunk whose final instant is an integer touches one cell beyond the filled region, through a branch that the
    blend multiplies by exactly 0 (the fraction is 0): [sinc_sample_value3] covers that corner, so the theorems need no
    hypothesis on the factor beyond the constructor's.                                                          *)

From Coq Require Import ZArith Reals List Bool Lra Lia.
From Flocq Require Import Core.
From Rubato.Model Require Import Num Reals Base Validate Nearest Kernels Async Resamplers.
From Rubato.Gen Require Import SincGen.
From Rubato.Proofs Require Import ShapeP ValidateP EngineP StepperR MalformedP ChannelsP ContentP NearestR FastInR SincInR SincOutR
     FastCtorR SincCtorR StreamR SincStreamR.
Import ListNotations.
Local Open Scope R_scope.

Definition nbr_big (t : sinc_type) (nbr : Z) : Prop :=
  match t with SCubic | SQuadratic => (3 <= nbr)%Z | SLinear => (2 <= nbr)%Z | SNearest => (1 <= nbr)%Z end.

(** * No grid point lies beyond ceil(t) *)
Lemma ceil_floor_cases (t : R) : (Zceil t = Zfloor t /\ t = IZR (Zfloor t)) \/ Zceil t = (Zfloor t + 1)%Z.
Proof.
  destruct (Req_dec (IZR (Zfloor t)) t) as [E|E].
  - left. split; [rewrite <- E at 1; apply Zceil_IZR | symmetry; exact E].
  - right. apply Zceil_floor_neq. exact E.
Qed.

Lemma sub_floor_integral (t : R) n : t = IZR (Zfloor t) -> @nt_sub_floor CR t n = 0%Z.
Proof.
  intros E. unfold nt_sub_floor. cbv [c_to_isize cfloor cmul csub c_of_Z CR cnum]. rewrite Ztrunc_IZR_id.
  rewrite <- E. rewrite Rminus_diag_eq by reflexivity. rewrite Rmult_0_l. apply (Zfloor_IZR 0).
Qed.

Lemma sub_round_integral (t : R) n : t = IZR (Zfloor t) -> @nt_sub_round CR t n = 0%Z.
Proof.
  intros E. unfold nt_sub_round. cbv [c_to_isize cround cmul csub cfloor c_of_Z CR cnum]. rewrite Ztrunc_IZR_id.
  rewrite <- E. rewrite Rminus_diag_eq by reflexivity. rewrite Rmult_0_l.
  apply Znearest_imp. change (IZR 0) with 0. rewrite Rminus_0_r, Rabs_R0. lra.
Qed.

Lemma nt_wrap_le (i sub n : Z) (c : Z) : (i + 1 <= c \/ (i <= c /\ sub < n))%Z -> (fst (nt_wrap i sub n) <= c)%Z.
Proof.
  intros H. unfold nt_wrap. destruct (sub <? 0)%Z eqn:E1; [cbn; lia|]. destruct (sub >=? n)%Z eqn:E2; cbn; [|lia].
  apply Z.geb_le in E2. lia.
Qed.

Lemma nearest4_le_ceil (t : R) n : (3 <= n)%Z -> Forall (fun p => (fst p <= Zceil t)%Z) (@get_nearest_times_4 CR t n).
Proof.
  intros Hn. unfold get_nearest_times_4. rewrite nt_index_R.
  pose proof (nt_sub_floor_R t n ltac:(lia)) as Hf.
  destruct (ceil_floor_cases t) as [[Ec Et]|Ec]; rewrite Ec.
  - rewrite (sub_floor_integral t n Et). repeat constructor; apply nt_wrap_le; right; lia.
  - repeat constructor; apply nt_wrap_le; left; lia.
Qed.

Lemma nearest3_le_ceil (t : R) n : (3 <= n)%Z -> Forall (fun p => (fst p <= Zceil t)%Z) (@get_nearest_times_3 CR t n).
Proof.
  intros Hn. unfold get_nearest_times_3. rewrite nt_index_R.
  destruct (ceil_floor_cases t) as [[Ec Et]|Ec]; rewrite Ec.
  - rewrite (sub_floor_integral t n Et). repeat constructor; apply nt_wrap_le; right; lia.
  - repeat constructor; apply nt_wrap_le; left; lia.
Qed.

Lemma nearest2_le_ceil (t : R) n : (2 <= n)%Z -> Forall (fun p => (fst p <= Zceil t)%Z) (@get_nearest_times_2 CR t n).
Proof.
  intros Hn. unfold get_nearest_times_2. rewrite nt_index_R.
  destruct (ceil_floor_cases t) as [[Ec Et]|Ec]; rewrite Ec.
  - rewrite (sub_floor_integral t n Et). constructor; [cbn; lia|]. constructor; [|constructor].
    destruct (0 + 1 >=? n)%Z eqn:E; [apply Z.geb_le in E; lia | cbn; lia].
  - constructor; [cbn; lia|]. constructor; [|constructor]. destruct (_ >=? n)%Z; cbn; lia.
Qed.

Lemma nearest1_le_ceil (t : R) n : (1 <= n)%Z -> (fst (@get_nearest_time CR t n) <= Zceil t)%Z.
Proof.
  intros Hn. unfold get_nearest_time. rewrite nt_index_R.
  destruct (ceil_floor_cases t) as [[Ec Et]|Ec]; rewrite Ec.
  - rewrite (sub_round_integral t n Et). destruct (0 >=? n)%Z eqn:E; [apply Z.geb_le in E; lia | cbn; lia].
  - destruct (_ >=? n)%Z; cbn; lia.
Qed.

(** * Sampling a buffer that holds X(N - 2L ..) in its first [lim] cells, with the tight upper bound *)
Section Spec2.
Variable env : sinc_env.
Variables (L nbr : Z).

Lemma sinc_points_value2 (b : list (@snum CR SR)) (X : Z -> R) (N lim : Z) (t : R) pts :
  pts_ok t nbr pts -> Forall (fun p => (fst p <= Zceil t)%Z) pts -> (0 <= L)%Z ->
  (0 <= Zfloor t - 1 + 2 * L)%Z -> (Zceil t + 2 * L + L <= lim)%Z -> (lim < zlen b)%Z ->
  (forall i, (0 <= i < lim)%Z -> getz 0 b i = X (N - 2 * L + i)%Z) ->
  @sinc_points CR SR (se_kind env) (se_sincs env) L nbr b (fun i => (i + 2 * L)%Z) pts = Ok (map (branch_at env L X) (map (shift_pt N) pts)).
Proof.
  intros Hp Hu HL H1 H2 Hlim Hc. induction pts as [|[i sub] r IH].
  - reflexivity.
  - inversion Hp as [|? ? [Hi Hs] Hr]; subst. inversion Hu as [|? ? Hui Hur]; subst. cbn [fst snd] in Hi, Hs, Hui.
    cbn [sinc_points map]. unfold sinc_point.
    rewrite !isize_as_usize_nonneg by lia.
    assert (E1 : (i + 2 * L + L <? zlen b)%Z = true) by (apply Z.ltb_lt; lia).
    assert (E2 : (sub <? nbr)%Z = true) by (apply Z.ltb_lt; lia).
    rewrite E1, E2. cbn [negb bind]. rewrite (IH Hr Hur). cbn [bind]. f_equal. f_equal.
    unfold branch_at, shift_pt. cbn [fst snd]. f_equal.
    change (@snum CR SR) with R in *.
    rewrite (slice_as_map 0) by lia. replace (Z.to_nat (i + 2 * L + L - (i + 2 * L))) with (Z.to_nat L) by lia.
    apply map_ext_in. intros q Hq. apply in_seq in Hq. rewrite Hc by lia. f_equal. lia.
Qed.

Lemma sinc_sample_value2 (b : list (@snum CR SR)) (X : Z -> R) (N lim : Z) (idx : R) :
  nbr_ok (se_type env) nbr -> nbr_big (se_type env) nbr -> (0 <= L)%Z ->
  (0 <= Zfloor idx - 1 + 2 * L)%Z -> (Zceil idx + 2 * L + L <= lim)%Z -> (lim < zlen b)%Z ->
  (forall i, (0 <= i < lim)%Z -> getz 0 b i = X (N - 2 * L + i)%Z) ->
  @sinc_sample CR SR env L nbr (fun i => (i + 2 * L)%Z) (fun t => match se_type env with SNearest => t | _ => grid_frac nbr t end) b idx
  = Ok (sinc_spec env L nbr X (IZR N + idx)).
Proof.
  intros Hn Hbig HL H1 H2 Hlim Hc. unfold sinc_sample, sinc_spec. unfold nbr_ok in Hn. unfold nbr_big in Hbig.
  destruct (se_type env).
  - rewrite (sinc_points_value2 b X N lim idx _ (nearest4_ok idx nbr Hn) (nearest4_le_ceil idx nbr Hbig) HL H1 H2 Hlim Hc). cbn [bind].
    rewrite nearest4_shift, grid_frac_shift. reflexivity.
  - rewrite (sinc_points_value2 b X N lim idx _ (nearest3_ok idx nbr Hn) (nearest3_le_ceil idx nbr Hbig) HL H1 H2 Hlim Hc). cbn [bind].
    rewrite nearest3_shift, grid_frac_shift. reflexivity.
  - rewrite (sinc_points_value2 b X N lim idx _ (nearest2_ok idx nbr Hn) (nearest2_le_ceil idx nbr Hbig) HL H1 H2 Hlim Hc). cbn [bind].
    rewrite nearest2_shift, grid_frac_shift. reflexivity.
  - assert (Hu : Forall (fun p : Z * Z => (fst p <= Zceil idx)%Z) [@get_nearest_time CR idx nbr])
      by (constructor; [apply nearest1_le_ceil; exact Hbig | constructor]).
    rewrite (sinc_points_value2 b X N lim idx _ (nearest1_ok idx nbr Hn) Hu HL H1 H2 Hlim Hc).
    cbn [bind map nth]. rewrite nearest1_shift. reflexivity.
Qed.


(** ** The corner left out by [nbr_big]: the smallest oversampling factors, at an instant that is an integer.
    The last grid point then belongs to the next input frame and its window reaches one cell beyond [lim]; the blend is
    evaluated at fraction 0 and does not use that branch at all. *)
Lemma sinc_points_app (b : list (@snum CR SR)) pre vs i sub :
  @sinc_points CR SR (se_kind env) (se_sincs env) L nbr b (fun i => (i + 2 * L)%Z) pre = Ok vs ->
  (0 <= i + 2 * L)%Z -> (i + 2 * L + L < zlen b)%Z -> (0 <= sub < nbr)%Z ->
  exists v, @sinc_points CR SR (se_kind env) (se_sincs env) L nbr b (fun i => (i + 2 * L)%Z) (pre ++ [(i, sub)]) = Ok (vs ++ [v]).
Proof.
  revert vs. induction pre as [|[j sb] r IH]; intros vs H H1 H2 H3.
  - injection H as <-. cbn [app sinc_points]. unfold sinc_point. rewrite !isize_as_usize_nonneg by lia.
    assert (E1 : (i + 2 * L + L <? zlen b)%Z = true) by (apply Z.ltb_lt; lia).
    assert (E2 : (sub <? nbr)%Z = true) by (apply Z.ltb_lt; lia).
    rewrite E1, E2. cbn [negb bind]. eexists. reflexivity.
  - cbn [app sinc_points] in H |- *.
    destruct (sinc_point _ _ _ _ _ _ _) as [v0| | | |]; cbn [bind] in H |- *; try discriminate.
    destruct (sinc_points _ _ _ _ _ _ r) as [vr| | | |] eqn:Er; cbn [bind] in H; try discriminate.
    injection H as <-. destruct (IH vr eq_refl H1 H2 H3) as (v & Ev). rewrite Ev. cbn [bind]. exists v. reflexivity.
Qed.

Lemma interp_cubic_at_0 (a b c d : R) : @sinc_interp_cubic CR SR 0 [a; b; c; d] = b.
Proof. unfold sinc_interp_cubic. cbn [nth]. cbv [sadd ssub smul sdiv sopp sone szero coerce c_lit SR CR snum cnum]. field. Qed.
Lemma interp_quad_at_0 (a b c : R) : @sinc_interp_quad CR SR 0 [a; b; c] = a.
Proof. unfold sinc_interp_quad. cbn [nth]. cbv [sadd ssub smul sdiv sopp sone szero coerce c_lit SR CR snum cnum]. field. Qed.
Lemma interp_lin_at_0 (a b : R) : @sinc_interp_lin CR SR 0 [a; b] = a.
Proof. unfold sinc_interp_lin. cbn [nth]. cbv [sadd ssub smul SR CR snum cnum]. ring. Qed.

Lemma grid_frac_integral (t : R) : t = IZR (Zfloor t) -> grid_frac nbr t = 0.
Proof.
  intros E. unfold grid_frac. rewrite E, <- mult_IZR, Zfloor_IZR. lra.
Qed.

Lemma sinc_sample_value3 (b : list (@snum CR SR)) (X : Z -> R) (N lim : Z) (idx : R) :
  nbr_ok (se_type env) nbr -> (0 <= L)%Z ->
  (0 <= Zfloor idx - 1 + 2 * L)%Z -> (Zceil idx + 2 * L + L <= lim)%Z -> (lim + 1 < zlen b)%Z ->
  (forall i, (0 <= i < lim)%Z -> getz 0 b i = X (N - 2 * L + i)%Z) ->
  @sinc_sample CR SR env L nbr (fun i => (i + 2 * L)%Z) (fun t => match se_type env with SNearest => t | _ => grid_frac nbr t end) b idx
  = Ok (sinc_spec env L nbr X (IZR N + idx)).
Proof.
  intros Hn HL H1 H2 Hlim Hc.
  assert (Hbig : nbr_big (se_type env) nbr \/ ~ nbr_big (se_type env) nbr).
  { unfold nbr_big. destruct (se_type env); lia. }
  destruct Hbig as [Hbig|Hsmall]; [apply (sinc_sample_value2 b X N lim idx Hn Hbig HL H1 H2); [lia | exact Hc]|].
  destruct (ceil_floor_cases idx) as [[Ec Et]|Ec].
  2:{ (* a non-integral instant: the tight bound of the big case is not needed, the old lemma applies *)
      apply (sinc_sample_value env L nbr b X N lim idx Hn HL H1); [lia|lia|exact Hc]. }
  (* integral instant, smallest factor *)
  set (i := Zfloor idx) in *.
  assert (Hgf : grid_frac nbr idx = 0) by (apply grid_frac_integral; exact Et).
  assert (Hgf' : grid_frac nbr (IZR N + idx) = 0) by (rewrite grid_frac_shift; exact Hgf).
  unfold sinc_sample, sinc_spec. unfold nbr_ok in Hn. unfold nbr_big in Hsmall.
  destruct (se_type env) eqn:Et0.
  - (* cubic, factor 2 *)
    assert (Hnbr : nbr = 2%Z) by lia.
    assert (Epts : @get_nearest_times_4 CR idx nbr = [(i - 1, 1); (i, 0); (i, 1)]%Z ++ [((i + 1)%Z, 0%Z)]).
    { unfold get_nearest_times_4. rewrite nt_index_R, (sub_floor_integral idx nbr Et). fold i. rewrite Hnbr. reflexivity. }
    assert (Hpre : @sinc_points CR SR (se_kind env) (se_sincs env) L nbr b (fun i0 => (i0 + 2 * L)%Z) [(i - 1, 1); (i, 0); (i, 1)]%Z
                   = Ok (map (branch_at env L X) (map (shift_pt N) [(i - 1, 1); (i, 0); (i, 1)]%Z))).
    { apply (sinc_points_value2 b X N lim idx); try assumption; try lia.
      - repeat constructor; cbn [fst snd]; fold i; lia.
      - rewrite Ec. fold i. repeat constructor; cbn [fst]; lia. }
    destruct (sinc_points_app b _ _ (i + 1)%Z 0%Z Hpre ltac:(lia) ltac:(rewrite Ec in H2; fold i in H2; lia) ltac:(lia)) as (v & Ev).
    rewrite Epts, Ev. cbn [bind]. rewrite Hgf.
    rewrite nearest4_shift, Epts, Hgf'. cbn [map app]. cbv [coerce SR]. rewrite !interp_cubic_at_0. reflexivity.
  - (* quadratic, factor 2 *)
    assert (Hnbr : nbr = 2%Z) by lia.
    assert (Epts : @get_nearest_times_3 CR idx nbr = [(i, 0); (i, 1)]%Z ++ [((i + 1)%Z, 0%Z)]).
    { unfold get_nearest_times_3. rewrite nt_index_R, (sub_floor_integral idx nbr Et). fold i. rewrite Hnbr. reflexivity. }
    assert (Hpre : @sinc_points CR SR (se_kind env) (se_sincs env) L nbr b (fun i0 => (i0 + 2 * L)%Z) [(i, 0); (i, 1)]%Z
                   = Ok (map (branch_at env L X) (map (shift_pt N) [(i, 0); (i, 1)]%Z))).
    { apply (sinc_points_value2 b X N lim idx); try assumption; try lia.
      - repeat constructor; cbn [fst snd]; fold i; lia.
      - rewrite Ec. fold i. repeat constructor; cbn [fst]; lia. }
    destruct (sinc_points_app b _ _ (i + 1)%Z 0%Z Hpre ltac:(lia) ltac:(rewrite Ec in H2; fold i in H2; lia) ltac:(lia)) as (v & Ev).
    rewrite Epts, Ev. cbn [bind]. rewrite Hgf.
    rewrite nearest3_shift, Epts, Hgf'. cbn [map app]. cbv [coerce SR]. rewrite !interp_quad_at_0. reflexivity.
  - (* linear, factor 1 *)
    assert (Hnbr : nbr = 1%Z) by lia.
    assert (Epts : @get_nearest_times_2 CR idx nbr = [(i, 0)]%Z ++ [((i + 1)%Z, 0%Z)]).
    { unfold get_nearest_times_2. rewrite nt_index_R, (sub_floor_integral idx nbr Et). fold i. rewrite Hnbr. reflexivity. }
    assert (Hpre : @sinc_points CR SR (se_kind env) (se_sincs env) L nbr b (fun i0 => (i0 + 2 * L)%Z) [(i, 0)]%Z
                   = Ok (map (branch_at env L X) (map (shift_pt N) [(i, 0)]%Z))).
    { apply (sinc_points_value2 b X N lim idx); try assumption; try lia.
      - repeat constructor; cbn [fst snd]; fold i; lia.
      - rewrite Ec. fold i. repeat constructor; cbn [fst]; lia. }
    destruct (sinc_points_app b _ _ (i + 1)%Z 0%Z Hpre ltac:(lia) ltac:(rewrite Ec in H2; fold i in H2; lia) ltac:(lia)) as (v & Ev).
    rewrite Epts, Ev. cbn [bind]. rewrite Hgf.
    rewrite nearest2_shift, Epts, Hgf'. cbn [map app]. cbv [coerce SR]. rewrite !interp_lin_at_0. reflexivity.
  - exfalso. lia.
Qed.

End Spec2.

(** * SincFixedOut: one call *)
Section Call.
Variable env : sinc_env.
Notation A := (@so_arch CR SR env).
Notation ST := (@astate CR SR SO).

(* channel c holds the input samples N-fill-2L .. N-1 of X in the first fill+2L cells of its buffer *)
Definition uholds (s : ST) (c : nat) (X : Z -> R) (N : Z) : Prop :=
  exists b, nth_error (as_buf s) c = Some b /\
            forall i, (0 <= i < ufill s + 2 * uL s)%Z -> getR b i = X (N - ufill s - 2 * uL s + i)%Z.

Theorem so_call_stream blen (s : ST) wi wo (c : nat) (X : Z -> R) (N : Z) w :
  so_wf env blen s -> a_precheck A s wi wo None = Ok tt ->
  uholds s c X N -> nth_error wi c = Some w -> feeds w X N (uneeded s) ->
  exists (s' : ST) outs o,
    pib A s wi wo None = Ok (s', (uneeded s, uC s), outs) /\ so_wf env blen s' /\ (0 <= uneeded s)%Z /\
    uli s' = uli s + IZR (uC s) * / uratio s - IZR (uneeded s) /\ uC s' = uC s /\ uCmax s' = uCmax s /\
    uratio s' = uratio s /\ uL s' = uL s /\ unbr s' = unbr s /\
    uholds s' c X (N + uneeded s) /\
    nth_error outs c = Some o /\ (uC s <= zlen o)%Z /\
    forall k, (0 <= k < uC s)%Z -> getR o k = sinc_spec env (uL s) (unbr s) X (IZR N + uli s + IZR (k + 1) * / uratio s).
Proof.
  intros W Hpre (b & Hb & Hcont) Hw Hfeed.
  destruct (so_call_const_R env blen s wi wo None W Hpre) as (s' & outs & E & W' & Hli & HC & HCm & Hnch & Hr & HL & HN0).
  destruct (pib_inv A s wi wo s' _ outs E) as (bufs1 & bufs2 & ps & last & E1 & E2 & Epos & Eo & Es' & Ecnt).
  cbn [a_pre so_arch a_fixed_in] in E1, E2, Epos, Eo, Es', Ecnt.
  destruct W as [WC Wn Wlb Wlm Wb Wr Wt WL Wnb Wli Wnd Wfl Wbl].
  unfold uC, uCmax, unch, uratio, uli, uL, unbr, ufill, uneeded in *.
  set (st := as_ctl s) in *.
  set (Cc := SincFixedOut_chunk_size st) in *. set (Cm := SincFixedOut_max_chunk_size st) in *.
  set (L := SincFixedOut_interpolator_len st) in *. set (r := SincFixedOut_resample_ratio st) in *.
  set (Nn := SincFixedOut_needed_input_size st) in *. set (F := SincFixedOut_current_buffer_fill st) in *.
  set (l0 := SincFixedOut_last_index st) in *. set (nbr := SincFixedOut_interpolator_nbr_sincs st) in *.
  assert (Hr0 : r <> 0) by lra.
  set (t := / r) in *.
  assert (Ht : 0 < t) by (apply Rinv_0_lt_compat; exact Wr).
  assert (HC1 : 1 <= IZR Cc) by (apply IZR_le; lia).
  assert (HCmR : IZR Cc <= IZR Cm) by (apply IZR_le; lia).
  assert (HL8 : 8 <= IZR L) by (apply IZR_le; lia).
  assert (HCt : 0 < IZR Cc * t) by nra.
  (* needed = ceil(l0 + C t) + L, and the last instant is l0 + C t *)
  assert (HNc : Nn = (Zceil (l0 + IZR Cc * t) + L)%Z) by (rewrite Wnd; apply Zceil_plus_Z).
  assert (HNmax : (Nn + 2 * L + 1 < blen)%Z).
  { assert (Zceil (l0 + IZR Cc * t) <= Zceil (IZR Cm * t) - 2)%Z; [|lia].
    apply Zceil_glb. rewrite minus_IZR. change (IZR 2) with 2. generalize (Zceil_ub (IZR Cm * t)). nra. }
  set (mask := map (fun _ : bool => true) (as_mask s)) in *.
  unfold so_fill_next in *. fold Nn in E2, Epos, Eo, Es', Ecnt.
  set (st1 := set_SincFixedOut_current_buffer_fill st Nn) in *.
  assert (P1 : SincFixedOut_chunk_size st1 = Cc /\ SincFixedOut_interpolator_len st1 = L /\
               SincFixedOut_resample_ratio st1 = r /\ SincFixedOut_target_ratio st1 = r /\
               SincFixedOut_last_index st1 = l0 /\ SincFixedOut_needed_input_size st1 = Nn /\
               SincFixedOut_interpolator_nbr_sincs st1 = nbr).
  { unfold st1, set_SincFixedOut_current_buffer_fill. cbn. repeat split; try reflexivity. exact Wt. }
  destruct P1 as (P1c & P1l & P1r & P1t & P1i & P1N & P1n).
  (* shapes from the argument check *)
  unfold a_precheck in Hpre. cbn [bind] in Hpre. fold st mask in Hpre.
  apply validate_ok_iff in Hpre. destruct Hpre as (Vi & Vm & Vil & Vo & Vol).
  cbn [a_val_channels a_val_min_in a_val_min_out so_arch] in Vi, Vm, Vil, Vo, Vol.
  unfold so_val_channels, so_val_min_in, so_val_min_out in Vi, Vm, Vil, Vo, Vol. fold Cc Nn in Vil, Vol.
  assert (Hc : (c < length (as_buf s))%nat) by (apply nth_error_Some; congruence).
  assert (Hm : nth_error mask c = Some true).
  { unfold mask. rewrite all_true_map. apply nth_error_repeat_true. lia. }
  (* history shift *)
  cbn [a_shift_lo a_shift_hi a_shift_dst so_arch] in E1. unfold so_shift_lo, so_shift_hi, so_shift_dst, so_sinc_len in E1. fold st F L in E1.
  destruct (shift_all_nth _ _ _ _ _ c b E1 Hb) as (b1 & Hb1 & Ecw).
  assert (Lb : zlen b = blen) by (eapply all_len_nth; eassumption).
  assert (Lb1 : zlen b1 = blen) by (rewrite (copy_within_length _ _ _ _ _ Ecw); exact Lb).
  (* load *)
  destruct (fill_all_nth A st1 bufs1 wi mask bufs2 c b1 true E2 Hb1 Hm) as (b2 & Hb2 & (w' & Hw' & Ef)).
  rewrite Hw in Hw'. injection Hw' as <-.
  unfold fill_channel in Ef. cbn [a_fill_lo a_fill_hi a_fill_src_hi so_arch] in Ef.
  unfold so_fill_lo, so_fill_hi, so_fill_src_hi, so_sinc_len in Ef. rewrite P1N, P1l in Ef.
  destruct (in_range b1 (2 * L) (2 * L + Nn)) eqn:R1; cbn [negb] in Ef; [|discriminate].
  destruct (in_range w 0 Nn) eqn:R2; cbn [negb] in Ef; [|discriminate].
  destruct (2 * L + Nn - 2 * L =? Nn)%Z; cbn [negb] in Ef; [|discriminate].
  apply Ok_inj in Ef. rename Ef into Eb2. apply in_range_iff in R1, R2. change (@snum CR SR) with R in *.
  assert (Lsl : zlen (slice w 0 Nn) = Nn) by (rewrite slice_length by lia; lia).
  assert (Lb2 : zlen b2 = blen) by (rewrite <- Eb2, splice_length by lia; exact Lb1).
  assert (Cont2 : forall i, (0 <= i < Nn + 2 * L)%Z -> getR b2 i = X (N - 2 * L + i)%Z).
  { intros i Hi. rewrite <- Eb2. rewrite getz_splice by lia. rewrite Lsl.
    destruct ((2 * L <=? i)%Z && (i <? 2 * L + Nn)%Z) eqn:Ei.
    - apply andb_true_iff in Ei. destruct Ei as [Ea Eb]. apply Z.leb_le in Ea. apply Z.ltb_lt in Eb.
      rewrite getz_slice by lia. rewrite Hfeed by lia. f_equal. lia.
    - assert (Hi2 : (i < 2 * L)%Z).
      { apply andb_false_iff in Ei. destruct Ei as [Ea|Eb]; [apply Z.leb_gt in Ea; lia | apply Z.ltb_ge in Eb; lia]. }
      rewrite (getz_copy_within 0 b b1 F (F + 2 * L) 0 i Ecw).
      destruct ((0 <=? i)%Z && (i <? 0 + (F + 2 * L - F))%Z) eqn:Ej.
      + rewrite Hcont by lia. f_equal. lia.
      + apply andb_false_iff in Ej. destruct Ej as [Ea|Eb]; [apply Z.leb_gt in Ea; lia | apply Z.ltb_ge in Eb; lia]. }
  (* the stepping loop: exactly chunk frames *)
  cbn [a_t0 a_tend a_inc a_idx0 a_bound so_arch] in Epos.
  assert (Hbd : sinc_pick (se_type env) (@so_cubic_loop_bound CR) (@so_quadratic_loop_bound CR) (@so_linear_loop_bound CR)
                         (@so_nearest_loop_bound CR) st1 = Cc) by (destruct (se_type env); exact P1c).
  rewrite Hbd in Epos.
  assert (Ht0 : @so_t_ratio CR st1 = t).
  { unfold so_t_ratio. rewrite P1r. cbv [c_lit cdiv CR cnum]. unfold t. field. exact Hr0. }
  assert (Ht1 : @so_t_ratio_end CR st1 = t).
  { unfold so_t_ratio_end. rewrite P1t. cbv [c_lit cdiv CR cnum]. unfold t. field. exact Hr0. }
  rewrite Ht0, Ht1 in Epos.
  assert (Hinc : @so_t_ratio_increment CR st1 t t = 0).
  { unfold so_t_ratio_increment. cbv [cdiv csub CR cnum]. unfold Rdiv. rewrite Rminus_diag_eq by reflexivity. ring. }
  rewrite Hinc in Epos.
  assert (Hloop : forall n t0 inc0 i0,
            @positions_out CR (a_tstep A st1) (a_istep A st1) n t0 inc0 i0 = @positions_out CR Rplus Rplus n t0 inc0 i0).
  { intros. cbn [a_tstep a_istep so_arch]. destruct (se_type env); reflexivity. }
  rewrite Hloop in Epos. assert (Hidx : @so_idx0 CR st1 = l0) by (unfold so_idx0; exact P1i). rewrite Hidx in Epos.
  rewrite positions_out_spec in Epos. injection Epos as Hps _.
  assert (Hpos : forall k, pos_at l0 t 0 k = l0 + INR k * t) by (intros k; unfold pos_at; lra).
  assert (Hlen : length ps = Z.to_nat Cc) by (rewrite <- Hps; rewrite map_length, seq_length; reflexivity).
  (* outputs of channel c *)
  assert (Ho0 : exists o0, nth_error wo c = Some o0).
  { destruct (nth_error wo c) as [o0|] eqn:Eo0; [eauto|]. apply nth_error_None in Eo0.
    unfold zlen in Vo. rewrite map_length in Vo. lia. }
  destruct Ho0 as (o0 & Ho0).
  destruct (outputs_all_nth A st1 bufs2 wo mask ps outs c b2 o0 true Eo Hb2 Ho0 Hm) as (o & Ho & (vals & Evals & Eow)).
  cbn [a_sample so_arch] in Evals. unfold so_sinc_len, so_oversampling_factor in Evals. rewrite P1l, P1n in Evals.
  destruct (samples_at_nth _ _ _ Evals) as (Lv & Nv).
  assert (HF' : SincFixedOut_current_buffer_fill (as_ctl s') = Nn /\ SincFixedOut_interpolator_nbr_sincs (as_ctl s') = nbr).
  { rewrite Es'. cbn [as_ctl a_finish so_arch]. split; reflexivity. }
  destruct HF' as [HF' Hnb'].
  exists s', outs, o.
  split; [exact E|]. split; [exact W'|]. split; [exact HN0|]. split; [exact Hli|]. split; [exact HC|]. split; [exact HCm|].
  split; [exact Hr|]. split; [exact HL|]. split; [exact Hnb'|].
  split.
  { exists b2. unfold ufill, uL. split; [rewrite Es'; exact Hb2|].
    rewrite HF', HL. intros i Hi. rewrite Cont2 by lia. f_equal. lia. }
  split; [exact Ho|].
  split. { rewrite Eow. unfold write_prefix, zlen. rewrite app_length. change (@cnum CR) with R in *. lia. }
  intros k Hk. change (@cnum CR) with R in *.
  assert (Hkn : (Z.to_nat k < length ps)%nat) by lia.
  destruct (nth_error ps (Z.to_nat k)) as [p|] eqn:Ep; [|apply nth_error_None in Ep; lia].
  destruct (Nv _ _ Ep) as (v & Ev & Hv).
  assert (Epk : p = l0 + IZR (k + 1) * t).
  { rewrite <- Hps in Ep. rewrite nth_error_map in Ep. rewrite nth_error_nth' with (d := O) in Ep by (rewrite seq_length; lia).
    cbn [option_map] in Ep. injection Ep as <-. rewrite seq_nth by lia. rewrite Hpos.
    rewrite INR_IZR_INZ. f_equal. f_equal. f_equal. lia. }
  assert (K0 : 1 <= IZR (k + 1)) by (apply IZR_le; lia).
  assert (K1 : IZR (k + 1) <= IZR Cc) by (apply IZR_le; lia).
  assert (Flo : (- (L + 1) <= Zfloor p)%Z).
  { rewrite Epk. apply Zfloor_lub. rewrite opp_IZR, plus_IZR. change (IZR 1) with 1. nra. }
  assert (Fhi : (Zceil p <= Zceil (l0 + IZR Cc * t))%Z) by (apply Zceil_le; rewrite Epk; nra).
  match type of Ev with sinc_sample env L nbr ?kidx ?fr b2 p = _ =>
    assert (Hk' : kidx = (fun i0 : Z => (i0 + 2 * L)%Z)) by (destruct (se_type env) eqn:Et; cbn; rewrite ?Et; reflexivity);
    assert (Hf' : fr = (fun t0 : R => match se_type env with SNearest => t0 | _ => grid_frac nbr t0 end))
      by (destruct (se_type env) eqn:Et; cbn; rewrite ?Et; reflexivity)
  end.
  assert (Hlim : (Nn + 2 * L + 1 < @zlen (@snum CR SR) b2)%Z) by (change (@snum CR SR) with R; rewrite Lb2; exact HNmax).
  assert (Ev2 : @Ok CR _ v = Ok (sinc_spec env L nbr X (IZR N + p))).
  { rewrite <- Ev. rewrite Hk', Hf'.
    apply (sinc_sample_value3 env L nbr b2 X N (Nn + 2 * L)%Z p Wnb); try lia; try exact Hlim.
    intros i Hi. apply Cont2. lia. }
  apply Ok_inj in Ev2. subst v.
  rewrite Eow. unfold write_prefix. change (@snum CR SR) with R in *.
  rewrite getz_app_l by (unfold zlen; lia).
  rewrite <- (Z2Nat.id k) at 1 by lia. rewrite (getz_nth_error 0 vals _ _ Hv).
  rewrite Epk. f_equal. fold l0. lra.
Qed.

End Call.

(** * SincFixedOut: whole streams, with set_chunk_size between calls *)
Section History.
Variable env : sinc_env.
Variable c : nat.
Notation A := (@so_arch CR SR env).
Notation ST := (@astate CR SR SO).

Fixpoint so_stream (s : ST) (ops : list so_op) : res (ST * Z * list R) :=
  match ops with
  | [] => Ok (s, 0%Z, [])
  | OChunk n :: rest => so_stream (so_set_chunk s n) rest
  | OCall wi wo m :: rest =>
      do _ <- a_precheck A s wi wo m;
      do x <- pib A s wi wo m;
      let '(s', (a, b), outs) := x in
      do y <- so_stream s' rest;
      let '(s'', nin, ys) := y in
      Ok (s'', (a + nin)%Z, firstn (Z.to_nat b) (nth c outs []) ++ ys)
  end.

(* the calls carry no mask and feed consecutive segments of X; the segment length is input_frames_next() at that point *)
Fixpoint ufed (X : Z -> R) (N : Z) (s : ST) (ops : list so_op) : Prop :=
  match ops with
  | [] => True
  | OChunk n :: rest => (0 <= n)%Z /\ ufed X N (so_set_chunk s n) rest
  | OCall wi wo m :: rest =>
      m = None /\ (exists w, nth_error wi c = Some w /\ feeds w X N (uneeded s)) /\
      match pib A s wi wo None with
      | Ok (s', _, _) => ufed X (N + uneeded s) s' rest
      | _ => True
      end
  end.

Lemma so_set_chunk_holds (s : ST) n X N : uholds s c X N -> uholds (so_set_chunk s n) c X N.
Proof.
  unfold so_set_chunk. destruct (so_set_chunk_bad (as_ctl s) n); [auto|]. intros (b & Hb & Hc). exists b. split; [exact Hb|exact Hc].
Qed.

Lemma so_set_chunk_same (s : ST) n : uL (so_set_chunk s n) = uL s /\ unbr (so_set_chunk s n) = unbr s.
Proof. unfold so_set_chunk. destruct (so_set_chunk_bad (as_ctl s) n); split; reflexivity. Qed.

Theorem so_stream_R blen (X : Z -> R) : forall ops (s : ST) (N : Z),
  so_wf env blen s -> uholds s c X N -> ufed X N s ops ->
  match so_stream s ops with
  | Ok (s', nin, ys) =>
      so_wf env blen s' /\ uholds s' c X (N + nin) /\ uratio s' = uratio s /\ uL s' = uL s /\ unbr s' = unbr s /\
      uli s' = uli s + IZR (zlen ys) * / uratio s - IZR nin /\
      forall j, (0 <= j < zlen ys)%Z -> getR ys j = sinc_spec env (uL s) (unbr s) X (IZR N + uli s + IZR (j + 1) * / uratio s)
  | Err _ => True
  | Panic _ | UB _ | Diverge => False
  end.
Proof.
  induction ops as [|[wi wo m|n] rest IH]; intros s N W Hh Hfed; cbn [so_stream].
  - split; [exact W|]. split; [rewrite Z.add_0_r; exact Hh|]. split; [reflexivity|]. split; [reflexivity|]. split; [reflexivity|].
    split; [unfold zlen; cbn; lra|]. intros j Hj. unfold zlen in Hj. cbn in Hj. lia.
  - cbn [ufed] in Hfed. destruct Hfed as (-> & (w & Hw & Hfeed) & Hrest).
    destruct (a_precheck A s wi wo None) as [[]| | | |] eqn:Ep; cbn [bind]; try exact I;
      try (destruct (a_precheck_total A s wi wo None) as [H|[e H]]; rewrite H in Ep; discriminate).
    destruct (so_call_stream env blen s wi wo c X N w W Ep Hh Hw Hfeed)
      as (s' & outs & o & E & W' & HN0 & Hli & HC & HCm & Hr & HL & Hnb & Hh' & Ho & Hlen & Hval).
    rewrite E in Hrest |- *. cbn [bind].
    specialize (IH s' (N + uneeded s)%Z W' Hh' Hrest).
    destruct (so_stream s' rest) as [[[s'' nin] ys]| | | |]; cbn [bind]; try exact IH.
    destruct IH as (W'' & Hh'' & Hr'' & HL'' & Hnb'' & Hli'' & Hval'').
    rewrite (nth_error_nth _ _ [] Ho). change (@snum CR SR) with R in *.
    set (n := uC s) in *.
    assert (Hn1 : (1 <= n)%Z) by (destruct W as [[WC _] _ _ _ _ _ _ _ _ _ _ _ _]; exact WC).
    assert (Lf : zlen (firstn (Z.to_nat n) o) = n) by (unfold zlen in *; rewrite firstn_length; lia).
    assert (Lys : zlen (firstn (Z.to_nat n) o ++ ys) = (n + zlen ys)%Z) by (unfold zlen in *; rewrite app_length; lia).
    split; [exact W''|]. split; [rewrite Z.add_assoc; exact Hh''|]. split; [congruence|]. split; [congruence|]. split; [congruence|].
    split.
    + rewrite Lys, plus_IZR. rewrite Hli'', Hli, Hr, plus_IZR. lra.
    + intros j Hj. rewrite Lys in Hj. destruct (Z.lt_ge_cases j n) as [Hjn|Hjn].
      * rewrite getz_app_l by lia. rewrite getz_firstn by lia. apply Hval. lia.
      * rewrite getz_app_r by lia. rewrite Lf. rewrite Hval'' by lia. rewrite HL, Hnb. f_equal.
        rewrite Hli, Hr. replace (j - n + 1)%Z with ((j + 1) - n)%Z by lia. rewrite minus_IZR, !plus_IZR. lra.
  - cbn [ufed] in Hfed. destruct Hfed as (Hn0 & Hrest).
    destruct (so_set_chunk_wf env blen s n W Hn0) as (W' & Hr & Hl & HLs).
    destruct (so_set_chunk_same s n) as [HL1 HL2].
    specialize (IH (so_set_chunk s n) N W' (so_set_chunk_holds s n X N Hh) Hrest).
    destruct (so_stream (so_set_chunk s n) rest) as [[[s'' nin] ys]| | | |]; try exact IH.
    rewrite Hr, Hl, HL1, HL2 in IH. exact IH.
Qed.

End History.

(** * From the constructor: the stream of a fresh SincFixedOut, any chunk size, any set_chunk_size schedule *)
Theorem so_fresh_stream_R ratio0 maxrel env ilen inbr chunk nch s (c : nat) (X : Z -> R) ops :
  (1 <= chunk)%Z -> (0 <= nch)%Z -> (8 <= ilen)%Z -> (ilen mod 2 = 0)%Z -> nbr_ok (se_type env) inbr ->
  (c < Z.to_nat nch)%nat ->
  @sinc_out_new CR SR ratio0 maxrel env ilen inbr chunk nch = inr (RSincOut env s) ->
  (forall n, (n < 0)%Z -> X n = 0) ->
  ufed env c X 0 s ops ->
  match so_stream env c s ops with
  | Ok (_, _, ys) => forall j, (0 <= j < zlen ys)%Z ->
                       getR ys j = sinc_spec env ilen inbr X (- IZR (ilen ÷ 2) + IZR (j + 1) * / ratio0)
  | Err _ => True
  | Panic _ | UB _ | Diverge => False
  end.
Proof.
  intros Hc Hn HL Hev Hnb Hcn Hnew HX Hfed.
  destruct (so_ctor_wf_R ratio0 maxrel env ilen inbr chunk nch s Hc Hn HL Hev Hnb Hnew) as (blen & W & Hr & HLs).
  unfold sinc_out_new in Hnew. destruct (validate_ratios_sinc ratio0 maxrel); [discriminate|]. cbv zeta in Hnew. injection Hnew as Es.
  assert (Hl : uli s = - IZR (ilen ÷ 2)).
  { rewrite <- Es. unfold uli. cbn [as_ctl].
    cbv [set_SincFixedOut_max_relative_ratio set_SincFixedOut_target_ratio set_SincFixedOut_resample_ratio_original
         set_SincFixedOut_resample_ratio set_SincFixedOut_last_index set_SincFixedOut_chunk_size set_SincFixedOut_max_chunk_size
         set_SincFixedOut_nbr_channels set_SincFixedOut_current_buffer_fill set_SincFixedOut_needed_input_size
         set_SincFixedOut_interpolator_len set_SincFixedOut_interpolator_nbr_sincs SincFixedOut_last_index].
    unfold so_new_last_index. cbv [copp c_of_Z CR cnum]. reflexivity. }
  assert (Hnbs : unbr s = inbr) by (rewrite <- Es; reflexivity).
  assert (Hh : uholds s c X 0).
  { unfold uholds. set (F := ufill s). set (Ls := uL s). clearbody F Ls. rewrite <- Es. cbn [as_buf]. unfold chans.
    eexists. split; [rewrite nth_error_repeat by exact Hcn; reflexivity|].
    intros i Hi. unfold zeros. cbn [szero SR]. rewrite getz_repeat_zero. symmetry. apply HX. lia. }
  generalize (so_stream_R env c blen X ops s 0%Z W Hh Hfed).
  destruct (so_stream env c s ops) as [[[s' nin] ys]| | | |]; try exact (fun x => x).
  intros (_ & _ & _ & _ & _ & _ & Hval) j Hj. rewrite (Hval j Hj). rewrite HLs, Hnbs. f_equal. rewrite Hl, <- Hr. change (IZR 0) with 0. lra.
Qed.

(** chunking- and variant-independence for the sinc types: a fresh SincFixedIn and a fresh SincFixedOut with the same
    filter, ratio and interpolation, any chunk sizes and any set_chunk_size schedules, fed the same stream, write the same
    frames on their common prefix *)
Theorem sinc_variant_independent_R ratio0 maxrel1 maxrel2 env ilen inbr chunk1 chunk2 nch1 nch2 s1 s2 (c1 c2 : nat) (X : Z -> R) ops1 ops2 :
  (1 <= chunk1)%Z -> (1 <= chunk2)%Z -> (0 <= nch1)%Z -> (0 <= nch2)%Z -> (8 <= ilen)%Z -> (ilen mod 2 = 0)%Z ->
  nbr_ok (se_type env) inbr -> (c1 < Z.to_nat nch1)%nat -> (c2 < Z.to_nat nch2)%nat ->
  @sinc_in_new CR SR ratio0 maxrel1 env ilen inbr chunk1 nch1 = inr (RSincIn env s1) ->
  @sinc_out_new CR SR ratio0 maxrel2 env ilen inbr chunk2 nch2 = inr (RSincOut env s2) ->
  (forall n, (n < 0)%Z -> X n = 0) ->
  sfed env c1 X 0 s1 ops1 -> ufed env c2 X 0 s2 ops2 ->
  forall r1 r2 ys1 ys2, si_stream env c1 s1 ops1 = Ok (r1, ys1) -> so_stream env c2 s2 ops2 = Ok (r2, ys2) ->
  forall j, (0 <= j < zlen ys1)%Z -> (j < zlen ys2)%Z -> getR ys1 j = getR ys2 j.
Proof.
  intros H1 H2 Hn1 Hn2 HL Hev Hnb Hc1 Hc2 N1 N2 HX F1 F2 r1 r2 ys1 ys2 E1 E2 j Hj1 Hj2.
  generalize (si_fresh_stream_R ratio0 maxrel1 env ilen inbr chunk1 nch1 s1 c1 X ops1 H1 Hn1 HL Hnb Hc1 N1 HX F1). rewrite E1. destruct r1 as [? ?]. intros V1.
  generalize (so_fresh_stream_R ratio0 maxrel2 env ilen inbr chunk2 nch2 s2 c2 X ops2 H2 Hn2 HL Hev Hnb Hc2 N2 HX F2). rewrite E2. destruct r2 as [? ?]. intros V2.
  rewrite V1, V2 by lia. reflexivity.
Qed.
