(** C05 for the sinc resamplers, ideal arithmetic, constant ratio, any set_chunk_size schedule: the value written for an
    output frame is a function of the input stream and the instant only.  [sinc_spec env L nbr X G] is what the
    interpolator computes at the global instant G from the samples X(floor G - 1 ..): it mentions no chunk size, no
    buffer and no variant.                                                                                       *)

From Coq Require Import ZArith Reals List Bool Lra Lia.
From Flocq Require Import Core.
From Rubato.Model Require Import Num Reals Base Validate Nearest Kernels Async Resamplers.
From Rubato.Gen Require Import SincGen.
From Rubato.Proofs Require Import ShapeP ValidateP EngineP StepperR MalformedP ChannelsP ContentP NearestR FastInR SincInR SincCtorR StreamR.
Import ListNotations.
Local Open Scope R_scope.

Lemma Ok_inj {C : CNum} {A} (a b : A) : @Ok C A a = Ok b -> a = b.
Proof. intros H; injection H; auto. Qed.

(** * Translation invariance of the grid-point selection *)
Lemma nt_sub_floor_shift (N : Z) (t : R) n : @nt_sub_floor CR (IZR N + t) n = @nt_sub_floor CR t n.
Proof.
  unfold nt_sub_floor. cbn [c_to_isize cfloor cmul csub c_of_Z CR]. rewrite Zfloor_add_IZR, plus_IZR.
  replace (IZR N + t - (IZR N + IZR (Zfloor t))) with (t - IZR (Zfloor t)) by ring. reflexivity.
Qed.

Lemma nt_sub_round_shift (N : Z) (t : R) n : @nt_sub_round CR (IZR N + t) n = @nt_sub_round CR t n.
Proof.
  unfold nt_sub_round. cbn [c_to_isize cround cfloor cmul csub c_of_Z CR]. rewrite Zfloor_add_IZR, plus_IZR.
  replace (IZR N + t - (IZR N + IZR (Zfloor t))) with (t - IZR (Zfloor t)) by ring. reflexivity.
Qed.

Lemma nt_index_shift (N : Z) (t : R) : @nt_index CR (IZR N + t) = (N + @nt_index CR t)%Z.
Proof. rewrite !nt_index_R. apply Zfloor_add_IZR. Qed.

Definition shift_pt (N : Z) (p : Z * Z) : Z * Z := ((N + fst p)%Z, snd p).

Lemma nt_wrap_shift N i sub n : nt_wrap (N + i) sub n = shift_pt N (nt_wrap i sub n).
Proof.
  unfold nt_wrap, shift_pt. destruct (sub <? 0)%Z; cbn [fst snd]; [f_equal; lia|].
  destruct (sub >=? n)%Z; cbn [fst snd]; f_equal; lia.
Qed.

Lemma nearest4_shift N t n : @get_nearest_times_4 CR (IZR N + t) n = map (shift_pt N) (@get_nearest_times_4 CR t n).
Proof. unfold get_nearest_times_4. rewrite nt_index_shift, nt_sub_floor_shift. cbn [map]. rewrite !nt_wrap_shift. reflexivity. Qed.

Lemma nearest3_shift N t n : @get_nearest_times_3 CR (IZR N + t) n = map (shift_pt N) (@get_nearest_times_3 CR t n).
Proof. unfold get_nearest_times_3. rewrite nt_index_shift, nt_sub_floor_shift. cbn [map]. rewrite !nt_wrap_shift. reflexivity. Qed.

Lemma nearest2_shift N t n : @get_nearest_times_2 CR (IZR N + t) n = map (shift_pt N) (@get_nearest_times_2 CR t n).
Proof.
  unfold get_nearest_times_2. rewrite nt_index_shift, nt_sub_floor_shift. cbv zeta. cbn [map]. unfold shift_pt at 1. cbn [fst snd]. f_equal.
  f_equal. destruct (_ >=? n)%Z; unfold shift_pt; cbn [fst snd]; f_equal; lia.
Qed.

Lemma nearest1_shift N t n : @get_nearest_time CR (IZR N + t) n = shift_pt N (@get_nearest_time CR t n).
Proof.
  unfold get_nearest_time. rewrite nt_index_shift, nt_sub_round_shift. cbv zeta.
  destruct (_ >=? n)%Z; unfold shift_pt; cbn [fst snd]; f_equal; lia.
Qed.

(** * The specification *)
Section Spec.
Variable env : sinc_env.
Variables (L nbr : Z).

(* one FIR branch applied to the samples X(i) .. X(i+L-1) *)
Definition branch_at (X : Z -> R) (p : Z * Z) : R :=
  @kernel CR SR (se_kind env) (map (fun q => X (fst p + Z.of_nat q)%Z) (seq 0 (Z.to_nat L))) (nth (Z.to_nat (snd p)) (se_sincs env) []).

Definition grid_frac (G : R) : R := G * IZR nbr - IZR (Zfloor (G * IZR nbr)).

Definition sinc_spec (X : Z -> R) (G : R) : R :=
  match se_type env with
  | SCubic => @sinc_interp_cubic CR SR (grid_frac G) (map (branch_at X) (@get_nearest_times_4 CR G nbr))
  | SQuadratic => @sinc_interp_quad CR SR (grid_frac G) (map (branch_at X) (@get_nearest_times_3 CR G nbr))
  | SLinear => @sinc_interp_lin CR SR (grid_frac G) (map (branch_at X) (@get_nearest_times_2 CR G nbr))
  | SNearest => branch_at X (@get_nearest_time CR G nbr)
  end.

Lemma grid_frac_shift (N : Z) (t : R) : grid_frac (IZR N + t) = grid_frac t.
Proof.
  unfold grid_frac. replace ((IZR N + t) * IZR nbr) with (IZR (N * nbr) + t * IZR nbr) by (rewrite mult_IZR; ring).
  rewrite Zfloor_add_IZR, plus_IZR. ring.
Qed.

(** the points of a buffer that holds X(N - 2L ..): checked, and equal to the branches at the shifted points *)
Lemma sinc_points_value (b : list (@snum CR SR)) (X : Z -> R) (N lim : Z) (t : R) pts :
  pts_ok t nbr pts -> (0 <= L)%Z ->
  (0 <= Zfloor t - 1 + 2 * L)%Z -> (Zfloor t + 1 + 2 * L + L <= lim)%Z -> (lim < zlen b)%Z ->
  (forall i, (0 <= i < lim)%Z -> getz 0 b i = X (N - 2 * L + i)%Z) ->
  @sinc_points CR SR (se_kind env) (se_sincs env) L nbr b (fun i => (i + 2 * L)%Z) pts = Ok (map (branch_at X) (map (shift_pt N) pts)).
Proof.
  intros Hp HL H1 H2 Hlim Hc. induction pts as [|[i sub] r IH].
  - reflexivity.
  - inversion Hp as [|? ? [Hi Hs] Hr]; subst. cbn [fst snd] in Hi, Hs.
    cbn [sinc_points map]. unfold sinc_point.
    rewrite !isize_as_usize_nonneg by lia.
    assert (E1 : (i + 2 * L + L <? zlen b)%Z = true) by (apply Z.ltb_lt; lia).
    assert (E2 : (sub <? nbr)%Z = true) by (apply Z.ltb_lt; lia).
    rewrite E1, E2. cbn [negb bind]. rewrite (IH Hr). cbn [bind]. f_equal. f_equal.
    unfold branch_at, shift_pt. cbn [fst snd]. f_equal.
    change (@snum CR SR) with R in *.
    rewrite (slice_as_map 0) by lia. replace (Z.to_nat (i + 2 * L + L - (i + 2 * L))) with (Z.to_nat L) by lia.
    apply map_ext_in. intros q Hq. apply in_seq in Hq. rewrite Hc by lia. f_equal. lia.
Qed.

Lemma sinc_sample_value (b : list (@snum CR SR)) (X : Z -> R) (N lim : Z) (idx : R) :
  nbr_ok (se_type env) nbr -> (0 <= L)%Z ->
  (0 <= Zfloor idx - 1 + 2 * L)%Z -> (Zfloor idx + 1 + 2 * L + L <= lim)%Z -> (lim < zlen b)%Z ->
  (forall i, (0 <= i < lim)%Z -> getz 0 b i = X (N - 2 * L + i)%Z) ->
  @sinc_sample CR SR env L nbr (fun i => (i + 2 * L)%Z) (fun t => match se_type env with SNearest => t | _ => grid_frac t end) b idx
  = Ok (sinc_spec X (IZR N + idx)).
Proof.
  intros Hn HL H1 H2 Hlim Hc. unfold sinc_sample, sinc_spec. unfold nbr_ok in Hn.
  destruct (se_type env).
  - rewrite (sinc_points_value b X N lim idx _ (nearest4_ok idx nbr Hn) HL H1 H2 Hlim Hc). cbn [bind].
    rewrite nearest4_shift, grid_frac_shift. reflexivity.
  - rewrite (sinc_points_value b X N lim idx _ (nearest3_ok idx nbr Hn) HL H1 H2 Hlim Hc). cbn [bind].
    rewrite nearest3_shift, grid_frac_shift. reflexivity.
  - rewrite (sinc_points_value b X N lim idx _ (nearest2_ok idx nbr Hn) HL H1 H2 Hlim Hc). cbn [bind].
    rewrite nearest2_shift, grid_frac_shift. reflexivity.
  - rewrite (sinc_points_value b X N lim idx _ (nearest1_ok idx nbr Hn) HL H1 H2 Hlim Hc). cbn [bind map nth].
    rewrite nearest1_shift. reflexivity.
Qed.

End Spec.

(** * SincFixedIn: one call *)
Section Call.
Variable env : sinc_env.
Notation A := (@si_arch CR SR env).
Notation ST := (@astate CR SR SI).

(* channel c holds the input samples N-fill-2L .. N-1 of X in the first fill+2L cells of its buffer *)
Definition sholds (s : ST) (c : nat) (X : Z -> R) (N : Z) : Prop :=
  exists b, nth_error (as_buf s) c = Some b /\
            forall i, (0 <= i < sfill s + 2 * sL s)%Z -> getR b i = X (N - sfill s - 2 * sL s + i)%Z.

Theorem si_call_stream (s : ST) wi wo (c : nat) (X : Z -> R) (N : Z) w :
  si_wf env s -> a_precheck A s wi wo None = Ok tt ->
  sholds s c X N -> nth_error wi c = Some w -> feeds w X N (sC s) ->
  exists (s' : ST) (n : Z) outs o,
    pib A s wi wo None = Ok (s', (sC s, n), outs) /\ si_wf env s' /\ (0 <= n)%Z /\
    sli s' = sli s + IZR n * / sratio s - IZR (sC s) /\ sC s' = sC s /\ sratio s' = sratio s /\ sL s' = sL s /\ snbr s' = snbr s /\
    sholds s' c X (N + sC s) /\
    nth_error outs c = Some o /\ (n <= zlen o)%Z /\
    forall k, (0 <= k < n)%Z -> getR o k = sinc_spec env (sL s) (snbr s) X (IZR N + sli s + IZR (k + 1) * / sratio s).
Proof.
  intros W Hpre (b & Hb & Hcont) Hw Hfeed.
  destruct (si_call_const_R env s wi wo None W Hpre)
    as (s' & n & outs & E & Hn & Hli & HC & HCm & Hnch & Hr & HL & Hnb & Ht & Hf & Hlb & Hlm & Hbufs & Hbound).
  assert (W' : si_wf env s') by (eapply si_wf_after; eassumption).
  destruct (pib_inv A s wi wo s' _ outs E) as (bufs1 & bufs2 & ps & last & E1 & E2 & Epos & Eo & Es' & Ecnt).
  cbn [a_pre si_arch a_fixed_in] in E1, E2, Epos, Eo, Es', Ecnt.
  destruct W as [WC Wn Wlb Wlm Wb Wr Wt WL Wnb Wf Wli].
  unfold sC, sCmax, snch, sratio, sli, sL, snbr, sfill in *.
  set (st := as_ctl s) in *.
  set (Cc := SincFixedIn_chunk_size st) in *. set (Cm := SincFixedIn_max_chunk_size st) in *.
  set (L := SincFixedIn_interpolator_len st) in *. set (r := SincFixedIn_resample_ratio st) in *.
  set (F := SincFixedIn_current_buffer_fill st) in *. set (nbr := SincFixedIn_interpolator_nbr_sincs st) in *.
  assert (Hr0 : r <> 0) by lra.
  set (mask := map (fun _ : bool => true) (as_mask s)) in *.
  unfold si_fill_next in *. fold Cc in E2, Epos, Eo, Es', Ecnt.
  set (st1 := set_SincFixedIn_current_buffer_fill st Cc) in *.
  assert (P1 : SincFixedIn_chunk_size st1 = Cc /\ SincFixedIn_interpolator_len st1 = L /\
               SincFixedIn_resample_ratio st1 = r /\ SincFixedIn_target_ratio st1 = r /\
               SincFixedIn_last_index st1 = SincFixedIn_last_index st /\ SincFixedIn_interpolator_nbr_sincs st1 = nbr).
  { unfold st1, set_SincFixedIn_current_buffer_fill. cbn. repeat split; try reflexivity. exact Wt. }
  destruct P1 as (P1c & P1l & P1r & P1t & P1i & P1n).
  (* the count *)
  cbn [a_ret si_arch] in Ecnt. unfold si_ret_in, si_ret_out in Ecnt. injection Ecnt as En.
  (* shapes *)
  unfold a_precheck in Hpre. cbn [bind] in Hpre. fold st mask in Hpre.
  apply validate_ok_iff in Hpre. destruct Hpre as (Vi & Vm & Vil & Vo & Vol).
  cbn [a_val_channels a_val_min_in a_val_min_out si_arch] in Vi, Vm, Vil, Vo, Vol.
  unfold si_val_channels, si_val_min_in, si_val_min_out in Vi, Vm, Vil, Vo, Vol. fold Cc in Vil.
  assert (Hc : (c < length (as_buf s))%nat) by (apply nth_error_Some; congruence).
  assert (Hm : nth_error mask c = Some true).
  { unfold mask. rewrite all_true_map. apply nth_error_repeat_true. lia. }
  (* history shift *)
  cbn [a_shift_lo a_shift_hi a_shift_dst si_arch] in E1. unfold si_shift_lo, si_shift_hi, si_shift_dst, si_sinc_len in E1. fold st F L in E1.
  destruct (shift_all_nth _ _ _ _ _ c b E1 Hb) as (b1 & Hb1 & Ecw).
  assert (Lb : zlen b = (Cm + 2 * L)%Z) by exact (all_len_nth _ _ _ _ Wb Hb).
  assert (Lb1 : zlen b1 = (Cm + 2 * L)%Z) by (rewrite (copy_within_length _ _ _ _ _ Ecw); exact Lb).
  (* load *)
  destruct (fill_all_nth A st1 bufs1 wi mask bufs2 c b1 true E2 Hb1 Hm) as (b2 & Hb2 & (w' & Hw' & Ef)).
  rewrite Hw in Hw'. injection Hw' as <-.
  unfold fill_channel in Ef. cbn [a_fill_lo a_fill_hi a_fill_src_hi si_arch] in Ef.
  unfold si_fill_lo, si_fill_hi, si_fill_src_hi, si_sinc_len in Ef. rewrite P1c, P1l in Ef.
  destruct (in_range b1 (2 * L) (2 * L + Cc)) eqn:R1; cbn [negb] in Ef; [|discriminate].
  destruct (in_range w 0 Cc) eqn:R2; cbn [negb] in Ef; [|discriminate].
  destruct (2 * L + Cc - 2 * L =? Cc)%Z; cbn [negb] in Ef; [|discriminate].
  apply Ok_inj in Ef. rename Ef into Eb2. apply in_range_iff in R1, R2. change (@snum CR SR) with R in *.
  assert (Lsl : zlen (slice w 0 Cc) = Cc) by (rewrite slice_length by lia; lia).
  assert (Lb2 : zlen b2 = (Cm + 2 * L)%Z) by (rewrite <- Eb2, splice_length by lia; exact Lb1).
  assert (Cont2 : forall i, (0 <= i < Cc + 2 * L)%Z -> getR b2 i = X (N - 2 * L + i)%Z).
  { intros i Hi. rewrite <- Eb2. rewrite getz_splice by lia. rewrite Lsl.
    destruct ((2 * L <=? i)%Z && (i <? 2 * L + Cc)%Z) eqn:Ei.
    - apply andb_true_iff in Ei. destruct Ei as [Ea Eb]. apply Z.leb_le in Ea. apply Z.ltb_lt in Eb.
      rewrite getz_slice by lia. rewrite Hfeed by lia. f_equal. lia.
    - assert (Hi2 : (i < 2 * L)%Z).
      { apply andb_false_iff in Ei. destruct Ei as [Ea|Eb]; [apply Z.leb_gt in Ea; lia | apply Z.ltb_ge in Eb; lia]. }
      rewrite (getz_copy_within 0 b b1 F (F + 2 * L) 0 i Ecw).
      destruct ((0 <=? i)%Z && (i <? 0 + (F + 2 * L - F))%Z) eqn:Ej.
      + rewrite Hcont by lia. f_equal. lia.
      + apply andb_false_iff in Ej. destruct Ej as [Ea|Eb]; [apply Z.leb_gt in Ea; lia | apply Z.ltb_ge in Eb; lia]. }
  (* the stepping loop *)
  destruct Epos as (fuel & Epos).
  cbn [a_t0 a_tend a_inc a_idx0 a_end_idx si_arch] in Epos.
  rewrite si_t_ratio_R in Epos by (rewrite P1r; exact Hr0). rewrite si_t_ratio_end_R in Epos by (rewrite P1t; exact Hr0).
  rewrite P1r, P1t in Epos.
  set (t := / r) in *.
  assert (Htp : 0 < t) by (apply Rinv_0_lt_compat; exact Wr).
  assert (Hinc : @si_t_ratio_increment CR st1 (@si_approximate_nbr_frames CR st1) t t = 0).
  { unfold si_t_ratio_increment. cbv [cdiv csub CR cnum]. unfold Rdiv. rewrite Rminus_diag_eq by reflexivity. ring. }
  rewrite Hinc in Epos. unfold si_sinc_len in Epos. rewrite si_end_idx_R in Epos. rewrite P1c, P1l in Epos.
  unfold si_idx0 in Epos. rewrite P1i in Epos.
  set (l0 := SincFixedIn_last_index st) in *.
  set (Ee := (Cc - (L + 1) - Zceil t)%Z) in *.
  assert (Hloop : forall fuel t0 inc0 i0,
            @positions_in CR (a_tstep A st1) (a_istep A st1) (a_cond A st1 Ee) fuel t0 inc0 i0 =
            @positions_in CR Rplus Rplus (fun i => Rlt_bool i (IZR Ee)) fuel t0 inc0 i0).
  { intros. cbn [a_tstep a_istep a_cond si_arch]. destruct (se_type env); reflexivity. }
  rewrite Hloop in Epos.
  destruct (positions_in_spec (IZR Ee) fuel t 0 l0 ps last Epos) as (Hps & _ & Hlt & _ & _).
  assert (Hpos : forall k, pos_at l0 t 0 k = l0 + INR k * t) by (intros k; unfold pos_at; lra).
  (* outputs of channel c *)
  assert (Ho0 : exists o0, nth_error wo c = Some o0).
  { destruct (nth_error wo c) as [o0|] eqn:Eo0; [eauto|]. apply nth_error_None in Eo0.
    unfold zlen in Vo. rewrite map_length in Vo. lia. }
  destruct Ho0 as (o0 & Ho0).
  destruct (outputs_all_nth A st1 bufs2 wo mask ps outs c b2 o0 true Eo Hb2 Ho0 Hm) as (o & Ho & (vals & Evals & Eow)).
  cbn [a_sample si_arch] in Evals. unfold si_sinc_len, si_oversampling_factor in Evals. rewrite P1l, P1n in Evals.
  destruct (samples_at_nth _ _ _ Evals) as (Lv & Nv).
  exists s', n, outs, o.
  split; [exact E|]. split; [exact W'|]. split; [lia|]. split; [exact Hli|]. split; [exact HC|]. split; [exact Hr|].
  split; [exact HL|]. split; [exact Hnb|].
  split.
  { exists b2. unfold sfill, sL. rewrite Hf, HL. split; [rewrite Es'; exact Hb2|].
    intros i Hi. rewrite Cont2 by lia. f_equal. lia. }
  split; [exact Ho|].
  split. { rewrite Eow. unfold write_prefix, zlen. rewrite app_length. change (@cnum CR) with R in *. lia. }
  intros k Hk. change (@cnum CR) with R in *.
  assert (Hkn : (Z.to_nat k < length ps)%nat) by lia.
  destruct (nth_error ps (Z.to_nat k)) as [p|] eqn:Ep; [|apply nth_error_None in Ep; lia].
  destruct (Nv _ _ Ep) as (v & Ev & Hv).
  assert (Epk : p = l0 + IZR (k + 1) * t).
  { rewrite Hps in Ep. rewrite nth_error_map in Ep. rewrite nth_error_nth' with (d := O) in Ep by (rewrite seq_length; exact Hkn).
    cbn [option_map] in Ep. injection Ep as <-. rewrite seq_nth by exact Hkn. rewrite Hpos.
    rewrite INR_IZR_INZ. f_equal. f_equal. f_equal. lia. }
  assert (Fb : (- (L + 2) <= Zfloor p < Cc - (L + 1))%Z).
  { rewrite Epk. apply Zfloor_bounds.
    - destruct Wli as [Wl _]. fold t in Wl. rewrite opp_IZR, !plus_IZR in *. change (IZR 2) with 2. change (IZR 1) with 1 in *.
      assert (0 <= IZR k) by (apply IZR_le; lia). generalize (Zceil_lb t). nra.
    - specialize (Hlt (Z.to_nat k) Hkn). rewrite Hpos in Hlt. rewrite INR_IZR_INZ, Z2Nat.id in Hlt by lia.
      unfold Ee in Hlt. rewrite !minus_IZR in Hlt. rewrite minus_IZR, plus_IZR. change (IZR 1) with 1. generalize (Zceil_ub t). lra. }
  (* the arch's index and fraction functions are the canonical ones *)
  match type of Ev with sinc_sample env L nbr ?kidx ?fr b2 p = _ =>
    assert (Hk' : kidx = (fun i0 : Z => (i0 + 2 * L)%Z)) by (destruct (se_type env) eqn:Et; cbn; rewrite ?Et; reflexivity);
    assert (Hf' : fr = (fun t0 : R => match se_type env with SNearest => t0 | _ => grid_frac nbr t0 end))
      by (destruct (se_type env) eqn:Et; cbn; rewrite ?Et; reflexivity)
  end.
  assert (Hlim : (Cc + 2 * L - 1 < @zlen (@snum CR SR) b2)%Z) by (change (@snum CR SR) with R; rewrite Lb2; lia).
  assert (Ev2 : @Ok CR _ v = Ok (sinc_spec env L nbr X (IZR N + p))).
  { rewrite <- Ev. rewrite Hk', Hf'.
    apply (sinc_sample_value env L nbr b2 X N (Cc + 2 * L - 1)%Z p Wnb); try lia; try exact Hlim.
    intros i Hi. apply Cont2. lia. }
  apply Ok_inj in Ev2. subst v.
  rewrite Eow. unfold write_prefix. change (@snum CR SR) with R in *.
  rewrite getz_app_l by (unfold zlen; lia).
  rewrite <- (Z2Nat.id k) at 1 by lia. rewrite (getz_nth_error 0 vals _ _ Hv).
  rewrite Epk. f_equal. fold l0. lra.
Qed.

End Call.

(** * SincFixedIn: whole streams, with set_chunk_size between calls *)
Section History.
Variable env : sinc_env.
Variable c : nat.
Notation A := (@si_arch CR SR env).
Notation ST := (@astate CR SR SI).

Fixpoint si_stream (s : ST) (ops : list si_op) : res (ST * Z * list R) :=
  match ops with
  | [] => Ok (s, 0%Z, [])
  | SChunk n :: rest => si_stream (si_set_chunk s n) rest
  | SCall wi wo m :: rest =>
      do _ <- a_precheck A s wi wo m;
      do x <- pib A s wi wo m;
      let '(s', (a, b), outs) := x in
      do y <- si_stream s' rest;
      let '(s'', nin, ys) := y in
      Ok (s'', (a + nin)%Z, firstn (Z.to_nat b) (nth c outs []) ++ ys)
  end.

(* the calls carry no mask and feed consecutive segments of X; the segment length is the chunk size in force *)
Fixpoint sfed (X : Z -> R) (N : Z) (s : ST) (ops : list si_op) : Prop :=
  match ops with
  | [] => True
  | SChunk n :: rest => (0 <= n)%Z /\ sfed X N (si_set_chunk s n) rest
  | SCall wi wo m :: rest =>
      m = None /\ (exists w, nth_error wi c = Some w /\ feeds w X N (sC s)) /\
      match pib A s wi wo None with
      | Ok (s', _, _) => sfed X (N + sC s) s' rest
      | _ => True
      end
  end.

Lemma si_set_chunk_holds (s : ST) n X N : sholds s c X N -> sholds (si_set_chunk s n) c X N.
Proof.
  unfold si_set_chunk. destruct (si_set_chunk_bad (as_ctl s) n); [auto|]. intros (b & Hb & Hc). exists b. split; [exact Hb|exact Hc].
Qed.

Theorem si_stream_R (X : Z -> R) : forall ops (s : ST) (N : Z),
  si_wf env s -> sholds s c X N -> sfed X N s ops ->
  match si_stream s ops with
  | Ok (s', nin, ys) =>
      si_wf env s' /\ sholds s' c X (N + nin) /\ sratio s' = sratio s /\ sL s' = sL s /\ snbr s' = snbr s /\
      sli s' = sli s + IZR (zlen ys) * / sratio s - IZR nin /\
      forall j, (0 <= j < zlen ys)%Z -> getR ys j = sinc_spec env (sL s) (snbr s) X (IZR N + sli s + IZR (j + 1) * / sratio s)
  | Err _ => True
  | Panic _ | UB _ | Diverge => False
  end.
Proof.
  induction ops as [|[wi wo m|n] rest IH]; intros s N W Hh Hfed; cbn [si_stream].
  - split; [exact W|]. split; [rewrite Z.add_0_r; exact Hh|]. split; [reflexivity|]. split; [reflexivity|]. split; [reflexivity|].
    split; [unfold zlen; cbn; lra|]. intros j Hj. unfold zlen in Hj. cbn in Hj. lia.
  - cbn [sfed] in Hfed. destruct Hfed as (-> & (w & Hw & Hfeed) & Hrest).
    destruct (a_precheck A s wi wo None) as [[]| | | |] eqn:Ep; cbn [bind]; try exact I;
      try (destruct (a_precheck_total A s wi wo None) as [H|[e H]]; rewrite H in Ep; discriminate).
    destruct (si_call_stream env s wi wo c X N w W Ep Hh Hw Hfeed)
      as (s' & n & outs & o & E & W' & Hn & Hli & HC & Hr & HL & Hnb & Hh' & Ho & Hlen & Hval).
    rewrite E in Hrest |- *. cbn [bind].
    specialize (IH s' (N + sC s)%Z W' Hh' Hrest).
    destruct (si_stream s' rest) as [[[s'' nin] ys]| | | |]; cbn [bind]; try exact IH.
    destruct IH as (W'' & Hh'' & Hr'' & HL'' & Hnb'' & Hli'' & Hval'').
    rewrite (nth_error_nth _ _ [] Ho). change (@snum CR SR) with R in *.
    assert (Lf : zlen (firstn (Z.to_nat n) o) = n) by (unfold zlen in *; rewrite firstn_length; lia).
    assert (Lys : zlen (firstn (Z.to_nat n) o ++ ys) = (n + zlen ys)%Z) by (unfold zlen in *; rewrite app_length; lia).
    split; [exact W''|]. split; [rewrite Z.add_assoc; exact Hh''|]. split; [congruence|]. split; [congruence|]. split; [congruence|].
    split.
    + rewrite Lys, plus_IZR. rewrite Hli'', Hli, Hr, plus_IZR. lra.
    + intros j Hj. rewrite Lys in Hj. destruct (Z.lt_ge_cases j n) as [Hjn|Hjn].
      * rewrite getz_app_l by lia. rewrite getz_firstn by lia. apply Hval. lia.
      * rewrite getz_app_r by lia. rewrite Lf. rewrite Hval'' by lia. rewrite HL, Hnb. f_equal.
        rewrite Hli, Hr. replace (j - n + 1)%Z with ((j + 1) - n)%Z by lia. rewrite minus_IZR, !plus_IZR. lra.
  - cbn [sfed] in Hfed. destruct Hfed as (Hn0 & Hrest).
    destruct (si_set_chunk_wf env s n W Hn0) as (W' & Hr & Hl).
    specialize (IH (si_set_chunk s n) N W' (si_set_chunk_holds s n X N Hh) Hrest).
    destruct (si_stream (si_set_chunk s n) rest) as [[[s'' nin] ys]| | | |]; try exact IH.
    assert (HLn : sL (si_set_chunk s n) = sL s /\ snbr (si_set_chunk s n) = snbr s).
    { unfold si_set_chunk. destruct (si_set_chunk_bad (as_ctl s) n); split; reflexivity. }
    destruct HLn as [HL1 HL2]. rewrite Hr, Hl, HL1, HL2 in IH. exact IH.
Qed.

End History.

(** * From the constructor: the stream of a fresh SincFixedIn, any chunk size, any set_chunk_size schedule *)
Theorem si_fresh_stream_R ratio0 maxrel env ilen inbr chunk nch s (c : nat) (X : Z -> R) ops :
  (1 <= chunk)%Z -> (0 <= nch)%Z -> (8 <= ilen)%Z -> nbr_ok (se_type env) inbr -> (c < Z.to_nat nch)%nat ->
  @sinc_in_new CR SR ratio0 maxrel env ilen inbr chunk nch = inr (RSincIn env s) ->
  (forall n, (n < 0)%Z -> X n = 0) ->
  sfed env c X 0 s ops ->
  match si_stream env c s ops with
  | Ok (_, _, ys) => forall j, (0 <= j < zlen ys)%Z ->
                       getR ys j = sinc_spec env ilen inbr X (- IZR (ilen ÷ 2) + IZR (j + 1) * / ratio0)
  | Err _ => True
  | Panic _ | UB _ | Diverge => False
  end.
Proof.
  intros Hc Hn HL Hnb Hcn Hnew HX Hfed.
  destruct (si_ctor_wf_R ratio0 maxrel env ilen inbr chunk nch s Hc Hn HL Hnb Hnew) as (W & Hr & HLs).
  unfold sinc_in_new in Hnew. destruct (validate_ratios_sinc ratio0 maxrel); [discriminate|]. injection Hnew as Es.
  assert (Hl : sli s = - IZR (ilen ÷ 2)).
  { rewrite <- Es. unfold sli. cbn [as_ctl].
    cbv [set_SincFixedIn_max_relative_ratio set_SincFixedIn_target_ratio set_SincFixedIn_resample_ratio_original
         set_SincFixedIn_resample_ratio set_SincFixedIn_last_index set_SincFixedIn_chunk_size set_SincFixedIn_max_chunk_size
         set_SincFixedIn_nbr_channels set_SincFixedIn_current_buffer_fill set_SincFixedIn_interpolator_len
         set_SincFixedIn_interpolator_nbr_sincs SincFixedIn_last_index].
    unfold si_new_last_index. cbv [copp c_of_Z CR cnum]. reflexivity. }
  assert (Hnbs : snbr s = inbr) by (rewrite <- Es; reflexivity).
  assert (Hh : sholds s c X 0).
  { unfold sholds. set (F := sfill s). set (Ls := sL s). clearbody F Ls. rewrite <- Es. cbn [as_buf]. unfold chans.
    eexists. split; [rewrite nth_error_repeat by exact Hcn; reflexivity|].
    intros i Hi. unfold zeros. cbn [szero SR]. rewrite getz_repeat_zero. symmetry. apply HX. lia. }
  generalize (si_stream_R env c X ops s 0%Z W Hh Hfed).
  destruct (si_stream env c s ops) as [[[s' nin] ys]| | | |]; try exact (fun x => x).
  intros (_ & _ & _ & _ & _ & _ & Hval) j Hj. rewrite (Hval j Hj). rewrite HLs, Hnbs. f_equal. rewrite Hl, <- Hr. change (IZR 0) with 0. lra.
Qed.
