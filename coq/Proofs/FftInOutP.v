(** FftFixedInOut (synchro.rs), any arithmetic: under the invariant established by the constructor and
    the length contract of the spectral core, every well-formed process_into_buffer call returns Ok
    (no slice panic, no copy-length panic), consumes exactly fft_size_in and produces exactly
    fft_size_out frames per channel, and keeps the invariant; lifted to every history.  The control
    state of this type is integer-only, so nothing here depends on the arithmetic instance.       *)

From Coq Require Import ZArith List Bool Lia.
From Rubato.Model Require Import Num Base Validate Fft.
From Rubato.Gen Require Import SynchroGen.
From Rubato.Proofs Require Import ShapeP ValidateP MalformedP.
Import ListNotations.
Local Open Scope Z_scope.

Section XIO.
Context {C : CNum} {S : SNum C}.
Variable unit_fn : list snum -> list snum.

Notation ST := (fstate FftFixedInOut).
Definition xfin (s : ST) : Z := FftFixedInOut_chunk_size_in (fs_ctl s).
Definition xfout (s : ST) : Z := FftFixedInOut_chunk_size_out (fs_ctl s).
Definition xnch (s : ST) : Z := FftFixedInOut_nbr_channels (fs_ctl s).

Record xio_wf (s : ST) : Prop := {
  xw_fin : 0 <= xfin s;
  xw_eq : FftFixedInOut_fft_size_in (fs_ctl s) = xfin s;
  xw_fout : 0 <= xfout s;
  xw_n : 0 <= xnch s;
  xw_ovn : length (fs_overlaps s) = Z.to_nat (xnch s);
  xw_ov : Forall (fun o => zlen o = xfout s) (fs_overlaps s);
  xw_mask : length (fs_mask s) = Z.to_nat (xnch s);
  (* the spectral core: a block of fft_size_in samples yields the 2*fft_size_out samples of the inverse transform *)
  xw_unit : forall w, zlen w = xfin s -> zlen (unit_fn w) = 2 * xfout s;
}.

Lemma add_lists_length (a b : list snum) : length (add_lists a b) = Nat.min (length a) (length b).
Proof. revert b; induction a as [|x a IH]; intros [|y b]; cbn; auto. Qed.

(** one unit: Ok, the output keeps its length, the new overlap has length fft_size_out *)
Lemma resample_unit_ok fin fout (wi wo ov : list snum) :
  0 <= fout -> zlen wi = fin -> zlen wo = fout -> zlen ov = fout -> zlen (unit_fn wi) = 2 * fout ->
  exists o' ov', resample_unit unit_fn fin fout wi wo ov = Ok (o', ov') /\ zlen o' = fout /\ zlen ov' = fout.
Proof.
  intros Hf Hi Ho Hv Hu. unfold resample_unit.
  rewrite (proj2 (Z.eqb_eq _ _) Hi). cbn [negb].
  rewrite Ho, Z.min_id, Hv, Hu.
  assert (E1 : (fout <=? fout) && (fout <=? 2 * fout) = true) by (apply andb_true_iff; split; apply Z.leb_le; lia).
  rewrite E1. cbn [negb].
  assert (E2 : (fout <=? 2 * fout) = true) by (apply Z.leb_le; lia). rewrite E2. cbn [negb].
  assert (E3 : (2 * fout - fout =? fout) = true) by (apply Z.eqb_eq; lia). rewrite E3. cbn [negb].
  eexists _, _. split; [reflexivity|]. split.
  - unfold zlen in *. rewrite app_length, add_lists_length, skipn_length.
    generalize (slice_length (unit_fn wi) 0 fout ltac:(lia) ltac:(lia) ltac:(unfold zlen; lia)).
    generalize (slice_length ov 0 fout ltac:(lia) ltac:(lia) ltac:(unfold zlen; lia)). unfold zlen. lia.
  - unfold zlen in *. rewrite skipn_length. lia.
Qed.

Definition xio_chan (st : FftFixedInOut) : list snum * list snum * list snum -> res (list snum * list snum * list snum) :=
  fun '(wi, wo, ov) =>
    if negb (in_range wi 0 (xio_in_hi st)) || negb (in_range wo 0 (xio_out_hi st)) then Panic PSliceIndex else
    do r <- resample_unit unit_fn (FftFixedInOut_fft_size_in st) (FftFixedInOut_chunk_size_out st)
                          (slice wi 0 (xio_in_hi st)) (slice wo 0 (xio_out_hi st)) ov;
    let '(o', ov') := r in
    Ok (wi, o' ++ skipn (Z.to_nat (xio_out_hi st)) wo, ov').

(** the per-channel loop: every active channel has buffers of sufficient length *)
Lemma xio_channels_ok (s : ST) : xio_wf s ->
  forall (wi wo : list (list snum)) (ovs : list (list snum)) (mask : list bool),
    Forall (fun o => zlen o = xfout s) ovs ->
    length wi = length ovs -> length wo = length ovs -> length mask = length ovs ->
    (forall k w, nth_error wi k = Some w -> nth_error mask k = Some true -> xfin s <= zlen w) ->
    (forall k w, nth_error wo k = Some w -> nth_error mask k = Some true -> xfout s <= zlen w) ->
    exists r, per_channel (xio_chan (fs_ctl s)) (zip3 wi wo ovs) mask = Ok r /\
              length r = length ovs /\ Forall (fun o => zlen o = xfout s) (map (fun x => snd x) r) /\
              map (fun x => zlen (snd (fst x))) r = map zlen wo.
Proof.
  intros W wi. induction wi as [|a wi IH]; intros wo ovs mask Hov Li Lo Lm Hi Ho.
  - destruct ovs; [|discriminate]. destruct wo; [|discriminate]. exists []. cbn. repeat split; constructor.
  - destruct ovs as [|ov ovs]; [discriminate|]. destruct wo as [|b wo]; [discriminate|]. destruct mask as [|m mask]; [discriminate|].
    inversion Hov as [|? ? Hv Hovs]; subst.
    destruct (IH wo ovs mask Hovs) as (r & Er & Lr & Fr & Mr); try (cbn in *; lia).
    { intros k w Hk Hm. apply (Hi (Datatypes.S k) w); assumption. }
    { intros k w Hk Hm. apply (Ho (Datatypes.S k) w); assumption. }
    cbn [zip3 per_channel].
    destruct m.
    + assert (Ha : xfin s <= zlen a) by (apply (Hi O a); reflexivity).
      assert (Hb : xfout s <= zlen b) by (apply (Ho O b); reflexivity).
      destruct W as [Wfin Weq Wfout Wn Wovn Wov Wm Wu].
      unfold xio_chan at 1. unfold xio_in_hi, xio_out_hi. fold (xfin s) (xfout s). rewrite Weq.
      assert (R1 : in_range a 0 (xfin s) = true) by (apply in_range_iff; lia).
      assert (R2 : in_range b 0 (xfout s) = true) by (apply in_range_iff; lia).
      rewrite R1, R2. cbn [negb orb].
      destruct (resample_unit_ok (xfin s) (xfout s) (slice a 0 (xfin s)) (slice b 0 (xfout s)) ov Wfout) as (o' & ov' & E & Lo' & Lv').
      { rewrite slice_length by lia. lia. }
      { rewrite slice_length by lia. lia. }
      { exact Hv. }
      { apply Wu. rewrite slice_length by lia. lia. }
      rewrite E. cbn [bind]. rewrite Er. cbn [bind].
      eexists. split; [reflexivity|]. cbn [length map fst snd]. split; [lia|]. split; [constructor; assumption|].
      f_equal; [|exact Mr]. unfold zlen in *. rewrite app_length, skipn_length. lia.
    + cbn [bind]. rewrite Er. cbn [bind]. eexists. split; [reflexivity|]. cbn [length map fst snd]. split; [lia|].
      split; [constructor; assumption|]. f_equal. exact Mr.
Qed.

Theorem xio_call_safe (s : ST) wi wo m :
  xio_wf s ->
  x_precheck (xio_mask_bad (fs_ctl s)) (xio_val_channels (fs_ctl s)) (xio_val_min_in (fs_ctl s))
             (xio_val_min_out (fs_ctl s)) (fs_mask s) wi wo m = Ok tt ->
  exists s' outs, xio_pib unit_fn s wi wo m = Ok (s', (xfin s, xfout s), outs) /\ xio_wf s' /\
                  fs_ctl s' = fs_ctl s /\ map zlen outs = map zlen wo.
Proof.
  intros W Hpre. unfold x_precheck in Hpre. unfold xio_pib.
  destruct (prologue (xio_mask_bad (fs_ctl s)) (xio_val_channels (fs_ctl s)) (fs_mask s) m) as [mask| | | |] eqn:Epro;
    cbn [bind] in Hpre |- *; try discriminate.
  destruct (validate_buffers (map zlen wi) (map zlen wo) mask (xio_val_channels (fs_ctl s)) (xio_val_min_in (fs_ctl s))
                             (xio_val_min_out (fs_ctl s))) as [[]| | | |] eqn:Eval; cbn [bind] in Hpre |- *; try discriminate.
  apply validate_ok_iff in Eval. destruct Eval as (Vi & Vm & Vil & Vo & Vol).
  unfold xio_val_channels, xio_val_min_in, xio_val_min_out in Vi, Vm, Vil, Vo, Vol.
  fold (xnch s) (xfin s) (xfout s) in Vi, Vm, Vil, Vo, Vol.
  pose proof W as W0. destruct W as [Wfin Weq Wfout Wn Wovn Wov Wm Wu].
  unfold zlen in Vi, Vm, Vo. rewrite map_length in Vi, Vo.
  destruct (xio_channels_ok s W0 wi wo (fs_overlaps s) mask Wov) as (r & Er & Lr & Fr & Mr); try lia.
  { intros k w Hk Hm. apply (Vil k (zlen w)); [rewrite nth_error_map, Hk; reflexivity | exact Hm]. }
  { intros k w Hk Hm. apply (Vol k (zlen w)); [rewrite nth_error_map, Hk; reflexivity | exact Hm]. }
  match goal with |- context [per_channel ?f (zip3 wi wo (fs_overlaps s)) mask] => change f with (xio_chan (fs_ctl s)) end.
  rewrite Er. cbn [bind].
  eexists _, _. split; [unfold xio_ret_in, xio_ret_out; reflexivity|].
  split; [|split; [reflexivity|]].
  - constructor; unfold xfin, xfout, xnch in *; cbn [fs_ctl fs_overlaps fs_mask]; try assumption.
    + rewrite map_length. lia.
    + lia.
  - rewrite map_map. exact Mr.
Qed.

End XIO.

(** * Histories and the constructor *)
Section XIOHist.
Context {C : CNum} {S : SNum C}.
Variable unit_fn : list snum -> list snum.
Notation ST := (fstate FftFixedInOut).

Definition xio_pre (s : ST) wi wo m : res unit :=
  x_precheck (xio_mask_bad (fs_ctl s)) (xio_val_channels (fs_ctl s)) (xio_val_min_in (fs_ctl s))
             (xio_val_min_out (fs_ctl s)) (fs_mask s) wi wo m.

Fixpoint xio_run (s : ST) (calls : list (list (list snum) * list (list snum) * option (list bool))) : res (ST * Z * Z) :=
  match calls with
  | [] => Ok (s, 0, 0)
  | (wi, wo, m) :: rest =>
      do _ <- xio_pre s wi wo m;
      do x <- xio_pib unit_fn s wi wo m;
      let '(s', (a, b), _) := x in
      do y <- xio_run s' rest;
      let '(s'', nin, nout) := y in
      Ok (s'', a + nin, b + nout)
  end.

Lemma x_precheck_total bad ch mi mo stored wi wo m :
  x_precheck (C:=C) (S:=S) bad ch mi mo stored wi wo m = Ok tt \/ exists e, x_precheck (C:=C) (S:=S) bad ch mi mo stored wi wo m = Err e.
Proof.
  unfold x_precheck, prologue. destruct m as [mk|]; cbn [bind].
  - destruct (bad (zlen mk)); cbn [bind]; [right; eauto|]. apply validate_total.
  - apply validate_total.
Qed.

(** every history of well-formed calls: Ok, and the totals are the same multiple of the two block sizes *)
Theorem xio_history : forall calls (s : ST), xio_wf unit_fn s ->
  match xio_run s calls with
  | Ok (s', nin, nout) => xio_wf unit_fn s' /\ fs_ctl s' = fs_ctl s /\
                          exists k, 0 <= k /\ nin = k * xfin s /\ nout = k * xfout s
  | Err _ => True
  | Panic _ | UB _ | Diverge => False
  end.
Proof.
  induction calls as [|[[wi wo] m] rest IH]; intros s W; cbn [xio_run].
  - split; [exact W|]. split; [reflexivity|]. exists 0. lia.
  - unfold xio_pre at 1.
    match goal with |- context [x_precheck ?a ?b ?c ?d ?sm ?f ?g ?h] => destruct (x_precheck_total a b c d sm f g h) as [Hp|[er Hp]] end;
      rewrite Hp; cbn [bind]; [|exact I].
    destruct (xio_call_safe unit_fn s wi wo m W Hp) as (s' & outs & E & W' & Hc & _).
    rewrite E. cbn [bind]. specialize (IH s' W').
    destruct (xio_run s' rest) as [[[s'' nin] nout]| | | |]; cbn [bind]; try exact IH.
    destruct IH as (W'' & Hc'' & k & Hk & Hin & Hout).
    split; [exact W''|]. split; [congruence|].
    exists (k + 1). unfold xfin, xfout in *. rewrite Hc in Hin, Hout. split; [lia|]. split; lia.
Qed.

(** the constructor establishes the invariant (given the length contract of the spectral core for the block
    sizes it computes), and the block sizes are in the exact ratio of the two rates *)
Theorem xio_ctor rate_in rate_out chunk nch s :
  0 < rate_in -> 0 < rate_out -> 0 <= nch ->
  0 <= xio_new_fft_chunks (C:=C) chunk (xio_new_min_chunk_in (xio_new_gcd rate_in rate_out) rate_in) ->
  @Resamplers.fft_inout_new C S rate_in rate_out chunk nch = inr (Resamplers.RFftInOut s) ->
  (forall w, zlen w = xfin s -> zlen (unit_fn w) = 2 * xfout s) ->
  xio_wf unit_fn s /\ xfin s * rate_out = xfout s * rate_in.
Proof.
  intros Hi Ho Hn Hfc0. unfold Resamplers.fft_inout_new.
  destruct (syn_validate_rates_bad rate_in rate_out); [discriminate|]. cbv zeta.
  set (g := xio_new_gcd rate_in rate_out).
  set (fc := xio_new_fft_chunks chunk (xio_new_min_chunk_in g rate_in)).
  intros H; injection H as <-. intros Hu.
  assert (Hg : 0 < g) by (unfold g, xio_new_gcd; generalize (Z.gcd_nonneg rate_in rate_out) (Z.gcd_eq_0_l rate_in rate_out); lia).
  assert (Hfc : 0 <= fc) by exact Hfc0.
  destruct (Z.gcd_divide_l rate_in rate_out) as (a & Ha). destruct (Z.gcd_divide_r rate_in rate_out) as (b & Hb).
  fold (xio_new_gcd rate_in rate_out) in Ha, Hb. fold g in Ha, Hb.
  assert (Ein : xio_new_fft_size_in fc g rate_in = fc * a).
  { unfold xio_new_fft_size_in. rewrite Z.quot_div_nonneg by nia. rewrite Ha at 1. rewrite Z.mul_assoc, Z.div_mul by lia. reflexivity. }
  assert (Eout : xio_new_fft_size_out fc g rate_out = fc * b).
  { unfold xio_new_fft_size_out. rewrite Z.quot_div_nonneg by nia. rewrite Hb at 1. rewrite Z.mul_assoc, Z.div_mul by lia. reflexivity. }
  unfold xfin, xfout in *. cbn [fs_ctl] in *.
  cbv [set_FftFixedInOut_nbr_channels set_FftFixedInOut_chunk_size_in set_FftFixedInOut_chunk_size_out set_FftFixedInOut_fft_size_in
       default_FftFixedInOut FftFixedInOut_nbr_channels FftFixedInOut_chunk_size_in FftFixedInOut_chunk_size_out FftFixedInOut_fft_size_in] in *.
  assert (Ha0 : 0 <= a) by nia. assert (Hb0 : 0 <= b) by nia.
  split.
  - constructor; unfold xfin, xfout, xnch; cbn [fs_ctl fs_overlaps fs_mask];
      cbv [FftFixedInOut_nbr_channels FftFixedInOut_chunk_size_in FftFixedInOut_chunk_size_out FftFixedInOut_fft_size_in];
      rewrite ?Ein, ?Eout; try nia; try reflexivity.
    + unfold Resamplers.chans. rewrite repeat_length. reflexivity.
    + unfold Resamplers.chans, xio_new_overlap_len. apply Forall_forall. intros o Hin. apply repeat_spec in Hin. subst o.
      unfold Resamplers.zeros, zlen. rewrite repeat_length. rewrite Z2Nat.id by nia. reflexivity.
    + unfold Resamplers.chans. rewrite repeat_length. reflexivity.
    + rewrite Ein, Eout in Hu. exact Hu.
  - rewrite Ein, Eout. rewrite Ha, Hb at 1. ring_simplify. nia.
Qed.

End XIOHist.

From Rubato.Model Require Reals Floats.

(** the `as usize` cast is non-negative in both arithmetics, so the hypothesis on fft_chunks always holds *)
Lemma fft_chunks_nonneg_R chunk minc : 0 <= @xio_new_fft_chunks Reals.CR chunk minc.
Proof. unfold xio_new_fft_chunks. cbn [c32_to_usize Reals.CR]. lia. Qed.

Lemma b_to_int_nonneg p e hi x : 0 <= hi -> 0 <= @Floats.b_to_int p e 0 hi x.
Proof.
  intros H. unfold Floats.b_to_int. cbv zeta.
  destruct x as [s|s| |s m ex]; try lia; try (destruct s; lia);
    match goal with |- context [if ?t <? 0 then _ else _] => destruct (Z.ltb_spec t 0); [lia|]; destruct (Z.ltb_spec hi t); lia end.
Qed.

Lemma fft_chunks_nonneg_B chunk minc : 0 <= @xio_new_fft_chunks Floats.CB chunk minc.
Proof.
  unfold xio_new_fft_chunks. cbn [c32_to_usize Floats.CB]. apply b_to_int_nonneg. unfold Floats.usize_max. lia.
Qed.

Lemma xio_counts {C : CNum} {S : SNum C} unit_fn (s : @fstate C S FftFixedInOut) wi wo m :
  xio_wf unit_fn s -> xio_pre s wi wo m = Ok tt ->
  exists s' outs, xio_pib unit_fn s wi wo m =
                  Ok (s', (xio_input_frames_next (fs_ctl s), xio_output_frames_max (fs_ctl s)), outs).
Proof.
  intros W P. destruct (xio_call_safe unit_fn s wi wo m W P) as (s' & outs & E & _).
  exists s', outs. rewrite E. destruct W as [_ Weq _ _ _ _ _ _]. unfold xio_input_frames_next, xfin, xfout, xio_output_frames_max in *.
  rewrite Weq. reflexivity.
Qed.

Lemma xio_exact {C : CNum} {S : SNum C} unit_fn calls (s s' : @fstate C S FftFixedInOut) nin nout :
  xio_wf unit_fn s -> xio_run unit_fn s calls = Ok (s', nin, nout) -> nout * xfin s = nin * xfout s.
Proof.
  intros W E. generalize (xio_history unit_fn calls s W). rewrite E.
  intros (_ & _ & k & _ & Hi & Ho). rewrite Hi, Ho. ring.
Qed.
