(** Content of buffers through the slice primitives, and the decomposition of a successful
    process_into_buffer into its stages.  Any arithmetic.                               *)

From Coq Require Import ZArith List Bool Lia.
From Rubato.Model Require Import Num Base Validate Async.
Import ListNotations.
Local Open Scope Z_scope.

Section Get.
Context {A : Type} (dflt : A).

(* total accessor: the element at index i, [dflt] outside the list *)
Definition getz (l : list A) (i : Z) : A := if i <? 0 then dflt else nth (Z.to_nat i) l dflt.

Lemma getz_app_l (l1 l2 : list A) i : 0 <= i < zlen l1 -> getz (l1 ++ l2) i = getz l1 i.
Proof. intros H. unfold getz. destruct (Z.ltb_spec i 0); [lia|]. apply app_nth1. unfold zlen in H. lia. Qed.

Lemma getz_app_r (l1 l2 : list A) i : zlen l1 <= i -> getz (l1 ++ l2) i = getz l2 (i - zlen l1).
Proof.
  intros H. unfold getz, zlen in *. destruct (Z.ltb_spec i 0); [lia|]. destruct (Z.ltb_spec (i - Z.of_nat (length l1)) 0); [lia|].
  rewrite app_nth2 by lia. f_equal. lia.
Qed.

Lemma getz_firstn (l : list A) n i : 0 <= i < Z.of_nat n -> getz (firstn n l) i = getz l i.
Proof.
  intros H. unfold getz. destruct (Z.ltb_spec i 0); [lia|].
  rewrite <- (firstn_skipn n l) at 2. destruct (Nat.le_gt_cases (length l) n) as [Hl|Hl].
  - rewrite firstn_all2 by exact Hl. rewrite skipn_all2 by exact Hl. rewrite app_nil_r. reflexivity.
  - rewrite app_nth1; [reflexivity|]. rewrite firstn_length. lia.
Qed.

Lemma getz_skipn (l : list A) n i : 0 <= i -> getz (skipn n l) i = getz l (Z.of_nat n + i).
Proof.
  intros H. unfold getz. destruct (Z.ltb_spec i 0); [lia|]. destruct (Z.ltb_spec (Z.of_nat n + i) 0); [lia|].
  replace (Z.to_nat (Z.of_nat n + i)) with (n + Z.to_nat i)%nat by lia.
  revert l. induction n as [|n IH]; intros l; [reflexivity|]. destruct l as [|x l]; [cbn; destruct (Z.to_nat i); reflexivity|].
  cbn [skipn plus nth]. apply IH. lia.
Qed.

Lemma getz_slice (l : list A) lo hi i : 0 <= lo -> 0 <= i < hi - lo -> getz (slice l lo hi) i = getz l (lo + i).
Proof.
  intros Hlo Hi. unfold slice. rewrite getz_firstn by lia. rewrite getz_skipn by lia. f_equal. lia.
Qed.

Lemma zlen_slice (l : list A) lo hi : 0 <= lo -> lo <= hi -> hi <= zlen l -> zlen (slice l lo hi) = hi - lo.
Proof. intros H1 H2 H3. unfold slice, zlen in *. rewrite firstn_length, skipn_length. lia. Qed.

Lemma getz_splice (l src : list A) dst i : 0 <= dst -> dst + zlen src <= zlen l ->
  getz (splice l dst src) i = if (dst <=? i) && (i <? dst + zlen src) then getz src (i - dst) else getz l i.
Proof.
  intros Hd Hl. unfold splice. unfold zlen in *.
  destruct (Z.ltb_spec i 0) as [Hneg|Hnn].
  { destruct (Z.leb_spec dst i); [lia|]. cbn [andb]. unfold getz. destruct (Z.ltb_spec i 0); [reflexivity|lia]. }
  assert (Lf : zlen (firstn (Z.to_nat dst) l) = dst) by (unfold zlen; rewrite firstn_length; lia).
  destruct (Z.leb_spec dst i) as [H1|H1]; cbn [andb].
  - rewrite getz_app_r by lia. rewrite Lf.
    destruct (Z.ltb_spec i (dst + Z.of_nat (length src))) as [H2|H2].
    + rewrite getz_app_l by (unfold zlen; lia). reflexivity.
    + rewrite getz_app_r by (unfold zlen; lia). rewrite getz_skipn by (unfold zlen; lia). f_equal. unfold zlen. lia.
  - rewrite getz_app_l by lia. apply getz_firstn. lia.
Qed.

Lemma zlen_splice (l src : list A) dst : 0 <= dst -> dst + zlen src <= zlen l -> zlen (splice l dst src) = zlen l.
Proof.
  intros Hd Hl. unfold splice, zlen in *. rewrite !app_length, firstn_length, skipn_length. lia.
Qed.

Lemma getz_copy_within (l l' : list A) lo hi dst i : copy_within l lo hi dst = Some l' ->
  getz l' i = if (dst <=? i) && (i <? dst + (hi - lo)) then getz l (lo + (i - dst)) else getz l i.
Proof.
  unfold copy_within. destruct (in_range l lo hi && (0 <=? dst) && (dst + (hi - lo) <=? zlen l)) eqn:E; [|discriminate].
  intros H; injection H as <-. apply andb_true_iff in E. destruct E as [E E3]. apply andb_true_iff in E. destruct E as [E1 E2].
  unfold in_range in E1. apply andb_true_iff in E1. destruct E1 as [E1 E1c]. apply andb_true_iff in E1. destruct E1 as [E1a E1b].
  apply Z.leb_le in E1a, E1b, E1c, E2, E3.
  assert (Ls : zlen (slice l lo hi) = hi - lo) by (apply zlen_slice; lia).
  rewrite getz_splice by lia. rewrite Ls.
  destruct ((dst <=? i) && (i <? dst + (hi - lo))) eqn:Ec; [|reflexivity].
  apply andb_true_iff in Ec. destruct Ec as [Ea Eb]. apply Z.leb_le in Ea. apply Z.ltb_lt in Eb.
  apply getz_slice; lia.
Qed.

Lemma getz_nth_error (l : list A) k v : nth_error l k = Some v -> getz l (Z.of_nat k) = v.
Proof.
  intros H. unfold getz. destruct (Z.ltb_spec (Z.of_nat k) 0); [lia|]. rewrite Nat2Z.id. apply nth_error_nth. exact H.
Qed.

Lemma slice_as_map (l : list A) lo hi : 0 <= lo -> lo <= hi -> hi <= zlen l ->
  slice l lo hi = map (fun j => getz l (lo + Z.of_nat j)) (seq 0 (Z.to_nat (hi - lo))).
Proof.
  intros H1 H2 H3. apply nth_ext with (d := dflt) (d' := getz l (lo + Z.of_nat 0)).
  - rewrite map_length, seq_length. generalize (zlen_slice l lo hi H1 H2 H3). unfold zlen. lia.
  - intros n Hn. assert (Hn' : (n < Z.to_nat (hi - lo))%nat) by (generalize (zlen_slice l lo hi H1 H2 H3); unfold zlen; lia).
    rewrite (map_nth (fun j => getz l (lo + Z.of_nat j))). rewrite seq_nth by exact Hn'. cbn [plus].
    generalize (getz_slice l lo hi (Z.of_nat n) H1 ltac:(lia)). unfold getz at 1.
    destruct (Z.ltb_spec (Z.of_nat n) 0); [lia|]. rewrite Nat2Z.id. auto.
Qed.

End Get.

Section Inv.
Context {C : CNum} {S : SNum C}.

Lemma samples_at_nth (f : cnum -> res snum) : forall ps vals,
  samples_at f ps = Ok vals ->
  length vals = length ps /\
  forall k p, nth_error ps k = Some p -> exists v, f p = Ok v /\ nth_error vals k = Some v.
Proof.
  induction ps as [|p ps IH]; intros vals H; cbn [samples_at] in H.
  - injection H as <-. split; [reflexivity|]. intros k p Hk. destruct k; discriminate.
  - destruct (f p) as [v| | | |] eqn:Ev; cbn [bind] in H; try discriminate.
    destruct (samples_at f ps) as [vs| | | |] eqn:Es; cbn [bind] in H; try discriminate.
    injection H as <-. destruct (IH vs eq_refl) as (L & N). split; [cbn; congruence|].
    intros k q Hk. destruct k as [|k]; cbn [nth_error] in *.
    + injection Hk as <-. eauto.
    + apply N. exact Hk.
Qed.

(** a successful call without a mask, taken apart *)
Lemma pib_inv {St} (A : arch St) (s : astate St) wi wo s' cnt outs :
  pib A s wi wo None = Ok (s', cnt, outs) ->
  let st := as_ctl s in let st1 := a_pre A st in
  let mask := map (fun _ => true) (as_mask s) in
  exists bufs1 bufs2 ps last,
    shift_all (as_buf s) (a_shift_lo A st) (a_shift_hi A st) (a_shift_dst A st) = Ok bufs1 /\
    fill_all A st1 bufs1 wi mask = Ok bufs2 /\
    (if a_fixed_in A then
       exists fuel, positions_in (a_tstep A st1) (a_istep A st1) (a_cond A st1 (a_end_idx A st1 (a_tend A st1))) fuel
                      (a_t0 A st1) (a_inc A st1 (a_tend A st1) (a_t0 A st1)) (a_idx0 A st1) = Some (ps, last)
     else positions_out (a_tstep A st1) (a_istep A st1) (Z.to_nat (a_bound A st1))
                      (a_t0 A st1) (a_inc A st1 (a_tend A st1) (a_t0 A st1)) (a_idx0 A st1) = (ps, last)) /\
    outputs_all A st1 bufs2 wo mask ps = Ok outs /\
    s' = mk_astate (a_finish A st1 last) bufs2 mask /\
    cnt = a_ret A st1 (a_finish A st1 last) (Z.of_nat (length ps)).
Proof.
  unfold pib. cbn [bind].
  destruct (validate_buffers _ _ _ _ _ _) as [[]| | | |]; cbn [bind]; try discriminate.
  destruct (shift_all _ _ _ _) as [bufs1| | | |] eqn:E1; cbn [bind]; try discriminate.
  destruct (fill_all _ _ _ _ _) as [bufs2| | | |] eqn:E2; cbn [bind]; try discriminate.
  intros H. exists bufs1, bufs2.
  destruct (a_fixed_in A) eqn:Ef.
  - match type of H with context [positions_in ?a ?b ?c ?fuel ?t ?i ?x] => destruct (positions_in a b c fuel t i x) as [[ps last]|] eqn:Ep end.
    + cbn [bind] in H. destruct (outputs_all _ _ _ _ _ _) as [o| | | |] eqn:Eo; cbn [bind] in H; try discriminate.
      injection H as <- <- <-. exists ps, last.
      split; [first [reflexivity|exact E1]|]. split; [first [reflexivity|exact E2]|]. split; [eexists; exact Ep|]. split; [first [reflexivity|exact Eo]|]. split; reflexivity.
    + destruct (min_active_out _ _); [destruct (a_write_checked A)|]; discriminate.
  - cbn [bind] in H.
    match type of H with context [positions_out ?a ?b ?n ?t ?i ?x] => destruct (positions_out a b n t i x) as [ps last] eqn:Ep end.
    destruct (outputs_all _ _ _ _ _ _) as [o| | | |] eqn:Eo; cbn [bind] in H; try discriminate.
    injection H as <- <- <-. exists ps, last.
    split; [first [reflexivity|exact E1]|]. split; [first [reflexivity|exact E2]|]. split; [first [reflexivity|exact Ep]|]. split; [first [reflexivity|exact Eo]|]. split; reflexivity.
Qed.

End Inv.
