(** C14 (ideal arithmetic): where the polynomial resamplers evaluate the input, and how that
    relates to the reported output_delay().                                           *)

From Coq Require Import ZArith Reals List Bool Lra Lia.
From Flocq Require Import Core.
From Rubato.Model Require Import Num Reals Base Async Fft.
From Rubato.Gen Require Import FastGen SincGen SynchroGen.
From Rubato.Proofs Require Import RampsR StepperR.
Local Open Scope R_scope.

(** input instant (in input frames, stream-relative) at which output frame j (0-based) of a
    polynomial resampler running at constant ratio r is evaluated: the carried position starts at
    -4 (constructor) and telescopes (C07), each frame adding 1/r *)
Definition fast_instant (r : R) (j : nat) : R := -4 + INR (S j) * / r.

Lemma fast_instant_is_pos_at r j : fast_instant r j = pos_at (-4) (/ r) 0 (S j).
Proof. unfold fast_instant, pos_at. lra. Qed.

Lemma fast_initial_position : @fi_new_last_index CR = -4 /\ @fo_new_last_index CR = -4.
Proof. unfold fi_new_last_index, fo_new_last_index, POLYNOMIAL_LEN_I. rnorm. change (IZR (- (8 ÷ 2))) with (-4). split; reflexivity. Qed.

(** an input event at input frame n is met by the output frame j with fast_instant r j = n,
    i.e. j = n*r + (4r - 1): the true delay is 4r - 1 output frames *)
Lemma fast_true_delay r (n : R) j : 0 < r -> (fast_instant r j = n <-> INR j = n * r + (4 * r - 1)).
Proof.
  intros Hr. unfold fast_instant. rewrite S_INR.
  assert (Hi : / r * r = 1) by (apply Rinv_l; lra).
  split; intros H.
  - assert ((INR j + 1) * / r * r = (n + 4) * r) by (rewrite <- H; ring).
    rewrite Rmult_assoc, Hi in H0. lra.
  - assert (INR j + 1 = (n + 4) * r) by lra. rewrite H0. rewrite Rmult_assoc, Rinv_r by lra. lra.
Qed.

(** the reported delay floor(8*r/2) is within one output frame of it *)
Lemma fast_reported_delay_close (st : @FastFixedIn CR) :
  0 < FastFixedIn_resample_ratio st ->
  Rabs ((4 * FastFixedIn_resample_ratio st - 1) - IZR (@fi_output_delay CR st)) <= 1.
Proof.
  intros Hr. unfold fi_output_delay, POLYNOMIAL_LEN_U.
  change (@c_to_usize CR) with (fun x : R => Z.max 0 (Ztrunc x)). cbv beta. rnorm.
  set (r := FastFixedIn_resample_ratio st) in *.
  replace (8 * r / (2 / 1)) with (4 * r) by field.
  rewrite Ztrunc_floor by lra. rewrite Z.max_r by (apply Zfloor_lub; change (IZR 0) with 0; lra).
  generalize (Zfloor_lb (4 * r)) (Zfloor_ub (4 * r)). intros. apply Rabs_le. lra.
Qed.

Lemma fast_out_reported_delay_close (st : @FastFixedOut CR) :
  0 < FastFixedOut_resample_ratio st ->
  Rabs ((4 * FastFixedOut_resample_ratio st - 1) - IZR (@fo_output_delay CR st)) <= 1.
Proof.
  intros Hr. unfold fo_output_delay, POLYNOMIAL_LEN_U.
  change (@c_to_usize CR) with (fun x : R => Z.max 0 (Ztrunc x)). cbv beta. rnorm.
  set (r := FastFixedOut_resample_ratio st) in *.
  replace (8 * r / (2 / 1)) with (4 * r) by field.
  rewrite Ztrunc_floor by lra. rewrite Z.max_r by (apply Zfloor_lub; change (IZR 0) with 0; lra).
  generalize (Zfloor_lb (4 * r)) (Zfloor_ub (4 * r)). intros. apply Rabs_le. lra.
Qed.

(** the synchronous resamplers report half an output block *)
Lemma fft_reported_delay (a : FftFixedIn) (b : FftFixedOut) (c : FftFixedInOut) :
  (0 <= FftFixedIn_fft_size_out a -> xi_output_delay a = FftFixedIn_fft_size_out a / 2)%Z /\
  (0 <= FftFixedOut_fft_size_out b -> xo_output_delay b = FftFixedOut_fft_size_out b / 2)%Z /\
  (0 <= FftFixedInOut_chunk_size_out c -> xio_output_delay c = FftFixedInOut_chunk_size_out c / 2)%Z.
Proof.
  unfold xi_output_delay, xo_output_delay, xio_output_delay.
  repeat split; intros H; apply Z.quot_div_nonneg; lia.
Qed.

(** the sinc resamplers report floor(sinc_len*ratio/2) *)
Lemma sinc_reported_delay (st : @SincFixedIn CR) :
  0 <= SincFixedIn_resample_ratio st -> (0 <= SincFixedIn_interpolator_len st)%Z ->
  @si_output_delay CR st = Zfloor (IZR (SincFixedIn_interpolator_len st) * SincFixedIn_resample_ratio st / 2).
Proof.
  intros Hr HL. unfold si_output_delay.
  change (@c_to_usize CR) with (fun x : R => Z.max 0 (Ztrunc x)). cbv beta. rnorm.
  assert (0 <= IZR (SincFixedIn_interpolator_len st)) by (apply IZR_le; lia).
  assert (0 <= IZR (SincFixedIn_interpolator_len st) * SincFixedIn_resample_ratio st / (2 / 1)).
  { apply Rmult_le_pos; [apply Rmult_le_pos; assumption|]. lra. }
  rewrite Ztrunc_floor by assumption. rewrite Z.max_r by (apply Zfloor_lub; change (IZR 0) with 0; assumption).
  f_equal. field.
Qed.
