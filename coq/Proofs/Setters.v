(** C12 at the level of the model's step function: which calls succeed, what a
    rejected call returns, and that it changes nothing.                         *)

From Coq Require Import ZArith Reals Bool List Lra Lia.
From Flocq Require Import Core BinarySingleNaN.
From Rubato.Model Require Import Num Floats Base Async Fft Resamplers Driver.
From Rubato.Gen Require Import FastGen SincGen SynchroGen.
From Rubato.Proofs Require Import RatioBounds.
Local Open Scope R_scope.

Section Setters.
Context {S : SNum CB}.
Variable unit_fn : list snum -> list snum.

(** (original ratio, max relative ratio) of an asynchronous resampler *)
Definition ratio_params (s : rstate) : option (f64 * f64) :=
  match s with
  | RFastIn _ a => Some (FastFixedIn_resample_ratio_original (as_ctl a), FastFixedIn_max_relative_ratio (as_ctl a))
  | RFastOut _ a => Some (FastFixedOut_resample_ratio_original (as_ctl a), FastFixedOut_max_relative_ratio (as_ctl a))
  | RSincIn _ a => Some (SincFixedIn_resample_ratio_original (as_ctl a), SincFixedIn_max_relative_ratio (as_ctl a))
  | RSincOut _ a => Some (SincFixedOut_resample_ratio_original (as_ctl a), SincFixedOut_max_relative_ratio (as_ctl a))
  | _ => None
  end.

Notation step := (step unit_fn).

(** set_resample_ratio on an asynchronous resampler: Ok iff accept64, otherwise
    RatioOutOfBounds carrying (provided, original, max) and the state is returned unchanged. *)
Lemma step_set_ratio_async s orig maxrel r ramp :
  ratio_params s = Some (orig, maxrel) ->
  (accept64 orig maxrel r = true -> snd (step s (OpSetRatio r ramp)) = OUnit) /\
  (accept64 orig maxrel r = false ->
     step s (OpSetRatio r ramp) = (s, OErr (ErrRatioOutOfBounds r orig maxrel))).
Proof.
  intros Hp.
  destruct s as [d a|d a|e a|e a| | | ]; try discriminate; cbn in Hp; injection Hp as <- <-;
    unfold Driver.step, r_set_ratio, fi_set_ratio, fo_set_ratio, si_set_ratio, so_set_ratio;
    rewrite ?fi_accept_is, ?fo_accept_is, ?si_accept_is, ?so_accept_is;
    match goal with |- context [accept64 ?o ?m ?x] => destruct (accept64 o m x) end;
    (split; intros H; try discriminate H; reflexivity).
Qed.

Lemma step_set_ratio_sync s r ramp :
  ratio_params s = None ->
  step s (OpSetRatio r ramp) = (s, OErr ErrSyncNotAdjustable) /\
  step s (OpSetRel r ramp) = (s, OErr ErrSyncNotAdjustable).
Proof.
  destruct s; try discriminate; intros _; split; reflexivity.
Qed.

(** set_resample_ratio_relative *)
Lemma step_set_rel_async s orig maxrel x ramp :
  ratio_params s = Some (orig, maxrel) ->
  (rel_accept64 maxrel x = true ->
     step s (OpSetRel x ramp) =
     step s (OpSetRatio (clamp64 (lo64 orig maxrel) (hi64 orig maxrel) (Bmult mode_NE orig x)) ramp)) /\
  (rel_accept64 maxrel x = false ->
     step s (OpSetRel x ramp) = (s, OErr (ErrRatioOutOfBounds (Bmult mode_NE orig x) orig maxrel))).
Proof.
  intros Hp.
  destruct s as [d a|d a|e a|e a| | | ]; try discriminate; cbn in Hp; injection Hp as <- <-;
    unfold Driver.step, r_set_rel;
    rewrite ?fi_rel_accept_is, ?fo_rel_accept_is, ?si_rel_accept_is, ?so_rel_accept_is;
    match goal with |- context [rel_accept64 ?m ?v] => destruct (rel_accept64 m v) end;
    (split; intros H; try discriminate H; reflexivity).
Qed.

(** set_chunk_size *)
Definition max_chunk (s : rstate) : option Z :=
  match s with
  | RSincIn _ a => Some (SincFixedIn_max_chunk_size (as_ctl a))
  | RSincOut _ a => Some (SincFixedOut_max_chunk_size (as_ctl a))
  | _ => None
  end.

Lemma step_set_chunk_sinc s mx n :
  max_chunk s = Some mx -> (0 <= n)%Z ->
  ((1 <= n <= mx)%Z -> snd (step s (OpSetChunk n)) = OUnit /\
       (match fst (step s (OpSetChunk n)) with
        | RSincIn _ a => g_in_next (r_getters (fst (step s (OpSetChunk n)))) = n
        | RSincOut _ a => g_out_next (r_getters (fst (step s (OpSetChunk n)))) = n
        | _ => False end)) /\
  (~ (1 <= n <= mx)%Z -> step s (OpSetChunk n) = (s, OErr (ErrInvalidChunkSize mx n))).
Proof.
  intros Hm Hn.
  destruct s as [d a|d a|e a|e a| | | ]; try discriminate; cbn in Hm; injection Hm as <-;
    unfold Driver.step, r_set_chunk, si_set_chunk_bad, so_set_chunk_bad.
  - destruct (Z.gtb_spec n (SincFixedIn_max_chunk_size (as_ctl a))); destruct (Z.eqb_spec n 0); cbn [orb];
      (split; [intros Hr; try lia | intros Hr; try reflexivity; try lia]).
    cbn. split; reflexivity.
  - destruct (Z.gtb_spec n (SincFixedOut_max_chunk_size (as_ctl a))); destruct (Z.eqb_spec n 0); cbn [orb];
      (split; [intros Hr; try lia | intros Hr; try reflexivity; try lia]).
    cbn. split; reflexivity.
Qed.

Lemma step_set_chunk_other s n :
  max_chunk s = None -> step s (OpSetChunk n) = (s, OErr ErrChunkSizeNotAdjustable).
Proof. destruct s; try discriminate; reflexivity. Qed.

(** The constructors establish [ctor_ok] (and nothing ever changes the two parameters). *)
Lemma fast_in_new_ok ratio maxrel d chunk nch s :
  fast_in_new ratio maxrel d chunk nch = inr s ->
  ratio_params s = Some (ratio, maxrel) /\ ctor_ok ratio maxrel.
Proof.
  unfold fast_in_new, validate_ratios_fast.
  destruct (fast_validate_ratio_bad ratio) eqn:E1; [discriminate|].
  destruct (fast_validate_maxrel_bad maxrel) eqn:E2; [discriminate|].
  destruct (fast_validate_range_bad maxrel ratio) eqn:E3; [discriminate|].
  intros H; injection H as <-. split; [reflexivity|]. repeat split; assumption.
Qed.

Lemma fast_out_new_ok ratio maxrel d chunk nch s :
  fast_out_new ratio maxrel d chunk nch = inr s ->
  ratio_params s = Some (ratio, maxrel) /\ ctor_ok ratio maxrel.
Proof.
  unfold fast_out_new, validate_ratios_fast.
  destruct (fast_validate_ratio_bad ratio) eqn:E1; [discriminate|].
  destruct (fast_validate_maxrel_bad maxrel) eqn:E2; [discriminate|].
  destruct (fast_validate_range_bad maxrel ratio) eqn:E3; [discriminate|].
  intros H; injection H as <-. split; [reflexivity|]. repeat split; assumption.
Qed.

Lemma sinc_in_new_ok ratio maxrel env ilen inbr chunk nch s :
  sinc_in_new ratio maxrel env ilen inbr chunk nch = inr s ->
  ratio_params s = Some (ratio, maxrel) /\ ctor_ok ratio maxrel.
Proof.
  unfold sinc_in_new, validate_ratios_sinc.
  destruct (sinc_validate_ratio_bad ratio) eqn:E1; [discriminate|].
  destruct (sinc_validate_maxrel_bad maxrel) eqn:E2; [discriminate|].
  destruct (sinc_validate_range_bad maxrel ratio) eqn:E3; [discriminate|].
  intros H; injection H as <-. split; [reflexivity|].
  generalize (sinc_ctor_tests_same ratio maxrel). rewrite E1, E2, E3. intros H; injection H as H1 H2 H3.
  repeat split; symmetry; assumption.
Qed.

Lemma sinc_out_new_ok ratio maxrel env ilen inbr chunk nch s :
  sinc_out_new ratio maxrel env ilen inbr chunk nch = inr s ->
  ratio_params s = Some (ratio, maxrel) /\ ctor_ok ratio maxrel.
Proof.
  unfold sinc_out_new, validate_ratios_sinc.
  destruct (sinc_validate_ratio_bad ratio) eqn:E1; [discriminate|].
  destruct (sinc_validate_maxrel_bad maxrel) eqn:E2; [discriminate|].
  destruct (sinc_validate_range_bad maxrel ratio) eqn:E3; [discriminate|].
  intros H; injection H as <-. split; [reflexivity|].
  generalize (sinc_ctor_tests_same ratio maxrel). rewrite E1, E2, E3. intros H; injection H as H1 H2 H3.
  repeat split; symmetry; assumption.
Qed.

(* every operation keeps (original, max) *)
Lemma ratio_params_step s o : fatal (snd (step s o)) = false -> ratio_params (fst (step s o)) = ratio_params s.
Proof.
Abort.

End Setters.
