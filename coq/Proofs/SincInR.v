(** SincFixedIn in ideal arithmetic, constant ratio (any chunk-size schedule): one call is
    safe — every kernel window satisfies the interpolator's asserts — keeps the invariant,
    produces at most the advertised number of frames and advances the position by n/r - chunk. *)

From Coq Require Import ZArith Reals List Bool Lra Lia.
From Flocq Require Import Core.
From Rubato.Model Require Import Num Reals Base Validate Nearest Kernels Async Fft Resamplers.
From Rubato.Gen Require Import SincGen.
From Rubato.Proofs Require Import ShapeP ValidateP EngineP StepperR MalformedP NearestR FastInR.
Import ListNotations.
Local Open Scope R_scope.

Notation SI := (@SincFixedIn CR).

(** the oversampling factor supports the chosen inter-branch interpolation *)
Definition nbr_ok (t : sinc_type) (nbr : Z) : Prop :=
  match t with SCubic | SQuadratic => (2 <= nbr)%Z | _ => (1 <= nbr)%Z end.

Lemma sinc_points_ok_R k (sincs : list (list (@snum CR SR))) len nbr (buf : list (@snum CR SR)) (t : R) pts :
  pts_ok t nbr pts -> (0 <= Zfloor t - 1 + 2 * len)%Z -> (Zfloor t + 1 + 2 * len + len < zlen buf)%Z ->
  exists vs, @sinc_points CR SR k sincs len nbr buf (fun i => (i + 2 * len)%Z) pts = Ok vs.
Proof.
  intros Hp H1 H2. induction pts as [|[i sub] r IH].
  - exists []. reflexivity.
  - inversion Hp as [|? ? [Hi Hs] Hr]; subst. cbn [fst snd] in Hi, Hs.
    destruct (IH Hr) as (vs & Evs).
    cbn [sinc_points]. unfold sinc_point.
    rewrite !isize_as_usize_nonneg by lia.
    assert (E1 : (i + 2 * len + len <? zlen buf)%Z = true) by (apply Z.ltb_lt; lia).
    assert (E2 : (sub <? nbr)%Z = true) by (apply Z.ltb_lt; lia).
    rewrite E1, E2. cbn [negb bind]. rewrite Evs. cbn [bind]. eauto.
Qed.

Lemma sinc_sample_ok_R env len nbr (frac : R -> R) (buf : list (@snum CR SR)) (idx : R) :
  nbr_ok (se_type env) nbr ->
  (0 <= Zfloor idx - 1 + 2 * len)%Z -> (Zfloor idx + 1 + 2 * len + len < zlen buf)%Z ->
  exists v, @sinc_sample CR SR env len nbr (fun i => (i + 2 * len)%Z) frac buf idx = Ok v.
Proof.
  intros Hn H1 H2. unfold sinc_sample. unfold nbr_ok in Hn.
  destruct (se_type env).
  - destruct (sinc_points_ok_R (se_kind env) (se_sincs env) len nbr buf idx _ (nearest4_ok idx nbr Hn) H1 H2) as (vs & E).
    rewrite E. cbn [bind]. eauto.
  - destruct (sinc_points_ok_R (se_kind env) (se_sincs env) len nbr buf idx _ (nearest3_ok idx nbr Hn) H1 H2) as (vs & E).
    rewrite E. cbn [bind]. eauto.
  - destruct (sinc_points_ok_R (se_kind env) (se_sincs env) len nbr buf idx _ (nearest2_ok idx nbr Hn) H1 H2) as (vs & E).
    rewrite E. cbn [bind]. eauto.
  - destruct (sinc_points_ok_R (se_kind env) (se_sincs env) len nbr buf idx _ (nearest1_ok idx nbr Hn) H1 H2) as (vs & E).
    rewrite E. cbn [bind]. eauto.
Qed.

Section Call.
Variable env : sinc_env.
Notation A := (@si_arch CR SR env).
Notation ST := (@astate CR SR SI).

Definition sC (s : ST) : Z := SincFixedIn_chunk_size (as_ctl s).
Definition sCmax (s : ST) : Z := SincFixedIn_max_chunk_size (as_ctl s).
Definition snch (s : ST) : Z := SincFixedIn_nbr_channels (as_ctl s).
Definition sratio (s : ST) : R := SincFixedIn_resample_ratio (as_ctl s).
Definition sli (s : ST) : R := SincFixedIn_last_index (as_ctl s).
Definition sL (s : ST) : Z := SincFixedIn_interpolator_len (as_ctl s).
Definition snbr (s : ST) : Z := SincFixedIn_interpolator_nbr_sincs (as_ctl s).
Definition sfill (s : ST) : Z := SincFixedIn_current_buffer_fill (as_ctl s).

Record si_wf (s : ST) : Prop := {
  sw_C : (1 <= sC s <= sCmax s)%Z;
  sw_n : (0 <= snch s)%Z;
  sw_lenb : length (as_buf s) = Z.to_nat (snch s);
  sw_lenm : length (as_mask s) = Z.to_nat (snch s);
  sw_bufs : all_len (sCmax s + 2 * sL s) (as_buf s);
  sw_r : 0 < sratio s;
  sw_t : SincFixedIn_target_ratio (as_ctl s) = sratio s;
  sw_L : (8 <= sL s)%Z;
  sw_nbr : nbr_ok (se_type env) (snbr s);
  sw_fill : (0 <= sfill s <= sCmax s)%Z;
  sw_li : - IZR (sL s + 1) - IZR (Zceil (/ sratio s)) <= sli s <= -4;
}.

Lemma si_t_ratio_R (st : SI) : SincFixedIn_resample_ratio st <> 0 -> @si_t_ratio CR st = / SincFixedIn_resample_ratio st.
Proof. intros H. unfold si_t_ratio. cbv [c_lit cdiv CR cnum]. field. exact H. Qed.
Lemma si_t_ratio_end_R (st : SI) : SincFixedIn_target_ratio st <> 0 -> @si_t_ratio_end CR st = / SincFixedIn_target_ratio st.
Proof. intros H. unfold si_t_ratio_end. cbv [c_lit cdiv CR cnum]. field. exact H. Qed.
Lemma si_needed_len_R (st : SI) :
  @si_calc_needed_len CR st = Z.max 0 (Ztrunc (IZR (SincFixedIn_chunk_size st) *
     (1 / 2 * SincFixedIn_resample_ratio st + 1 / 2 * SincFixedIn_target_ratio st) + 10 / 1)).
Proof. reflexivity. Qed.
Lemma si_end_idx_R (st : SI) L tend : @si_end_idx CR st L tend = (SincFixedIn_chunk_size st - (L + 1) - Zceil tend)%Z.
Proof. unfold si_end_idx. cbn [c_to_isize cceil CR]. rewrite Ztrunc_IZR_id. reflexivity. Qed.

(* everything of the invariant except the bounds on the carried position *)
Record si_wf0 (s : ST) : Prop := {
  s0_C : (1 <= sC s <= sCmax s)%Z;
  s0_n : (0 <= snch s)%Z;
  s0_lenb : length (as_buf s) = Z.to_nat (snch s);
  s0_lenm : length (as_mask s) = Z.to_nat (snch s);
  s0_bufs : all_len (sCmax s + 2 * sL s) (as_buf s);
  s0_r : 0 < sratio s;
  s0_t : SincFixedIn_target_ratio (as_ctl s) = sratio s;
  s0_L : (8 <= sL s)%Z;
  s0_nbr : nbr_ok (se_type env) (snbr s);
  s0_fill : (0 <= sfill s <= sCmax s)%Z;
}.

Lemma si_wf_wf0 (s : ST) : si_wf s -> si_wf0 s.
Proof. intros [a b c0 d0 e f g h i0 j0 k]. constructor; assumption. Qed.

(** The general one-call theorem: the carried position need not come from a call at the same ratio (see
    FastInR.fi_call_gen_R).  (G1) the first kernel window starts inside the 2*sinc_len pre-roll, (G2) at most the
    advertised number of frames is produced, (G3) the position is at most -4. *)
Theorem si_call_gen_R (s : ST) wi wo m :
  si_wf0 s ->
  (1 - 2 * sL s <= Zfloor (sli s + / sratio s))%Z ->
  (IZR (sC s - (sL s + 1) - Zceil (/ sratio s)) - sli s) * sratio s <= IZR (sC s) * sratio s + 8 ->
  sli s <= -4 ->
  a_precheck A s wi wo m = Ok tt ->
  exists (s' : ST) (n : Z) outs,
    pib A s wi wo m = Ok (s', (sC s, n), outs) /\
    (0 <= n <= @si_calc_needed_len CR (as_ctl s))%Z /\
    sli s' = sli s + IZR n * / sratio s - IZR (sC s) /\
    sC s' = sC s /\ sCmax s' = sCmax s /\ snch s' = snch s /\ sratio s' = sratio s /\ sL s' = sL s /\ snbr s' = snbr s /\
    SincFixedIn_target_ratio (as_ctl s') = sratio s /\ sfill s' = sC s /\
    length (as_buf s') = length (as_buf s) /\ length (as_mask s') = Z.to_nat (snch s) /\
    all_len (sCmax s + 2 * sL s) (as_buf s') /\
    - IZR (sL s + 1) - IZR (Zceil (/ sratio s)) <= sli s' <= -4.
Proof.
  intros W G1 G2 G3 Hpre. destruct W as [WC Wn Wlb Wlm Wb Wr Wt WL Wnb Wf].
  unfold sC, sCmax, snch, sratio, sli, sL, snbr, sfill in *.
  set (st := as_ctl s) in *.
  set (Cc := SincFixedIn_chunk_size st) in *.
  set (Cm := SincFixedIn_max_chunk_size st) in *.
  set (L := SincFixedIn_interpolator_len st) in *.
  set (r := SincFixedIn_resample_ratio st) in *.
  set (F := SincFixedIn_current_buffer_fill st) in *.
  assert (Hr0 : r <> 0) by lra.
  unfold a_precheck in Hpre. unfold pib. fold st in Hpre |- *.
  set (pro := match m with Some mk => _ | None => _ end) in *.
  destruct pro as [mask| | | |] eqn:Epro; cbn [bind] in Hpre; try discriminate Hpre.
  cbn [bind].
  destruct (validate_buffers (map zlen wi) (map zlen wo) mask (a_val_channels A st) (a_val_min_in A st) (a_val_min_out A st))
    as [[]| | | |] eqn:Eval; cbn [bind] in Hpre; try discriminate Hpre.
  cbn [bind]. clear Hpre.
  apply validate_ok_iff in Eval. destruct Eval as (Vi & Vm & Vil & Vo & Vol).
  cbn [a_val_channels a_val_min_in a_val_min_out si_arch] in Vi, Vm, Vil, Vo, Vol.
  unfold si_val_channels, si_val_min_in, si_val_min_out in Vi, Vm, Vil, Vo, Vol.
  fold Cc in Vil.
  (* --- history shift *)
  cbn [a_shift_lo a_shift_hi a_shift_dst si_arch]. unfold si_shift_lo, si_shift_hi, si_shift_dst, si_sinc_len. fold st F L.
  destruct (shift_all_ok (Cm + 2 * L) F (F + 2 * L) 0 ltac:(lia) ltac:(lia) ltac:(lia) ltac:(lia) ltac:(lia) (as_buf s) Wb)
    as (bufs1 & E1 & L1 & N1).
  rewrite E1. cbn [bind].
  (* --- load the new chunk *)
  cbn [a_pre si_arch]. unfold si_fill_next. fold Cc.
  set (st1 := set_SincFixedIn_current_buffer_fill st Cc).
  assert (P1 : SincFixedIn_chunk_size st1 = Cc /\ SincFixedIn_interpolator_len st1 = L /\
               SincFixedIn_resample_ratio st1 = r /\ SincFixedIn_target_ratio st1 = r /\
               SincFixedIn_last_index st1 = SincFixedIn_last_index st /\
               SincFixedIn_interpolator_nbr_sincs st1 = SincFixedIn_interpolator_nbr_sincs st /\
               SincFixedIn_nbr_channels st1 = SincFixedIn_nbr_channels st /\ SincFixedIn_max_chunk_size st1 = Cm).
  { unfold st1, set_SincFixedIn_current_buffer_fill. cbn. repeat split; try reflexivity. exact Wt. }
  destruct P1 as (P1c & P1l & P1r & P1t & P1i & P1n & P1ch & P1m).
  assert (Hfill : exists bufs2, fill_all A st1 bufs1 wi mask = Ok bufs2 /\ all_len (Cm + 2 * L) bufs2 /\ length bufs2 = length bufs1).
  { apply (fill_all_ok A st1 (Cm + 2 * L));
      cbn [a_fill_lo a_fill_hi a_fill_src_hi si_arch]; unfold si_fill_lo, si_fill_hi, si_fill_src_hi, si_sinc_len;
      rewrite ?P1c, ?P1l; try lia; try assumption.
    - unfold zlen in Vi. rewrite map_length in Vi. lia.
    - unfold zlen in Vm. lia.
    - intros k w Hk Hm. apply (Vil k (zlen w)); [rewrite nth_error_map, Hk; reflexivity | exact Hm]. }
  destruct Hfill as (bufs2 & E2 & L2 & N2).
  rewrite E2. cbn [bind].
  (* --- the stepping loop *)
  cbn [a_t0 a_tend a_inc a_idx0 a_fixed_in a_end_idx si_arch].
  rewrite si_t_ratio_R by (rewrite P1r; exact Hr0). rewrite si_t_ratio_end_R by (rewrite P1t; exact Hr0).
  rewrite P1r, P1t.
  set (t := / r).
  assert (Ht : 0 < t) by (apply Rinv_0_lt_compat; exact Wr).
  assert (Htr : t * r = 1) by (unfold t; apply Rinv_l; exact Hr0).
  assert (Hinc : @si_t_ratio_increment CR st1 (@si_approximate_nbr_frames CR st1) t t = 0).
  { unfold si_t_ratio_increment. cbv [cdiv csub CR cnum]. unfold Rdiv. rewrite Rminus_diag_eq by reflexivity. ring. }
  rewrite Hinc. unfold si_sinc_len. rewrite si_end_idx_R. rewrite P1c, P1l.
  unfold si_idx0. rewrite P1i.
  set (l0 := SincFixedIn_last_index st) in *.
  set (E := (Cc - (L + 1) - Zceil t)%Z).
  assert (Hloop : forall fuel t0 inc0 i0,
            @positions_in CR (a_tstep A st1) (a_istep A st1) (a_cond A st1 E) fuel t0 inc0 i0 =
            @positions_in CR Rplus Rplus (fun i => Rlt_bool i (IZR E)) fuel t0 inc0 i0).
  { intros. cbn [a_tstep a_istep a_cond si_arch]. destruct (se_type env); reflexivity. }
  rewrite Hloop.
  set (needed := @si_calc_needed_len CR st).
  assert (Hneeded : IZR Cc * r + 9 < IZR needed).
  { unfold needed. rewrite si_needed_len_R. rewrite Wt. fold Cc r.
    replace (IZR Cc * (1 / 2 * r + 1 / 2 * r) + 10 / 1) with (IZR Cc * r + 10) by field.
    assert (0 <= IZR Cc * r) by (apply Rmult_le_pos; [apply IZR_le; lia | lra]).
    rewrite Z.max_r.
    2:{ apply le_IZR. rewrite Ztrunc_floor by lra. generalize (Zfloor_ub (IZR Cc * r + 10)). change (IZR 0) with 0. lra. }
    rewrite Ztrunc_floor by lra. generalize (Zfloor_ub (IZR Cc * r + 10)). lra. }
  assert (Hneeded1 : a_val_min_out A st = needed) by reflexivity.
  assert (Hgap : (IZR E - l0) * r <= IZR Cc * r + 8).
  { unfold E. fold t in G2. exact G2. }
  assert (Hceil : IZR (Zceil t) - t < 1 /\ t <= IZR (Zceil t)).
  { split; [generalize (Zceil_lb t); lra | apply Zceil_ub]. }
  assert (Houts : forall k o, nth_error wo k = Some o -> nth_error mask k = Some true -> (needed <= zlen o)%Z).
  { intros k o Hk Hm. apply (Vol k (zlen o)); [rewrite nth_error_map, Hk; reflexivity | exact Hm]. }
  set (fuel := match min_active_out wo mask with Some cap => Z.to_nat (cap + 2) | None => Z.to_nat (a_val_min_out A st + 65536) end).
  assert (Hfuel : IZR needed + 2 <= INR fuel).
  { assert (Hn0 : (0 <= needed)%Z) by (unfold needed; rewrite si_needed_len_R; lia).
    unfold fuel. destruct (min_active_out wo mask) as [cap|] eqn:Ecap.
    - assert (needed <= cap)%Z by (eapply min_active_out_ge; eassumption).
      rewrite INR_IZR_INZ, Z2Nat.id by lia. rewrite <- (plus_IZR needed 2). apply IZR_le. lia.
    - rewrite Hneeded1. rewrite INR_IZR_INZ, Z2Nat.id by lia. rewrite <- (plus_IZR needed 2). apply IZR_le. lia. }
  destruct (positions_in_terminates (IZR E) t Ht fuel t 0 l0) as (ps & last & Eps).
  { intros k _. lra. }
  { assert (H0 : (IZR E - l0) * r < INR fuel) by lra.
    assert (H1 : (IZR E - l0) * r * t < INR fuel * t) by (apply Rmult_lt_compat_r; lra).
    replace ((IZR E - l0) * r * t) with ((IZR E - l0) * (t * r)) in H1 by ring. rewrite Htr in H1. lra. }
  rewrite Eps.
  destruct (positions_in_spec (IZR E) fuel t 0 l0 ps last Eps) as (Hps & Hlast & Hlt & Hge & Hnf).
  set (n := length ps) in *. assert (En : n = length ps) by reflexivity. clearbody n.
  assert (Hpos : forall k, pos_at l0 t 0 k = l0 + INR k * t) by (intros k; unfold pos_at; lra).
  assert (Hn : INR n < IZR Cc * r + 9).
  { destruct n as [|n']; [cbn; assert (0 <= IZR Cc * r) by (apply Rmult_le_pos; [apply IZR_le; lia|lra]); lra|].
    specialize (Hlt n' ltac:(lia)). rewrite Hpos in Hlt. rewrite S_INR.
    assert (H0 : INR n' * t < IZR E - l0) by lra.
    assert (H1 : INR n' * t * r < (IZR E - l0) * r) by (apply Rmult_lt_compat_r; lra).
    replace (INR n' * t * r) with (INR n' * (t * r)) in H1 by ring. rewrite Htr in H1. lra. }
  assert (Hn' : (Z.of_nat n <= needed)%Z).
  { apply le_IZR. rewrite <- INR_IZR_INZ. lra. }
  (* every instant: the kernel windows satisfy the asserts of get_sinc_interpolated *)
  assert (Hsamp : samples_ok A st1 (Cm + 2 * L) ps).
  { intros b p Hb Hp. rewrite Hps in Hp. apply in_map_iff in Hp. destruct Hp as (k & <- & Hk). apply in_seq in Hk.
    cbn [a_sample si_arch]. rewrite Hpos. unfold si_sinc_len, si_oversampling_factor. rewrite P1l, P1n.
    assert (K1 : l0 + INR k * t < IZR E + t).
    { destruct k as [|k']; [lia|]. specialize (Hlt k' ltac:(lia)). rewrite Hpos in Hlt. rewrite S_INR. lra. }
    assert (K0 : l0 + t <= l0 + INR k * t).
    { assert (1 <= INR k) by (change 1 with (INR 1); apply le_INR; lia). nra. }
    assert (Fb : (1 - 2 * L <= Zfloor (l0 + INR k * t) < Cc - (L + 1))%Z).
    { split; [eapply Z.le_trans; [exact G1|]; fold t; apply Zfloor_le; exact K0|].
      apply lt_IZR. eapply Rle_lt_trans; [apply Zfloor_lb|].
      unfold E in K1. rewrite !minus_IZR in K1. rewrite minus_IZR. lra. }
    match goal with |- exists v, sinc_sample env L ?nb ?kidx ?fr b ?i = Ok v =>
      assert (Hk' : kidx = (fun i0 : Z => (i0 + 2 * L)%Z)) end.
    { destruct (se_type env) eqn:Et; cbn; rewrite ?Et; reflexivity. }
    rewrite Hk'. apply sinc_sample_ok_R; [exact Wnb | lia | rewrite Hb; lia]. }
  destruct (outputs_all_ok A st1 (Cm + 2 * L) ps Hsamp bufs2 wo mask L2) as (outs & Eo & No & Po).
  { intros k o Hk Hm. specialize (Houts k o Hk Hm). unfold zlen in Houts.
    change (@length (@cnum CR) ps) with (@length R ps). rewrite <- En. lia. }
  cbn [bind]. rewrite Eo. cbn [bind]. change (@length (@cnum CR) ps) with (@length R ps). rewrite <- En.
  eexists _, (Z.of_nat n), outs. split; [reflexivity|].
  assert (Elast : last = l0 + INR n * t) by (rewrite Hlast; apply Hpos).
  assert (Lo : - IZR (L + 1) - IZR (Zceil t) <= last - IZR Cc).
  { unfold E in Hge. rewrite !minus_IZR in Hge. lra. }
  assert (Hi : last - IZR Cc <= -4).
  { rewrite Elast. destruct n as [|n'].
    + cbn [INR]. assert (1 <= IZR Cc) by (apply IZR_le; lia). lra.
    + specialize (Hlt n' ltac:(lia)). rewrite Hpos in Hlt. rewrite S_INR. unfold E in Hlt. rewrite !minus_IZR in Hlt.
      rewrite plus_IZR in Hlt. assert (8 <= IZR L) by (apply IZR_le; lia). change (IZR 1) with 1 in Hlt. lra. }
  unfold sC, sCmax, snch, sratio, sli, sL, snbr, sfill.
  cbn [a_finish si_arch as_ctl as_buf as_mask].
  unfold si_last_index_next, si_resample_ratio_next.
  unfold set_SincFixedIn_last_index, set_SincFixedIn_resample_ratio, st1, set_SincFixedIn_current_buffer_fill.
  cbn [SincFixedIn_nbr_channels SincFixedIn_chunk_size SincFixedIn_max_chunk_size SincFixedIn_current_buffer_fill
       SincFixedIn_last_index SincFixedIn_resample_ratio SincFixedIn_resample_ratio_original SincFixedIn_target_ratio
       SincFixedIn_max_relative_ratio SincFixedIn_interpolator_len SincFixedIn_interpolator_nbr_sincs csub c_of_Z CR].
  fold st. fold Cc Cm L r. rewrite Wt. fold r. fold t.
  repeat split; try reflexivity; try assumption; try lia;
    try (rewrite Elast, <- INR_IZR_INZ; lra); try (unfold zlen in Vm; lia).
Qed.

(** the constant-ratio case *)
Theorem si_call_const_R (s : ST) wi wo m :
  si_wf s -> a_precheck A s wi wo m = Ok tt ->
  exists (s' : ST) (n : Z) outs,
    pib A s wi wo m = Ok (s', (sC s, n), outs) /\
    (0 <= n <= @si_calc_needed_len CR (as_ctl s))%Z /\
    sli s' = sli s + IZR n * / sratio s - IZR (sC s) /\
    sC s' = sC s /\ sCmax s' = sCmax s /\ snch s' = snch s /\ sratio s' = sratio s /\ sL s' = sL s /\ snbr s' = snbr s /\
    SincFixedIn_target_ratio (as_ctl s') = sratio s /\ sfill s' = sC s /\
    length (as_buf s') = length (as_buf s) /\ length (as_mask s') = Z.to_nat (snch s) /\
    all_len (sCmax s + 2 * sL s) (as_buf s') /\
    - IZR (sL s + 1) - IZR (Zceil (/ sratio s)) <= sli s' <= -4.
Proof.
  intros W Hpre. pose proof (si_wf_wf0 s W) as W0. destruct W as [WC Wn Wlb Wlm Wb Wr Wt WL Wnb Wf Wli].
  assert (Ht : 0 < / sratio s) by (apply Rinv_0_lt_compat; exact Wr).
  assert (Hceil : IZR (Zceil (/ sratio s)) - / sratio s < 1 /\ / sratio s <= IZR (Zceil (/ sratio s))).
  { split; [generalize (Zceil_lb (/ sratio s)); lra | apply Zceil_ub]. }
  assert (HL8 : 8 <= IZR (sL s)) by (apply IZR_le; exact WL).
  apply (si_call_gen_R s wi wo m W0); try exact Hpre.
  - apply Zfloor_lub. rewrite minus_IZR, mult_IZR. rewrite plus_IZR in Wli. change (IZR 1) with 1 in *. change (IZR 2) with 2. lra.
  - rewrite !minus_IZR, plus_IZR. rewrite plus_IZR in Wli. change (IZR 1) with 1 in *.
    assert (IZR (sC s) - (IZR (sL s) + 1) - IZR (Zceil (/ sratio s)) - sli s <= IZR (sC s)) by lra.
    assert ((IZR (sC s) - (IZR (sL s) + 1) - IZR (Zceil (/ sratio s)) - sli s) * sratio s <= IZR (sC s) * sratio s) by (apply Rmult_le_compat_r; lra). lra.
  - lra.
Qed.

(** the invariant is re-established by the call, and by set_chunk_size in between *)
Lemma si_wf_after (s s' : ST) :
  si_wf s ->
  sC s' = sC s -> sCmax s' = sCmax s -> snch s' = snch s -> sratio s' = sratio s -> sL s' = sL s -> snbr s' = snbr s ->
  SincFixedIn_target_ratio (as_ctl s') = sratio s -> sfill s' = sC s ->
  length (as_buf s') = length (as_buf s) -> length (as_mask s') = Z.to_nat (snch s) ->
  all_len (sCmax s + 2 * sL s) (as_buf s') ->
  - IZR (sL s + 1) - IZR (Zceil (/ sratio s)) <= sli s' <= -4 ->
  si_wf s'.
Proof.
  intros [WC Wn Wlb Wlm Wb Wr Wt WL Wnb Wf Wli] H1 H2 H3 H4 H5 H6 H7 H8 H9 H10 H11 H12.
  constructor; rewrite ?H1, ?H2, ?H3, ?H4, ?H5, ?H6, ?H8; try assumption; try lia; try (rewrite H9; exact Wlb).
Qed.

Lemma si_wf_after0 (s s' : ST) :
  si_wf0 s ->
  sC s' = sC s -> sCmax s' = sCmax s -> snch s' = snch s -> sratio s' = sratio s -> sL s' = sL s -> snbr s' = snbr s ->
  SincFixedIn_target_ratio (as_ctl s') = sratio s -> sfill s' = sC s ->
  length (as_buf s') = length (as_buf s) -> length (as_mask s') = Z.to_nat (snch s) ->
  all_len (sCmax s + 2 * sL s) (as_buf s') ->
  - IZR (sL s + 1) - IZR (Zceil (/ sratio s)) <= sli s' <= -4 ->
  si_wf s'.
Proof.
  intros [WC Wn Wlb Wlm Wb Wr Wt WL Wnb Wf] H1 H2 H3 H4 H5 H6 H7 H8 H9 H10 H11 H12.
  constructor; rewrite ?H1, ?H2, ?H3, ?H4, ?H5, ?H6, ?H8; try assumption; try lia; try (rewrite H9; exact Wlb).
Qed.

End Call.

(** * Histories: valid process_into_buffer calls interleaved with set_chunk_size (constant ratio) *)
Section History.
Variable env : sinc_env.
Notation A := (@si_arch CR SR env).
Notation ST := (@astate CR SR SI).

Inductive si_op : Type :=
| SCall (wi wo : list (list R)) (m : option (list bool))
| SChunk (n : Z).

Definition si_set_chunk (s : ST) (n : Z) : ST :=
  if @si_set_chunk_bad CR (as_ctl s) n then s
  else mk_astate (set_SincFixedIn_chunk_size (as_ctl s) n) (as_buf s) (as_mask s).

Fixpoint si_run (s : ST) (ops : list si_op) : res (ST * Z * Z) :=
  match ops with
  | [] => Ok (s, 0%Z, 0%Z)
  | SChunk n :: rest => si_run (si_set_chunk s n) rest
  | SCall wi wo m :: rest =>
      do _ <- a_precheck A s wi wo m;
      do x <- pib A s wi wo m;
      let '(s', (a, b), _) := x in
      do y <- si_run s' rest;
      let '(s'', nin, nout) := y in
      Ok (s'', (a + nin)%Z, (b + nout)%Z)
  end.

Lemma si_set_chunk_wf (s : ST) n : si_wf env s -> (0 <= n)%Z ->
  si_wf env (si_set_chunk s n) /\ sratio (si_set_chunk s n) = sratio s /\ sli (si_set_chunk s n) = sli s.
Proof.
  intros W Hn. unfold si_set_chunk, si_set_chunk_bad.
  destruct (Z.gtb_spec n (SincFixedIn_max_chunk_size (as_ctl s))); destruct (Z.eqb_spec n 0); cbn [orb];
    try (split; [exact W | split; reflexivity]).
  destruct W as [WC Wn Wlb Wlm Wb Wr Wt WL Wnb Wf Wli].
  unfold sC, sCmax, snch, sratio, sli, sL, snbr, sfill in *.
  split; [|split; reflexivity].
  constructor; unfold sC, sCmax, snch, sratio, sli, sL, snbr, sfill; cbn [as_ctl as_buf as_mask];
    unfold set_SincFixedIn_chunk_size;
    cbn [SincFixedIn_nbr_channels SincFixedIn_chunk_size SincFixedIn_max_chunk_size SincFixedIn_current_buffer_fill
         SincFixedIn_last_index SincFixedIn_resample_ratio SincFixedIn_target_ratio
         SincFixedIn_interpolator_len SincFixedIn_interpolator_nbr_sincs]; try assumption; try lia.
Qed.

Theorem si_history_const_R : forall ops (s : ST), si_wf env s ->
  (forall n, In (SChunk n) ops -> (0 <= n)%Z) ->
  match si_run s ops with
  | Ok (s', nin, nout) =>
      si_wf env s' /\ sratio s' = sratio s /\ (0 <= nin)%Z /\ (0 <= nout)%Z /\
      sli s' - sli s = IZR nout * / sratio s - IZR nin
  | Err _ => True
  | Panic _ | UB _ | Diverge => False
  end.
Proof.
  induction ops as [|[wi wo m|n] rest IH]; intros s W Hops; cbn [si_run].
  - split; [exact W|]. repeat split; try lia. change (IZR 0) with 0. lra.
  - destruct (a_precheck A s wi wo m) as [[]| | | |] eqn:Ep; cbn [bind]; try exact I.
    + destruct (si_call_const_R env s wi wo m W Ep)
        as (s' & n & outs & E & Hn & Hli & HC & HCm & Hnch & Hr & HL & Hnb & Ht & Hf & Hlb & Hlm & Hb & Hbound).
      assert (W' : si_wf env s') by (eapply si_wf_after; eassumption).
      rewrite E. cbn [bind].
      specialize (IH s' W' (fun k Hk => Hops k (or_intror Hk))).
      destruct (si_run s' rest) as [[[s'' nin] nout]| | | |]; cbn [bind]; try exact IH.
      destruct IH as (W'' & Hr'' & Hin & Hout & Hli'').
      destruct W as [WC _ _ _ _ _ _ _ _ _ _].
      split; [exact W''|]. split; [congruence|]. split; [unfold sC in *; lia|]. split; [lia|].
      rewrite !plus_IZR. rewrite Hr in Hli''. unfold sC in *. lra.
    + destruct (a_precheck_total A s wi wo m) as [H|[e H]]; rewrite H in Ep; discriminate.
    + destruct (a_precheck_total A s wi wo m) as [H|[e H]]; rewrite H in Ep; discriminate.
    + destruct (a_precheck_total A s wi wo m) as [H|[e H]]; rewrite H in Ep; discriminate.
  - destruct (si_set_chunk_wf s n W (Hops n (or_introl eq_refl))) as (W' & Hr & Hl).
    specialize (IH (si_set_chunk s n) W' (fun k Hk => Hops k (or_intror Hk))).
    destruct (si_run (si_set_chunk s n) rest) as [[[s'' nin] nout]| | | |]; try exact IH.
    rewrite Hr, Hl in IH. exact IH.
Qed.

Corollary si_accounting_const_R ops (s s' : ST) nin nout :
  si_wf env s -> (forall n, In (SChunk n) ops -> (0 <= n)%Z) -> si_run s ops = Ok (s', nin, nout) ->
  Rabs (IZR nout - sratio s * IZR nin) <= sratio s * (IZR (sL s) + / sratio s + 3) + 3.
Proof.
  intros W Hops E. generalize (si_history_const_R ops s W Hops). rewrite E.
  intros (W' & Hr & _ & _ & Hli).
  assert (HL : sL s' = sL s).
  { clear -E W Hops. revert s nin nout E W Hops. induction ops as [|[wi wo m|n] rest IH]; intros s nin nout E W Hops; cbn [si_run] in E.
    - injection E as <- _ _. reflexivity.
    - destruct (a_precheck A s wi wo m) as [[]| | | |] eqn:Ep; cbn [bind] in E; try discriminate.
      destruct (si_call_const_R env s wi wo m W Ep)
        as (s1 & n & outs & E1 & Hn & Hli & HC & HCm & Hnch & Hr & HL & Hnb & Ht & Hf & Hlb & Hlm & Hb & Hbound).
      rewrite E1 in E. cbn [bind] in E.
      destruct (si_run s1 rest) as [[[s2 a] b]| | | |] eqn:E2; cbn [bind] in E; try discriminate.
      injection E as <- _ _. rewrite <- HL. apply (IH s1 _ _ E2); [eapply si_wf_after; eassumption | intros k Hk; apply Hops; right; exact Hk].
    - destruct (si_set_chunk_wf s n W (Hops n (or_introl eq_refl))) as (W' & _ & _).
      rewrite (IH _ _ _ E W' (fun k Hk => Hops k (or_intror Hk))).
      unfold si_set_chunk. destruct (si_set_chunk_bad _ _); reflexivity. }
  destruct W as [_ _ _ _ _ Wr _ WL _ _ Wl]. destruct W' as [_ _ _ _ _ _ _ _ _ _ Wl'].
  rewrite Hr, HL in Wl'. set (r := sratio s) in *. set (t := / r) in *. set (L := IZR (sL s)) in *.
  assert (Ht : 0 < t) by (apply Rinv_0_lt_compat; exact Wr).
  assert (Hc : IZR (Zceil t) < t + 1) by (generalize (Zceil_lb t); lra).
  assert (Htr : r * t = 1) by (unfold t; apply Rinv_r; lra).
  assert (HL8 : 8 <= L) by (apply IZR_le; exact WL).
  rewrite plus_IZR in Wl, Wl'. fold L in Wl, Wl'. change (IZR 1) with 1 in *.
  assert (Hd : Rabs (IZR nout * t - IZR nin) <= L + t) by (rewrite <- Hli; apply Rabs_le; lra).
  replace (IZR nout - r * IZR nin) with (r * (IZR nout * t - IZR nin)) by (rewrite Rmult_minus_distr_l, <- Rmult_assoc, (Rmult_comm r (IZR nout)), Rmult_assoc, Htr; ring).
  rewrite Rabs_mult, (Rabs_pos_eq r) by lra.
  apply Rle_trans with (r * (L + t)); [apply Rmult_le_compat_l; lra|]. nra.
Qed.

End History.

(** * Histories with non-ramped ratio changes and set_chunk_size between the calls (see FastInR, Section Steps) *)
Section Steps.
Variable env : sinc_env.
Notation A := (@si_arch CR SR env).
Notation ST := (@astate CR SR SI).

(* rc: the ratio in force during the last call; r2: the ratio for the next one; L: sinc_len *)
Definition sstep_compatible (L : Z) (rc r2 : R) : Prop :=
  0 < r2 /\
  IZR (Zceil (/ rc)) - / r2 <= IZR (L - 2) /\                       (* first window starts inside the 2*L pre-roll *)
  (IZR (Zceil (/ rc)) - IZR (Zceil (/ r2))) * r2 <= 8.              (* at most output_frames_next() frames are produced *)

Lemma sstep_compatible_refl L r : (8 <= L)%Z -> 0 < r -> sstep_compatible L r r.
Proof.
  intros HL Hr. assert (Ht : 0 < / r) by (apply Rinv_0_lt_compat; exact Hr).
  split; [exact Hr|]. split.
  - assert (IZR (Zceil (/ r)) - / r < 1) by (generalize (Zceil_lb (/ r)); lra).
    assert (6 <= IZR (L - 2)) by (apply IZR_le; lia). lra.
  - rewrite Rminus_diag_eq by reflexivity. lra.
Qed.

Record si_wfs (rc : R) (s : ST) : Prop := {
  ss_0 : si_wf0 env s;
  ss_li : - IZR (sL s + 1) - IZR (Zceil (/ rc)) <= sli s <= -4;
  ss_c : sstep_compatible (sL s) rc (sratio s);
}.

Lemma si_wf_wfs (s : ST) : si_wf env s -> si_wfs (sratio s) s.
Proof.
  intros W. pose proof (si_wf_wf0 env s W) as W0. destruct W as [_ _ _ _ _ Wr _ WL _ _ Wl].
  constructor; [exact W0 | exact Wl | apply sstep_compatible_refl; assumption].
Qed.

Theorem si_call_step_R rc (s : ST) wi wo m :
  si_wfs rc s -> a_precheck A s wi wo m = Ok tt ->
  exists (s' : ST) (n : Z) outs,
    pib A s wi wo m = Ok (s', (sC s, n), outs) /\ si_wf env s' /\
    (0 <= n <= @si_calc_needed_len CR (as_ctl s))%Z /\
    sli s' = sli s + IZR n * / sratio s - IZR (sC s) /\
    sC s' = sC s /\ sCmax s' = sCmax s /\ sratio s' = sratio s /\ sL s' = sL s.
Proof.
  intros [W0 Wl (Hr & C1 & C2)] Hpre.
  assert (Ht : 0 < / sratio s) by (apply Rinv_0_lt_compat; exact Hr).
  destruct (si_call_gen_R env s wi wo m W0) as (s' & n & outs & E & Hn & Hli & HC & HCm & Hnch & Hr' & HL & Hnb & Htt & Hf & Hlb & Hlm & Hb & Hbound);
    try exact Hpre.
  - apply Zfloor_lub. rewrite minus_IZR, mult_IZR. rewrite plus_IZR in Wl. rewrite minus_IZR in C1.
    change (IZR 1) with 1 in *. change (IZR 2) with 2 in *. lra.
  - rewrite !minus_IZR, plus_IZR. rewrite plus_IZR in Wl. change (IZR 1) with 1 in *.
    assert (H0 : IZR (sC s) - (IZR (sL s) + 1) - IZR (Zceil (/ sratio s)) - sli s <=
                 IZR (sC s) + (IZR (Zceil (/ rc)) - IZR (Zceil (/ sratio s)))) by lra.
    assert (H1 : (IZR (sC s) - (IZR (sL s) + 1) - IZR (Zceil (/ sratio s)) - sli s) * sratio s <=
                 (IZR (sC s) + (IZR (Zceil (/ rc)) - IZR (Zceil (/ sratio s)))) * sratio s) by (apply Rmult_le_compat_r; lra).
    lra.
  - lra.
  - exists s', n, outs. split; [exact E|]. split; [eapply si_wf_after0; eassumption|].
    repeat split; try assumption; lia.
Qed.

Lemma si_set_chunk_wfs rc (s : ST) n : si_wfs rc s -> (0 <= n)%Z ->
  si_wfs rc (si_set_chunk s n) /\ sratio (si_set_chunk s n) = sratio s /\ sCmax (si_set_chunk s n) = sCmax s.
Proof.
  intros W Hn. unfold si_set_chunk, si_set_chunk_bad.
  destruct (Z.gtb_spec n (SincFixedIn_max_chunk_size (as_ctl s))); destruct (Z.eqb_spec n 0); cbn [orb];
    try (split; [exact W | split; reflexivity]).
  destruct W as [[WC Wn Wlb Wlm Wb Wr Wt WL Wnb Wf] Wli Wc].
  unfold sC, sCmax, snch, sratio, sli, sL, snbr, sfill in *.
  split; [|split; reflexivity].
  constructor; [constructor|..]; unfold sC, sCmax, snch, sratio, sli, sL, snbr, sfill; cbn [as_ctl as_buf as_mask];
    unfold set_SincFixedIn_chunk_size;
    cbn [SincFixedIn_nbr_channels SincFixedIn_chunk_size SincFixedIn_max_chunk_size SincFixedIn_current_buffer_fill
         SincFixedIn_last_index SincFixedIn_resample_ratio SincFixedIn_target_ratio
         SincFixedIn_interpolator_len SincFixedIn_interpolator_nbr_sincs]; try assumption; try lia.
Qed.

Lemma si_set_ratio_wfs rc (s s1 : ST) r2 :
  si_wfs rc s -> sstep_compatible (sL s) rc r2 -> @si_set_ratio CR SR s r2 false = (s1, Ok tt) ->
  si_wfs rc s1 /\ sratio s1 = r2 /\ sCmax s1 = sCmax s /\ sL s1 = sL s.
Proof.
  intros [[WC Wn Wlb Wlm Wb Wr Wt WL Wnb Wf] Wl Wc] Hc E. unfold si_set_ratio in E.
  destruct (si_set_ratio_accept (as_ctl s) r2); [|discriminate E].
  injection E as <-. destruct Hc as (H1 & H2 & H3).
  unfold sC, sCmax, snch, sratio, sli, sL, snbr, sfill in *. destruct s as [st bufs mask]. destruct st.
  cbn in *. split; [|repeat split; reflexivity].
  constructor; [constructor; cbn; assumption || reflexivity | exact Wl | cbn; repeat split; assumption].
Qed.

Inductive si_op2 :=
| S2Call (wi wo : list (list R)) (m : option (list bool))
| S2Chunk (n : Z)
| S2Step (r2 : R).

(* the run records, for every call, (frames consumed, frames produced, chunk_size and output_frames_next() before the call) *)
Fixpoint si_run_ops (s : ST) (ops : list si_op2) : res (ST * list (Z * Z * Z * Z)) :=
  match ops with
  | [] => Ok (s, [])
  | S2Call wi wo m :: rest =>
      do _ <- a_precheck A s wi wo m;
      do x <- pib A s wi wo m;
      let '(s', (a, b), _) := x in
      do y <- si_run_ops s' rest;
      let '(s'', log) := y in
      Ok (s'', (a, b, sC s, @si_calc_needed_len CR (as_ctl s)) :: log)
  | S2Chunk n :: rest => si_run_ops (si_set_chunk s n) rest
  | S2Step r2 :: rest =>
      match @si_set_ratio CR SR s r2 false with
      | (s1, Ok tt) => si_run_ops s1 rest
      | (_, Err e) => Err e
      | (_, Panic e) => Panic e | (_, UB e) => UB e | (_, Diverge) => Diverge
      end
  end.

Fixpoint ssteps_compatible (L : Z) (rc r : R) (ops : list si_op2) : Prop :=
  match ops with
  | [] => True
  | S2Call _ _ _ :: rest => ssteps_compatible L r r rest
  | S2Chunk n :: rest => (0 <= n)%Z /\ ssteps_compatible L rc r rest
  | S2Step r2 :: rest => sstep_compatible L rc r2 /\ ssteps_compatible L rc r2 rest
  end.

Definition scall_ok (e : Z * Z * Z * Z) : Prop :=
  let '(a, b, c, adv) := e in a = c /\ (0 <= b <= adv)%Z.

(** Every history of well-formed calls, set_chunk_size calls and accepted, compatible, non-ramped ratio changes runs
    without a failed assert, an out-of-range access or non-termination; every call consumes the current chunk_size
    and produces at most output_frames_next() frames. *)
Theorem si_history_steps_R : forall ops rc (s : ST), si_wfs rc s -> ssteps_compatible (sL s) rc (sratio s) ops ->
  match si_run_ops s ops with
  | Ok (s', log) => (exists rc', si_wfs rc' s') /\ sCmax s' = sCmax s /\ Forall scall_ok log
  | Err _ => True
  | Panic _ | UB _ | Diverge => False
  end.
Proof.
  induction ops as [|[wi wo m|k|r2] rest IH]; intros rc s W Hc; cbn [si_run_ops].
  - split; [exists rc; exact W|]. split; [reflexivity|constructor].
  - cbn [ssteps_compatible] in Hc.
    destruct (a_precheck A s wi wo m) as [[]| | | |] eqn:Ep; cbn [bind]; try exact I.
    + destruct (si_call_step_R rc s wi wo m W Ep) as (s' & n & outs & E & W' & Hn & Hli & HC & HCm & Hr & HL).
      rewrite E. cbn [bind]. apply si_wf_wfs in W'. rewrite <- Hr, <- HL in Hc.
      specialize (IH (sratio s') s' W' Hc).
      destruct (si_run_ops s' rest) as [[s'' log]| | | |]; cbn [bind]; try exact IH.
      destruct IH as (W'' & HC'' & Hlog). split; [exact W''|]. split; [congruence|].
      constructor; [cbn; split; [reflexivity|exact Hn] | exact Hlog].
    + destruct (a_precheck_total A s wi wo m) as [H|[e H]]; rewrite H in Ep; discriminate.
    + destruct (a_precheck_total A s wi wo m) as [H|[e H]]; rewrite H in Ep; discriminate.
    + destruct (a_precheck_total A s wi wo m) as [H|[e H]]; rewrite H in Ep; discriminate.
  - cbn [ssteps_compatible] in Hc. destruct Hc as [Hk Hc].
    destruct (si_set_chunk_wfs rc s k W Hk) as (W1 & Hr1 & HC1).
    assert (HL1 : sL (si_set_chunk s k) = sL s) by (unfold si_set_chunk; destruct (si_set_chunk_bad _ _); reflexivity).
    rewrite <- Hr1, <- HL1 in Hc. specialize (IH rc _ W1 Hc).
    destruct (si_run_ops (si_set_chunk s k) rest) as [[s'' log]| | | |]; try exact IH.
    destruct IH as (W'' & HC'' & Hlog). split; [exact W''|]. split; [congruence|exact Hlog].
  - cbn [ssteps_compatible] in Hc. destruct Hc as [Hc1 Hc2].
    destruct (@si_set_ratio CR SR s r2 false) as [s1 o] eqn:Es.
    assert (Ho : o = Ok tt \/ exists e, o = Err e).
    { unfold si_set_ratio in Es. destruct (si_set_ratio_accept (as_ctl s) r2); injection Es as <- <-; [left; reflexivity | right; eexists; reflexivity]. }
    destruct Ho as [-> | [e ->]]; [|exact I].
    destruct (si_set_ratio_wfs rc s s1 r2 W Hc1 Es) as (W1 & Hr1 & HC1 & HL1).
    rewrite <- Hr1, <- HL1 in Hc2. specialize (IH rc s1 W1 Hc2).
    destruct (si_run_ops s1 rest) as [[s'' log]| | | |]; try exact IH.
    destruct IH as (W'' & HC'' & Hlog). split; [exact W''|]. split; [congruence|exact Hlog].
Qed.

End Steps.
