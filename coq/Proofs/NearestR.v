(** interpolation.rs in ideal arithmetic: the points returned by get_nearest_time(s)_* lie within
    one input frame of floor(t) and their sub-index is a valid table row.               *)

From Coq Require Import ZArith Reals List Bool Lra Lia.
From Flocq Require Import Core.
From Rubato.Model Require Import Num Reals Nearest.
Import ListNotations.
Local Open Scope R_scope.

Lemma nt_index_R (t : R) : @nt_index CR t = Zfloor t.
Proof. unfold nt_index. cbn [c_to_isize cfloor CR]. apply Ztrunc_IZR. Qed.

Lemma frac_bounds (t : R) : 0 <= t - IZR (Zfloor t) < 1.
Proof. generalize (Zfloor_lb t) (Zfloor_ub t). lra. Qed.

Lemma nt_sub_floor_R (t : R) (n : Z) : (1 <= n)%Z -> (0 <= @nt_sub_floor CR t n <= n - 1)%Z.
Proof.
  intros Hn. unfold nt_sub_floor. cbn [c_to_isize cfloor cmul csub c_of_Z CR]. rewrite Ztrunc_IZR.
  destruct (frac_bounds t) as [F0 F1]. set (x := t - IZR (Zfloor t)) in *. clearbody x.
  assert (Hn' : 1 <= IZR n) by (apply IZR_le; lia).
  split.
  - apply Zfloor_lub. change (IZR 0) with 0. apply Rmult_le_pos; lra.
  - assert (Zfloor (x * IZR n) < n)%Z; [|lia]. apply lt_IZR.
    eapply Rle_lt_trans; [apply Zfloor_lb|]. assert (Hx : x * IZR n < 1 * IZR n) by (apply Rmult_lt_compat_r; lra). rewrite Rmult_1_l in Hx. exact Hx.
Qed.

Lemma nt_sub_round_R (t : R) (n : Z) : (1 <= n)%Z -> (0 <= @nt_sub_round CR t n <= n)%Z.
Proof.
  intros Hn. unfold nt_sub_round. cbn [c_to_isize cround cfloor cmul csub c_of_Z CR]. rewrite Ztrunc_IZR.
  destruct (frac_bounds t) as [F0 F1]. set (x := t - IZR (Zfloor t)) in *. clearbody x.
  assert (Hn' : 1 <= IZR n) by (apply IZR_le; lia).
  split.
  - eapply Z.le_trans; [|apply Znearest_ge_floor]. apply Zfloor_lub. change (IZR 0) with 0. apply Rmult_le_pos; lra.
  - eapply Z.le_trans; [apply Znearest_le_ceil|]. apply Zceil_glb. assert (Hx : x * IZR n <= 1 * IZR n) by (apply Rmult_le_compat_r; lra). rewrite Rmult_1_l in Hx. exact Hx.
Qed.

Definition pts_ok (t : R) (n : Z) (pts : list (Z * Z)) : Prop :=
  Forall (fun p => (Zfloor t - 1 <= fst p <= Zfloor t + 1)%Z /\ (0 <= snd p < n)%Z) pts.

Lemma nt_wrap_ok (t : R) n sub :
  (2 <= n)%Z -> (-1 <= sub <= n + 1)%Z ->
  let p := nt_wrap (Zfloor t) sub n in (Zfloor t - 1 <= fst p <= Zfloor t + 1)%Z /\ (0 <= snd p < n)%Z.
Proof.
  intros Hn Hs. unfold nt_wrap.
  destruct (Z.ltb_spec sub 0); cbn [fst snd]; [lia|].
  destruct (Z.geb_spec sub n); cbn [fst snd]; lia.
Qed.

Lemma nearest4_ok (t : R) n : (2 <= n)%Z -> pts_ok t n (@get_nearest_times_4 CR t n).
Proof.
  intros Hn. unfold get_nearest_times_4. rewrite nt_index_R.
  generalize (nt_sub_floor_R t n ltac:(lia)). intros Hf.
  unfold pts_ok. cbn [map]. constructor; [|constructor; [|constructor; [|constructor; [|constructor]]]]; apply nt_wrap_ok; lia.
Qed.

Lemma nearest3_ok (t : R) n : (2 <= n)%Z -> pts_ok t n (@get_nearest_times_3 CR t n).
Proof.
  intros Hn. unfold get_nearest_times_3. rewrite nt_index_R.
  generalize (nt_sub_floor_R t n ltac:(lia)). intros Hf.
  unfold pts_ok. cbn [map]. constructor; [|constructor; [|constructor; [|constructor]]]; apply nt_wrap_ok; lia.
Qed.

Lemma nearest2_ok (t : R) n : (1 <= n)%Z -> pts_ok t n (@get_nearest_times_2 CR t n).
Proof.
  intros Hn. unfold get_nearest_times_2. rewrite nt_index_R.
  generalize (nt_sub_floor_R t n Hn). intros Hf.
  unfold pts_ok. cbv zeta. apply Forall_cons; [cbn [fst snd]; lia|]. apply Forall_cons; [|apply Forall_nil].
  destruct (Z.geb_spec (@nt_sub_floor CR t n + 1) n); cbn [fst snd]; lia.
Qed.

Lemma nearest1_ok (t : R) n : (1 <= n)%Z -> pts_ok t n [@get_nearest_time CR t n].
Proof.
  intros Hn. unfold get_nearest_time. rewrite nt_index_R.
  generalize (nt_sub_round_R t n Hn). intros Hf.
  unfold pts_ok. cbv zeta. apply Forall_cons; [|apply Forall_nil]. destruct (Z.geb_spec (@nt_sub_round CR t n) n); cbn [fst snd]; lia.
Qed.
