(** C15: how far the kernels can be from the exact dot product, and hence from each other, in
    the standard model of floating-point arithmetic:
        fl(a + b) = (a + b)(1 + d) + e,        |d| <= u, |e| <= eta
        fl(a * b) = a b (1 + d) + e,           |d| <= u, |e| <= eta
        fma(a, b, c) = (a b + c)(1 + d) + e,   |d| <= u, |e| <= eta
    (u = unit roundoff, eta = underflow threshold; overflow excluded).  The kernels are the
    definitions of Model/Kernels.v, instantiated with *any* operations that satisfy the three
    inequalities: every kernel is within  ((1+u)^(2n+7) - 1) * sum |w_i s_i| + (16n+7) (1+u)^(2n+7) eta
    of the exact dot product of 8n terms, so two kernels differ by at most twice that.           *)

From Coq Require Import ZArith Reals List Bool Lra Lia.
From Rubato.Model Require Import Num Reals Base Kernels.
From Rubato.Proofs Require Import KernelsR.
Import ListNotations.
Local Open Scope R_scope.

Section Err.
Variables (u eta : R) (add' mul' : R -> R -> R) (fma' : R -> R -> R -> R).
Hypothesis Hu : 0 <= u.
Hypothesis Heta : 0 <= eta.
Hypothesis Hadd : forall a b, Rabs (add' a b - (a + b)) <= u * Rabs (a + b) + eta.
Hypothesis Hmul : forall a b, Rabs (mul' a b - a * b) <= u * Rabs (a * b) + eta.
Hypothesis Hfma : forall a b c, Rabs (fma' a b c - (a * b + c)) <= u * Rabs (a * b + c) + eta.

(** the sample arithmetic with rounding: everything as in SR except + * fma *)
Definition SE : SNum CR := {|
  snum := R; sadd := add'; ssub := Rminus; smul := mul'; sdiv := Rdiv; sopp := Ropp;
  sfma := fma'; coerce := fun x => x; coerce32 := fun x => x; s_of_Z := IZR; szero := 0; sone := 1 |}.

Definition G (k : nat) : R := (1 + u) ^ k.

Lemma G_S k : G (S k) = (1 + u) * G k.
Proof. reflexivity. Qed.
Lemma G_ge1 k : 1 <= G k.
Proof. unfold G. apply pow_R1_Rle. lra. Qed.
Lemma G_mono k k' : (k <= k')%nat -> G k <= G k'.
Proof. intros H. unfold G. apply Rle_pow; [lra|exact H]. Qed.

(** x approximates S, a sum of terms whose absolute values add up to at most A, after at most k
    roundings on any path and m operations *)
Definition approx (k m : nat) (x T A : R) : Prop :=
  Rabs T <= A /\ Rabs (x - T) <= (G k - 1) * A + INR m * G k * eta.

Lemma approx_mono k m k' m' x T A : (k <= k')%nat -> (m <= m')%nat -> approx k m x T A -> approx k' m' x T A.
Proof.
  intros Hk Hm [H1 H2]. split; [exact H1|].
  assert (HA : 0 <= A) by (eapply Rle_trans; [apply Rabs_pos|exact H1]).
  eapply Rle_trans; [exact H2|].
  assert (Hg := G_mono k k' Hk). assert (Hg1 := G_ge1 k).
  assert (Hm' : INR m <= INR m') by (apply le_INR; exact Hm).
  assert (Hm0 : 0 <= INR m) by apply pos_INR.
  apply Rplus_le_compat.
  - apply Rmult_le_compat_r; lra.
  - apply Rmult_le_compat_r; [exact Heta|]. apply Rmult_le_compat; lra.
Qed.

Lemma add_err x y T : Rabs (add' x y - T) <= u * Rabs T + (1 + u) * Rabs (x + y - T) + eta.
Proof.
  assert (H := Hadd x y).
  assert (H1 : Rabs (add' x y - T) <= Rabs (add' x y - (x + y)) + Rabs (x + y - T)).
  { replace (add' x y - T) with ((add' x y - (x + y)) + (x + y - T)) by ring. apply Rabs_triang. }
  assert (H2 : Rabs (x + y) <= Rabs T + Rabs (x + y - T)).
  { replace (x + y) with (T + (x + y - T)) at 1 by ring. apply Rabs_triang. }
  assert (H3 : u * Rabs (x + y) <= u * (Rabs T + Rabs (x + y - T))) by (apply Rmult_le_compat_l; assumption).
  lra.
Qed.

(** one multiply-accumulate, fused or not *)
Lemma mac_err fused k m acc T A w s :
  approx k m acc T A ->
  approx (S (S k)) (S (S m)) (@mac CR SE fused acc w s) (T + w * s) (A + Rabs (w * s)).
Proof.
  intros [H1 H2].
  assert (HA : 0 <= A) by (eapply Rle_trans; [apply Rabs_pos|exact H1]).
  set (p := Rabs (w * s)). assert (Hp : 0 <= p) by apply Rabs_pos.
  set (e := Rabs (acc - T)) in *. assert (He : 0 <= e) by apply Rabs_pos.
  assert (HT : Rabs (T + w * s) <= A + p) by (eapply Rle_trans; [apply Rabs_triang|fold p; lra]).
  split; [exact HT|].
  assert (Hcore : Rabs (@mac CR SE fused acc w s - (T + w * s)) <= u * (A + p) + (1 + u) * (e + u * p + eta) + eta).
  { unfold mac. destruct fused; cbn [sfma sadd smul SE].
    - (* fused *)
      assert (Hf := Hfma w s acc).
      assert (Ha : Rabs (fma' w s acc - (T + w * s)) <= Rabs (fma' w s acc - (w * s + acc)) + e).
      { replace (fma' w s acc - (T + w * s)) with ((fma' w s acc - (w * s + acc)) + (acc - T)) by ring. apply Rabs_triang. }
      assert (Hb : Rabs (w * s + acc) <= Rabs (T + w * s) + e).
      { replace (w * s + acc) with ((T + w * s) + (acc - T)) by ring. apply Rabs_triang. }
      assert (Hc : u * Rabs (w * s + acc) <= u * (A + p + e)) by (apply Rmult_le_compat_l; lra).
      assert (0 <= u * p) by (apply Rmult_le_pos; lra).
      assert (0 <= u * (u * p)) by (apply Rmult_le_pos; [lra|apply Rmult_le_pos; lra]).
      assert (0 <= u * eta) by (apply Rmult_le_pos; lra).
      lra.
    - (* multiply, then add *)
      assert (Hm := Hmul w s). fold p in Hm.
      assert (Ha := add_err acc (mul' w s) (T + w * s)).
      assert (Hb : Rabs (acc + mul' w s - (T + w * s)) <= e + (u * p + eta)).
      { replace (acc + mul' w s - (T + w * s)) with ((acc - T) + (mul' w s - w * s)) by ring.
        eapply Rle_trans; [apply Rabs_triang|]. fold e. lra. }
      assert (Hc : u * Rabs (T + w * s) <= u * (A + p)) by (apply Rmult_le_compat_l; lra).
      assert (Hd : (1 + u) * Rabs (acc + mul' w s - (T + w * s)) <= (1 + u) * (e + (u * p + eta))) by (apply Rmult_le_compat_l; lra).
      lra. }
  eapply Rle_trans; [exact Hcore|].
  set (g := G k) in *. assert (Hg : 1 <= g) by apply G_ge1.
  rewrite !G_S. fold g.
  assert (Hm0 : 0 <= INR m) by apply pos_INR.
  rewrite !S_INR.
  assert (Hg2 : 1 <= (1 + u) * ((1 + u) * g)).
  { assert (0 <= u * g) by (apply Rmult_le_pos; lra). assert (g <= (1 + u) * g) by lra.
    assert (0 <= u * ((1 + u) * g)) by (apply Rmult_le_pos; lra). lra. }
  assert (Hextra : eta <= (1 + u) * ((1 + u) * g) * eta).
  { rewrite <- (Rmult_1_l eta) at 1. apply Rmult_le_compat_r; lra. }
  assert (Hee : (1 + u) * e <= (1 + u) * ((g - 1) * A + INR m * g * eta)) by (apply Rmult_le_compat_l; lra).
  (* the difference of the two sides is a sum of three non-negative terms *)
  assert (D : ((1 + u) * ((1 + u) * g) - 1) * (A + p) + (INR m + 1 + 1) * ((1 + u) * ((1 + u) * g)) * eta
              - (1 + u) * ((1 + u) * g) * eta
              - (u * (A + p) + (1 + u) * (((g - 1) * A + INR m * g * eta) + u * p + eta))
            = A * ((1 + u) * g * u) + p * ((1 + u) * (1 + u) * (g - 1)) + eta * ((1 + u) * (INR m * g * u + ((1 + u) * g - 1)))) by ring.
  assert (T1 : 0 <= A * ((1 + u) * g * u)) by (apply Rmult_le_pos; [lra|]; apply Rmult_le_pos; [apply Rmult_le_pos; lra|lra]).
  assert (T2 : 0 <= p * ((1 + u) * (1 + u) * (g - 1))) by (apply Rmult_le_pos; [lra|]; apply Rmult_le_pos; [apply Rmult_le_pos; lra|lra]).
  assert (T3 : 0 <= eta * ((1 + u) * (INR m * g * u + ((1 + u) * g - 1)))).
  { apply Rmult_le_pos; [lra|]. apply Rmult_le_pos; [lra|].
    assert (0 <= INR m * g * u) by (apply Rmult_le_pos; [apply Rmult_le_pos; lra|lra]).
    assert (g <= (1 + u) * g) by (assert (0 <= u * g) by (apply Rmult_le_pos; lra); lra). lra. }
  lra.
Qed.

(** one rounded addition of two approximations *)
Lemma sum_err k m1 m2 x S1 A1 y S2 A2 :
  approx k m1 x S1 A1 -> approx k m2 y S2 A2 ->
  approx (S k) (S (m1 + m2)) (add' x y) (S1 + S2) (A1 + A2).
Proof.
  intros [H1 H2] [H3 H4].
  assert (HA1 : 0 <= A1) by (eapply Rle_trans; [apply Rabs_pos|exact H1]).
  assert (HA2 : 0 <= A2) by (eapply Rle_trans; [apply Rabs_pos|exact H3]).
  assert (HT : Rabs (S1 + S2) <= A1 + A2) by (eapply Rle_trans; [apply Rabs_triang|lra]).
  split; [exact HT|].
  assert (Ha := add_err x y (S1 + S2)).
  assert (Hb : Rabs (x + y - (S1 + S2)) <= Rabs (x - S1) + Rabs (y - S2)).
  { replace (x + y - (S1 + S2)) with ((x - S1) + (y - S2)) by ring. apply Rabs_triang. }
  set (g := G k) in *. assert (Hg : 1 <= g) by apply G_ge1.
  rewrite G_S. fold g. rewrite S_INR, plus_INR.
  assert (Hextra : eta <= (1 + u) * g * eta).
  { rewrite <- (Rmult_1_l eta) at 1. apply Rmult_le_compat_r; [lra|]. assert (0 <= u * g) by (apply Rmult_le_pos; lra). lra. }
  assert (Hm1 : 0 <= INR m1) by apply pos_INR. assert (Hm2 : 0 <= INR m2) by apply pos_INR.
  assert (Hc : u * Rabs (S1 + S2) <= u * (A1 + A2)) by (apply Rmult_le_compat_l; lra).
  assert (Hd : (1 + u) * Rabs (x + y - (S1 + S2)) <= (1 + u) * (((g - 1) * A1 + INR m1 * g * eta) + ((g - 1) * A2 + INR m2 * g * eta)))
    by (apply Rmult_le_compat_l; lra).
  eapply Rle_trans; [exact Ha|].
  assert (D : ((1 + u) * g - 1) * (A1 + A2) + (INR m1 + INR m2 + 1) * ((1 + u) * g) * eta - (1 + u) * g * eta
              - (u * (A1 + A2) + (1 + u) * (((g - 1) * A1 + INR m1 * g * eta) + ((g - 1) * A2 + INR m2 * g * eta))) = 0) by ring.
  lra.
Qed.

(** ** lanes *)
Definition lanes_approx (k m : nat) (acc Sl A : list R) : Prop :=
  length acc = length Sl /\ length Sl = length A /\
  forall i, (i < length acc)%nat -> approx k m (nth i acc 0) (nth i Sl 0) (nth i A 0).

Lemma mac_lanes_err fused k m : forall (acc Sl A w s : list R),
  lanes_approx k m acc Sl A -> length w = length acc -> length s = length acc ->
  lanes_approx (2 + k) (2 + m) (@mac_lanes CR SE fused acc w s) (@mac_lanes CR SR fused Sl w s)
               (@mac_lanes CR SR fused A (map Rabs w) (map Rabs s)).
Proof.
  induction acc as [|a acc IH]; intros S0 A w s (L1 & L2 & H) Lw Ls.
  - destruct S0; [|discriminate]. destruct A; [|discriminate]. cbn. split; [reflexivity|split; [reflexivity|]]. intros i Hi. exfalso. cbn in Hi. inversion Hi.
  - destruct S0 as [|s0 S0]; [discriminate|]. destruct A as [|a0 A]; [discriminate|].
    destruct w as [|x w]; [discriminate|]. destruct s as [|y s]; [discriminate|].
    cbn [mac_lanes map].
    assert (IH' := IH S0 A w s).
    assert (Hrest : lanes_approx k m acc S0 A).
    { split; [cbn in L1; lia|split; [cbn in L2; lia|]]. intros i Hi. apply (H (S i)). cbn. lia. }
    destruct (IH' Hrest ltac:(cbn in Lw; lia) ltac:(cbn in Ls; lia)) as (M1 & M2 & M3).
    split; [cbn [length]; lia|split; [cbn [length]; lia|]].
    intros i Hi. destruct i as [|i].
    + cbn [nth]. rewrite !mac_R. rewrite <- Rabs_mult.
      apply mac_err. apply (H 0%nat). cbn. lia.
    + cbn [nth]. apply M3. cbn [length] in Hi. lia.
Qed.

Lemma mac_lanes_length {C : CNum} {SS : SNum C} fused : forall (acc w s : list (@snum C SS)),
  length w = length acc -> length s = length acc -> length (@mac_lanes C SS fused acc w s) = length acc.
Proof.
  induction acc as [|a acc IH]; intros w s Lw Ls; [reflexivity|].
  destruct w; [discriminate|]. destruct s; [discriminate|]. cbn [mac_lanes length]. rewrite IH; cbn in *; lia.
Qed.

Lemma lanes_loop_err fused n : forall k m (acc Sl A w s : list R),
  lanes_approx k m acc Sl A -> length acc = 8%nat -> length w = (8 * n)%nat -> length s = (8 * n)%nat ->
  lanes_approx (2 * n + k) (2 * n + m) (@lanes_loop CR SE fused n acc w s) (@lanes_loop CR SR fused n Sl w s)
               (@lanes_loop CR SR fused n A (map Rabs w) (map Rabs s)).
Proof.
  induction n as [|n IH]; intros k m acc Sl A w s H La Lw Ls.
  - cbn [lanes_loop]. exact H.
  - cbn [lanes_loop]. change (@snum CR SE) with R. change (@snum CR SR) with R.
    rewrite !firstn_map, !skipn_map.
    assert (F1 : length (firstn 8 w) = length acc) by (rewrite firstn_length; lia).
    assert (F2 : length (firstn 8 s) = length acc) by (rewrite firstn_length; lia).
    assert (Hstep := mac_lanes_err fused k m acc Sl A (firstn 8 w) (firstn 8 s) H F1 F2).
    assert (Lnew : length (@mac_lanes CR SE fused acc (firstn 8 w) (firstn 8 s)) = 8%nat).
    { assert (Q := @mac_lanes_length CR SE fused acc (firstn 8 w) (firstn 8 s) F1 F2). etransitivity; [exact Q|exact La]. }
    assert (IH' := IH (2 + k)%nat (2 + m)%nat _ _ _ (skipn 8 w) (skipn 8 s) Hstep Lnew
                      ltac:(rewrite skipn_length; lia) ltac:(rewrite skipn_length; lia)).
    replace (2 * S n + k)%nat with (2 * n + (2 + k))%nat by lia.
    replace (2 * S n + m)%nat with (2 * n + (2 + m))%nat by lia.
    exact IH'.
Qed.

(** ** the final reduction: at most seven more roundings on a path *)
Lemma reduce_err kind k m (acc Sl A : list R) :
  lanes_approx k m acc Sl A -> length acc = 8%nat ->
  approx (7 + k) (8 * m + 7) (@reduce CR SE kind acc) (sum8 Sl) (sum8 A).
Proof.
  intros (L1 & L2 & H) La.
  destruct (len8_cases acc La) as (a0&a1&a2&a3&a4&a5&a6&a7&->).
  destruct (len8_cases Sl ltac:(lia)) as (s0&s1&s2&s3&s4&s5&s6&s7&->).
  destruct (len8_cases A ltac:(cbn in *; lia)) as (b0&b1&b2&b3&b4&b5&b6&b7&->).
  assert (H0 := H 0%nat ltac:(cbn; lia)). assert (H1 := H 1%nat ltac:(cbn; lia)).
  assert (H2 := H 2%nat ltac:(cbn; lia)). assert (H3 := H 3%nat ltac:(cbn; lia)).
  assert (H4 := H 4%nat ltac:(cbn; lia)). assert (H5 := H 5%nat ltac:(cbn; lia)).
  assert (H6 := H 6%nat ltac:(cbn; lia)). assert (H7 := H 7%nat ltac:(cbn; lia)).
  cbn [nth] in H0, H1, H2, H3, H4, H5, H6, H7.
  unfold reduce, lane, sum8. cbn [nth]. cbn [sadd SE].
  pose proof (fun j x T A => approx_mono k m (j + k) m x T A ltac:(lia) (le_n m)) as up.
  destruct kind.
  - (* scalar: a0 + a1 + ... + a7, left to right *)
    assert (P1 := sum_err _ _ _ _ _ _ _ _ _ H0 H1).
    assert (P2 := sum_err _ _ _ _ _ _ _ _ _ P1 (up 1%nat _ _ _ H2)).
    assert (P3 := sum_err _ _ _ _ _ _ _ _ _ P2 (up 2%nat _ _ _ H3)).
    assert (P4 := sum_err _ _ _ _ _ _ _ _ _ P3 (up 3%nat _ _ _ H4)).
    assert (P5 := sum_err _ _ _ _ _ _ _ _ _ P4 (up 4%nat _ _ _ H5)).
    assert (P6 := sum_err _ _ _ _ _ _ _ _ _ P5 (up 5%nat _ _ _ H6)).
    assert (P7 := sum_err _ _ _ _ _ _ _ _ _ P6 (up 6%nat _ _ _ H7)).
    eapply approx_mono; [| |exact P7]; lia.
  - (* sse f32 *)
    assert (Q1 := sum_err _ _ _ _ _ _ _ _ _ H0 H4). assert (Q2 := sum_err _ _ _ _ _ _ _ _ _ H1 H5).
    assert (Q3 := sum_err _ _ _ _ _ _ _ _ _ H2 H6). assert (Q4 := sum_err _ _ _ _ _ _ _ _ _ H3 H7).
    assert (R1 := sum_err _ _ _ _ _ _ _ _ _ Q1 Q2). assert (R2 := sum_err _ _ _ _ _ _ _ _ _ Q3 Q4).
    assert (R3 := sum_err _ _ _ _ _ _ _ _ _ R1 R2).
    destruct R3 as [E1 E2]. split.
    + replace (s0 + s1 + s2 + s3 + s4 + s5 + s6 + s7) with (s0 + s4 + (s1 + s5) + (s2 + s6 + (s3 + s7))) by ring.
      replace (b0 + b1 + b2 + b3 + b4 + b5 + b6 + b7) with (b0 + b4 + (b1 + b5) + (b2 + b6 + (b3 + b7))) by ring. exact E1.
    + replace (s0 + s1 + s2 + s3 + s4 + s5 + s6 + s7) with (s0 + s4 + (s1 + s5) + (s2 + s6 + (s3 + s7))) by ring.
      replace (b0 + b1 + b2 + b3 + b4 + b5 + b6 + b7) with (b0 + b4 + (b1 + b5) + (b2 + b6 + (b3 + b7))) by ring.
      refine (proj2 (approx_mono _ _ (7 + k) (8 * m + 7) _ _ _ _ _ (conj E1 E2))); lia.
  - (* sse f64 *)
    assert (Q1 := sum_err _ _ _ _ _ _ _ _ _ H0 H2). assert (Q2 := sum_err _ _ _ _ _ _ _ _ _ H1 H3).
    assert (Q3 := sum_err _ _ _ _ _ _ _ _ _ H4 H6). assert (Q4 := sum_err _ _ _ _ _ _ _ _ _ H5 H7).
    assert (R1 := sum_err _ _ _ _ _ _ _ _ _ Q1 Q2). assert (R2 := sum_err _ _ _ _ _ _ _ _ _ Q3 Q4).
    assert (R3 := sum_err _ _ _ _ _ _ _ _ _ R1 R2).
    destruct R3 as [E1 E2]. split.
    + replace (s0 + s1 + s2 + s3 + s4 + s5 + s6 + s7) with (s0 + s2 + (s1 + s3) + (s4 + s6 + (s5 + s7))) by ring.
      replace (b0 + b1 + b2 + b3 + b4 + b5 + b6 + b7) with (b0 + b2 + (b1 + b3) + (b4 + b6 + (b5 + b7))) by ring. exact E1.
    + replace (s0 + s1 + s2 + s3 + s4 + s5 + s6 + s7) with (s0 + s2 + (s1 + s3) + (s4 + s6 + (s5 + s7))) by ring.
      replace (b0 + b1 + b2 + b3 + b4 + b5 + b6 + b7) with (b0 + b2 + (b1 + b3) + (b4 + b6 + (b5 + b7))) by ring.
      refine (proj2 (approx_mono _ _ (7 + k) (8 * m + 7) _ _ _ _ _ (conj E1 E2))); lia.
  - (* avx f32 *)
    assert (Q1 := sum_err _ _ _ _ _ _ _ _ _ H4 H0). assert (Q2 := sum_err _ _ _ _ _ _ _ _ _ H5 H1).
    assert (Q3 := sum_err _ _ _ _ _ _ _ _ _ H6 H2). assert (Q4 := sum_err _ _ _ _ _ _ _ _ _ H7 H3).
    assert (R1 := sum_err _ _ _ _ _ _ _ _ _ Q1 Q2). assert (R2 := sum_err _ _ _ _ _ _ _ _ _ Q3 Q4).
    assert (R3 := sum_err _ _ _ _ _ _ _ _ _ R1 R2).
    destruct R3 as [E1 E2]. split.
    + replace (s0 + s1 + s2 + s3 + s4 + s5 + s6 + s7) with (s4 + s0 + (s5 + s1) + (s6 + s2 + (s7 + s3))) by ring.
      replace (b0 + b1 + b2 + b3 + b4 + b5 + b6 + b7) with (b4 + b0 + (b5 + b1) + (b6 + b2 + (b7 + b3))) by ring. exact E1.
    + replace (s0 + s1 + s2 + s3 + s4 + s5 + s6 + s7) with (s4 + s0 + (s5 + s1) + (s6 + s2 + (s7 + s3))) by ring.
      replace (b0 + b1 + b2 + b3 + b4 + b5 + b6 + b7) with (b4 + b0 + (b5 + b1) + (b6 + b2 + (b7 + b3))) by ring.
      refine (proj2 (approx_mono _ _ (7 + k) (8 * m + 7) _ _ _ _ _ (conj E1 E2))); lia.
  - (* avx f64 *)
    assert (Q1 := sum_err _ _ _ _ _ _ _ _ _ H2 H6). assert (Q2 := sum_err _ _ _ _ _ _ _ _ _ H0 H4).
    assert (Q3 := sum_err _ _ _ _ _ _ _ _ _ H3 H7). assert (Q4 := sum_err _ _ _ _ _ _ _ _ _ H1 H5).
    assert (R1 := sum_err _ _ _ _ _ _ _ _ _ Q1 Q2). assert (R2 := sum_err _ _ _ _ _ _ _ _ _ Q3 Q4).
    assert (R3 := sum_err _ _ _ _ _ _ _ _ _ R1 R2).
    destruct R3 as [E1 E2]. split.
    + replace (s0 + s1 + s2 + s3 + s4 + s5 + s6 + s7) with (s2 + s6 + (s0 + s4) + (s3 + s7 + (s1 + s5))) by ring.
      replace (b0 + b1 + b2 + b3 + b4 + b5 + b6 + b7) with (b2 + b6 + (b0 + b4) + (b3 + b7 + (b1 + b5))) by ring. exact E1.
    + replace (s0 + s1 + s2 + s3 + s4 + s5 + s6 + s7) with (s2 + s6 + (s0 + s4) + (s3 + s7 + (s1 + s5))) by ring.
      replace (b0 + b1 + b2 + b3 + b4 + b5 + b6 + b7) with (b2 + b6 + (b0 + b4) + (b3 + b7 + (b1 + b5))) by ring.
      refine (proj2 (approx_mono _ _ (7 + k) (8 * m + 7) _ _ _ _ _ (conj E1 E2))); lia.
Qed.

(** ** every kernel against the exact dot product *)
Theorem kernel_error kind (w s : list R) n :
  length w = (8 * n)%nat -> length s = (8 * n)%nat ->
  Rabs (@kernel CR SE kind w s - dot w s)
  <= (G (2 * n + 7) - 1) * dot (map Rabs w) (map Rabs s) + INR (16 * n + 7) * G (2 * n + 7) * eta.
Proof.
  intros Hw Hs. unfold kernel. change (@snum CR SE) with R.
  replace (Nat.div (length w) 8) with n by (rewrite Hw, Nat.mul_comm, Nat.div_mul; lia).
  change (@szero CR SE) with 0.
  assert (H0 : lanes_approx 0 0 (repeat 0 8) (repeat 0 8) (repeat 0 8)).
  { split; [reflexivity|split; [reflexivity|]]. intros i Hi. cbn in Hi.
    do 8 (destruct i as [|i]; [cbn; split; [rewrite Rabs_R0; lra|unfold G; cbn; rewrite Rminus_0_r, Rabs_R0; lra]|]). lia. }
  assert (HL := lanes_loop_err (kernel_fused kind) n 0 0 _ _ _ w s H0 eq_refl Hw Hs).
  assert (Len : length (@lanes_loop CR SE (kernel_fused kind) n (repeat 0 8) w s) = 8%nat).
  { destruct HL as (L1 & L2 & _).
    destruct (lanes_loop_sum (kernel_fused kind) n (repeat 0 8) w s eq_refl Hw Hs) as [L _].
    etransitivity; [exact L1|exact L]. }
  assert (HR := reduce_err kind _ _ _ _ _ HL Len).
  destruct (lanes_loop_sum (kernel_fused kind) n (repeat 0 8) w s eq_refl Hw Hs) as [_ E1].
  destruct (lanes_loop_sum (kernel_fused kind) n (repeat 0 8) (map Rabs w) (map Rabs s) eq_refl
              ltac:(rewrite map_length; exact Hw) ltac:(rewrite map_length; exact Hs)) as [_ E2].
  change (@snum CR SR) with R in E1, E2.
  rewrite E1, E2 in HR.
  replace (sum8 (repeat 0 8)) with 0 in HR by (unfold sum8; cbn; lra).
  rewrite !Rplus_0_l in HR.
  destruct HR as [_ HR].
  replace (7 + (2 * n + 0))%nat with (2 * n + 7)%nat in HR by lia.
  replace (8 * (2 * n + 0) + 7)%nat with (16 * n + 7)%nat in HR by lia.
  exact HR.
Qed.

(** two kernels differ by at most twice the bound *)
Corollary kernels_close k1 k2 (w s : list R) n :
  length w = (8 * n)%nat -> length s = (8 * n)%nat ->
  Rabs (@kernel CR SE k1 w s - @kernel CR SE k2 w s)
  <= 2 * ((G (2 * n + 7) - 1) * dot (map Rabs w) (map Rabs s) + INR (16 * n + 7) * G (2 * n + 7) * eta).
Proof.
  intros Hw Hs.
  assert (A := kernel_error k1 w s n Hw Hs). assert (B := kernel_error k2 w s n Hw Hs).
  replace (@kernel CR SE k1 w s - @kernel CR SE k2 w s)
    with ((@kernel CR SE k1 w s - dot w s) - (@kernel CR SE k2 w s - dot w s)) by ring.
  eapply Rle_trans; [apply Rabs_triang|]. rewrite Rabs_Ropp. lra.
Qed.
End Err.

(** ** the model is the IEEE one: round-to-nearest-even in the binary64 (binary32) format satisfies the three
    inequalities for all real operands, with u = 2^-53, eta = 2^-1075 (u = 2^-24, eta = 2^-150) *)
From Flocq Require Import Core Relative.

Section IEEE.
Variables (emin prec : Z).
Hypothesis Hprec : (0 < prec)%Z.
Let rn := round radix2 (FLT_exp emin prec) (Znearest (fun x => negb (Z.even x))).
Let uu := / 2 * bpow radix2 (- prec + 1).
Let ee := / 2 * bpow radix2 emin.

Lemma rn_err x : Rabs (rn x - x) <= uu * Rabs x + ee.
Proof.
  destruct (error_N_FLT radix2 emin prec Hprec (fun x => negb (Z.even x)) x) as (eps & et & H1 & H2 & _ & E).
  unfold rn. rewrite E. replace (x * (1 + eps) + et - x) with (x * eps + et) by ring.
  eapply Rle_trans; [apply Rabs_triang|]. rewrite Rabs_mult.
  assert (Rabs x * Rabs eps <= Rabs x * uu) by (apply Rmult_le_compat_l; [apply Rabs_pos|exact H1]).
  fold ee in H2. lra.
Qed.

Lemma uu_pos : 0 <= uu.
Proof. unfold uu. assert (H := bpow_gt_0 radix2 (- prec + 1)). lra. Qed.
Lemma ee_pos : 0 <= ee.
Proof. unfold ee. assert (H := bpow_gt_0 radix2 emin). lra. Qed.

(** every kernel, computed with correctly rounded +, * and fused multiply-add, against the exact dot product *)
Theorem kernel_error_ieee kind (w s : list R) n :
  length w = (8 * n)%nat -> length s = (8 * n)%nat ->
  Rabs (@kernel CR (SE (fun a b => rn (a + b)) (fun a b => rn (a * b)) (fun a b c => rn (a * b + c))) kind w s - dot w s)
  <= ((1 + uu) ^ (2 * n + 7) - 1) * dot (map Rabs w) (map Rabs s) + INR (16 * n + 7) * (1 + uu) ^ (2 * n + 7) * ee.
Proof.
  intros Hw Hs.
  apply (kernel_error uu ee _ _ _ uu_pos ee_pos); try assumption; intros; apply rn_err.
Qed.

Theorem kernels_close_ieee k1 k2 (w s : list R) n :
  length w = (8 * n)%nat -> length s = (8 * n)%nat ->
  let SEi := SE (fun a b => rn (a + b)) (fun a b => rn (a * b)) (fun a b c => rn (a * b + c)) in
  Rabs (@kernel CR SEi k1 w s - @kernel CR SEi k2 w s)
  <= 2 * (((1 + uu) ^ (2 * n + 7) - 1) * dot (map Rabs w) (map Rabs s) + INR (16 * n + 7) * (1 + uu) ^ (2 * n + 7) * ee).
Proof.
  intros Hw Hs SEi.
  apply (kernels_close uu ee _ _ _ uu_pos ee_pos); try assumption; intros; apply rn_err.
Qed.
End IEEE.
