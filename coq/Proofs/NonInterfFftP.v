(** C11 for the three synchronous resamplers, end to end, in every arithmetic, with masks and for any spectral
    core: non-interference between channels.  Two calls on resamplers that agree on the control record, the stored
    mask, the mask argument and everything that belongs to channel c (overlap, internal buffer, input and output
    slices) produce the same new control record, the same counts, and the same new overlap / internal buffer /
    output slice of channel c, whatever the other channels hold.                                               *)

From Coq Require Import ZArith List Bool Lia.
From Rubato.Model Require Import Num Base Validate Fft.
From Rubato.Gen Require Import SynchroGen.
From Rubato.Proofs Require Import ChannelsP CtlFftP.
Import ListNotations.
Local Open Scope Z_scope.

Section NonInterfFft.
Context {C : CNum} {S : SNum C}.
Variable unit_fn : list snum -> list snum.

Lemma zip3_nth_intro {A B D} (a : list A) (b : list B) (d : list D) k x y z :
  nth_error a k = Some x -> nth_error b k = Some y -> nth_error d k = Some z -> nth_error (zip3 a b d) k = Some (x, y, z).
Proof.
  revert b d k; induction a as [|x0 a IH]; intros [|y0 b] [|z0 d] k Ha Hb Hd; try (destruct k; discriminate).
  destruct k; cbn in *; [injection Ha as ->; injection Hb as ->; injection Hd as ->; reflexivity | apply IH; assumption].
Qed.

Lemma combine_nth_intro {A B} (a : list A) (b : list B) k x y :
  nth_error a k = Some x -> nth_error b k = Some y -> nth_error (combine a b) k = Some (x, y).
Proof.
  revert b k; induction a as [|x0 a IH]; intros [|y0 b] k Ha Hb; try (destruct k; discriminate).
  destruct k; cbn in *; [injection Ha as ->; injection Hb as ->; reflexivity | apply IH; assumption].
Qed.

(* the per-channel combinator treats equal channels equally *)
Lemma per_channel_same {X} (f : X -> res X) xs1 xs2 mask r1 r2 c x mc :
  per_channel f xs1 mask = Ok r1 -> per_channel f xs2 mask = Ok r2 ->
  nth_error xs1 c = Some x -> nth_error xs2 c = Some x -> nth_error mask c = Some mc ->
  exists x', nth_error r1 c = Some x' /\ nth_error r2 c = Some x' /\ (if mc then f x = Ok x' else x' = x).
Proof.
  intros P1 P2 H1 H2 Hm.
  destruct (per_channel_nth f _ _ _ c x mc P1 H1 Hm) as (a & Ha & Fa).
  destruct (per_channel_nth f _ _ _ c x mc P2 H2 Hm) as (b & Hb & Fb).
  assert (b = a) by (destruct mc; [rewrite Fa in Fb; injection Fb as <-; reflexivity | rewrite Fa, Fb; reflexivity]).
  subst b. exists a. repeat split; assumption.
Qed.

Definition eff_fmask {St} (s : fstate St) (m : option (list bool)) : list bool :=
  match m with Some mk => mk | None => map (fun _ => true) (fs_mask s) end.

Lemma prologue_eff bad ch {St} (s : fstate St) m mask :
  prologue bad ch (fs_mask s) m = Ok mask -> mask = eff_fmask s m.
Proof.
  unfold prologue, eff_fmask. destruct m as [mk|]; [destruct (bad (zlen mk)); [discriminate|]|]; intros H; injection H as <-; reflexivity.
Qed.

(** * FftFixedInOut *)
Theorem xio_channel_noninterference (s1 s2 : fstate FftFixedInOut) wi1 wi2 wo1 wo2 m c wic woc ov mc s1' s2' c1 c2 o1 o2 :
  fs_ctl s1 = fs_ctl s2 -> fs_mask s1 = fs_mask s2 ->
  nth_error (fs_overlaps s1) c = Some ov -> nth_error (fs_overlaps s2) c = Some ov ->
  nth_error wi1 c = Some wic -> nth_error wi2 c = Some wic ->
  nth_error wo1 c = Some woc -> nth_error wo2 c = Some woc ->
  nth_error (eff_fmask s1 m) c = Some mc ->
  xio_pib unit_fn s1 wi1 wo1 m = Ok (s1', c1, o1) -> xio_pib unit_fn s2 wi2 wo2 m = Ok (s2', c2, o2) ->
  fs_ctl s1' = fs_ctl s2' /\ c1 = c2 /\
  exists ov' o', nth_error (fs_overlaps s1') c = Some ov' /\ nth_error (fs_overlaps s2') c = Some ov' /\
                 nth_error o1 c = Some o' /\ nth_error o2 c = Some o' /\ (mc = false -> o' = woc /\ ov' = ov).
Proof.
  intros Ectl Emask Hov1 Hov2 Hwi1 Hwi2 Hwo1 Hwo2 Hmc P1 P2.
  pose proof (xio_pib_ctl unit_fn _ _ _ _ _ _ _ P1) as K1. pose proof (xio_pib_ctl unit_fn _ _ _ _ _ _ _ P2) as K2.
  rewrite Ectl in K1. rewrite <- K2 in K1. injection K1 as Ec Ecnt. split; [exact Ec|]. split; [exact Ecnt|].
  unfold xio_pib in P1, P2. rewrite <- Ectl, <- Emask in P2.
  destruct (prologue _ _ _ m) as [mask| | | |] eqn:Ep; cbn [bind] in P1, P2; try discriminate.
  apply prologue_eff in Ep. subst mask.
  destruct (validate_buffers (map zlen wi1) _ _ _ _ _) as [[]| | | |]; cbn [bind] in P1; try discriminate.
  destruct (validate_buffers (map zlen wi2) _ _ _ _ _) as [[]| | | |]; cbn [bind] in P2; try discriminate.
  match type of P1 with context [per_channel ?f ?xs ?mk] => destruct (per_channel f xs mk) as [r1| | | |] eqn:R1 end; cbn [bind] in P1; try discriminate.
  match type of P2 with context [per_channel ?f ?xs ?mk] => destruct (per_channel f xs mk) as [r2| | | |] eqn:R2 end; cbn [bind] in P2; try discriminate.
  injection P1 as <- _ <-. injection P2 as <- _ <-.
  destruct (per_channel_same _ _ _ _ _ _ c (wic, woc, ov) mc R1 R2
              (zip3_nth_intro _ _ _ _ _ _ _ Hwi1 Hwo1 Hov1) (zip3_nth_intro _ _ _ _ _ _ _ Hwi2 Hwo2 Hov2) Hmc) as ([[a b] d] & Q1 & Q2 & Q3).
  exists d, b. cbn [fs_overlaps].
  rewrite !nth_error_map, Q1, Q2. cbn.
  split; [reflexivity|]. split; [reflexivity|]. split; [reflexivity|]. split; [reflexivity|].
  intros ->. injection Q3 as _ -> ->. split; reflexivity.
Qed.

(** * FftFixedOut *)
Theorem xo_channel_noninterference (s1 s2 : fstate FftFixedOut) wi1 wi2 wo1 wo2 m c wic woc ob ov mc s1' s2' c1 c2 o1 o2 :
  fs_ctl s1 = fs_ctl s2 -> fs_mask s1 = fs_mask s2 ->
  nth_error (fs_overlaps s1) c = Some ov -> nth_error (fs_overlaps s2) c = Some ov ->
  nth_error (fs_bufs s1) c = Some ob -> nth_error (fs_bufs s2) c = Some ob ->
  nth_error wi1 c = Some wic -> nth_error wi2 c = Some wic ->
  nth_error wo1 c = Some woc -> nth_error wo2 c = Some woc ->
  nth_error (eff_fmask s1 m) c = Some mc ->
  xo_pib unit_fn s1 wi1 wo1 m = Ok (s1', c1, o1) -> xo_pib unit_fn s2 wi2 wo2 m = Ok (s2', c2, o2) ->
  fs_ctl s1' = fs_ctl s2' /\ c1 = c2 /\
  exists ov' ob' o', nth_error (fs_overlaps s1') c = Some ov' /\ nth_error (fs_overlaps s2') c = Some ov' /\
                     nth_error (fs_bufs s1') c = Some ob' /\ nth_error (fs_bufs s2') c = Some ob' /\
                     nth_error o1 c = Some o' /\ nth_error o2 c = Some o' /\ (mc = false -> o' = woc /\ ov' = ov /\ ob' = ob).
Proof.
  intros Ectl Emask Hov1 Hov2 Hob1 Hob2 Hwi1 Hwi2 Hwo1 Hwo2 Hmc P1 P2.
  pose proof (xo_pib_ctl unit_fn _ _ _ _ _ _ _ P1) as K1. pose proof (xo_pib_ctl unit_fn _ _ _ _ _ _ _ P2) as K2.
  rewrite Ectl in K1. rewrite <- K2 in K1. injection K1 as Ec Ecnt. split; [exact Ec|]. split; [exact Ecnt|].
  unfold xo_pib in P1, P2. rewrite <- Ectl, <- Emask in P2.
  destruct (prologue _ _ _ m) as [mask| | | |] eqn:Ep; cbn [bind] in P1, P2; try discriminate.
  apply prologue_eff in Ep. subst mask.
  destruct (validate_buffers (map zlen wi1) _ _ _ _ _) as [[]| | | |]; cbn [bind] in P1; try discriminate.
  destruct (validate_buffers (map zlen wi2) _ _ _ _ _) as [[]| | | |]; cbn [bind] in P2; try discriminate.
  match type of P1 with context [per_channel ?f ?xs ?mk] => destruct (per_channel f xs mk) as [r1| | | |] eqn:R1 end; cbn [bind] in P1; try discriminate.
  match type of P2 with context [per_channel ?f ?xs ?mk] => destruct (per_channel f xs mk) as [r2| | | |] eqn:R2 end; cbn [bind] in P2; try discriminate.
  destruct (per_channel_same _ _ _ _ _ _ c (wic, ob, ov) mc R1 R2
              (zip3_nth_intro _ _ _ _ _ _ _ Hwi1 Hob1 Hov1) (zip3_nth_intro _ _ _ _ _ _ _ Hwi2 Hob2 Hov2) Hmc) as ([[a b] d] & Q1 & Q2 & Q3).
  assert (B1 : nth_error (map (fun x => snd (fst x)) r1) c = Some b) by (rewrite nth_error_map, Q1; reflexivity).
  assert (B2 : nth_error (map (fun x => snd (fst x)) r2) c = Some b) by (rewrite nth_error_map, Q2; reflexivity).
  assert (D1 : nth_error (map (fun x => snd x) r1) c = Some d) by (rewrite nth_error_map, Q1; reflexivity).
  assert (D2 : nth_error (map (fun x => snd x) r2) c = Some d) by (rewrite nth_error_map, Q2; reflexivity).
  assert (Q3' : mc = false -> b = ob /\ d = ov) by (intros ->; injection Q3 as _ -> ->; split; reflexivity).
  clear Q3.
  destruct (xo_enough _ _).
  - match type of P1 with context [per_channel ?f ?xs ?mk] => destruct (per_channel f xs mk) as [t1| | | |] eqn:T1 end; cbn [bind] in P1; try discriminate.
    match type of P2 with context [per_channel ?f ?xs ?mk] => destruct (per_channel f xs mk) as [t2| | | |] eqn:T2 end; cbn [bind] in P2; try discriminate.
    injection P1 as <- _ <-. injection P2 as <- _ <-.
    destruct (per_channel_same _ _ _ _ _ _ c (woc, b) mc T1 T2
                (combine_nth_intro _ _ _ _ _ Hwo1 B1) (combine_nth_intro _ _ _ _ _ Hwo2 B2) Hmc) as ([e g] & U1 & U2 & U3).
    exists d, g, e. cbn [fs_overlaps fs_bufs].
    split; [exact D1|]. split; [exact D2|].
    rewrite !nth_error_map, U1, U2. cbn.
    split; [reflexivity|]. split; [reflexivity|]. split; [reflexivity|]. split; [reflexivity|].
    intros Hm. destruct (Q3' Hm) as [-> ->]. rewrite Hm in U3. injection U3 as -> ->. repeat split; reflexivity.
  - cbn [bind] in P1, P2. injection P1 as <- _ <-. injection P2 as <- _ <-.
    exists d, b, woc. cbn [fs_overlaps fs_bufs].
    split; [exact D1|]. split; [exact D2|]. split; [exact B1|]. split; [exact B2|]. split; [exact Hwo1|]. split; [exact Hwo2|].
    intros Hm. destruct (Q3' Hm) as [-> ->]. repeat split; reflexivity.
Qed.

(** * FftFixedIn *)
Theorem xi_channel_noninterference (s1 s2 : fstate FftFixedIn) wi1 wi2 wo1 wo2 m c wic woc ib ov mc s1' s2' c1 c2 o1 o2 :
  fs_ctl s1 = fs_ctl s2 -> fs_mask s1 = fs_mask s2 ->
  nth_error (fs_overlaps s1) c = Some ov -> nth_error (fs_overlaps s2) c = Some ov ->
  nth_error (fs_bufs s1) c = Some ib -> nth_error (fs_bufs s2) c = Some ib ->
  nth_error wi1 c = Some wic -> nth_error wi2 c = Some wic ->
  nth_error wo1 c = Some woc -> nth_error wo2 c = Some woc ->
  nth_error (eff_fmask s1 m) c = Some mc ->
  xi_pib unit_fn s1 wi1 wo1 m = Ok (s1', c1, o1) -> xi_pib unit_fn s2 wi2 wo2 m = Ok (s2', c2, o2) ->
  fs_ctl s1' = fs_ctl s2' /\ c1 = c2 /\
  exists ov' ib' o', nth_error (fs_overlaps s1') c = Some ov' /\ nth_error (fs_overlaps s2') c = Some ov' /\
                     nth_error (fs_bufs s1') c = Some ib' /\ nth_error (fs_bufs s2') c = Some ib' /\
                     nth_error o1 c = Some o' /\ nth_error o2 c = Some o' /\ (mc = false -> o' = woc /\ ov' = ov /\ ib' = ib).
Proof.
  intros Ectl Emask Hov1 Hov2 Hib1 Hib2 Hwi1 Hwi2 Hwo1 Hwo2 Hmc P1 P2.
  pose proof (xi_pib_ctl unit_fn _ _ _ _ _ _ _ P1) as K1. pose proof (xi_pib_ctl unit_fn _ _ _ _ _ _ _ P2) as K2.
  rewrite Ectl in K1. rewrite <- K2 in K1. injection K1 as Ec Ecnt. split; [exact Ec|]. split; [exact Ecnt|].
  unfold xi_pib in P1, P2. rewrite <- Ectl, <- Emask in P2.
  destruct (prologue _ _ _ m) as [mask| | | |] eqn:Ep; cbn [bind] in P1, P2; try discriminate.
  apply prologue_eff in Ep. subst mask.
  destruct (validate_buffers (map zlen wi1) _ _ _ _ _) as [[]| | | |]; cbn [bind] in P1; try discriminate.
  destruct (validate_buffers (map zlen wi2) _ _ _ _ _) as [[]| | | |]; cbn [bind] in P2; try discriminate.
  match type of P1 with context [per_channel ?f ?xs ?mk] => destruct (per_channel f xs mk) as [r1| | | |] eqn:R1 end; cbn [bind] in P1; try discriminate.
  match type of P2 with context [per_channel ?f ?xs ?mk] => destruct (per_channel f xs mk) as [r2| | | |] eqn:R2 end; cbn [bind] in P2; try discriminate.
  destruct (per_channel_same _ _ _ _ _ _ c (wic, ib) mc R1 R2
              (combine_nth_intro _ _ _ _ _ Hwi1 Hib1) (combine_nth_intro _ _ _ _ _ Hwi2 Hib2) Hmc) as ([a b] & Q1 & Q2 & Q3).
  assert (B1 : nth_error (map snd r1) c = Some b) by (rewrite nth_error_map, Q1; reflexivity).
  assert (B2 : nth_error (map snd r2) c = Some b) by (rewrite nth_error_map, Q2; reflexivity).
  assert (Q3' : mc = false -> b = ib) by (intros ->; injection Q3 as _ ->; reflexivity).
  clear Q3.
  match type of P1 with context [per_channel ?f ?xs ?mk] => destruct (per_channel f xs mk) as [t1| | | |] eqn:T1 end; cbn [bind] in P1; try discriminate.
  match type of P2 with context [per_channel ?f ?xs ?mk] => destruct (per_channel f xs mk) as [t2| | | |] eqn:T2 end; cbn [bind] in P2; try discriminate.
  destruct (per_channel_same _ _ _ _ _ _ c (b, woc, ov) mc T1 T2
              (zip3_nth_intro _ _ _ _ _ _ _ B1 Hwo1 Hov1) (zip3_nth_intro _ _ _ _ _ _ _ B2 Hwo2 Hov2) Hmc) as ([[e g] h] & U1 & U2 & U3).
  assert (G1 : nth_error (map (fun x => snd (fst x)) t1) c = Some g) by (rewrite nth_error_map, U1; reflexivity).
  assert (G2 : nth_error (map (fun x => snd (fst x)) t2) c = Some g) by (rewrite nth_error_map, U2; reflexivity).
  assert (H1 : nth_error (map (fun x => snd x) t1) c = Some h) by (rewrite nth_error_map, U1; reflexivity).
  assert (H2 : nth_error (map (fun x => snd x) t2) c = Some h) by (rewrite nth_error_map, U2; reflexivity).
  assert (U3' : mc = false -> g = woc /\ h = ov) by (intros ->; injection U3 as _ -> ->; split; reflexivity).
  clear U3.
  destruct (_ <? 0); [discriminate|].
  destruct (xi_keep_cond _ _).
  - match type of P1 with context [per_channel ?f ?xs ?mk] => destruct (per_channel f xs mk) as [v1| | | |] eqn:V1 end; cbn [bind] in P1; try discriminate.
    match type of P2 with context [per_channel ?f ?xs ?mk] => destruct (per_channel f xs mk) as [v2| | | |] eqn:V2 end; cbn [bind] in P2; try discriminate.
    injection P1 as <- _ <-. injection P2 as <- _ <-.
    destruct (per_channel_same _ _ _ _ _ _ c b mc V1 V2 B1 B2 Hmc) as (k & W1 & W2 & W3).
    exists h, k, g. cbn [fs_overlaps fs_bufs].
    split; [exact H1|]. split; [exact H2|]. split; [exact W1|]. split; [exact W2|]. split; [exact G1|]. split; [exact G2|].
    intros Hm. destruct (U3' Hm) as [-> ->]. rewrite Hm in W3. rewrite W3, (Q3' Hm). repeat split; reflexivity.
  - cbn [bind] in P1, P2. injection P1 as <- _ <-. injection P2 as <- _ <-.
    exists h, b, g. cbn [fs_overlaps fs_bufs].
    split; [exact H1|]. split; [exact H2|]. split; [exact B1|]. split; [exact B2|]. split; [exact G1|]. split; [exact G2|].
    intros Hm. destruct (U3' Hm) as [-> ->]. rewrite (Q3' Hm). repeat split; reflexivity.
Qed.

End NonInterfFft.
