(** C05 for FftFixedOut (ideal arithmetic): whatever the output chunk size and the sub-chunk count, the frames delivered
    are a prefix of the canonical stream of the input blocks consumed; the frames produced but not yet delivered are
    exactly the next ones of that stream, parked at the front of the channel's output buffer.                      *)

From Coq Require Import ZArith Reals List Bool Lia.
From Rubato.Model Require Import Num Reals Base Validate Fft.
From Rubato.Gen Require Import SynchroGen.
From Rubato.Proofs Require Import ShapeP ValidateP MalformedP ChannelsP FftInOutP ChunksP FftInR FftOutR FftStreamP FftInStreamR.
Import ListNotations.
Local Open Scope Z_scope.

Section XOStream.
Variable unit_fn : list (@snum CR SR) -> list (@snum CR SR).
Notation ST := (@fstate CR SR FftFixedOut).
Notation canonR := (@canon CR SR unit_fn).

(** X: the input samples of channel c consumed so far (whole blocks); M: the number of frames delivered so far *)
Definition xo_holds (s : ST) (c : nat) (X ov0 : list (@snum CR SR)) (M : Z) : Prop :=
  exists ob ov j,
    nth_error (fs_bufs s) c = Some ob /\ nth_error (fs_overlaps s) c = Some ov /\ 0 <= j /\ zlen X = j * ofin s /\ 0 <= M /\
    zlen (fst (canonR (ofout s) (chunks (ofin s) X) ov0)) = M + osaved s /\
    firstn (Z.to_nat (osaved s)) ob = skipn (Z.to_nat M) (fst (canonR (ofout s) (chunks (ofin s) X) ov0)) /\
    ov = snd (canonR (ofout s) (chunks (ofin s) X) ov0).

Lemma zip3_nth_mk {A B D} (a : list A) (b : list B) (d : list D) k x y z :
  nth_error a k = Some x -> nth_error b k = Some y -> nth_error d k = Some z -> nth_error (zip3 a b d) k = Some (x, y, z).
Proof.
  revert b d k; induction a as [|x0 a IH]; intros [|y0 b] [|z0 d] k H1 H2 H3; try (destruct k; discriminate).
  destruct k; cbn in *; [congruence | apply IH; assumption].
Qed.

Lemma combine_nth_mk {A B} (a : list A) (b : list B) k x y :
  nth_error a k = Some x -> nth_error b k = Some y -> nth_error (combine a b) k = Some (x, y).
Proof.
  revert b k; induction a as [|x0 a IH]; intros [|y0 b] k H1 H2; try (destruct k; discriminate).
  destruct k; cbn in *; [congruence | apply IH; assumption].
Qed.

Lemma canon_fst_length fout (bs : list (list (@snum CR SR))) ov fin : 0 <= fout ->
  (forall w, zlen w = fin -> zlen (unit_fn w) = 2 * fout) -> Forall (fun b => zlen b = fin) bs -> zlen ov = fout ->
  zlen (fst (canonR fout bs ov)) = Z.of_nat (length bs) * fout /\ zlen (snd (canonR fout bs ov)) = fout.
Proof.
  intros Hf Hu. revert ov. induction bs as [|b bs IH]; intros ov Hb Hv; cbn [canon fst snd length].
  - split; [unfold zlen; cbn; lia | exact Hv].
  - apply Forall_cons_iff in Hb. destruct Hb as [Hb1 Hb2].
    destruct (ola_lengths unit_fn fout b ov Hf Hv (Hu b Hb1)) as [L1 L2].
    destruct (ola unit_fn fout b ov) as [y ov1]. cbn [fst snd] in L1, L2.
    destruct (IH ov1 Hb2 L2) as [I1 I2]. destruct (canonR fout bs ov1) as [ys ov2]. cbn [fst snd] in *.
    split; [|exact I2]. unfold zlen in *. rewrite app_length. lia.
Qed.

Theorem xo_call_stream (s : ST) wi wo m (c : nat) X ov0 M w :
  xo_wf unit_fn s -> xo_pre s wi wo m = Ok tt -> xo_holds s c X ov0 M -> zlen ov0 = ofout s ->
  nth_error wi c = Some w -> match m with Some mk => nth_error mk c = Some true | None => True end ->
  let X' := X ++ firstn (Z.to_nat (oneed s)) w in
  let Y' := fst (canonR (ofout s) (chunks (ofin s) X') ov0) in
  exists s' outs o',
    @xo_pib CR SR unit_fn s wi wo m = Ok (s', (oneed s, oCo s), outs) /\ xo_wf unit_fn s' /\
    ofin s' = ofin s /\ ofout s' = ofout s /\ oCo s' = oCo s /\
    xo_holds s' c X' ov0 (M + oCo s) /\
    nth_error outs c = Some o' /\
    firstn (Z.to_nat (oCo s)) o' = firstn (Z.to_nat (oCo s)) (skipn (Z.to_nat M) Y') /\
    firstn (Z.to_nat M) Y' = firstn (Z.to_nat M) (fst (canonR (ofout s) (chunks (ofin s) X) ov0)).
Proof.
  intros W Hpre (ob & ov & j & Hob & Hov & Hj & HX & HM & HY & Hpark & Hovc) Hov0 Hw Hm X' Y'.
  destruct (xo_call_stages unit_fn s wi wo m W Hpre) as (s' & outs & mask & r1 & r2 & E & W' & Hsv' & Hfi & Hfo & HC & Hn & Epro & E1 & E2 & Eov & Eouts & Ebufs).
  destruct W as [Wfin Wfout WCo Wn Wsv Wnd Wbn Wb Won Wo Wm Wu].
  set (fin := ofin s) in *. set (fout := ofout s) in *. set (Co := oCo s) in *. set (sv := osaved s) in *. set (nd := oneed s) in *.
  set (k := blocks_for (Z.max (Co - sv) 0) fout) in *.
  destruct (blocks_for_bounds (Z.max (Co - sv) 0) fout ltac:(lia) Wfout) as (Hk0 & Hk1 & Hk2). fold k in Hk0, Hk1, Hk2.
  assert (Hq : nd / fin = k) by (rewrite Wnd; apply Z.div_mul; lia). rewrite Hq in Hsv'.
  assert (Hcn : (c < Z.to_nat (onc s))%nat) by (rewrite <- Wbn; apply nth_error_Some; congruence).
  assert (Hmc : nth_error mask c = Some true) by (eapply prologue_active; [exact Epro | lia | exact Hm]).
  unfold xo_pre, x_precheck in Hpre. rewrite Epro in Hpre. cbn [bind] in Hpre.
  apply validate_ok_iff in Hpre. destruct Hpre as (Vi & Vm & Vil & Vo & Vol).
  unfold xo_val_min_in, xo_val_min_out in Vil, Vol. fold nd Co in Vil, Vol.
  assert (Lw : nd <= zlen w) by (apply (Vil c (zlen w)); [rewrite nth_error_map, Hw; reflexivity | exact Hmc]).
  assert (Lob : zlen ob = Co + fout) by (rewrite Forall_forall in Wb; apply Wb; eapply nth_error_In; exact Hob).
  assert (Lov : zlen ov = fout) by (rewrite Forall_forall in Wo; apply Wo; eapply nth_error_In; exact Hov).
  set (Y := fst (canonR fout (chunks fin X) ov0)) in *.
  (* --- pass 1 *)
  destruct (per_channel_nth _ _ _ _ c _ true E1 (zip3_nth_mk _ _ _ _ _ _ _ Hw Hob Hov) Hmc) as ([[w1 ob1] ov1] & Hr1 & Ef1).
  unfold xo_f1 in Ef1. change (@snum CR SR) with R in *.
  assert (R1 : in_range w 0 nd = true) by (apply in_range_iff; lia). rewrite R1 in Ef1. cbn [negb] in Ef1.
  assert (R2 : in_range ob sv (zlen ob) = true) by (apply in_range_iff; lia). rewrite R2 in Ef1. cbn [negb] in Ef1.
  assert (Ez : (fin =? 0) || (fout =? 0) = false) by (apply orb_false_iff; split; apply Z.eqb_neq; lia). rewrite Ez in Ef1.
  set (ins := chunks fin (slice w 0 nd)) in *.
  destruct (chunks_exact fin (Z.to_nat k) (slice w 0 nd) ltac:(lia)) as [Ci1 Ci2].
  { rewrite slice_length by lia. rewrite Z2Nat.id by lia. lia. }
  fold ins in Ci1, Ci2.
  assert (Lsk : zlen (skipn (Z.to_nat sv) ob) = Co + fout - sv) by (unfold zlen in *; rewrite skipn_length; lia).
  assert (Hroom : Z.of_nat (Z.to_nat k) * fout <= zlen (skipn (Z.to_nat sv) ob)) by (rewrite Z2Nat.id by lia; rewrite Lsk; nia).
  destruct (chunks_full fout (Z.to_nat k) (skipn (Z.to_nat sv) ob) ltac:(lia) Hroom) as [Co1 Co2].
  assert (Hle : (length ins <= length (chunks fout (skipn (Z.to_nat sv) ob)))%nat) by (rewrite Ci1; exact Co1).
  assert (Hfo2 : Forall (fun c0 : list R => zlen c0 = fout) (firstn (length ins) (chunks fout (skipn (Z.to_nat sv) ob)))) by (rewrite Ci1; exact Co2).
  destruct (@run_units_canon CR SR unit_fn fout fin ltac:(lia) Wu ins (chunks fout (skipn (Z.to_nat sv) ob)) ov Ci2 Lov Hle Hfo2)
    as (obs & Er & Cc2 & Sk & Ln & Lv & Fo).
  rewrite Er in Ef1. cbn [bind] in Ef1. injection Ef1 as <- <- <-.
  set (ob1 := firstn (Z.to_nat sv) ob ++ concat obs) in *.
  (* the new canonical stream *)
  assert (Esl : slice w 0 nd = firstn (Z.to_nat nd) w) by (unfold slice; rewrite Z.sub_0_r; reflexivity).
  assert (EY' : canonR fout (chunks fin X') ov0 = (Y ++ fst (canonR fout ins ov), snd (canonR fout ins ov))).
  { unfold X'. rewrite (chunks_app fin (Z.to_nat j)) by (try lia; rewrite Z2Nat.id by lia; exact HX).
    rewrite (@canon_app CR SR unit_fn fout). fold nd. rewrite <- Esl. fold ins. unfold Y. rewrite Hovc. reflexivity. }
  assert (EYf : Y' = Y ++ fst (canonR fout ins ov)) by (unfold Y'; exact (f_equal fst EY')).
  assert (Lnew : zlen (fst (canonR fout ins ov)) = k * fout).
  { destruct (canon_fst_length fout ins ov fin ltac:(lia) Wu Ci2 Lov) as [L _]. rewrite L. change (@snum CR SR) with R in *. rewrite Ci1. lia. }
  assert (LY' : zlen Y' = M + sv + k * fout).
  { rewrite EYf. change (@snum CR SR) with R in *. unfold zlen in HY, Lnew |- *. rewrite app_length. lia. }
  assert (Hfull : firstn (Z.to_nat k * Z.to_nat fout) (concat obs) = fst (canonR fout ins ov)).
  { change (@snum CR SR) with R in *. rewrite <- Cc2, Ci1. apply concat_firstn_full; [lia|]. rewrite Ci1 in Fo. eapply Forall_impl; [|exact Fo].
    intros x Hx. cbv beta in Hx. unfold zlen in Hx. lia. }
  change (@snum CR SR) with R in *.
  assert (Hfront : firstn (Z.to_nat (sv + k * fout)) ob1 = skipn (Z.to_nat M) Y').
  { unfold ob1. replace (Z.to_nat (sv + k * fout)) with (Z.to_nat sv + Z.to_nat k * Z.to_nat fout)%nat by nia.
    rewrite firstn_app. assert (Lf : length (firstn (Z.to_nat sv) ob) = Z.to_nat sv) by (rewrite firstn_length; unfold zlen in Lob; lia).
    rewrite Lf. replace (Z.to_nat sv + Z.to_nat k * Z.to_nat fout - Z.to_nat sv)%nat with (Z.to_nat k * Z.to_nat fout)%nat by lia.
    rewrite Hfull. rewrite firstn_all2 by (rewrite firstn_length; lia).
    rewrite EYf, skipn_app. replace (Z.to_nat M - length Y)%nat with O by (unfold zlen in HY; lia). cbn [skipn].
    f_equal. exact Hpark. }
  assert (Lob1 : zlen ob1 = Co + fout).
  { unfold ob1, zlen. rewrite app_length, firstn_length.
    assert (map (@zlen R) obs = map (@zlen R) (chunks fout (skipn (Z.to_nat sv) ob))).
    { rewrite <- (firstn_skipn (length ins) obs), <- (firstn_skipn (length ins) (chunks fout (skipn (Z.to_nat sv) ob))).
      rewrite !map_app. f_equal; [|rewrite Sk; reflexivity].
      clear -Fo Hfo2 Ln Hle. revert Fo Hfo2. generalize (length ins). intros n.
      assert (Hn : (length (firstn n obs) = length (firstn n (chunks fout (skipn (Z.to_nat sv) ob))))%nat) by (rewrite !firstn_length; lia).
      revert Hn. generalize (firstn n obs) (firstn n (chunks fout (skipn (Z.to_nat sv) ob))). intros a. induction a as [|x a IH]; intros [|y b] Hl Fa Fb; cbn in *; try lia; try reflexivity.
      apply Forall_cons_iff in Fa. apply Forall_cons_iff in Fb. destruct Fa as [Fa1 Fa2]. destruct Fb as [Fb1 Fb2]. f_equal; [congruence | apply IH; [lia|assumption|assumption]]. }
    generalize (concat_zlen_map _ _ H). rewrite chunks_concat by lia. unfold zlen in *. rewrite skipn_length. lia. }
  (* --- pass 2 *)
  assert (Ho0 : exists o, nth_error wo c = Some o).
  { destruct (nth_error wo c) eqn:En; [eauto|]. apply nth_error_None in En. unfold zlen in Vo. rewrite map_length in Vo. unfold xo_val_channels in Vo. fold (onc s) in Vo. lia. }
  destruct Ho0 as (o & Ho).
  assert (Lo : Co <= zlen o) by (apply (Vol c (zlen o)); [rewrite nth_error_map, Ho; reflexivity | exact Hmc]).
  assert (Hb1 : nth_error (map (fun x : list R * list R * list R => snd (fst x)) r1) c = Some ob1) by (rewrite nth_error_map, Hr1; reflexivity).
  destruct (per_channel_nth _ _ _ _ c _ true E2 (combine_nth_mk _ _ _ _ _ Ho Hb1) Hmc) as ([o' ob2] & Hr2 & Ef2).
  unfold xo_f2 in Ef2. change (@snum CR SR) with R in *.
  assert (R3 : in_range o 0 Co = true) by (apply in_range_iff; lia).
  assert (R4 : in_range ob1 0 Co = true) by (apply in_range_iff; lia). rewrite R3, R4 in Ef2. cbn [negb orb] in Ef2.
  rewrite Z.eqb_refl in Ef2. cbn [negb] in Ef2.
  set (sv' := osaved s') in *.
  assert (Hsv2 : sv' = sv + k * fout - Co) by lia.
  assert (Hsv3 : 0 <= sv' < fout) by (destruct W' as [_ _ _ _ Ws _ _ _ _ _ _ _]; unfold sv'; rewrite Hfo in Ws; exact Ws).
  destruct (copy_within ob1 Co (Co + sv') 0) as [ob2'|] eqn:Ecw; [|discriminate]. injection Ef2 as <- <-.
  exists s', outs, (slice ob1 0 Co ++ skipn (Z.to_nat Co) o).
  split; [exact E|]. split; [exact W'|]. split; [exact Hfi|]. split; [exact Hfo|]. split; [exact HC|].
  assert (Hdel : firstn (Z.to_nat Co) ob1 = firstn (Z.to_nat Co) (skipn (Z.to_nat M) Y')).
  { rewrite <- Hfront. rewrite firstn_firstn. f_equal. lia. }
  assert (Hkeep : firstn (Z.to_nat sv') ob2' = skipn (Z.to_nat (M + Co)) Y').
  { unfold copy_within in Ecw.
    destruct (in_range ob1 Co (Co + sv') && (0 <=? 0) && (0 + (Co + sv' - Co) <=? zlen ob1)); [|discriminate].
    injection Ecw as <-. unfold splice. cbn [firstn app Z.to_nat].
    assert (Lsl : length (slice ob1 Co (Co + sv')) = Z.to_nat sv').
    { generalize (slice_length ob1 Co (Co + sv') ltac:(lia) ltac:(lia) ltac:(lia)). unfold zlen. lia. }
    rewrite firstn_app, Lsl. replace (Z.to_nat sv' - Z.to_nat sv')%nat with O by lia. cbn [firstn]. rewrite app_nil_r.
    rewrite firstn_all2 by lia. unfold slice. replace (Z.to_nat (Co + sv' - Co)) with (Z.to_nat (sv + k * fout) - Z.to_nat Co)%nat by lia.
    rewrite <- skipn_firstn_comm. rewrite Hfront. rewrite skipn_add. f_equal. lia. }
  split.
  { exists ob2', (snd (canonR fout ins ov)), (j + k).
    rewrite Hfi, Hfo. fold sv'.
    split; [rewrite Ebufs, nth_error_map, Hr2; reflexivity|]. split; [rewrite Eov, nth_error_map, Hr1; reflexivity|].
    split; [lia|]. split.
    { unfold X', zlen in *. rewrite app_length, firstn_length. fold nd. rewrite Wnd. nia. }
    split; [lia|]. split; [transitivity (zlen Y'); [reflexivity | rewrite LY'; lia]|]. split; [exact Hkeep|]. exact (eq_sym (f_equal snd EY')). }
  split; [rewrite Eouts, nth_error_map, Hr2; reflexivity|].
  split.
  { rewrite firstn_app. assert (Lsl0 : length (slice ob1 0 Co) = Z.to_nat Co).
    { generalize (slice_length ob1 0 Co ltac:(lia) ltac:(lia) ltac:(lia)). unfold zlen. lia. }
    rewrite Lsl0. replace (Z.to_nat Co - Z.to_nat Co)%nat with O by lia. cbn [firstn]. rewrite app_nil_r.
    rewrite firstn_all2 by lia. unfold slice. rewrite Z.sub_0_r. cbn [Z.to_nat skipn]. exact Hdel. }
  rewrite EYf. rewrite firstn_app. replace (Z.to_nat M - length Y)%nat with O by (unfold zlen in HY; lia). cbn [firstn]. apply app_nil_r.
Qed.

End XOStream.

(** * Whole streams *)
Section XOHistory.
Variable unit_fn : list (@snum CR SR) -> list (@snum CR SR).
Variable c : nat.
Notation ST := (@fstate CR SR FftFixedOut).
Notation canonR := (@canon CR SR unit_fn).

Fixpoint xo_stream (s : ST) (X : list (@snum CR SR)) (calls : list (list (list (@snum CR SR)) * list (list (@snum CR SR)) * option (list bool)))
  : @res CR (ST * list (@snum CR SR) * list (@snum CR SR)) :=
  match calls with
  | [] => Ok (s, X, [])
  | (wi, wo, m) :: rest =>
      do _ <- xo_pre s wi wo m;
      do x <- @xo_pib CR SR unit_fn s wi wo m;
      let '(s', (a, b), outs) := x in
      do y <- xo_stream s' (X ++ firstn (Z.to_nat a) (nth c wi [])) rest;
      let '(s'', X'', ys) := y in
      Ok (s'', X'', firstn (Z.to_nat b) (nth c outs []) ++ ys)
  end.

Theorem xo_stream_canon (ov0 : list (@snum CR SR)) : forall calls (s : ST) X M,
  xo_wf unit_fn s -> xo_holds unit_fn s c X ov0 M -> zlen ov0 = ofout s -> xi_live c calls ->
  match xo_stream s X calls with
  | Ok (s', X', ys) =>
      xo_wf unit_fn s' /\ xo_holds unit_fn s' c X' ov0 (M + zlen ys) /\ ofin s' = ofin s /\ ofout s' = ofout s /\
      firstn (Z.to_nat (M + zlen ys)) (fst (canonR (ofout s) (chunks (ofin s) X') ov0)) =
      firstn (Z.to_nat M) (fst (canonR (ofout s) (chunks (ofin s) X) ov0)) ++ ys
  | Err _ => True
  | Panic _ | UB _ | Diverge => False
  end.
Proof.
  induction calls as [|[[wi wo] m] rest IH]; intros s X M W Hh Hov0 Hl; cbn [xo_stream].
  - replace (zlen (@nil (@snum CR SR))) with 0 by reflexivity. rewrite Z.add_0_r, app_nil_r.
    split; [exact W|]. split; [exact Hh|]. split; [reflexivity|]. split; reflexivity.
  - cbn [xi_live] in Hl. destruct Hl as ((w & Hw) & Hm & Hl).
    destruct (xo_pre s wi wo m) as [[]| | | |] eqn:Ep; cbn [bind]; try exact I;
      try (unfold xo_pre in Ep;
           match type of Ep with x_precheck ?a ?b ?c0 ?d ?sm ?f ?g ?h = _ => destruct (@x_precheck_total CR SR a b c0 d sm f g h) as [Hq|[er Hq]] end;
           rewrite Hq in Ep; discriminate).
    destruct (xo_call_stream unit_fn s wi wo m c X ov0 M w W Ep Hh Hov0 Hw Hm) as (s' & outs & o' & E & W' & Hfi & Hfo & HC & Hh' & Ho & Hdel & Hpre).
    rewrite E. cbn [bind]. rewrite (nth_error_nth _ _ [] Hw), (nth_error_nth _ _ [] Ho).
    specialize (IH s' (X ++ firstn (Z.to_nat (oneed s)) w) (M + oCo s) W' Hh' ltac:(rewrite Hfo; exact Hov0) Hl).
    destruct (xo_stream s' (X ++ firstn (Z.to_nat (oneed s)) w) rest) as [[[s'' X''] ys]| | | |]; cbn [bind]; try exact IH.
    destruct IH as (W'' & Hh'' & Hfi'' & Hfo'' & Hcan).
    rewrite Hfi, Hfo in Hcan.
    set (Y1 := fst (canonR (ofout s) (chunks (ofin s) (X ++ firstn (Z.to_nat (oneed s)) w)) ov0)) in *.
    (* the frames delivered by this call: exactly chunk_size_out of them *)
    assert (HM : 0 <= M) by (destruct Hh as (? & ? & ? & _ & _ & _ & _ & HM & _); exact HM).
    assert (HCo : 1 <= oCo s) by (destruct W; assumption).
    assert (LY1 : M + oCo s <= zlen Y1).
    { destruct Hh' as (? & ? & ? & _ & _ & _ & _ & _ & HY & _). rewrite Hfi, Hfo in HY. fold Y1 in HY.
      destruct W' as [_ _ _ _ Wsv _ _ _ _ _ _ _]. lia. }
    assert (Ld : zlen (firstn (Z.to_nat (oCo s)) o') = oCo s).
    { rewrite Hdel. unfold zlen in *. rewrite firstn_length, skipn_length. lia. }
    assert (Lys : zlen (firstn (Z.to_nat (oCo s)) o' ++ ys) = oCo s + zlen ys) by (unfold zlen in *; rewrite app_length; lia).
    split; [exact W''|]. split; [rewrite Lys, Z.add_assoc; exact Hh''|]. split; [congruence|]. split; [congruence|].
    rewrite Lys, Z.add_assoc. rewrite Hcan. rewrite app_assoc. f_equal.
    replace (Z.to_nat (M + oCo s)) with (Z.to_nat M + Z.to_nat (oCo s))%nat by lia.
    rewrite firstn_add. rewrite Hpre, Hdel. reflexivity.
Qed.

End XOHistory.

(** * From the constructor: what a fresh FftFixedOut delivers is a prefix of the canonical stream of the blocks consumed *)
From Rubato.Model Require Resamplers.

Theorem xo_fresh_stream (unit_fn : list (@snum CR SR) -> list (@snum CR SR)) rate_in rate_out chunk sub nch s (c : nat) calls :
  0 < rate_in -> 0 < rate_out -> 1 <= chunk -> 0 <= nch -> (c < Z.to_nat nch)%nat ->
  @Resamplers.fft_out_new CR SR rate_in rate_out chunk sub nch = inr (Resamplers.RFftOut s) ->
  (forall w, zlen w = ofin s -> zlen (unit_fn w) = 2 * ofout s) ->
  xi_live c calls ->
  match xo_stream unit_fn c s [] calls with
  | Ok (s', X', ys) =>
      ys = firstn (length ys) (fst (@canon CR SR unit_fn (ofout s) (chunks (ofin s) X') (@Resamplers.zeros CR SR (ofout s))))
  | Err _ => True
  | Panic _ | UB _ | Diverge => False
  end.
Proof.
  intros Hi Ho Hc Hn Hcn Hnew Hu Hl.
  destruct (xo_ctor unit_fn rate_in rate_out chunk sub nch s Hi Ho Hc Hn Hnew Hu) as (W & _ & Hs0 & _).
  assert (Hfo0 : 0 <= ofout s) by (destruct W; lia).
  assert (Hh : xo_holds unit_fn s c [] (@Resamplers.zeros CR SR (ofout s)) 0).
  { unfold Resamplers.fft_out_new in Hnew. destruct (syn_validate_rates_bad rate_in rate_out); [discriminate|]. cbv zeta in Hnew.
    injection Hnew as Es. unfold xo_holds. rewrite Hs0.
    eexists _, _, 0. rewrite <- Es at 1 2. cbn [fs_bufs fs_overlaps]. unfold Resamplers.chans.
    split; [rewrite nth_error_repeat by exact Hcn; reflexivity|]. split; [rewrite nth_error_repeat by exact Hcn; reflexivity|].
    split; [lia|]. split; [reflexivity|]. split; [lia|].
    unfold chunks. cbn [length chunks_aux canon fst snd Z.to_nat firstn skipn].
    split; [reflexivity|]. split; [reflexivity|]. rewrite <- Es. cbn [fs_ctl]. reflexivity. }
  generalize (xo_stream_canon unit_fn c (@Resamplers.zeros CR SR (ofout s)) calls s [] 0 W Hh
                (ltac:(unfold Resamplers.zeros, zlen; rewrite repeat_length; lia)) Hl).
  destruct (xo_stream unit_fn c s [] calls) as [[[s' X'] ys]| | | |]; try exact (fun x => x).
  intros (_ & _ & _ & _ & Hcan).
  cbn [Z.to_nat firstn app] in Hcan. rewrite Z.add_0_l in Hcan. unfold zlen in Hcan. rewrite Nat2Z.id in Hcan. symmetry. exact Hcan.
Qed.
