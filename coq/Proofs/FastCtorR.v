(** The constructors of FastFixedIn / FastFixedOut establish the invariants used by the
    constant-ratio safety theorems (ideal arithmetic).                              *)

From Coq Require Import ZArith Reals List Bool Lra Lia.
From Flocq Require Import Core.
From Rubato.Model Require Import Num Reals Base Validate Async Fft Resamplers.
From Rubato.Gen Require Import FastGen.
From Rubato.Proofs Require Import ShapeP EngineP FastInR FastOutR.
Import ListNotations.
Local Open Scope R_scope.

Lemma validate_fast_R ratio maxrel :
  @validate_ratios_fast CR ratio maxrel = None -> 0 < ratio /\ 1 <= maxrel.
Proof.
  unfold validate_ratios_fast, fast_validate_ratio_bad, fast_validate_maxrel_bad.
  cbv [cltb cleb c_is_finite c_lit CR cnum].
  replace (0 / 1) with 0 by field. replace (1 / 1) with 1 by field.
  case Rlt_bool_spec; cbn [andb negb]; [|discriminate]. intros H1.
  case Rle_bool_spec; cbn [andb negb]; [|discriminate]. intros H2 _. split; assumption.
Qed.

Lemma all_len_repeat {C : CNum} {S : SNum C} (b : list snum) n : all_len (zlen b) (repeat b n).
Proof. induction n; cbn; constructor; [reflexivity|assumption]. Qed.

Lemma zlen_zeros n : (0 <= n)%Z -> zlen (@zeros CR SR n) = n.
Proof. intros H. unfold zeros, zlen. rewrite repeat_length. lia. Qed.

Theorem fi_ctor_wf_R ratio maxrel d chunk nch s :
  (1 <= chunk)%Z -> (0 <= nch)%Z ->
  @fast_in_new CR SR ratio maxrel d chunk nch = inr (RFastIn d s) -> fi_wf s /\ ratio = FastInR.ratio s.
Proof.
  intros Hc Hn. unfold fast_in_new.
  destruct (validate_ratios_fast ratio maxrel) eqn:E; [discriminate|].
  destruct (validate_fast_R _ _ E) as [Hr Hm].
  intros H; injection H as <-. split; [|reflexivity].
  cbv [set_FastFixedIn_max_relative_ratio set_FastFixedIn_target_ratio
       set_FastFixedIn_resample_ratio_original set_FastFixedIn_resample_ratio set_FastFixedIn_last_index
       set_FastFixedIn_chunk_size set_FastFixedIn_nbr_channels default_FastFixedIn
       FastFixedIn_last_index FastFixedIn_resample_ratio FastFixedIn_chunk_size FastFixedIn_nbr_channels
       FastFixedIn_target_ratio FastFixedIn_resample_ratio_original FastFixedIn_max_relative_ratio].
  constructor; unfold Cz, nchz, FastInR.ratio, li; cbn [as_ctl as_buf as_mask];
    cbn [FastFixedIn_last_index FastFixedIn_resample_ratio FastFixedIn_chunk_size FastFixedIn_nbr_channels FastFixedIn_target_ratio].
  - exact Hc.
  - exact Hn.
  - unfold chans. rewrite repeat_length. reflexivity.
  - unfold chans. rewrite repeat_length. reflexivity.
  - unfold chans, fi_new_buffer_len, POLYNOMIAL_LEN_U.
    replace (chunk + 16)%Z with (zlen (@zeros CR SR (chunk + 2 * 8))) by (rewrite zlen_zeros; lia).
    exact (@all_len_repeat CR SR (@zeros CR SR (chunk + 2 * 8)) (Z.to_nat nch)).
  - exact Hr.
  - reflexivity.
  - unfold fi_new_last_index, POLYNOMIAL_LEN_I. cbv [c_of_Z CR cnum].
    change (IZR (- (8 ÷ 2))) with (-4).
    assert (0 < / ratio) by (apply Rinv_0_lt_compat; exact Hr).
    generalize (Zceil_ub (/ ratio)). lra.
Qed.

Lemma Zceil_plus_Z x n : Zceil (x + IZR n) = (Zceil x + n)%Z.
Proof.
  apply Zceil_imp. rewrite plus_IZR, minus_IZR, plus_IZR.
  generalize (Zceil_ub x) (Zceil_lb x). change (IZR 1) with 1. lra.
Qed.

(** the constructed state satisfies the invariant, and its buffer has room for every ratio the setter accepts *)
Theorem fo_ctor_wfe_R ratio maxrel d chunk nch s :
  (1 <= chunk)%Z -> (0 <= nch)%Z ->
  @fast_out_new CR SR ratio maxrel d chunk nch = inr (RFastOut d s) ->
  exists blen, fo_wfe blen s /\ ratio = oratio s.
Proof.
  intros Hc Hn. unfold fast_out_new.
  destruct (validate_ratios_fast ratio maxrel) eqn:E; [discriminate|].
  destruct (validate_fast_R _ _ E) as [Hr Hm].
  cbv zeta.
  remember (@fo_new_needed_input_size CR chunk ratio) as N0 eqn:EN0.
  remember (@fo_new_buffer_channel_length CR maxrel N0) as B eqn:EB.
  intros H; injection H as <-.
  exists B. split; [|reflexivity].
  assert (Ht : 0 < / ratio) by (apply Rinv_0_lt_compat; exact Hr).
  assert (HC1 : 1 <= IZR chunk) by (apply IZR_le; lia).
  assert (Hx : 0 < IZR chunk * / ratio) by nra.
  assert (Hz : (0 <= Zceil (IZR chunk * / ratio))%Z).
  { assert (-1 < Zceil (IZR chunk * / ratio))%Z; [|lia]. apply lt_IZR.
    generalize (Zceil_ub (IZR chunk * / ratio)). change (IZR (-1)) with (-1). lra. }
  assert (HN0 : N0 = (Zceil (IZR chunk * / ratio) + 4)%Z).
  { rewrite EN0. unfold fo_new_needed_input_size, POLYNOMIAL_LEN_U. cbv [c_to_usize cceil cdiv c_of_Z CR cnum].
    rewrite Ztrunc_IZR_id. change (8 ÷ 2)%Z with 4%Z. unfold Rdiv. rewrite Z.max_r by exact Hz. reflexivity. }
  assert (HB : (N0 + 16 <= B)%Z).
  { rewrite EB. unfold fo_new_buffer_channel_length, POLYNOMIAL_LEN_U. cbv [c_to_usize cmul cadd c_of_Z c_lit CR cnum].
    assert (H0 : 0 <= IZR N0) by (apply IZR_le; lia).
    assert (Hy : IZR N0 <= (maxrel + 1 / 1) * IZR N0) by (replace (1 / 1) with 1 by field; nra).
    rewrite Ztrunc_floor by lra.
    assert (N0 <= Zfloor ((maxrel + 1 / 1) * IZR N0))%Z by (apply Zfloor_lub; exact Hy). lia. }
  assert (HBcap : forall r2, ratio / maxrel <= r2 -> 0 < r2 /\ (Zceil (IZR chunk * / r2) + 4 + 16 <= B)%Z).
  { intros r2 H2. assert (Hq : 0 < ratio / maxrel) by (apply Rdiv_lt_0_compat; lra).
    assert (Hr2 : 0 < r2) by lra. split; [exact Hr2|].
    assert (Hinv : / r2 <= maxrel * / ratio).
    { replace (maxrel * / ratio) with (/ (ratio / maxrel)) by (field; lra). apply Rinv_le_contravar; assumption. }
    assert (Hx2 : IZR chunk * / r2 <= maxrel * (IZR chunk * / ratio)) by nra.
    assert (Hn0 : IZR chunk * / ratio <= IZR N0 - 4).
    { rewrite HN0, plus_IZR. change (IZR 4) with 4. generalize (Zceil_ub (IZR chunk * / ratio)). lra. }
    assert (Hn5 : 5 <= IZR N0).
    { rewrite HN0, plus_IZR. change (IZR 4) with 4. assert (1 <= IZR (Zceil (IZR chunk * / ratio))); [|lra].
      apply IZR_le. assert (0 < Zceil (IZR chunk * / ratio))%Z; [|lia]. apply lt_IZR.
      generalize (Zceil_ub (IZR chunk * / ratio)). change (IZR 0) with 0. lra. }
    rewrite EB. unfold fo_new_buffer_channel_length, POLYNOMIAL_LEN_U. cbv [c_to_usize cmul cadd c_of_Z c_lit CR cnum].
    replace (1 / 1) with 1 by field.
    assert (Hbig : IZR chunk * / r2 + 9 <= (maxrel + 1) * IZR N0) by nra.
    rewrite Ztrunc_floor by nra. rewrite Z.max_r by (apply Zfloor_lub; change (IZR 0) with 0; nra).
    assert (Hcc : (Zceil (IZR chunk * / r2) + 8 <= Zfloor ((maxrel + 1) * IZR N0))%Z).
    { apply Zfloor_lub. rewrite plus_IZR. change (IZR 8) with 8. generalize (Zceil_lb (IZR chunk * / r2)). lra. }
    change (2 * 8)%Z with 16%Z. lia. }
  clear EN0 EB.
  cbv [set_FastFixedOut_max_relative_ratio set_FastFixedOut_target_ratio
      set_FastFixedOut_resample_ratio_original set_FastFixedOut_resample_ratio set_FastFixedOut_last_index
      set_FastFixedOut_chunk_size set_FastFixedOut_nbr_channels set_FastFixedOut_needed_input_size
      set_FastFixedOut_current_buffer_fill default_FastFixedOut
      FastFixedOut_last_index FastFixedOut_resample_ratio FastFixedOut_chunk_size FastFixedOut_nbr_channels
      FastFixedOut_target_ratio FastFixedOut_needed_input_size FastFixedOut_current_buffer_fill
      FastFixedOut_resample_ratio_original FastFixedOut_max_relative_ratio].
  constructor.
  { constructor; unfold oC, onch, oratio, oli, oneeded, ofill; cbn [as_ctl as_buf as_mask];
      cbn [FastFixedOut_last_index FastFixedOut_resample_ratio FastFixedOut_chunk_size FastFixedOut_nbr_channels
           FastFixedOut_target_ratio FastFixedOut_needed_input_size FastFixedOut_current_buffer_fill].
    - exact Hc.
    - exact Hn.
    - unfold chans. rewrite repeat_length. reflexivity.
    - unfold chans. rewrite repeat_length. reflexivity.
    - unfold chans.
      replace B with (zlen (@zeros CR SR B)) at 1 by (rewrite zlen_zeros; lia).
      exact (@all_len_repeat CR SR (@zeros CR SR B) (Z.to_nat nch)).
    - exact Hr.
    - reflexivity.
    - unfold fo_new_last_index, POLYNOMIAL_LEN_I. cbv [c_of_Z CR cnum]. change (IZR (- (8 ÷ 2))) with (-4). lra.
    - unfold fo_new_last_index, POLYNOMIAL_LEN_I. cbv [c_of_Z CR cnum]. change (IZR (- (8 ÷ 2))) with (-4).
      replace (-4 + IZR chunk * / ratio + 8) with (IZR chunk * / ratio + IZR 4) by (change (IZR 4) with 4; ring).
      rewrite Zceil_plus_Z. exact HN0.
    - lia.
    - lia. }
  intros r2 Ha. cbn [as_ctl] in Ha. unfold fo_set_ratio_accept in Ha.
  cbn [FastFixedOut_resample_ratio_original FastFixedOut_max_relative_ratio] in Ha. cbv [cleb cdiv cmul CR cnum] in Ha.
  apply andb_true_iff in Ha. destruct Ha as [Ha _]. revert Ha. case Rle_bool_spec; [|discriminate]. intros Ha _.
  unfold oC. cbn [as_ctl FastFixedOut_chunk_size]. apply HBcap. exact Ha.
Qed.

Corollary fo_ctor_wf_R ratio maxrel d chunk nch s :
  (1 <= chunk)%Z -> (0 <= nch)%Z ->
  @fast_out_new CR SR ratio maxrel d chunk nch = inr (RFastOut d s) ->
  exists blen, fo_wf blen s /\ ratio = oratio s.
Proof.
  intros Hc Hn H. destruct (fo_ctor_wfe_R ratio maxrel d chunk nch s Hc Hn H) as (blen & [W _] & E).
  exists blen. split; assumption.
Qed.
