(** C17 (control half) for the three synchronous resamplers: the new control record and the returned
    frame counts of a successful process_into_buffer are a function of the old control record
    ALONE -- no sample value, no buffer length, not the spectral core and hence not the sample
    type enter them.  The functions [x*_ctl_next] below mention neither [S] nor [unit_fn].      *)

From Coq Require Import ZArith List Bool Lia.
From Rubato.Model Require Import Num Base Validate Fft.
From Rubato.Gen Require Import SynchroGen.
Import ListNotations.
Local Open Scope Z_scope.

Section CtlFft.
Context {C : CNum}.

Definition xio_ctl_next (st : FftFixedInOut) : FftFixedInOut * (Z * Z) :=
  (st, (xio_ret_in st, xio_ret_out st)).

Definition xo_ctl_next (st : FftFixedOut) : FftFixedOut * (Z * Z) :=
  let processed := xo_processed_frames st in
  let st1 := if xo_enough st processed
             then set_FftFixedOut_saved_frames st (xo_saved_if_enough st processed)
             else set_FftFixedOut_saved_frames st (xo_saved_else st processed) in
  let fno := xo_frames_needed_out st1 in
  let used := xo_input_frames_used st1 in
  let cn := xo_chunks_needed st1 fno in
  let st2 := set_FftFixedOut_frames_needed st1 (xo_frames_needed_next st1 cn) in
  (st2, (xo_ret_in st2 used, xo_ret_out st2)).

Definition xi_ctl_next (st : FftFixedIn) : FftFixedIn * (Z * Z) :=
  let next_saved := xi_next_saved_frames st in
  let ready := xi_nbr_chunks_ready st next_saved in
  let needed_len := xi_needed_len st ready in
  let st1 := set_FftFixedIn_saved_frames st (xi_saved_mid st next_saved) in
  let used := xi_frames_in_used st1 ready in
  let extra := xi_extra st1 used in
  let st2 := set_FftFixedIn_saved_frames st1 (xi_saved_end st1 extra) in
  (st2, (xi_ret_in st2, xi_ret_out st2 needed_len)).

Context {S : SNum C}.
Variable unit_fn : list snum -> list snum.

Lemma xio_pib_ctl (s : fstate FftFixedInOut) wi wo m s' c o :
  xio_pib unit_fn s wi wo m = Ok (s', c, o) -> (fs_ctl s', c) = xio_ctl_next (fs_ctl s).
Proof.
  unfold xio_pib, xio_ctl_next.
  destruct (prologue _ _ _ _) as [mask| | | |]; cbn [bind]; try discriminate.
  destruct (validate_buffers _ _ _ _ _ _) as [[]| | | |]; cbn [bind]; try discriminate.
  destruct (per_channel _ _ _) as [r| | | |]; cbn [bind]; try discriminate.
  intros H. injection H as <- <- _. reflexivity.
Qed.

Lemma xo_pib_ctl (s : fstate FftFixedOut) wi wo m s' c o :
  xo_pib unit_fn s wi wo m = Ok (s', c, o) -> (fs_ctl s', c) = xo_ctl_next (fs_ctl s).
Proof.
  unfold xo_pib, xo_ctl_next.
  destruct (prologue _ _ _ _) as [mask| | | |]; cbn [bind]; try discriminate.
  destruct (validate_buffers _ _ _ _ _ _) as [[]| | | |]; cbn [bind]; try discriminate.
  destruct (per_channel _ _ _) as [r| | | |]; cbn [bind]; try discriminate.
  destruct (xo_enough _ _).
  - destruct (per_channel _ _ _) as [r2| | | |]; cbn [bind]; try discriminate.
    intros H. injection H as <- <- _. reflexivity.
  - cbn [bind]. intros H. injection H as <- <- _. reflexivity.
Qed.

Lemma xi_pib_ctl (s : fstate FftFixedIn) wi wo m s' c o :
  xi_pib unit_fn s wi wo m = Ok (s', c, o) -> (fs_ctl s', c) = xi_ctl_next (fs_ctl s).
Proof.
  unfold xi_pib, xi_ctl_next.
  destruct (prologue _ _ _ _) as [mask| | | |]; cbn [bind]; try discriminate.
  destruct (validate_buffers _ _ _ _ _ _) as [[]| | | |]; cbn [bind]; try discriminate.
  destruct (per_channel _ _ _) as [b1| | | |]; cbn [bind]; try discriminate.
  destruct (per_channel _ _ _) as [r| | | |]; cbn [bind]; try discriminate.
  destruct (_ <? 0); [discriminate|].
  destruct (xi_keep_cond _ _).
  - destruct (per_channel _ _ _) as [b2| | | |]; cbn [bind]; try discriminate.
    intros H. injection H as <- <- _. reflexivity.
  - cbn [bind]. intros H. injection H as <- <- _. reflexivity.
Qed.

End CtlFft.

(** two sample types, two spectral cores, any buffers: same control record before => same control record and
    same counts after every successful call *)
Theorem fft_control_independent_of_sample_type (C : CNum) (S1 S2 : SNum C) u1 u2 :
  (forall (s1 : @fstate C S1 FftFixedIn) (s2 : @fstate C S2 FftFixedIn) wi1 wo1 m1 wi2 wo2 m2 s1' s2' c1 c2 o1 o2,
     fs_ctl s1 = fs_ctl s2 ->
     @xi_pib C S1 u1 s1 wi1 wo1 m1 = Ok (s1', c1, o1) -> @xi_pib C S2 u2 s2 wi2 wo2 m2 = Ok (s2', c2, o2) ->
     fs_ctl s1' = fs_ctl s2' /\ c1 = c2) /\
  (forall (s1 : @fstate C S1 FftFixedOut) (s2 : @fstate C S2 FftFixedOut) wi1 wo1 m1 wi2 wo2 m2 s1' s2' c1 c2 o1 o2,
     fs_ctl s1 = fs_ctl s2 ->
     @xo_pib C S1 u1 s1 wi1 wo1 m1 = Ok (s1', c1, o1) -> @xo_pib C S2 u2 s2 wi2 wo2 m2 = Ok (s2', c2, o2) ->
     fs_ctl s1' = fs_ctl s2' /\ c1 = c2) /\
  (forall (s1 : @fstate C S1 FftFixedInOut) (s2 : @fstate C S2 FftFixedInOut) wi1 wo1 m1 wi2 wo2 m2 s1' s2' c1 c2 o1 o2,
     fs_ctl s1 = fs_ctl s2 ->
     @xio_pib C S1 u1 s1 wi1 wo1 m1 = Ok (s1', c1, o1) -> @xio_pib C S2 u2 s2 wi2 wo2 m2 = Ok (s2', c2, o2) ->
     fs_ctl s1' = fs_ctl s2' /\ c1 = c2).
Proof.
  split; [|split]; intros s1 s2 wi1 wo1 m1 wi2 wo2 m2 s1' s2' c1 c2 o1 o2 E H1 H2.
  - apply xi_pib_ctl in H1. apply xi_pib_ctl in H2. rewrite E in H1. rewrite <- H2 in H1. injection H1 as -> ->. split; reflexivity.
  - apply xo_pib_ctl in H1. apply xo_pib_ctl in H2. rewrite E in H1. rewrite <- H2 in H1. injection H1 as -> ->. split; reflexivity.
  - apply xio_pib_ctl in H1. apply xio_pib_ctl in H2. rewrite E in H1. rewrite <- H2 in H1. injection H1 as -> ->. split; reflexivity.
Qed.
