(** C05 for the synchronous resamplers: the canonical output stream.  The stream of a list of input blocks is the
    overlap-add of the spectral core applied block by block; it mentions no chunk size, no sub-chunk count and no
    variant.  run_units computes exactly this; FftFixedInOut hands out one block of it per call (any arithmetic). *)

From Coq Require Import ZArith List Bool Lia.
From Rubato.Model Require Import Num Base Validate Fft.
From Rubato.Gen Require Import SynchroGen.
From Rubato.Proofs Require Import ShapeP ValidateP MalformedP FftInOutP ChunksP.
Import ListNotations.
Local Open Scope Z_scope.

Section Canon.
Context {C : CNum} {S : SNum C}.
Variable unit_fn : list snum -> list snum.
Variable fout : Z.

(** one block: the frames it completes, and the tail it leaves for the next block *)
Definition ola (blk ov : list snum) : list snum * list snum :=
  let u := unit_fn blk in (add_lists (slice u 0 fout) (slice ov 0 fout), skipn (Z.to_nat fout) u).

(** the canonical stream of a list of blocks, from a carried overlap *)
Fixpoint canon (blocks : list (list snum)) (ov : list snum) : list snum * list snum :=
  match blocks with
  | [] => ([], ov)
  | b :: bs => let '(y, ov1) := ola b ov in let '(ys, ov2) := canon bs ov1 in (y ++ ys, ov2)
  end.

Lemma canon_app bs1 bs2 ov :
  canon (bs1 ++ bs2) ov = (fst (canon bs1 ov) ++ fst (canon bs2 (snd (canon bs1 ov))), snd (canon bs2 (snd (canon bs1 ov)))).
Proof.
  revert ov; induction bs1 as [|b bs1 IH]; intros ov; cbn [app canon fst snd].
  - destruct (canon bs2 ov); reflexivity.
  - destruct (ola b ov) as [y ov1]. rewrite IH. destruct (canon bs1 ov1) as [ys ov2]. cbn [fst snd].
    destruct (canon bs2 ov2) as [zs ov3]. cbn [fst snd]. rewrite app_assoc. reflexivity.
Qed.

(** resample_unit on a full input block and a full output block computes [ola] *)
Lemma resample_unit_is_ola fin (wi wo ov : list snum) :
  0 <= fout -> zlen wi = fin -> zlen wo = fout -> zlen ov = fout -> zlen (unit_fn wi) = 2 * fout ->
  resample_unit unit_fn fin fout wi wo ov = Ok (ola wi ov).
Proof.
  intros Hf Hi Ho Hv Hu. unfold resample_unit, ola.
  rewrite (proj2 (Z.eqb_eq _ _) Hi). cbn [negb].
  rewrite Ho, Z.min_id, Hv, Hu.
  assert (E1 : (fout <=? fout) && (fout <=? 2 * fout) = true) by (apply andb_true_iff; split; apply Z.leb_le; lia).
  rewrite E1. cbn [negb].
  assert (E2 : (fout <=? 2 * fout) = true) by (apply Z.leb_le; lia). rewrite E2. cbn [negb].
  assert (E3 : (2 * fout - fout =? fout) = true) by (apply Z.eqb_eq; lia). rewrite E3. cbn [negb].
  f_equal. f_equal. rewrite skipn_all2 by (unfold zlen in Ho; lia). apply app_nil_r.
Qed.

Lemma ola_lengths (blk ov : list snum) : 0 <= fout -> zlen ov = fout -> zlen (unit_fn blk) = 2 * fout ->
  zlen (fst (ola blk ov)) = fout /\ zlen (snd (ola blk ov)) = fout.
Proof.
  intros Hf Hv Hu. unfold ola. cbn [fst snd]. split.
  - unfold zlen. rewrite add_lists_length.
    generalize (slice_length (unit_fn blk) 0 fout ltac:(lia) ltac:(lia) ltac:(lia)) (slice_length ov 0 fout ltac:(lia) ltac:(lia) ltac:(lia)).
    unfold zlen. lia.
  - unfold zlen in *. rewrite skipn_length. lia.
Qed.

(** run_units over full input blocks and at least as many full output blocks: the first |ins| output blocks are the
    canonical stream of the input blocks, the remaining ones are untouched, the carried overlap is the canonical one *)
Lemma run_units_canon fin : 0 <= fout ->
  (forall w, zlen w = fin -> zlen (unit_fn w) = 2 * fout) ->
  forall (ins outs : list (list snum)) (ov : list snum),
    Forall (fun c => zlen c = fin) ins -> zlen ov = fout ->
    (length ins <= length outs)%nat -> Forall (fun c => zlen c = fout) (firstn (length ins) outs) ->
    exists os, run_units unit_fn fin fout ins outs ov = Ok (os, snd (canon ins ov)) /\
               concat (firstn (length ins) os) = fst (canon ins ov) /\
               skipn (length ins) os = skipn (length ins) outs /\ length os = length outs /\
               zlen (snd (canon ins ov)) = fout /\ Forall (fun c => zlen c = fout) (firstn (length ins) os).
Proof.
  intros Hf Hu ins. induction ins as [|i ins IH]; intros outs ov Hi Hv Hl Ho.
  - cbn [run_units canon length firstn skipn concat fst snd]. exists outs. repeat split; auto.
  - destruct outs as [|o outs]; [cbn in Hl; lia|].
    apply Forall_cons_iff in Hi. destruct Hi as [Hi1 Hi2]. cbn [length firstn] in Ho. apply Forall_cons_iff in Ho. destruct Ho as [Ho1 Ho2].
    cbn [run_units]. rewrite (resample_unit_is_ola fin i o ov Hf Hi1 Ho1 Hv (Hu i Hi1)). cbn [bind].
    destruct (ola_lengths i ov Hf Hv (Hu i Hi1)) as [L1 L2].
    cbn [canon]. destruct (ola i ov) as [y ov1] eqn:Eo. cbn [fst snd] in L1, L2.
    destruct (IH outs ov1 Hi2 L2 ltac:(cbn in Hl; lia) Ho2) as (os & E & Cc & Sk & Ln & Lv & Fo).
    rewrite E. cbn [bind]. destruct (canon ins ov1) as [ys ov2] eqn:Ec. cbn [fst snd] in *.
    exists (y :: os). cbn [length firstn skipn concat]. repeat split; try assumption; try congruence; try (cbn [length]; lia).
    constructor; assumption.
Qed.

End Canon.

(** * FftFixedInOut: one block of the canonical stream per call *)
From Rubato.Proofs Require Import ChannelsP.

Section XIOStream.
Context {C : CNum} {S : SNum C}.
Variable unit_fn : list snum -> list snum.
Notation ST := (fstate FftFixedInOut).

(** one call, channel c active: the frames written are the block completed by the first fft_size_in input samples,
    and the carried overlap is the canonical one *)
Theorem xio_call_stream (s : ST) wi wo m (c : nat) w o ov :
  xio_wf unit_fn s -> xio_pre s wi wo m = Ok tt ->
  nth_error wi c = Some w -> nth_error wo c = Some o -> nth_error (fs_overlaps s) c = Some ov ->
  (match m with Some mk => nth_error mk c = Some true | None => True end) ->
  exists s' outs o',
    xio_pib unit_fn s wi wo m = Ok (s', (xfin s, xfout s), outs) /\ xio_wf unit_fn s' /\ fs_ctl s' = fs_ctl s /\
    nth_error outs c = Some o' /\
    firstn (Z.to_nat (xfout s)) o' = fst (ola unit_fn (xfout s) (slice w 0 (xfin s)) ov) /\
    nth_error (fs_overlaps s') c = Some (snd (ola unit_fn (xfout s) (slice w 0 (xfin s)) ov)).
Proof.
  intros W Hpre Hw Ho Hov Hm.
  destruct (xio_call_safe unit_fn s wi wo m W Hpre) as (s' & outs & E & W' & Hc & Hl).
  exists s', outs. pose proof E as E0.
  (* take the successful call apart *)
  unfold xio_pib in E. unfold xio_pre, x_precheck in Hpre.
  destruct (prologue (xio_mask_bad (fs_ctl s)) (xio_val_channels (fs_ctl s)) (fs_mask s) m) as [mask| | | |] eqn:Epro;
    cbn [bind] in Hpre, E; try discriminate.
  destruct (validate_buffers (map zlen wi) (map zlen wo) mask (xio_val_channels (fs_ctl s)) (xio_val_min_in (fs_ctl s))
                             (xio_val_min_out (fs_ctl s))) as [[]| | | |] eqn:Eval; cbn [bind] in Hpre, E; try discriminate.
  apply validate_ok_iff in Eval. destruct Eval as (Vi & Vm & Vil & Vo & Vol).
  unfold xio_val_channels, xio_val_min_in, xio_val_min_out in Vi, Vm, Vil, Vo, Vol.
  fold (xnch s) (xfin s) (xfout s) in Vi, Vm, Vil, Vo, Vol.
  match type of E with context [per_channel ?f ?l ?mk] => destruct (per_channel f l mk) as [r| | | |] eqn:Er end;
    cbn [bind] in E; try discriminate.
  injection E as Es' Eouts.
  destruct W as [Wfin Weq Wfout Wn Wovn Wov Wmk Wu].
  assert (Hmc : nth_error mask c = Some true).
  { unfold prologue in Epro. destruct m as [mk|].
    - destruct (xio_mask_bad (fs_ctl s) (zlen mk)); [discriminate|]. injection Epro as <-. exact Hm.
    - injection Epro as <-. rewrite nth_error_map.
      assert (Hcl : (c < length (fs_mask s))%nat) by (rewrite Wmk, <- Wovn; apply nth_error_Some; congruence).
      destruct (nth_error (fs_mask s) c) eqn:En; [reflexivity|]. apply nth_error_None in En. lia. }
  assert (Hz : nth_error (zip3 wi wo (fs_overlaps s)) c = Some (w, o, ov)).
  { clear -Hw Ho Hov. revert wo c Hw Ho Hov. generalize (fs_overlaps s). revert w o ov.
    induction wi as [|x a IH]; intros w o ov [|z cs] [|y b] c H1 H2 H3; try (destruct c; discriminate).
    destruct c; cbn in *; [congruence | eapply IH; eassumption]. }
  destruct (per_channel_nth _ _ _ _ c _ true Er Hz Hmc) as ([[w' o'] ov'] & Hr & Ef).
  cbv beta iota in Ef.
  assert (Lw : xfin s <= zlen w) by (apply (Vil c (zlen w)); [rewrite nth_error_map, Hw; reflexivity | exact Hmc]).
  assert (Lo : xfout s <= zlen o) by (apply (Vol c (zlen o)); [rewrite nth_error_map, Ho; reflexivity | exact Hmc]).
  assert (Lv : zlen ov = xfout s) by (rewrite Forall_forall in Wov; apply Wov; eapply nth_error_In; exact Hov).
  unfold xio_in_hi, xio_out_hi in Ef. fold (xfin s) (xfout s) in Ef. rewrite Weq in Ef.
  assert (R1 : in_range w 0 (xfin s) = true) by (apply in_range_iff; lia).
  assert (R2 : in_range o 0 (xfout s) = true) by (apply in_range_iff; lia).
  rewrite R1, R2 in Ef. cbn [negb orb] in Ef.
  rewrite (resample_unit_is_ola unit_fn (xfout s) (xfin s)) in Ef; try lia.
  2:{ rewrite slice_length by lia. lia. }
  2:{ rewrite slice_length by lia. lia. }
  2:{ apply Wu. rewrite slice_length by lia. lia. }
  cbn [bind] in Ef. destruct (ola unit_fn (xfout s) (slice w 0 (xfin s)) ov) as [y ov1] eqn:Eo.
  injection Ef as <- <- <-.
  assert (Ly : zlen y = xfout s).
  { generalize (ola_lengths unit_fn (xfout s) (slice w 0 (xfin s)) ov Wfout Lv). rewrite Eo. cbn [fst snd].
    intros Hl2. apply Hl2. apply Wu. rewrite slice_length by lia. lia. }
  exists (y ++ skipn (Z.to_nat (xfout s)) o).
  split; [exact E0|]. split; [exact W'|]. split; [exact Hc|].
  split; [rewrite <- Eouts, nth_error_map, Hr; reflexivity|].
  split.
  - cbn [fst]. rewrite firstn_app. unfold zlen in Ly. replace (Z.to_nat (xfout s) - length y)%nat with O by lia.
    cbn [firstn]. rewrite app_nil_r. apply firstn_all2. lia.
  - rewrite <- Es'. cbn [fs_overlaps snd]. rewrite nth_error_map, Hr. reflexivity.
Qed.

End XIOStream.

(** * FftFixedInOut: the whole stream is the canonical stream of the blocks fed *)
Section XIOHistory.
Context {C : CNum} {S : SNum C}.
Variable unit_fn : list snum -> list snum.
Variable c : nat.
Notation ST := (fstate FftFixedInOut).

Fixpoint xio_stream (s : ST) (calls : list (list (list snum) * list (list snum) * option (list bool)))
  : res (ST * list (list snum) * list snum) :=
  match calls with
  | [] => Ok (s, [], [])
  | (wi, wo, m) :: rest =>
      do _ <- xio_pre s wi wo m;
      do x <- xio_pib unit_fn s wi wo m;
      let '(s', (a, b), outs) := x in
      do y <- xio_stream s' rest;
      let '(s'', blocks, ys) := y in
      Ok (s'', slice (nth c wi []) 0 a :: blocks, firstn (Z.to_nat b) (nth c outs []) ++ ys)
  end.

Fixpoint xio_live (calls : list (list (list snum) * list (list snum) * option (list bool))) : Prop :=
  match calls with
  | [] => True
  | (wi, wo, m) :: rest => (exists w, nth_error wi c = Some w) /\ (exists o, nth_error wo c = Some o) /\
                           match m with Some mk => nth_error mk c = Some true | None => True end /\ xio_live rest
  end.

Theorem xio_stream_canon : forall calls (s : ST) ov,
  xio_wf unit_fn s -> nth_error (fs_overlaps s) c = Some ov -> xio_live calls ->
  match xio_stream s calls with
  | Ok (s', blocks, ys) => xio_wf unit_fn s' /\ ys = fst (canon unit_fn (xfout s) blocks ov) /\
                           nth_error (fs_overlaps s') c = Some (snd (canon unit_fn (xfout s) blocks ov)) /\ fs_ctl s' = fs_ctl s
  | Err _ => True
  | Panic _ | UB _ | Diverge => False
  end.
Proof.
  induction calls as [|[[wi wo] m] rest IH]; intros s ov W Hov Hl; cbn [xio_stream].
  - cbn [canon fst snd]. split; [exact W|]. split; [reflexivity|]. split; [exact Hov|reflexivity].
  - cbn [xio_live] in Hl. destruct Hl as ((w & Hw) & (o & Ho) & Hm & Hl).
    destruct (xio_pre s wi wo m) as [[]| | | |] eqn:Ep; cbn [bind]; try exact I;
      try (unfold xio_pre in Ep;
           match type of Ep with x_precheck ?a ?b ?c0 ?d ?sm ?f ?g ?h = _ => destruct (x_precheck_total a b c0 d sm f g h) as [Hq|[er Hq]] end;
           rewrite Hq in Ep; discriminate).
    destruct (xio_call_stream unit_fn s wi wo m c w o ov W Ep Hw Ho Hov Hm) as (s' & outs & o' & E & W' & Hc & Ho' & Hy & Hov').
    rewrite E. cbn [bind]. rewrite (nth_error_nth _ _ [] Hw), (nth_error_nth _ _ [] Ho').
    specialize (IH s' _ W' Hov' Hl).
    destruct (xio_stream s' rest) as [[[s'' blocks] ys]| | | |]; cbn [bind]; try exact IH.
    destruct IH as (W'' & Hys & Hov'' & Hc'').
    assert (Efo : xfout s' = xfout s) by (unfold xfout; rewrite Hc; reflexivity).
    rewrite Efo in Hys, Hov''.
    split; [exact W''|]. cbn [canon].
    destruct (ola unit_fn (xfout s) (slice w 0 (xfin s)) ov) as [y ov1] eqn:Eo. cbn [fst snd] in Hy, Hys, Hov''.
    destruct (canon unit_fn (xfout s) blocks ov1) as [zs ov2] eqn:Ec. cbn [fst snd] in *.
    split; [rewrite Hy, Hys; reflexivity|]. split; [exact Hov''|congruence].
Qed.

End XIOHistory.
