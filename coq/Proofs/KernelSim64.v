(** C15: the bit-exact kernels (Flocq binary64 operations, instance S64) against the kernels over
    the reals with correctly rounded operations (KernelErr.v): whenever the bit-exact result is
    finite, its value IS the value of the real-rounded kernel on the values of the operands.  With
    KernelErr.kernel_error_ieee this bounds the distance of every finite bit-exact kernel result
    from the exact dot product, and of two kernels from each other.                                *)

From Coq Require Import ZArith Reals List Bool Lra Lia.
From Flocq Require Import Core BinarySingleNaN.
From Rubato.Model Require Import Num Floats Reals Base Kernels.
From Rubato.Proofs Require Import KernelsR KernelErr.
Import ListNotations.
Local Open Scope R_scope.

Notation PREC := 53%Z (only parsing).
Notation EMAX := 1024%Z (only parsing).
Notation bfl := (binary_float PREC EMAX).
Notation SB := S64 (only parsing).
Notation fexpB := (SpecFloat.fexp PREC EMAX).
Notation rnB := (round radix2 fexpB ZnearestE).

Definition SEB : SNum CR := SE (fun a b => rnB (a + b)) (fun a b => rnB (a * b)) (fun a b c => rnB (a * b + c)).

(** finite result => value as computed over the reals *)
Definition sim (x : bfl) (r : R) : Prop := is_finite x = true -> B2R x = r.

Lemma overflow_not_finite (x : bfl) s : B2SF x = binary_overflow PREC EMAX mode_NE s -> is_finite x = true -> False.
Proof.
  intros E F. assert (H : is_finite_SF (B2SF x) = true) by (rewrite is_finite_SF_B2SF; exact F).
  rewrite E in H. unfold binary_overflow in H. cbn in H. discriminate H.
Qed.

Lemma plus_fin (a b : bfl) : is_finite (Bplus mode_NE a b) = true -> is_finite a = true /\ is_finite b = true.
Proof.
  destruct a as [sa|sa| |sa ma ea Ha], b as [sb|sb| |sb mb eb Hb]; intros H; try (split; reflexivity);
    exfalso; revert H; cbn; try discriminate; try (destruct sa, sb; cbn; discriminate).
Qed.

Lemma mult_fin (a b : bfl) : is_finite (Bmult mode_NE a b) = true -> is_finite a = true /\ is_finite b = true.
Proof.
  destruct a as [sa|sa| |sa ma ea Ha], b as [sb|sb| |sb mb eb Hb]; intros H; try (split; reflexivity);
    exfalso; revert H; cbn; discriminate.
Qed.

Lemma fma_fin (a b c : bfl) : is_finite (Bfma mode_NE a b c) = true ->
  is_finite a = true /\ is_finite b = true /\ is_finite c = true.
Proof.
  destruct a as [sa|sa| |sa ma ea Ha], b as [sb|sb| |sb mb eb Hb], c as [sc|sc| |sc mc ec Hc]; intros H;
    try (repeat split; reflexivity); exfalso; revert H; cbn; try discriminate;
    try (destruct sa, sb, sc; cbn; discriminate).
Qed.

Lemma sim_add a b ra rb : sim a ra -> sim b rb -> sim (Bplus mode_NE a b) (rnB (ra + rb)).
Proof.
  intros Ha Hb F. destruct (plus_fin a b F) as [Fa Fb].
  rewrite <- (Ha Fa), <- (Hb Fb).
  generalize (Bplus_correct PREC EMAX _ _ mode_NE a b Fa Fb). cbn [round_mode].
  case Rlt_bool_spec; intros _.
  - intros (E & _). exact E.
  - intros (E & _). exfalso. exact (overflow_not_finite _ _ E F).
Qed.

Lemma sim_mul a b ra rb : sim a ra -> sim b rb -> sim (Bmult mode_NE a b) (rnB (ra * rb)).
Proof.
  intros Ha Hb F. destruct (mult_fin a b F) as [Fa Fb].
  rewrite <- (Ha Fa), <- (Hb Fb).
  generalize (Bmult_correct PREC EMAX _ _ mode_NE a b). cbn [round_mode].
  case Rlt_bool_spec; intros _.
  - intros (E & _). exact E.
  - intros E. exfalso. exact (overflow_not_finite _ _ E F).
Qed.

Lemma sim_fma a b c ra rb rc : sim a ra -> sim b rb -> sim c rc -> sim (Bfma mode_NE a b c) (rnB (ra * rb + rc)).
Proof.
  intros Ha Hb Hc F. destruct (fma_fin a b c F) as (Fa & Fb & Fc).
  rewrite <- (Ha Fa), <- (Hb Fb), <- (Hc Fc).
  generalize (Bfma_correct PREC EMAX _ _ mode_NE a b c Fa Fb Fc). cbv zeta. cbn [round_mode].
  case Rlt_bool_spec; intros _.
  - intros (E & _). exact E.
  - intros E. exfalso. exact (overflow_not_finite _ _ E F).
Qed.

Lemma sim_mac fused a w s ra rw rs : sim a ra -> sim w rw -> sim s rs ->
  sim (@mac CB SB fused a w s) (@mac CR SEB fused ra rw rs).
Proof.
  intros Ha Hw Hs. unfold mac. destruct fused; cbn [sfma sadd smul S64 SEB SE].
  - apply sim_fma; assumption.
  - apply sim_add; [assumption|]. apply sim_mul; assumption.
Qed.

Lemma sim_mac_lanes fused : forall (acc w s : list bfl) (racc rw rs : list R),
  Forall2 sim acc racc -> Forall2 sim w rw -> Forall2 sim s rs ->
  Forall2 sim (@mac_lanes CB SB fused acc w s) (@mac_lanes CR SEB fused racc rw rs).
Proof.
  induction acc as [|a acc IH]; intros w s racc rw rs Ha Hw Hs.
  - inversion Ha; subst. cbn. constructor.
  - inversion Ha as [|? ra ? racc' Hsa Hra]; subst.
    destruct Hw as [|x rx w rw Hx Hw]; [cbn; exact Ha|].
    destruct Hs as [|y ry s rs Hy Hs]; [cbn; exact Ha|].
    cbn [mac_lanes]. constructor; [apply sim_mac; assumption|]. apply IH; assumption.
Qed.

Lemma Forall2_firstn {A B} (P : A -> B -> Prop) n : forall l l', Forall2 P l l' -> Forall2 P (firstn n l) (firstn n l').
Proof. induction n as [|n IH]; intros l l' H; [constructor|]. destruct H; cbn; constructor; auto. Qed.
Lemma Forall2_skipn {A B} (P : A -> B -> Prop) n : forall l l', Forall2 P l l' -> Forall2 P (skipn n l) (skipn n l').
Proof. induction n as [|n IH]; intros l l' H; [exact H|]. destruct H; cbn; [constructor|auto]. Qed.

Lemma sim_lanes_loop fused n : forall (acc w s : list bfl) (racc rw rs : list R),
  Forall2 sim acc racc -> Forall2 sim w rw -> Forall2 sim s rs ->
  Forall2 sim (@lanes_loop CB SB fused n acc w s) (@lanes_loop CR SEB fused n racc rw rs).
Proof.
  induction n as [|n IH]; intros acc w s racc rw rs Ha Hw Hs; cbn [lanes_loop]; [exact Ha|].
  apply IH.
  - apply sim_mac_lanes; [exact Ha|apply Forall2_firstn; exact Hw|apply Forall2_firstn; exact Hs].
  - apply Forall2_skipn; exact Hw.
  - apply Forall2_skipn; exact Hs.
Qed.

Lemma sim_lane (l : list bfl) (rl : list R) i : Forall2 sim l rl -> sim (@lane CB SB l i) (@lane CR SEB rl i).
Proof.
  unfold lane. intros H. revert i. induction H as [|x r l rl Hx H IH]; intros i.
  - destruct i; cbn; intros _; reflexivity.
  - destruct i; cbn; [exact Hx|apply IH].
Qed.

Lemma sim_reduce kind (l : list bfl) (rl : list R) : Forall2 sim l rl ->
  sim (@reduce CB SB kind l) (@reduce CR SEB kind rl).
Proof.
  intros H. unfold reduce. cbv zeta.
  assert (L := fun i => sim_lane l rl i H).
  destruct kind; cbn [sadd S64 SEB SE]; repeat (apply sim_add; try apply L).
Qed.

Lemma Forall2_map_B2R (l : list bfl) : Forall2 sim l (map B2R l).
Proof. induction l; cbn; constructor; [intros _; reflexivity|assumption]. Qed.

Lemma Forall2_repeat_zero n : Forall2 sim (repeat (B754_zero false : bfl) n) (repeat 0 n).
Proof. induction n; cbn; constructor; [intros _; reflexivity|assumption]. Qed.

(** the bit-exact kernel, when finite, is the real-rounded kernel on the operand values *)
Theorem kernel_sim kind (w s : list bfl) :
  is_finite (@kernel CB SB kind w s) = true ->
  B2R (@kernel CB SB kind w s) = @kernel CR SEB kind (map B2R w) (map B2R s).
Proof.
  intros F. unfold kernel in *. rewrite map_length.
  refine (sim_reduce kind _ _ _ F).
  apply sim_lanes_loop; [apply Forall2_repeat_zero|apply Forall2_map_B2R|apply Forall2_map_B2R].
Qed.

(** distance of a finite bit-exact kernel result from the exact dot product of the operand values *)
Theorem kernel_error_B kind (w s : list bfl) n :
  length w = (8 * n)%nat -> length s = (8 * n)%nat ->
  is_finite (@kernel CB SB kind w s) = true ->
  let uu := / 2 * bpow radix2 (- PREC + 1) in let ee := / 2 * bpow radix2 (3 - EMAX - PREC) in
  Rabs (B2R (@kernel CB SB kind w s) - dot (map B2R w) (map B2R s))
  <= ((1 + uu) ^ (2 * n + 7) - 1) * dot (map Rabs (map B2R w)) (map Rabs (map B2R s)) + INR (16 * n + 7) * (1 + uu) ^ (2 * n + 7) * ee.
Proof.
  intros Hw Hs F uu ee. rewrite (kernel_sim kind w s F).
  apply (kernel_error_ieee (3 - EMAX - PREC) PREC ltac:(lia) kind (map B2R w) (map B2R s) n); rewrite map_length; assumption.
Qed.

(** any two kernels on the same operands: finite results are within twice the bound of each other *)
Theorem kernels_close_B k1 k2 (w s : list bfl) n :
  length w = (8 * n)%nat -> length s = (8 * n)%nat ->
  is_finite (@kernel CB SB k1 w s) = true -> is_finite (@kernel CB SB k2 w s) = true ->
  let uu := / 2 * bpow radix2 (- PREC + 1) in let ee := / 2 * bpow radix2 (3 - EMAX - PREC) in
  Rabs (B2R (@kernel CB SB k1 w s) - B2R (@kernel CB SB k2 w s))
  <= 2 * (((1 + uu) ^ (2 * n + 7) - 1) * dot (map Rabs (map B2R w)) (map Rabs (map B2R s)) + INR (16 * n + 7) * (1 + uu) ^ (2 * n + 7) * ee).
Proof.
  intros Hw Hs F1 F2 uu ee. rewrite (kernel_sim k1 w s F1), (kernel_sim k2 w s F2).
  apply (kernels_close_ieee (3 - EMAX - PREC) PREC ltac:(lia) k1 k2 (map B2R w) (map B2R s) n); rewrite map_length; assumption.
Qed.
