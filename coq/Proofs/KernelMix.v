(** C17 at the level of one output sample of a sinc resampler: the binary32 kernel on binary32 operands against the
    binary64 kernel on binary64 operands.  If both results are finite they differ by at most the two rounding-error
    bounds of KernelSim32/64 plus the effect of the operand differences on the exact dot product.                    *)

From Coq Require Import ZArith Reals List Bool Lra Lia.
From Flocq Require Import Core BinarySingleNaN.
From Rubato.Model Require Import Num Floats Reals Base Kernels.
From Rubato.Proofs Require Import KernelsR KernelErr.
From Rubato.Proofs Require KernelSim64 KernelSim32.
Import ListNotations.
Local Open Scope R_scope.

(** sum of |a_i b_i - c_i d_i| *)
Fixpoint dot_diff (a b c d : list R) : R :=
  match a, b, c, d with
  | x :: a', y :: b', z :: c', t :: d' => Rabs (x * y - z * t) + dot_diff a' b' c' d'
  | _, _, _, _ => 0
  end.

Lemma dot_diff_bound : forall (a b c d : list R),
  length a = length b -> length b = length c -> length c = length d ->
  Rabs (dot a b - dot c d) <= dot_diff a b c d.
Proof.
  induction a as [|x a IH]; intros b c d L1 L2 L3.
  - destruct b; [|discriminate]. destruct c; [|discriminate]. destruct d; [|discriminate]. cbn. rewrite Rminus_0_r, Rabs_R0. lra.
  - destruct b as [|y b]; [discriminate|]. destruct c as [|z c]; [discriminate|]. destruct d as [|t d]; [discriminate|].
    cbn [dot dot_diff].
    replace (x * y + dot a b - (z * t + dot c d)) with ((x * y - z * t) + (dot a b - dot c d)) by ring.
    eapply Rle_trans; [apply Rabs_triang|].
    assert (H := IH b c d ltac:(cbn in L1; lia) ltac:(cbn in L2; lia) ltac:(cbn in L3; lia)). lra.
Qed.

Definition E (u eta : R) (n : nat) (A : R) : R := ((1 + u) ^ (2 * n + 7) - 1) * A + INR (16 * n + 7) * (1 + u) ^ (2 * n + 7) * eta.

Theorem kernel_f32_f64_close k32 k64 (w32 s32 : list (binary_float 24 128)) (w64 s64 : list (binary_float 53 1024)) n :
  length w32 = (8 * n)%nat -> length s32 = (8 * n)%nat -> length w64 = (8 * n)%nat -> length s64 = (8 * n)%nat ->
  is_finite (@kernel CB S32 k32 w32 s32) = true -> is_finite (@kernel CB S64 k64 w64 s64) = true ->
  Rabs (B2R (@kernel CB S32 k32 w32 s32) - B2R (@kernel CB S64 k64 w64 s64))
  <= E (/ 2 * bpow radix2 (- 24 + 1)) (/ 2 * bpow radix2 (3 - 128 - 24)) n (dot (map Rabs (map B2R w32)) (map Rabs (map B2R s32)))
   + E (/ 2 * bpow radix2 (- 53 + 1)) (/ 2 * bpow radix2 (3 - 1024 - 53)) n (dot (map Rabs (map B2R w64)) (map Rabs (map B2R s64)))
   + dot_diff (map B2R w32) (map B2R s32) (map B2R w64) (map B2R s64).
Proof.
  intros L1 L2 L3 L4 F32 F64.
  assert (A := KernelSim32.kernel_error_B k32 w32 s32 n L1 L2 F32).
  assert (B := KernelSim64.kernel_error_B k64 w64 s64 n L3 L4 F64).
  cbv zeta in A, B.
  assert (M1 : length (map B2R w32) = (8 * n)%nat) by (rewrite map_length; exact L1).
  assert (M2 : length (map B2R s32) = (8 * n)%nat) by (rewrite map_length; exact L2).
  assert (M3 : length (map B2R w64) = (8 * n)%nat) by (rewrite map_length; exact L3).
  assert (M4 : length (map B2R s64) = (8 * n)%nat) by (rewrite map_length; exact L4).
  assert (C := dot_diff_bound (map B2R w32) (map B2R s32) (map B2R w64) (map B2R s64)
                 ltac:(congruence) ltac:(congruence) ltac:(congruence)).
  unfold E.
  set (x := B2R (@kernel CB S32 k32 w32 s32)) in *. set (y := B2R (@kernel CB S64 k64 w64 s64)) in *.
  set (d1 := dot (map B2R w32) (map B2R s32)) in *. set (d2 := dot (map B2R w64) (map B2R s64)) in *.
  replace (x - y) with ((x - d1) + (d1 - d2) + (d2 - y)) by ring.
  eapply Rle_trans; [apply Rabs_triang|]. eapply Rle_trans; [apply Rplus_le_compat_r; apply Rabs_triang|].
  rewrite (Rabs_minus_sym d2 y).
  match goal with |- _ <= ?a + ?b + ?c => replace (a + b + c) with (a + c + b) by ring end.
  apply Rplus_le_compat; [apply Rplus_le_compat; [exact A|exact C]|exact B].
Qed.
