(** The constructor of SincFixedIn establishes the invariant of the constant-ratio theorems. *)

From Coq Require Import ZArith Reals List Bool Lra Lia.
From Flocq Require Import Core.
From Rubato.Model Require Import Num Reals Base Validate Async Fft Resamplers.
From Rubato.Gen Require Import SincGen.
From Rubato.Proofs Require Import ShapeP EngineP FastInR FastCtorR SincInR.
Import ListNotations.
Local Open Scope R_scope.

Lemma validate_sinc_R ratio maxrel :
  @validate_ratios_sinc CR ratio maxrel = None -> 0 < ratio /\ 1 <= maxrel.
Proof.
  unfold validate_ratios_sinc, sinc_validate_ratio_bad, sinc_validate_maxrel_bad.
  cbv [cltb cleb c_is_finite c_lit CR cnum].
  replace (0 / 1) with 0 by field. replace (1 / 1) with 1 by field.
  case Rlt_bool_spec; cbn [andb negb]; [|discriminate]. intros H1.
  case Rle_bool_spec; cbn [andb negb]; [|discriminate]. intros H2 _. split; assumption.
Qed.

Theorem si_ctor_wf_R ratio maxrel env ilen inbr chunk nch s :
  (1 <= chunk)%Z -> (0 <= nch)%Z -> (8 <= ilen)%Z -> nbr_ok (se_type env) inbr ->
  @sinc_in_new CR SR ratio maxrel env ilen inbr chunk nch = inr (RSincIn env s) ->
  si_wf env s /\ ratio = sratio s /\ sL s = ilen.
Proof.
  intros Hc Hn HL Hnb. unfold sinc_in_new.
  destruct (validate_ratios_sinc ratio maxrel) eqn:E; [discriminate|].
  destruct (validate_sinc_R _ _ E) as [Hr Hm].
  intros H; injection H as <-.
  cbv [set_SincFixedIn_max_relative_ratio set_SincFixedIn_target_ratio set_SincFixedIn_resample_ratio_original
       set_SincFixedIn_resample_ratio set_SincFixedIn_last_index set_SincFixedIn_chunk_size set_SincFixedIn_max_chunk_size
       set_SincFixedIn_nbr_channels set_SincFixedIn_current_buffer_fill set_SincFixedIn_interpolator_len
       set_SincFixedIn_interpolator_nbr_sincs default_SincFixedIn
       SincFixedIn_nbr_channels SincFixedIn_chunk_size SincFixedIn_max_chunk_size SincFixedIn_current_buffer_fill
       SincFixedIn_last_index SincFixedIn_resample_ratio SincFixedIn_resample_ratio_original SincFixedIn_target_ratio
       SincFixedIn_max_relative_ratio SincFixedIn_interpolator_len SincFixedIn_interpolator_nbr_sincs].
  split; [|split; reflexivity].
  constructor; unfold sC, sCmax, snch, sratio, sli, sL, snbr, sfill; cbn [as_ctl as_buf as_mask];
    cbn [SincFixedIn_nbr_channels SincFixedIn_chunk_size SincFixedIn_max_chunk_size SincFixedIn_current_buffer_fill
         SincFixedIn_last_index SincFixedIn_resample_ratio SincFixedIn_target_ratio
         SincFixedIn_interpolator_len SincFixedIn_interpolator_nbr_sincs].
  - lia.
  - exact Hn.
  - unfold chans. rewrite repeat_length. reflexivity.
  - unfold chans. rewrite repeat_length. reflexivity.
  - unfold chans, si_new_buffer_len.
    replace (chunk + 2 * ilen)%Z with (zlen (@zeros CR SR (chunk + 2 * ilen))) at 1 by (rewrite zlen_zeros; lia).
    exact (@all_len_repeat CR SR (@zeros CR SR (chunk + 2 * ilen)) (Z.to_nat nch)).
  - exact Hr.
  - reflexivity.
  - exact HL.
  - exact Hnb.
  - unfold si_new_fill. lia.
  - unfold si_new_last_index. cbv [copp c_of_Z CR cnum].
    assert (Hq : (4 <= ilen ÷ 2 <= ilen)%Z).
    { split; [apply Z.quot_le_lower_bound; lia | apply Z.quot_le_upper_bound; lia]. }
    assert (4 <= IZR (ilen ÷ 2) <= IZR ilen) by (split; [change 4 with (IZR 4)|]; apply IZR_le; lia).
    assert (0 < / ratio) by (apply Rinv_0_lt_compat; exact Hr).
    rewrite plus_IZR. generalize (Zceil_ub (/ ratio)). change (IZR 1) with 1. lra.
Qed.

(** The constructor of SincFixedOut establishes the invariant (interpolator length even, as every
    interpolator of the crate provides: lengths are multiples of 8). *)
From Rubato.Proofs Require Import SincOutR.

Theorem so_ctor_wfe_R ratio maxrel env ilen inbr chunk nch s :
  (1 <= chunk)%Z -> (0 <= nch)%Z -> (8 <= ilen)%Z -> (ilen mod 2 = 0)%Z -> nbr_ok (se_type env) inbr ->
  @sinc_out_new CR SR ratio maxrel env ilen inbr chunk nch = inr (RSincOut env s) ->
  exists blen, so_wfe env blen s /\ ratio = uratio s /\ uL s = ilen.
Proof.
  intros Hc Hn HL Hev Hnb. unfold sinc_out_new.
  destruct (validate_ratios_sinc ratio maxrel) eqn:E; [discriminate|].
  destruct (validate_sinc_R _ _ E) as [Hr Hm].
  cbv zeta.
  remember (@so_new_needed_input_size CR chunk ilen ratio) as N0 eqn:EN0.
  remember (@so_new_buffer_channel_length CR ilen maxrel N0) as B eqn:EB.
  intros H; injection H as <-.
  exists B. split; [|split; reflexivity].
  assert (Ht : 0 < / ratio) by (apply Rinv_0_lt_compat; exact Hr).
  assert (HC1 : 1 <= IZR chunk) by (apply IZR_le; lia).
  assert (Hx : 0 < IZR chunk * / ratio) by nra.
  assert (Hz : (0 <= Zceil (IZR chunk * / ratio))%Z).
  { assert (-1 < Zceil (IZR chunk * / ratio))%Z; [|lia]. apply lt_IZR.
    generalize (Zceil_ub (IZR chunk * / ratio)). change (IZR (-1)) with (-1). lra. }
  assert (Hq : (ilen = 2 * (ilen ÷ 2))%Z).
  { rewrite Z.quot_div_nonneg by lia. rewrite (Z.div_mod ilen 2) at 1 by lia. lia. }
  assert (HN0 : N0 = (Zceil (IZR chunk * / ratio) + ilen ÷ 2)%Z).
  { rewrite EN0. unfold so_new_needed_input_size. cbv [c_to_usize cceil cdiv c_of_Z CR cnum].
    rewrite Ztrunc_IZR_id. unfold Rdiv. rewrite Z.max_r by exact Hz. reflexivity. }
  assert (HB : (2 * N0 + 2 * ilen <= B)%Z).
  { rewrite EB. unfold so_new_buffer_channel_length. cbv [c_to_usize cmul cadd c_of_Z c_lit CR cnum].
    assert (H0 : 0 <= IZR N0) by (apply IZR_le; lia).
    assert (Hy : IZR (2 * N0) <= (maxrel + 1 / 1) * IZR N0) by (rewrite mult_IZR; replace (1 / 1) with 1 by field; change (IZR 2) with 2; nra).
    rewrite Ztrunc_floor by (rewrite mult_IZR in Hy; change (IZR 2) with 2 in Hy; lra).
    assert (2 * N0 <= Zfloor ((maxrel + 1 / 1) * IZR N0))%Z by (apply Zfloor_lub; exact Hy). lia. }
  assert (HBcap : forall r2, ratio / maxrel <= r2 -> 0 < r2 /\ (Zceil (IZR chunk * / r2) + 3 * ilen <= B)%Z).
  { intros r2 H2. assert (Hqq : 0 < ratio / maxrel) by (apply Rdiv_lt_0_compat; lra).
    assert (Hr2 : 0 < r2) by lra. split; [exact Hr2|].
    assert (Hinv : / r2 <= maxrel * / ratio).
    { replace (maxrel * / ratio) with (/ (ratio / maxrel)) by (field; lra). apply Rinv_le_contravar; assumption. }
    assert (Hx2 : IZR chunk * / r2 <= maxrel * (IZR chunk * / ratio)) by nra.
    assert (Hh4 : 4 <= IZR (ilen ÷ 2)) by (change 4 with (IZR 4); apply IZR_le; lia).
    assert (HLh : IZR ilen = 2 * IZR (ilen ÷ 2)) by (rewrite Hq at 1; rewrite mult_IZR; reflexivity).
    assert (Hn0 : IZR chunk * / ratio <= IZR N0 - IZR (ilen ÷ 2)).
    { rewrite HN0, plus_IZR. generalize (Zceil_ub (IZR chunk * / ratio)). lra. }
    assert (Hx1 : 1 <= IZR N0 - IZR (ilen ÷ 2)).
    { rewrite HN0, plus_IZR. assert (1 <= IZR (Zceil (IZR chunk * / ratio))); [|lra].
      apply IZR_le. assert (0 < Zceil (IZR chunk * / ratio))%Z; [|lia]. apply lt_IZR.
      generalize (Zceil_ub (IZR chunk * / ratio)). change (IZR 0) with 0. lra. }
    rewrite EB. unfold so_new_buffer_channel_length. cbv [c_to_usize cmul cadd c_of_Z c_lit CR cnum].
    replace (1 / 1) with 1 by field.
    assert (Hbig : IZR chunk * / r2 + IZR ilen + 1 <= (maxrel + 1) * IZR N0) by nra.
    rewrite Ztrunc_floor by nra. rewrite Z.max_r by (apply Zfloor_lub; change (IZR 0) with 0; nra).
    assert (Hcc : (Zceil (IZR chunk * / r2) + ilen <= Zfloor ((maxrel + 1) * IZR N0))%Z).
    { apply Zfloor_lub. rewrite plus_IZR. generalize (Zceil_lb (IZR chunk * / r2)). lra. }
    lia. }
  clear EN0 EB.
  cbv [set_SincFixedOut_max_relative_ratio set_SincFixedOut_target_ratio set_SincFixedOut_resample_ratio_original
       set_SincFixedOut_resample_ratio set_SincFixedOut_last_index set_SincFixedOut_chunk_size set_SincFixedOut_max_chunk_size
       set_SincFixedOut_nbr_channels set_SincFixedOut_current_buffer_fill set_SincFixedOut_needed_input_size
       set_SincFixedOut_interpolator_len set_SincFixedOut_interpolator_nbr_sincs default_SincFixedOut
       SincFixedOut_nbr_channels SincFixedOut_chunk_size SincFixedOut_max_chunk_size SincFixedOut_needed_input_size
       SincFixedOut_last_index SincFixedOut_current_buffer_fill SincFixedOut_resample_ratio SincFixedOut_resample_ratio_original
       SincFixedOut_target_ratio SincFixedOut_max_relative_ratio SincFixedOut_interpolator_len SincFixedOut_interpolator_nbr_sincs].
  assert (Hq4 : (4 <= ilen ÷ 2)%Z) by lia.
  assert (HqR : 4 <= IZR (ilen ÷ 2)) by (change 4 with (IZR 4); apply IZR_le; exact Hq4).
  assert (HLR : IZR ilen = 2 * IZR (ilen ÷ 2)) by (rewrite Hq at 1; rewrite mult_IZR; reflexivity).
  constructor.
  { constructor; unfold uC, uCmax, unch, uratio, uli, uL, unbr, ufill, uneeded; cbn [as_ctl as_buf as_mask];
      cbn [SincFixedOut_nbr_channels SincFixedOut_chunk_size SincFixedOut_max_chunk_size SincFixedOut_needed_input_size
           SincFixedOut_last_index SincFixedOut_current_buffer_fill SincFixedOut_resample_ratio SincFixedOut_target_ratio
           SincFixedOut_interpolator_len SincFixedOut_interpolator_nbr_sincs].
    - lia.
    - exact Hn.
    - unfold chans. rewrite repeat_length. reflexivity.
    - unfold chans. rewrite repeat_length. reflexivity.
    - unfold chans.
      replace B with (zlen (@zeros CR SR B)) at 1 by (rewrite zlen_zeros; lia).
      exact (@all_len_repeat CR SR (@zeros CR SR B) (Z.to_nat nch)).
    - exact Hr.
    - reflexivity.
    - exact HL.
    - exact Hnb.
    - unfold so_new_last_index. cbv [copp c_of_Z CR cnum]. lra.
    - unfold so_new_last_index. cbv [copp c_of_Z CR cnum].
      replace (- IZR (ilen ÷ 2) + IZR chunk * / ratio + IZR ilen) with (IZR chunk * / ratio + IZR (ilen ÷ 2)) by lra.
      rewrite Zceil_plus_Z. exact HN0.
    - lia.
    - lia. }
  intros r2 Ha. cbn [as_ctl] in Ha. unfold so_set_ratio_accept in Ha.
  cbn [SincFixedOut_resample_ratio_original SincFixedOut_max_relative_ratio] in Ha. cbv [cleb cdiv cmul CR cnum] in Ha.
  apply andb_true_iff in Ha. destruct Ha as [Ha _]. revert Ha. case Rle_bool_spec; [|discriminate]. intros Ha _.
  unfold uCmax, uL. cbn [as_ctl SincFixedOut_max_chunk_size SincFixedOut_interpolator_len]. apply HBcap. exact Ha.
Qed.

Corollary so_ctor_wf_R ratio maxrel env ilen inbr chunk nch s :
  (1 <= chunk)%Z -> (0 <= nch)%Z -> (8 <= ilen)%Z -> (ilen mod 2 = 0)%Z -> nbr_ok (se_type env) inbr ->
  @sinc_out_new CR SR ratio maxrel env ilen inbr chunk nch = inr (RSincOut env s) ->
  exists blen, so_wf env blen s /\ ratio = uratio s /\ uL s = ilen.
Proof.
  intros Hc Hn HL Hev Hnb H. destruct (so_ctor_wfe_R ratio maxrel env ilen inbr chunk nch s Hc Hn HL Hev Hnb H) as (blen & [W _] & E).
  exists blen. split; assumption.
Qed.
