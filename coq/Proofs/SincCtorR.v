(** The constructor of SincFixedIn establishes the invariant of the constant-ratio theorems. *)

From Coq Require Import ZArith Reals List Bool Lra Lia.
From Flocq Require Import Core.
From Rubato.Model Require Import Num Reals Base Validate Async Fft Resamplers.
From Rubato.Gen Require Import SincGen.
From Rubato.Proofs Require Import ShapeP EngineP FastInR FastCtorR SincInR.
Import ListNotations.
Local Open Scope R_scope.

Lemma validate_sinc_R ratio maxrel :
  @validate_ratios_sinc CR ratio maxrel = None -> 0 < ratio /\ 1 <= maxrel.
Proof.
  unfold validate_ratios_sinc, sinc_validate_ratio_bad, sinc_validate_maxrel_bad.
  cbv [cltb cleb c_is_finite c_lit CR cnum].
  replace (0 / 1) with 0 by field. replace (1 / 1) with 1 by field.
  case Rlt_bool_spec; cbn [andb negb]; [|discriminate]. intros H1.
  case Rle_bool_spec; cbn [andb negb]; [|discriminate]. intros H2 _. split; assumption.
Qed.

Theorem si_ctor_wf_R ratio maxrel env ilen inbr chunk nch s :
  (1 <= chunk)%Z -> (0 <= nch)%Z -> (8 <= ilen)%Z -> nbr_ok (se_type env) inbr ->
  @sinc_in_new CR SR ratio maxrel env ilen inbr chunk nch = inr (RSincIn env s) ->
  si_wf env s /\ ratio = sratio s /\ sL s = ilen.
Proof.
  intros Hc Hn HL Hnb. unfold sinc_in_new.
  destruct (validate_ratios_sinc ratio maxrel) eqn:E; [discriminate|].
  destruct (validate_sinc_R _ _ E) as [Hr Hm].
  intros H; injection H as <-.
  cbv [set_SincFixedIn_max_relative_ratio set_SincFixedIn_target_ratio set_SincFixedIn_resample_ratio_original
       set_SincFixedIn_resample_ratio set_SincFixedIn_last_index set_SincFixedIn_chunk_size set_SincFixedIn_max_chunk_size
       set_SincFixedIn_nbr_channels set_SincFixedIn_current_buffer_fill set_SincFixedIn_interpolator_len
       set_SincFixedIn_interpolator_nbr_sincs default_SincFixedIn
       SincFixedIn_nbr_channels SincFixedIn_chunk_size SincFixedIn_max_chunk_size SincFixedIn_current_buffer_fill
       SincFixedIn_last_index SincFixedIn_resample_ratio SincFixedIn_resample_ratio_original SincFixedIn_target_ratio
       SincFixedIn_max_relative_ratio SincFixedIn_interpolator_len SincFixedIn_interpolator_nbr_sincs].
  split; [|split; reflexivity].
  constructor; unfold sC, sCmax, snch, sratio, sli, sL, snbr, sfill; cbn [as_ctl as_buf as_mask];
    cbn [SincFixedIn_nbr_channels SincFixedIn_chunk_size SincFixedIn_max_chunk_size SincFixedIn_current_buffer_fill
         SincFixedIn_last_index SincFixedIn_resample_ratio SincFixedIn_target_ratio
         SincFixedIn_interpolator_len SincFixedIn_interpolator_nbr_sincs].
  - lia.
  - exact Hn.
  - unfold chans. rewrite repeat_length. reflexivity.
  - unfold chans. rewrite repeat_length. reflexivity.
  - unfold chans, si_new_buffer_len.
    replace (chunk + 2 * ilen)%Z with (zlen (@zeros CR SR (chunk + 2 * ilen))) at 1 by (rewrite zlen_zeros; lia).
    exact (@all_len_repeat CR SR (@zeros CR SR (chunk + 2 * ilen)) (Z.to_nat nch)).
  - exact Hr.
  - reflexivity.
  - exact HL.
  - exact Hnb.
  - unfold si_new_fill. lia.
  - unfold si_new_last_index. cbv [copp c_of_Z CR cnum].
    assert (Hq : (4 <= ilen ÷ 2 <= ilen)%Z).
    { split; [apply Z.quot_le_lower_bound; lia | apply Z.quot_le_upper_bound; lia]. }
    assert (4 <= IZR (ilen ÷ 2) <= IZR ilen) by (split; [change 4 with (IZR 4)|]; apply IZR_le; lia).
    assert (0 < / ratio) by (apply Rinv_0_lt_compat; exact Hr).
    rewrite plus_IZR. generalize (Zceil_ub (/ ratio)). change (IZR 1) with 1. lra.
Qed.
