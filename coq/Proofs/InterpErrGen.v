(** C08: the classical interpolation error bound for the *generated* polynomial
    interpolators of Gen/FastGen.v (ideal arithmetic), for every function with a
    chain of derivatives, and for sinusoids in particular.                        *)

From Coq Require Import ZArith Reals List Lra Lia.
From Coquelicot Require Import Coquelicot.
From Rubato.Model Require Import Num Reals.
From Rubato.Gen Require Import FastGen.
From Rubato.Proofs Require Import PolyExact InterpErr.
Import ListNotations.
Local Open Scope R_scope.

Lemma W0_fold l s : W l 0 s = fold_right (fun a acc => (s - a) * acc) 1 l.
Proof. induction l as [|a l IH]; [reflexivity|]. rewrite W0_prod, IH. reflexivity. Qed.

Ltac lagr_norm := cbn [lagr app]; rewrite ?W0_fold; cbn [fold_right].

(** the generated interpolators are the Lagrange form on their nodes *)
Lemma lin_lagr s y0 y1 :
  @fast_interp_lin CR SR s [y0; y1] = lagr [] [0; 1] [y0; y1] 0 s.
Proof. lagr_norm. unfold fast_interp_lin. unfold_num. field. Qed.

Lemma cubic_lagr s y0 y1 y2 y3 :
  @fast_interp_cubic CR SR s [y0; y1; y2; y3] = lagr [] [-1; 0; 1; 2] [y0; y1; y2; y3] 0 s.
Proof. lagr_norm. unfold fast_interp_cubic. unfold_num. field. Qed.

Lemma quintic_lagr s y0 y1 y2 y3 y4 y5 :
  @fast_interp_quintic CR SR s [y0; y1; y2; y3; y4; y5] =
  lagr [] [-2; -1; 0; 1; 2; 3] [y0; y1; y2; y3; y4; y5] 0 s.
Proof. lagr_norm. unfold fast_interp_quintic. unfold_num. field. Qed.

Lemma septic_lagr s y0 y1 y2 y3 y4 y5 y6 y7 :
  @fast_interp_septic CR SR s [y0; y1; y2; y3; y4; y5; y6; y7] =
  lagr [] [-3; -2; -1; 0; 1; 2; 3; 4] [y0; y1; y2; y3; y4; y5; y6; y7] 0 s.
Proof. lagr_norm. unfold fast_interp_septic. unfold_num. field. Qed.

Ltac nonzero_prod := rewrite W0_fold; cbn [fold_right app];
  repeat (apply Rmult_integral_contrapositive_currified; [lra|]); lra.

Section AnyFunction.
Variables (F : nat -> R -> R) (M : R).
Hypothesis HF : chain F.

(** *** linear, nodes 0 1 *)
Theorem lin_error x : (forall xi, Rabs (F 2 xi) <= M) -> 0 <= x <= 1 ->
  Rabs (@fast_interp_lin CR SR x [F 0%nat 0; F 0%nat 1] - F 0%nat x)
  <= M / INR (fact 2) * Rabs (x * (x - 1)).
Proof.
  intros HM Hx.
  assert (HM0 : 0 <= M) by (eapply Rle_trans; [apply Rabs_pos|apply (HM 0)]).
  assert (Hpos : 0 <= M / INR (fact 2) * Rabs (x * (x - 1))).
  { apply Rmult_le_pos; [|apply Rabs_pos]. apply Rmult_le_pos; [exact HM0|]. left. apply Rinv_0_lt_compat. apply INR_fact_lt_0. }
  destruct (Req_dec x 0) as [->|Hx0].
  { replace (@fast_interp_lin CR SR 0 [F 0%nat 0; F 0%nat 1] - F 0%nat 0) with 0 by (unfold fast_interp_lin; unfold_num; ring).
    rewrite Rabs_R0. exact Hpos. }
  destruct (Req_dec x 1) as [->|Hx1].
  { replace (@fast_interp_lin CR SR 1 [F 0%nat 0; F 0%nat 1] - F 0%nat 1) with 0 by (unfold fast_interp_lin; unfold_num; ring).
    rewrite Rabs_R0. exact Hpos. }
  rewrite lin_lagr.
  replace (x * (x - 1)) with (W ([0] ++ [1]) 0 x) by (rewrite W0_fold; cbn [fold_right app]; ring).
  apply (error_bound F (lagr [] [0; 1] [F 0%nat 0; F 0%nat 1]) [0] [1] x M HF (lagr_chain _ _ _)) with (z0 := 0) (rest := [x; 1]).
  - intros s. apply lagr_high. cbn. lia.
  - intros a [<-|[<-|[]]]; lagr_norm; field.
  - nonzero_prod.
  - exact HM.
  - reflexivity.
  - cbn. lra.
Qed.

(** *** cubic, nodes -1 .. 2 *)
Theorem cubic_error x : (forall xi, Rabs (F 4 xi) <= M) -> 0 <= x <= 1 ->
  Rabs (@fast_interp_cubic CR SR x [F 0%nat (-1); F 0%nat 0; F 0%nat 1; F 0%nat 2] - F 0%nat x)
  <= M / INR (fact 4) * Rabs ((x + 1) * x * (x - 1) * (x - 2)).
Proof.
  intros HM Hx.
  assert (HM0 : 0 <= M) by (eapply Rle_trans; [apply Rabs_pos|apply (HM 0)]).
  assert (Hpos : 0 <= M / INR (fact 4) * Rabs ((x + 1) * x * (x - 1) * (x - 2))).
  { apply Rmult_le_pos; [|apply Rabs_pos]. apply Rmult_le_pos; [exact HM0|]. left. apply Rinv_0_lt_compat. apply INR_fact_lt_0. }
  destruct (Req_dec x 0) as [->|Hx0].
  { match goal with |- Rabs ?e <= _ => replace e with 0 by (unfold fast_interp_cubic; unfold_num; field) end.
    rewrite Rabs_R0. exact Hpos. }
  destruct (Req_dec x 1) as [->|Hx1].
  { match goal with |- Rabs ?e <= _ => replace e with 0 by (unfold fast_interp_cubic; unfold_num; field) end.
    rewrite Rabs_R0. exact Hpos. }
  rewrite cubic_lagr.
  replace ((x + 1) * x * (x - 1) * (x - 2)) with (W ([-1; 0] ++ [1; 2]) 0 x) by (rewrite W0_fold; cbn [fold_right app]; ring).
  apply (error_bound F (lagr [] [-1; 0; 1; 2] [F 0%nat (-1); F 0%nat 0; F 0%nat 1; F 0%nat 2]) [-1; 0] [1; 2] x M HF (lagr_chain _ _ _))
    with (z0 := -1) (rest := [0; x; 1; 2]).
  - intros s. apply lagr_high. cbn. lia.
  - intros a [<-|[<-|[<-|[<-|[]]]]]; lagr_norm; field.
  - nonzero_prod.
  - exact HM.
  - reflexivity.
  - cbn. lra.
Qed.

(** *** quintic, nodes -2 .. 3 *)
Theorem quintic_error x : (forall xi, Rabs (F 6 xi) <= M) -> 0 <= x <= 1 ->
  Rabs (@fast_interp_quintic CR SR x [F 0%nat (-2); F 0%nat (-1); F 0%nat 0; F 0%nat 1; F 0%nat 2; F 0%nat 3] - F 0%nat x)
  <= M / INR (fact 6) * Rabs ((x + 2) * (x + 1) * x * (x - 1) * (x - 2) * (x - 3)).
Proof.
  intros HM Hx.
  assert (HM0 : 0 <= M) by (eapply Rle_trans; [apply Rabs_pos|apply (HM 0)]).
  assert (Hpos : 0 <= M / INR (fact 6) * Rabs ((x + 2) * (x + 1) * x * (x - 1) * (x - 2) * (x - 3))).
  { apply Rmult_le_pos; [|apply Rabs_pos]. apply Rmult_le_pos; [exact HM0|]. left. apply Rinv_0_lt_compat. apply INR_fact_lt_0. }
  destruct (Req_dec x 0) as [->|Hx0].
  { match goal with |- Rabs ?e <= _ => replace e with 0 by (unfold fast_interp_quintic; unfold_num; field) end.
    rewrite Rabs_R0. exact Hpos. }
  destruct (Req_dec x 1) as [->|Hx1].
  { match goal with |- Rabs ?e <= _ => replace e with 0 by (unfold fast_interp_quintic; unfold_num; field) end.
    rewrite Rabs_R0. exact Hpos. }
  rewrite quintic_lagr.
  replace ((x + 2) * (x + 1) * x * (x - 1) * (x - 2) * (x - 3)) with (W ([-2; -1; 0] ++ [1; 2; 3]) 0 x)
    by (rewrite W0_fold; cbn [fold_right app]; ring).
  apply (error_bound F (lagr [] [-2; -1; 0; 1; 2; 3] [F 0%nat (-2); F 0%nat (-1); F 0%nat 0; F 0%nat 1; F 0%nat 2; F 0%nat 3])
           [-2; -1; 0] [1; 2; 3] x M HF (lagr_chain _ _ _))
    with (z0 := -2) (rest := [-1; 0; x; 1; 2; 3]).
  - intros s. apply lagr_high. cbn. lia.
  - intros a [<-|[<-|[<-|[<-|[<-|[<-|[]]]]]]]; lagr_norm; field.
  - nonzero_prod.
  - exact HM.
  - reflexivity.
  - cbn. lra.
Qed.

(** *** septic, nodes -3 .. 4 *)
Theorem septic_error x : (forall xi, Rabs (F 8 xi) <= M) -> 0 <= x <= 1 ->
  Rabs (@fast_interp_septic CR SR x [F 0%nat (-3); F 0%nat (-2); F 0%nat (-1); F 0%nat 0; F 0%nat 1; F 0%nat 2; F 0%nat 3; F 0%nat 4] - F 0%nat x)
  <= M / INR (fact 8) * Rabs ((x + 3) * (x + 2) * (x + 1) * x * (x - 1) * (x - 2) * (x - 3) * (x - 4)).
Proof.
  intros HM Hx.
  assert (HM0 : 0 <= M) by (eapply Rle_trans; [apply Rabs_pos|apply (HM 0)]).
  assert (Hpos : 0 <= M / INR (fact 8) * Rabs ((x + 3) * (x + 2) * (x + 1) * x * (x - 1) * (x - 2) * (x - 3) * (x - 4))).
  { apply Rmult_le_pos; [|apply Rabs_pos]. apply Rmult_le_pos; [exact HM0|]. left. apply Rinv_0_lt_compat. apply INR_fact_lt_0. }
  destruct (Req_dec x 0) as [->|Hx0].
  { match goal with |- Rabs ?e <= _ => replace e with 0 by (unfold fast_interp_septic; unfold_num; field) end.
    rewrite Rabs_R0. exact Hpos. }
  destruct (Req_dec x 1) as [->|Hx1].
  { match goal with |- Rabs ?e <= _ => replace e with 0 by (unfold fast_interp_septic; unfold_num; field) end.
    rewrite Rabs_R0. exact Hpos. }
  rewrite septic_lagr.
  replace ((x + 3) * (x + 2) * (x + 1) * x * (x - 1) * (x - 2) * (x - 3) * (x - 4))
    with (W ([-3; -2; -1; 0] ++ [1; 2; 3; 4]) 0 x) by (rewrite W0_fold; cbn [fold_right app]; ring).
  apply (error_bound F (lagr [] [-3; -2; -1; 0; 1; 2; 3; 4]
                          [F 0%nat (-3); F 0%nat (-2); F 0%nat (-1); F 0%nat 0; F 0%nat 1; F 0%nat 2; F 0%nat 3; F 0%nat 4])
           [-3; -2; -1; 0] [1; 2; 3; 4] x M HF (lagr_chain _ _ _))
    with (z0 := -3) (rest := [-2; -1; 0; x; 1; 2; 3; 4]).
  - intros s. apply lagr_high. cbn. lia.
  - intros a [<-|[<-|[<-|[<-|[<-|[<-|[<-|[<-|[]]]]]]]]]; lagr_norm; field.
  - nonzero_prod.
  - exact HM.
  - reflexivity.
  - cbn. lra.
Qed.
End AnyFunction.

(** ** maxima of the node polynomials on [0,1] *)
Lemma pair_bound k x : 0 <= k -> 0 <= x <= 1 -> 0 <= (x + k) * (k + 1 - x) <= (k + 1/2) * (k + 1/2).
Proof. intros Hk Hx. split; [apply Rmult_le_pos; lra|].
  assert (H : (k + 1/2) * (k + 1/2) - (x + k) * (k + 1 - x) = (x - 1/2) * (x - 1/2)) by field.
  assert (H0 : 0 <= (x - 1/2) * (x - 1/2)) by (fold (Rsqr (x - 1/2)); apply Rle_0_sqr). lra. Qed.

Lemma w2_max x : 0 <= x <= 1 -> Rabs (x * (x - 1)) <= 1/4.
Proof. intros Hx. replace (x * (x - 1)) with (- ((x + 0) * (0 + 1 - x))) by ring. rewrite Rabs_Ropp.
  destruct (pair_bound 0 x ltac:(lra) Hx) as [H1 H2]. rewrite Rabs_pos_eq by exact H1. lra. Qed.

Lemma w4_max x : 0 <= x <= 1 -> Rabs ((x + 1) * x * (x - 1) * (x - 2)) <= 9/16.
Proof. intros Hx.
  replace ((x + 1) * x * (x - 1) * (x - 2)) with (((x + 0) * (0 + 1 - x)) * ((x + 1) * (1 + 1 - x))) by ring.
  destruct (pair_bound 0 x ltac:(lra) Hx) as [A1 A2]. destruct (pair_bound 1 x ltac:(lra) Hx) as [B1 B2].
  rewrite Rabs_pos_eq by (apply Rmult_le_pos; assumption).
  replace (9/16) with ((0 + 1/2) * (0 + 1/2) * ((1 + 1/2) * (1 + 1/2))) by field.
  apply Rmult_le_compat; assumption. Qed.

Lemma w6_max x : 0 <= x <= 1 -> Rabs ((x + 2) * (x + 1) * x * (x - 1) * (x - 2) * (x - 3)) <= 225/64.
Proof. intros Hx.
  replace ((x + 2) * (x + 1) * x * (x - 1) * (x - 2) * (x - 3))
    with (- (((x + 0) * (0 + 1 - x)) * ((x + 1) * (1 + 1 - x)) * ((x + 2) * (2 + 1 - x)))) by ring.
  rewrite Rabs_Ropp.
  destruct (pair_bound 0 x ltac:(lra) Hx) as [A1 A2]. destruct (pair_bound 1 x ltac:(lra) Hx) as [B1 B2].
  destruct (pair_bound 2 x ltac:(lra) Hx) as [C1 C2].
  rewrite Rabs_pos_eq by (apply Rmult_le_pos; [apply Rmult_le_pos|]; assumption).
  replace (225/64) with ((0 + 1/2) * (0 + 1/2) * ((1 + 1/2) * (1 + 1/2)) * ((2 + 1/2) * (2 + 1/2))) by field.
  apply Rmult_le_compat; try assumption; [apply Rmult_le_pos; assumption|].
  apply Rmult_le_compat; assumption. Qed.

Lemma w8_max x : 0 <= x <= 1 ->
  Rabs ((x + 3) * (x + 2) * (x + 1) * x * (x - 1) * (x - 2) * (x - 3) * (x - 4)) <= 11025/256.
Proof. intros Hx.
  replace ((x + 3) * (x + 2) * (x + 1) * x * (x - 1) * (x - 2) * (x - 3) * (x - 4))
    with (((x + 0) * (0 + 1 - x)) * ((x + 1) * (1 + 1 - x)) * ((x + 2) * (2 + 1 - x)) * ((x + 3) * (3 + 1 - x))) by ring.
  destruct (pair_bound 0 x ltac:(lra) Hx) as [A1 A2]. destruct (pair_bound 1 x ltac:(lra) Hx) as [B1 B2].
  destruct (pair_bound 2 x ltac:(lra) Hx) as [C1 C2]. destruct (pair_bound 3 x ltac:(lra) Hx) as [D1 D2].
  rewrite Rabs_pos_eq by (apply Rmult_le_pos; [apply Rmult_le_pos; [apply Rmult_le_pos|]|]; assumption).
  replace (11025/256) with ((0 + 1/2) * (0 + 1/2) * ((1 + 1/2) * (1 + 1/2)) * ((2 + 1/2) * (2 + 1/2)) * ((3 + 1/2) * (3 + 1/2))) by field.
  apply Rmult_le_compat; try assumption; [apply Rmult_le_pos; [apply Rmult_le_pos|]; assumption|].
  apply Rmult_le_compat; try assumption; [apply Rmult_le_pos; assumption|].
  apply Rmult_le_compat; assumption. Qed.

(** ** sinusoids: amplitude A, angular frequency w per input sample, phase p *)
Section Sine.
Variables (A w p x : R).
Hypothesis Hw : 0 <= w.
Hypothesis Hx : 0 <= x <= 1.
Let f (t : R) := A * sin (w * t + p).

Lemma sine_scale n c b : 0 <= b -> Rabs c <= b ->
  Rabs A * w ^ n / INR (fact n) * Rabs c <= Rabs A * w ^ n * (b / INR (fact n)).
Proof.
  intros Hb Hc. unfold Rdiv. rewrite !Rmult_assoc. apply Rmult_le_compat_l; [apply Rabs_pos|].
  apply Rmult_le_compat_l; [apply pow_le; exact Hw|].
  rewrite (Rmult_comm b). apply Rmult_le_compat_l; [|exact Hc].
  left. apply Rinv_0_lt_compat. apply INR_fact_lt_0.
Qed.

Theorem lin_sine :
  Rabs (@fast_interp_lin CR SR x [f 0; f 1] - f x) <= Rabs A * w ^ 2 * (1 / 8).
Proof.
  unfold f. rewrite <- !sinF_0.
  eapply Rle_trans; [apply (lin_error (sinF A w p) (Rabs A * w ^ 2) (sinF_chain A w p) x); [|exact Hx]|].
  - intros xi. apply sinF_bound. exact Hw.
  - eapply Rle_trans; [apply (sine_scale 2 _ (1/4)); [lra|apply w2_max; exact Hx]|].
    apply Rmult_le_compat_l; [apply Rmult_le_pos; [apply Rabs_pos|apply pow_le; exact Hw]|].
    change (fact 2) with 2%nat. change (INR 2) with 2. lra.
Qed.

Theorem cubic_sine :
  Rabs (@fast_interp_cubic CR SR x [f (-1); f 0; f 1; f 2] - f x) <= Rabs A * w ^ 4 * (3 / 128).
Proof.
  unfold f. rewrite <- !sinF_0.
  eapply Rle_trans; [apply (cubic_error (sinF A w p) (Rabs A * w ^ 4) (sinF_chain A w p) x); [|exact Hx]|].
  - intros xi. apply sinF_bound. exact Hw.
  - eapply Rle_trans; [apply (sine_scale 4 _ (9/16)); [lra|apply w4_max; exact Hx]|].
    apply Rmult_le_compat_l; [apply Rmult_le_pos; [apply Rabs_pos|apply pow_le; exact Hw]|].
    replace (INR (fact 4)) with 24 by (rewrite INR_IZR_INZ; reflexivity). lra.
Qed.

Theorem quintic_sine :
  Rabs (@fast_interp_quintic CR SR x [f (-2); f (-1); f 0; f 1; f 2; f 3] - f x) <= Rabs A * w ^ 6 * (5 / 1024).
Proof.
  unfold f. rewrite <- !sinF_0.
  eapply Rle_trans; [apply (quintic_error (sinF A w p) (Rabs A * w ^ 6) (sinF_chain A w p) x); [|exact Hx]|].
  - intros xi. apply sinF_bound. exact Hw.
  - eapply Rle_trans; [apply (sine_scale 6 _ (225/64)); [lra|apply w6_max; exact Hx]|].
    apply Rmult_le_compat_l; [apply Rmult_le_pos; [apply Rabs_pos|apply pow_le; exact Hw]|].
    replace (INR (fact 6)) with 720 by (rewrite INR_IZR_INZ; reflexivity). lra.
Qed.

Theorem septic_sine :
  Rabs (@fast_interp_septic CR SR x [f (-3); f (-2); f (-1); f 0; f 1; f 2; f 3; f 4] - f x)
  <= Rabs A * w ^ 8 * (35 / 32768).
Proof.
  unfold f. rewrite <- !sinF_0.
  eapply Rle_trans; [apply (septic_error (sinF A w p) (Rabs A * w ^ 8) (sinF_chain A w p) x); [|exact Hx]|].
  - intros xi. apply sinF_bound. exact Hw.
  - eapply Rle_trans; [apply (sine_scale 8 _ (11025/256)); [lra|apply w8_max; exact Hx]|].
    apply Rmult_le_compat_l; [apply Rmult_le_pos; [apply Rabs_pos|apply pow_le; exact Hw]|].
    replace (INR (fact 8)) with 40320 by (rewrite INR_IZR_INZ; reflexivity). lra.
Qed.
End Sine.

(** the statement kept visible in Props/C08.v since the design, now proved *)
Theorem cubic_sine_unit (f x : R) : 0 <= f <= 1/2 -> 0 <= x < 1 ->
  Rabs (@fast_interp_cubic CR SR x (map (fun n => sin (2 * PI * f * n)) [-1; 0; 1; 2]) - sin (2 * PI * f * x))
  <= (2 * PI * f) ^ 4 * (3 / 128).
Proof.
  intros Hf Hx.
  assert (Hw : 0 <= 2 * PI * f) by (assert (H := PI_RGT_0); apply Rmult_le_pos; lra).
  assert (H := cubic_sine 1 (2 * PI * f) 0 x Hw ltac:(lra)).
  cbv beta in H. rewrite Rabs_R1 in H. rewrite !Rmult_1_l in H. rewrite !Rplus_0_r in H. cbn [map].
  exact H.
Qed.
