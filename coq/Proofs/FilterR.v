(** C01 / C02, the part that is logic (ideal arithmetic): which branch of the oversampled sinc table
    is selected for an instant t, which grid points the inter-branch interpolation uses and with
    which abscissa, and how the cutoff is scaled.  Together with the exactness of the generated
    inter-branch interpolators (PolyExact.v) and the dot-product theorem of the kernels (KernelsR.v)
    this reduces a sinc resampler to "Lagrange interpolation, on a grid of 1/factor input samples,
    of the outputs of a bank of FIR filters" -- the premise of the textbook error bounds of C01.
    The frequency responses themselves (transcendental window functions, dB thresholds) are
    measured on every run, not proved.                                                        *)

From Coq Require Import ZArith Reals List Bool Lra Lia.
From Flocq Require Import Core.
From Rubato.Model Require Import Num Reals Nearest.
From Rubato.Gen Require Import SincGen.
From Rubato.Proofs Require Import NearestR.
Import ListNotations.
Local Open Scope R_scope.

(** the instant (in input samples) represented by a point (index, subindex) of the grid *)
Definition pt_time (n : Z) (p : Z * Z) : R := IZR (fst p) + IZR (snd p) / IZR n.

(** the grid cell of t: g = floor(t) * n + floor(frac(t) * n) *)
Definition cell (t : R) (n : Z) : Z := (Zfloor t * n + @nt_sub_floor CR t n)%Z.

Lemma nt_sub_floor_cell (t : R) (n : Z) : (1 <= n)%Z ->
  IZR (cell t n) <= t * IZR n < IZR (cell t n) + 1.
Proof.
  intros Hn. unfold cell, nt_sub_floor. cbn [c_to_isize cfloor cmul csub c_of_Z CR]. rewrite Ztrunc_IZR.
  set (x := t - IZR (Zfloor t)). set (f := Zfloor (x * IZR n)).
  rewrite plus_IZR, mult_IZR.
  generalize (Zfloor_lb (x * IZR n)) (Zfloor_ub (x * IZR n)). fold f. intros H1 H2.
  assert (E : t * IZR n = IZR (Zfloor t) * IZR n + x * IZR n) by (unfold x; ring).
  rewrite E. lra.
Qed.

Lemma cell_is_floor (t : R) (n : Z) : (1 <= n)%Z -> cell t n = Zfloor (t * IZR n).
Proof.
  intros Hn. symmetry. apply Zfloor_imp. rewrite plus_IZR. change (IZR 1) with 1. apply nt_sub_floor_cell. exact Hn.
Qed.

(** the abscissa handed to the inter-branch interpolators is the offset of t inside its cell *)
Lemma frac_is_offset (st : @SincFixedIn CR) (t : R) (n : Z) : (1 <= n)%Z ->
  @si_cubic_frac CR st t n = t * IZR n - IZR (cell t n) /\ 0 <= @si_cubic_frac CR st t n < 1.
Proof.
  intros Hn. unfold si_cubic_frac. cbn [csub cmul cfloor c_of_Z CR]. rewrite (cell_is_floor t n Hn).
  split; [reflexivity|]. generalize (Zfloor_lb (t * IZR n)) (Zfloor_ub (t * IZR n)). lra.
Qed.

(** a wrapped point still denotes the same grid index *)
Lemma nt_wrap_grid index sub n : (1 <= n)%Z -> (- n <= sub < 2 * n)%Z ->
  let p := nt_wrap index sub n in (fst p * n + snd p = index * n + sub)%Z /\ (0 <= snd p < n)%Z.
Proof.
  intros Hn Hs. unfold nt_wrap. cbv zeta.
  destruct (Z.ltb_spec sub 0) as [H0|H0]; cbn [fst snd].
  - split; [rewrite Z.mul_sub_distr_r; lia | lia].
  - destruct (Z.geb_spec sub n) as [H1|H1]; cbn [fst snd].
    + split; [rewrite Z.mul_add_distr_r; lia | lia].
    + split; lia.
Qed.

Definition on_grid (t : R) (n : Z) (off : Z) (pts : list (Z * Z)) : Prop :=
  forall k p, nth_error pts k = Some p ->
    (fst p * n + snd p = cell t n + Z.of_nat k - off)%Z /\ (0 <= snd p < n)%Z.

(** cubic: the four nodes are the grid points cell-1 .. cell+2 *)
Theorem nearest4_grid (t : R) n : (2 <= n)%Z -> on_grid t n 1 (@get_nearest_times_4 CR t n).
Proof.
  intros Hn. unfold get_nearest_times_4, on_grid, cell. rewrite nt_index_R.
  generalize (nt_sub_floor_R t n ltac:(lia)). intros Hf.
  set (sf := @nt_sub_floor CR t n) in *. clearbody sf.
  intros k p Hk. do 4 (destruct k as [|k]; [cbn [map nth_error] in Hk; injection Hk as <-;
    match goal with |- context [nt_wrap ?i ?s ?m] => destruct (nt_wrap_grid i s m ltac:(lia) ltac:(lia)) as [G1 G2] end;
    split; [rewrite G1; lia | exact G2]|]).
  destruct k; discriminate.
Qed.

(** quadratic: cell .. cell+2 *)
Theorem nearest3_grid (t : R) n : (2 <= n)%Z -> on_grid t n 0 (@get_nearest_times_3 CR t n).
Proof.
  intros Hn. unfold get_nearest_times_3, on_grid, cell. rewrite nt_index_R.
  generalize (nt_sub_floor_R t n ltac:(lia)). intros Hf.
  set (sf := @nt_sub_floor CR t n) in *. clearbody sf.
  intros k p Hk. do 3 (destruct k as [|k]; [cbn [map nth_error] in Hk; injection Hk as <-;
    match goal with |- context [nt_wrap ?i ?s ?m] => destruct (nt_wrap_grid i s m ltac:(lia) ltac:(lia)) as [G1 G2] end;
    split; [rewrite G1; lia | exact G2]|]).
  destruct k; discriminate.
Qed.

(** linear: cell, cell+1 *)
Theorem nearest2_grid (t : R) n : (1 <= n)%Z -> on_grid t n 0 (@get_nearest_times_2 CR t n).
Proof.
  intros Hn. unfold get_nearest_times_2, on_grid, cell. rewrite nt_index_R.
  generalize (nt_sub_floor_R t n Hn). intros Hf. cbv zeta.
  set (sf := @nt_sub_floor CR t n) in *. clearbody sf.
  intros k p Hk. destruct k as [|k]; [cbn [nth_error] in Hk; injection Hk as <-; cbn [fst snd]; lia|].
  destruct k as [|k]; [|destruct k; discriminate]. cbn [nth_error] in Hk. injection Hk as <-.
  destruct (Z.geb_spec (sf + 1) n); cbn [fst snd]; split; try lia; try (rewrite Z.mul_add_distr_r; lia).
Qed.

(** nearest: the selected branch represents an instant within half a grid step of t *)
Theorem nearest1_accurate (t : R) n : (1 <= n)%Z ->
  let p := @get_nearest_time CR t n in
  Rabs (pt_time n p - t) <= / (2 * IZR n) /\ (0 <= snd p < n)%Z.
Proof.
  intros Hn. unfold get_nearest_time. rewrite nt_index_R.
  generalize (nt_sub_round_R t n Hn). intros Hf.
  assert (Hn' : 1 <= IZR n) by (apply IZR_le; lia).
  assert (Hsub : Rabs (IZR (@nt_sub_round CR t n) - (t - IZR (Zfloor t)) * IZR n) <= / 2).
  { unfold nt_sub_round. cbn [c_to_isize cround cfloor cmul csub c_of_Z CR]. rewrite Ztrunc_IZR.
    rewrite Rabs_minus_sym. apply Znearest_half. }
  set (s := @nt_sub_round CR t n) in *.
  assert (Key : forall i s', (i * n + s' = Zfloor t * n + s)%Z -> Rabs (pt_time n (i, s') - t) <= / (2 * IZR n)).
  { intros i s' E. unfold pt_time. cbn [fst snd].
    replace (IZR i + IZR s' / IZR n - t) with ((IZR s - (t - IZR (Zfloor t)) * IZR n) / IZR n).
    - unfold Rdiv. rewrite Rabs_mult, (Rabs_pos_eq (/ IZR n)) by (apply Rlt_le, Rinv_0_lt_compat; lra).
      rewrite Rinv_mult. apply Rmult_le_compat_r; [apply Rlt_le, Rinv_0_lt_compat; lra | exact Hsub].
    - apply (f_equal IZR) in E. rewrite !plus_IZR, !mult_IZR in E.
      assert (E' : IZR s = IZR i * IZR n + IZR s' - IZR (Zfloor t) * IZR n) by lra.
      rewrite E'. field. lra. }
  cbv zeta. destruct (Z.geb_spec s n); cbn [snd]; (split; [apply Key; lia | lia]).
Qed.

(** the cutoff handed to the table generator: scaled by the ratio exactly when downsampling *)
Theorem mi_f_cutoff_R (fc r : R) : @mi_f_cutoff CR fc r = if Rle_bool 1 r then fc else fc * r.
Proof.
  unfold mi_f_cutoff. cbv [cleb c_lit mul32 to32 CR c32 cnum]. replace (1 / 1) with 1 by field. reflexivity.
Qed.
