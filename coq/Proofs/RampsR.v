(** C06 on the generated formulas (ideal arithmetic): how the four asynchronous types
    compute the spacing of the evaluation instants.                                  *)

From Coq Require Import ZArith Reals List Bool Lra Lia.
From Flocq Require Import Core.
From Rubato.Model Require Import Num Reals Base Async.
From Rubato.Gen Require Import FastGen SincGen.
From Rubato.Proofs Require Import StepperR.
Import ListNotations.
Local Open Scope R_scope.

(* rewrite the class operations of the real instance to the operations of R without touching
   the instance argument of the generated records (keeps hypotheses and goal syntactically aligned) *)
Ltac rnorm :=
  repeat first
    [ progress change (@cdiv CR) with Rdiv
    | progress change (@csub CR) with Rminus
    | progress change (@cmul CR) with Rmult
    | progress change (@cadd CR) with Rplus
    | progress change (@c_of_Z CR) with IZR
    | progress change (@c_lit CR ?m ?e ?n ?d) with (IZR n / IZR d)
    | progress change (@cnum CR) with R ].

(** the per-frame increment of the step, for each type, is (1/target - 1/ratio) / A with
    A = chunk * mean(ratio, target) for the fixed-input types and A = chunk for the fixed-output ones *)
Lemma fi_increment_R (st : @FastFixedIn CR) :
  0 < FastFixedIn_resample_ratio st -> 0 < FastFixedIn_target_ratio st -> (1 <= FastFixedIn_chunk_size st)%Z ->
  @fi_t_ratio_increment CR st (@fi_approximate_nbr_frames CR st) (@fi_t_ratio CR st) (@fi_t_ratio_end CR st) =
  (/ FastFixedIn_target_ratio st - / FastFixedIn_resample_ratio st) /
  (IZR (FastFixedIn_chunk_size st) * ((FastFixedIn_resample_ratio st + FastFixedIn_target_ratio st) / 2)).
Proof.
  intros H1 H2 H3. unfold fi_t_ratio_increment, fi_approximate_nbr_frames, fi_t_ratio, fi_t_ratio_end.
  rnorm.
  assert (1 <= IZR (FastFixedIn_chunk_size st)) by (apply IZR_le; lia).
  field. repeat split; apply Rgt_not_eq; lra.
Qed.

Lemma si_increment_R (st : @SincFixedIn CR) :
  0 < SincFixedIn_resample_ratio st -> 0 < SincFixedIn_target_ratio st -> (1 <= SincFixedIn_chunk_size st)%Z ->
  @si_t_ratio_increment CR st (@si_approximate_nbr_frames CR st) (@si_t_ratio CR st) (@si_t_ratio_end CR st) =
  (/ SincFixedIn_target_ratio st - / SincFixedIn_resample_ratio st) /
  (IZR (SincFixedIn_chunk_size st) * ((SincFixedIn_resample_ratio st + SincFixedIn_target_ratio st) / 2)).
Proof.
  intros H1 H2 H3. unfold si_t_ratio_increment, si_approximate_nbr_frames, si_t_ratio, si_t_ratio_end.
  rnorm.
  assert (1 <= IZR (SincFixedIn_chunk_size st)) by (apply IZR_le; lia).
  field. repeat split; apply Rgt_not_eq; lra.
Qed.

Lemma fo_increment_R (st : @FastFixedOut CR) :
  0 < FastFixedOut_resample_ratio st -> 0 < FastFixedOut_target_ratio st -> (1 <= FastFixedOut_chunk_size st)%Z ->
  @fo_t_ratio_increment CR st (@fo_t_ratio CR st) (@fo_t_ratio_end CR st) =
  (/ FastFixedOut_target_ratio st - / FastFixedOut_resample_ratio st) / IZR (FastFixedOut_chunk_size st).
Proof.
  intros H1 H2 H3. unfold fo_t_ratio_increment, fo_t_ratio, fo_t_ratio_end.
  rnorm.
  assert (1 <= IZR (FastFixedOut_chunk_size st)) by (apply IZR_le; lia).
  field. repeat split; apply Rgt_not_eq; lra.
Qed.

Lemma so_increment_R (st : @SincFixedOut CR) :
  0 < SincFixedOut_resample_ratio st -> 0 < SincFixedOut_target_ratio st -> (1 <= SincFixedOut_chunk_size st)%Z ->
  @so_t_ratio_increment CR st (@so_t_ratio CR st) (@so_t_ratio_end CR st) =
  (/ SincFixedOut_target_ratio st - / SincFixedOut_resample_ratio st) / IZR (SincFixedOut_chunk_size st).
Proof.
  intros H1 H2 H3. unfold so_t_ratio_increment, so_t_ratio, so_t_ratio_end.
  rnorm.
  assert (1 <= IZR (SincFixedOut_chunk_size st)) by (apply IZR_le; lia).
  field. repeat split; apply Rgt_not_eq; lra.
Qed.

(** every loop of every type adds the increment to the step and the step to the position *)
Lemma loop_ops_R :
  (forall d st t i, a_tstep (@fi_arch CR SR d) st t i = t + i /\ a_istep (@fi_arch CR SR d) st t i = t + i) /\
  (forall d st t i, a_tstep (@fo_arch CR SR d) st t i = t + i /\ a_istep (@fo_arch CR SR d) st t i = t + i) /\
  (forall e st t i, a_tstep (@si_arch CR SR e) st t i = t + i /\ a_istep (@si_arch CR SR e) st t i = t + i) /\
  (forall e st t i, a_tstep (@so_arch CR SR e) st t i = t + i /\ a_istep (@so_arch CR SR e) st t i = t + i).
Proof.
  repeat split; try (destruct d; reflexivity); destruct (se_type e) eqn:E; cbn [a_tstep a_istep si_arch so_arch]; rewrite E; reflexivity.
Qed.

(** after a processing call the ratio in use is the target: the next chunk is stepped at 1/new *)
Lemma finish_sets_ratio_R :
  (forall d st idx, FastFixedIn_resample_ratio (a_finish (@fi_arch CR SR d) st idx) = FastFixedIn_target_ratio st /\
                    FastFixedIn_target_ratio (a_finish (@fi_arch CR SR d) st idx) = FastFixedIn_target_ratio st) /\
  (forall d st idx, FastFixedOut_resample_ratio (a_finish (@fo_arch CR SR d) st idx) = FastFixedOut_target_ratio st /\
                    FastFixedOut_target_ratio (a_finish (@fo_arch CR SR d) st idx) = FastFixedOut_target_ratio st) /\
  (forall e st idx, SincFixedIn_resample_ratio (a_finish (@si_arch CR SR e) st idx) = SincFixedIn_target_ratio st /\
                    SincFixedIn_target_ratio (a_finish (@si_arch CR SR e) st idx) = SincFixedIn_target_ratio st) /\
  (forall e st idx, SincFixedOut_resample_ratio (a_finish (@so_arch CR SR e) st idx) = SincFixedOut_target_ratio st /\
                    SincFixedOut_target_ratio (a_finish (@so_arch CR SR e) st idx) = SincFixedOut_target_ratio st).
Proof. repeat split. Qed.
