(** C13 (constructors): the documented construction errors, for every binary64 argument. *)

From Coq Require Import ZArith Reals Bool List Lra Lia.
From Flocq Require Import Core BinarySingleNaN.
From Rubato.Model Require Import Num Floats Base Async Fft Resamplers.
From Rubato.Gen Require Import FastGen SincGen SynchroGen.
From Rubato.Proofs Require Import RatioBounds.
Local Open Scope R_scope.

Lemma ratio_bad_iff (r : f64) :
  @fast_validate_ratio_bad CB r = true <-> ~ (is_finite r = true /\ 0 < B2R r).
Proof.
  unfold fast_validate_ratio_bad. rewrite negb_true_iff, andb_false_iff. cbn [cltb c_is_finite CB].
  fold zero64.
  destruct (is_finite r) eqn:F.
  - rewrite Bltb_correct by (assumption || reflexivity). rewrite B2R_zero64.
    case Rlt_bool_spec; intros H; split; intros H0;
      try (intros [_ ?]; lra); try (left; reflexivity); try (exfalso; apply H0; split; [reflexivity|lra]);
      try (destruct H0; discriminate).
  - split; [intros _ [? _]; discriminate | intros _; right; reflexivity].
Qed.

Lemma maxrel_bad_iff (m : f64) :
  @fast_validate_maxrel_bad CB m = true <-> ~ (is_finite m = true /\ 1 <= B2R m).
Proof.
  unfold fast_validate_maxrel_bad. rewrite negb_true_iff, andb_false_iff. cbn [cleb c_is_finite CB].
  fold one64.
  destruct (is_finite m) eqn:F.
  - rewrite Bleb_correct by (assumption || reflexivity). rewrite B2R_one64.
    case Rle_bool_spec; intros H; split; intros H0;
      try (intros [_ ?]; lra); try (left; reflexivity); try (exfalso; apply H0; split; [reflexivity|lra]);
      try (destruct H0; discriminate).
  - split; [intros _ [? _]; discriminate | intros _; right; reflexivity].
Qed.

Section Ctors.
Context {S : SNum CB}.

Theorem fast_in_new_invalid_ratio ratio maxrel d chunk nch :
  ~ (is_finite ratio = true /\ 0 < B2R ratio) ->
  fast_in_new ratio maxrel d chunk nch = inl (CErrInvalidRatio ratio).
Proof. intros H. apply ratio_bad_iff in H. unfold fast_in_new, validate_ratios_fast. rewrite H. reflexivity. Qed.

Theorem fast_in_new_invalid_maxrel ratio maxrel d chunk nch :
  (is_finite ratio = true /\ 0 < B2R ratio) -> ~ (is_finite maxrel = true /\ 1 <= B2R maxrel) ->
  fast_in_new ratio maxrel d chunk nch = inl (CErrInvalidRelativeRatio maxrel).
Proof.
  intros H1 H2. apply maxrel_bad_iff in H2. unfold fast_in_new, validate_ratios_fast.
  destruct (@fast_validate_ratio_bad CB ratio) eqn:E; [apply ratio_bad_iff in E; tauto|].
  rewrite H2. reflexivity.
Qed.

Theorem fast_out_new_invalid_ratio ratio maxrel d chunk nch :
  ~ (is_finite ratio = true /\ 0 < B2R ratio) ->
  fast_out_new ratio maxrel d chunk nch = inl (CErrInvalidRatio ratio).
Proof. intros H. apply ratio_bad_iff in H. unfold fast_out_new, validate_ratios_fast. rewrite H. reflexivity. Qed.

Theorem sinc_in_new_invalid_ratio ratio maxrel env ilen inbr chunk nch :
  ~ (is_finite ratio = true /\ 0 < B2R ratio) ->
  sinc_in_new ratio maxrel env ilen inbr chunk nch = inl (CErrInvalidRatio ratio).
Proof.
  intros H. apply ratio_bad_iff in H. unfold sinc_in_new, validate_ratios_sinc.
  change (@sinc_validate_ratio_bad CB ratio) with (@fast_validate_ratio_bad CB ratio). rewrite H. reflexivity.
Qed.

Theorem sinc_out_new_invalid_ratio ratio maxrel env ilen inbr chunk nch :
  ~ (is_finite ratio = true /\ 0 < B2R ratio) ->
  sinc_out_new ratio maxrel env ilen inbr chunk nch = inl (CErrInvalidRatio ratio).
Proof.
  intros H. apply ratio_bad_iff in H. unfold sinc_out_new, validate_ratios_sinc.
  change (@sinc_validate_ratio_bad CB ratio) with (@fast_validate_ratio_bad CB ratio). rewrite H. reflexivity.
Qed.

Theorem fft_new_zero_rate rate_in rate_out chunk sub nch :
  (rate_in = 0 \/ rate_out = 0)%Z ->
  fft_in_new rate_in rate_out chunk sub nch = inl (CErrInvalidSampleRate rate_in rate_out) /\
  fft_out_new rate_in rate_out chunk sub nch = inl (CErrInvalidSampleRate rate_in rate_out) /\
  fft_inout_new rate_in rate_out chunk nch = inl (CErrInvalidSampleRate rate_in rate_out).
Proof.
  intros H. unfold fft_in_new, fft_out_new, fft_inout_new, syn_validate_rates_bad.
  assert (E : ((rate_in =? 0) || (rate_out =? 0))%Z = true).
  { apply orb_true_iff. destruct H as [->| ->]; [left|right]; reflexivity. }
  rewrite E. repeat split.
Qed.

End Ctors.
