(** slice::chunks as modelled in Fft.v: the blocks concatenate to the list, the first k blocks are
    full when k*n elements exist; run_units over full blocks.                                  *)

From Coq Require Import ZArith List Bool Lia.
From Rubato.Model Require Import Num Base Validate Fft.
From Rubato.Proofs Require Import ShapeP FftInOutP.
Import ListNotations.

Section Chunks.
Context {A : Type}.

Lemma chunks_aux_concat (n : nat) : (1 <= n)%nat -> forall fuel (l : list A), (length l <= fuel)%nat ->
  concat (chunks_aux fuel n l) = l.
Proof.
  intros Hn. induction fuel as [|f IH]; intros l Hl.
  - destruct l; [reflexivity|cbn in Hl; lia].
  - cbn [chunks_aux]. destruct l as [|x l']; [reflexivity|].
    cbn [concat]. rewrite IH; [apply firstn_skipn|].
    rewrite skipn_length. cbn [length] in *. lia.
Qed.

Lemma chunks_aux_full (n : nat) : (1 <= n)%nat -> forall k fuel (l : list A), (length l <= fuel)%nat -> (k * n <= length l)%nat ->
  (k <= length (chunks_aux fuel n l))%nat /\ Forall (fun c => length c = n) (firstn k (chunks_aux fuel n l)).
Proof.
  intros Hn. induction k as [|k IH]; intros fuel l Hf Hk.
  - split; [lia|constructor].
  - destruct fuel as [|f]; [cbn in Hk; lia|].
    cbn [chunks_aux]. destruct l as [|x l']; [cbn in Hk; lia|].
    destruct (IH f (skipn n (x :: l'))) as [H1 H2].
    + rewrite skipn_length. cbn [length] in *. lia.
    + rewrite skipn_length. cbn [length mult] in *. lia.
    + split; [cbn [length]; lia|]. cbn [firstn]. constructor; [|exact H2].
      rewrite firstn_length. cbn [length mult] in *. lia.
Qed.

Lemma chunks_concat (n : Z) (l : list A) : (1 <= n)%Z -> concat (chunks n l) = l.
Proof. intros Hn. unfold chunks. apply chunks_aux_concat; lia. Qed.

Lemma chunks_full (n : Z) (k : nat) (l : list A) : (1 <= n)%Z -> (Z.of_nat k * n <= zlen l)%Z ->
  (k <= length (chunks n l))%nat /\ Forall (fun c => zlen c = n) (firstn k (chunks n l)).
Proof.
  intros Hn Hk. unfold chunks. destruct (chunks_aux_full (Z.to_nat n) ltac:(lia) k (length l) l ltac:(lia)) as [H1 H2].
  - unfold zlen in Hk. nia.
  - split; [exact H1|]. eapply Forall_impl; [|exact H2]. intros c Hc. cbv beta in Hc. unfold zlen. lia.
Qed.

End Chunks.

Section Units.
Context {C : CNum} {S : SNum C}.
Variable unit_fn : list snum -> list snum.

(** run_units over full input blocks and (at least as many) full output blocks: Ok, every output block
    keeps its length, the carried overlap keeps its length *)
Lemma run_units_ok (fin fout : Z) : (0 <= fout)%Z ->
  (forall w, zlen w = fin -> zlen (unit_fn w) = 2 * fout)%Z ->
  forall (ins outs : list (list snum)) (ov : list snum),
    Forall (fun c => zlen c = fin) ins -> zlen ov = fout ->
    (length ins <= length outs)%nat -> Forall (fun c => zlen c = fout) (firstn (length ins) outs) ->
    exists os ov', run_units unit_fn fin fout ins outs ov = Ok (os, ov') /\
                   map zlen os = map zlen outs /\ zlen ov' = fout.
Proof.
  intros Hf Hu ins. induction ins as [|i ins IH]; intros outs ov Hi Hv Hl Ho.
  - cbn [run_units]. eexists _, _. split; [reflexivity|]. split; [reflexivity|exact Hv].
  - destruct outs as [|o outs]; [cbn in Hl; lia|].
    apply Forall_cons_iff in Hi. destruct Hi as [Hi1 Hi2]. cbn [length firstn] in Ho. apply Forall_cons_iff in Ho. destruct Ho as [Ho1 Ho2].
    cbn [run_units].
    destruct (resample_unit_ok unit_fn fin fout i o ov Hf Hi1 Ho1 Hv (Hu i Hi1)) as (o' & ov1 & E & Lo & Lv).
    rewrite E. cbn [bind].
    destruct (IH outs ov1 Hi2 Lv ltac:(cbn in Hl; lia) Ho2) as (os & ov2 & E2 & M & L2).
    rewrite E2. cbn [bind]. eexists _, _. split; [reflexivity|]. split; [|exact L2].
    cbn [map]. f_equal; [congruence|exact M].
Qed.

End Units.

Section ChunksExact.
Context {A : Type}.

(** a list of exactly k*n elements splits into exactly k full blocks *)
Lemma chunks_aux_exact (n : nat) : (1 <= n)%nat -> forall k fuel (l : list A), (length l <= fuel)%nat -> length l = (k * n)%nat ->
  length (chunks_aux fuel n l) = k /\ Forall (fun c => length c = n) (chunks_aux fuel n l).
Proof.
  intros Hn. induction k as [|k IH]; intros fuel l Hf Hk.
  - destruct l; [|cbn in Hk; lia]. destruct fuel; cbn; split; constructor.
  - destruct fuel as [|f]; [cbn in Hk; lia|].
    cbn [chunks_aux]. destruct l as [|x l']; [cbn in Hk; lia|].
    destruct (IH f (skipn n (x :: l'))) as [H1 H2].
    + rewrite skipn_length. cbn [length] in *. lia.
    + rewrite skipn_length. cbn [length mult] in *. lia.
    + split; [cbn [length]; lia|]. constructor; [|exact H2].
      rewrite firstn_length. cbn [length mult] in *. lia.
Qed.

Lemma chunks_exact (n : Z) (k : nat) (l : list A) : (1 <= n)%Z -> zlen l = (Z.of_nat k * n)%Z ->
  length (chunks n l) = k /\ Forall (fun c => zlen c = n) (chunks n l).
Proof.
  intros Hn Hk. unfold chunks. destruct (chunks_aux_exact (Z.to_nat n) ltac:(lia) k (length l) l ltac:(lia)) as [H1 H2].
  - unfold zlen in Hk. nia.
  - split; [exact H1|]. eapply Forall_impl; [|exact H2]. intros c Hc. cbv beta in Hc. unfold zlen. lia.
Qed.

End ChunksExact.
