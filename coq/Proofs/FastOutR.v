(** FastFixedOut in ideal arithmetic, constant ratio: one call is safe, keeps the
    invariant, produces exactly chunk_size frames from exactly input_frames_next()
    frames, and advances the carried position by chunk/r - consumed.                *)

From Coq Require Import ZArith Reals List Bool Lra Lia.
From Flocq Require Import Core.
From Rubato.Model Require Import Num Reals Base Validate Nearest Kernels Async Fft Resamplers.
From Rubato.Gen Require Import FastGen.
From Rubato.Proofs Require Import ShapeP ValidateP EngineP StepperR MalformedP FastInR.
Import ListNotations.
Local Open Scope R_scope.

Notation FO := (@FastFixedOut CR).

Lemma fo_sample_ok_R (st : FO) d (buf : list (@snum CR SR)) (idx : R) :
  (0 <= Zfloor idx - reach_lo d + 16)%Z ->
  (Zfloor idx - reach_lo d + 16 + win_width d <= zlen buf)%Z ->
  exists v, @fast_sample CR SR (fo_arm st d) buf idx = Ok v.
Proof.
  intros H1 H2. unfold fast_sample.
  destruct d; cbn [fo_arm fa_nearest fa_idx_floor fa_start_idx fa_frac fa_lo fa_hi fa_interp reach_lo win_width] in *.
  1-4: unfold fo_septic_idx_floor, fo_septic_start_idx, fo_septic_win_lo, fo_septic_win_hi,
         fo_quintic_idx_floor, fo_quintic_start_idx, fo_quintic_win_lo, fo_quintic_win_hi,
         fo_cubic_idx_floor, fo_cubic_start_idx, fo_cubic_win_lo, fo_cubic_win_hi,
         fo_linear_idx_floor, fo_linear_start_idx, fo_linear_win_lo, fo_linear_win_hi, POLYNOMIAL_LEN_I;
       cbn [cfloor c_to_isize CR]; rewrite Ztrunc_IZR_id; rewrite !isize_as_usize_nonneg by lia; unfold fast_read;
       match goal with |- context [in_range ?b ?l ?h] => assert (E : in_range b l h = true) by (apply in_range_iff; lia); rewrite E end;
       cbn [bind]; eauto.
  unfold fo_nearest_start_idx, fo_nearest_point, POLYNOMIAL_LEN_I. cbn [cfloor c_to_isize CR]. rewrite Ztrunc_IZR_id.
  rewrite isize_as_usize_nonneg by lia. unfold fast_point.
  destruct (nth_opt_some buf (Zfloor idx + 2 * 8)%Z) as (v & Ev); [lia|]. rewrite Ev. eauto.
Qed.

Section Call.
Variable d : degree.
Notation A := (@fo_arch CR SR d).
Notation ST := (@astate CR SR FO).

Definition oC (s : ST) : Z := FastFixedOut_chunk_size (as_ctl s).
Definition onch (s : ST) : Z := FastFixedOut_nbr_channels (as_ctl s).
Definition oratio (s : ST) : R := FastFixedOut_resample_ratio (as_ctl s).
Definition oli (s : ST) : R := FastFixedOut_last_index (as_ctl s).
Definition oneeded (s : ST) : Z := FastFixedOut_needed_input_size (as_ctl s).
Definition ofill (s : ST) : Z := FastFixedOut_current_buffer_fill (as_ctl s).

(* [blen]: the (constant) length of every internal buffer *)
Record fo_wf (blen : Z) (s : ST) : Prop := {
  ow_C : (1 <= oC s)%Z;
  ow_n : (0 <= onch s)%Z;
  ow_lenb : length (as_buf s) = Z.to_nat (onch s);
  ow_lenm : length (as_mask s) = Z.to_nat (onch s);
  ow_bufs : all_len blen (as_buf s);
  ow_r : 0 < oratio s;
  ow_t : FastFixedOut_target_ratio (as_ctl s) = oratio s;
  ow_li : - 9 < oli s <= -4;
  ow_needed : oneeded s = Zceil (oli s + IZR (oC s) * / oratio s + 8);
  ow_fill : (0 <= ofill s /\ ofill s + 16 <= blen)%Z;          (* the frames of the last call, wherever its ratio put them *)
  ow_blen : (Zceil (IZR (oC s) * / oratio s) + 4 + 16 <= blen)%Z;
}.

Lemma fo_needed_next_R (st : FO) : FastFixedOut_resample_ratio st <> 0 ->
  @fo_needed_next CR st =
  Z.max 0 (Zceil (FastFixedOut_last_index st + IZR (FastFixedOut_chunk_size st) * / FastFixedOut_resample_ratio st + 8)).
Proof.
  intros H. unfold fo_needed_next, POLYNOMIAL_LEN_U. cbv [c32_to_usize ceil32 add32 div32 to32 c32_of_Z CR c32 cnum].
  rewrite Ztrunc_IZR_id. reflexivity.
Qed.

Theorem fo_call_const_R blen (s : ST) wi wo m :
  fo_wf blen s -> a_precheck A s wi wo m = Ok tt ->
  exists (s' : ST) outs,
    pib A s wi wo m = Ok (s', (oneeded s, oC s), outs) /\ fo_wf blen s' /\
    oli s' = oli s + IZR (oC s) * / oratio s - IZR (oneeded s) /\
    oC s' = oC s /\ onch s' = onch s /\ oratio s' = oratio s /\ (0 <= oneeded s)%Z.
Proof.
  intros W Hpre. destruct W as [WC Wn Wlb Wlm Wb Wr Wt Wli Wnd Wfl Wbl].
  unfold oC, onch, oratio, oli, oneeded, ofill in *.
  set (st := as_ctl s) in *.
  set (Cc := FastFixedOut_chunk_size st) in *.
  set (r := FastFixedOut_resample_ratio st) in *.
  set (N := FastFixedOut_needed_input_size st) in *.
  set (F := FastFixedOut_current_buffer_fill st) in *.
  set (l0 := FastFixedOut_last_index st) in *.
  assert (Hr0 : r <> 0) by lra.
  set (t := / r) in *.
  assert (Ht : 0 < t) by (apply Rinv_0_lt_compat; exact Wr).
  assert (HC1 : 1 <= IZR Cc) by (apply IZR_le; lia).
  assert (HCt : 0 < IZR Cc * t) by nra.
  assert (HNlo : IZR N >= l0 + IZR Cc * t + 8) by (rewrite Wnd; generalize (Zceil_ub (l0 + IZR Cc * t + 8)); lra).
  assert (HNhi : IZR N < l0 + IZR Cc * t + 8 + 1) by (rewrite Wnd; generalize (Zceil_lb (l0 + IZR Cc * t + 8)); lra).
  assert (HN0 : (0 <= N)%Z) by (assert (-1 < N)%Z by (apply lt_IZR; change (IZR (-1)) with (-1); lra); lia).
  assert (HNmax : (N <= Zceil (IZR Cc * t) + 4)%Z).
  { rewrite Wnd. replace (l0 + IZR Cc * t + 8) with (IZR Cc * t + (l0 + 8)) by ring.
    apply Zceil_glb. rewrite plus_IZR. generalize (Zceil_ub (IZR Cc * t)). change (IZR 4) with 4. lra. }
  (* --- the argument check *)
  unfold a_precheck in Hpre. unfold pib. fold st in Hpre |- *.
  set (pro := match m with Some mk => _ | None => _ end) in *.
  destruct pro as [mask| | | |] eqn:Epro; cbn [bind] in Hpre; try discriminate Hpre.
  cbn [bind].
  destruct (validate_buffers (map zlen wi) (map zlen wo) mask (a_val_channels A st) (a_val_min_in A st) (a_val_min_out A st))
    as [[]| | | |] eqn:Eval; cbn [bind] in Hpre; try discriminate Hpre.
  cbn [bind]. clear Hpre.
  apply validate_ok_iff in Eval. destruct Eval as (Vi & Vm & Vil & Vo & Vol).
  cbn [a_val_channels a_val_min_in a_val_min_out fo_arch] in Vi, Vm, Vil, Vo, Vol.
  unfold fo_val_channels, fo_val_min_in, fo_val_min_out in Vi, Vm, Vil, Vo, Vol.
  fold Cc N in Vil, Vol.
  (* --- history shift *)
  cbn [a_shift_lo a_shift_hi a_shift_dst fo_arch]. unfold fo_shift_lo, fo_shift_hi, fo_shift_dst, POLYNOMIAL_LEN_U. fold F.
  destruct (shift_all_ok blen F (F + 2 * 8) 0 ltac:(lia) ltac:(lia) ltac:(lia) ltac:(lia) ltac:(lia) (as_buf s) Wb)
    as (bufs1 & E1 & L1 & N1).
  rewrite E1. cbn [bind].
  (* --- load the new frames *)
  cbn [a_pre fo_arch]. unfold fo_fill_next. fold N.
  set (st1 := set_FastFixedOut_current_buffer_fill st N).
  assert (Hfill : exists bufs2, fill_all A st1 bufs1 wi mask = Ok bufs2 /\ all_len blen bufs2 /\ length bufs2 = length bufs1).
  { apply (fill_all_ok A st1 blen);
      cbn [a_fill_lo a_fill_hi a_fill_src_hi fo_arch]; unfold fo_fill_lo, fo_fill_hi, fo_fill_src_hi, POLYNOMIAL_LEN_U;
      unfold st1, set_FastFixedOut_current_buffer_fill; cbn [FastFixedOut_needed_input_size]; fold N;
      try lia; try assumption.
    - unfold zlen in Vi. rewrite map_length in Vi. lia.
    - unfold zlen in Vm. lia.
    - intros k w Hk Hm. apply (Vil k (zlen w)); [rewrite nth_error_map, Hk; reflexivity | exact Hm]. }
  destruct Hfill as (bufs2 & E2 & L2 & N2).
  rewrite E2. cbn [bind].
  (* --- the stepping loop: exactly chunk frames *)
  cbn [a_t0 a_tend a_inc a_idx0 a_fixed_in a_bound fo_arch].
  assert (Hb : fi_pick d (@fo_septic_loop_bound CR) (@fo_quintic_loop_bound CR) (@fo_cubic_loop_bound CR)
                       (@fo_linear_loop_bound CR) (@fo_nearest_loop_bound CR) st1 = Cc) by (destruct d; reflexivity).
  rewrite Hb.
  assert (Ht0 : @fo_t_ratio CR st1 = t).
  { unfold fo_t_ratio, st1, set_FastFixedOut_current_buffer_fill. cbn [FastFixedOut_resample_ratio]. fold st r.
    cbv [c_lit cdiv CR cnum]. unfold t. field. exact Hr0. }
  assert (Ht1 : @fo_t_ratio_end CR st1 = t).
  { unfold fo_t_ratio_end, st1, set_FastFixedOut_current_buffer_fill. cbn [FastFixedOut_target_ratio]. fold st. rewrite Wt. fold r.
    cbv [c_lit cdiv CR cnum]. unfold t. field. exact Hr0. }
  rewrite Ht0, Ht1.
  assert (Hinc : @fo_t_ratio_increment CR st1 t t = 0).
  { unfold fo_t_ratio_increment. cbv [cdiv csub CR cnum]. unfold Rdiv. rewrite Rminus_diag_eq by reflexivity. ring. }
  rewrite Hinc.
  assert (Hloop : forall n t0 inc0 i0,
            @positions_out CR (a_tstep A st1) (a_istep A st1) n t0 inc0 i0 = @positions_out CR Rplus Rplus n t0 inc0 i0)
    by (intros; destruct d; reflexivity).
  rewrite Hloop. assert (Hidx : @fo_idx0 CR st1 = l0) by reflexivity. rewrite Hidx.
  rewrite positions_out_spec. cbn [bind].
  set (ps := map (pos_at l0 t 0) (seq 1 (Z.to_nat Cc))).
  assert (Hpos : forall k, pos_at l0 t 0 k = l0 + INR k * t) by (intros k; unfold pos_at; lra).
  assert (Hlen : length ps = Z.to_nat Cc) by (unfold ps; rewrite map_length, seq_length; reflexivity).
  (* every instant is sampled inside the buffer *)
  assert (Hsamp : samples_ok A st1 blen ps).
  { intros b p Hbl Hp. unfold ps in Hp. apply in_map_iff in Hp. destruct Hp as (k & <- & Hk). apply in_seq in Hk.
    cbn [a_sample fo_arch]. rewrite Hpos.
    assert (K1 : INR k <= IZR Cc).
    { rewrite INR_IZR_INZ. apply IZR_le. lia. }
    assert (K0 : 1 <= INR k) by (change 1 with (INR 1); apply le_INR; lia).
    assert (Fb : (-9 <= Zfloor (l0 + INR k * t) < Zceil (IZR Cc * t) - 3)%Z).
    { apply Zfloor_bounds.
      - change (IZR (-9)) with (-9). nra.
      - rewrite minus_IZR. change (IZR 3) with 3. generalize (Zceil_ub (IZR Cc * t)). nra. }
    apply fo_sample_ok_R; rewrite ?Hbl; destruct d; cbn [reach_lo win_width]; lia. }
  destruct (outputs_all_ok A st1 blen ps Hsamp bufs2 wo mask L2) as (outs & Eo & No & Po).
  { intros k o Hk Hm. specialize (Vol k (zlen o)). rewrite nth_error_map, Hk in Vol. specialize (Vol eq_refl Hm).
    unfold zlen in Vol. change (@length (@cnum CR) ps) with (@length R ps). rewrite Hlen. lia. }
  rewrite Eo. cbn [bind].
  eexists _, outs. split.
  { reflexivity. }
  (* --- the new state *)
  set (last := pos_at l0 t 0 (Z.to_nat Cc)).
  assert (Elast : last = l0 + IZR Cc * t).
  { unfold last. rewrite Hpos, INR_IZR_INZ, Z2Nat.id by lia. reflexivity. }
  set (l1 := last - IZR N).
  assert (Hl1 : -9 < l1 <= -8) by (unfold l1; rewrite Elast; lra).
  cbn [a_finish fo_arch].
  unfold fo_last_index_next, fo_resample_ratio_next.
  unfold st1, set_FastFixedOut_needed_input_size, set_FastFixedOut_resample_ratio, set_FastFixedOut_last_index,
         set_FastFixedOut_current_buffer_fill.
  cbn [FastFixedOut_current_buffer_fill FastFixedOut_target_ratio csub c_of_Z CR].
  fold st. rewrite Wt. fold r.
  rewrite fo_needed_next_R by (cbn [FastFixedOut_resample_ratio]; exact Hr0).
  cbn [FastFixedOut_last_index FastFixedOut_chunk_size FastFixedOut_resample_ratio]. fold Cc. fold t. fold last l1.
  assert (HN1 : (0 <= Zceil (l1 + IZR Cc * t + 8))%Z).
  { assert (-1 < Zceil (l1 + IZR Cc * t + 8))%Z; [|lia]. apply lt_IZR.
    generalize (Zceil_ub (l1 + IZR Cc * t + 8)). change (IZR (-1)) with (-1). nra. }
  rewrite Z.max_r by exact HN1.
  split; [constructor|]; unfold oC, onch, oratio, oli, oneeded, ofill;
    cbn [as_ctl as_buf as_mask FastFixedOut_nbr_channels FastFixedOut_chunk_size FastFixedOut_needed_input_size
         FastFixedOut_last_index FastFixedOut_current_buffer_fill FastFixedOut_resample_ratio
         FastFixedOut_resample_ratio_original FastFixedOut_target_ratio FastFixedOut_max_relative_ratio];
    fold st; fold Cc; fold r; fold t; try assumption; try lia; try reflexivity.
  - unfold zlen in Vm. lia.
  - lra.
  - repeat split; try lia; try reflexivity. unfold l1. rewrite Elast. reflexivity.
Qed.

End Call.

(** * Histories of valid calls at constant ratio *)
Section History.
Variable d : degree.
Notation A := (@fo_arch CR SR d).
Notation ST := (@astate CR SR FO).

Fixpoint fo_run (s : ST) (calls : list (list (list R) * list (list R) * option (list bool))) : res (ST * Z * Z) :=
  match calls with
  | [] => Ok (s, 0%Z, 0%Z)
  | (wi, wo, m) :: rest =>
      do _ <- a_precheck A s wi wo m;
      do x <- pib A s wi wo m;
      let '(s', (a, b), _) := x in
      do y <- fo_run s' rest;
      let '(s'', nin, nout) := y in
      Ok (s'', (a + nin)%Z, (b + nout)%Z)
  end.

Theorem fo_history_const_R blen : forall calls (s : ST), fo_wf blen s ->
  match fo_run s calls with
  | Ok (s', nin, nout) =>
      fo_wf blen s' /\ oratio s' = oratio s /\ (0 <= nin)%Z /\ (0 <= nout)%Z /\
      oli s' - oli s = IZR nout * / oratio s - IZR nin
  | Err _ => True
  | Panic _ | UB _ | Diverge => False
  end.
Proof.
  induction calls as [|[[wi wo] m] rest IH]; intros s W; cbn [fo_run].
  - split; [exact W|]. repeat split; try lia. change (IZR 0) with 0. lra.
  - destruct (a_precheck A s wi wo m) as [[]| | | |] eqn:Ep; cbn [bind]; try exact I.
    + destruct (fo_call_const_R d blen s wi wo m W Ep) as (s' & outs & E & W' & Hli & HC & Hnch & Hr & HN).
      rewrite E. cbn [bind]. specialize (IH s' W').
      destruct (fo_run s' rest) as [[[s'' nin] nout]| | | |]; cbn [bind]; try exact IH.
      destruct IH as (W'' & Hr'' & Hin & Hout & Hli'').
      destruct W as [WC _ _ _ _ _ _ _ _ _ _].
      split; [exact W''|]. split; [congruence|]. split; [lia|]. split; [unfold oC in *; lia|].
      rewrite !plus_IZR. rewrite Hr in Hli''. unfold oC in *. lra.
    + destruct (a_precheck_total A s wi wo m) as [H|[e H]]; rewrite H in Ep; discriminate.
    + destruct (a_precheck_total A s wi wo m) as [H|[e H]]; rewrite H in Ep; discriminate.
    + destruct (a_precheck_total A s wi wo m) as [H|[e H]]; rewrite H in Ep; discriminate.
Qed.

Corollary fo_accounting_const_R blen calls (s s' : ST) nin nout :
  fo_wf blen s -> fo_run s calls = Ok (s', nin, nout) ->
  Rabs (IZR nout - oratio s * IZR nin) <= oratio s * (8 + / oratio s + 3) + 3.
Proof.
  intros W E. generalize (fo_history_const_R blen calls s W). rewrite E.
  intros (W' & Hr & _ & _ & Hli).
  destruct W as [_ _ _ _ _ Wr _ Wl _ _ _]. destruct W' as [_ _ _ _ _ _ _ Wl' _ _ _].
  set (r := oratio s) in *. set (t := / r) in *.
  assert (Ht : 0 < t) by (apply Rinv_0_lt_compat; exact Wr).
  assert (Htr : r * t = 1) by (unfold t; apply Rinv_r; lra).
  assert (Hd : Rabs (IZR nout * t - IZR nin) <= 5) by (rewrite <- Hli; apply Rabs_le; lra).
  replace (IZR nout - r * IZR nin) with (r * (IZR nout * t - IZR nin)) by (rewrite Rmult_minus_distr_l, <- Rmult_assoc, (Rmult_comm r (IZR nout)), Rmult_assoc, Htr; ring).
  rewrite Rabs_mult, (Rabs_pos_eq r) by lra.
  apply Rle_trans with (r * 5); [apply Rmult_le_compat_l; lra|]. nra.
Qed.

End History.

(** * Histories with non-ramped ratio changes between the calls

    For the fixed-output resampler a non-ramped [set_resample_ratio] recomputes needed_input_size from the carried
    position, so EVERY accepted change is safe: the only thing the new ratio has to respect is the capacity of the
    internal buffer, and the constructor sizes it for the smallest accepted ratio (fo_ctor_wfe_R in FastCtorR). *)
Section Steps.
Variable d : degree.
Notation A := (@fo_arch CR SR d).
Notation ST := (@astate CR SR FO).

(* the buffer has room for every ratio the setter accepts *)
Record fo_wfe (blen : Z) (s : ST) : Prop := {
  oe_wf : fo_wf blen s;
  oe_cap : forall r2, @fo_set_ratio_accept CR (as_ctl s) r2 = true ->
           0 < r2 /\ (Zceil (IZR (oC s) * / r2) + 4 + 16 <= blen)%Z;
}.

Lemma fo_set_ratio_needed_R (st : FO) :
  FastFixedOut_target_ratio st = FastFixedOut_resample_ratio st -> FastFixedOut_resample_ratio st <> 0 ->
  @fo_set_ratio_needed CR st =
  Z.max 0 (Zceil (FastFixedOut_last_index st + IZR (FastFixedOut_chunk_size st) * / FastFixedOut_resample_ratio st + 8)).
Proof.
  intros Ht H. unfold fo_set_ratio_needed, POLYNOMIAL_LEN_U. rewrite Ht.
  set (r := FastFixedOut_resample_ratio st) in *. set (l := FastFixedOut_last_index st). set (c := FastFixedOut_chunk_size st).
  cbv [c32_to_usize ceil32 add32 div32 mul32 lit32 to32 c32_of_Z CR c32 cnum].
  assert (Hh : 1 / 2 * r + 1 / 2 * r = r) by field.
  rewrite Hh. rewrite Ztrunc_IZR_id. reflexivity.
Qed.

Lemma fo_set_ratio_wfe blen (s s1 : ST) r2 :
  fo_wfe blen s -> @fo_set_ratio CR SR s r2 false = (s1, Ok tt) ->
  fo_wfe blen s1 /\ oratio s1 = r2 /\ oC s1 = oC s /\ oli s1 = oli s.
Proof.
  intros [[WC Wn Wlb Wlm Wb Wr Wt Wli Wnd Wfl Wbl] Wcap] E. unfold fo_set_ratio in E.
  destruct (fo_set_ratio_accept (as_ctl s) r2) eqn:Ea; [|discriminate E].
  destruct (Wcap r2 Ea) as [Hr2 Hb2].
  injection E as <-.
  set (st2 := set_FastFixedOut_target_ratio (set_FastFixedOut_resample_ratio (as_ctl s) r2) r2).
  assert (Hn : @fo_set_ratio_needed CR st2 = Zceil (oli s + IZR (oC s) * / r2 + 8)).
  { rewrite fo_set_ratio_needed_R; [| destruct s as [st ? ?]; destruct st; reflexivity | destruct s as [st ? ?]; destruct st; cbn; lra].
    replace (FastFixedOut_last_index st2) with (oli s) by (destruct s as [st ? ?]; destruct st; reflexivity).
    replace (FastFixedOut_chunk_size st2) with (oC s) by (destruct s as [st ? ?]; destruct st; reflexivity).
    replace (FastFixedOut_resample_ratio st2) with r2 by (destruct s as [st ? ?]; destruct st; reflexivity).
    apply Z.max_r.
    assert (Ht : 0 < / r2) by (apply Rinv_0_lt_compat; exact Hr2).
    assert (HC1 : 1 <= IZR (oC s)) by (apply IZR_le; exact WC).
    assert (-1 < Zceil (oli s + IZR (oC s) * / r2 + 8))%Z; [|lia]. apply lt_IZR.
    generalize (Zceil_ub (oli s + IZR (oC s) * / r2 + 8)). change (IZR (-1)) with (-1). nra. }
  unfold oC, onch, oratio, oli, oneeded, ofill in *. fold st2. 
  destruct s as [st bufs mask]. destruct st. cbn in *.
  split; [|repeat split; reflexivity].
  constructor; [constructor; cbn; try assumption; try reflexivity; try lia | cbn; exact Wcap].
Qed.

Theorem fo_call_wfe_R blen (s : ST) wi wo m :
  fo_wfe blen s -> a_precheck A s wi wo m = Ok tt ->
  exists (s' : ST) outs,
    pib A s wi wo m = Ok (s', (oneeded s, oC s), outs) /\ fo_wfe blen s' /\
    oli s' = oli s + IZR (oC s) * / oratio s - IZR (oneeded s) /\
    oC s' = oC s /\ oratio s' = oratio s /\ (0 <= oneeded s)%Z.
Proof.
  intros [W Wcap] Hpre.
  destruct (fo_call_const_R d blen s wi wo m W Hpre) as (s' & outs & E & W' & Hli & HC & Hnch & Hr & HN).
  exists s', outs. split; [exact E|]. split; [|repeat split; assumption].
  constructor; [exact W'|].
  destruct (pib_ctl A s s' wi wo m _ _ E) as (last & Ec).
  intros r2 Ha. rewrite HC. apply Wcap. rewrite <- Ha. unfold fo_set_ratio_accept. rewrite Ec.
  destruct (as_ctl s). reflexivity.
Qed.

Inductive fo_op :=
| FoCall (wi wo : list (list R)) (m : option (list bool))
| FoStep (r2 : R).

(* the run records, for every call, (frames consumed, frames produced, input_frames_next() and chunk_size before it) *)
Fixpoint fo_run_ops (s : ST) (ops : list fo_op) : res (ST * list (Z * Z * Z * Z)) :=
  match ops with
  | [] => Ok (s, [])
  | FoCall wi wo m :: rest =>
      do _ <- a_precheck A s wi wo m;
      do x <- pib A s wi wo m;
      let '(s', (a, b), _) := x in
      do y <- fo_run_ops s' rest;
      let '(s'', log) := y in
      Ok (s'', (a, b, oneeded s, oC s) :: log)
  | FoStep r2 :: rest =>
      match @fo_set_ratio CR SR s r2 false with
      | (s1, Ok tt) => fo_run_ops s1 rest
      | (_, Err e) => Err e                   (* outside [original/max, original*max]: rejected, see C12 *)
      | (_, Panic e) => Panic e | (_, UB e) => UB e | (_, Diverge) => Diverge
      end
  end.

Definition ocall_ok (e : Z * Z * Z * Z) : Prop :=
  let '(a, b, nxt, c) := e in a = nxt /\ b = c /\ (0 <= a)%Z.

(** Every history of well-formed calls and non-ramped ratio changes -- any the setter accepts -- runs without a panic,
    an out-of-range access or non-termination; every call consumes exactly input_frames_next() frames and produces
    exactly chunk_size frames. *)
Theorem fo_history_steps_R blen : forall ops (s : ST), fo_wfe blen s ->
  match fo_run_ops s ops with
  | Ok (s', log) => fo_wfe blen s' /\ oC s' = oC s /\ Forall ocall_ok log
  | Err _ => True
  | Panic _ | UB _ | Diverge => False
  end.
Proof.
  induction ops as [|[wi wo m|r2] rest IH]; intros s W; cbn [fo_run_ops].
  - split; [exact W|]. split; [reflexivity|constructor].
  - destruct (a_precheck A s wi wo m) as [[]| | | |] eqn:Ep; cbn [bind]; try exact I.
    + destruct (fo_call_wfe_R blen s wi wo m W Ep) as (s' & outs & E & W' & Hli & HC & Hr & HN).
      rewrite E. cbn [bind]. specialize (IH s' W').
      destruct (fo_run_ops s' rest) as [[s'' log]| | | |]; cbn [bind]; try exact IH.
      destruct IH as (W'' & HC'' & Hlog). split; [exact W''|]. split; [congruence|].
      constructor; [cbn; repeat split; try reflexivity; exact HN | exact Hlog].
    + destruct (a_precheck_total A s wi wo m) as [H|[e H]]; rewrite H in Ep; discriminate.
    + destruct (a_precheck_total A s wi wo m) as [H|[e H]]; rewrite H in Ep; discriminate.
    + destruct (a_precheck_total A s wi wo m) as [H|[e H]]; rewrite H in Ep; discriminate.
  - destruct (@fo_set_ratio CR SR s r2 false) as [s1 o] eqn:Es.
    assert (Ho : o = Ok tt \/ exists e, o = Err e).
    { unfold fo_set_ratio in Es. destruct (fo_set_ratio_accept (as_ctl s) r2); injection Es as <- <-; [left; reflexivity | right; eexists; reflexivity]. }
    destruct Ho as [-> | [e ->]]; [|exact I].
    destruct (fo_set_ratio_wfe blen s s1 r2 W Es) as (W1 & Hr1 & HC1 & _).
    specialize (IH s1 W1).
    destruct (fo_run_ops s1 rest) as [[s'' log]| | | |]; try exact IH.
    destruct IH as (W'' & HC'' & Hlog). split; [exact W''|]. split; [congruence|exact Hlog].
Qed.

End Steps.
