(** C12: the accept conditions of set_resample_ratio(_relative), as generated
    from the source, over *every* binary64 operand (Flocq).                    *)

From Coq Require Import ZArith Reals Bool List Lra Lia.
From Flocq Require Import Core BinarySingleNaN.
From Rubato.Model Require Import Num Floats.
From Rubato.Gen Require Import FastGen SincGen.
Local Open Scope R_scope.

Notation fexp64 := (SpecFloat.fexp 53 1024).
Notation RN64 := (round radix2 fexp64 ZnearestE).

(** Comparison against finite bounds: what [lo <= r && r <= hi] means for every operand r. *)
Lemma between_sem (lo hi r : f64) :
  is_finite lo = true -> is_finite hi = true ->
  (Bleb lo r && Bleb r hi = true <-> is_finite r = true /\ B2R lo <= B2R r <= B2R hi).
Proof.
  intros Flo Fhi.
  destruct r as [s|s| |s m e Hb].
  - (* zero *)
    rewrite !Bleb_correct by easy. rewrite andb_true_iff.
    split.
    + intros [H1 H2]. split; [easy|]. split; [now apply Rle_bool_true_iff in H1 || (revert H1; case Rle_bool_spec; easy) | revert H2; case Rle_bool_spec; easy].
    + intros [_ [H1 H2]]. split; apply Rle_bool_true; assumption.
  - (* infinity *)
    split.
    + intros H. exfalso. apply andb_true_iff in H. destruct H as [H1 H2].
      destruct s.
      * destruct lo; try discriminate; cbn in H1; discriminate.
      * destruct hi; try discriminate; cbn in H2; discriminate.
    + intros [H _]. discriminate.
  - (* nan *)
    split.
    + intros H. exfalso. apply andb_true_iff in H. destruct H as [H1 _].
      destruct lo; cbn in H1; discriminate.
    + intros [H _]. discriminate.
  - (* finite *)
    rewrite !Bleb_correct by easy. rewrite andb_true_iff.
    split.
    + intros [H1 H2]. split; [easy|]. split; [revert H1|revert H2]; case Rle_bool_spec; easy.
    + intros [_ [H1 H2]]. split; apply Rle_bool_true; assumption.
Qed.

(** * What the constructors guarantee *)

Definition zero64 : f64 := @c_lit CB 0 0 0 1.
Definition one64 : f64 := @c_lit CB 1 0 1 1.
Definition minpos64 : f64 := @c_min_positive CB.

Lemma zero64_eq : zero64 = B754_zero false. Proof. reflexivity. Qed.
Lemma finite_one64 : is_finite one64 = true. Proof. reflexivity. Qed.
Lemma finite_minpos64 : is_finite minpos64 = true. Proof. reflexivity. Qed.

(* powers of two written as literals: no computation through Flocq's proof terms *)
Lemma b_lit_pow2 (e : Z) : (-1074 <= e < 1024)%Z ->
  B2R (b_lit 53 1024 1 e) = bpow radix2 e.
Proof.
  intros He. unfold b_lit.
  generalize (binary_normalize_correct 53 1024 prec53_gt0 prec53_lt mode_NE 1 e false).
  cbv zeta. rewrite F2R_bpow.
  assert (G : generic_format radix2 fexp64 (bpow radix2 e)).
  { change fexp64 with (FLT_exp (3 - 1024 - 53) 53). apply generic_format_FLT_bpow. reflexivity. lia. }
  cbn [round_mode]. rewrite round_generic by (apply valid_rnd_N || exact G).
  rewrite Rlt_bool_true.
  - intros (E & _). exact E.
  - rewrite Rabs_pos_eq by apply bpow_ge_0. apply bpow_lt. lia.
Qed.

Lemma B2R_one64 : B2R one64 = 1.
Proof. unfold one64. cbn [c_lit CB]. rewrite b_lit_pow2 by lia. reflexivity. Qed.
Lemma B2R_minpos64_pos : 0 < B2R minpos64.
Proof. unfold minpos64. cbn [c_min_positive CB]. rewrite b_lit_pow2 by lia. apply bpow_gt_0. Qed.
Lemma B2R_zero64 : B2R zero64 = 0.
Proof. reflexivity. Qed.

(** the three tests of validate_ratios all pass *)
Definition ctor_ok (orig maxrel : f64) : Prop :=
  @fast_validate_ratio_bad CB orig = false /\
  @fast_validate_maxrel_bad CB maxrel = false /\
  @fast_validate_range_bad CB maxrel orig = false.

Definition lo64 (orig maxrel : f64) : f64 := Bdiv mode_NE orig maxrel.
Definition hi64 (orig maxrel : f64) : f64 := Bmult mode_NE orig maxrel.

Lemma ctor_ok_facts orig maxrel :
  ctor_ok orig maxrel ->
  is_finite orig = true /\ 0 < B2R orig /\
  is_finite maxrel = true /\ 1 <= B2R maxrel /\
  is_finite (hi64 orig maxrel) = true /\
  Bleb minpos64 (lo64 orig maxrel) = true.
Proof.
  intros (H1 & H2 & H3).
  unfold fast_validate_ratio_bad in H1. apply negb_false_iff, andb_true_iff in H1. destruct H1 as [H1a H1b].
  unfold fast_validate_maxrel_bad in H2. apply negb_false_iff, andb_true_iff in H2. destruct H2 as [H2a H2b].
  unfold fast_validate_range_bad in H3. apply negb_false_iff, andb_true_iff in H3. destruct H3 as [H3a H3b].
  cbn [c_is_finite CB] in H1b, H2b, H3a.
  cbn [cltb cleb CB] in H1a, H2a, H3b.
  repeat split; try assumption.
  - rewrite Bltb_correct in H1a by (assumption || reflexivity).
    revert H1a. fold zero64. rewrite B2R_zero64. case Rlt_bool_spec; easy.
  - rewrite Bleb_correct in H2a by (assumption || reflexivity).
    revert H2a. fold one64. rewrite B2R_one64. case Rle_bool_spec; easy.
Qed.

Lemma generic64 (x : f64) : generic_format radix2 fexp64 (B2R x).
Proof. apply generic_format_B2R. Qed.

Lemma RN64_id (x : f64) : RN64 (B2R x) = B2R x.
Proof. apply round_generic; [apply valid_rnd_N | apply generic64]. Qed.

Lemma RN64_le a b : a <= b -> RN64 a <= RN64 b.
Proof. apply round_le; [change fexp64 with (FLT_exp (3 - 1024 - 53) 53); apply FLT_exp_valid; reflexivity | apply valid_rnd_N]. Qed.

Lemma lo_hi_facts orig maxrel :
  ctor_ok orig maxrel ->
  let lo := lo64 orig maxrel in let hi := hi64 orig maxrel in
  is_finite lo = true /\ is_finite hi = true /\
  B2R lo = RN64 (B2R orig / B2R maxrel) /\ B2R hi = RN64 (B2R orig * B2R maxrel) /\
  0 < B2R lo /\ B2R lo <= B2R orig <= B2R hi.
Proof.
  intros Hok lo hi. destruct (ctor_ok_facts _ _ Hok) as (Fo & Po & Fm & Pm & Fhi & Hmin).
  assert (Hm0 : B2R maxrel <> 0) by lra.
  (* hi: finite, hence no overflow *)
  assert (Hhi : B2R hi = RN64 (B2R orig * B2R maxrel)).
  { generalize (Bmult_correct 53 1024 _ _ mode_NE orig maxrel).
    fold hi. cbn [round_mode].
    case Rlt_bool_spec; intros Hlt.
    - intros (E & _). exact E.
    - intros E. exfalso. fold (hi64 orig maxrel) in E. fold hi in E.
      assert (is_finite_SF (B2SF hi) = true) by (rewrite is_finite_SF_B2SF; exact Fhi).
      rewrite E in H. unfold binary_overflow in H. cbn in H. discriminate H. }
  (* lo: quotient of a positive number by something >= 1 cannot overflow *)
  assert (Hq : 0 < B2R orig / B2R maxrel <= B2R orig).
  { split. apply Rdiv_lt_0_compat; lra.
    apply Rmult_le_reg_r with (B2R maxrel); [lra|].
    unfold Rdiv. rewrite Rmult_assoc, Rinv_l by lra. nra. }
  assert (Hrq : 0 <= RN64 (B2R orig / B2R maxrel) <= B2R orig).
  { split.
    - rewrite <- (round_0 radix2 fexp64 ZnearestE). apply RN64_le. lra.
    - apply Rle_trans with (RN64 (B2R orig)); [apply RN64_le; lra | rewrite RN64_id; lra]. }
  generalize (Bdiv_correct 53 1024 _ _ mode_NE orig maxrel Hm0).
  fold (lo64 orig maxrel). fold lo. cbn [round_mode].
  rewrite Rlt_bool_true.
  2:{ rewrite Rabs_pos_eq by lra. eapply Rle_lt_trans; [apply Hrq|].
      eapply Rle_lt_trans; [apply Rle_abs|]. apply abs_B2R_lt_emax. }
  intros (Elo & Flo & _). rewrite Fo in Flo.
  assert (Plo : 0 < B2R lo).
  { rewrite Bleb_correct in Hmin by (assumption || reflexivity).
    revert Hmin. case Rle_bool_spec; [|easy]. intros Hle _.
    eapply Rlt_le_trans; [apply B2R_minpos64_pos | exact Hle]. }
  repeat split; try assumption.
  - rewrite Elo. apply Hrq.
  - rewrite Hhi. apply Rle_trans with (RN64 (B2R orig)); [rewrite RN64_id; lra | apply RN64_le; nra].
Qed.

(** * set_resample_ratio: accepted exactly on [lo, hi] *)
Theorem set_ratio_accept_iff_fast_in (st : @FastFixedIn CB) (r : f64) :
  let orig := FastFixedIn_resample_ratio_original st in
  let maxrel := FastFixedIn_max_relative_ratio st in
  ctor_ok orig maxrel ->
  (@fi_set_ratio_accept CB st r = true <->
   is_finite r = true /\ B2R (lo64 orig maxrel) <= B2R r <= B2R (hi64 orig maxrel)).
Proof.
  intros orig maxrel Hok.
  destruct (lo_hi_facts _ _ Hok) as (Flo & Fhi & _).
  unfold fi_set_ratio_accept. cbn [cleb cdiv cmul CB].
  apply between_sem; assumption.
Qed.

Corollary set_ratio_accept_positive_finite (st : @FastFixedIn CB) (r : f64) :
  ctor_ok (FastFixedIn_resample_ratio_original st) (FastFixedIn_max_relative_ratio st) ->
  @fi_set_ratio_accept CB st r = true -> is_finite r = true /\ 0 < B2R r.
Proof.
  intros Hok H. apply set_ratio_accept_iff_fast_in in H; [|exact Hok].
  destruct (lo_hi_facts _ _ Hok) as (_ & _ & _ & _ & Plo & _).
  destruct H as (F & H1 & _). split; [exact F|lra].
Qed.

(** The same statement for any record: the accept test of all four asynchronous
    types is the same expression in (original, max).                           *)
Definition accept64 (orig maxrel r : f64) : bool :=
  Bleb (lo64 orig maxrel) r && Bleb r (hi64 orig maxrel).

Lemma accept64_iff orig maxrel r :
  ctor_ok orig maxrel ->
  (accept64 orig maxrel r = true <->
   is_finite r = true /\ B2R (lo64 orig maxrel) <= B2R r <= B2R (hi64 orig maxrel)).
Proof.
  intros Hok. destruct (lo_hi_facts _ _ Hok) as (Flo & Fhi & _).
  apply between_sem; assumption.
Qed.

Lemma fi_accept_is st r : @fi_set_ratio_accept CB st r =
  accept64 (FastFixedIn_resample_ratio_original st) (FastFixedIn_max_relative_ratio st) r.
Proof. reflexivity. Qed.
Lemma fo_accept_is st r : @fo_set_ratio_accept CB st r =
  accept64 (FastFixedOut_resample_ratio_original st) (FastFixedOut_max_relative_ratio st) r.
Proof. reflexivity. Qed.
Lemma si_accept_is st r : @si_set_ratio_accept CB st r =
  accept64 (SincFixedIn_resample_ratio_original st) (SincFixedIn_max_relative_ratio st) r.
Proof. reflexivity. Qed.
Lemma so_accept_is st r : @so_set_ratio_accept CB st r =
  accept64 (SincFixedOut_resample_ratio_original st) (SincFixedOut_max_relative_ratio st) r.
Proof. reflexivity. Qed.

(* the sinc constructors run the same three tests *)
Lemma sinc_ctor_tests_same orig maxrel :
  (@sinc_validate_ratio_bad CB orig, @sinc_validate_maxrel_bad CB maxrel, @sinc_validate_range_bad CB maxrel orig) =
  (@fast_validate_ratio_bad CB orig, @fast_validate_maxrel_bad CB maxrel, @fast_validate_range_bad CB maxrel orig).
Proof. reflexivity. Qed.

(** * set_resample_ratio_relative *)
Definition inv_max64 (maxrel : f64) : f64 := Bdiv mode_NE one64 maxrel.
Definition rel_accept64 (maxrel x : f64) : bool := Bleb (inv_max64 maxrel) x && Bleb x maxrel.

Lemma fi_rel_accept_is st x : @fi_set_rel_accept CB st x = rel_accept64 (FastFixedIn_max_relative_ratio st) x.
Proof. reflexivity. Qed.
Lemma fo_rel_accept_is st x : @fo_set_rel_accept CB st x = rel_accept64 (FastFixedOut_max_relative_ratio st) x.
Proof. reflexivity. Qed.
Lemma si_rel_accept_is st x : @si_set_rel_accept CB st x = rel_accept64 (SincFixedIn_max_relative_ratio st) x.
Proof. reflexivity. Qed.
Lemma so_rel_accept_is st x : @so_set_rel_accept CB st x = rel_accept64 (SincFixedOut_max_relative_ratio st) x.
Proof. reflexivity. Qed.

Lemma inv_max_facts maxrel :
  is_finite maxrel = true -> 1 <= B2R maxrel ->
  is_finite (inv_max64 maxrel) = true /\ B2R (inv_max64 maxrel) = RN64 (1 / B2R maxrel) /\
  0 <= B2R (inv_max64 maxrel) <= 1.
Proof.
  intros Fm Pm. assert (Hm0 : B2R maxrel <> 0) by lra.
  assert (Hq : 0 < 1 / B2R maxrel <= 1).
  { split. apply Rdiv_lt_0_compat; lra.
    apply Rmult_le_reg_r with (B2R maxrel); [lra|].
    unfold Rdiv. rewrite Rmult_assoc, Rinv_l by lra. lra. }
  assert (Hrq : 0 <= RN64 (1 / B2R maxrel) <= 1).
  { split.
    - rewrite <- (round_0 radix2 fexp64 ZnearestE). apply RN64_le. lra.
    - rewrite <- B2R_one64. apply Rle_trans with (RN64 (B2R one64)); [apply RN64_le; rewrite B2R_one64; lra | rewrite RN64_id; lra]. }
  generalize (Bdiv_correct 53 1024 _ _ mode_NE one64 maxrel Hm0).
  fold (inv_max64 maxrel). cbn [round_mode]. rewrite B2R_one64.
  rewrite Rlt_bool_true.
  2:{ rewrite Rabs_pos_eq by lra. eapply Rle_lt_trans; [apply Hrq|].
      change 1 with (bpow radix2 0). apply bpow_lt. lia. }
  intros (E & F & _). rewrite finite_one64 in F.
  repeat split; try assumption; rewrite E; apply Hrq.
Qed.

Theorem rel_accept64_iff maxrel x :
  is_finite maxrel = true -> 1 <= B2R maxrel ->
  (rel_accept64 maxrel x = true <->
   is_finite x = true /\ B2R (inv_max64 maxrel) <= B2R x <= B2R maxrel).
Proof.
  intros Fm Pm. destruct (inv_max_facts _ Fm Pm) as (Fi & _).
  apply between_sem; assumption.
Qed.

(** The product original*x, clamped as the code does, is always inside the absolute bounds. *)
Definition clamp64 (lo hi v : f64) : f64 := b_min 53 1024 (b_max 53 1024 v lo) hi.

Lemma fi_clamped_is st mx mn nr : @fi_set_rel_clamped CB st mx mn nr = clamp64 mn mx nr.
Proof. reflexivity. Qed.
Lemma fo_clamped_is st mx mn nr : @fo_set_rel_clamped CB st mx mn nr = clamp64 mn mx nr.
Proof. reflexivity. Qed.
Lemma si_clamped_is st mx mn nr : @si_set_rel_clamped CB st mx mn nr = clamp64 mn mx nr.
Proof. reflexivity. Qed.
Lemma so_clamped_is st mx mn nr : @so_set_rel_clamped CB st mx mn nr = clamp64 mn mx nr.
Proof. reflexivity. Qed.

Lemma Bltb_false_nan_r x : Bltb x (B754_nan : f64) = false.
Proof. destruct x; reflexivity. Qed.

Lemma clamp_between (lo hi v : f64) :
  is_finite lo = true -> is_finite hi = true -> B2R lo <= B2R hi ->
  Bleb lo (clamp64 lo hi v) && Bleb (clamp64 lo hi v) hi = true.
Proof.
  intros Flo Fhi Hle.
  assert (Hlolo : Bleb lo lo && Bleb lo hi = true).
  { apply between_sem; try assumption. split; [assumption|lra]. }
  assert (Hhihi : Bleb lo hi && Bleb hi hi = true).
  { apply between_sem; try assumption. split; [assumption|lra]. }
  assert (Hhl : Bltb hi lo = false).
  { rewrite Bltb_correct by assumption. apply Rlt_bool_false. lra. }
  unfold clamp64.
  (* b_max v lo *)
  assert (Hmax : b_max 53 1024 v lo = lo \/
                 (b_max 53 1024 v lo = v /\ is_nan v = false /\ Bltb v lo = false)).
  { unfold b_max. destruct v as [s|s| |s m e Hb]; destruct lo as [s'|s'| |s' m' e' Hb']; try discriminate;
      try (left; reflexivity);
      match goal with |- context [if ?c then _ else _] => destruct c eqn:Hc end; auto. }
  destruct Hmax as [-> | (-> & Hn & Hvl)].
  - unfold b_min. destruct lo as [s|s| |s m e Hb]; try discriminate; destruct hi as [s'|s'| |s' m' e' Hb']; try discriminate;
      rewrite Hhl; exact Hlolo.
  - unfold b_min.
    destruct v as [s|s| |s m e Hb]; try discriminate; destruct hi as [s'|s'| |s' m' e' Hb'] eqn:Ehi; try discriminate;
      match goal with |- context [if ?c then _ else _] => destruct c eqn:Hc end;
      try (rewrite <- Ehi in *; exact Hhihi);
      try (rewrite <- Ehi in *;
           apply between_sem; try assumption; split; [reflexivity|];
           rewrite Bltb_correct in Hc, Hvl by (assumption || reflexivity);
           revert Hc Hvl; case Rlt_bool_spec; try easy; case Rlt_bool_spec; try easy; intros; lra).
    all: try (destruct s; cbn in Hc; try discriminate).
    all: try (destruct lo; destruct s; cbn in Hvl; discriminate).
    all: destruct lo; try discriminate; cbn in Hvl; discriminate.
Qed.

Lemma clamped_accepted orig maxrel v : ctor_ok orig maxrel ->
  accept64 orig maxrel (clamp64 (lo64 orig maxrel) (hi64 orig maxrel) v) = true.
Proof.
  intros Hok. destruct (lo_hi_facts _ _ Hok) as (Flo & Fhi & _ & _ & _ & H1 & H2).
  apply clamp_between; try assumption. lra.
Qed.
