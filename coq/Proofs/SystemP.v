(** C18: a process with several resampler instances, each driven by its own calls in any
    interleaving (threads, migration between threads at call boundaries): since an instance's
    step reads and writes only that instance's state, the projection of any schedule on one
    instance equals running that instance alone.  Generic over the step function.          *)

From Coq Require Import List Arith Bool Lia.
Import ListNotations.

Section System.
Context {St Op Out : Type}.
Variable step : St -> Op -> St * Out.

Fixpoint update (i : nat) (s : St) (l : list St) : list St :=
  match l, i with
  | [], _ => []
  | _ :: r, O => s :: r
  | x :: r, S j => x :: update j s r
  end.

(* global state = the list of instance states; one schedule entry = (instance, operation) *)
Fixpoint sys_run (sts : list St) (sched : list (nat * Op)) : list St * list (nat * Out) :=
  match sched with
  | [] => (sts, [])
  | (i, o) :: rest =>
      match nth_error sts i with
      | None => sys_run sts rest
      | Some s =>
          let '(s', out) := step s o in
          let '(fin, outs) := sys_run (update i s' sts) rest in
          (fin, (i, out) :: outs)
      end
  end.

Fixpoint run1 (s : St) (ops : list Op) : St * list Out :=
  match ops with
  | [] => (s, [])
  | o :: rest => let '(s', out) := step s o in let '(fin, outs) := run1 s' rest in (fin, out :: outs)
  end.

Definition proj_ops (i : nat) (sched : list (nat * Op)) : list Op :=
  map snd (filter (fun p => Nat.eqb (fst p) i) sched).
Definition proj_outs (i : nat) (outs : list (nat * Out)) : list Out :=
  map snd (filter (fun p => Nat.eqb (fst p) i) outs).

Lemma nth_error_update_same i s l : (i < length l)%nat -> nth_error (update i s l) i = Some s.
Proof. revert i. induction l as [|x r IH]; intros [|i] H; cbn in *; try lia; [reflexivity|]. apply IH. lia. Qed.

Lemma nth_error_update_other i j s l : i <> j -> nth_error (update i s l) j = nth_error l j.
Proof.
  revert i j. induction l as [|x r IH]; intros [|i] [|j] H; cbn; try reflexivity; try congruence. apply IH. congruence.
Qed.

Theorem interleaving_projection : forall sched sts i s,
  nth_error sts i = Some s ->
  nth_error (fst (sys_run sts sched)) i = Some (fst (run1 s (proj_ops i sched))) /\
  proj_outs i (snd (sys_run sts sched)) = snd (run1 s (proj_ops i sched)).
Proof.
  induction sched as [|[j o] rest IH]; intros sts i s Hs; cbn [sys_run].
  - cbn. split; [exact Hs|reflexivity].
  - destruct (nth_error sts j) as [sj|] eqn:Ej.
    + destruct (step sj o) as [sj' out] eqn:Est.
      destruct (Nat.eq_dec j i) as [->|Hne].
      * rewrite Hs in Ej. injection Ej as <-.
        assert (Hlen : (i < length sts)%nat) by (apply nth_error_Some; congruence).
        specialize (IH (update i sj' sts) i sj' (nth_error_update_same i sj' sts Hlen)).
        destruct (sys_run (update i sj' sts) rest) as [fin outs]. cbn [fst snd] in *.
        unfold proj_ops, proj_outs in *. cbn [filter fst]. rewrite Nat.eqb_refl. cbn [map snd run1]. rewrite Est.
        destruct (run1 sj' _) as [f1 o1]. cbn [fst snd] in *. destruct IH as [H1 H2]. split; [exact H1|]. rewrite H2. reflexivity.
      * assert (Hs' : nth_error (update j sj' sts) i = Some s) by (rewrite nth_error_update_other by exact Hne; exact Hs).
        specialize (IH (update j sj' sts) i s Hs').
        destruct (sys_run (update j sj' sts) rest) as [fin outs]. cbn [fst snd] in *.
        unfold proj_ops, proj_outs in *. cbn [filter fst].
        destruct (Nat.eqb_spec j i); [contradiction|]. exact IH.
    + destruct (Nat.eq_dec j i) as [->|Hne]; [congruence|].
      specialize (IH sts i s Hs). unfold proj_ops in *. cbn [filter fst]. destruct (Nat.eqb_spec j i); [contradiction|]. exact IH.
Qed.

End System.
