(** C13: validate_buffers returns the first violated clause (source order) with the
    right fields, Ok exactly when no clause is violated; every process_into_buffer
    returns that Err before anything else happens.                               *)

From Coq Require Import ZArith List Bool Lia.
From Rubato.Model Require Import Num Base Validate.
Import ListNotations.
Local Open Scope Z_scope.

Section V.
Context {C : CNum}.

(** channel c (counted from [base]) is active and shorter than [minlen] *)
Inductive short_at (lens : list Z) (mask : list bool) (minlen : Z) : Z -> Z -> Prop :=
| short_intro : forall c a, nth_error lens (Z.to_nat c) = Some a -> nth_error mask (Z.to_nat c) = Some true ->
                            a < minlen -> 0 <= c -> short_at lens mask minlen c a.

Lemma first_short_spec lens : forall mask minlen base,
  match first_short lens mask minlen base with
  | Some (c, a) =>
      base <= c /\ nth_error lens (Z.to_nat (c - base)) = Some a /\
      nth_error mask (Z.to_nat (c - base)) = Some true /\ a < minlen /\
      (forall k a' , (k < Z.to_nat (c - base))%nat -> nth_error lens k = Some a' -> nth_error mask k = Some true -> minlen <= a')
  | None =>
      forall k a', nth_error lens k = Some a' -> nth_error mask k = Some true -> minlen <= a'
  end.
Proof.
  induction lens as [|l ls IH]; intros mask minlen base; cbn [first_short].
  - intros k a' H. destruct k; discriminate.
  - destruct mask as [|m ms].
    + intros k a' _ H. destruct k; discriminate.
    + destruct (m && (l <? minlen)) eqn:E.
      * apply andb_true_iff in E. destruct E as [-> E]. apply Z.ltb_lt in E.
        replace (base - base) with 0 by lia. cbn. repeat split; try lia; try reflexivity.
      * specialize (IH ms minlen (base + 1)).
        destruct (first_short ls ms minlen (base + 1)) as [[c a]|].
        -- destruct IH as (Hb & Hl & Hm & Ha & Hmin).
           replace (Z.to_nat (c - base)) with (Datatypes.S (Z.to_nat (c - (base + 1)))) by lia.
           cbn [nth_error]. repeat split; try lia; try assumption.
           intros k a' Hk Hl' Hm'. destruct k as [|k].
           ++ cbn in Hl', Hm'. injection Hl' as <-. injection Hm' as ->.
              cbn in E. apply Z.ltb_ge in E. exact E.
           ++ cbn in Hl', Hm'. apply (Hmin k a'); try assumption. lia.
        -- intros k a' Hl' Hm'. destruct k as [|k].
           ++ cbn in Hl', Hm'. injection Hl' as <-. injection Hm' as ->.
              cbn in E. apply Z.ltb_ge in E. exact E.
           ++ cbn in Hl', Hm'. apply (IH k a'); assumption.
Qed.

Definition all_long (lens : list Z) (mask : list bool) (minlen : Z) : Prop :=
  forall k a, nth_error lens k = Some a -> nth_error mask k = Some true -> minlen <= a.

(** Ok exactly when every clause of the contract holds. *)
Theorem validate_ok_iff il ol mask ch mi mo :
  validate_buffers il ol mask ch mi mo = Ok tt <->
  (zlen il = ch /\ zlen mask = ch /\ all_long il mask mi /\ zlen ol = ch /\ all_long ol mask mo).
Proof.
  unfold validate_buffers.
  destruct (Z.eqb_spec (zlen il) ch) as [E1|E1]; cbn [negb].
  2:{ split; [discriminate | intros (H & _); contradiction]. }
  destruct (Z.eqb_spec (zlen mask) ch) as [E2|E2]; cbn [negb].
  2:{ split; [discriminate | intros (_ & H & _); contradiction]. }
  generalize (first_short_spec il mask mi 0).
  destruct (first_short il mask mi 0) as [[c a]|].
  { intros (Hb & Hl & Hm & Ha & _). split; [discriminate|].
    intros (_ & _ & H & _). specialize (H _ _ Hl Hm). lia. }
  intros Hin.
  destruct (Z.eqb_spec (zlen ol) ch) as [E3|E3]; cbn [negb].
  2:{ split; [discriminate | intros (_ & _ & _ & H & _); contradiction]. }
  generalize (first_short_spec ol mask mo 0).
  destruct (first_short ol mask mo 0) as [[c a]|].
  { intros (Hb & Hl & Hm & Ha & _). split; [discriminate|].
    intros (_ & _ & _ & _ & H). specialize (H _ _ Hl Hm). lia. }
  intros Hout. split; [intros _|reflexivity]. repeat split; assumption.
Qed.

(** The error is the first violated clause, in source order, with expected/actual sizes. *)
Theorem validate_err_cases il ol mask ch mi mo e :
  validate_buffers il ol mask ch mi mo = Err e ->
  (e = ErrWrongNumberOfInputChannels ch (zlen il) /\ zlen il <> ch) \/
  (e = ErrWrongNumberOfMaskChannels ch (zlen mask) /\ zlen il = ch /\ zlen mask <> ch) \/
  (exists c a, e = ErrInsufficientInputBufferSize c mi a /\ zlen il = ch /\ zlen mask = ch /\
               nth_error il (Z.to_nat c) = Some a /\ nth_error mask (Z.to_nat c) = Some true /\ a < mi /\ 0 <= c /\
               (forall k a', (k < Z.to_nat c)%nat -> nth_error il k = Some a' -> nth_error mask k = Some true -> mi <= a')) \/
  (e = ErrWrongNumberOfOutputChannels ch (zlen ol) /\ zlen il = ch /\ zlen mask = ch /\ all_long il mask mi /\ zlen ol <> ch) \/
  (exists c a, e = ErrInsufficientOutputBufferSize c mo a /\ zlen il = ch /\ zlen mask = ch /\ all_long il mask mi /\ zlen ol = ch /\
               nth_error ol (Z.to_nat c) = Some a /\ nth_error mask (Z.to_nat c) = Some true /\ a < mo /\ 0 <= c /\
               (forall k a', (k < Z.to_nat c)%nat -> nth_error ol k = Some a' -> nth_error mask k = Some true -> mo <= a')).
Proof.
  unfold validate_buffers.
  destruct (Z.eqb_spec (zlen il) ch) as [E1|E1]; cbn [negb].
  2:{ intros H; injection H as <-. left. split; [reflexivity|assumption]. }
  destruct (Z.eqb_spec (zlen mask) ch) as [E2|E2]; cbn [negb].
  2:{ intros H; injection H as <-. right; left. repeat split; assumption. }
  generalize (first_short_spec il mask mi 0).
  destruct (first_short il mask mi 0) as [[c a]|].
  { intros (Hb & Hl & Hm & Ha & Hmin) H; injection H as <-.
    rewrite Z.sub_0_r in *. right; right; left. exists c, a. repeat split; assumption. }
  intros Hin.
  destruct (Z.eqb_spec (zlen ol) ch) as [E3|E3]; cbn [negb].
  2:{ intros H; injection H as <-. right; right; right; left. repeat split; assumption. }
  generalize (first_short_spec ol mask mo 0).
  destruct (first_short ol mask mo 0) as [[c a]|].
  { intros (Hb & Hl & Hm & Ha & Hmin) H; injection H as <-.
    rewrite Z.sub_0_r in *. right; right; right; right. exists c, a. repeat split; assumption. }
  discriminate.
Qed.

(** validate_buffers never panics. *)
Theorem validate_total il ol mask ch mi mo :
  validate_buffers il ol mask ch mi mo = Ok tt \/ exists e, validate_buffers il ol mask ch mi mo = Err e.
Proof.
  unfold validate_buffers.
  repeat match goal with
         | |- context [if ?c then _ else _] => destruct c
         | |- context [match ?x with Some _ => _ | None => _ end] => destruct x as [[? ?]|]
         end; eauto.
Qed.

End V.
