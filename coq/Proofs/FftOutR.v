(** FftFixedOut (synchro.rs) in ideal arithmetic (the f32 quotient of chunks_needed read as the real
    quotient): under the invariant established by the constructor and the length contract of the
    spectral core, every well-formed call returns Ok, consumes exactly input_frames_next() =
    frames_needed frames, produces exactly chunk_size_out frames, and keeps the invariant
    (0 <= saved_frames < fft_size_out; frames_needed = ceil((chunk_size_out - saved)+ / fft_size_out) * fft_size_in). *)

From Coq Require Import ZArith Reals List Bool Lra Lia.
From Flocq Require Import Core.
From Rubato.Model Require Import Num Reals Base Validate Fft.
From Rubato.Gen Require Import SynchroGen.
From Rubato.Proofs Require Import ShapeP ValidateP MalformedP FftInOutP ChunksP FftInR.
Import ListNotations.
Local Open Scope Z_scope.

(** number of blocks needed to cover fno frames *)
Definition blocks_for (fno fout : Z) : Z := Zceil (IZR fno / IZR fout).

Lemma blocks_for_bounds fno fout : 0 <= fno -> 1 <= fout ->
  0 <= blocks_for fno fout /\ fno <= blocks_for fno fout * fout < fno + fout.
Proof.
  intros Hn Hf. unfold blocks_for.
  assert (Hf' : (1 <= IZR fout)%R) by (apply IZR_le; lia).
  assert (Hn' : (0 <= IZR fno)%R) by (apply IZR_le; lia).
  set (q := (IZR fno / IZR fout)%R).
  assert (Hq : (IZR fno = q * IZR fout)%R) by (unfold q; field; lra).
  generalize (Zceil_ub q) (Zceil_lb q). intros U L.
  assert (Hq0 : (0 <= q)%R) by (unfold q; apply Rmult_le_pos; [lra | apply Rlt_le, Rinv_0_lt_compat; lra]).
  split.
  - apply le_IZR. lra.
  - split.
    + apply le_IZR. rewrite mult_IZR, Hq. apply Rmult_le_compat_r; lra.
    + apply lt_IZR. rewrite mult_IZR, plus_IZR, Hq.
      assert ((IZR (Zceil q) - q) * IZR fout < 1 * IZR fout)%R by (apply Rmult_lt_compat_r; lra). lra.
Qed.

Section XO.
Variable unit_fn : list (@snum CR SR) -> list (@snum CR SR).
Notation ST := (@fstate CR SR (@FftFixedOut)).

Definition ofin (s : ST) : Z := FftFixedOut_fft_size_in (fs_ctl s).
Definition ofout (s : ST) : Z := FftFixedOut_fft_size_out (fs_ctl s).
Definition oCo (s : ST) : Z := FftFixedOut_chunk_size_out (fs_ctl s).
Definition onc (s : ST) : Z := FftFixedOut_nbr_channels (fs_ctl s).
Definition osaved (s : ST) : Z := FftFixedOut_saved_frames (fs_ctl s).
Definition oneed (s : ST) : Z := FftFixedOut_frames_needed (fs_ctl s).

Record xo_wf (s : ST) : Prop := {
  ow_fin : 1 <= ofin s;
  ow_fout : 1 <= ofout s;
  ow_Co : 1 <= oCo s;
  ow_n : 0 <= onc s;
  ow_saved : 0 <= osaved s < ofout s;
  ow_need : oneed s = blocks_for (Z.max (oCo s - osaved s) 0) (ofout s) * ofin s;
  ow_bufn : length (fs_bufs s) = Z.to_nat (onc s);
  ow_bufs : Forall (fun b => zlen b = oCo s + ofout s) (fs_bufs s);
  ow_ovn : length (fs_overlaps s) = Z.to_nat (onc s);
  ow_ov : Forall (fun o => zlen o = ofout s) (fs_overlaps s);
  ow_mask : length (fs_mask s) = Z.to_nat (onc s);
  ow_unit : forall w, zlen w = ofin s -> zlen (unit_fn w) = 2 * ofout s;
}.

Lemma chunks_needed_R (st : @FftFixedOut) fno : 0 <= fno -> 1 <= FftFixedOut_fft_size_out st ->
  @xo_chunks_needed CR st fno = blocks_for fno (FftFixedOut_fft_size_out st).
Proof.
  intros Hn Hf. unfold xo_chunks_needed. cbn [c32_to_usize ceil32 div32 c32_of_Z CR]. rewrite Ztrunc_IZR.
  apply Z.max_r. apply (blocks_for_bounds fno _ Hn Hf).
Qed.

(** the two per-channel passes of process_into_buffer, named *)
Definition xo_f1 (fin fout nd sv : Z) : list (@snum CR SR) * list (@snum CR SR) * list (@snum CR SR) ->
                                        @res CR (list (@snum CR SR) * list (@snum CR SR) * list (@snum CR SR)) :=
  fun '(wi0, ob, ov) =>
    if negb (in_range wi0 0 nd) then Panic PSliceIndex else
    if negb (in_range ob sv (zlen ob)) then Panic PSliceIndex else
    if (fin =? 0) || (fout =? 0) then Panic PChunkZero else
    do r <- run_units unit_fn fin fout (chunks fin (slice wi0 0 nd)) (chunks fout (skipn (Z.to_nat sv) ob)) ov;
    let '(obs, ov') := r in Ok (wi0, firstn (Z.to_nat sv) ob ++ concat obs, ov').

Definition xo_f2 (Co sv' : Z) : list (@snum CR SR) * list (@snum CR SR) -> @res CR (list (@snum CR SR) * list (@snum CR SR)) :=
  fun '(wo0, ob) =>
    if negb (in_range wo0 0 Co) || negb (in_range ob 0 Co) then Panic PSliceIndex else
    if negb (Co =? Co) then Panic PCopyLen else
    match copy_within ob Co (Co + sv') 0 with
    | None => Panic PSliceIndex
    | Some ob' => Ok (slice ob 0 Co ++ skipn (Z.to_nat Co) wo0, ob')
    end.

Theorem xo_call_stages (s : ST) wi wo m :
  xo_wf s ->
  @x_precheck CR SR (xo_mask_bad (fs_ctl s)) (xo_val_channels (fs_ctl s)) (xo_val_min_in (fs_ctl s))
              (xo_val_min_out (fs_ctl s)) (fs_mask s) wi wo m = Ok tt ->
  exists s' outs mask r1 r2,
    @xo_pib CR SR unit_fn s wi wo m = Ok (s', (oneed s, oCo s), outs) /\ xo_wf s' /\
    osaved s' + oCo s = osaved s + (oneed s / ofin s) * ofout s /\
    ofin s' = ofin s /\ ofout s' = ofout s /\ oCo s' = oCo s /\ onc s' = onc s /\
    @prologue CR (xo_mask_bad (fs_ctl s)) (xo_val_channels (fs_ctl s)) (fs_mask s) m = Ok mask /\
    @per_channel CR _ (xo_f1 (ofin s) (ofout s) (oneed s) (osaved s)) (zip3 wi (fs_bufs s) (fs_overlaps s)) mask = Ok r1 /\
    @per_channel CR _ (xo_f2 (oCo s) (osaved s')) (combine wo (map (fun x => snd (fst x)) r1)) mask = Ok r2 /\
    fs_overlaps s' = map (fun x => snd x) r1 /\ outs = map fst r2 /\ fs_bufs s' = map snd r2.
Proof.
  intros W Hpre. unfold x_precheck in Hpre. unfold xo_pib.
  destruct W as [Wfin Wfout WCo Wn Wsv Wnd Wbn Wb Won Wo Wm Wu].
  unfold ofin, ofout, oCo, onc, osaved, oneed in *.
  set (st := fs_ctl s) in *.
  set (fin := FftFixedOut_fft_size_in st) in *. set (fout := FftFixedOut_fft_size_out st) in *.
  set (Co := FftFixedOut_chunk_size_out st) in *. set (sv := FftFixedOut_saved_frames st) in *.
  set (nd := FftFixedOut_frames_needed st) in *. set (nch := FftFixedOut_nbr_channels st) in *.
  set (k := blocks_for (Z.max (Co - sv) 0) fout) in *.
  destruct (blocks_for_bounds (Z.max (Co - sv) 0) fout ltac:(lia) Wfout) as (Hk0 & Hk1 & Hk2). fold k in Hk0, Hk1, Hk2.
  destruct (prologue (xo_mask_bad st) (xo_val_channels st) (fs_mask s) m) as [mask| | | |] eqn:Epro;
    cbn [bind] in Hpre |- *; try discriminate.
  unfold xo_val_channels, xo_val_min_in, xo_val_min_out in Hpre |- *. fold nch nd Co in Hpre |- *.
  destruct (validate_buffers (map zlen wi) (map zlen wo) mask nch nd Co) as [[]| | | |] eqn:Eval;
    cbn [bind] in Hpre |- *; try discriminate.
  apply validate_ok_iff in Eval. destruct Eval as (Vi & Vm & Vil & Vo & Vol).
  unfold zlen in Vi, Vm, Vo. rewrite map_length in Vi, Vo.
  assert (Hq : nd / fin = k) by (rewrite Wnd; apply Z.div_mul; lia).
  (* --- pass 1: the spectral core into the internal output buffers *)
  unfold xo_in_hi, xo_obuf_lo, xo_in_chunk, xo_out_chunk. fold nd sv fin fout.
  set (f1 := fun '(wi0, ob, ov) => _).
  destruct (per_channel_rel (C:=CR) f1
              (fun x y => fst (fst y) = fst (fst x) /\ zlen (snd (fst y)) = zlen (snd (fst x)) /\ (zlen (snd x) = fout -> zlen (snd y) = fout))
              ltac:(intros; repeat split; auto) (zip3 wi (fs_bufs s) (fs_overlaps s)) mask) as (r1 & E1 & F1).
  { rewrite zip3_length; lia. }
  { intros j [[w ob] ov] Hj Hm. destruct (zip3_nth _ _ _ _ _ _ _ Hj) as (Kw & Kb & Ko).
    assert (Lw : nd <= zlen w) by (apply (Vil j (zlen w)); [rewrite nth_error_map, Kw; reflexivity | exact Hm]).
    assert (Lob : zlen ob = Co + fout) by (rewrite Forall_forall in Wb; apply Wb; eapply nth_error_In; exact Kb).
    assert (Lov : zlen ov = fout) by (rewrite Forall_forall in Wo; apply Wo; eapply nth_error_In; exact Ko).
    unfold f1.
    assert (R1 : in_range w 0 nd = true) by (apply in_range_iff; lia). rewrite R1. cbn [negb].
    assert (R2 : in_range ob sv (zlen ob) = true) by (apply in_range_iff; lia). rewrite R2. cbn [negb].
    assert (Ez : (fin =? 0) || (fout =? 0) = false) by (apply orb_false_iff; split; apply Z.eqb_neq; lia). rewrite Ez.
    destruct (chunks_exact fin (Z.to_nat k) (slice w 0 nd) ltac:(lia)) as [Ci1 Ci2].
    { rewrite slice_length by lia. rewrite Z2Nat.id by lia. lia. }
    assert (Lsk : zlen (skipn (Z.to_nat sv) ob) = Co + fout - sv) by (unfold zlen in *; rewrite skipn_length; lia).
    assert (Hroom : Z.of_nat (Z.to_nat k) * fout <= zlen (skipn (Z.to_nat sv) ob)).
    { rewrite Z2Nat.id by lia. change (@snum CR SR) with R in *. rewrite Lsk. nia. }
    destruct (chunks_full fout (Z.to_nat k) (skipn (Z.to_nat sv) ob) ltac:(lia) Hroom) as [Co1 Co2].
    destruct (@run_units_ok CR SR unit_fn fin fout ltac:(lia) Wu (chunks fin (slice w 0 nd)) (chunks fout (skipn (Z.to_nat sv) ob)) ov Ci2 Lov)
      as (os & ov' & Er & Mr & Lr).
    { rewrite Ci1. exact Co1. }
    { rewrite Ci1. exact Co2. }
    rewrite Er. cbn [bind]. eexists. split; [reflexivity|]. cbn [fst snd]. split; [reflexivity|]. split; [|intros _; exact Lr].
    unfold zlen at 1. rewrite app_length, firstn_length.
    generalize (concat_zlen_map _ _ Mr). rewrite chunks_concat by lia. unfold zlen in *. rewrite skipn_length. lia. }
  rewrite E1. cbn [bind].
  set (bufs1 := map (fun x => snd (fst x)) r1). set (ovs1 := map (fun x => snd x) r1).
  assert (Lr1 : length r1 = Z.to_nat nch) by (rewrite (F2_length _ _ _ F1), zip3_length; lia).
  assert (Fb1 : Forall (fun b => zlen b = Co + fout) bufs1).
  { unfold bufs1. apply Forall_forall. intros b Hb. apply in_map_iff in Hb. destruct Hb as ([[w' b'] v'] & <- & Hin). cbn [fst snd].
    apply In_nth_error in Hin. destruct Hin as (j & Hj).
    destruct (F2_nth_r _ _ _ F1 j _ Hj) as ([[w0 b0] v0] & Hj0 & _ & Hz & _). cbn [fst snd] in Hz. rewrite Hz.
    destruct (zip3_nth _ _ _ _ _ _ _ Hj0) as (_ & Kb & _). rewrite Forall_forall in Wb. apply Wb. eapply nth_error_In; exact Kb. }
  assert (Fo1 : Forall (fun o => zlen o = fout) ovs1).
  { unfold ovs1. apply Forall_forall. intros o Ho. apply in_map_iff in Ho. destruct Ho as ([[w' b'] v'] & <- & Hin). cbn [snd].
    apply In_nth_error in Hin. destruct Hin as (j & Hj).
    destruct (F2_nth_r _ _ _ F1 j _ Hj) as ([[w0 b0] v0] & Hj0 & _ & _ & Hz). cbn [fst snd] in Hz. apply Hz.
    destruct (zip3_nth _ _ _ _ _ _ _ Hj0) as (_ & _ & Ko). rewrite Forall_forall in Wo. apply Wo. eapply nth_error_In; exact Ko. }
  (* --- pass 2: hand out chunk_size_out frames, keep the rest *)
  unfold xo_processed_frames, xo_enough, xo_saved_if_enough. fold sv fout nd fin Co.
  rewrite Z.quot_div_nonneg by lia. rewrite Hq.
  assert (Een : (sv + fout * k >=? Co) = true) by (apply Z.geb_le; nia). rewrite Een.
  set (sv' := sv + fout * k - Co).
  assert (Hk3 : sv + fout * k - Co < fout).
  { destruct (Z.max_spec (Co - sv) 0) as [[Hc Hm]|[Hc Hm]]; rewrite Hm in Hk2; [|nia].
    assert (k = 0) by nia. subst k. lia. }
  assert (Hsv' : 0 <= sv' < fout) by (unfold sv'; nia).
  set (st1 := set_FftFixedOut_saved_frames st sv').
  unfold xo_copy_hi, xo_copy_src_hi, xo_keep_lo, xo_keep_hi.
  assert (P1 : FftFixedOut_chunk_size_out st1 = Co /\ FftFixedOut_saved_frames st1 = sv' /\ FftFixedOut_fft_size_out st1 = fout /\
               FftFixedOut_fft_size_in st1 = fin /\ FftFixedOut_nbr_channels st1 = nch) by (repeat split; reflexivity).
  destruct P1 as (P1c & P1s & P1o & P1i & P1n). rewrite P1c, P1s.
  set (f2 := fun '(wo0, ob) => _).
  destruct (per_channel_rel (C:=CR) f2 (fun x y => zlen (fst y) = zlen (fst x) /\ zlen (snd y) = zlen (snd x)) ltac:(intros; split; reflexivity)
              (combine wo bufs1) mask) as (r2 & E2 & F2).
  { rewrite combine_length. unfold bufs1. rewrite map_length. lia. }
  { intros j [o ob] Hj Hm. destruct (combine_nth _ _ _ _ _ Hj) as (Ko & Kb).
    assert (Lo : Co <= zlen o) by (apply (Vol j (zlen o)); [rewrite nth_error_map, Ko; reflexivity | exact Hm]).
    assert (Lob : zlen ob = Co + fout) by (rewrite Forall_forall in Fb1; apply Fb1; eapply nth_error_In; exact Kb).
    unfold f2.
    assert (R1 : in_range o 0 Co = true) by (apply in_range_iff; lia).
    assert (R2 : in_range ob 0 Co = true) by (apply in_range_iff; lia). rewrite R1, R2. cbn [negb orb].
    rewrite Z.eqb_refl. cbn [negb].
    destruct (copy_within_some ob Co (Co + sv') 0) as (ob' & Ec & Lc); try lia.
    rewrite Ec. eexists. split; [reflexivity|]. cbn [fst snd]. split; [|exact Lc].
    unfold zlen in *. rewrite app_length, skipn_length. generalize (slice_length ob 0 Co ltac:(lia) ltac:(lia) ltac:(unfold zlen; lia)). unfold zlen. lia. }
  rewrite E2. cbn [bind].
  (* --- the next request *)
  unfold xo_frames_needed_out, xo_input_frames_used, xo_frames_needed_next. rewrite P1c, P1s.
  assert (Efno : (if Co >? sv' then Co - sv' else 0) = Z.max (Co - sv') 0) by (destruct (Z.gtb_spec Co sv'); lia).
  rewrite Efno. rewrite chunks_needed_R by (rewrite ?P1o; lia). rewrite P1o, P1i.
  eexists _, _, mask, r1, r2. split; [unfold xo_ret_in, xo_ret_out; cbn [FftFixedOut_chunk_size_out FftFixedOut_frames_needed set_FftFixedOut_frames_needed set_FftFixedOut_saved_frames]; fold st nd Co; reflexivity|].
  assert (Lr2 : length r2 = Z.to_nat nch) by (rewrite (F2_length _ _ _ F2), combine_length; unfold bufs1; rewrite map_length; lia).
  split.
  - constructor; unfold ofin, ofout, oCo, onc, osaved, oneed; cbn [fs_ctl fs_bufs fs_overlaps fs_mask];
      cbn [FftFixedOut_nbr_channels FftFixedOut_chunk_size_out FftFixedOut_fft_size_in FftFixedOut_fft_size_out FftFixedOut_saved_frames
           FftFixedOut_frames_needed set_FftFixedOut_frames_needed set_FftFixedOut_saved_frames]; fold st fin fout Co nch; try assumption; try lia; try reflexivity.
    + rewrite map_length. exact Lr2.
    + apply Forall_forall. intros b Hb. apply in_map_iff in Hb. destruct Hb as ([o' b'] & <- & Hin). cbn [snd].
      apply In_nth_error in Hin. destruct Hin as (j & Hj).
      destruct (F2_nth_r _ _ _ F2 j _ Hj) as ([o0 b0] & Hj0 & _ & Hz). cbn [fst snd] in Hz. rewrite Hz.
      destruct (combine_nth _ _ _ _ _ Hj0) as (_ & Kb). rewrite Forall_forall in Fb1. apply Fb1. eapply nth_error_In; exact Kb.
    + unfold ovs1. rewrite map_length. exact Lr1.
  - unfold ofin, ofout, oCo, onc, osaved, oneed; cbn [fs_ctl fs_bufs fs_overlaps];
      cbn [FftFixedOut_nbr_channels FftFixedOut_chunk_size_out FftFixedOut_fft_size_in FftFixedOut_fft_size_out FftFixedOut_saved_frames
           FftFixedOut_frames_needed set_FftFixedOut_frames_needed set_FftFixedOut_saved_frames]. fold st fin fout Co nch nd sv.
    split; [rewrite P1s; unfold sv'; lia|]. split; [reflexivity|]. split; [reflexivity|]. split; [reflexivity|]. split; [reflexivity|].
    split; [first [reflexivity | exact Epro]|]. split; [first [exact E1 | reflexivity]|].
    split; [rewrite P1s; first [exact E2 | reflexivity]|]. split; [reflexivity|]. split; reflexivity.
Qed.

Theorem xo_call_safe (s : ST) wi wo m :
  xo_wf s ->
  @x_precheck CR SR (xo_mask_bad (fs_ctl s)) (xo_val_channels (fs_ctl s)) (xo_val_min_in (fs_ctl s))
              (xo_val_min_out (fs_ctl s)) (fs_mask s) wi wo m = Ok tt ->
  exists s' outs, @xo_pib CR SR unit_fn s wi wo m = Ok (s', (oneed s, oCo s), outs) /\ xo_wf s' /\
                  osaved s' + oCo s = osaved s + (oneed s / ofin s) * ofout s /\
                  ofin s' = ofin s /\ ofout s' = ofout s /\ oCo s' = oCo s /\ onc s' = onc s.
Proof.
  intros W Hpre. destruct (xo_call_stages s wi wo m W Hpre) as (s' & outs & mask & r1 & r2 & E & W' & H1 & H2 & H3 & H4 & H5 & _).
  exists s', outs. split; [exact E|]. split; [exact W'|]. split; [exact H1|]. split; [exact H2|]. split; [exact H3|]. split; [exact H4|exact H5].
Qed.

End XO.

(** * Histories and the constructor *)
Section XOHist.
Variable unit_fn : list (@snum CR SR) -> list (@snum CR SR).
Notation ST := (@fstate CR SR (@FftFixedOut)).

Definition xo_pre (s : ST) wi wo m : @res CR unit :=
  @x_precheck CR SR (xo_mask_bad (fs_ctl s)) (xo_val_channels (fs_ctl s)) (xo_val_min_in (fs_ctl s))
              (xo_val_min_out (fs_ctl s)) (fs_mask s) wi wo m.

Fixpoint xo_run (s : ST) (calls : list (list (list (@snum CR SR)) * list (list (@snum CR SR)) * option (list bool))) : @res CR (ST * Z * Z) :=
  match calls with
  | [] => Ok (s, 0, 0)
  | (wi, wo, m) :: rest =>
      do _ <- xo_pre s wi wo m;
      do x <- @xo_pib CR SR unit_fn s wi wo m;
      let '(s', (a, b), _) := x in
      do y <- xo_run s' rest;
      let '(s'', nin, nout) := y in
      Ok (s'', a + nin, b + nout)
  end.

(** every history of well-formed calls is Ok; frames are conserved: what was consumed, in output frames, is
    what was handed out plus what is parked now minus what was parked before *)
Theorem xo_history : forall calls (s : ST), xo_wf unit_fn s ->
  match xo_run s calls with
  | Ok (s', nin, nout) =>
      xo_wf unit_fn s' /\ ofin s' = ofin s /\ ofout s' = ofout s /\ oCo s' = oCo s /\ 0 <= nout /\
      nin * ofout s = ofin s * (nout + osaved s' - osaved s)
  | Err _ => True
  | Panic _ | UB _ | Diverge => False
  end.
Proof.
  induction calls as [|[[wi wo] m] rest IH]; intros s W; cbn [xo_run].
  - split; [exact W|]. repeat split; try reflexivity; try lia.
  - unfold xo_pre at 1.
    match goal with |- context [x_precheck ?a ?b ?c ?d ?sm ?f ?g ?h] =>
      destruct (@x_precheck_total CR SR a b c d sm f g h) as [Hp|[er Hp]] end; rewrite Hp; cbn [bind]; [|exact I].
    destruct (xo_call_safe unit_fn s wi wo m W Hp) as (s' & outs & E & W' & Hsv & Hfi & Hfo & HC & Hn).
    rewrite E. cbn [bind]. specialize (IH s' W').
    destruct (xo_run s' rest) as [[[s'' nin] nout]| | | |]; cbn [bind]; try exact IH.
    destruct IH as (W'' & Hfi'' & Hfo'' & HC'' & Hout & Hbal).
    destruct W as [Wfin Wfout WCo Wn Wsv Wnd _ _ _ _ _ _].
    split; [exact W''|]. split; [congruence|]. split; [congruence|]. split; [congruence|]. split; [lia|].
    rewrite Hfi, Hfo in Hbal.
    assert (Hq : oneed s = (oneed s / ofin s) * ofin s).
    { rewrite Wnd at 2. rewrite Z.div_mul by lia. exact Wnd. }
    nia.
Qed.

(** no drift (C07) *)
Corollary xo_accounting calls (s s' : ST) nin nout :
  xo_wf unit_fn s -> xo_run s calls = Ok (s', nin, nout) ->
  Z.abs (nin * ofout s - ofin s * nout) < ofin s * ofout s.
Proof.
  intros W E. generalize (xo_history calls s W). rewrite E. intros (W' & Hfi & Hfo & HC & Hout & Hbal).
  destruct W as [Wfin Wfout _ _ Wsv _ _ _ _ _ _ _]. destruct W' as [_ _ _ _ Wsv' _ _ _ _ _ _ _]. rewrite Hfo in Wsv'.
  nia.
Qed.

End XOHist.

From Rubato.Model Require Resamplers.

Theorem xo_ctor (unit_fn : list (@snum CR SR) -> list (@snum CR SR)) rate_in rate_out chunk sub nch s :
  0 < rate_in -> 0 < rate_out -> 1 <= chunk -> 0 <= nch ->
  @Resamplers.fft_out_new CR SR rate_in rate_out chunk sub nch = inr (Resamplers.RFftOut s) ->
  (forall w, zlen w = ofin s -> zlen (unit_fn w) = 2 * ofout s) ->
  xo_wf unit_fn s /\ ofin s * rate_out = ofout s * rate_in /\ osaved s = 0 /\ oCo s = chunk.
Proof.
  intros Hi Ho Hc Hn. unfold Resamplers.fft_out_new.
  destruct (syn_validate_rates_bad rate_in rate_out); [discriminate|]. cbv zeta.
  set (g := xo_new_gcd rate_in rate_out).
  set (fc := xo_new_fft_chunks (xo_new_min_chunk_out g rate_out) (xo_new_wanted_subsize chunk sub)).
  intros H; injection H as <-. intros Hu.
  assert (Hg : 0 < g) by (unfold g, xo_new_gcd; generalize (Z.gcd_nonneg rate_in rate_out) (Z.gcd_eq_0_l rate_in rate_out); lia).
  destruct (Z.gcd_divide_l rate_in rate_out) as (a & Ha). destruct (Z.gcd_divide_r rate_in rate_out) as (b & Hb).
  fold (xo_new_gcd rate_in rate_out) in Ha, Hb. fold g in Ha, Hb.
  assert (Ha1 : 1 <= a) by nia. assert (Hb1 : 1 <= b) by nia.
  assert (Hminc : xo_new_min_chunk_out g rate_out = b).
  { unfold xo_new_min_chunk_out. rewrite Z.quot_div_nonneg by lia. rewrite Hb. apply Z.div_mul. lia. }
  assert (Hfc : 1 <= fc).
  { unfold fc. rewrite Hminc. apply (fft_chunks_ge1_R b); [lia|]. unfold xo_new_wanted_subsize. lia. }
  assert (Ein : xo_new_fft_size_in fc g rate_in = fc * a).
  { unfold xo_new_fft_size_in. rewrite Z.quot_div_nonneg by nia. rewrite Ha at 1. rewrite Z.mul_assoc, Z.div_mul by lia. reflexivity. }
  assert (Eout : xo_new_fft_size_out fc g rate_out = fc * b).
  { unfold xo_new_fft_size_out. rewrite Z.quot_div_nonneg by nia. rewrite Hb at 1. rewrite Z.mul_assoc, Z.div_mul by lia. reflexivity. }
  assert (Ecn : @xo_new_chunks_needed CR chunk (fc * b) = blocks_for chunk (fc * b)).
  { unfold xo_new_chunks_needed. cbn [c32_to_usize ceil32 div32 c32_of_Z CR]. rewrite Ztrunc_IZR.
    apply Z.max_r. apply (blocks_for_bounds chunk (fc * b)); nia. }
  unfold ofin, ofout, osaved, oCo in *. cbn [fs_ctl] in *.
  cbv [set_FftFixedOut_nbr_channels set_FftFixedOut_chunk_size_out set_FftFixedOut_fft_size_in set_FftFixedOut_fft_size_out
       set_FftFixedOut_saved_frames set_FftFixedOut_frames_needed default_FftFixedOut FftFixedOut_nbr_channels
       FftFixedOut_chunk_size_out FftFixedOut_fft_size_in FftFixedOut_fft_size_out FftFixedOut_saved_frames FftFixedOut_frames_needed] in *.
  split; [|split; [|split; reflexivity]].
  - constructor; unfold ofin, ofout, oCo, onc, osaved, oneed; cbn [fs_ctl fs_bufs fs_overlaps fs_mask];
      cbv [FftFixedOut_nbr_channels FftFixedOut_chunk_size_out FftFixedOut_fft_size_in FftFixedOut_fft_size_out FftFixedOut_saved_frames
           FftFixedOut_frames_needed]; rewrite ?Ein, ?Eout; try nia; try reflexivity.
    + unfold xo_new_frames_needed. replace (Z.max (chunk - 0) 0) with chunk by lia. f_equal.
      rewrite Ztrunc_IZR. apply Z.max_r. apply (blocks_for_bounds chunk (fc * b)); nia.
    + unfold Resamplers.chans. rewrite repeat_length. reflexivity.
    + unfold Resamplers.chans, xo_new_obuf_len. apply Forall_forall. intros o Hin. apply repeat_spec in Hin. subst o.
      unfold Resamplers.zeros, zlen. rewrite repeat_length. rewrite Z2Nat.id by nia. reflexivity.
    + unfold Resamplers.chans. rewrite repeat_length. reflexivity.
    + unfold Resamplers.chans, xo_new_overlap_len. apply Forall_forall. intros o Hin. apply repeat_spec in Hin. subst o.
      unfold Resamplers.zeros, zlen. rewrite repeat_length. rewrite Z2Nat.id by nia. reflexivity.
    + unfold Resamplers.chans. rewrite repeat_length. reflexivity.
    + rewrite Ein, Eout in Hu. exact Hu.
  - rewrite Ein, Eout. rewrite Ha, Hb at 1. ring_simplify. nia.
Qed.

Lemma xo_counts unit_fn (s : @fstate CR SR FftFixedOut) wi wo m :
  xo_wf unit_fn s -> xo_pre s wi wo m = Ok tt ->
  exists s' outs, @xo_pib CR SR unit_fn s wi wo m =
                  Ok (s', (xo_input_frames_next (fs_ctl s), xo_output_frames_max (fs_ctl s)), outs).
Proof.
  intros W P. destruct (xo_call_safe unit_fn s wi wo m W P) as (s' & outs & E & _). exists s', outs. exact E.
Qed.
