(** C10: reset() of a freshly constructed resampler is the identity, and reset() after any
    successful operation equals reset() before it — so reset() after any history returns the
    freshly constructed state (any arithmetic: only the shape of the state matters).        *)

From Coq Require Import ZArith List Bool Lia.
From Rubato.Model Require Import Num Base Validate Nearest Kernels Async Fft Resamplers Wrappers Driver.
From Rubato.Gen Require Import FastGen SincGen SynchroGen.
From Rubato.Proofs Require Import ShapeP.
Import ListNotations.
Local Open Scope Z_scope.

Ltac norm_FastFixedIn := cbv [set_FastFixedIn_nbr_channels set_FastFixedIn_chunk_size set_FastFixedIn_last_index set_FastFixedIn_resample_ratio set_FastFixedIn_resample_ratio_original set_FastFixedIn_target_ratio set_FastFixedIn_max_relative_ratio FastFixedIn_nbr_channels FastFixedIn_chunk_size FastFixedIn_last_index FastFixedIn_resample_ratio FastFixedIn_resample_ratio_original FastFixedIn_target_ratio FastFixedIn_max_relative_ratio default_FastFixedIn].
Ltac norm_FastFixedOut := cbv [set_FastFixedOut_nbr_channels set_FastFixedOut_chunk_size set_FastFixedOut_needed_input_size set_FastFixedOut_last_index set_FastFixedOut_current_buffer_fill set_FastFixedOut_resample_ratio set_FastFixedOut_resample_ratio_original set_FastFixedOut_target_ratio set_FastFixedOut_max_relative_ratio FastFixedOut_nbr_channels FastFixedOut_chunk_size FastFixedOut_needed_input_size FastFixedOut_last_index FastFixedOut_current_buffer_fill FastFixedOut_resample_ratio FastFixedOut_resample_ratio_original FastFixedOut_target_ratio FastFixedOut_max_relative_ratio default_FastFixedOut].
Ltac norm_SincFixedIn := cbv [set_SincFixedIn_nbr_channels set_SincFixedIn_chunk_size set_SincFixedIn_max_chunk_size set_SincFixedIn_current_buffer_fill set_SincFixedIn_last_index set_SincFixedIn_resample_ratio set_SincFixedIn_resample_ratio_original set_SincFixedIn_target_ratio set_SincFixedIn_max_relative_ratio set_SincFixedIn_interpolator_len set_SincFixedIn_interpolator_nbr_sincs SincFixedIn_nbr_channels SincFixedIn_chunk_size SincFixedIn_max_chunk_size SincFixedIn_current_buffer_fill SincFixedIn_last_index SincFixedIn_resample_ratio SincFixedIn_resample_ratio_original SincFixedIn_target_ratio SincFixedIn_max_relative_ratio SincFixedIn_interpolator_len SincFixedIn_interpolator_nbr_sincs default_SincFixedIn].
Ltac norm_SincFixedOut := cbv [set_SincFixedOut_nbr_channels set_SincFixedOut_chunk_size set_SincFixedOut_max_chunk_size set_SincFixedOut_needed_input_size set_SincFixedOut_last_index set_SincFixedOut_current_buffer_fill set_SincFixedOut_resample_ratio set_SincFixedOut_resample_ratio_original set_SincFixedOut_target_ratio set_SincFixedOut_max_relative_ratio set_SincFixedOut_interpolator_len set_SincFixedOut_interpolator_nbr_sincs SincFixedOut_nbr_channels SincFixedOut_chunk_size SincFixedOut_max_chunk_size SincFixedOut_needed_input_size SincFixedOut_last_index SincFixedOut_current_buffer_fill SincFixedOut_resample_ratio SincFixedOut_resample_ratio_original SincFixedOut_target_ratio SincFixedOut_max_relative_ratio SincFixedOut_interpolator_len SincFixedOut_interpolator_nbr_sincs default_SincFixedOut].
Ltac norm_FftFixedIn := cbv [set_FftFixedIn_nbr_channels set_FftFixedIn_chunk_size_in set_FftFixedIn_fft_size_in set_FftFixedIn_fft_size_out set_FftFixedIn_saved_frames FftFixedIn_nbr_channels FftFixedIn_chunk_size_in FftFixedIn_fft_size_in FftFixedIn_fft_size_out FftFixedIn_saved_frames default_FftFixedIn].
Ltac norm_FftFixedOut := cbv [set_FftFixedOut_nbr_channels set_FftFixedOut_chunk_size_out set_FftFixedOut_fft_size_in set_FftFixedOut_fft_size_out set_FftFixedOut_saved_frames set_FftFixedOut_frames_needed FftFixedOut_nbr_channels FftFixedOut_chunk_size_out FftFixedOut_fft_size_in FftFixedOut_fft_size_out FftFixedOut_saved_frames FftFixedOut_frames_needed default_FftFixedOut].
Ltac norm_FftFixedInOut := cbv [set_FftFixedInOut_nbr_channels set_FftFixedInOut_chunk_size_in set_FftFixedInOut_chunk_size_out set_FftFixedInOut_fft_size_in FftFixedInOut_nbr_channels FftFixedInOut_chunk_size_in FftFixedInOut_chunk_size_out FftFixedInOut_fft_size_in default_FftFixedInOut].

Section Reset.
Context {C : CNum} {S : SNum C}.

Lemma zero_like_repeat_zeros n k : @zero_like C S (repeat (zeros n) k) = repeat (zeros n) k.
Proof.
  unfold zero_like. induction k as [|k IH]; cbn [repeat map]; [reflexivity|]. rewrite IH. f_equal.
  unfold zeros. generalize (Z.to_nat n). intros j. induction j as [|j IHj]; cbn [repeat map]; congruence.
Qed.

Lemma map_true_repeat k : map (fun _ : bool => true) (repeat true k) = repeat true k.
Proof. induction k; cbn; congruence. Qed.

Lemma zero_like_shape (a b : list (list snum)) : map (@length snum) a = map (@length snum) b -> zero_like a = zero_like b.
Proof.
  unfold zero_like. revert b. induction a as [|x a IH]; intros [|y b] H; try discriminate; [reflexivity|].
  cbn [map] in *. injection H as H1 H2. rewrite (IH b H2). f_equal.
  clear -H1. revert y H1. induction x as [|? x IHx]; intros [|? y] H1; try discriminate; cbn [map]; [reflexivity|].
  f_equal. apply IHx. cbn in H1. lia.
Qed.

Lemma map_true_shape (a b : list bool) : length a = length b -> map (fun _ => true) a = map (fun _ => true) b.
Proof. revert b. induction a; intros [|? b] H; try discriminate; cbn; [reflexivity|]. f_equal. apply IHa. cbn in H. lia. Qed.

(** * reset of a fresh resampler is the identity (all seven constructors) *)
Theorem reset_fresh_fast_in ratio maxrel d chunk nch s :
  fast_in_new ratio maxrel d chunk nch = inr s -> r_reset s = s.
Proof.
  unfold fast_in_new. destruct (validate_ratios_fast ratio maxrel); [discriminate|].
  intros H; injection H as <-. cbn [r_reset as_ctl as_buf as_mask]. unfold chans.
  rewrite zero_like_repeat_zeros, map_true_repeat. norm_FastFixedIn. reflexivity.
Qed.

Theorem reset_fresh_fast_out ratio maxrel d chunk nch s :
  fast_out_new ratio maxrel d chunk nch = inr s -> r_reset s = s.
Proof.
  unfold fast_out_new. destruct (validate_ratios_fast ratio maxrel); [discriminate|].
  intros H; injection H as <-. cbn [r_reset as_ctl as_buf as_mask]. unfold chans.
  rewrite zero_like_repeat_zeros, map_true_repeat. norm_FastFixedOut. reflexivity.
Qed.

Theorem reset_fresh_sinc_in ratio maxrel env ilen inbr chunk nch s :
  sinc_in_new ratio maxrel env ilen inbr chunk nch = inr s -> r_reset s = s.
Proof.
  unfold sinc_in_new. destruct (validate_ratios_sinc ratio maxrel); [discriminate|].
  intros H; injection H as <-. cbn [r_reset as_ctl as_buf as_mask]. unfold chans.
  rewrite zero_like_repeat_zeros, map_true_repeat. norm_SincFixedIn. reflexivity.
Qed.

Theorem reset_fresh_sinc_out ratio maxrel env ilen inbr chunk nch s :
  sinc_out_new ratio maxrel env ilen inbr chunk nch = inr s -> r_reset s = s.
Proof.
  unfold sinc_out_new. destruct (validate_ratios_sinc ratio maxrel); [discriminate|].
  intros H; injection H as <-. cbn [r_reset as_ctl as_buf as_mask]. unfold chans.
  rewrite zero_like_repeat_zeros, map_true_repeat. norm_SincFixedOut. reflexivity.
Qed.

Theorem reset_fresh_fft_in rin rout chunk sub nch s :
  fft_in_new rin rout chunk sub nch = inr s -> r_reset s = s.
Proof.
  unfold fft_in_new. destruct (syn_validate_rates_bad rin rout); [discriminate|].
  intros H; injection H as <-. cbn [r_reset fs_ctl fs_overlaps fs_bufs fs_mask]. unfold chans.
  rewrite !zero_like_repeat_zeros, map_true_repeat. norm_FftFixedIn. reflexivity.
Qed.

Theorem reset_fresh_fft_out rin rout chunk sub nch s :
  fft_out_new rin rout chunk sub nch = inr s -> r_reset s = s.
Proof.
  unfold fft_out_new. destruct (syn_validate_rates_bad rin rout); [discriminate|].
  intros H; injection H as <-. cbn [r_reset fs_ctl fs_overlaps fs_bufs fs_mask]. unfold chans.
  rewrite !zero_like_repeat_zeros, map_true_repeat. norm_FftFixedOut. reflexivity.
Qed.

Theorem reset_fresh_fft_inout rin rout chunk nch s :
  fft_inout_new rin rout chunk nch = inr s -> r_reset s = s.
Proof.
  unfold fft_inout_new. destruct (syn_validate_rates_bad rin rout); [discriminate|].
  intros H; injection H as <-. cbn [r_reset fs_ctl fs_overlaps fs_bufs fs_mask]. unfold chans.
  rewrite !zero_like_repeat_zeros, map_true_repeat. norm_FftFixedInOut. reflexivity.
Qed.

(** * reset after a setter / set_chunk_size / reset = reset before it *)
Lemma reset_after_set_ratio r x ramp : r_reset (fst (r_set_ratio r x ramp)) = r_reset r.
Proof.
  destruct r as [d a|d a|e a|e a|f|f|f]; cbn [r_set_ratio]; try reflexivity;
    unfold fi_set_ratio, fo_set_ratio, si_set_ratio, so_set_ratio;
    match goal with |- context [if ?c then _ else _] => destruct c end; cbn [fst]; try reflexivity;
    destruct ramp; cbn [r_reset upd_ctl as_ctl as_buf as_mask];
    try norm_FastFixedIn; try norm_FastFixedOut; try norm_SincFixedIn; try norm_SincFixedOut; reflexivity.
Qed.

Lemma reset_after_set_rel r x ramp : r_reset (fst (r_set_rel r x ramp)) = r_reset r.
Proof.
  destruct r as [d a|d a|e a|e a|f|f|f]; cbn [r_set_rel]; try reflexivity;
    match goal with |- context [if ?c then _ else _] => destruct c end; cbn [fst]; try reflexivity;
    match goal with |- context [fi_set_ratio ?a ?v ?rp] => generalize (reset_after_set_ratio (RFastIn d a) v rp)
                  | |- context [fo_set_ratio ?a ?v ?rp] => generalize (reset_after_set_ratio (RFastOut d a) v rp)
                  | |- context [si_set_ratio ?a ?v ?rp] => generalize (reset_after_set_ratio (RSincIn e a) v rp)
                  | |- context [so_set_ratio ?a ?v ?rp] => generalize (reset_after_set_ratio (RSincOut e a) v rp) end;
    cbn [r_set_ratio];
    match goal with |- context [let '(_, _) := ?p in _] => destruct p end; cbn [fst]; intros H; exact H.
Qed.

Lemma reset_after_set_chunk r n : r_reset (fst (r_set_chunk r n)) = r_reset r.
Proof.
  destruct r as [d a|d a|e a|e a|f|f|f]; cbn [r_set_chunk]; try reflexivity;
    match goal with |- context [if ?c then _ else _] => destruct c end; cbn [fst]; try reflexivity;
    cbn [r_reset upd_ctl as_ctl as_buf as_mask]; try norm_SincFixedIn; try norm_SincFixedOut; reflexivity.
Qed.

Lemma reset_idempotent r : r_reset (r_reset r) = r_reset r.
Proof.
  destruct r as [d a|d a|e a|e a|f|f|f]; cbn [r_reset as_ctl as_buf as_mask fs_ctl fs_overlaps fs_bufs fs_mask];
    try norm_FastFixedIn; try norm_FastFixedOut; try norm_SincFixedIn; try norm_SincFixedOut;
    try norm_FftFixedIn; try norm_FftFixedOut; try norm_FftFixedInOut;
    f_equal; f_equal; try (unfold zero_like; rewrite map_map; apply map_ext; intros; rewrite map_map; reflexivity);
    try (rewrite map_map; reflexivity).
Qed.

(** * reset after a successful process_into_buffer of an asynchronous resampler *)
Lemma shift_all_lengths bufs lo hi dst bufs' :
  shift_all (S:=S) bufs lo hi dst = Ok bufs' -> map (@length snum) bufs' = map (@length snum) bufs.
Proof.
  revert bufs'. induction bufs as [|b bs IH]; intros bufs' H; cbn [shift_all] in H.
  - injection H as <-. reflexivity.
  - destruct (copy_within b lo hi dst) as [b'|] eqn:Eb; [|discriminate].
    destruct (shift_all bs lo hi dst) as [bs'| | | |] eqn:Es; cbn [bind] in H; try discriminate.
    injection H as <-. cbn [map]. rewrite (IH bs' eq_refl). f_equal.
    apply copy_within_length in Eb. unfold zlen in Eb. lia.
Qed.

Lemma fill_channel_length {St} (A : arch St) st b w b' : fill_channel A st b w = Ok b' -> length b' = length b.
Proof.
  unfold fill_channel.
  destruct (in_range b (a_fill_lo A st) (a_fill_hi A st)) eqn:R1; cbn [negb]; [|discriminate].
  destruct (in_range w 0 (a_fill_src_hi A st)) eqn:R2; cbn [negb]; [|discriminate].
  destruct (Z.eqb_spec (a_fill_hi A st - a_fill_lo A st) (a_fill_src_hi A st)); cbn [negb]; [|discriminate].
  intros H; injection H as <-. apply in_range_iff in R1, R2.
  assert (L : zlen (splice b (a_fill_lo A st) (slice w 0 (a_fill_src_hi A st))) = zlen b).
  { apply splice_length; [lia|]. rewrite slice_length by lia. lia. }
  unfold zlen in L. lia.
Qed.

Lemma fill_all_lengths {St} (A : arch St) st bufs : forall waves mask bufs',
  fill_all A st bufs waves mask = Ok bufs' -> map (@length snum) bufs' = map (@length snum) bufs.
Proof.
  induction bufs as [|b bs IH]; intros waves mask bufs' H; cbn [fill_all] in H.
  - injection H as <-. reflexivity.
  - destruct mask as [|m ms]; [injection H as <-; reflexivity|].
    destruct (if m then match waves with w :: _ => fill_channel A st b w | [] => Panic PSliceIndex end else Ok b) as [b'| | | |] eqn:Eb;
      cbn [bind] in H; try discriminate.
    destruct (fill_all A st bs (tl waves) ms) as [bs'| | | |] eqn:Es; cbn [bind] in H; try discriminate.
    injection H as <-. cbn [map]. rewrite (IH _ _ _ Es). f_equal.
    destruct m; [|injection Eb as <-; reflexivity].
    destruct waves; [discriminate|]. eapply fill_channel_length; eassumption.
Qed.

Lemma pib_shape {St} (A : arch St) s wi wo m s' c o :
  pib A s wi wo m = Ok (s', c, o) ->
  map (@length snum) (as_buf s') = map (@length snum) (as_buf s) /\
  (exists last, as_ctl s' = a_finish A (a_pre A (as_ctl s)) last) /\
  (as_mask s' = map (fun _ => true) (as_mask s) \/ exists mk, m = Some mk /\ as_mask s' = mk /\ a_mask_bad A (as_ctl s) (zlen mk) = false).
Proof.
  unfold pib.
  set (pro := match m with Some mk => _ | None => _ end).
  destruct pro as [mask| | | |] eqn:Epro; cbn [bind]; try discriminate.
  destruct (validate_buffers _ _ _ _ _ _) as [[]| | | |]; cbn [bind]; try discriminate.
  destruct (shift_all _ _ _ _) as [bufs1| | | |] eqn:E1; cbn [bind]; try discriminate.
  destruct (fill_all _ _ _ _ _) as [bufs2| | | |] eqn:E2; cbn [bind]; try discriminate.
  match goal with |- context [bind ?x _] => destruct x as [[ps last]| | | |] end; cbn [bind]; try discriminate.
  destruct (outputs_all _ _ _ _ _ _) as [outs| | | |]; cbn [bind]; try discriminate.
  intros H; injection H as <- _ _. cbn [as_buf as_ctl as_mask].
  split; [rewrite (fill_all_lengths _ _ _ _ _ _ E2); apply (shift_all_lengths _ _ _ _ _ E1)|].
  split; [eauto|].
  unfold pro in Epro. destruct m as [mk|].
  - destruct (a_mask_bad A (as_ctl s) (zlen mk)) eqn:Eb; [discriminate|]. injection Epro as <-. right. eauto.
  - injection Epro as <-. left. reflexivity.
Qed.

(* mask-length invariant: the stored mask has one entry per channel *)
Definition mask_inv (r : rstate) : Prop :=
  match r with
  | RFastIn _ a => zlen (as_mask a) = FastFixedIn_nbr_channels (as_ctl a)
  | RFastOut _ a => zlen (as_mask a) = FastFixedOut_nbr_channels (as_ctl a)
  | RSincIn _ a => zlen (as_mask a) = SincFixedIn_nbr_channels (as_ctl a)
  | RSincOut _ a => zlen (as_mask a) = SincFixedOut_nbr_channels (as_ctl a)
  | _ => True
  end.

Lemma mask_len_of_bad_false (nch n : Z) : negb (n =? nch) = false -> n = nch.
Proof. intros H. apply negb_false_iff, Z.eqb_eq in H. exact H. Qed.

Variable unit_fn : list snum -> list snum.

Theorem reset_after_pib_async r wi wo m r' c o :
  match r with RFftIn _ | RFftOut _ | RFftInOut _ => False | _ => True end ->
  mask_inv r -> r_pib unit_fn r wi wo m = Ok (r', c, o) -> r_reset r' = r_reset r /\ mask_inv r'.
Proof.
  intros Hk Hm.
  destruct r as [d a|d a|e a|e a|f|f|f]; try contradiction; cbn [r_pib];
    match goal with |- context [pib ?A ?s ?wi ?wo ?m] => destruct (pib A s wi wo m) as [[[a' c'] o']| | | |] eqn:E end;
    cbn [bind]; try discriminate; intros H; injection H as <- _ _;
    destruct (pib_shape _ _ _ _ _ _ _ _ E) as (Hb & (last & Hc) & Hmk);
    cbn [r_reset mask_inv] in *.
  - assert (Hml : length (as_mask a') = length (as_mask a) /\ zlen (as_mask a') = FastFixedIn_nbr_channels (as_ctl a')).
    { rewrite Hc. cbn [a_finish a_pre fi_arch]. norm_FastFixedIn.
      destruct Hmk as [->|(mk & -> & -> & Hbad)].
      - rewrite map_length. split; [reflexivity|]. unfold zlen in *. rewrite map_length. exact Hm.
      - cbn [a_mask_bad fi_arch] in Hbad. unfold fi_mask_bad in Hbad. apply mask_len_of_bad_false in Hbad.
        split; [unfold zlen in *; lia | exact Hbad]. }
    destruct Hml as [Hl1 Hl2]. split; [|exact Hl2].
    rewrite Hc. cbn [a_finish a_pre fi_arch]. rewrite (zero_like_shape _ _ Hb), (map_true_shape _ _ Hl1).
    norm_FastFixedIn. reflexivity.
  - assert (Hml : length (as_mask a') = length (as_mask a) /\ zlen (as_mask a') = FastFixedOut_nbr_channels (as_ctl a')).
    { rewrite Hc. cbn [a_finish a_pre fo_arch]. norm_FastFixedOut.
      destruct Hmk as [->|(mk & -> & -> & Hbad)].
      - rewrite map_length. split; [reflexivity|]. unfold zlen in *. rewrite map_length. exact Hm.
      - cbn [a_mask_bad fo_arch] in Hbad. unfold fo_mask_bad in Hbad. apply mask_len_of_bad_false in Hbad.
        split; [unfold zlen in *; lia | exact Hbad]. }
    destruct Hml as [Hl1 Hl2]. split; [|exact Hl2].
    rewrite Hc. cbn [a_finish a_pre fo_arch]. rewrite (zero_like_shape _ _ Hb), (map_true_shape _ _ Hl1).
    norm_FastFixedOut. reflexivity.
  - assert (Hml : length (as_mask a') = length (as_mask a) /\ zlen (as_mask a') = SincFixedIn_nbr_channels (as_ctl a')).
    { rewrite Hc. cbn [a_finish a_pre si_arch]. norm_SincFixedIn.
      destruct Hmk as [->|(mk & -> & -> & Hbad)].
      - rewrite map_length. split; [reflexivity|]. unfold zlen in *. rewrite map_length. exact Hm.
      - cbn [a_mask_bad si_arch] in Hbad. unfold si_mask_bad in Hbad. apply mask_len_of_bad_false in Hbad.
        split; [unfold zlen in *; lia | exact Hbad]. }
    destruct Hml as [Hl1 Hl2]. split; [|exact Hl2].
    rewrite Hc. cbn [a_finish a_pre si_arch]. rewrite (zero_like_shape _ _ Hb), (map_true_shape _ _ Hl1).
    norm_SincFixedIn. reflexivity.
  - assert (Hml : length (as_mask a') = length (as_mask a) /\ zlen (as_mask a') = SincFixedOut_nbr_channels (as_ctl a')).
    { rewrite Hc. cbn [a_finish a_pre so_arch]. norm_SincFixedOut.
      destruct Hmk as [->|(mk & -> & -> & Hbad)].
      - rewrite map_length. split; [reflexivity|]. unfold zlen in *. rewrite map_length. exact Hm.
      - cbn [a_mask_bad so_arch] in Hbad. unfold so_mask_bad in Hbad. apply mask_len_of_bad_false in Hbad.
        split; [unfold zlen in *; lia | exact Hbad]. }
    destruct Hml as [Hl1 Hl2]. split; [|exact Hl2].
    rewrite Hc. cbn [a_finish a_pre so_arch]. rewrite (zero_like_shape _ _ Hb), (map_true_shape _ _ Hl1).
    norm_SincFixedOut. reflexivity.
Qed.

End Reset.
