(** C16: the convenience wrappers of lib.rs, generic over any core.                 *)

From Coq Require Import ZArith List Bool Lia.
From Rubato.Model Require Import Num Base Wrappers.
Import ListNotations.
Local Open Scope Z_scope.

Lemma skipn_repeat_eq {A} (x : A) k : forall n, skipn k (repeat x n) = repeat x (n - k).
Proof. induction k as [|k IH]; intros n; [rewrite Nat.sub_0_r; reflexivity|]. destruct n; cbn; [reflexivity|apply IH]. Qed.

Lemma nth_repeat_lt {A} (x d : A) k : forall n, (k < n)%nat -> nth k (repeat x n) d = x.
Proof. induction k as [|k IH]; intros n H; destruct n; try lia; cbn; [reflexivity|apply IH; lia]. Qed.

Section W.
Context {C : CNum} {S : SNum C} {X : Type}.
Variable core_pib : X -> list (list snum) -> list (list snum) -> option (list bool)
                    -> res (X * (Z * Z) * list (list snum)).
Variable in_next out_next nch : X -> Z.

Notation process := (w_process core_pib out_next nch).
Notation partial_into := (w_partial_into core_pib in_next nch).
Notation partial := (w_partial core_pib in_next out_next nch).

(** process(): the output buffers it allocates have output_frames_next() zeros for active
    channels and are empty for masked-out ones. *)
Lemma alloc_out_spec x m chan :
  (chan < Z.to_nat (nch x))%nat ->
  nth chan (alloc_out out_next nch x m) [] =
  if mask_get m chan then wzeros (out_next x) else [].
Proof.
  intros H. unfold alloc_out.
  set (f := fun chan0 : nat => if mask_get m chan0 then wzeros (out_next x) else []).
  rewrite (nth_indep _ [] (f 0%nat)) by (rewrite map_length, seq_length; exact H).
  rewrite map_nth. rewrite seq_nth by exact H. reflexivity.
Qed.

Lemma alloc_out_length x m : length (alloc_out out_next nch x m) = Z.to_nat (nch x).
Proof. unfold alloc_out. rewrite map_length, seq_length. reflexivity. Qed.

(** process() = process_into_buffer on those buffers, each channel truncated to the written count. *)
Theorem process_eq x wave_in m :
  process x wave_in m =
  match core_pib x wave_in (alloc_out out_next nch x m) m with
  | Ok (x', (_, out_len), outs) => Ok (x', map (fun o => firstn (Z.to_nat out_len) o) outs)
  | Err e => Err e | Panic p => Panic p | UB u => UB u | Diverge => Diverge
  end.
Proof.
  unfold w_process. destruct (core_pib _ _ _ _) as [[[x' [a b]] outs]| | | |]; reflexivity.
Qed.

(** Zero padding of one channel. *)
Lemma pad_one frames (p i : list snum) :
  p = wzeros frames -> 0 <= frames ->
  0 < Z.of_nat (length i) <= frames ->
  firstn (Z.to_nat (Z.min (Z.of_nat (length i)) frames)) i ++ skipn (Z.to_nat (Z.min (Z.of_nat (length i)) frames)) p
  = i ++ wzeros (frames - Z.of_nat (length i)).
Proof.
  intros -> Hf Hl. rewrite Z.min_l by lia. rewrite Nat2Z.id. rewrite firstn_all. f_equal.
  unfold wzeros. rewrite skipn_repeat_eq. f_equal. lia.
Qed.

(** process_partial_into_buffer(None, ..) = process_into_buffer on an all-zero chunk. *)
Theorem partial_none_eq x wave_out m :
  partial_into x None wave_out m =
  core_pib x (repeat (wzeros (in_next x)) (Z.to_nat (nch x))) wave_out m.
Proof. reflexivity. Qed.

(** process_partial_into_buffer(Some(input), ..) = process_into_buffer on the padded input. *)
Theorem partial_some_eq x input wave_out m :
  partial_into x (Some input) wave_out m =
  core_pib x (pad_channels (in_next x) (repeat (wzeros (in_next x)) (Z.to_nat (nch x))) input) wave_out m.
Proof. reflexivity. Qed.

(** What the padding is, channel by channel: a supplied channel of 1..=frames samples is
    followed by zeros up to input_frames_next(); a channel that was not supplied is all zeros. *)
Theorem pad_channels_spec frames : 0 <= frames -> forall n input chan,
  (chan < n)%nat ->
  nth chan (pad_channels frames (repeat (wzeros frames) n) input) [] =
  match nth_error input chan with
  | Some i =>
      if (0 <? Z.min (Z.of_nat (length i)) frames)
      then firstn (Z.to_nat frames) i ++ wzeros (frames - Z.min (Z.of_nat (length i)) frames)
      else []
  | None => wzeros frames
  end.
Proof.
  intros Hf n. induction n as [|n IH]; intros input chan Hc; [lia|].
  cbn [repeat pad_channels]. destruct input as [|i is_].
  - destruct chan; cbn [nth_error]; [reflexivity|].
    cbn [nth]. rewrite nth_repeat_lt by lia. reflexivity.
  - destruct chan as [|chan].
    + cbn [nth nth_error]. destruct (0 <? Z.min (Z.of_nat (length i)) frames) eqn:E; [|reflexivity].
      apply Z.ltb_lt in E. f_equal.
      * destruct (Z.le_gt_cases (Z.of_nat (length i)) frames).
        -- rewrite Z.min_l by lia. rewrite Nat2Z.id. rewrite firstn_all. rewrite firstn_all2 by lia. reflexivity.
        -- rewrite Z.min_r by lia. reflexivity.
      * unfold wzeros. rewrite skipn_repeat_eq. f_equal. lia.
    + cbn [nth nth_error]. apply IH. lia.
Qed.

(** process_partial = truncate . process_partial_into_buffer on freshly allocated buffers. *)
Theorem partial_eq x wave_in m :
  partial x wave_in m =
  match partial_into x wave_in (alloc_out out_next nch x m) m with
  | Ok (x', (_, out_len), outs) => Ok (x', map (fun o => firstn (Z.to_nat out_len) o) outs)
  | Err e => Err e | Panic p => Panic p | UB u => UB u | Diverge => Diverge
  end.
Proof.
  unfold w_partial. destruct (w_partial_into _ _ _ _ _ _ _) as [[[x' [a b]] outs]| | | |]; reflexivity.
Qed.

End W.
