(** C05 for FftFixedIn (ideal arithmetic): whatever the chunk size and the sub-chunk count, the frames handed out are
    the canonical stream (overlap-add of the spectral core over the consecutive blocks of fft_size_in input samples)
    of the input consumed so far, minus the incomplete block that is parked.  Nothing is lost, duplicated or taken
    from stale storage when a block straddles two calls.                                                      *)

From Coq Require Import ZArith Reals List Bool Lia.
From Rubato.Model Require Import Num Reals Base Validate Fft.
From Rubato.Gen Require Import SynchroGen.
From Rubato.Proofs Require Import ShapeP ValidateP MalformedP ChannelsP FftInOutP ChunksP FftInR FftStreamP.
Import ListNotations.
Local Open Scope Z_scope.

Section Lists.
Context {A : Type}.

Lemma overwrite_ge (d s : list A) : (length d <= length s)%nat -> overwrite d s = firstn (length d) s.
Proof.
  revert s; induction d as [|x d IH]; intros [|y s] H; cbn in *; try reflexivity; try lia. f_equal. apply IH. lia.
Qed.

Lemma firstn_add (a b : nat) (l : list A) : firstn (a + b) l = firstn a l ++ firstn b (skipn a l).
Proof.
  revert l; induction a as [|a IH]; intros l; [reflexivity|]. destruct l as [|x l]; [cbn; destruct b; reflexivity|].
  cbn [plus firstn skipn app]. f_equal. apply IH.
Qed.

Lemma skipn_add (a b : nat) (l : list A) : skipn a (skipn b l) = skipn (b + a) l.
Proof. revert l; induction b as [|b IH]; intros l; [reflexivity|]. destruct l; [destruct a; reflexivity|]. cbn [plus skipn]. apply IH. Qed.

Lemma chunks_aux_firstn (n : nat) : (1 <= n)%nat -> forall k fuel fuel' (l : list A),
  (length l <= fuel)%nat -> (k * n <= fuel')%nat -> (k * n <= length l)%nat ->
  firstn k (chunks_aux fuel n l) = chunks_aux fuel' n (firstn (k * n) l).
Proof.
  intros Hn. induction k as [|k IH]; intros fuel fuel' l Hf Hf' Hk.
  - cbn [mult firstn]. destruct fuel'; reflexivity.
  - destruct fuel as [|f]; [cbn in Hk; lia|]. destruct fuel' as [|f']; [cbn in Hf'; lia|].
    cbn [chunks_aux]. destruct l as [|x l']; [cbn in Hk; lia|].
    assert (E : firstn (S k * n) (x :: l') = firstn n (x :: l') ++ firstn (k * n) (skipn n (x :: l'))) by (cbn [mult]; apply firstn_add).
    rewrite E. destruct n as [|n']; [lia|].
    assert (Hn' : (n' <= length l')%nat) by (cbn [length] in Hk; nia).
    assert (Ln : length (firstn n' l') = n') by (rewrite firstn_length; lia).
    cbn [firstn skipn app]. f_equal.
    + f_equal. rewrite firstn_app, Ln. replace (n' - n')%nat with O by lia. cbn [firstn]. rewrite app_nil_r.
      symmetry. apply firstn_all2. lia.
    + rewrite skipn_app, Ln. replace (n' - n')%nat with O by lia. cbn [skipn]. replace (skipn n' (firstn n' l')) with (@nil A) by (symmetry; apply skipn_all2; lia). cbn [app].
      apply IH.
      * rewrite skipn_length. cbn [length] in *. lia.
      * nia.
      * rewrite skipn_length. cbn [length] in *. nia.
Qed.

Lemma chunks_firstn (n : Z) (k : nat) (l : list A) : 1 <= n -> Z.of_nat k * n <= zlen l ->
  firstn k (chunks n l) = chunks n (firstn (Z.to_nat (Z.of_nat k * n)) l).
Proof.
  intros Hn Hk. unfold chunks, zlen in *.
  replace (Z.to_nat (Z.of_nat k * n)) with (k * Z.to_nat n)%nat by nia.
  assert (Hkn : (k * Z.to_nat n <= length l)%nat) by nia.
  apply chunks_aux_firstn; [lia | lia | rewrite firstn_length; lia | exact Hkn].
Qed.

Lemma concat_firstn_full (n : nat) : forall (k : nat) (ls : list (list A)),
  (k <= length ls)%nat -> Forall (fun c => length c = n) (firstn k ls) -> firstn (k * n) (concat ls) = concat (firstn k ls).
Proof.
  induction k as [|k IH]; intros ls Hk Hf; [reflexivity|].
  destruct ls as [|c ls]; [cbn in Hk; lia|]. cbn [firstn concat mult] in *.
  apply Forall_cons_iff in Hf. destruct Hf as [Hc Hf]. cbv beta in Hc.
  rewrite firstn_app, Hc. replace (n + k * n - n)%nat with (k * n)%nat by lia.
  replace (firstn (n + k * n) c) with c by (symmetry; apply firstn_all2; lia). f_equal. apply IH; [cbn [length] in Hk; lia|exact Hf].
Qed.

End Lists.

Section ChunksApp.
Context {A : Type}.
Lemma chunks_aux_fuel (n : nat) : (1 <= n)%nat -> forall f1 f2 (l : list A),
  (length l <= f1)%nat -> (length l <= f2)%nat -> chunks_aux f1 n l = chunks_aux f2 n l.
Proof.
  intros Hn. induction f1 as [|f1 IH]; intros f2 l H1 H2.
  - destruct l; [|cbn in H1; lia]. destruct f2; reflexivity.
  - destruct f2 as [|f2]; [destruct l; [reflexivity|cbn in H2; lia]|].
    cbn [chunks_aux]. destruct l as [|x l]; [reflexivity|]. f_equal.
    apply IH; rewrite skipn_length; cbn [length] in *; lia.
Qed.

Lemma chunks_aux_app (n : nat) : (1 <= n)%nat -> forall k fuel fuel1 fuel2 (a b : list A),
  length a = (k * n)%nat -> (length (a ++ b) <= fuel)%nat -> (length a <= fuel1)%nat -> (length b <= fuel2)%nat ->
  chunks_aux fuel n (a ++ b) = chunks_aux fuel1 n a ++ chunks_aux fuel2 n b.
Proof.
  intros Hn. induction k as [|k IH]; intros fuel fuel1 fuel2 a b Ha Hf Hf1 Hf2.
  - destruct a; [|cbn in Ha; lia]. cbn [app]. replace (chunks_aux fuel1 n []) with (@nil (list A)) by (destruct fuel1; reflexivity).
    cbn [app]. apply chunks_aux_fuel; [exact Hn | exact Hf | exact Hf2].
  - destruct a as [|x a]; [cbn in Ha; lia|].
    destruct fuel as [|f]; [cbn in Hf; lia|]. destruct fuel1 as [|f1]; [cbn in Hf1; lia|].
    cbn [app chunks_aux]. change (x :: a ++ b) with ((x :: a) ++ b).
    assert (Hna : (n <= length (x :: a))%nat) by (rewrite Ha; cbn [mult]; lia).
    rewrite firstn_app. replace (n - length (x :: a))%nat with O by lia. cbn [firstn]. rewrite app_nil_r.
    rewrite skipn_app. replace (n - length (x :: a))%nat with O by lia. cbn [skipn].
    cbn [app]. f_equal. apply (IH f f1 fuel2).
    + rewrite skipn_length, Ha. cbn [mult]. lia.
    + rewrite app_length, skipn_length. rewrite app_length in Hf. cbn [length] in *. lia.
    + rewrite skipn_length. cbn [length] in *. lia.
    + exact Hf2.
Qed.

Lemma chunks_app (n : Z) (k : nat) (a b : list A) : 1 <= n -> zlen a = Z.of_nat k * n ->
  chunks n (a ++ b) = chunks n a ++ chunks n b.
Proof.
  intros Hn Ha. unfold chunks. apply (chunks_aux_app (Z.to_nat n) ltac:(lia) k); try lia. unfold zlen in Ha. nia.
Qed.
End ChunksApp.

Section XIStream.
Variable unit_fn : list (@snum CR SR) -> list (@snum CR SR).
Notation ST := (@fstate CR SR FftFixedIn).
Notation canonR := (@canon CR SR unit_fn).

(** X: every input sample of channel c consumed so far; j complete blocks of it have been processed, the rest is parked
    at the front of the channel's buffer; the carried overlap is the canonical one *)
Definition xi_holds (s : ST) (c : nat) (X ov0 : list (@snum CR SR)) : Prop :=
  exists ib ov j,
    nth_error (fs_bufs s) c = Some ib /\ nth_error (fs_overlaps s) c = Some ov /\ 0 <= j /\
    zlen X = j * ifin s + isaved s /\
    firstn (Z.to_nat (isaved s)) ib = skipn (Z.to_nat (j * ifin s)) X /\
    ov = snd (canonR (ifout s) (chunks (ifin s) (firstn (Z.to_nat (j * ifin s)) X)) ov0).

Lemma prologue_active (bad : Z -> bool) ch (stored : list bool) m mask (c : nat) :
  @prologue CR bad ch stored m = Ok mask -> (c < length stored)%nat ->
  match m with Some mk => nth_error mk c = Some true | None => True end -> nth_error mask c = Some true.
Proof.
  unfold prologue. destruct m as [mk|].
  - destruct (bad (zlen mk)); [discriminate|]. intros H _ Hm. injection H as <-. exact Hm.
  - intros H Hc _. injection H as <-. rewrite nth_error_map.
    destruct (nth_error stored c) eqn:En; [reflexivity|]. apply nth_error_None in En. lia.
Qed.

Theorem xi_call_stream (s : ST) wi wo m (c : nat) X ov0 w :
  xi_wf unit_fn s -> xi_pre s wi wo m = Ok tt -> xi_holds s c X ov0 -> zlen ov0 = ifout s ->
  nth_error wi c = Some w -> match m with Some mk => nth_error mk c = Some true | None => True end ->
  let ready := (isaved s + iC s) / ifin s in
  let X' := X ++ firstn (Z.to_nat (iC s)) w in
  exists s' outs o' j,
    @xi_pib CR SR unit_fn s wi wo m = Ok (s', (iC s, ready * ifout s), outs) /\ xi_wf unit_fn s' /\
    ifin s' = ifin s /\ ifout s' = ifout s /\ iC s' = iC s /\
    xi_holds s' c X' ov0 /\
    nth_error outs c = Some o' /\ 0 <= j /\ zlen X = j * ifin s + isaved s /\
    zlen X' = (j + ready) * ifin s + isaved s' /\
    fst (canonR (ifout s) (chunks (ifin s) (firstn (Z.to_nat ((j + ready) * ifin s)) X')) ov0) =
    fst (canonR (ifout s) (chunks (ifin s) (firstn (Z.to_nat (j * ifin s)) X)) ov0) ++ firstn (Z.to_nat (ready * ifout s)) o'.
Proof.
  intros W Hpre (ib & ov & j & Hib & Hov & Hj & HX & Hpark & Hovc) Hov0 Hw Hm ready X'.
  destruct (xi_call_stages unit_fn s wi wo m W Hpre) as (s' & outs & mask & r1 & r2 & E & W' & Hsv' & Hfi & Hfo & HC & Hn & Epro & E1 & E2 & Eov & Eouts & Ekeep).
  fold ready in E, E2, Ekeep.
  destruct W as [Wfin Wfout WC Wn Wsv Wbn Wb Won Wo Wm Wu].
  set (fin := ifin s) in *. set (fout := ifout s) in *. set (Cc := iC s) in *. set (sv := isaved s) in *.
  assert (Hcn : (c < Z.to_nat (inch s))%nat) by (rewrite <- Wbn; apply nth_error_Some; congruence).
  assert (Hmc : nth_error mask c = Some true) by (eapply prologue_active; [exact Epro | lia | exact Hm]).
  (* shapes from the argument check *)
  unfold xi_pre, x_precheck in Hpre. cbv zeta in Hpre. rewrite Epro in Hpre. cbn [bind] in Hpre.
  apply validate_ok_iff in Hpre. destruct Hpre as (Vi & Vm & Vil & Vo & Vol).
  assert (Lw : Cc <= zlen w) by (apply (Vil c (zlen w)); [rewrite nth_error_map, Hw; reflexivity | exact Hmc]).
  assert (Lib : zlen ib = Cc + fin) by (rewrite Forall_forall in Wb; apply Wb; eapply nth_error_In; exact Hib).
  assert (Lov : zlen ov = fout) by (rewrite Forall_forall in Wo; apply Wo; eapply nth_error_In; exact Hov).
  assert (Hready : 0 <= ready) by (apply Z.div_pos; lia).
  assert (Hdm : sv + Cc = fin * ready + (sv + Cc) mod fin) by (apply Z.div_mod; lia).
  assert (Hmod : 0 <= (sv + Cc) mod fin < fin) by (apply Z.mod_pos_bound; lia).
  (* --- pass 1 *)
  assert (Hz1 : nth_error (combine wi (fs_bufs s)) c = Some (w, ib)).
  { clear -Hw Hib. revert c Hw Hib. generalize (fs_bufs s). induction wi as [|x a IH]; intros [|y b] c H1 H2; try (destruct c; discriminate).
    destruct c; cbn in *; [congruence | apply IH; assumption]. }
  destruct (per_channel_nth _ _ _ _ c _ true E1 Hz1 Hmc) as ([w1 ib1] & Hr1 & Ef1).
  unfold xi_f1 in Ef1. cbv zeta in Ef1. injection Ef1 as <- Eib1.
  set (sk := Z.to_nat sv) in *. change (@snum CR SR) with R in *.
  assert (Lwin : length (firstn (Z.to_nat Cc) (skipn sk ib)) = Z.to_nat Cc).
  { rewrite firstn_length, skipn_length. unfold zlen in Lib. lia. }
  rewrite Lwin in Eib1. rewrite overwrite_ge in Eib1 by (rewrite Lwin; unfold zlen in Lw; lia). rewrite Lwin in Eib1.
  assert (Lib1 : zlen ib1 = Cc + fin).
  { rewrite <- Eib1. unfold zlen in *. rewrite !app_length, !firstn_length, skipn_length. lia. }
  assert (Hfront : firstn (sk + Z.to_nat Cc) ib1 = skipn (Z.to_nat (j * fin)) X').
  { rewrite <- Eib1. rewrite app_assoc. rewrite firstn_app.
    assert (L0 : length (firstn sk ib ++ firstn (Z.to_nat Cc) w) = (sk + Z.to_nat Cc)%nat).
    { rewrite app_length, !firstn_length. unfold zlen in *. lia. }
    rewrite L0. replace (sk + Z.to_nat Cc - (sk + Z.to_nat Cc))%nat with O by lia. cbn [firstn]. rewrite app_nil_r.
    rewrite firstn_all2 by lia. unfold X'. rewrite skipn_app.
    replace (Z.to_nat (j * fin) - length X)%nat with O by (unfold zlen in HX; nia). cbn [skipn].
    f_equal. exact Hpark. }
  (* --- pass 2 *)
  assert (Ho0 : exists o, nth_error wo c = Some o).
  { destruct (nth_error wo c) eqn:En; [eauto|]. apply nth_error_None in En. unfold zlen in Vo. rewrite map_length in Vo. unfold xi_val_channels in Vo. fold (inch s) in Vo. lia. }
  destruct Ho0 as (o & Ho).
  assert (Hno : xi_val_min_out (fs_ctl s) (xi_needed_len (fs_ctl s) (@xi_nbr_chunks_ready CR (fs_ctl s) (xi_next_saved_frames (fs_ctl s)))) = ready * fout).
  { unfold xi_val_min_out, xi_needed_len, xi_next_saved_frames. rewrite chunks_ready_R by (unfold fin, sv, Cc, ifin, isaved, iC in *; lia). reflexivity. }
  assert (Lo : ready * fout <= zlen o).
  { rewrite <- Hno. apply (Vol c (zlen o)); [rewrite nth_error_map, Ho; reflexivity | exact Hmc]. }
  assert (Hz2 : nth_error (zip3 (map snd r1) wo (fs_overlaps s)) c = Some (ib1, o, ov)).
  { assert (H1 : nth_error (map snd r1) c = Some ib1) by (rewrite nth_error_map, Hr1; reflexivity).
    clear -H1 Ho Hov. revert c H1 Ho Hov. generalize (fs_overlaps s). generalize (map snd r1). revert wo.
    intros wo a. revert wo. induction a as [|x a IH]; intros [|y b] [|z d] c H1 H2 H3; try (destruct c; discriminate).
    destruct c; cbn in *; [congruence | apply IH; assumption]. }
  destruct (per_channel_nth _ _ _ _ c _ true E2 Hz2 Hmc) as ([[ib1' o'] ov'] & Hr2 & Ef2).
  unfold xi_f2 in Ef2.
  assert (Ez : (fin =? 0) || (fout =? 0) = false) by (apply orb_false_iff; split; apply Z.eqb_neq; lia). rewrite Ez in Ef2.
  destruct (chunks_full fin (Z.to_nat ready) ib1 ltac:(lia) ltac:(rewrite Z2Nat.id by lia; nia)) as [Ci1 Ci2].
  destruct (chunks_full fout (Z.to_nat ready) o ltac:(lia) ltac:(rewrite Z2Nat.id by lia; nia)) as [Co1 Co2].
  change (@snum CR SR) with R in *. set (ins := firstn (Z.to_nat ready) (chunks fin ib1)) in *.
  assert (Lins : length ins = Z.to_nat ready) by (unfold ins; rewrite firstn_length; lia).
  assert (Hle : (length ins <= length (chunks fout o))%nat) by (rewrite Lins; exact Co1).
  assert (Hfo2 : Forall (fun c0 : list R => zlen c0 = fout) (firstn (length ins) (chunks fout o))) by (rewrite Lins; exact Co2).
  destruct (@run_units_canon CR SR unit_fn fout fin ltac:(lia) Wu ins (chunks fout o) ov Ci2 Lov Hle Hfo2)
    as (os & Er & Cc2 & Sk & Ln & Lv & Fo).
  rewrite Er in Ef2. cbn [bind] in Ef2. injection Ef2 as <- <- <-.
  (* the blocks processed are the next [ready] blocks of the stream *)
  assert (Eins : ins = chunks fin (firstn (Z.to_nat (ready * fin)) (skipn (Z.to_nat (j * fin)) X'))).
  { unfold ins. rewrite chunks_firstn by (try lia; rewrite Z2Nat.id by lia; nia). rewrite Z2Nat.id by lia.
    f_equal. rewrite <- Hfront. rewrite firstn_firstn. f_equal. unfold sk. nia. }
  (* --- pass 3 *)
  assert (Hb2 : exists ib2, nth_error (fs_bufs s') c = Some ib2 /\
                            firstn (Z.to_nat ((sv + Cc) mod fin)) ib2 = skipn (Z.to_nat ((j + ready) * fin)) X').
  { assert (Hr1' : nth_error (map snd r1) c = Some ib1) by (rewrite nth_error_map, Hr1; reflexivity).
    assert (Etail : skipn (Z.to_nat (ready * fin)) (firstn (sk + Z.to_nat Cc) ib1) = skipn (Z.to_nat ((j + ready) * fin)) X').
    { rewrite Hfront. rewrite skipn_add. f_equal. nia. }
    destruct (Z.gtb_spec (sv + Cc) (ready * fin)) as [Hgt|Hng].
    - destruct (per_channel_nth _ _ _ _ c _ true Ekeep Hr1' Hmc) as (ib2 & Hk2 & Ef3).
      exists ib2. split; [exact Hk2|]. unfold xi_f3 in Ef3. change (@snum CR SR) with R in *.
      destruct (copy_within ib1 (ready * fin) (sv + Cc) 0) as [ib2'|] eqn:Ecw; [|discriminate]. cbv beta iota in Ef3. injection Ef3 as <-.
      unfold copy_within in Ecw.
      destruct (in_range ib1 (ready * fin) (sv + Cc) && (0 <=? 0) && (0 + (sv + Cc - ready * fin) <=? zlen ib1)); [|discriminate].
      injection Ecw as <-. unfold splice. cbn [firstn app Z.to_nat].
      assert (Lsl : length (slice ib1 (ready * fin) (sv + Cc)) = Z.to_nat ((sv + Cc) mod fin)).
      { generalize (slice_length ib1 (ready * fin) (sv + Cc) ltac:(nia) ltac:(lia) ltac:(lia)). unfold zlen. lia. }
      rewrite firstn_app, Lsl. replace (Z.to_nat ((sv + Cc) mod fin) - Z.to_nat ((sv + Cc) mod fin))%nat with O by lia.
      cbn [firstn]. rewrite app_nil_r. rewrite firstn_all2 by lia.
      rewrite <- Etail. unfold slice.
      replace (Z.to_nat (sv + Cc - ready * fin)) with (sk + Z.to_nat Cc - Z.to_nat (ready * fin))%nat by (unfold sk; nia).
      symmetry. apply skipn_firstn_comm.
    - exists ib1. rewrite Ekeep. split; [exact Hr1'|].
      assert (E0 : (sv + Cc) mod fin = 0) by nia. rewrite E0. cbn [Z.to_nat firstn].
      rewrite <- Etail. symmetry. apply skipn_all2. rewrite firstn_length. unfold sk. nia. }
  destruct Hb2 as (ib2 & Hib2 & Hpark2).
  exists s', outs, (concat os), j.
  split; [exact E|]. split; [exact W'|]. split; [exact Hfi|]. split; [exact Hfo|]. split; [exact HC|].
  assert (LX' : zlen X' = (j + ready) * fin + (sv + Cc) mod fin).
  { unfold X', zlen in *. rewrite app_length, firstn_length. nia. }
  assert (Eblocks : firstn (Z.to_nat ((j + ready) * fin)) X' =
                    firstn (Z.to_nat (j * fin)) X ++ firstn (Z.to_nat (ready * fin)) (skipn (Z.to_nat (j * fin)) X')).
  { replace (Z.to_nat ((j + ready) * fin)) with (Z.to_nat (j * fin) + Z.to_nat (ready * fin))%nat by nia.
    rewrite firstn_add. f_equal. unfold X'. rewrite firstn_app.
    replace (Z.to_nat (j * fin) - length X)%nat with O by (unfold zlen in HX; nia). cbn [firstn]. apply app_nil_r. }
  assert (Ecanon : canonR fout (chunks fin (firstn (Z.to_nat ((j + ready) * fin)) X')) ov0 =
                   (fst (canonR fout (chunks fin (firstn (Z.to_nat (j * fin)) X)) ov0) ++ fst (canonR fout ins ov), snd (canonR fout ins ov))).
  { rewrite Eblocks. rewrite (chunks_app fin (Z.to_nat j)) by (try lia; unfold zlen in *; rewrite firstn_length; nia).
    rewrite (@canon_app CR SR unit_fn fout). rewrite <- Eins. rewrite Hovc. reflexivity. }
  split.
  { (* the invariant for the next call *)
    exists ib2, (snd (canonR fout ins ov)), (j + ready).
    rewrite Hfi, Hfo, Hsv'.
    split; [exact Hib2|]. split; [rewrite Eov, nth_error_map, Hr2; reflexivity|]. split; [lia|].
    split; [exact LX'|]. split; [exact Hpark2|]. exact (eq_sym (f_equal snd Ecanon)). }
  split; [rewrite Eouts, nth_error_map, Hr2; reflexivity|].
  split; [exact Hj|]. split; [exact HX|]. split; [rewrite Hsv'; exact LX'|].
  transitivity (fst (canonR fout (chunks fin (firstn (Z.to_nat (j * fin)) X)) ov0) ++ fst (canonR fout ins ov)); [exact (f_equal fst Ecanon)|].
  f_equal. rewrite <- Cc2.
  replace (Z.to_nat (ready * fout)) with (length ins * Z.to_nat fout)%nat by (rewrite Lins; nia).
  change (@snum CR SR) with R in *. symmetry. apply concat_firstn_full; [lia|].
  eapply Forall_impl; [|exact Fo]. intros x Hx. cbv beta in Hx. unfold zlen in Hx. lia.
Qed.

End XIStream.

(** * Whole streams *)
Section XIHistory.
Variable unit_fn : list (@snum CR SR) -> list (@snum CR SR).
Variable c : nat.
Notation ST := (@fstate CR SR FftFixedIn).
Notation canonR := (@canon CR SR unit_fn).

(* run the calls; X accumulates the input samples of channel c that were consumed, the result collects the frames written *)
Fixpoint xi_stream (s : ST) (X : list (@snum CR SR)) (calls : list (list (list (@snum CR SR)) * list (list (@snum CR SR)) * option (list bool)))
  : @res CR (ST * list (@snum CR SR) * list (@snum CR SR)) :=
  match calls with
  | [] => Ok (s, X, [])
  | (wi, wo, m) :: rest =>
      do _ <- xi_pre s wi wo m;
      do x <- @xi_pib CR SR unit_fn s wi wo m;
      let '(s', (a, b), outs) := x in
      do y <- xi_stream s' (X ++ firstn (Z.to_nat a) (nth c wi [])) rest;
      let '(s'', X'', ys) := y in
      Ok (s'', X'', firstn (Z.to_nat b) (nth c outs []) ++ ys)
  end.

(* channel c is present and active in every call *)
Fixpoint xi_live (calls : list (list (list (@snum CR SR)) * list (list (@snum CR SR)) * option (list bool))) : Prop :=
  match calls with
  | [] => True
  | (wi, _, m) :: rest => (exists w, nth_error wi c = Some w) /\ match m with Some mk => nth_error mk c = Some true | None => True end /\ xi_live rest
  end.

Theorem xi_stream_canon (ov0 : list (@snum CR SR)) : forall calls (s : ST) X,
  xi_wf unit_fn s -> xi_holds unit_fn s c X ov0 -> zlen ov0 = ifout s -> xi_live calls ->
  match xi_stream s X calls with
  | Ok (s', X', ys) =>
      xi_wf unit_fn s' /\ xi_holds unit_fn s' c X' ov0 /\ ifin s' = ifin s /\ ifout s' = ifout s /\
      exists j j', 0 <= j /\ zlen X = j * ifin s + isaved s /\ zlen X' = j' * ifin s + isaved s' /\
        fst (canonR (ifout s) (chunks (ifin s) (firstn (Z.to_nat (j' * ifin s)) X')) ov0) =
        fst (canonR (ifout s) (chunks (ifin s) (firstn (Z.to_nat (j * ifin s)) X)) ov0) ++ ys
  | Err _ => True
  | Panic _ | UB _ | Diverge => False
  end.
Proof.
  induction calls as [|[[wi wo] m] rest IH]; intros s X W Hh Hov0 Hl; cbn [xi_stream].
  - split; [exact W|]. split; [exact Hh|]. split; [reflexivity|]. split; [reflexivity|].
    destruct Hh as (ib & ov & j & _ & _ & Hj & HX & _). exists j, j. rewrite app_nil_r. repeat split; assumption.
  - cbn [xi_live] in Hl. destruct Hl as ((w & Hw) & Hm & Hl).
    destruct (xi_pre s wi wo m) as [[]| | | |] eqn:Ep; cbn [bind]; try exact I;
      try (unfold xi_pre in Ep; cbv zeta in Ep;
           match type of Ep with x_precheck ?a ?b ?c0 ?d ?sm ?f ?g ?h = _ => destruct (@x_precheck_total CR SR a b c0 d sm f g h) as [Hq|[er Hq]] end;
           rewrite Hq in Ep; discriminate).
    destruct (xi_call_stream unit_fn s wi wo m c X ov0 w W Ep Hh Hov0 Hw Hm) as (s' & outs & o' & j & E & W' & Hfi & Hfo & HC & Hh' & Ho & Hj & HX & HX' & Hcan).
    rewrite E. cbn [bind]. rewrite (nth_error_nth _ _ [] Hw), (nth_error_nth _ _ [] Ho).
    specialize (IH s' (X ++ firstn (Z.to_nat (iC s)) w) W' Hh' ltac:(rewrite Hfo; exact Hov0) Hl).
    destruct (xi_stream s' (X ++ firstn (Z.to_nat (iC s)) w) rest) as [[[s'' X''] ys]| | | |]; cbn [bind]; try exact IH.
    destruct IH as (W'' & Hh'' & Hfi'' & Hfo'' & j1 & j2 & Hj1 & HX1 & HX2 & Hcan2).
    split; [exact W''|]. split; [exact Hh''|]. split; [congruence|]. split; [congruence|].
    rewrite Hfi, Hfo in *.
    assert (Ej : j1 = j + (isaved s + iC s) / ifin s).
    { destruct W' as [Wfin' _ _ _ Wsv' _ _ _ _ _ _]. rewrite Hfi in Wfin', Wsv'.
      assert (j1 * ifin s + isaved s' = (j + (isaved s + iC s) / ifin s) * ifin s + isaved s') by lia. nia. }
    exists j, j2. split; [exact Hj|]. split; [exact HX|]. split; [exact HX2|].
    rewrite Hcan2. rewrite Ej. rewrite Hcan. rewrite app_assoc. reflexivity.
Qed.

End XIHistory.

(** * From the constructor: the stream of a fresh FftFixedIn is the canonical stream of the blocks it has consumed *)
From Rubato.Model Require Resamplers.

Theorem xi_fresh_stream (unit_fn : list (@snum CR SR) -> list (@snum CR SR)) rate_in rate_out chunk sub nch s (c : nat) calls :
  0 < rate_in -> 0 < rate_out -> 1 <= chunk -> 0 <= nch -> (c < Z.to_nat nch)%nat ->
  @Resamplers.fft_in_new CR SR rate_in rate_out chunk sub nch = inr (Resamplers.RFftIn s) ->
  (forall w, zlen w = ifin s -> zlen (unit_fn w) = 2 * ifout s) ->
  xi_live c calls ->
  match xi_stream unit_fn c s [] calls with
  | Ok (s', X', ys) =>
      ys = fst (@canon CR SR unit_fn (ifout s) (chunks (ifin s) (firstn (Z.to_nat (zlen X' / ifin s * ifin s)) X'))
                       (@Resamplers.zeros CR SR (ifout s)))
  | Err _ => True
  | Panic _ | UB _ | Diverge => False
  end.
Proof.
  intros Hi Ho Hc Hn Hcn Hnew Hu Hl.
  destruct (xi_ctor unit_fn rate_in rate_out chunk sub nch s Hi Ho Hc Hn Hnew Hu) as (W & _ & Hs0 & _).
  assert (Hfo0 : 0 <= ifout s) by (destruct W; lia).
  assert (Hh : xi_holds unit_fn s c [] (@Resamplers.zeros CR SR (ifout s))).
  { unfold Resamplers.fft_in_new in Hnew. destruct (syn_validate_rates_bad rate_in rate_out); [discriminate|]. cbv zeta in Hnew.
    injection Hnew as Es. unfold xi_holds. rewrite Hs0.
    eexists _, _, 0. rewrite <- Es at 1 2. cbn [fs_bufs fs_overlaps]. unfold Resamplers.chans.
    split; [rewrite nth_error_repeat by exact Hcn; reflexivity|]. split; [rewrite nth_error_repeat by exact Hcn; reflexivity|].
    split; [lia|]. split; [reflexivity|]. split; [reflexivity|].
    cbn [Z.mul Z.to_nat firstn]. unfold chunks. cbn [length chunks_aux canon snd].
    rewrite <- Es. cbn [fs_ctl]. reflexivity. }
  generalize (xi_stream_canon unit_fn c (@Resamplers.zeros CR SR (ifout s)) calls s [] W Hh
                (ltac:(unfold Resamplers.zeros, zlen; rewrite repeat_length; lia)) Hl).
  destruct (xi_stream unit_fn c s [] calls) as [[[s' X'] ys]| | | |]; try exact (fun x => x).
  intros (W' & _ & Hfi & _ & j & j' & Hj & HX & HX' & Hcan).
  rewrite Hs0 in HX. unfold zlen in HX at 1. cbn [length] in HX.
  assert (Ej : j = 0) by (destruct W; nia). subst j.
  cbn [Z.mul Z.to_nat firstn] in Hcan. unfold chunks at 2 in Hcan. cbn [length chunks_aux canon fst app] in Hcan.
  assert (Ej' : zlen X' / ifin s = j').
  { destruct W' as [Wfin' _ _ _ Wsv' _ _ _ _ _ _]. rewrite Hfi in Wfin', Wsv'. rewrite HX'.
    rewrite Z.div_add_l by lia. rewrite Z.div_small by lia. lia. }
  rewrite Ej'. symmetry. exact Hcan.
Qed.
