(** C11: the per-channel stages of process_into_buffer act on each channel separately; the
    evaluation instants are computed from the control state alone; masked channels are skipped
    and their output buffers are returned untouched.  Any arithmetic.                    *)

From Coq Require Import ZArith List Bool Lia.
From Rubato.Model Require Import Num Base Validate Async Fft.
Import ListNotations.
Local Open Scope Z_scope.

Section Channels.
Context {C : CNum} {S : SNum C}.

(** history shift: channel c of the result is the shifted channel c *)
Lemma shift_all_nth bufs lo hi dst bufs' c b :
  shift_all (S:=S) bufs lo hi dst = Ok bufs' -> nth_error bufs c = Some b ->
  exists b', nth_error bufs' c = Some b' /\ copy_within b lo hi dst = Some b'.
Proof.
  revert bufs' c. induction bufs as [|x xs IH]; intros bufs' c H Hc; [destruct c; discriminate|].
  cbn [shift_all] in H. destruct (copy_within x lo hi dst) as [x'|] eqn:Ex; [|discriminate].
  destruct (shift_all xs lo hi dst) as [xs'| | | |] eqn:Es; cbn [bind] in H; try discriminate.
  injection H as <-. destruct c as [|c]; cbn [nth_error] in *.
  - injection Hc as <-. eauto.
  - eapply IH; eauto.
Qed.

(** loading: an active channel receives its own input, an inactive one is left as it is *)
Lemma fill_all_nth {St} (A : arch St) st bufs : forall waves mask bufs' c b m,
  fill_all A st bufs waves mask = Ok bufs' -> nth_error bufs c = Some b -> nth_error mask c = Some m ->
  exists b', nth_error bufs' c = Some b' /\
             (if m then exists w, nth_error waves c = Some w /\ fill_channel A st b w = Ok b' else b' = b).
Proof.
  induction bufs as [|x xs IH]; intros waves mask bufs' c b m H Hc Hm; [destruct c; discriminate|].
  cbn [fill_all] in H. destruct mask as [|m0 ms]; [destruct c; discriminate|].
  destruct (if m0 then match waves with w :: _ => fill_channel A st x w | [] => Panic PSliceIndex end else Ok x) as [x'| | | |] eqn:Ex;
    cbn [bind] in H; try discriminate.
  destruct (fill_all A st xs (tl waves) ms) as [xs'| | | |] eqn:Es; cbn [bind] in H; try discriminate.
  injection H as <-. destruct c as [|c]; cbn [nth_error] in *.
  - injection Hc as <-. injection Hm as <-. exists x'. split; [reflexivity|].
    destruct m0; [|injection Ex as <-; reflexivity]. destruct waves as [|w ws]; [discriminate|]. exists w. split; [reflexivity|exact Ex].
  - destruct (IH _ _ _ _ _ _ Es Hc Hm) as (b' & H1 & H2). exists b'. split; [exact H1|].
    destruct m; [|exact H2]. destruct H2 as (w & Hw & Hf). exists w. split; [|exact Hf].
    destruct waves; [destruct c; discriminate|]. exact Hw.
Qed.

(** interpolation: an active channel's output is its written prefix computed from its own buffer
    at the shared instants; an inactive channel's output buffer is returned untouched *)
Lemma outputs_all_nth {St} (A : arch St) st bufs : forall outs mask ps outs' c b o m,
  outputs_all A st bufs outs mask ps = Ok outs' ->
  nth_error bufs c = Some b -> nth_error outs c = Some o -> nth_error mask c = Some m ->
  exists o', nth_error outs' c = Some o' /\
    (if m then exists vals, samples_at (a_sample A st b) ps = Ok vals /\ o' = write_prefix o vals else o' = o).
Proof.
  induction bufs as [|x xs IH]; intros outs mask ps outs' c b o m H Hb Ho Hm; [destruct c; discriminate|].
  cbn [outputs_all] in H. destruct outs as [|y ys]; [destruct c; discriminate|].
  destruct mask as [|m0 ms]; [destruct c; discriminate|].
  match type of H with bind ?X _ = _ => destruct X as [y'| | | |] eqn:Ey end; cbn [bind] in H; try discriminate.
  destruct (outputs_all A st xs ys ms ps) as [ys'| | | |] eqn:Es; cbn [bind] in H; try discriminate.
  injection H as <-. destruct c as [|c]; cbn [nth_error] in *.
  - injection Hb as <-. injection Ho as <-. injection Hm as <-. exists y'. split; [reflexivity|].
    destruct m0; [|injection Ey as <-; reflexivity].
    destruct (samples_at (a_sample A st x) ps) as [vals| | | |]; cbn [bind] in Ey; try discriminate.
    exists vals. split; [reflexivity|].
    destruct (length vals <=? length y)%nat; [injection Ey as <-; reflexivity|]. destruct (a_write_checked A); discriminate.
  - eapply IH; eauto.
Qed.

(** a masked-out channel: nothing is read from its input, nothing is written to its output *)
Corollary masked_output_untouched {St} (A : arch St) st bufs outs mask ps outs' c b o :
  outputs_all A st bufs outs mask ps = Ok outs' ->
  nth_error bufs c = Some b -> nth_error outs c = Some o -> nth_error mask c = Some false ->
  nth_error outs' c = Some o.
Proof.
  intros H Hb Ho Hm. destruct (outputs_all_nth A st bufs outs mask ps outs' c b o false H Hb Ho Hm) as (o' & E & ->). exact E.
Qed.

(** the synchronous resamplers: the per-channel combinator *)
Lemma per_channel_nth {X} (f : X -> res X) : forall xs mask xs' c x m,
  per_channel f xs mask = Ok xs' -> nth_error xs c = Some x -> nth_error mask c = Some m ->
  exists x', nth_error xs' c = Some x' /\ (if m then f x = Ok x' else x' = x).
Proof.
  induction xs as [|y ys IH]; intros mask xs' c x m H Hx Hm; [destruct c; discriminate|].
  cbn [per_channel] in H. destruct mask as [|m0 ms]; [destruct c; discriminate|].
  destruct (if m0 then f y else Ok y) as [y'| | | |] eqn:Ey; cbn [bind] in H; try discriminate.
  destruct (per_channel f ys ms) as [ys'| | | |] eqn:Es; cbn [bind] in H; try discriminate.
  injection H as <-. destruct c as [|c]; cbn [nth_error] in *.
  - injection Hx as <-. injection Hm as <-. exists y'. split; [reflexivity|]. destruct m0; [exact Ey | injection Ey as <-; reflexivity].
  - eapply IH; eauto.
Qed.

(** the instants do not depend on the audio: more fuel never changes a completed loop *)
Lemma positions_in_fuel_mono tstep istep cond : forall f1 f2 t inc idx r,
  (f1 <= f2)%nat -> positions_in (C:=C) tstep istep cond f1 t inc idx = Some r ->
  positions_in tstep istep cond f2 t inc idx = Some r.
Proof.
  induction f1 as [|f1 IH]; intros f2 t inc idx r Hle H; cbn [positions_in] in H.
  - destruct (cond idx) eqn:Ec; [discriminate|]. destruct f2; cbn [positions_in]; rewrite Ec; exact H.
  - destruct f2 as [|f2]; [lia|]. cbn [positions_in]. destruct (cond idx) eqn:Ec; [|exact H].
    destruct (positions_in tstep istep cond f1 (tstep t inc) inc (istep idx (tstep t inc))) as [[ps last]|] eqn:E1; [|discriminate].
    rewrite (IH f2 _ _ _ _ ltac:(lia) E1). exact H.
Qed.

End Channels.
