(** C04 in binary64 for a freshly constructed FastFixedOut: the first advertised
    input_frames_next (= needed_input_size computed by the constructor, in f64)
    is at most input_frames_max, overflow of the quotient to +inf and the
    saturating cast included.  Uses the monotonicity lemmas of GettersB.v plus
    monotonicity of ceil (Bnearbyint mode_UP) and x <= RN(x*m) for m >= 1. *)
From Coq Require Import ZArith Reals Bool Lra Lia.
From Flocq Require Import Core BinarySingleNaN.
From Rubato.Model Require Import Num Floats.
From Rubato.Gen Require Import FastGen.
From Rubato.Proofs Require Import RatioBounds GettersB.

Local Open Scope R_scope.

Lemma le64_refl (x : f64) : nn x -> le64 x x.
Proof.
  intros N. split; [exact N|]. split; [exact N|].
  destruct N as [E|[F P]]; [left; exact E|right; repeat split; try assumption; lra].
Qed.

Lemma nn_nearbyint_up (x : f64) : nn x -> nn (Bnearbyint mode_UP x).
Proof.
  intros [E|[F P]]; [left; rewrite E; reflexivity|right].
  destruct (Bnearbyint_correct 53 1024 _ mode_UP x) as (E & Ff & _).
  split; [rewrite Ff; exact F|]. rewrite E.
  rewrite <- (round_0 radix2 (FIX_exp 0) (round_mode mode_UP)).
  apply round_le; [apply FIX_exp_valid|apply valid_rnd_round_mode|exact P].
Qed.

(** ceil is monotone on the non-negative extended line *)
Lemma ceil_mono (x y : f64) : le64 x y -> le64 (Bnearbyint mode_UP x) (Bnearbyint mode_UP y).
Proof.
  intros (Nx & Ny & H).
  split; [apply nn_nearbyint_up; exact Nx|]. split; [apply nn_nearbyint_up; exact Ny|].
  destruct H as [E|(Fx & Fy & L)]; [left; rewrite E; reflexivity|right].
  destruct (Bnearbyint_correct 53 1024 _ mode_UP x) as (Ex & Ffx & _).
  destruct (Bnearbyint_correct 53 1024 _ mode_UP y) as (Ey & Ffy & _).
  rewrite Ffx, Ffy, Ex, Ey. repeat split; try assumption.
  apply round_le; [apply FIX_exp_valid|apply valid_rnd_round_mode|exact L].
Qed.

(** multiplying by a finite factor >= 1 does not decrease, overflow included *)
Lemma mult_ge_one (x m : f64) :
  nn x -> is_finite m = true -> 1 <= B2R m -> le64 x (Bmult mode_NE x m).
Proof.
  intros Nx Fm Hm.
  assert (Sm : Bsign m = false) by (apply pos_sign; [exact Fm|lra]).
  destruct Nx as [E|[Fx Px]].
  - (* +inf * m = +inf *)
    subst x. destruct m as [s|s| |s mm e Hb]; try discriminate Fm.
    + cbn in Hm. lra.
    + cbn in Sm. subst s. apply le64_refl. left. reflexivity.
  - assert (Hrx : B2R x <= RN64 (B2R x * B2R m)).
    { rewrite <- (RN64_id x) at 1. apply RN64_le. nra. }
    generalize (Bmult_correct 53 1024 _ _ mode_NE x m). cbn [round_mode].
    case Rlt_bool_spec; intros Hlt.
    + intros (E & F & _). rewrite Fx, Fm in F.
      split; [right; split; assumption|]. split; [right; split; [exact F|rewrite E; lra]|].
      right. repeat split; try assumption. rewrite E. exact Hrx.
    + intros E.
      assert (Hpos : 0 < B2R x).
      { destruct (Rle_lt_or_eq_dec 0 (B2R x) Px) as [H|H]; [exact H|].
        exfalso. rewrite <- H, Rmult_0_l, round_0, Rabs_R0 in Hlt by apply valid_rnd_N.
        generalize (bpow_gt_0 radix2 1024). lra. }
      assert (Sx : Bsign x = false) by (apply pos_sign; assumption).
      rewrite Sx, Sm in E. cbn in E.
      assert (Ei : Bmult mode_NE x m = pinf) by (apply B2SF_inj; exact E).
      split; [right; split; assumption|]. split; [left; exact Ei|left; exact Ei].
Qed.

(** a non-negative finite numerator over a positive finite denominator: +inf or finite >= 0 *)
Lemma div_nn (c r : f64) :
  is_finite c = true -> 0 < B2R c -> is_finite r = true -> 0 < B2R r -> nn (Bdiv mode_NE c r).
Proof.
  intros Fc Pc Fr Pr.
  assert (Sc : Bsign c = false) by (apply pos_sign; assumption).
  assert (Sr : Bsign r = false) by (apply pos_sign; assumption).
  assert (Hnz : B2R r <> 0) by lra.
  generalize (Bdiv_correct 53 1024 _ _ mode_NE c r Hnz). cbn [round_mode].
  case Rlt_bool_spec; intros Hlt.
  - intros (E & F & _). right. split; [rewrite F; exact Fc|]. rewrite E.
    apply RN64_nonneg. apply Rlt_le. apply Rdiv_lt_0_compat; assumption.
  - intros E. rewrite Sc, Sr in E. cbn in E. left. apply B2SF_inj. exact E.
Qed.

(** ** FastFixedOut as constructed: input_frames_next <= input_frames_max in binary64 *)
Theorem fo_fresh_next_le_max_B64 (st : @FastFixedOut CB) :
  let orig := FastFixedOut_resample_ratio_original st in
  let maxrel := FastFixedOut_max_relative_ratio st in
  let chunk := FastFixedOut_chunk_size st in
  (1 <= chunk < 2 ^ 53)%Z ->
  is_finite orig = true -> 0 < B2R orig ->
  is_finite maxrel = true -> 1 <= B2R maxrel ->
  FastFixedOut_needed_input_size st = @fo_new_needed_input_size CB chunk orig ->
  (@fo_input_frames_next CB st <= @fo_input_frames_max CB st)%Z.
Proof.
  intros orig maxrel chunk Hc Fo Po Fm Hm Hn.
  unfold fo_input_frames_next, fo_input_frames_max. rewrite Hn.
  unfold fo_new_needed_input_size, POLYNOMIAL_LEN_U.
  cbn [c_to_usize cceil cmul cdiv c_of_Z CB].
  fold orig maxrel chunk.
  set (c := b_of_Z 53 1024 chunk).
  destruct (b64_of_Z_exact chunk) as [Ec Fc]; [lia|]. fold c in Ec, Fc.
  assert (Pc : 0 < B2R c) by (rewrite Ec; apply IZR_lt; lia).
  assert (Nq : nn (Bdiv mode_NE c orig)) by (apply div_nn; assumption).
  assert (H : (b_to_int 53 1024 0 usize_max (Bnearbyint mode_UP (Bdiv mode_NE c orig)) <=
               b_to_int 53 1024 0 usize_max (Bnearbyint mode_UP (Bmult mode_NE (Bdiv mode_NE c orig) maxrel)))%Z).
  { apply to_usize_mono. apply ceil_mono. apply mult_ge_one; assumption. }
  change (8 ÷ 2)%Z with 4%Z. lia.
Qed.

(** non-vacuity: chunk 1024, original ratio 1, max relative ratio 2 (needed = 1024 + 4) *)
Definition fo_example : @FastFixedOut CB :=
  let one := b_lit 53 1024 1 0 in let two := b_lit 53 1024 1 1 in
  mk_FastFixedOut 2 1024 (@fo_new_needed_input_size CB 1024 one) (b_of_Z 53 1024 (-4)) 0 one one one two.

Lemma fo_fresh_example :
  let st := fo_example in
  (1 <= FastFixedOut_chunk_size st < 2 ^ 53)%Z /\
  is_finite (FastFixedOut_resample_ratio_original st) = true /\ 0 < B2R (FastFixedOut_resample_ratio_original st) /\
  is_finite (FastFixedOut_max_relative_ratio st) = true /\ 1 <= B2R (FastFixedOut_max_relative_ratio st) /\
  FastFixedOut_needed_input_size st =
    @fo_new_needed_input_size CB (FastFixedOut_chunk_size st) (FastFixedOut_resample_ratio_original st) /\
  @fo_input_frames_next CB st = 1028%Z /\ @fo_input_frames_max CB st = 2054%Z.
Proof.
  cbv zeta. unfold fo_example. cbn [FastFixedOut_chunk_size FastFixedOut_resample_ratio_original FastFixedOut_max_relative_ratio FastFixedOut_needed_input_size].
  split; [lia|]. split; [reflexivity|]. split; [cbv; lra|]. split; [reflexivity|]. split; [cbv; lra|].
  split; [reflexivity|]. split; vm_compute; reflexivity.
Qed.

(** ** SincFixedOut as constructed (chunk_size = max_chunk_size): the same statement *)
From Rubato.Gen Require SincGen.

Theorem so_fresh_next_le_max_B64 (st : @SincGen.SincFixedOut CB) :
  let orig := SincGen.SincFixedOut_resample_ratio_original st in
  let maxrel := SincGen.SincFixedOut_max_relative_ratio st in
  let chunk := SincGen.SincFixedOut_max_chunk_size st in
  let L := SincGen.SincFixedOut_interpolator_len st in
  (1 <= chunk < 2 ^ 53)%Z ->
  is_finite orig = true -> 0 < B2R orig ->
  is_finite maxrel = true -> 1 <= B2R maxrel ->
  SincGen.SincFixedOut_needed_input_size st = @SincGen.so_new_needed_input_size CB chunk L orig ->
  (@SincGen.so_input_frames_next CB st <= @SincGen.so_input_frames_max CB st)%Z.
Proof.
  intros orig maxrel chunk L Hc Fo Po Fm Hm Hn.
  unfold SincGen.so_input_frames_next, SincGen.so_input_frames_max. rewrite Hn.
  unfold SincGen.so_new_needed_input_size.
  cbn [c_to_usize cceil cmul cdiv c_of_Z CB].
  fold orig maxrel chunk L.
  set (c := b_of_Z 53 1024 chunk).
  destruct (b64_of_Z_exact chunk) as [Ec Fc]; [lia|]. fold c in Ec, Fc.
  assert (Pc : 0 < B2R c) by (rewrite Ec; apply IZR_lt; lia).
  assert (Nq : nn (Bdiv mode_NE c orig)) by (apply div_nn; assumption).
  assert (H : (b_to_int 53 1024 0 usize_max (Bnearbyint mode_UP (Bdiv mode_NE c orig)) <=
               b_to_int 53 1024 0 usize_max (Bnearbyint mode_UP (Bmult mode_NE (Bdiv mode_NE c orig) maxrel)))%Z).
  { apply to_usize_mono. apply ceil_mono. apply mult_ge_one; assumption. }
  lia.
Qed.
