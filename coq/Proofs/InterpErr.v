(** C08: the classical interpolation error bound.

    For a function f with a chain of derivatives F (F 0 = f, F (k+1) = (F k)'),
    a polynomial q of degree < n+1 (given by a chain Q whose (n+1)-th member is 0)
    that agrees with f at n+1 nodes, and an evaluation point x strictly between two
    consecutive nodes:   f x - q x = F (n+1) xi / (n+1)! * prod (x - node_i)
    for some xi between the outermost nodes (generalised Rolle).  Stated over
    abstract chains, then instantiated with the *generated* interpolators of
    Gen/FastGen.v and with sinusoids.                                              *)

From Coq Require Import Reals List Lra Lia.
From Coquelicot Require Import Coquelicot.
Import ListNotations.
Local Open Scope R_scope.

Definition chain (F : nat -> R -> R) : Prop :=
  forall k x, is_derive (F k) x (F (S k) x).

Ltac dr H := match goal with |- context [Derive ?g ?x] => rewrite (is_derive_unique g x _ H) end.

(** ** Rolle on a chain *)
Lemma rolle_chain F a b :
  chain F -> a < b -> F 0%nat a = 0 -> F 0%nat b = 0 ->
  exists c, a < c < b /\ F 1%nat c = 0.
Proof.
  intros HF Hab Ha Hb.
  assert (pr : forall x, a < x < b -> derivable_pt (F 0%nat) x).
  { intros x _. apply ex_derive_Reals_0. eexists. apply HF. }
  destruct (Rolle (F 0%nat) a b pr) as [c [P Hc]].
  - intros x _. apply derivable_continuous_pt. apply ex_derive_Reals_0. eexists. apply HF.
  - exact Hab.
  - rewrite Ha, Hb. reflexivity.
  - exists c. split; [exact P|].
    rewrite Derive_Reals in Hc. rewrite <- Hc. symmetry. apply is_derive_unique. apply HF.
Qed.

(** strictly increasing run  a < l1 < l2 < ... *)
Fixpoint steps (a : R) (l : list R) : Prop :=
  match l with [] => True | b :: t => a < b /\ steps b t end.

Lemma last_nonempty_default (a b c : R) l : last (c :: l) a = last (c :: l) b.
Proof. revert c. induction l as [|d l IH]; intros c; [reflexivity|].
  change (last (c :: d :: l) a) with (last (d :: l) a). change (last (c :: d :: l) b) with (last (d :: l) b). apply IH. Qed.

Lemma last_cons (a b : R) l : last (b :: l) a = last l b.
Proof. destruct l as [|c l]; [reflexivity|].
  change (last (b :: c :: l) a) with (last (c :: l) a). apply last_nonempty_default. Qed.

Lemma steps_le_last a l : steps a l -> a <= last l a.
Proof. revert a. induction l as [|b l IH]; intros a H; [cbn [last]; lra|].
  destruct H as [H1 H2]. rewrite last_cons. specialize (IH b H2). lra. Qed.

Lemma rolle_list F : chain F -> forall rest z0,
  rest <> [] -> steps z0 rest -> F 0%nat z0 = 0 -> List.Forall (fun z => F 0%nat z = 0) rest ->
  exists c0 cs, steps c0 cs /\ S (length cs) = length rest /\ z0 < c0 /\ last cs c0 < last rest z0 /\
                F 1%nat c0 = 0 /\ List.Forall (fun z => F 1%nat z = 0) cs.
Proof.
  intros HF. induction rest as [|z1 rest IH]; intros z0 Hne Hs H0 Hall; [congruence|].
  destruct Hs as [H01 Hs]. inversion Hall as [|? ? H1 Hall']; subst.
  destruct (rolle_chain F z0 z1 HF H01 H0 H1) as [c0 [Hc0 Hd0]].
  destruct rest as [|z2 rest].
  - exists c0, []. cbn. repeat split; try tauto; try lra. constructor.
  - destruct (IH z1 ltac:(discriminate) Hs H1 Hall') as [c1 [cs [Hst [Hlen [Hlt [Hlast [Hd1 Hds]]]]]]].
    exists c0, (c1 :: cs). repeat split.
    + lra.
    + exact Hst.
    + cbn [length] in *. lia.
    + lra.
    + rewrite !last_cons. rewrite !last_cons in Hlast. exact Hlast.
    + exact Hd0.
    + constructor; assumption.
Qed.

Theorem gen_rolle : forall m F, chain F -> forall z0 rest,
  length rest = m -> steps z0 rest -> F 0%nat z0 = 0 -> List.Forall (fun z => F 0%nat z = 0) rest ->
  exists xi, z0 <= xi <= last rest z0 /\ F m xi = 0.
Proof.
  induction m as [|m IH]; intros F HF z0 rest Hlen Hs H0 Hall.
  - destruct rest; [|discriminate]. exists z0. cbn. split; [lra|exact H0].
  - assert (Hne : rest <> []) by (destruct rest; [discriminate|discriminate]).
    destruct (rolle_list F HF rest z0 Hne Hs H0 Hall) as [c0 [cs [Hst [Hl [Hlt [Hlast [Hd0 Hds]]]]]]].
    destruct (IH (fun k => F (S k)) (fun k x => HF (S k) x) c0 cs ltac:(lia) Hst Hd0 Hds) as [xi [Hxi Hz]].
    exists xi. split; [lra|exact Hz].
Qed.

(** ** The node polynomial  W l s = prod (s - a)  and its chain *)
Fixpoint W (l : list R) (k : nat) (s : R) : R :=
  match l with
  | [] => match k with O => 1 | _ => 0 end
  | a :: t => (s - a) * W t k s + INR k * W t (pred k) s
  end.

Lemma W_chain l : chain (W l).
Proof.
  induction l as [|a l IH]; intros k x.
  - destruct k; cbn [W]; apply @is_derive_const.
  - cbn [W].
    assert (Hk := IH k x). assert (Hp := IH (pred k) x).
    auto_derive.
    + repeat split; try exact I; eexists; eassumption.
    + dr Hk. dr Hp.
      destruct k as [|k].
      * cbn [pred INR]. change (INR 1) with 1. ring.
      * cbn [pred]. rewrite (S_INR (S k)). ring.
Qed.

Lemma W_high l : forall k s, (length l < k)%nat -> W l k s = 0.
Proof.
  induction l as [|a l IH]; intros k s Hk; cbn [W length] in *.
  - destruct k; [lia|reflexivity].
  - rewrite (IH k s) by lia. rewrite (IH (pred k) s) by lia. ring.
Qed.

Lemma W_top l : forall s, W l (length l) s = INR (fact (length l)).
Proof.
  induction l as [|a l IH]; intros s; cbn [W length].
  - reflexivity.
  - rewrite (W_high l (S (length l)) s) by lia. cbn [pred]. rewrite IH.
    rewrite <- mult_INR. change (fact (S (length l))) with (S (length l) * fact (length l))%nat.
    ring.
Qed.

Lemma W0_prod a l s : W (a :: l) 0 s = (s - a) * W l 0 s.
Proof. cbn [W pred INR]. ring. Qed.

Lemma W_zero_at l a : In a l -> W l 0 a = 0.
Proof.
  induction l as [|b l IH]; intros Hin; [contradiction|].
  rewrite W0_prod. destruct Hin as [->|Hin]; [ring|rewrite IH by assumption; ring].
Qed.

(** ** The error formula *)
Section Error.
Variables (F Q : nat -> R -> R) (pre post : list R) (x M : R).
Let nodes := pre ++ post.
Let n1 := length nodes.
Hypothesis HF : chain F.
Hypothesis HQ : chain Q.
Hypothesis HQtop : forall s, Q n1 s = 0.
Hypothesis Hagree : forall a, In a nodes -> Q 0%nat a = F 0%nat a.
Hypothesis Hx : W nodes 0 x <> 0.

Lemma error_formula z0 rest :
  z0 :: rest = pre ++ x :: post -> steps z0 rest ->
  exists xi, z0 <= xi <= last rest z0 /\
    F 0%nat x - Q 0%nat x = F n1 xi / INR (fact n1) * W nodes 0 x.
Proof.
  intros Hzs Hst.
  set (K := (F 0%nat x - Q 0%nat x) / W nodes 0 x).
  set (Phi := fun k s => F k s - Q k s - K * W nodes k s).
  assert (HPhi : chain Phi).
  { intros k s. unfold Phi. assert (H1 := HF k s). assert (H2 := HQ k s). assert (H3 := W_chain nodes k s).
    auto_derive.
    - repeat split; try exact I; eexists; eassumption.
    - dr H1. dr H2. dr H3. ring. }
  assert (Hz : List.Forall (fun z => Phi 0%nat z = 0) (z0 :: rest)).
  { rewrite Hzs. apply List.Forall_forall. intros z Hin. unfold Phi.
    apply in_app_or in Hin. destruct Hin as [Hin|[<-|Hin]].
    - rewrite (Hagree z) by (apply in_or_app; now left).
      rewrite (W_zero_at nodes z) by (apply in_or_app; now left). ring.
    - unfold K. field. exact Hx.
    - rewrite (Hagree z) by (apply in_or_app; now right).
      rewrite (W_zero_at nodes z) by (apply in_or_app; now right). ring. }
  inversion Hz as [|? ? Hz0 Hzr]; subst.
  assert (Hlen : length rest = n1).
  { assert (H := f_equal (@length R) Hzs). cbn [length] in H. rewrite app_length in H. cbn [length] in H.
    unfold n1, nodes. rewrite app_length. lia. }
  destruct (gen_rolle n1 Phi HPhi z0 rest Hlen Hst Hz0 Hzr) as [xi [Hxi Hd]].
  exists xi. split; [exact Hxi|].
  unfold Phi in Hd. rewrite HQtop in Hd. unfold n1 in Hd at 2. rewrite W_top in Hd. fold n1 in Hd.
  assert (Hf : INR (fact n1) <> 0) by (apply INR_fact_neq_0).
  assert (HK : K = F n1 xi / INR (fact n1)).
  { apply (Rmult_eq_reg_r (INR (fact n1))); [|exact Hf]. field_simplify; [|exact Hf]. lra. }
  rewrite <- HK. unfold K. field. exact Hx.
Qed.

Hypothesis HM : forall xi, Rabs (F n1 xi) <= M.

Theorem error_bound z0 rest :
  z0 :: rest = pre ++ x :: post -> steps z0 rest ->
  Rabs (Q 0%nat x - F 0%nat x) <= M / INR (fact n1) * Rabs (W nodes 0 x).
Proof.
  intros Hzs Hst. destruct (error_formula z0 rest Hzs Hst) as [xi [_ He]].
  rewrite Rabs_minus_sym, He.
  assert (Hf : 0 < INR (fact n1)) by (apply INR_fact_lt_0).
  unfold Rdiv. rewrite !Rabs_mult. rewrite (Rabs_pos_eq (/ _)) by (left; apply Rinv_0_lt_compat; exact Hf).
  apply Rmult_le_compat_r; [apply Rabs_pos|].
  apply Rmult_le_compat_r; [left; apply Rinv_0_lt_compat; exact Hf|]. apply HM.
Qed.
End Error.

(** ** Lagrange form as a chain:  sum_i  y_i * W(others) / W(others)(node_i) *)
Fixpoint lagr (pre post ys : list R) (k : nat) (s : R) : R :=
  match post, ys with
  | a :: post', y :: ys' => y * W (pre ++ post') k s / W (pre ++ post') 0 a + lagr (pre ++ [a]) post' ys' k s
  | _, _ => 0
  end.

Lemma lagr_chain : forall post pre ys, chain (lagr pre post ys).
Proof.
  induction post as [|a post IH]; intros pre ys k s.
  - cbn [lagr]. apply @is_derive_const.
  - destruct ys as [|y ys]; [cbn [lagr]; apply @is_derive_const|].
    cbn [lagr]. assert (H1 := W_chain (pre ++ post) k s). assert (H2 := IH (pre ++ [a]) ys k s).
    auto_derive.
    + repeat split; try exact I; eexists; eassumption.
    + dr H1. dr H2. unfold Rdiv. ring.
Qed.

Lemma lagr_high : forall post pre ys k s, (length (pre ++ post) <= k)%nat -> lagr pre post ys k s = 0.
Proof.
  induction post as [|a post IH]; intros pre ys k s Hk; [reflexivity|].
  destruct ys as [|y ys]; [reflexivity|]. cbn [lagr].
  rewrite app_length in Hk. cbn [length] in Hk.
  rewrite (W_high (pre ++ post) k s) by (rewrite app_length; lia).
  rewrite IH by (rewrite !app_length; cbn [length]; lia). unfold Rdiv. ring.
Qed.

(** ** Sinusoids as a chain *)
Definition sinF (A w p : R) (k : nat) (s : R) : R := A * w ^ k * sin (w * s + p + INR k * (PI / 2)).

Lemma sinF_chain A w p : chain (sinF A w p).
Proof.
  intros k s. unfold sinF. auto_derive; [exact I|].
  rewrite S_INR. replace (w * s + p + (INR k + 1) * (PI / 2)) with (PI / 2 + (w * s + p + INR k * (PI / 2))) by ring.
  rewrite <- cos_sin. cbn [pow]. ring.
Qed.

Lemma sinF_bound A w p k s : 0 <= w -> Rabs (sinF A w p k s) <= Rabs A * w ^ k.
Proof.
  intros Hw. unfold sinF. rewrite !Rabs_mult. rewrite (Rabs_pos_eq (w ^ k)) by (apply pow_le; exact Hw).
  rewrite <- (Rmult_1_r (Rabs A * w ^ k)) at 2.
  apply Rmult_le_compat_l.
  - apply Rmult_le_pos; [apply Rabs_pos|apply pow_le; exact Hw].
  - apply Rabs_le. generalize (SIN_bound (w * s + p + INR k * (PI / 2))). lra.
Qed.

Lemma sinF_0 A w p s : sinF A w p 0 s = A * sin (w * s + p).
Proof. unfold sinF. cbn [pow INR]. replace (w * s + p + 0 * (PI / 2)) with (w * s + p) by ring. ring. Qed.
