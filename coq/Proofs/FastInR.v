(** FastFixedIn in ideal arithmetic, constant ratio: one call is safe (every read and
    write inside its buffer, no panic, Ok), keeps the invariant, produces at most the
    advertised number of frames, and advances the carried position by n/r - chunk.       *)

From Coq Require Import ZArith Reals List Bool Lra Lia.
From Flocq Require Import Core.
From Rubato.Model Require Import Num Reals Base Validate Nearest Kernels Async Fft Resamplers.
From Rubato.Gen Require Import FastGen.
From Rubato.Proofs Require Import ShapeP ValidateP EngineP StepperR MalformedP.
Import ListNotations.
Local Open Scope R_scope.

Notation FI := (@FastFixedIn CR).

(** reach of each polynomial degree below floor(idx), and the window width *)
Definition reach_lo (d : degree) : Z := match d with Septic => 3 | Quintic => 2 | Cubic => 1 | Linear => 0 | NearestDeg => 0 end.
Definition win_width (d : degree) : Z := match d with Septic => 8 | Quintic => 6 | Cubic => 4 | Linear => 2 | NearestDeg => 1 end.

Lemma Ztrunc_IZR_id z : Ztrunc (IZR z) = z. Proof. apply Ztrunc_IZR. Qed.

Lemma nth_opt_some {A} (l : list A) i : (0 <= i < zlen l)%Z -> exists v, nth_opt l i = Some v.
Proof.
  intros H. unfold nth_opt.
  assert (E : ((0 <=? i) && (i <? zlen l))%Z = true) by (apply andb_true_iff; split; [apply Z.leb_le|apply Z.ltb_lt]; lia).
  rewrite E. destruct (nth_error l (Z.to_nat i)) eqn:En; [eauto|].
  apply nth_error_None in En. unfold zlen in H. lia.
Qed.

Lemma isize_as_usize_nonneg x : (0 <= x)%Z -> isize_as_usize x = x.
Proof. intros H. unfold isize_as_usize. destruct (Z.ltb_spec x 0); [lia|reflexivity]. Qed.

(** Reads of the polynomial resampler succeed when the window lies inside the buffer. *)
Lemma fi_sample_ok_R (st : FI) d (buf : list (@snum CR SR)) (idx : R) :
  (0 <= Zfloor idx - reach_lo d + 16)%Z ->
  (Zfloor idx - reach_lo d + 16 + win_width d <= zlen buf)%Z ->
  exists v, @fast_sample CR SR (fi_arm st d) buf idx = Ok v.
Proof.
  intros H1 H2. unfold fast_sample.
  destruct d; cbn [fi_arm fa_nearest fa_idx_floor fa_start_idx fa_frac fa_lo fa_hi fa_interp reach_lo win_width] in *.
  1-4: unfold fi_septic_idx_floor, fi_septic_start_idx, fi_septic_win_lo, fi_septic_win_hi,
         fi_quintic_idx_floor, fi_quintic_start_idx, fi_quintic_win_lo, fi_quintic_win_hi,
         fi_cubic_idx_floor, fi_cubic_start_idx, fi_cubic_win_lo, fi_cubic_win_hi,
         fi_linear_idx_floor, fi_linear_start_idx, fi_linear_win_lo, fi_linear_win_hi, POLYNOMIAL_LEN_I;
       cbn [cfloor c_to_isize CR]; rewrite Ztrunc_IZR_id; rewrite !isize_as_usize_nonneg by lia; unfold fast_read;
       match goal with |- context [in_range ?b ?l ?h] => assert (E : in_range b l h = true) by (apply in_range_iff; lia); rewrite E end;
       cbn [bind]; eauto.
  unfold fi_nearest_start_idx, fi_nearest_point, POLYNOMIAL_LEN_I. cbn [cfloor c_to_isize CR]. rewrite Ztrunc_IZR_id.
  rewrite isize_as_usize_nonneg by lia. unfold fast_point.
  destruct (nth_opt_some buf (Zfloor idx + 2 * 8)%Z) as (v & Ev); [lia|]. rewrite Ev. eauto.
Qed.

Lemma min_active_out_ge (outs : list (list (@snum CR SR))) : forall mask n,
  (forall k o, nth_error outs k = Some o -> nth_error mask k = Some true -> (n <= zlen o)%Z) ->
  forall cap, min_active_out outs mask = Some cap -> (n <= cap)%Z.
Proof.
  unfold min_active_out.
  assert (G : forall (l : list (list (@snum CR SR) * bool)) (acc : option Z) n,
             (forall o', In (o', true) l -> (n <= zlen o')%Z) ->
             (forall a, acc = Some a -> (n <= a)%Z) ->
             forall cap, fold_left (fun acc om => match om with
                           | (o, true) => match acc with None => Some (zlen o) | Some a => Some (Z.min a (zlen o)) end
                           | _ => acc end) l acc = Some cap -> (n <= cap)%Z).
  { induction l as [|[o b] l IH]; intros acc n Hn Hacc cap; cbn [fold_left].
    - intros H. apply Hacc. exact H.
    - apply IH.
      + intros o' Ho'. apply Hn. right. exact Ho'.
      + intros a Ha. destruct b; [|apply Hacc; exact Ha].
        assert (Hno : (n <= zlen o)%Z) by (apply Hn; left; reflexivity).
        destruct acc as [a0|]; injection Ha as <-; [apply Z.min_glb; [apply Hacc; reflexivity | exact Hno] | exact Hno]. }
  intros mask n H cap Hc. eapply G; [ | | exact Hc].
  - intros o' Hin. apply In_nth_error in Hin. destruct Hin as (k & Hk).
    assert (Hk1 : nth_error outs k = Some o' /\ nth_error mask k = Some true).
    { clear -Hk. revert mask k Hk. induction outs as [|x xs IHx]; intros mask k Hk; destruct mask as [|y ys]; cbn in Hk;
        try (destruct k; discriminate).
      destruct k; cbn in Hk |- *; [injection Hk as -> ->; split; reflexivity | apply IHx; exact Hk]. }
    destruct Hk1 as [K1 K2]. eapply H; eassumption.
  - intros a Ha. discriminate.
Qed.

(** * One call at constant ratio *)
Section Call.
Variable d : degree.
Notation A := (@fi_arch CR SR d).
Notation ST := (@astate CR SR FI).

Definition Cz (s : ST) : Z := FastFixedIn_chunk_size (as_ctl s).
Definition nchz (s : ST) : Z := FastFixedIn_nbr_channels (as_ctl s).
Definition ratio (s : ST) : R := FastFixedIn_resample_ratio (as_ctl s).
Definition li (s : ST) : R := FastFixedIn_last_index (as_ctl s).

Record fi_wf (s : ST) : Prop := {
  wf_C : (1 <= Cz s)%Z;
  wf_n : (0 <= nchz s)%Z;
  wf_lenb : length (as_buf s) = Z.to_nat (nchz s);
  wf_lenm : length (as_mask s) = Z.to_nat (nchz s);
  wf_bufs : all_len (Cz s + 16) (as_buf s);
  wf_r : 0 < ratio s;
  wf_t : FastFixedIn_target_ratio (as_ctl s) = ratio s;
  wf_li : - 9 - IZR (Zceil (/ ratio s)) <= li s <= -4;
}.

(* R-level values of the generated pieces *)
Lemma fi_t_ratio_R (st : FI) : FastFixedIn_resample_ratio st <> 0 -> @fi_t_ratio CR st = / FastFixedIn_resample_ratio st.
Proof. intros H. unfold fi_t_ratio. cbv [c_lit cdiv CR cnum]. field. exact H. Qed.
Lemma fi_t_ratio_end_R (st : FI) : FastFixedIn_target_ratio st <> 0 -> @fi_t_ratio_end CR st = / FastFixedIn_target_ratio st.
Proof. intros H. unfold fi_t_ratio_end. cbv [c_lit cdiv CR cnum]. field. exact H. Qed.
Lemma fi_needed_len_R (st : FI) :
  @fi_needed_len CR st = Z.max 0 (Ztrunc (IZR (FastFixedIn_chunk_size st) *
     (1 / 2 * FastFixedIn_resample_ratio st + 1 / 2 * FastFixedIn_target_ratio st) + 10 / 1)).
Proof. reflexivity. Qed.
Lemma fi_end_idx_R (st : FI) tend : @fi_end_idx CR st tend = (FastFixedIn_chunk_size st - (8 + 1) - Zceil tend)%Z.
Proof. unfold fi_end_idx, POLYNOMIAL_LEN_I. cbn [c_to_isize cceil CR]. rewrite Ztrunc_IZR_id. reflexivity. Qed.

Lemma all_true_map (l : list bool) : map (fun _ => true) l = repeat true (length l).
Proof. induction l; cbn; congruence. Qed.

Lemma nth_error_repeat_true n k : (k < n)%nat -> nth_error (repeat true n) k = Some true.
Proof. revert k; induction n; intros k H; [lia|]. destruct k; cbn; [reflexivity|apply IHn; lia]. Qed.

Lemma Zfloor_bounds x (a b : Z) : IZR a <= x -> x < IZR b -> (a <= Zfloor x < b)%Z.
Proof.
  intros H1 H2. split.
  - apply Zfloor_lub. exact H1.
  - apply lt_IZR. eapply Rle_lt_trans; [apply Zfloor_lb|exact H2].
Qed.

(* everything of the invariant except the bounds on the carried position *)
Record fi_wf0 (s : ST) : Prop := {
  w0_C : (1 <= Cz s)%Z;
  w0_n : (0 <= nchz s)%Z;
  w0_lenb : length (as_buf s) = Z.to_nat (nchz s);
  w0_lenm : length (as_mask s) = Z.to_nat (nchz s);
  w0_bufs : all_len (Cz s + 16) (as_buf s);
  w0_r : 0 < ratio s;
  w0_t : FastFixedIn_target_ratio (as_ctl s) = ratio s;
}.

Lemma fi_wf_wf0 (s : ST) : fi_wf s -> fi_wf0 s.
Proof. intros [a b c0 d0 e f g h]. constructor; assumption. Qed.

(** The general one-call theorem: the carried position need not come from a call at the same ratio.  It is enough that
    (G1) the first window starts inside the buffer, (G2) the distance to the end of the loop produces at most the
    advertised number of frames, (G3) the position is at most -4.  After the call the state satisfies the standard
    invariant for the ratio that was used. *)
Theorem fi_call_gen_R (s : ST) wi wo m :
  fi_wf0 s ->
  (reach_lo d - 16 <= Zfloor (li s + / ratio s))%Z ->
  (IZR (Cz s - (8 + 1) - Zceil (/ ratio s)) - li s) * ratio s <= IZR (Cz s) * ratio s + 8 ->
  li s <= -4 ->
  a_precheck A s wi wo m = Ok tt ->
  exists (s' : ST) (n : Z) outs,
    pib A s wi wo m = Ok (s', (Cz s, n), outs) /\ fi_wf s' /\
    (0 <= n <= @fi_needed_len CR (as_ctl s))%Z /\
    li s' = li s + IZR n * / ratio s - IZR (Cz s) /\
    Cz s' = Cz s /\ nchz s' = nchz s /\ ratio s' = ratio s.
Proof.
  intros W G1 G2 G3 Hpre. destruct W as [WC Wn Wlb Wlm Wb Wr Wt].
  unfold Cz, nchz, ratio, li in *.
  set (st := as_ctl s) in *.
  set (Cc := FastFixedIn_chunk_size st) in *.
  set (r := FastFixedIn_resample_ratio st) in *.
  assert (Hr0 : r <> 0) by lra.
  (* --- the argument check *)
  unfold a_precheck in Hpre. unfold pib. fold st in Hpre |- *.
  set (pro := match m with Some mk => _ | None => _ end) in *.
  destruct pro as [mask| | | |] eqn:Epro; cbn [bind] in Hpre; try discriminate Hpre.
  cbn [bind].
  destruct (validate_buffers (map zlen wi) (map zlen wo) mask (a_val_channels A st) (a_val_min_in A st) (a_val_min_out A st))
    as [[]| | | |] eqn:Eval; cbn [bind] in Hpre; try discriminate Hpre.
  cbn [bind]. clear Hpre.
  apply validate_ok_iff in Eval. destruct Eval as (Vi & Vm & Vil & Vo & Vol).
  cbn [a_val_channels a_val_min_in a_val_min_out fi_arch] in Vi, Vm, Vil, Vo, Vol.
  unfold fi_val_channels, fi_val_min_in, fi_val_min_out in Vi, Vm, Vil, Vo, Vol.
  fold Cc in Vil.
  (* --- history shift *)
  cbn [a_shift_lo a_shift_hi a_shift_dst fi_arch]. unfold fi_shift_lo, fi_shift_hi, fi_shift_dst, POLYNOMIAL_LEN_U. fold Cc.
  destruct (shift_all_ok (Cc + 16) Cc (Cc + 2 * 8) 0 ltac:(lia) ltac:(lia) ltac:(lia) ltac:(lia) ltac:(lia) (as_buf s) Wb)
    as (bufs1 & E1 & L1 & N1).
  rewrite E1. cbn [bind].
  (* --- load the new chunk *)
  cbn [a_pre fi_arch].
  destruct (fill_all_ok A st (Cc + 16)) with (bufs := bufs1) (waves := wi) (mask := mask) as (bufs2 & E2 & L2 & N2);
    cbn [a_fill_lo a_fill_hi a_fill_src_hi fi_arch]; unfold fi_fill_lo, fi_fill_hi, fi_fill_src_hi, POLYNOMIAL_LEN_U; fold Cc;
    try lia; try assumption.
  { unfold zlen in Vi. rewrite map_length in Vi. lia. }
  { unfold zlen in Vm. lia. }
  { intros k w Hk Hm. apply (Vil k (zlen w)); [rewrite nth_error_map, Hk; reflexivity | exact Hm]. }
  rewrite E2. cbn [bind].
  (* --- the stepping loop *)
  cbn [a_t0 a_tend a_inc a_idx0 a_fixed_in a_end_idx fi_arch].
  rewrite fi_t_ratio_R by exact Hr0. rewrite fi_t_ratio_end_R by (rewrite Wt; exact Hr0).
  rewrite Wt. fold r.
  set (t := / r).
  assert (Ht : 0 < t) by (apply Rinv_0_lt_compat; exact Wr).
  assert (Htr : t * r = 1) by (unfold t; apply Rinv_l; exact Hr0).
  assert (Hinc : @fi_t_ratio_increment CR st (@fi_approximate_nbr_frames CR st) t t = 0).
  { unfold fi_t_ratio_increment. cbv [cdiv csub CR cnum]. unfold Rdiv. rewrite Rminus_diag_eq by reflexivity. ring. }
  rewrite Hinc. rewrite fi_end_idx_R. fold Cc.
  unfold fi_idx0. fold st.
  set (l0 := FastFixedIn_last_index st) in *.
  set (E := (Cc - (8 + 1) - Zceil t)%Z).
  (* the loop functions are + and <, whatever the degree *)
  assert (Hloop : forall fuel t0 inc0 i0,
            @positions_in CR (a_tstep A st) (a_istep A st) (a_cond A st E) fuel t0 inc0 i0 =
            @positions_in CR Rplus Rplus (fun i => Rlt_bool i (IZR E)) fuel t0 inc0 i0)
    by (intros; destruct d; reflexivity).
  rewrite Hloop.
  (* needed output length and fuel *)
  set (needed := @fi_needed_len CR st).
  assert (Hneeded : IZR Cc * r + 9 < IZR needed).
  { unfold needed. rewrite fi_needed_len_R. rewrite Wt. fold Cc r.
    replace (IZR Cc * (1 / 2 * r + 1 / 2 * r) + 10 / 1) with (IZR Cc * r + 10) by field.
    assert (0 <= IZR Cc * r) by (apply Rmult_le_pos; [apply IZR_le; lia | lra]).
    rewrite Z.max_r.
    2:{ apply le_IZR. rewrite Ztrunc_floor by lra. eapply Rle_trans; [|apply Rlt_le, Rlt_le_trans with (2 := Rle_refl _)]; [|].
        all: try (apply Rle_refl). generalize (Zfloor_ub (IZR Cc * r + 10)). lra. }
    rewrite Ztrunc_floor by lra. generalize (Zfloor_ub (IZR Cc * r + 10)). lra. }
  assert (Hgap : (IZR E - l0) * r <= IZR Cc * r + 8).
  { unfold E. fold t in G2. exact G2. }
  assert (Hceil : IZR (Zceil t) - t < 1 /\ t <= IZR (Zceil t)).
  { split; [generalize (Zceil_lb t); lra | apply Zceil_ub]. }
  assert (Houts : forall k o, nth_error wo k = Some o -> nth_error mask k = Some true -> (needed <= zlen o)%Z).
  { intros k o Hk Hm. apply (Vol k (zlen o)); [rewrite nth_error_map, Hk; reflexivity | exact Hm]. }
  set (fuel := match min_active_out wo mask with Some cap => Z.to_nat (cap + 2) | None => Z.to_nat (a_val_min_out A st + 65536) end).
  assert (Hfuel : IZR needed + 2 <= INR fuel).
  { assert (Hn0 : (0 <= needed)%Z) by (unfold needed; rewrite fi_needed_len_R; lia).
    unfold fuel. destruct (min_active_out wo mask) as [cap|] eqn:Ecap.
    - assert (needed <= cap)%Z by (eapply min_active_out_ge; eassumption).
      rewrite INR_IZR_INZ, Z2Nat.id by lia. rewrite <- (plus_IZR needed 2). apply IZR_le. lia.
    - cbn [a_val_min_out fi_arch]. unfold fi_val_min_out. fold needed.
      rewrite INR_IZR_INZ, Z2Nat.id by lia. rewrite <- (plus_IZR needed 2). apply IZR_le. lia. }
  destruct (positions_in_terminates (IZR E) t Ht fuel t 0 l0) as (ps & last & Eps).
  { intros k _. lra. }
  { assert (H0 : (IZR E - l0) * r < INR fuel) by lra.
    assert (H1 : (IZR E - l0) * r * t < INR fuel * t) by (apply Rmult_lt_compat_r; lra).
    replace ((IZR E - l0) * r * t) with ((IZR E - l0) * (t * r)) in H1 by ring. rewrite Htr in H1. lra. }
  rewrite Eps.
  destruct (positions_in_spec (IZR E) fuel t 0 l0 ps last Eps) as (Hps & Hlast & Hlt & Hge & Hnf).
  set (n := length ps) in *. assert (En : n = length ps) by reflexivity. clearbody n.
  assert (Hpos : forall k, pos_at l0 t 0 k = l0 + INR k * t) by (intros k; unfold pos_at; lra).
  (* the number of frames stays below the advertised one *)
  assert (Hn : INR n < IZR Cc * r + 9).
  { destruct n as [|n']; [cbn; assert (0 <= IZR Cc * r) by (apply Rmult_le_pos; [apply IZR_le; lia|lra]); lra|].
    specialize (Hlt n' ltac:(lia)). rewrite Hpos in Hlt. rewrite S_INR.
    assert (H0 : INR n' * t < IZR E - l0) by lra.
    assert (H1 : INR n' * t * r < (IZR E - l0) * r) by (apply Rmult_lt_compat_r; lra).
    replace (INR n' * t * r) with (INR n' * (t * r)) in H1 by ring. rewrite Htr in H1. lra. }
  assert (Hn' : (Z.of_nat n <= needed)%Z).
  { apply le_IZR. rewrite <- INR_IZR_INZ. lra. }
  (* every instant is sampled inside the buffer *)
  assert (Hsamp : samples_ok A st (Cc + 16) ps).
  { intros b p Hb Hp. rewrite Hps in Hp. apply in_map_iff in Hp. destruct Hp as (k & <- & Hk). apply in_seq in Hk.
    cbn [a_sample fi_arch]. rewrite Hpos.
    assert (K1 : l0 + INR k * t < IZR E + t).
    { destruct k as [|k']; [lia|]. specialize (Hlt k' ltac:(lia)). rewrite Hpos in Hlt. rewrite S_INR. lra. }
    assert (K0 : l0 + t <= l0 + INR k * t).
    { assert (1 <= INR k) by (change 1 with (INR 1); apply le_INR; lia). nra. }
    assert (F : (reach_lo d - 16 <= Zfloor (l0 + INR k * t) < Cc - 9)%Z).
    { split; [eapply Z.le_trans; [exact G1|]; fold t; apply Zfloor_le; exact K0|].
      apply lt_IZR. eapply Rle_lt_trans; [apply Zfloor_lb|].
      unfold E in K1. rewrite !minus_IZR in K1. change (IZR (8 + 1)) with 9 in K1. rewrite minus_IZR. change (IZR 9) with 9. lra. }
    apply fi_sample_ok_R; rewrite ?Hb; revert F; destruct d; cbn [reach_lo win_width]; intros F; lia. }
  destruct (outputs_all_ok A st (Cc + 16) ps Hsamp bufs2 wo mask L2) as (outs & Eo & No & Po).
  { intros k o Hk Hm. specialize (Houts k o Hk Hm). unfold zlen in Houts.
    change (@length (@cnum CR) ps) with (@length R ps). rewrite <- En. lia. }
  cbn [bind]. rewrite Eo. cbn [bind]. change (@length (@cnum CR) ps) with (@length R ps). rewrite <- En.
  eexists _, (Z.of_nat n), outs. split; [reflexivity|].
  assert (Elast : last = l0 + INR n * t) by (rewrite Hlast; apply Hpos).
  assert (Lo : - 9 - IZR (Zceil t) <= last - IZR Cc).
  { unfold E in Hge. rewrite !minus_IZR in Hge. change (IZR (8 + 1)) with 9 in Hge. lra. }
  assert (Hi : last - IZR Cc <= -4).
  { rewrite Elast. destruct n as [|n'].
    + cbn [INR]. assert (1 <= IZR Cc) by (apply IZR_le; lia). lra.
    + specialize (Hlt n' ltac:(lia)). rewrite Hpos in Hlt. rewrite S_INR. unfold E in Hlt. rewrite !minus_IZR in Hlt.
      change (IZR (8 + 1)) with 9 in Hlt. lra. }
  unfold Cz, nchz, ratio, li.
  cbn [a_finish fi_arch as_ctl as_buf as_mask].
  unfold fi_last_index_next, fi_resample_ratio_next.
  cbn [FastFixedIn_last_index FastFixedIn_resample_ratio FastFixedIn_chunk_size FastFixedIn_nbr_channels FastFixedIn_target_ratio
       set_FastFixedIn_last_index set_FastFixedIn_resample_ratio csub c_of_Z CR].
  fold st Cc. rewrite Wt. fold r. fold t.
  split; [constructor|]; unfold Cz, nchz, ratio, li;
    cbn [as_ctl as_buf as_mask]; unfold set_FastFixedIn_resample_ratio, set_FastFixedIn_last_index;
    cbn [FastFixedIn_last_index FastFixedIn_resample_ratio FastFixedIn_chunk_size
         FastFixedIn_nbr_channels FastFixedIn_target_ratio]; fold st Cc; fold r; fold t; try assumption; try lia; try reflexivity.
  - unfold zlen in Vm. lia.
  - split; assumption.
  - repeat split; try lia; try reflexivity. rewrite Elast, <- INR_IZR_INZ. lra.
Qed.

(** the constant-ratio case: the standard invariant implies the three conditions *)
Theorem fi_call_const_R (s : ST) wi wo m :
  fi_wf s -> a_precheck A s wi wo m = Ok tt ->
  exists (s' : ST) (n : Z) outs,
    pib A s wi wo m = Ok (s', (Cz s, n), outs) /\ fi_wf s' /\
    (0 <= n <= @fi_needed_len CR (as_ctl s))%Z /\
    li s' = li s + IZR n * / ratio s - IZR (Cz s) /\
    Cz s' = Cz s /\ nchz s' = nchz s /\ ratio s' = ratio s.
Proof.
  intros W Hpre. pose proof (fi_wf_wf0 s W) as W0. destruct W as [WC Wn Wlb Wlm Wb Wr Wt Wli].
  assert (Ht : 0 < / ratio s) by (apply Rinv_0_lt_compat; exact Wr).
  assert (Hceil : IZR (Zceil (/ ratio s)) - / ratio s < 1 /\ / ratio s <= IZR (Zceil (/ ratio s))).
  { split; [generalize (Zceil_lb (/ ratio s)); lra | apply Zceil_ub]. }
  apply (fi_call_gen_R s wi wo m W0); try exact Hpre.
  - apply Z.le_trans with (-10)%Z; [destruct d; cbn [reach_lo]; lia|]. apply Zfloor_lub. change (IZR (-10)) with (-10). lra.
  - rewrite !minus_IZR. change (IZR (8 + 1)) with 9.
    assert (IZR (Cz s) - 9 - IZR (Zceil (/ ratio s)) - li s <= IZR (Cz s)) by lra.
    assert ((IZR (Cz s) - 9 - IZR (Zceil (/ ratio s)) - li s) * ratio s <= IZR (Cz s) * ratio s) by (apply Rmult_le_compat_r; lra). lra.
  - lra.
Qed.

End Call.

(** * Histories of valid calls at constant ratio *)
Section History.
Variable d : degree.
Notation A := (@fi_arch CR SR d).
Notation ST := (@astate CR SR FI).

(* run a list of process_into_buffer calls; a malformed call stops the run with its Err *)
Fixpoint fi_run (s : ST) (calls : list (list (list R) * list (list R) * option (list bool))) : res (ST * Z * Z) :=
  match calls with
  | [] => Ok (s, 0%Z, 0%Z)
  | (wi, wo, m) :: rest =>
      do _ <- a_precheck A s wi wo m;
      do x <- pib A s wi wo m;
      let '(s', (a, b), _) := x in
      do y <- fi_run s' rest;
      let '(s'', nin, nout) := y in
      Ok (s'', (a + nin)%Z, (b + nout)%Z)
  end.

Theorem fi_history_const_R : forall calls (s : ST), fi_wf s ->
  match fi_run s calls with
  | Ok (s', nin, nout) =>
      fi_wf s' /\ ratio s' = ratio s /\ (0 <= nin)%Z /\ (0 <= nout)%Z /\
      li s' - li s = IZR nout * / ratio s - IZR nin
  | Err _ => True                       (* some call was malformed: rejected, see C13 *)
  | Panic _ | UB _ | Diverge => False   (* never on well-formed calls *)
  end.
Proof.
  induction calls as [|[[wi wo] m] rest IH]; intros s W; cbn [fi_run].
  - split; [exact W|]. repeat split; try lia. unfold li. change (IZR 0) with 0. lra.
  - destruct (a_precheck A s wi wo m) as [[]| | | |] eqn:Ep; cbn [bind]; try exact I.
    + destruct (fi_call_const_R d s wi wo m W Ep) as (s' & n & outs & E & W' & Hn & Hli & HC & Hnch & Hr).
      rewrite E. cbn [bind]. specialize (IH s' W').
      destruct (fi_run s' rest) as [[[s'' nin] nout]| | | |]; cbn [bind]; try exact IH.
      destruct IH as (W'' & Hr'' & Hin & Hout & Hli'').
      destruct W as [WC _ _ _ _ _ _ _].
      split; [exact W''|]. split; [congruence|]. split; [unfold Cz in *; lia|]. split; [lia|].
      rewrite !plus_IZR. rewrite Hr in Hli''. unfold Cz in *. lra.
    + destruct (a_precheck_total A s wi wo m) as [H|[e H]]; rewrite H in Ep; discriminate.
    + destruct (a_precheck_total A s wi wo m) as [H|[e H]]; rewrite H in Ep; discriminate.
    + destruct (a_precheck_total A s wi wo m) as [H|[e H]]; rewrite H in Ep; discriminate.
Qed.

(** frame accounting without drift (C07): |nout - r*nin| is bounded by a constant *)
Corollary fi_accounting_const_R calls (s s' : ST) nin nout :
  fi_wf s -> fi_run s calls = Ok (s', nin, nout) ->
  Rabs (IZR nout - ratio s * IZR nin) <= ratio s * (8 + / ratio s + 3) + 3.
Proof.
  intros W E. generalize (fi_history_const_R calls s W). rewrite E.
  intros (W' & Hr & _ & _ & Hli).
  destruct W as [_ _ _ _ _ Wr _ Wl]. destruct W' as [_ _ _ _ _ _ _ Wl'].
  rewrite Hr in Wl'. set (r := ratio s) in *. set (t := / r) in *.
  assert (Ht : 0 < t) by (apply Rinv_0_lt_compat; exact Wr).
  assert (Hc : IZR (Zceil t) < t + 1) by (generalize (Zceil_lb t); lra).
  assert (Htr : r * t = 1) by (unfold t; apply Rinv_r; lra).
  assert (Hd : Rabs (IZR nout * t - IZR nin) <= 6 + t) by (rewrite <- Hli; apply Rabs_le; lra).
  replace (IZR nout - r * IZR nin) with (r * (IZR nout * t - IZR nin)) by (rewrite Rmult_minus_distr_l, <- Rmult_assoc, (Rmult_comm r (IZR nout)), Rmult_assoc, Htr; ring).
  rewrite Rabs_mult, (Rabs_pos_eq r) by lra.
  apply Rle_trans with (r * (6 + t)); [apply Rmult_le_compat_l; lra|]. nra.
Qed.

End History.

(** * Histories with non-ramped ratio changes between the calls

    [set_resample_ratio(r2, false)] replaces the step at once.  The position carried over from the last call was left
    where the OLD step put it, so the next call is safe only when the new step is compatible with it.  The two
    conditions below are exactly the complements of the two recorded defect classes (preroll-underflow and
    count-overrun in known_findings.json): every accepted step outside those classes is proved safe. *)
Section Steps.
Variable d : degree.
Notation A := (@fi_arch CR SR d).
Notation ST := (@astate CR SR FI).

(* rc: the ratio in force during the last call; r2: the ratio for the next one *)
Definition step_compatible (rc r2 : R) : Prop :=
  0 < r2 /\
  IZR (Zceil (/ rc)) - / r2 <= IZR (6 - reach_lo d) /\              (* first window starts inside the 2*L pre-roll *)
  (IZR (Zceil (/ rc)) - IZR (Zceil (/ r2))) * r2 <= 8.              (* at most output_frames_next() frames are produced *)

Lemma step_compatible_refl r : 0 < r -> step_compatible r r.
Proof.
  intros Hr. assert (Ht : 0 < / r) by (apply Rinv_0_lt_compat; exact Hr).
  split; [exact Hr|]. split.
  - assert (IZR (Zceil (/ r)) - / r < 1) by (generalize (Zceil_lb (/ r)); lra).
    assert (3 <= IZR (6 - reach_lo d)) by (apply IZR_le; destruct d; cbn [reach_lo]; lia). lra.
  - rewrite Rminus_diag_eq by reflexivity. lra.
Qed.

(* the invariant between operations: the standard one, except that the carried position is bounded by the ratio [rc]
   of the last call, and the current ratio is compatible with it *)
Record fi_wfs (rc : R) (s : ST) : Prop := {
  ws_0 : fi_wf0 s;
  ws_li : - 9 - IZR (Zceil (/ rc)) <= li s <= -4;
  ws_c : step_compatible rc (ratio s);
}.

Lemma fi_wf_wfs (s : ST) : fi_wf s -> fi_wfs (ratio s) s.
Proof.
  intros W. pose proof (fi_wf_wf0 s W) as W0. destruct W as [_ _ _ _ _ Wr _ Wl].
  constructor; [exact W0 | exact Wl | apply step_compatible_refl; exact Wr].
Qed.

(** one call from the relaxed invariant *)
Theorem fi_call_step_R rc (s : ST) wi wo m :
  fi_wfs rc s -> a_precheck A s wi wo m = Ok tt ->
  exists (s' : ST) (n : Z) outs,
    pib A s wi wo m = Ok (s', (Cz s, n), outs) /\ fi_wf s' /\
    (0 <= n <= @fi_needed_len CR (as_ctl s))%Z /\
    li s' = li s + IZR n * / ratio s - IZR (Cz s) /\
    Cz s' = Cz s /\ nchz s' = nchz s /\ ratio s' = ratio s.
Proof.
  intros [W0 Wl (Hr & C1 & C2)] Hpre.
  assert (Ht : 0 < / ratio s) by (apply Rinv_0_lt_compat; exact Hr).
  apply (fi_call_gen_R d s wi wo m W0); try exact Hpre.
  - apply Zfloor_lub. rewrite minus_IZR. rewrite minus_IZR in C1. change (IZR 16) with 16. change (IZR 6) with 6 in C1. lra.
  - rewrite !minus_IZR. change (IZR (8 + 1)) with 9.
    assert (H0 : IZR (Cz s) - 9 - IZR (Zceil (/ ratio s)) - li s <= IZR (Cz s) + (IZR (Zceil (/ rc)) - IZR (Zceil (/ ratio s)))) by lra.
    assert (H1 : (IZR (Cz s) - 9 - IZR (Zceil (/ ratio s)) - li s) * ratio s <=
                 (IZR (Cz s) + (IZR (Zceil (/ rc)) - IZR (Zceil (/ ratio s)))) * ratio s) by (apply Rmult_le_compat_r; lra).
    lra.
  - lra.
Qed.

(** an accepted non-ramped step keeps the relaxed invariant when the new ratio is compatible *)
Lemma fi_set_ratio_wfs rc (s s1 : ST) r2 :
  fi_wfs rc s -> step_compatible rc r2 -> @fi_set_ratio CR SR s r2 false = (s1, Ok tt) ->
  fi_wfs rc s1 /\ ratio s1 = r2 /\ Cz s1 = Cz s /\ nchz s1 = nchz s /\ li s1 = li s.
Proof.
  intros [[WC Wn Wlb Wlm Wb Wr Wt] Wl Wc] Hc E. unfold fi_set_ratio in E.
  destruct (fi_set_ratio_accept (as_ctl s) r2); [|discriminate E].
  injection E as <-. destruct Hc as (H1 & H2 & H3).
  unfold Cz, nchz, ratio, li in *. destruct s as [st bufs mask]. destruct st.
  cbn in *. split; [|repeat split; reflexivity].
  constructor; [constructor; cbn; assumption || reflexivity | exact Wl | cbn; repeat split; assumption].
Qed.

Inductive fi_op :=
| FCall (wi wo : list (list R)) (m : option (list bool))
| FStep (r2 : R).

(* the run records, for every call, (frames consumed, frames produced, output_frames_next() before the call) *)
Fixpoint fi_run_ops (s : ST) (ops : list fi_op) : res (ST * list (Z * Z * Z)) :=
  match ops with
  | [] => Ok (s, [])
  | FCall wi wo m :: rest =>
      do _ <- a_precheck A s wi wo m;
      do x <- pib A s wi wo m;
      let '(s', (a, b), _) := x in
      do y <- fi_run_ops s' rest;
      let '(s'', log) := y in
      Ok (s'', (a, b, @fi_needed_len CR (as_ctl s)) :: log)
  | FStep r2 :: rest =>
      match @fi_set_ratio CR SR s r2 false with
      | (s1, Ok tt) => fi_run_ops s1 rest
      | (_, Err e) => Err e                   (* outside [original/max, original*max]: rejected, see C12 *)
      | (_, Panic e) => Panic e | (_, UB e) => UB e | (_, Diverge) => Diverge
      end
  end.

(* every step is compatible with the ratio [rc] of the last call before it; [r] is the current ratio *)
Fixpoint steps_compatible (rc r : R) (ops : list fi_op) : Prop :=
  match ops with
  | [] => True
  | FCall _ _ _ :: rest => steps_compatible r r rest
  | FStep r2 :: rest => step_compatible rc r2 /\ steps_compatible rc r2 rest
  end.

Definition call_ok (C : Z) (e : Z * Z * Z) : Prop :=
  let '(a, b, adv) := e in a = C /\ (0 <= b <= adv)%Z.

(** Every history of well-formed calls and accepted, compatible, non-ramped ratio changes runs without a panic, an
    out-of-range access or non-termination; every call consumes chunk_size frames and produces at most
    output_frames_next() frames. *)
Theorem fi_history_steps_R : forall ops rc (s : ST), fi_wfs rc s -> steps_compatible rc (ratio s) ops ->
  match fi_run_ops s ops with
  | Ok (s', log) => (exists rc', fi_wfs rc' s') /\ Cz s' = Cz s /\ Forall (call_ok (Cz s)) log
  | Err _ => True
  | Panic _ | UB _ | Diverge => False
  end.
Proof.
  induction ops as [|[wi wo m|r2] rest IH]; intros rc s W Hc; cbn [fi_run_ops].
  - split; [exists rc; exact W|]. split; [reflexivity|constructor].
  - cbn [steps_compatible] in Hc.
    destruct (a_precheck A s wi wo m) as [[]| | | |] eqn:Ep; cbn [bind]; try exact I.
    + destruct (fi_call_step_R rc s wi wo m W Ep) as (s' & n & outs & E & W' & Hn & Hli & HC & Hnch & Hr).
      rewrite E. cbn [bind]. apply fi_wf_wfs in W'. rewrite <- Hr in Hc.
      specialize (IH (ratio s') s' W' Hc).
      destruct (fi_run_ops s' rest) as [[s'' log]| | | |]; cbn [bind]; try exact IH.
      destruct IH as (W'' & HC'' & Hlog). split; [exact W''|]. split; [congruence|].
      constructor; [cbn; split; [reflexivity|exact Hn] | rewrite <- HC; exact Hlog].
    + destruct (a_precheck_total A s wi wo m) as [H|[e H]]; rewrite H in Ep; discriminate.
    + destruct (a_precheck_total A s wi wo m) as [H|[e H]]; rewrite H in Ep; discriminate.
    + destruct (a_precheck_total A s wi wo m) as [H|[e H]]; rewrite H in Ep; discriminate.
  - cbn [steps_compatible] in Hc. destruct Hc as [Hc1 Hc2].
    destruct (@fi_set_ratio CR SR s r2 false) as [s1 o] eqn:Es.
    assert (Ho : o = Ok tt \/ exists e, o = Err e).
    { unfold fi_set_ratio in Es. destruct (fi_set_ratio_accept (as_ctl s) r2); injection Es as <- <-; [left; reflexivity | right; eexists; reflexivity]. }
    destruct Ho as [-> | [e ->]]; [|exact I].
    destruct (fi_set_ratio_wfs rc s s1 r2 W Hc1 Es) as (W1 & Hr1 & HC1 & _ & _).
    rewrite <- Hr1 in Hc2. specialize (IH rc s1 W1 Hc2).
    destruct (fi_run_ops s1 rest) as [[s'' log]| | | |]; try exact IH.
    destruct IH as (W'' & HC'' & Hlog). split; [exact W''|]. split; [congruence|]. rewrite <- HC1. exact Hlog.
Qed.

End Steps.

(* the step condition is met by genuine ratio changes in both directions *)
Lemma step_up_example : step_compatible Septic 1 2.
Proof. unfold step_compatible. replace (/ 1) with 1 by field. rewrite Zceil_IZR.
  assert (0 <= IZR (Zceil (/ 2))) by (generalize (Zceil_ub (/ 2)); lra).
  cbn [reach_lo]. change (IZR (6 - 3)) with 3. repeat split; lra. Qed.
Lemma step_down_example : step_compatible Septic 1 (/ 2).
Proof. unfold step_compatible. replace (/ 1) with 1 by field. replace (/ / 2) with 2 by field.
  rewrite !Zceil_IZR. cbn [reach_lo]. change (IZR (6 - 3)) with 3. repeat split; lra. Qed.
