(** C04: input_frames_next() <= input_frames_max() and output_frames_next() <= output_frames_max() for the synchronous
    resamplers and for SincFixedOut, at every state that satisfies the call invariants (ideal arithmetic: the f32
    quotients read as real quotients).  FftFixedInOut and the trivial sides (FftFixedIn inputs, FftFixedOut outputs)
    are equalities by definition of the getters.                                                                  *)

From Coq Require Import ZArith Reals List Bool Lra Lia.
From Flocq Require Import Core.
From Rubato.Model Require Import Num Reals Base Validate Async Fft Resamplers.
From Rubato.Gen Require Import SynchroGen SincGen.
From Rubato.Proofs Require Import ShapeP MalformedP FftInOutP FftInR FftOutR FastInR SincInR SincOutR FastCtorR.
Import ListNotations.
Local Open Scope Z_scope.

Lemma blocks_for_mono a b fout : 0 <= a <= b -> 1 <= fout -> blocks_for a fout <= blocks_for b fout.
Proof.
  intros Hab Hf. unfold blocks_for. apply Zceil_le.
  assert (Hf' : (1 <= IZR fout)%R) by (apply IZR_le; lia).
  assert (Ha : (IZR a <= IZR b)%R) by (apply IZR_le; lia).
  unfold Rdiv. apply Rmult_le_compat_r; [|exact Ha]. apply Rlt_le, Rinv_0_lt_compat. lra.
Qed.

(** FftFixedOut: frames_needed <= ceil(chunk_size_out / fft_size_out) * fft_size_in *)
Theorem xo_next_le_max_R unit_fn (s : @fstate CR SR FftFixedOut) :
  xo_wf unit_fn s -> xo_input_frames_next (fs_ctl s) <= @xo_input_frames_max CR (fs_ctl s).
Proof.
  intros [Wfin Wfout WCo _ Wsv Wneed _ _ _ _ _ _]. unfold ofin, ofout, oCo, osaved, oneed in *.
  unfold xo_input_frames_next, xo_input_frames_max. rewrite Wneed.
  assert (E : @c32_to_usize CR (@ceil32 CR (@div32 CR (@c32_of_Z CR (FftFixedOut_chunk_size_out (fs_ctl s)))
                                                        (@c32_of_Z CR (FftFixedOut_fft_size_out (fs_ctl s))))) =
              blocks_for (FftFixedOut_chunk_size_out (fs_ctl s)) (FftFixedOut_fft_size_out (fs_ctl s))).
  { cbn [c32_to_usize ceil32 div32 c32_of_Z CR]. rewrite Ztrunc_IZR. apply Z.max_r.
    destruct (blocks_for_bounds (FftFixedOut_chunk_size_out (fs_ctl s)) (FftFixedOut_fft_size_out (fs_ctl s))) as [Hb _]; [lia|exact Wfout|exact Hb]. }
  rewrite E. apply Z.mul_le_mono_nonneg_r; [lia|]. apply blocks_for_mono; lia.
Qed.

(** FftFixedIn: floor((saved + chunk) / fft_size_in) * fft_size_out <= ((fft_size_in - 1 + chunk) / fft_size_in) * fft_size_out *)
Theorem xi_next_le_max_R unit_fn (s : @fstate CR SR FftFixedIn) :
  xi_wf unit_fn s -> @xi_output_frames_next CR (fs_ctl s) <= xi_output_frames_max (fs_ctl s) /\
                     xi_input_frames_next (fs_ctl s) = xi_input_frames_max (fs_ctl s).
Proof.
  intros [Wfin Wfout WC _ Wsv _ _ _ _ _ _]. unfold ifin, ifout, iC, isaved in *. split; [|reflexivity].
  unfold xi_output_frames_next, xi_output_frames_max. cbv zeta.
  set (fin := FftFixedIn_fft_size_in (fs_ctl s)) in *. set (fout := FftFixedIn_fft_size_out (fs_ctl s)) in *.
  set (Cc := FftFixedIn_chunk_size_in (fs_ctl s)) in *. set (sv := FftFixedIn_saved_frames (fs_ctl s)) in *.
  assert (E : @c32_to_usize CR (@floor32 CR (@div32 CR (@c32_of_Z CR (sv + Cc)) (@c32_of_Z CR fin))) = (sv + Cc) / fin).
  { cbn [c32_to_usize floor32 div32 c32_of_Z CR]. rewrite Ztrunc_IZR.
    assert (Hq : Zfloor (IZR (sv + Cc) / IZR fin) = (sv + Cc) / fin).
    { apply Zfloor_imp. assert (Hfr : (1 <= IZR fin)%R) by (apply IZR_le; lia).
      pose proof (Z.div_mod (sv + Cc) fin ltac:(lia)) as Hd. pose proof (Z.mod_pos_bound (sv + Cc) fin ltac:(lia)) as Hm.
      assert (Hx : IZR (sv + Cc) = (IZR fin * IZR ((sv + Cc) / fin) + IZR ((sv + Cc) mod fin))%R)
        by (rewrite <- mult_IZR, <- plus_IZR; f_equal; exact Hd).
      assert (Hm' : (0 <= IZR ((sv + Cc) mod fin) < IZR fin)%R) by (split; [apply IZR_le | apply IZR_lt]; lia).
      rewrite (plus_IZR ((sv + Cc) / fin) 1). change (IZR 1) with 1%R.
      split.
      - apply Rmult_le_reg_r with (IZR fin); [lra|]. unfold Rdiv. rewrite Rmult_assoc, Rinv_l, Rmult_1_r by lra. nra.
      - apply Rmult_lt_reg_r with (IZR fin); [lra|]. unfold Rdiv. rewrite Rmult_assoc, Rinv_l, Rmult_1_r by lra. nra. }
    rewrite Hq. apply Z.max_r. apply Z.div_pos; lia. }
  rewrite E. rewrite Z.quot_div_nonneg by lia.
  apply Z.mul_le_mono_nonneg_r; [lia|]. apply Z.div_le_mono; lia.
Qed.

(** FftFixedInOut: next = max on both sides *)
Theorem xio_next_eq_max (st : FftFixedInOut) : xio_input_frames_next st = xio_input_frames_max st.
Proof. reflexivity. Qed.

(** SincFixedOut: input_frames_next() <= input_frames_max().  The call invariant [so_wf] bounds the carried position by
    -4 only; the bound needs the sharper fact that the position never exceeds its initial value -(sinc_len / 2), which
    holds at construction and after every call (a call leaves it in (-sinc_len - 1, -sinc_len]). *)
Local Open Scope R_scope.

Definition so_li_ok (s : @astate CR SR (@SincFixedOut CR)) : Prop := uli s <= - IZR (uL s ÷ 2).

Lemma so_li_ok_after_call env blen (s s' : @astate CR SR (@SincFixedOut CR)) wi wo m outs :
  so_wf env blen s -> a_precheck (@so_arch CR SR env) s wi wo m = Ok tt ->
  pib (@so_arch CR SR env) s wi wo m = Ok (s', (uneeded s, uC s), outs) -> so_li_ok s'.
Proof.
  intros W Hpre E. destruct (so_call_const_R env blen s wi wo m W Hpre) as (s1 & outs1 & E1 & W1 & Hli & _ & _ & _ & _ & HL & _).
  rewrite E in E1. injection E1 as <- _. unfold so_li_ok. rewrite Hli, HL.
  destruct W as [_ _ _ _ _ _ _ WL _ _ Wnd _ _]. rewrite Wnd.
  generalize (Zceil_ub (uli s + IZR (uC s) * / uratio s + IZR (uL s))). intros Hc.
  assert (H8 : (8 <= uL s)%Z) by exact WL.
  assert (Hq : IZR (uL s ÷ 2) <= IZR (uL s)) by (apply IZR_le; rewrite Z.quot_div_nonneg by lia; apply Z.div_le_upper_bound; lia).
  lra.
Qed.

Theorem so_next_le_max_R env blen (s : @astate CR SR (@SincFixedOut CR)) :
  so_wf env blen s -> so_li_ok s -> let st := as_ctl s in
  0 < SincFixedOut_resample_ratio_original st -> 0 < SincFixedOut_max_relative_ratio st ->
  SincFixedOut_resample_ratio_original st / SincFixedOut_max_relative_ratio st <= SincFixedOut_resample_ratio st ->
  (@so_input_frames_next CR st <= @so_input_frames_max CR st)%Z.
Proof.
  intros W Hli st Ho Hm Hlo. destruct W as [[WC1 WC2] _ _ _ _ Wr _ WL _ _ Wnd _ _].
  unfold so_li_ok, uC, uCmax, uratio, uli, uL, uneeded in *. fold st in WC1, WC2, Wr, WL, Wnd, Hli.
  unfold so_input_frames_next, so_input_frames_max. rewrite Wnd.
  change (@c_to_usize CR) with (fun x : R => Z.max 0 (Ztrunc x)). change (@cceil CR) with (fun x : R => IZR (Zceil x)).
  cbv [cmul cdiv c_of_Z CR cnum]. cbv beta. rewrite Ztrunc_IZR_id.
  set (Cc := IZR (SincFixedOut_chunk_size st)) in *. set (Cm := IZR (SincFixedOut_max_chunk_size st)) in *.
  set (r := SincFixedOut_resample_ratio st) in *. set (o := SincFixedOut_resample_ratio_original st) in *.
  set (mx := SincFixedOut_max_relative_ratio st) in *. set (L := SincFixedOut_interpolator_len st) in *.
  set (li := SincFixedOut_last_index st) in *.
  assert (HC : 1 <= Cc <= Cm) by (split; apply IZR_le; lia).
  assert (Hx : Cc * / r <= Cm / o * mx).
  { assert (/ r <= mx / o).
    { assert (0 < o / mx) by (apply Rdiv_lt_0_compat; lra).
      apply Rle_trans with (/ (o / mx)); [apply Rinv_le_contravar; lra|].
      right. field. split; lra. }
    assert (0 < / r) by (apply Rinv_0_lt_compat; exact Wr).
    unfold Rdiv in *. nra. }
  assert (HL2 : (L - L ÷ 2 <= L ÷ 2 + 1)%Z).
  { rewrite Z.quot_div_nonneg by lia. pose proof (Z.div_mod L 2 ltac:(lia)). pose proof (Z.mod_pos_bound L 2 ltac:(lia)). lia. }
  assert (Hb : (Zceil (li + Cc * / r + IZR L) <= Zceil (Cm / o * mx) + (L - L ÷ 2))%Z).
  { apply Zceil_glb. rewrite plus_IZR, minus_IZR. generalize (Zceil_ub (Cm / o * mx)). lra. }
  assert (H0 : (0 <= Zceil (Cm / o * mx))%Z).
  { assert (-1 < Zceil (Cm / o * mx))%Z; [|lia]. apply lt_IZR. generalize (Zceil_ub (Cm / o * mx)). change (IZR (-1)) with (-1).
    assert (0 < Cm / o * mx) by (apply Rmult_lt_0_compat; [apply Rdiv_lt_0_compat; lra | lra]). lra. }
  rewrite Z.max_r by exact H0. eapply Z.le_trans; [exact Hb|].
  match type of Hb with (_ <= ?B + _)%Z => change (B + (L - L ÷ 2) <= B + 2 + L ÷ 2)%Z end. lia.
Qed.

Lemma so_li_ok_ctor ratio maxrel env ilen inbr chunk nch s :
  @Resamplers.sinc_out_new CR SR ratio maxrel env ilen inbr chunk nch = inr (Resamplers.RSincOut env s) -> so_li_ok s.
Proof.
  unfold Resamplers.sinc_out_new. destruct (Resamplers.validate_ratios_sinc ratio maxrel); [discriminate|]. cbv zeta.
  intros H. injection H as <-. unfold so_li_ok, uli, uL. cbn [as_ctl].
  cbv [set_SincFixedOut_max_relative_ratio set_SincFixedOut_target_ratio set_SincFixedOut_resample_ratio_original
       set_SincFixedOut_resample_ratio set_SincFixedOut_last_index set_SincFixedOut_chunk_size set_SincFixedOut_max_chunk_size
       set_SincFixedOut_nbr_channels set_SincFixedOut_current_buffer_fill set_SincFixedOut_needed_input_size
       set_SincFixedOut_interpolator_len set_SincFixedOut_interpolator_nbr_sincs SincFixedOut_last_index SincFixedOut_interpolator_len].
  unfold so_new_last_index. cbv [copp c_of_Z CR cnum]. lra.
Qed.

Lemma so_li_ok_set_chunk (s : @astate CR SR (@SincFixedOut CR)) n : so_li_ok s -> so_li_ok (so_set_chunk s n).
Proof.
  unfold so_li_ok, so_set_chunk, uli, uL. destruct (so_set_chunk_bad (as_ctl s) n); [auto|].
  destruct s as [st ? ?]; destruct st; cbn. auto.
Qed.
