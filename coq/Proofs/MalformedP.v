(** C13 at the level of process_into_buffer: for all seven types the call returns
    Err e exactly when the argument check (mask length, then validate_buffers) returns
    Err e; the later stages can fail only by Panic/UB, never by a (spurious) Err.     *)

From Coq Require Import ZArith List Bool Lia.
From Rubato.Model Require Import Num Base Validate Nearest Kernels Async Fft Resamplers Wrappers Driver.
From Rubato.Gen Require Import FastGen SincGen SynchroGen.
From Rubato.Proofs Require Import ValidateP.
Import ListNotations.
Local Open Scope Z_scope.

Section M.
Context {C : CNum} {S : SNum C}.

Definition no_err {A} (r : res A) : Prop := forall e, r <> Err e.

Lemma no_err_ok {A} (x : A) : no_err (Ok x). Proof. intros e; discriminate. Qed.
Lemma no_err_panic {A} p : no_err (@Panic C A p). Proof. intros e; discriminate. Qed.
Lemma no_err_ub {A} u : no_err (@UB C A u). Proof. intros e; discriminate. Qed.
Lemma no_err_div {A} : no_err (@Diverge C A). Proof. intros e; discriminate. Qed.
Lemma no_err_bind {A B} (r : res A) (f : A -> res B) :
  no_err r -> (forall x, no_err (f x)) -> no_err (bind r f).
Proof. intros Hr Hf e. destruct r; cbn; try discriminate. apply Hf. exfalso; eapply Hr; reflexivity. Qed.
Lemma bind_err_inv {A B} (r : res A) (f : A -> res B) e :
  bind r f = Err e -> r = Err e \/ exists x, r = Ok x /\ f x = Err e.
Proof. destruct r; cbn; intros H; try discriminate; [right; eauto | left; injection H as ->; reflexivity]. Qed.

Hint Resolve no_err_ok no_err_panic no_err_ub no_err_div : noerr.

Ltac noerr :=
  repeat first
    [ apply no_err_ok | apply no_err_panic | apply no_err_ub | apply no_err_div
    | apply no_err_bind; [| intros ?]
    | match goal with
      | |- no_err (if ?c then _ else _) => destruct c
      | |- no_err (match ?x with _ => _ end) => destruct x
      | |- no_err (let '(_, _) := ?x in _) => destruct x
      end
    | assumption ].

Lemma shift_all_no_err bufs lo hi dst : no_err (shift_all (S:=S) bufs lo hi dst).
Proof. induction bufs as [|b bs IH]; cbn [shift_all]; noerr. Qed.

Lemma fill_channel_no_err {St} (A : arch St) st buf w : no_err (fill_channel A st buf w).
Proof. unfold fill_channel. noerr. Qed.

Lemma fill_all_no_err {St} (A : arch St) st bufs : forall waves mask, no_err (fill_all A st bufs waves mask).
Proof.
  induction bufs as [|b bs IH]; intros waves mask; cbn [fill_all]; [noerr|].
  destruct mask as [|m ms]; [noerr|].
  apply no_err_bind.
  - destruct m; [|noerr]. destruct waves; [noerr|]. apply fill_channel_no_err.
  - intros x. apply no_err_bind; [apply IH | intros; noerr].
Qed.

Lemma samples_at_no_err (f : cnum -> res snum) : (forall p, no_err (f p)) -> forall ps, no_err (samples_at f ps).
Proof. intros Hf ps. induction ps as [|p ps IH]; cbn [samples_at]; noerr. apply Hf. Qed.

Definition sample_no_err {St} (A : arch St) : Prop := forall st buf idx, no_err (a_sample A st buf idx).

Lemma outputs_all_no_err {St} (A : arch St) (HA : sample_no_err A) st bufs :
  forall outs mask ps, no_err (outputs_all A st bufs outs mask ps).
Proof.
  induction bufs as [|b bs IH]; intros outs mask ps; cbn [outputs_all]; [noerr|].
  destruct outs as [|o os]; [noerr|]. destruct mask as [|m ms]; [noerr|].
  apply no_err_bind.
  - destruct m; [|noerr]. apply no_err_bind; [apply samples_at_no_err; intros; apply HA | intros; noerr].
  - intros x. apply no_err_bind; [apply IH | intros; noerr].
Qed.

(** The argument check of the asynchronous engine. *)
Definition a_precheck {St} (A : arch St) (s : astate St) (wi wo : list (list snum)) (m : option (list bool)) : res unit :=
  let st := as_ctl s in
  do mask <- match m with
             | Some mk => if a_mask_bad A st (zlen mk) then Err (ErrWrongNumberOfMaskChannels (a_val_channels A st) (zlen mk)) else Ok mk
             | None => Ok (map (fun _ => true) (as_mask s))
             end;
  validate_buffers (map zlen wi) (map zlen wo) mask (a_val_channels A st) (a_val_min_in A st) (a_val_min_out A st).

Lemma a_precheck_total {St} (A : arch St) s wi wo m :
  a_precheck A s wi wo m = Ok tt \/ exists e, a_precheck A s wi wo m = Err e.
Proof.
  unfold a_precheck. destruct m as [mk|]; cbn [bind].
  - destruct (a_mask_bad A (as_ctl s) (zlen mk)); cbn [bind]; [right; eauto|]. apply validate_total.
  - apply validate_total.
Qed.

Theorem pib_err_iff {St} (A : arch St) (HA : sample_no_err A) s wi wo m e :
  pib A s wi wo m = Err e <-> a_precheck A s wi wo m = Err e.
Proof.
  unfold pib, a_precheck.
  set (pro := match m with Some mk => _ | None => _ end).
  destruct pro as [mask| e0 | | |]; cbn [bind]; try (split; discriminate);
    [| split; intros H; injection H as ->; reflexivity].
  set (v := validate_buffers _ _ _ _ _ _).
  destruct v as [[]| e0 | | |]; cbn [bind]; try (split; discriminate);
    [| split; intros H; injection H as ->; reflexivity].
  split; [|discriminate].
  intros H. exfalso. revert H.
  match goal with |- ?r = Err e -> False => assert (Hn : no_err r); [| apply Hn] end.
  apply no_err_bind; [apply shift_all_no_err | intros bufs1].
  apply no_err_bind; [apply fill_all_no_err | intros bufs2].
  apply no_err_bind.
  - destruct (a_fixed_in A); [|noerr].
    match goal with |- no_err (match ?x with _ => _ end) => destruct x end; noerr.
  - intros [ps last]. apply no_err_bind; [apply outputs_all_no_err; exact HA | intros; noerr].
Qed.

(** The four instances never produce a spurious Err while sampling. *)
Lemma fast_sample_no_err arm buf idx : no_err (fast_sample (S:=S) arm buf idx).
Proof.
  unfold fast_sample, fast_point, fast_read. noerr.
Qed.

Lemma sinc_points_no_err k sincs len nbr buf kidx pts : no_err (sinc_points (S:=S) k sincs len nbr buf kidx pts).
Proof.
  induction pts as [|[i sub] r IH]; cbn [sinc_points]; [noerr|].
  apply no_err_bind; [unfold sinc_point; noerr | intros; noerr].
Qed.

Lemma sinc_sample_no_err env len nbr kidx frac buf idx : no_err (sinc_sample (S:=S) env len nbr kidx frac buf idx).
Proof.
  unfold sinc_sample. destruct (se_type env); (apply no_err_bind; [apply sinc_points_no_err | intros; noerr]).
Qed.

Lemma fi_sample_ok d : sample_no_err (fi_arch d). Proof. intros st buf idx. apply fast_sample_no_err. Qed.
Lemma fo_sample_ok d : sample_no_err (fo_arch d). Proof. intros st buf idx. apply fast_sample_no_err. Qed.
Lemma si_sample_ok e : sample_no_err (si_arch e). Proof. intros st buf idx. apply sinc_sample_no_err. Qed.
Lemma so_sample_ok e : sample_no_err (so_arch e). Proof. intros st buf idx. apply sinc_sample_no_err. Qed.

(** * The synchronous resamplers *)
Variable unit_fn : list snum -> list snum.

Lemma resample_unit_no_err fi fo wi wo ov : no_err (resample_unit unit_fn fi fo wi wo ov).
Proof. unfold resample_unit. noerr. Qed.

Lemma run_units_no_err fi fo ins : forall outs ov, no_err (run_units unit_fn fi fo ins outs ov).
Proof.
  induction ins as [|i ins IH]; intros outs ov; cbn [run_units]; [noerr|].
  destruct outs as [|o outs]; [noerr|].
  apply no_err_bind; [apply resample_unit_no_err|]. intros [o' ov'].
  apply no_err_bind; [apply IH|]. intros [os' ov'']. noerr.
Qed.

Lemma per_channel_no_err {X} (f : X -> res X) : (forall x, no_err (f x)) ->
  forall xs mask, no_err (per_channel f xs mask).
Proof.
  intros Hf xs. induction xs as [|x xs IH]; intros mask; cbn [per_channel]; [noerr|].
  destruct mask as [|m ms]; [noerr|].
  apply no_err_bind; [destruct m; [apply Hf|noerr] | intros; apply no_err_bind; [apply IH | intros; noerr]].
Qed.

Definition x_precheck (bad : Z -> bool) (channels mi mo : Z) (stored : list bool)
           (wi wo : list (list snum)) (m : option (list bool)) : res unit :=
  do mask <- prologue bad channels stored m;
  validate_buffers (map zlen wi) (map zlen wo) mask channels mi mo.

Ltac pre_split e :=
  match goal with |- context [prologue ?a ?b ?c ?d] => destruct (prologue a b c d) as [mask| e0 | | |] end;
  cbn [bind]; try (split; discriminate); [| split; intros H; injection H as ->; reflexivity];
  match goal with |- context [validate_buffers ?a ?b ?c ?d ?f ?g] => destruct (validate_buffers a b c d f g) as [[]| e0 | | |] end;
  cbn [bind]; try (split; discriminate); [| split; intros H; injection H as ->; reflexivity];
  split; [|discriminate]; intros H; exfalso; revert H;
  match goal with |- ?r = Err e -> False => assert (Hn : no_err r); [| apply Hn] end.

Theorem xio_pib_err_iff s wi wo m e :
  xio_pib unit_fn s wi wo m = Err e <->
  x_precheck (xio_mask_bad (fs_ctl s)) (xio_val_channels (fs_ctl s)) (xio_val_min_in (fs_ctl s))
             (xio_val_min_out (fs_ctl s)) (fs_mask s) wi wo m = Err e.
Proof.
  unfold xio_pib, x_precheck. pre_split e.
  apply no_err_bind; [|intros; noerr].
  apply per_channel_no_err. intros [[a b] c]. noerr. apply resample_unit_no_err.
Qed.

Theorem xo_pib_err_iff s wi wo m e :
  xo_pib unit_fn s wi wo m = Err e <->
  x_precheck (xo_mask_bad (fs_ctl s)) (xo_val_channels (fs_ctl s)) (xo_val_min_in (fs_ctl s))
             (xo_val_min_out (fs_ctl s)) (fs_mask s) wi wo m = Err e.
Proof.
  unfold xo_pib, x_precheck. pre_split e.
  apply no_err_bind.
  - apply per_channel_no_err. intros [[a b] c]. noerr. apply run_units_no_err.
  - intros r. apply no_err_bind.
    + destruct (xo_enough _ _); [|noerr].
      apply no_err_bind; [|intros; noerr].
      apply per_channel_no_err. intros [a b]. noerr.
    + intros [[st1 outs] bufs2]. noerr.
Qed.

Theorem xi_pib_err_iff s wi wo m e :
  xi_pib unit_fn s wi wo m = Err e <->
  (let st := fs_ctl s in
   let next_saved := xi_next_saved_frames st in
   let ready := xi_nbr_chunks_ready st next_saved in
   x_precheck (xi_mask_bad st) (xi_val_channels st) (xi_val_min_in st)
              (xi_val_min_out st (xi_needed_len st ready)) (fs_mask s) wi wo m) = Err e.
Proof.
  unfold xi_pib, x_precheck. cbv zeta.
  match goal with |- context [prologue ?a ?b ?c ?d] => destruct (prologue a b c d) as [mask| e0 | | |] end;
  cbn [bind]; try (split; discriminate); [| split; intros H; injection H as ->; reflexivity].
  match goal with |- context [validate_buffers ?a ?b ?c ?d ?f ?g] => destruct (validate_buffers a b c d f g) as [[]| e0 | | |] end;
  cbn [bind]; try (split; discriminate); [| split; intros H; injection H as ->; reflexivity].
  split; [|discriminate]; intros H; exfalso; revert H.
  match goal with |- ?r = Err e -> False => assert (Hn : no_err r); [| apply Hn] end.
  apply no_err_bind.
  - apply per_channel_no_err. intros [a b]. noerr.
  - intros bufs1. apply no_err_bind.
    + apply per_channel_no_err. intros [[a b] c]. noerr. apply run_units_no_err.
    + intros r. match goal with |- no_err (if ?c then _ else _) => destruct c end; [noerr|].
      apply no_err_bind; [|intros; noerr].
      match goal with |- no_err (if ?c then _ else _) => destruct c end; [|noerr].
      apply per_channel_no_err. intros ib. noerr.
Qed.

(** * All seven types through the model's step function *)
Definition r_precheck (r : rstate) (wi wo : list (list snum)) (m : option (list bool)) : res unit :=
  match r with
  | RFastIn d s => a_precheck (fi_arch d) s wi wo m
  | RFastOut d s => a_precheck (fo_arch d) s wi wo m
  | RSincIn e s => a_precheck (si_arch e) s wi wo m
  | RSincOut e s => a_precheck (so_arch e) s wi wo m
  | RFftIn s => let st := fs_ctl s in
      x_precheck (xi_mask_bad st) (xi_val_channels st) (xi_val_min_in st)
                 (xi_val_min_out st (xi_needed_len st (xi_nbr_chunks_ready st (xi_next_saved_frames st)))) (fs_mask s) wi wo m
  | RFftOut s => let st := fs_ctl s in
      x_precheck (xo_mask_bad st) (xo_val_channels st) (xo_val_min_in st) (xo_val_min_out st) (fs_mask s) wi wo m
  | RFftInOut s => let st := fs_ctl s in
      x_precheck (xio_mask_bad st) (xio_val_channels st) (xio_val_min_in st) (xio_val_min_out st) (fs_mask s) wi wo m
  end.

Theorem r_pib_err_iff r wi wo m e :
  r_pib unit_fn r wi wo m = Err e <-> r_precheck r wi wo m = Err e.
Proof.
  destruct r as [d s|d s|en s|en s|s|s|s]; cbn [r_pib r_precheck].
  - rewrite <- (pib_err_iff (fi_arch d) (fi_sample_ok d)). destruct (pib _ _ _ _ _) as [[[? ?] ?]| | | |]; cbn; split; congruence.
  - rewrite <- (pib_err_iff (fo_arch d) (fo_sample_ok d)). destruct (pib _ _ _ _ _) as [[[? ?] ?]| | | |]; cbn; split; congruence.
  - rewrite <- (pib_err_iff (si_arch en) (si_sample_ok en)). destruct (pib _ _ _ _ _) as [[[? ?] ?]| | | |]; cbn; split; congruence.
  - rewrite <- (pib_err_iff (so_arch en) (so_sample_ok en)). destruct (pib _ _ _ _ _) as [[[? ?] ?]| | | |]; cbn; split; congruence.
  - rewrite <- xi_pib_err_iff. destruct (xi_pib _ _ _ _ _) as [[[? ?] ?]| | | |]; cbn; split; congruence.
  - rewrite <- xo_pib_err_iff. destruct (xo_pib _ _ _ _ _) as [[[? ?] ?]| | | |]; cbn; split; congruence.
  - rewrite <- xio_pib_err_iff. destruct (xio_pib _ _ _ _ _) as [[[? ?] ?]| | | |]; cbn; split; congruence.
Qed.

(** A malformed call: the matching Err, and the very same state. *)
Theorem step_pib_malformed r wi wo m e :
  r_precheck r wi wo m = Err e -> step unit_fn r (OpPib wi wo m) = (r, OErr e).
Proof.
  intros H. apply r_pib_err_iff in H. unfold step, pibf. rewrite H. reflexivity.
Qed.

(** Conversely a well-formed call never returns an Err (no spurious errors). *)
Theorem step_pib_wellformed r wi wo m :
  r_precheck r wi wo m = Ok tt -> forall e, snd (step unit_fn r (OpPib wi wo m)) <> OErr e.
Proof.
  intros H e Hs. unfold step, pibf in Hs.
  destruct (r_pib unit_fn r wi wo m) as [[[? [? ?]] ?]| e0 | | |] eqn:E; cbn in Hs; try discriminate.
  injection Hs as ->. apply r_pib_err_iff in E. congruence.
Qed.

End M.
