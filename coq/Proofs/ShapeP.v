(** Buffer-shape lemmas: the checked slice primitives preserve lengths, and succeed
    exactly when their ranges fit.                                               *)

From Coq Require Import ZArith List Bool Lia.
From Rubato.Model Require Import Num Base.
Import ListNotations.
Local Open Scope Z_scope.

Section Shape.
Context {A : Type}.

Lemma zlen_nonneg (l : list A) : 0 <= zlen l. Proof. unfold zlen. lia. Qed.

Lemma slice_length (l : list A) lo hi : 0 <= lo -> lo <= hi -> hi <= zlen l -> zlen (slice l lo hi) = hi - lo.
Proof.
  intros H1 H2 H3. unfold slice, zlen in *. rewrite firstn_length, skipn_length. lia.
Qed.

Lemma in_range_iff (l : list A) lo hi : in_range l lo hi = true <-> 0 <= lo /\ lo <= hi /\ hi <= zlen l.
Proof. unfold in_range. rewrite !andb_true_iff, !Z.leb_le. tauto. Qed.

Lemma splice_length (l : list A) dst src :
  0 <= dst -> dst + zlen src <= zlen l -> zlen (splice l dst src) = zlen l.
Proof.
  intros H1 H2. unfold splice, zlen in *. rewrite !app_length, firstn_length, skipn_length. lia.
Qed.

Lemma copy_within_some (l : list A) lo hi dst :
  0 <= lo -> lo <= hi -> hi <= zlen l -> 0 <= dst -> dst + (hi - lo) <= zlen l ->
  exists l', copy_within l lo hi dst = Some l' /\ zlen l' = zlen l.
Proof.
  intros H1 H2 H3 H4 H5. unfold copy_within.
  assert (E : in_range l lo hi && (0 <=? dst) && (dst + (hi - lo) <=? zlen l) = true).
  { rewrite !andb_true_iff. repeat split; [apply in_range_iff; lia | apply Z.leb_le; lia | apply Z.leb_le; lia]. }
  rewrite E. eexists; split; [reflexivity|].
  apply splice_length; [lia|]. rewrite slice_length by lia. lia.
Qed.

Lemma copy_within_length (l l' : list A) lo hi dst : copy_within l lo hi dst = Some l' -> zlen l' = zlen l.
Proof.
  unfold copy_within. destruct (in_range l lo hi && (0 <=? dst) && (dst + (hi - lo) <=? zlen l)) eqn:E; [|discriminate].
  intros H; injection H as <-.
  rewrite !andb_true_iff in E. destruct E as [[E1 E2] E3]. apply in_range_iff in E1. apply Z.leb_le in E2, E3.
  apply splice_length; [lia|]. rewrite slice_length by lia. lia.
Qed.

End Shape.
