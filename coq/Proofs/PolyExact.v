(** C08: the generated polynomial interpolators, read in ideal arithmetic, are
    the Lagrange interpolants on their documented nodes.                        *)

From Coq Require Import ZArith Reals List Lra.
From Rubato.Model Require Import Num Reals.
From Rubato.Gen Require Import FastGen SincGen.
Import ListNotations.
Local Open Scope R_scope.

(* the real-number reading of a literal written as num/den *)
Lemma c_lit_R m e n d : @c_lit CR m e n d = IZR n / IZR d.
Proof. reflexivity. Qed.

Ltac unfold_num :=
  cbv [c_lit cdiv cmul cadd csub copp coerce sadd ssub smul sdiv sopp sone szero s_of_Z CR SR nth snum cnum].

(** A polynomial of degree <= 7 through its coefficient vector. *)
Definition poly7 (c0 c1 c2 c3 c4 c5 c6 c7 t : R) : R :=
  c0 + c1*t + c2*t^2 + c3*t^3 + c4*t^4 + c5*t^5 + c6*t^6 + c7*t^7.

(** interp_septic: nodes -3..4 *)
Lemma septic_exact c0 c1 c2 c3 c4 c5 c6 c7 x :
  let p := poly7 c0 c1 c2 c3 c4 c5 c6 c7 in
  @fast_interp_septic CR SR x [p (-3); p (-2); p (-1); p 0; p 1; p 2; p 3; p 4] = p x.
Proof.
  intros p. subst p. unfold fast_interp_septic, poly7. unfold_num. field.
Qed.

(** interp_quintic: nodes -2..3 *)
Lemma quintic_exact c0 c1 c2 c3 c4 c5 x :
  let p := poly7 c0 c1 c2 c3 c4 c5 0 0 in
  @fast_interp_quintic CR SR x [p (-2); p (-1); p 0; p 1; p 2; p 3] = p x.
Proof.
  intros p. subst p. unfold fast_interp_quintic, poly7. unfold_num. field.
Qed.

(** interp_cubic (asynchro_fast): nodes -1..2 *)
Lemma cubic_exact c0 c1 c2 c3 x :
  let p := poly7 c0 c1 c2 c3 0 0 0 0 in
  @fast_interp_cubic CR SR x [p (-1); p 0; p 1; p 2] = p x.
Proof.
  intros p. subst p. unfold fast_interp_cubic, poly7. unfold_num. field.
Qed.

(** interp_lin: nodes 0, 1 *)
Lemma lin_exact c0 c1 x :
  let p := poly7 c0 c1 0 0 0 0 0 0 in
  @fast_interp_lin CR SR x [p 0; p 1] = p x.
Proof.
  intros p. subst p. unfold fast_interp_lin, poly7. unfold_num. ring.
Qed.

(** The sinc resamplers' inter-branch interpolators (asynchro_sinc.rs). *)
Lemma sinc_cubic_exact c0 c1 c2 c3 x :
  let p := poly7 c0 c1 c2 c3 0 0 0 0 in
  @sinc_interp_cubic CR SR x [p (-1); p 0; p 1; p 2] = p x.
Proof.
  intros p. subst p. unfold sinc_interp_cubic, poly7. unfold_num. field.
Qed.

Lemma sinc_quad_exact c0 c1 c2 x :
  let p := poly7 c0 c1 c2 0 0 0 0 0 in
  @sinc_interp_quad CR SR x [p 0; p 1; p 2] = p x.
Proof.
  intros p. subst p. unfold sinc_interp_quad, poly7. unfold_num. field.
Qed.

Lemma sinc_lin_exact c0 c1 x :
  let p := poly7 c0 c1 0 0 0 0 0 0 in
  @sinc_interp_lin CR SR x [p 0; p 1] = p x.
Proof.
  intros p. subst p. unfold sinc_interp_lin, poly7. unfold_num. ring.
Qed.

(** Linearity in the sample values: together with exactness on a basis this
    makes each interpolator *the* interpolating polynomial of its samples.    *)
Definition lincomb (a : R) (u v : list R) : list R := map (fun p => a * fst p + snd p) (combine u v).

Lemma septic_linear a x u0 u1 u2 u3 u4 u5 u6 u7 v0 v1 v2 v3 v4 v5 v6 v7 :
  @fast_interp_septic CR SR x (lincomb a [u0;u1;u2;u3;u4;u5;u6;u7] [v0;v1;v2;v3;v4;v5;v6;v7]) =
  a * @fast_interp_septic CR SR x [u0;u1;u2;u3;u4;u5;u6;u7] + @fast_interp_septic CR SR x [v0;v1;v2;v3;v4;v5;v6;v7].
Proof. unfold fast_interp_septic, lincomb. cbn [combine map fst snd]. unfold_num. field. Qed.

Lemma quintic_linear a x u0 u1 u2 u3 u4 u5 v0 v1 v2 v3 v4 v5 :
  @fast_interp_quintic CR SR x (lincomb a [u0;u1;u2;u3;u4;u5] [v0;v1;v2;v3;v4;v5]) =
  a * @fast_interp_quintic CR SR x [u0;u1;u2;u3;u4;u5] + @fast_interp_quintic CR SR x [v0;v1;v2;v3;v4;v5].
Proof. unfold fast_interp_quintic, lincomb. cbn [combine map fst snd]. unfold_num. field. Qed.

Lemma cubic_linear a x u0 u1 u2 u3 v0 v1 v2 v3 :
  @fast_interp_cubic CR SR x (lincomb a [u0;u1;u2;u3] [v0;v1;v2;v3]) =
  a * @fast_interp_cubic CR SR x [u0;u1;u2;u3] + @fast_interp_cubic CR SR x [v0;v1;v2;v3].
Proof. unfold fast_interp_cubic, lincomb. cbn [combine map fst snd]. unfold_num. field. Qed.

Lemma lin_linear a x u0 u1 v0 v1 :
  @fast_interp_lin CR SR x (lincomb a [u0;u1] [v0;v1]) =
  a * @fast_interp_lin CR SR x [u0;u1] + @fast_interp_lin CR SR x [v0;v1].
Proof. unfold fast_interp_lin, lincomb. cbn [combine map fst snd]. unfold_num. ring. Qed.
