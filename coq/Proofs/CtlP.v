(** C17 (control half): the new control state and the returned frame counts of a successful
    process_into_buffer are a function of the old control state and of the *lengths* of the
    output buffers only — no sample value, hence not the sample type, enters them.        *)

From Coq Require Import ZArith List Bool Lia.
From Rubato.Model Require Import Num Base Validate Async.
Import ListNotations.
Local Open Scope Z_scope.

Section Ctl.
Context {C : CNum} {S : SNum C}.

(* capacity of the active output channels, from lengths alone *)
Definition min_active_len (lens : list Z) (mask : list bool) : option Z :=
  fold_left (fun acc om => match om with
                           | (l, true) => match acc with None => Some l | Some a => Some (Z.min a l) end
                           | _ => acc end) (combine lens mask) None.

Lemma min_active_out_lens (outs : list (list snum)) : forall mask,
  min_active_out outs mask = min_active_len (map zlen outs) mask.
Proof.
  unfold min_active_out, min_active_len. generalize (@None Z).
  induction outs as [|o os IH]; intros acc mask; [reflexivity|].
  destruct mask as [|m ms]; [reflexivity|]. cbn [map combine fold_left]. destruct m; apply IH.
Qed.

(** the control part of a call: instants, final position, new control record, counts *)
Definition ctl_result {St} (A : arch St) (st : St) (out_lens : list Z) (mask : list bool) : option (St * (Z * Z)) :=
  let st1 := a_pre A st in
  let t0 := a_t0 A st1 in
  let tend := a_tend A st1 in
  let inc := a_inc A st1 tend t0 in
  let idx0 := a_idx0 A st1 in
  let r :=
    if a_fixed_in A then
      let end_idx := a_end_idx A st1 tend in
      let fuel := match min_active_len out_lens mask with
                  | Some cap => Z.to_nat (cap + 2)
                  | None => Z.to_nat (a_val_min_out A st + 65536)
                  end in
      positions_in (a_tstep A st1) (a_istep A st1) (a_cond A st1 end_idx) fuel t0 inc idx0
    else Some (positions_out (a_tstep A st1) (a_istep A st1) (Z.to_nat (a_bound A st1)) t0 inc idx0) in
  match r with
  | Some (ps, last) => let st2 := a_finish A st1 last in Some (st2, a_ret A st1 st2 (Z.of_nat (length ps)))
  | None => None
  end.

Theorem pib_control {St} (A : arch St) s wi wo m s' c o :
  pib A s wi wo m = Ok (s', c, o) ->
  ctl_result A (as_ctl s) (map zlen wo) (as_mask s') = Some (as_ctl s', c).
Proof.
  unfold pib, ctl_result.
  set (pro := match m with Some mk => _ | None => _ end).
  destruct pro as [mask| | | |]; cbn [bind]; try discriminate.
  destruct (validate_buffers _ _ _ _ _ _) as [[]| | | |]; cbn [bind]; try discriminate.
  destruct (shift_all _ _ _ _) as [bufs1| | | |]; cbn [bind]; try discriminate.
  destruct (fill_all _ _ _ _ _) as [bufs2| | | |]; cbn [bind]; try discriminate.
  rewrite <- min_active_out_lens.
  destruct (a_fixed_in A).
  - destruct (positions_in _ _ _ _ _ _ _) as [[ps last]|] eqn:E; cbn [bind].
    + destruct (outputs_all _ _ _ _ _ _) as [outs| | | |]; cbn [bind]; try discriminate.
      intros H; injection H as <- <- _. cbn [as_ctl as_mask]. rewrite E. reflexivity.
    + destruct (min_active_out wo mask); [destruct (a_write_checked A)|]; discriminate.
  - cbn [bind]. destruct (positions_out _ _ _ _ _ _) as [ps last] eqn:E.
    destruct (outputs_all _ _ _ _ _ _) as [outs| | | |]; cbn [bind]; try discriminate.
    intros H; injection H as <- <- _. cbn [as_ctl as_mask]. reflexivity.
Qed.

End Ctl.

(** two sample types over the same control arithmetic: equal control records, equal output
    lengths and equal masks give equal new control records and equal counts *)
Theorem control_independent_of_sample_type {C : CNum} (S1 S2 : SNum C) {St}
        (A1 : @arch C S1 St) (A2 : @arch C S2 St) :
  (forall st lens mask, @ctl_result C S1 St A1 st lens mask = @ctl_result C S2 St A2 st lens mask) ->
  forall s1 s2 wi1 wo1 wi2 wo2 m1 m2 s1' s2' c1 c2 o1 o2,
  @as_ctl C S1 St s1 = @as_ctl C S2 St s2 -> map zlen wo1 = map zlen wo2 ->
  @as_mask C S1 St s1' = @as_mask C S2 St s2' ->
  @pib C S1 St A1 s1 wi1 wo1 m1 = Ok (s1', c1, o1) ->
  @pib C S2 St A2 s2 wi2 wo2 m2 = Ok (s2', c2, o2) ->
  @as_ctl C S1 St s1' = @as_ctl C S2 St s2' /\ c1 = c2.
Proof.
  intros HA s1 s2 wi1 wo1 wi2 wo2 m1 m2 s1' s2' c1 c2 o1 o2 Hc Hl Hm H1 H2.
  apply pib_control in H1. apply pib_control in H2.
  rewrite HA, Hc, Hl, Hm in H1. rewrite H1 in H2. injection H2 as <- <-. split; reflexivity.
Qed.

Section Instances.
Context {C : CNum} (S1 S2 : SNum C).

Lemma fi_ctl_same d st lens mask :
  @ctl_result C S1 _ (@fi_arch C S1 d) st lens mask = @ctl_result C S2 _ (@fi_arch C S2 d) st lens mask.
Proof. reflexivity. Qed.
Lemma fo_ctl_same d st lens mask :
  @ctl_result C S1 _ (@fo_arch C S1 d) st lens mask = @ctl_result C S2 _ (@fo_arch C S2 d) st lens mask.
Proof. reflexivity. Qed.
(* sinc types: the control part does not look at the table or the kernel either *)
Lemma si_ctl_same (e1 : @sinc_env C S1) (e2 : @sinc_env C S2) st lens mask :
  se_type e1 = se_type e2 ->
  @ctl_result C S1 _ (@si_arch C S1 e1) st lens mask = @ctl_result C S2 _ (@si_arch C S2 e2) st lens mask.
Proof. intros H. unfold ctl_result. cbn [si_arch a_pre a_t0 a_tend a_inc a_idx0 a_fixed_in a_end_idx a_tstep a_istep a_cond a_val_min_out a_finish a_ret a_bound]. rewrite H. reflexivity. Qed.
Lemma so_ctl_same (e1 : @sinc_env C S1) (e2 : @sinc_env C S2) st lens mask :
  se_type e1 = se_type e2 ->
  @ctl_result C S1 _ (@so_arch C S1 e1) st lens mask = @ctl_result C S2 _ (@so_arch C S2 e2) st lens mask.
Proof. intros H. unfold ctl_result. cbn [so_arch a_pre a_t0 a_tend a_inc a_idx0 a_fixed_in a_end_idx a_tstep a_istep a_cond a_val_min_out a_finish a_ret a_bound]. rewrite H. reflexivity. Qed.
End Instances.
