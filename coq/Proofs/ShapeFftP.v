(** C09 (no internal buffer ever needs to grow) and C10 (reset after a processing call = reset before it) for the three
    synchronous resamplers, in every arithmetic and for ANY spectral core: a successful process_into_buffer returns overlap
    buffers and internal input / output buffers of exactly the lengths it received.  No length contract on the core is
    needed: resample_unit itself checks that the tail it keeps has the length of the overlap buffer it replaces.       *)

From Coq Require Import ZArith List Bool Lia.
From Rubato.Model Require Import Num Base Validate Fft Resamplers.
From Rubato.Gen Require Import SynchroGen.
From Rubato.Proofs Require Import ShapeP ValidateP ChannelsP CtlFftP ResetP.
Import ListNotations.
Local Open Scope Z_scope.

Section ShapeFft.
Context {C : CNum} {S : SNum C}.
Variable unit_fn : list snum -> list snum.

Lemma add_lists_len (a b : list snum) : length (add_lists a b) = Nat.min (length a) (length b).
Proof. revert b; induction a as [|x a IH]; intros [|y b]; cbn; auto. Qed.

Lemma resample_unit_shape fin fout (wi wo ov o' ov' : list snum) : 0 <= fout ->
  resample_unit unit_fn fin fout wi wo ov = Ok (o', ov') -> length o' = length wo /\ length ov' = length ov.
Proof.
  intros Hf. unfold resample_unit.
  destruct (negb (zlen wi =? fin)); [discriminate|].
  set (ob := unit_fn wi). set (k := Z.min (zlen wo) fout).
  destruct ((k <=? zlen ov) && (k <=? zlen ob)) eqn:E1; cbn [negb]; [|discriminate].
  destruct (fout <=? zlen ob) eqn:E2; cbn [negb]; [|discriminate].
  destruct (zlen ob - fout =? zlen ov) eqn:E3; cbn [negb]; [|discriminate].
  intros H. injection H as <- <-.
  apply andb_true_iff in E1. destruct E1 as [Ea Eb]. apply Z.leb_le in Ea, Eb, E2. apply Z.eqb_eq in E3.
  subst k. unfold zlen, slice in *. rewrite app_length, add_lists_len, !firstn_length, !skipn_length. split; lia.
Qed.

Lemma run_units_shape fin fout : 0 <= fout -> forall ins outs ov os ov',
  run_units unit_fn fin fout ins outs ov = Ok (os, ov') ->
  map (@length snum) os = map (@length snum) outs /\ length ov' = length ov.
Proof.
  intros Hf. induction ins as [|i ins IH]; intros outs ov os ov' H; cbn [run_units] in H.
  - destruct outs; injection H as <- <-; split; reflexivity.
  - destruct outs as [|o outs]; [injection H as <- <-; split; reflexivity|].
    destruct (resample_unit unit_fn fin fout i o ov) as [[o1 ov1]| | | |] eqn:E; cbn [bind] in H; try discriminate.
    destruct (run_units unit_fn fin fout ins outs ov1) as [[os2 ov2]| | | |] eqn:E2; cbn [bind] in H; try discriminate.
    injection H as <- <-. destruct (resample_unit_shape _ _ _ _ _ _ _ Hf E) as [L1 L2]. destruct (IH _ _ _ _ E2) as [M1 M2].
    split; [cbn [map]; rewrite L1, M1; reflexivity | rewrite M2; exact L2].
Qed.

Lemma concat_len_map {A} (a b : list (list A)) : map (@length A) a = map (@length A) b -> length (concat a) = length (concat b).
Proof.
  revert b; induction a as [|x a IH]; intros [|y b] H; try discriminate; [reflexivity|].
  cbn [map] in H. injection H as H1 H2. cbn [concat]. rewrite !app_length, H1, (IH _ H2). reflexivity.
Qed.

Lemma chunks_aux_concat_len {A} : forall fuel n (l : list A), (length l <= fuel)%nat -> (1 <= n)%nat ->
  length (concat (chunks_aux fuel n l)) = length l.
Proof.
  induction fuel as [|f IH]; intros n l Hl Hn; cbn [chunks_aux].
  - destruct l; [reflexivity|cbn in Hl; lia].
  - destruct l as [|x l]; [reflexivity|]. cbn [concat]. rewrite app_length, IH.
    + rewrite firstn_length, skipn_length. lia.
    + rewrite skipn_length. cbn [length] in *. lia.
    + exact Hn.
Qed.

(* a per-channel step that keeps a length keeps the list of lengths *)
Lemma per_channel_shape {X} (f : X -> res X) (len : X -> nat) :
  (forall x y, f x = Ok y -> len y = len x) ->
  forall xs mask ys, per_channel f xs mask = Ok ys -> map len ys = map len xs.
Proof.
  intros Hf. induction xs as [|x xs IH]; intros mask ys H; cbn [per_channel] in H.
  - injection H as <-. reflexivity.
  - destruct mask as [|m ms]; [injection H as <-; reflexivity|].
    destruct (if m then f x else Ok x) as [x'| | | |] eqn:Ex; cbn [bind] in H; try discriminate.
    destruct (per_channel f xs ms) as [r| | | |] eqn:Er; cbn [bind] in H; try discriminate.
    injection H as <-. cbn [map]. rewrite (IH _ _ Er). f_equal.
    destruct m; [apply Hf; exact Ex | injection Ex as <-; reflexivity].
Qed.

Lemma zip3_map_2 {A B D} (a : list A) (b : list B) (d : list D) : length a = length b -> length d = length b ->
  map (fun x => snd (fst x)) (zip3 a b d) = b.
Proof. revert b d; induction a as [|x a IH]; intros [|y b] [|z d] H1 H2; cbn in *; try lia; try reflexivity. f_equal. apply IH; lia. Qed.
Lemma zip3_map_3 {A B D} (a : list A) (b : list B) (d : list D) : length a = length d -> length b = length d ->
  map (fun x => snd x) (zip3 a b d) = d.
Proof. revert b d; induction a as [|x a IH]; intros [|y b] [|z d] H1 H2; cbn in *; try lia; try reflexivity. f_equal. apply IH; lia. Qed.

Lemma validate_lengths (wi wo : list (list snum)) mask ch mi mo :
  validate_buffers (map zlen wi) (map zlen wo) mask ch mi mo = Ok tt ->
  length wi = Z.to_nat ch /\ length wo = Z.to_nat ch /\ length mask = Z.to_nat ch.
Proof.
  intros H. apply validate_ok_iff in H. destruct H as (Vi & Vm & _ & Vo & _).
  unfold zlen in *. rewrite map_length in Vi, Vo. lia.
Qed.

(** * FftFixedInOut *)
Theorem xio_pib_shape (s : fstate FftFixedInOut) wi wo m s' c o :
  0 <= FftFixedInOut_chunk_size_out (fs_ctl s) ->
  length (fs_overlaps s) = Z.to_nat (xio_val_channels (fs_ctl s)) ->
  xio_pib unit_fn s wi wo m = Ok (s', c, o) ->
  map (@length snum) (fs_overlaps s') = map (@length snum) (fs_overlaps s) /\ fs_bufs s' = fs_bufs s /\
  map (@length snum) o = map (@length snum) wo /\ length (fs_mask s') = Z.to_nat (xio_val_channels (fs_ctl s)).
Proof.
  intros Hf Hov. unfold xio_pib.
  destruct (prologue _ _ _ m) as [mask| | | |]; cbn [bind]; try discriminate.
  destruct (validate_buffers _ _ _ _ _ _) as [[]| | | |] eqn:Ev; cbn [bind]; try discriminate.
  destruct (validate_lengths _ _ _ _ _ _ Ev) as (Lwi & Lwo & Lm).
  match goal with |- context [per_channel ?f ?xs ?mk] => destruct (per_channel f xs mk) as [r| | | |] eqn:R end; cbn [bind]; try discriminate.
  intros H. injection H as <- _ <-. cbn [fs_overlaps fs_bufs fs_mask].
  assert (K3 : map (fun x : list snum * list snum * list snum => length (snd x)) r =
               map (fun x : list snum * list snum * list snum => length (snd x)) (zip3 wi wo (fs_overlaps s))).
  { eapply per_channel_shape; [|exact R]. intros [[a b] d] [[a' b'] d']. destruct (_ || _); [discriminate|].
    destruct (resample_unit _ _ _ _ _ _) as [[o1 ov1]| | | |] eqn:E; cbn [bind]; try discriminate.
    intros H. injection H as _ _ <-. cbn [snd]. exact (proj2 (resample_unit_shape _ _ _ _ _ _ _ Hf E)). }
  assert (K2 : map (fun x : list snum * list snum * list snum => length (snd (fst x))) r =
               map (fun x : list snum * list snum * list snum => length (snd (fst x))) (zip3 wi wo (fs_overlaps s))).
  { eapply per_channel_shape; [|exact R]. intros [[a b] d] [[a' b'] d'].
    destruct (negb (in_range a 0 _) || negb (in_range b 0 _)) eqn:Er; [discriminate|].
    destruct (resample_unit _ _ _ _ _ _) as [[o1 ov1]| | | |] eqn:E; cbn [bind]; try discriminate.
    intros H. injection H as _ <- _. cbn [snd fst].
    apply orb_false_iff in Er. destruct Er as [_ Er]. apply negb_false_iff, in_range_iff in Er.
    pose proof (proj1 (resample_unit_shape _ _ _ _ _ _ _ Hf E)) as L1.
    rewrite app_length, L1, skipn_length. unfold slice, zlen in *. rewrite firstn_length, skipn_length. lia. }
  split; [|split; [reflexivity|split; [|exact Lm]]].
  - rewrite map_map. rewrite K3. rewrite <- map_map. rewrite zip3_map_3 by lia. reflexivity.
  - rewrite map_map. rewrite K2. rewrite <- map_map. rewrite zip3_map_2 by lia. reflexivity.
Qed.

Lemma combine_map_snd {A B} (a : list A) (b : list B) : length a = length b -> map snd (combine a b) = b.
Proof. revert b; induction a as [|x a IH]; intros [|y b] H; cbn in *; try lia; try reflexivity. f_equal. apply IH; lia. Qed.
Lemma combine_map_fst {A B} (a : list A) (b : list B) : length a = length b -> map fst (combine a b) = a.
Proof. revert b; induction a as [|x a IH]; intros [|y b] H; cbn in *; try lia; try reflexivity. f_equal. apply IH; lia. Qed.
Lemma zip3_map_1 {A B D} (a : list A) (b : list B) (d : list D) : length b = length a -> length d = length a ->
  map (fun x => fst (fst x)) (zip3 a b d) = a.
Proof. revert b d; induction a as [|x a IH]; intros [|y b] [|z d] H1 H2; cbn in *; try lia; try reflexivity. f_equal. apply IH; lia. Qed.

Lemma chunks_concat_len {A} (n : Z) (l : list A) : 1 <= n -> length (concat (chunks n l)) = length l.
Proof. intros Hn. unfold chunks. apply chunks_aux_concat_len; lia. Qed.

Lemma copy_within_len {A} (l l' : list A) lo hi dst : copy_within l lo hi dst = Some l' -> length l' = length l.
Proof. intros H. apply copy_within_length in H. unfold zlen in H. lia. Qed.

(** * FftFixedOut *)
Theorem xo_pib_shape (s : fstate FftFixedOut) wi wo m s' c o :
  1 <= FftFixedOut_fft_size_out (fs_ctl s) ->
  length (fs_overlaps s) = Z.to_nat (xo_val_channels (fs_ctl s)) ->
  length (fs_bufs s) = Z.to_nat (xo_val_channels (fs_ctl s)) ->
  xo_pib unit_fn s wi wo m = Ok (s', c, o) ->
  map (@length snum) (fs_overlaps s') = map (@length snum) (fs_overlaps s) /\
  map (@length snum) (fs_bufs s') = map (@length snum) (fs_bufs s) /\
  map (@length snum) o = map (@length snum) wo /\ length (fs_mask s') = Z.to_nat (xo_val_channels (fs_ctl s)).
Proof.
  intros Hf Hov Hbf. assert (H0 : 0 <= FftFixedOut_fft_size_out (fs_ctl s)) by lia. unfold xo_pib.
  destruct (prologue _ _ _ m) as [mask| | | |]; cbn [bind]; try discriminate.
  destruct (validate_buffers _ _ _ _ _ _) as [[]| | | |] eqn:Ev; cbn [bind]; try discriminate.
  destruct (validate_lengths _ _ _ _ _ _ Ev) as (Lwi & Lwo & Lm).
  match goal with |- context [per_channel ?f ?xs ?mk] => destruct (per_channel f xs mk) as [r| | | |] eqn:R end; cbn [bind]; try discriminate.
  assert (K3 : map (fun x : list snum * list snum * list snum => length (snd x)) r =
               map (fun x : list snum * list snum * list snum => length (snd x)) (zip3 wi (fs_bufs s) (fs_overlaps s))).
  { eapply per_channel_shape; [|exact R]. intros [[a b] d] [[a' b'] d'].
    destruct (negb (in_range a 0 _)); [discriminate|]. destruct (negb (in_range b _ _)); [discriminate|].
    destruct (_ || _); [discriminate|].
    destruct (run_units _ _ _ _ _ _) as [[os ov1]| | | |] eqn:E; cbn [bind]; try discriminate.
    intros H. injection H as _ _ <-. cbn [snd]. exact (proj2 (run_units_shape _ _ H0 _ _ _ _ _ E)). }
  assert (K2 : map (fun x : list snum * list snum * list snum => length (snd (fst x))) r =
               map (fun x : list snum * list snum * list snum => length (snd (fst x))) (zip3 wi (fs_bufs s) (fs_overlaps s))).
  { eapply per_channel_shape; [|exact R]. intros [[a b] d] [[a' b'] d'].
    destruct (negb (in_range a 0 _)); [discriminate|]. destruct (negb (in_range b _ _)) eqn:Er; [discriminate|].
    destruct (_ || _); [discriminate|].
    destruct (run_units _ _ _ _ _ _) as [[os ov1]| | | |] eqn:E; cbn [bind]; try discriminate.
    intros H. injection H as _ <- _. cbn [snd fst].
    apply negb_false_iff, in_range_iff in Er.
    pose proof (proj1 (run_units_shape _ _ H0 _ _ _ _ _ E)) as L1.
    rewrite app_length, (concat_len_map _ _ L1), chunks_concat_len by (unfold xo_out_chunk; lia).
    rewrite firstn_length, skipn_length. unfold zlen in *. lia. }
  assert (B1 : map (@length snum) (map (fun x : list snum * list snum * list snum => snd (fst x)) r) = map (@length snum) (fs_bufs s)).
  { rewrite map_map, K2, <- map_map, zip3_map_2 by lia. reflexivity. }
  assert (O1 : map (@length snum) (map (fun x : list snum * list snum * list snum => snd x) r) = map (@length snum) (fs_overlaps s)).
  { rewrite map_map, K3, <- map_map, zip3_map_3 by lia. reflexivity. }
  assert (Lb1 : length (map (fun x : list snum * list snum * list snum => snd (fst x)) r) = length wo).
  { apply (f_equal (@length nat)) in B1. rewrite !map_length in B1. rewrite map_length. lia. }
  destruct (xo_enough _ _).
  - match goal with |- context [per_channel ?f ?xs ?mk] => destruct (per_channel f xs mk) as [r2| | | |] eqn:R2 end; cbn [bind]; try discriminate.
    assert (J1 : map (fun x : list snum * list snum => length (fst x)) r2 =
                 map (fun x : list snum * list snum => length (fst x)) (combine wo (map (fun x : list snum * list snum * list snum => snd (fst x)) r))).
    { eapply per_channel_shape; [|exact R2]. intros [a b] [a' b'].
      destruct (negb (in_range a 0 _) || negb (in_range b 0 _)) eqn:Er; [discriminate|].
      destruct (negb (_ =? _)) eqn:Eq; [discriminate|].
      destruct (copy_within _ _ _ _) as [ob'|]; [|discriminate].
      intros H. injection H as <- _. cbn [fst].
      apply orb_false_iff in Er. destruct Er as [Er1 Er2]. apply negb_false_iff, in_range_iff in Er1, Er2.
      apply negb_false_iff, Z.eqb_eq in Eq.
      rewrite app_length, skipn_length. unfold slice, zlen in *. rewrite firstn_length, skipn_length.
      cbn in Er1, Er2, Eq |- *. lia. }
    assert (J2 : map (fun x : list snum * list snum => length (snd x)) r2 =
                 map (fun x : list snum * list snum => length (snd x)) (combine wo (map (fun x : list snum * list snum * list snum => snd (fst x)) r))).
    { eapply per_channel_shape; [|exact R2]. intros [a b] [a' b'].
      destruct (negb (in_range a 0 _) || negb (in_range b 0 _)); [discriminate|]. destruct (negb (_ =? _)); [discriminate|].
      destruct (copy_within _ _ _ _) as [ob'|] eqn:Ec; [|discriminate].
      intros H. injection H as _ <-. cbn [snd]. exact (copy_within_len _ _ _ _ _ Ec). }
    intros H. injection H as <- _ <-. cbn [fs_overlaps fs_bufs fs_mask].
    split; [exact O1|]. split; [|split; [|exact Lm]].
    + rewrite map_map, J2, <- map_map, combine_map_snd by lia. exact B1.
    + rewrite map_map, J1, <- map_map, combine_map_fst by lia. reflexivity.
  - cbn [bind]. intros H. injection H as <- _ <-. cbn [fs_overlaps fs_bufs fs_mask].
    split; [exact O1|]. split; [exact B1|]. split; [reflexivity|exact Lm].
Qed.

Lemma overwrite_len {A} (d s : list A) : length (overwrite d s) = length d.
Proof. revert s; induction d as [|x d IH]; intros [|y s]; cbn; auto. Qed.

(** * FftFixedIn *)
Theorem xi_pib_shape (s : fstate FftFixedIn) wi wo m s' c o :
  1 <= FftFixedIn_fft_size_out (fs_ctl s) ->
  length (fs_overlaps s) = Z.to_nat (xi_val_channels (fs_ctl s)) ->
  length (fs_bufs s) = Z.to_nat (xi_val_channels (fs_ctl s)) ->
  xi_pib unit_fn s wi wo m = Ok (s', c, o) ->
  map (@length snum) (fs_overlaps s') = map (@length snum) (fs_overlaps s) /\
  map (@length snum) (fs_bufs s') = map (@length snum) (fs_bufs s) /\
  map (@length snum) o = map (@length snum) wo /\ length (fs_mask s') = Z.to_nat (xi_val_channels (fs_ctl s)).
Proof.
  intros Hf Hov Hbf. unfold xi_pib.
  destruct (prologue _ _ _ m) as [mask| | | |]; cbn [bind]; try discriminate.
  destruct (validate_buffers _ _ _ _ _ _) as [[]| | | |] eqn:Ev; cbn [bind]; try discriminate.
  destruct (validate_lengths _ _ _ _ _ _ Ev) as (Lwi & Lwo & Lm).
  match goal with |- context [per_channel ?f ?xs ?mk] => destruct (per_channel f xs mk) as [r1| | | |] eqn:R1 end; cbn [bind]; try discriminate.
  assert (I1 : map (fun x : list snum * list snum => length (snd x)) r1 =
               map (fun x : list snum * list snum => length (snd x)) (combine wi (fs_bufs s))).
  { eapply per_channel_shape; [|exact R1]. intros [a b] [a' b']. intros H. injection H as _ <-. cbn [snd].
    rewrite !app_length, firstn_length, skipn_length.
    rewrite overwrite_len, firstn_length, skipn_length. lia. }
  set (bufs1 := map snd r1) in *.
  assert (B1 : map (@length snum) bufs1 = map (@length snum) (fs_bufs s)).
  { unfold bufs1. rewrite map_map, I1, <- map_map, combine_map_snd by lia. reflexivity. }
  assert (Lb1 : length bufs1 = length wo).
  { apply (f_equal (@length nat)) in B1. rewrite !map_length in B1. lia. }
  match goal with |- context [per_channel ?f ?xs ?mk] => destruct (per_channel f xs mk) as [r| | | |] eqn:R end; cbn [bind]; try discriminate.
  assert (K3 : map (fun x : list snum * list snum * list snum => length (snd x)) r =
               map (fun x : list snum * list snum * list snum => length (snd x)) (zip3 bufs1 wo (fs_overlaps s))).
  { eapply per_channel_shape; [|exact R]. intros [[a b] d] [[a' b'] d'].
    destruct (_ || _); [discriminate|].
    destruct (run_units _ _ _ _ _ _) as [[os ov1]| | | |] eqn:E; cbn [bind]; try discriminate.
    intros H. injection H as _ _ <-. cbn [snd].
    refine (proj2 (run_units_shape _ _ _ _ _ _ _ _ E)). cbn. lia. }
  assert (K2 : map (fun x : list snum * list snum * list snum => length (snd (fst x))) r =
               map (fun x : list snum * list snum * list snum => length (snd (fst x))) (zip3 bufs1 wo (fs_overlaps s))).
  { eapply per_channel_shape; [|exact R]. intros [[a b] d] [[a' b'] d'].
    destruct (_ || _); [discriminate|].
    destruct (run_units _ _ _ _ _ _) as [[os ov1]| | | |] eqn:E; cbn [bind]; try discriminate.
    intros H. injection H as _ <- _. cbn [snd fst].
    assert (H0 : 0 <= FftFixedIn_fft_size_out (set_FftFixedIn_saved_frames (fs_ctl s) (xi_saved_mid (fs_ctl s) (xi_next_saved_frames (fs_ctl s))))) by (cbn; lia).
    pose proof (proj1 (run_units_shape _ _ H0 _ _ _ _ _ E)) as L1.
    rewrite (concat_len_map _ _ L1). apply chunks_concat_len. unfold xi_out_chunk. cbn. lia. }
  assert (K1 : map (fun x : list snum * list snum * list snum => length (fst (fst x))) r =
               map (fun x : list snum * list snum * list snum => length (fst (fst x))) (zip3 bufs1 wo (fs_overlaps s))).
  { eapply per_channel_shape; [|exact R]. intros [[a b] d] [[a' b'] d'].
    destruct (_ || _); [discriminate|].
    destruct (run_units _ _ _ _ _ _) as [[os ov1]| | | |]; cbn [bind]; try discriminate.
    intros H. injection H as <- _ _. reflexivity. }
  assert (O1 : map (@length snum) (map (fun x : list snum * list snum * list snum => snd x) r) = map (@length snum) (fs_overlaps s)).
  { rewrite map_map, K3, <- map_map, zip3_map_3 by lia. reflexivity. }
  assert (W1 : map (@length snum) (map (fun x : list snum * list snum * list snum => snd (fst x)) r) = map (@length snum) wo).
  { rewrite map_map, K2, <- map_map, zip3_map_2 by lia. reflexivity. }
  destruct (_ <? 0); [discriminate|].
  destruct (xi_keep_cond _ _).
  - match goal with |- context [per_channel ?f ?xs ?mk] => destruct (per_channel f xs mk) as [r3| | | |] eqn:R3 end; cbn [bind]; try discriminate.
    assert (J : map (@length snum) r3 = map (@length snum) bufs1).
    { eapply per_channel_shape; [|exact R3]. intros a a'. cbv beta. destruct (copy_within a _ _ _) as [x|] eqn:Ec; [|discriminate].
      intros H. injection H as <-. exact (copy_within_len _ _ _ _ _ Ec). }
    intros H. injection H as <- _ <-. cbn [fs_overlaps fs_bufs fs_mask].
    split; [exact O1|]. split; [rewrite J; exact B1|]. split; [exact W1|exact Lm].
  - cbn [bind]. intros H. injection H as <- _ <-. cbn [fs_overlaps fs_bufs fs_mask].
    split; [exact O1|]. split; [exact B1|]. split; [exact W1|exact Lm].
Qed.

End ShapeFft.

(** * reset() after a processing call of a synchronous resampler = reset() before it (C10), in every arithmetic *)
Section ResetFft.
Context {C : CNum} {S : SNum C}.
Variable unit_fn : list snum -> list snum.

Definition fft_wf (r : @rstate C S) : Prop :=
  match r with
  | RFftIn s => 1 <= FftFixedIn_fft_size_out (fs_ctl s) /\
                length (fs_overlaps s) = Z.to_nat (xi_val_channels (fs_ctl s)) /\
                length (fs_bufs s) = Z.to_nat (xi_val_channels (fs_ctl s)) /\
                length (fs_mask s) = Z.to_nat (xi_val_channels (fs_ctl s))
  | RFftOut s => 1 <= FftFixedOut_fft_size_out (fs_ctl s) /\
                length (fs_overlaps s) = Z.to_nat (xo_val_channels (fs_ctl s)) /\
                length (fs_bufs s) = Z.to_nat (xo_val_channels (fs_ctl s)) /\
                length (fs_mask s) = Z.to_nat (xo_val_channels (fs_ctl s))
  | RFftInOut s => 0 <= FftFixedInOut_chunk_size_out (fs_ctl s) /\
                length (fs_overlaps s) = Z.to_nat (xio_val_channels (fs_ctl s)) /\
                length (fs_mask s) = Z.to_nat (xio_val_channels (fs_ctl s))
  | _ => False
  end.

Lemma map_len_len {A} (a b : list (list A)) : map (@length A) a = map (@length A) b -> length a = length b.
Proof. intros H. apply (f_equal (@length nat)) in H. rewrite !map_length in H. exact H. Qed.

Theorem reset_after_pib_fft r wi wo m r' c o :
  fft_wf r -> r_pib unit_fn r wi wo m = Ok (r', c, o) -> r_reset r' = r_reset r /\ fft_wf r'.
Proof.
  intros W. destruct r as [d a|d a|e a|e a|f|f|f]; try contradiction; cbn [r_pib fft_wf] in *.
  - destruct (xi_pib unit_fn f wi wo m) as [[[f' c'] o']| | | |] eqn:E; cbn [bind]; try discriminate.
    intros H. injection H as <- _ _. destruct W as (Hf & Hov & Hbf & Hmk).
    destruct (xi_pib_shape unit_fn f wi wo m f' c' o' Hf Hov Hbf E) as (S1 & S2 & _ & S4).
    pose proof (xi_pib_ctl unit_fn _ _ _ _ _ _ _ E) as K. unfold xi_ctl_next in K. injection K as K _.
    assert (Kc : FftFixedIn_fft_size_out (fs_ctl f') = FftFixedIn_fft_size_out (fs_ctl f) /\
                 xi_val_channels (fs_ctl f') = xi_val_channels (fs_ctl f) /\
                 set_FftFixedIn_saved_frames (fs_ctl f') (xi_reset_saved_frames (fs_ctl f')) =
                 set_FftFixedIn_saved_frames (fs_ctl f) (xi_reset_saved_frames (fs_ctl f))).
    { rewrite K. destruct (fs_ctl f). repeat split; reflexivity. }
    destruct Kc as (K1 & K2 & K3).
    split.
    + cbn [r_reset]. rewrite K3, (zero_like_shape _ _ S1), (zero_like_shape _ _ S2).
      rewrite (map_true_shape (fs_mask f') (fs_mask f)) by lia. reflexivity.
    + cbn [fft_wf]. rewrite K1, K2, (map_len_len _ _ S1), (map_len_len _ _ S2). repeat split; assumption.
  - destruct (xo_pib unit_fn f wi wo m) as [[[f' c'] o']| | | |] eqn:E; cbn [bind]; try discriminate.
    intros H. injection H as <- _ _. destruct W as (Hf & Hov & Hbf & Hmk).
    destruct (xo_pib_shape unit_fn f wi wo m f' c' o' Hf Hov Hbf E) as (S1 & S2 & _ & S4).
    pose proof (xo_pib_ctl unit_fn _ _ _ _ _ _ _ E) as K. unfold xo_ctl_next in K. injection K as K _.
    assert (Kc : FftFixedOut_fft_size_out (fs_ctl f') = FftFixedOut_fft_size_out (fs_ctl f) /\
                 xo_val_channels (fs_ctl f') = xo_val_channels (fs_ctl f) /\
                 (let st := set_FftFixedOut_saved_frames (fs_ctl f') (xo_reset_saved_frames (fs_ctl f')) in
                  set_FftFixedOut_frames_needed st (xo_reset_frames_needed st (xo_reset_chunks_needed st))) =
                 (let st := set_FftFixedOut_saved_frames (fs_ctl f) (xo_reset_saved_frames (fs_ctl f)) in
                  set_FftFixedOut_frames_needed st (xo_reset_frames_needed st (xo_reset_chunks_needed st)))).
    { rewrite K. destruct (xo_enough _ _); destruct (fs_ctl f); repeat split; reflexivity. }
    destruct Kc as (K1 & K2 & K3). cbv zeta in K3.
    split.
    + cbn [r_reset]. cbv zeta. rewrite K3, (zero_like_shape _ _ S1), (zero_like_shape _ _ S2).
      rewrite (map_true_shape (fs_mask f') (fs_mask f)) by lia. reflexivity.
    + cbn [fft_wf]. rewrite K1, K2, (map_len_len _ _ S1), (map_len_len _ _ S2). repeat split; assumption.
  - destruct (xio_pib unit_fn f wi wo m) as [[[f' c'] o']| | | |] eqn:E; cbn [bind]; try discriminate.
    intros H. injection H as <- _ _. destruct W as (Hf & Hov & Hmk).
    destruct (xio_pib_shape unit_fn f wi wo m f' c' o' Hf Hov E) as (S1 & S2 & _ & S4).
    pose proof (xio_pib_ctl unit_fn _ _ _ _ _ _ _ E) as K. unfold xio_ctl_next in K. injection K as K _.
    split.
    + cbn [r_reset]. rewrite K, S2, (zero_like_shape _ _ S1).
      rewrite (map_true_shape (fs_mask f') (fs_mask f)) by lia. reflexivity.
    + cbn [fft_wf]. rewrite K, (map_len_len _ _ S1). repeat split; assumption.
Qed.

End ResetFft.
